// C06 - unknown (any) types never cause a diagnostic.
//
//	sema-vectors <pairs.jsonl> <in.jsonl> <out.jsonl>
//	    runs the real ExprSemanticsChecker on (expression, environment) pairs: the environment is
//	    installed through the exported Update* methods, the expression is parsed by the real parser
//	    and checked by Check.  Every diagnostic is projected to (class by anchor phrase, index of the
//	    token it is attached to).
//	sema-lint <in.jsonl> <out.jsonl> <scratch dir>
//	    lints rendered workflows (optionally next to a local reusable workflow) with Linter.Lint and
//	    projects the diagnostics found at the marked expression sites the same way.
package main

import (
	"encoding/json"
	"fmt"
	"os"
	"path/filepath"
	"sort"
	"strings"

	"github.com/rhysd/actionlint"
)

// semaType is the JSON form of a type of ExprTypes.tla.
type semaType struct {
	K     string     `json:"k"`
	Props []semaProp `json:"props,omitempty"`
	M     *semaType  `json:"m,omitempty"`
	Elem  *semaType  `json:"elem,omitempty"`
	Deref bool       `json:"deref,omitempty"`
}

type semaProp struct {
	N string    `json:"n"`
	T *semaType `json:"t"`
}

// semaEnv: one slot per Update* method; k = "unset" (or a missing slot) means the method is not called.
type semaEnv map[string]*semaType

type semaErr struct {
	C string `json:"c"`
	P int    `json:"p"`
}

func semaBuild(t *semaType) (actionlint.ExprType, error) {
	if t == nil {
		return nil, fmt.Errorf("missing type")
	}
	switch t.K {
	case "any":
		return actionlint.AnyType{}, nil
	case "null":
		return actionlint.NullType{}, nil
	case "number":
		return actionlint.NumberType{}, nil
	case "bool":
		return actionlint.BoolType{}, nil
	case "string":
		return actionlint.StringType{}, nil
	case "arr":
		e, err := semaBuild(t.Elem)
		if err != nil {
			return nil, err
		}
		return &actionlint.ArrayType{Elem: e, Deref: t.Deref}, nil
	case "obj":
		return semaBuildObj(t)
	}
	return nil, fmt.Errorf("unknown type kind %q", t.K)
}

func semaBuildObj(t *semaType) (*actionlint.ObjectType, error) {
	if t == nil || t.K != "obj" {
		return nil, fmt.Errorf("context variables must be typed as objects")
	}
	props := make(map[string]actionlint.ExprType, len(t.Props))
	for _, p := range t.Props {
		pt, err := semaBuild(p.T)
		if err != nil {
			return nil, err
		}
		props[p.N] = pt
	}
	if t.M == nil || t.M.K == "strict" {
		return actionlint.NewStrictObjectType(props), nil
	}
	if t.M.K == "any" {
		if len(props) == 0 {
			return actionlint.NewEmptyObjectType(), nil
		}
		return actionlint.NewObjectType(props), nil
	}
	m, err := semaBuild(t.M)
	if err != nil {
		return nil, err
	}
	if len(props) == 0 {
		return actionlint.NewMapObjectType(m), nil
	}
	return &actionlint.ObjectType{Props: props, Mapped: m}, nil
}

func semaKind(t actionlint.ExprType) string {
	switch t.(type) {
	case actionlint.AnyType:
		return "any"
	case actionlint.NullType:
		return "null"
	case actionlint.NumberType:
		return "number"
	case actionlint.BoolType:
		return "bool"
	case actionlint.StringType:
		return "string"
	case *actionlint.ObjectType:
		return "obj"
	case *actionlint.ArrayType:
		return "arr"
	}
	return "?"
}

// semaAnchors: message class by a stable phrase; order matters (more specific first).
var semaAnchors = []struct{ phrase, class string }{
	{"undefined variable ", "undef-var"},
	{"as element of filtered array", "prop-undef-filtered"},
	{"is not defined in object type", "prop-undef"},
	{"receiver of object dereference ", "deref-recv"},
	{"at object filtering must be type of object", "filter-prop-nonobj"},
	{"elements of object at receiver of object filtering", "filter-map-elem"},
	{"since it has no object element", "filter-noobj"},
	{"receiver of object filtering `.*` must be type of array or object", "filter-recv"},
	{"index access of array must be type of number", "idx-arr-num"},
	{"property access of object must be type of string", "idx-obj-str"},
	{"index access operand must be type of object or array", "idx-operand"},
	{"number of arguments is wrong", "func-argc"},
	{"argument of function call is not assignable", "func-arg"},
	{"undefined function ", "undef-func"},
	{"does not contain placeholder", "format-unused"},
	{"contains placeholder", "format-missing"},
	{"broken JSON string is passed to fromJSON()", "fromjson-broken"},
	{"is not assignable to type \"bool\"", "not-operand"},
	{"value cannot be compared to", "cmp"},
	{"is not allowed here. available context", "ctx-avail"},
	{"is not allowed here. no context is available", "ctx-avail"},
	{"calling function ", "func-avail"},
}

// semaSiteAnchors: diagnostics of rule_expression.go about the evaluated type of a whole placeholder.
var semaSiteAnchors = []struct{ phrase, class string }{
	{"should not be evaluated in template with ${{ }}", "tmpl-eval"},
	{"\"if\" condition should be type \"bool\"", "if-bool"},
	{"must be number but found type", "typed-number"},
	{"type of expression must be bool but found type", "typed-bool"},
	{"at \"runs-on\" must be string or array", "typed-runs-on"},
	{"must be object but found type", "typed-object"},
	{"must be array but found type", "typed-array"},
	{"value cannot be assigned", "call-input"},
	{"must be bool but found type", "input-default"},
}

func semaClass(msg string) string {
	for _, a := range semaAnchors {
		if strings.Contains(msg, a.phrase) {
			return a.class
		}
	}
	return ""
}

func semaSiteClass(msg string) string {
	for _, a := range semaSiteAnchors {
		if strings.Contains(msg, a.phrase) {
			return a.class
		}
	}
	return ""
}

// semaTokenOffsets lexes the expression with the real lexer: byte offsets of its tokens.
func semaTokenOffsets(src string) (offs []int, err error) {
	defer func() {
		if r := recover(); r != nil {
			err = fmt.Errorf("lexer panic: %v", r)
		}
	}()
	l := actionlint.NewExprLexer(src + "}}")
	for i := 0; i < 10000; i++ {
		t := l.Next()
		if t.Kind == actionlint.TokenKindEnd {
			return offs, nil
		}
		if e := l.Err(); e != nil {
			return nil, fmt.Errorf("lex: %s", e.Message)
		}
		offs = append(offs, t.Offset)
	}
	return nil, fmt.Errorf("lexer does not terminate")
}

func semaTokIndex(offs []int, off int) int {
	for i, o := range offs {
		if o == off {
			return i
		}
	}
	return -1
}

type semaRun struct {
	Errs  []semaErr `json:"errs"`
	K     string    `json:"k"`
	Other []string  `json:"other"`
	Fail  string    `json:"fail,omitempty"`
	// Mut: slots of the environment whose type value was changed by Check (reported for C09)
	Mut []string `json:"mut,omitempty"`
}

var semaSlotOrder = []string{"matrix", "steps", "needs", "secrets", "inputs", "dinputs", "jobs"}

// semaCheck: one execution of the real checker.
func semaCheck(text string, env semaEnv) (run semaRun) {
	run = semaRun{Errs: []semaErr{}, Other: []string{}, K: "?"}
	defer func() {
		if r := recover(); r != nil {
			run.Fail = fmt.Sprintf("panic: %v", r)
		}
	}()
	offs, err := semaTokenOffsets(text)
	if err != nil {
		run.Fail = err.Error()
		return run
	}
	expr, perr := actionlint.NewExprParser().Parse(actionlint.NewExprLexer(text + "}}"))
	if perr != nil {
		run.Fail = "parse: " + perr.Message
		return run
	}
	c := actionlint.NewExprSemanticsChecker(false, nil)
	built := map[string]*actionlint.ObjectType{}
	before := map[string]string{}
	for _, slot := range semaSlotOrder { // the order of rule_expression.go checkSemanticsOfExprNode
		t := env[slot]
		if t == nil || t.K == "unset" {
			continue
		}
		o, err := semaBuildObj(t)
		if err != nil {
			run.Fail = "environment: " + err.Error()
			return run
		}
		built[slot] = o
		before[slot] = semaDescribe(o)
		switch slot {
		case "matrix":
			c.UpdateMatrix(o)
		case "steps":
			c.UpdateSteps(o)
		case "needs":
			c.UpdateNeeds(o)
		case "secrets":
			c.UpdateSecrets(o)
		case "inputs":
			c.UpdateInputs(o)
		case "dinputs":
			c.UpdateDispatchInputs(o)
		case "jobs":
			c.UpdateJobs(o)
		}
	}
	// every context is available (availability is the topic of C12, not of this property)
	c.SetContextAvailability([]string{"github", "env", "job", "jobs", "steps", "runner", "secrets", "strategy", "matrix", "needs", "inputs", "vars"})
	ty, errs := c.Check(expr)
	run.K = semaKind(ty)
	seen := map[semaErr]bool{}
	for _, e := range errs {
		cl := semaClass(e.Message)
		idx := semaTokIndex(offs, e.Offset)
		if cl == "" || idx < 0 {
			run.Other = append(run.Other, fmt.Sprintf("%d: %s", e.Offset, e.Message))
			continue
		}
		k := semaErr{cl, idx}
		if !seen[k] {
			seen[k] = true
			run.Errs = append(run.Errs, k)
		}
	}
	sort.Slice(run.Errs, func(i, j int) bool {
		if run.Errs[i].P != run.Errs[j].P {
			return run.Errs[i].P < run.Errs[j].P
		}
		return run.Errs[i].C < run.Errs[j].C
	})
	for _, slot := range semaSlotOrder {
		if o, ok := built[slot]; ok && semaDescribe(o) != before[slot] {
			run.Mut = append(run.Mut, slot)
		}
	}
	return run
}

// semaDescribe: structural description of a type including the Deref flag (String() hides it).
func semaDescribe(t actionlint.ExprType) string {
	switch t := t.(type) {
	case *actionlint.ObjectType:
		ns := make([]string, 0, len(t.Props))
		for n := range t.Props {
			ns = append(ns, n)
		}
		sort.Strings(ns)
		var b strings.Builder
		b.WriteString("{")
		for _, n := range ns {
			b.WriteString(n + ":" + semaDescribe(t.Props[n]) + ";")
		}
		if t.Mapped == nil {
			b.WriteString("}strict")
		} else {
			b.WriteString("}=>" + semaDescribe(t.Mapped))
		}
		return b.String()
	case *actionlint.ArrayType:
		return fmt.Sprintf("arr(%s,%v)", semaDescribe(t.Elem), t.Deref)
	default:
		return t.String()
	}
}

type semaPair struct {
	I  int     `json:"i"`
	G1 semaEnv `json:"g1"`
	G2 semaEnv `json:"g2"`
}

type semaVec struct {
	ID int     `json:"id"`
	I  int     `json:"i"`
	T1 string  `json:"t1"`
	T2 string  `json:"t2"`
	G1 semaEnv `json:"g1,omitempty"`
	G2 semaEnv `json:"g2,omitempty"`
}

type semaOut struct {
	ID int     `json:"id"`
	R1 semaRun `json:"r1"`
	R2 semaRun `json:"r2"`
}

// ------------------------------------------------------------------------------- lint level

type semaSite struct {
	Line int    `json:"line"`
	Col  int    `json:"col"` // 1-based column of the first character of the expression text
	Expr string `json:"expr"`
}

type semaLintIn struct {
	ID     int        `json:"id"`
	Src    string     `json:"src"`
	Callee string     `json:"callee,omitempty"` // text of ./.github/workflows/callee.yml, if any
	Sites  []semaSite `json:"sites"`
}

type semaLintOut struct {
	ID    int         `json:"id"`
	Sites [][]semaErr `json:"sites"` // per site: diagnostics located on its line
	Rest  []Diag      `json:"rest"`  // every other diagnostic
	Other []string    `json:"other"` // diagnostics on a site line that could not be projected
	Fail  string      `json:"fail,omitempty"`
}

func semaLint(v semaLintIn, scratch string) (out semaLintOut) {
	out = semaLintOut{ID: v.ID, Sites: make([][]semaErr, len(v.Sites)), Rest: []Diag{}, Other: []string{}}
	for i := range out.Sites {
		out.Sites[i] = []semaErr{}
	}
	defer func() {
		if r := recover(); r != nil {
			out.Fail = fmt.Sprintf("panic: %v", r)
		}
	}()
	var diags []Diag
	if v.Callee == "" {
		d, err := lintSrc(v.Src)
		if err != nil {
			out.Fail = err.Error()
			return out
		}
		diags = d
	} else {
		root := filepath.Join(scratch, fmt.Sprintf("p%d", v.ID))
		wd := filepath.Join(root, ".github", "workflows")
		if err := os.MkdirAll(wd, 0o755); err != nil {
			out.Fail = err.Error()
			return out
		}
		defer os.RemoveAll(root)
		if err := os.WriteFile(filepath.Join(wd, "callee.yml"), []byte(v.Callee), 0o644); err != nil {
			out.Fail = err.Error()
			return out
		}
		proj, err := actionlint.NewProject(root)
		if err != nil {
			out.Fail = err.Error()
			return out
		}
		l, err := newLinter(nil)
		if err != nil {
			out.Fail = err.Error()
			return out
		}
		errs, err := l.Lint(filepath.Join(wd, "caller.yml"), []byte(v.Src), proj)
		if err != nil {
			out.Fail = err.Error()
			return out
		}
		diags = toDiags(errs)
	}
	offs := make([][]int, len(v.Sites))
	for i, s := range v.Sites {
		o, err := semaTokenOffsets(s.Expr)
		if err != nil {
			out.Fail = fmt.Sprintf("site %d: %v", i, err)
			return out
		}
		offs[i] = o
	}
	for _, d := range diags {
		site := -1
		for i, s := range v.Sites {
			if s.Line == d.Line {
				site = i
			}
		}
		if site < 0 || d.Kind != "expression" {
			out.Rest = append(out.Rest, d)
			continue
		}
		if c := semaSiteClass(d.Msg); c != "" {
			out.Sites[site] = append(out.Sites[site], semaErr{c, -1})
			continue
		}
		c := semaClass(d.Msg)
		idx := semaTokIndex(offs[site], d.Col-v.Sites[site].Col)
		if c == "" || idx < 0 {
			out.Other = append(out.Other, fmt.Sprintf("%d:%d: %s", d.Line, d.Col, d.Msg))
			continue
		}
		out.Sites[site] = append(out.Sites[site], semaErr{c, idx})
	}
	return out
}

func init() {
	register("sema-vectors", func(args []string) error {
		if len(args) != 3 {
			return fmt.Errorf("usage: sema-vectors <pairs.jsonl> <in.jsonl> <out.jsonl>")
		}
		pairs, err := readJSONL[semaPair](args[0])
		if err != nil {
			return err
		}
		tab := map[int]semaPair{}
		for _, p := range pairs {
			tab[p.I] = p
		}
		in, err := readJSONL[semaVec](args[1])
		if err != nil {
			return err
		}
		out := parallelMap(in, func(v semaVec) semaOut {
			g1, g2 := v.G1, v.G2
			if g1 == nil {
				p, ok := tab[v.I]
				if !ok {
					return semaOut{v.ID, semaRun{Fail: "no such pair"}, semaRun{Fail: "no such pair"}}
				}
				g1, g2 = p.G1, p.G2
			}
			t2 := v.T2
			if t2 == "" {
				t2 = v.T1
			}
			return semaOut{v.ID, semaCheck(v.T1, g1), semaCheck(t2, g2)}
		})
		return writeJSONL(args[2], out)
	})
	register("sema-lint", func(args []string) error {
		if len(args) != 3 {
			return fmt.Errorf("usage: sema-lint <in.jsonl> <out.jsonl> <scratch dir>")
		}
		in, err := readJSONL[semaLintIn](args[0])
		if err != nil {
			return err
		}
		out := parallelMap(in, func(v semaLintIn) semaLintOut { return semaLint(v, args[2]) })
		return writeJSONL(args[1], out)
	})
	register("sema-show", func(args []string) error {
		// sema-show '<expression>' '<env json>': one run, printed (debugging / replay aid)
		var env semaEnv
		if err := json.Unmarshal([]byte(args[1]), &env); err != nil {
			return err
		}
		b, _ := json.Marshal(semaCheck(args[0], env))
		fmt.Println(string(b))
		return nil
	})
}
