package main

// C08 - names are matched case-insensitively everywhere (Names.tla).
//
//   names-list <out.json>
//       the scenario templates known to the harness: id, mode, flavours, occurrence roles.  The check
//       compares this list with the catalogue of the specification (both must describe the same
//       (name kind, definition site, use site) combinations).
//   names-run <in.jsonl> <out.jsonl> <scratch dir>
//       every vector (from the TLC state space of Names.tla) = scenario id + name + flavour + one spelling
//       pattern per occurrence role.  The harness renders the scenario twice - BASE (every occurrence in
//       lower case) and FLIPPED (occurrences spelled as the vector says; case changes never change the
//       length of a text, so every position is the same in both) - lints both with the real Linter and
//       writes the two projected diagnostic lists.  The verdict (are they equal?) is taken by the check;
//       nothing of the specification is evaluated here.
//       Scenarios that need other files (reusable workflow, local action, configuration file) are
//       materialised in a temporary repository (a small pool of directories is reused); reusable workflows
//       are read through both real paths (callee file / in-memory AST with the callee registered first,
//       forced with a gate rule added through LinterOptions.OnRulesCreated).
//       A scenario whose name is "*" is instantiated with every entry of an exported table of the real code
//       (BuiltinGlobalVariableTypes, BuiltinFuncSignatures, PopularActions).
//   names-corpus <repo dir> <out.jsonl> <pattern>...     see the corpus section below
//
// Occurrence markers in templates:  «1:name» definition (pattern p1), «2:name» use (pattern p2),
// «a:name» other case-insensitive names on the way (pattern pa).  In the "sink" scenario the markers are
// numbered in order of appearance and the vector lists the flipped occurrences.

import (
	"encoding/json"
	"fmt"
	"os"
	"path/filepath"
	"regexp"
	"sort"
	"strings"
	"sync"
	"time"

	"github.com/rhysd/actionlint"
)

const (
	nmMain   = ".github/workflows/main.yml"
	nmCallee = ".github/workflows/callee.yml"
	nmAction = ".github/actions/x/action.yml"
	nmConfig = ".github/actionlint.yaml"
)

type nmFlip struct {
	I int    `json:"i"`
	P string `json:"p"`
}

type nmVec struct {
	ID      int      `json:"id"`
	Sid     string   `json:"sid"`
	Name    string   `json:"name"`
	Alt     string   `json:"alt"`
	Flavour string   `json:"flavour"`
	P1      string   `json:"p1"`
	P2      string   `json:"p2"`
	Pa      string   `json:"pa"`
	Flips   []nmFlip `json:"flips,omitempty"` // sink
	Inv     bool     `json:"inv,omitempty"`   // sink: flip every occurrence except the listed ones
	Seed    int      `json:"seed,omitempty"`  // sweeps: sample selection
	Limit   int      `json:"limit,omitempty"` // sweeps: sample size (0 = everything)
	Texts   bool     `json:"texts,omitempty"` // always return the rendered texts
}

type nmDiag struct {
	File  string `json:"file"`
	Line  int    `json:"line"`
	Col   int    `json:"col"`
	Kind  string `json:"kind"`
	Class string `json:"class"`
	Key   string `json:"key"` // message, case-folded, quoted names of a list sorted
	Msg   string `json:"msg"`
}

type nmOut struct {
	ID    int               `json:"id"`
	Inst  string            `json:"inst"`
	Base  []nmDiag          `json:"base"`
	Flip  []nmDiag          `json:"flip"`
	Other []string          `json:"other"`
	NOcc  int               `json:"nocc"`
	NFlip int               `json:"nflip"` // occurrences whose spelling differs from the base
	Files map[string]string `json:"files,omitempty"`
	FlipF map[string]string `json:"flipFiles,omitempty"`
}

type nmInst struct {
	Label string
	Vars  map[string]string
}

type nmScen struct {
	Sid  string
	Mode string                       // src | repo | repo-ast
	Tpl  map[string]map[string]string // flavour -> relative path -> template
	Inst func(v nmVec) []nmInst       // nil: one instance, variables $N $A $U from the vector
}

// ----------------------------------------------------------------------------------- spelling

// spelling used by GitHub's documentation where it is not all lower case (pattern "doc")
var nmDocSpelling = map[string]string{
	"startswith": "startsWith", "endswith": "endsWith", "tojson": "toJSON", "fromjson": "fromJSON", "hashfiles": "hashFiles",
}

func nmSpell(name, pat string) string {
	switch pat {
	case "lower":
		return strings.ToLower(name)
	case "doc":
		if d, ok := nmDocSpelling[strings.ToLower(name)]; ok {
			return d
		}
		return strings.ToLower(name)
	case "UPPER":
		return strings.ToUpper(name)
	case "Mixed", "mixed2":
		up := pat == "Mixed"
		var sb strings.Builder
		for _, r := range strings.ToLower(name) {
			if r >= 'a' && r <= 'z' {
				if up {
					sb.WriteRune(r - 'a' + 'A')
				} else {
					sb.WriteRune(r)
				}
				up = !up
			} else {
				sb.WriteRune(r)
			}
		}
		return sb.String()
	}
	panic("unknown spelling pattern " + pat)
}

var nmMarker = regexp.MustCompile(`«([12a]):([^»]*)»`)

// nmRender replaces the markers of one template.  pick(role, ordinal) gives the pattern.
func nmRender(tpl string, counter *int, pick func(role string, n int) string, nflip *int) string {
	return nmMarker.ReplaceAllStringFunc(tpl, func(m string) string {
		sm := nmMarker.FindStringSubmatch(m)
		*counter++
		base := nmSpell(sm[2], "lower")
		s := nmSpell(sm[2], pick(sm[1], *counter))
		if s != base {
			*nflip++
		}
		return s
	})
}

func nmSubst(tpl string, vars map[string]string) string {
	keys := make([]string, 0, len(vars))
	for k := range vars {
		keys = append(keys, k)
	}
	sort.Slice(keys, func(i, j int) bool {
		return len(keys[i]) > len(keys[j]) || len(keys[i]) == len(keys[j]) && keys[i] < keys[j]
	})
	for _, k := range keys {
		tpl = strings.ReplaceAll(tpl, k, vars[k])
	}
	return tpl
}

// ----------------------------------------------------------------------------- classification

var nmClasses = []struct{ kind, anchor, class string }{
	{"expression", "is not defined in object type", "undefined-prop"},
	{"expression", "undefined variable", "undefined-var"},
	{"expression", "undefined function", "undefined-func"},
	{"expression", "is not allowed here", "not-available"},
	{"expression", "is potentially untrusted", "untrusted"},
	{"expression", "does not contain placeholder", "format-unused-arg"},
	{"expression", "contains placeholder", "format-missing-arg"},
	{"expression", "broken JSON string", "broken-json"},
	{"expression", "undefined configuration variable", "undefined-configvar"},
	{"expression", "no configuration variable is allowed", "undefined-configvar"},
	{"expression", "is typed as", "input-type"},
	{"expression", "must be type of object but got", "deref-non-object"},
	{"expression", "receiver of object dereference", "deref-non-object"},
	{"expression", "object, array, and null values should not be evaluated in template", "object-in-template"},
	{"expression", "index access operand must be", "index-non-object"},
	{"id", "duplicates", "dup-step-id"},
	{"id", "invalid", "invalid-id"},
	{"job-needs", "does not exist in this workflow", "needs-unknown-job"},
	{"job-needs", "duplicates in \"needs\" section", "dup-needs"},
	{"job-needs", "cyclic dependencies", "needs-cycle"},
	{"syntax-check", "is duplicated in", "dup-key"},
	{"syntax-check", "unexpected key", "unexpected-key"},
	{"syntax-check", "section is missing in job", "missing-section"},
	{"syntax-check", "section is missing in workflow", "missing-section"},
	{"syntax-check", "is only available for a reusable workflow call", "call-only-key"},
	{"syntax-check", "is missing at", "missing-attr"},
	{"syntax-check", "step must run script with \"run\" section or run action with \"uses\" section", "missing-section"},
	{"syntax-check", "this step is for running", "step-kind-conflict"},
	{"syntax-check", "should not be empty", "empty-section"},
	{"syntax-check", "\"workflow_call\" event trigger is not found", "callee-not-callable"},
	{"action", "is not defined in action", "undefined-action-input"},
	{"action", "could not parse action metadata", "action-metadata-error"},
	{"action", "which is required by action", "missing-action-input"},
	{"workflow-call", "is not defined in", "undefined-call-name"},
	{"workflow-call", "is required by", "missing-call-name"},
	{"matrix", "in \"exclude\" section does not exist in matrix", "exclude-unknown-key"},
	{"matrix", "in \"exclude\" does not match in matrix", "exclude-no-match"},
	{"matrix", "duplicate value", "matrix-dup-value"},
	{"permissions", "unknown permission scope", "unknown-scope"},
	{"events", "unknown Webhook event", "unknown-event"},
}

var nmQuoted = regexp.MustCompile(`"(?:[^"\\]|\\.)*"`)

// nmKey: the message with letter case folded and the quoted strings moved to a sorted list, so that a
// list of names that is sorted by spelling compares equal after a case change.
func nmKey(msg string) string {
	low := strings.ToLower(msg)
	qs := nmQuoted.FindAllString(low, -1)
	sort.Strings(qs)
	return nmQuoted.ReplaceAllString(low, "§") + " | " + strings.Join(qs, ",")
}

func nmProject(errs []*actionlint.Error, root string) []nmDiag {
	out := make([]nmDiag, 0, len(errs))
	for _, e := range errs {
		class := "other"
		for _, c := range nmClasses {
			if c.kind == e.Kind && strings.Contains(e.Message, c.anchor) {
				class = c.class
				break
			}
		}
		f := filepath.ToSlash(e.Filepath)
		if root != "" {
			if r, err := filepath.Rel(root, e.Filepath); err == nil && !strings.HasPrefix(r, "..") {
				f = filepath.ToSlash(r)
			}
		}
		msg := e.Message
		if root != "" {
			msg = strings.ReplaceAll(msg, root, "<root>")
		}
		out = append(out, nmDiag{File: f, Line: e.Line, Col: e.Column, Kind: e.Kind, Class: class, Key: nmKey(msg), Msg: msg})
	}
	sort.SliceStable(out, func(i, j int) bool {
		a, b := out[i], out[j]
		if a.File != b.File {
			return a.File < b.File
		}
		if a.Line != b.Line {
			return a.Line < b.Line
		}
		if a.Col != b.Col {
			return a.Col < b.Col
		}
		if a.Kind != b.Kind {
			return a.Kind < b.Kind
		}
		return a.Key < b.Key
	})
	return out
}

// -------------------------------------------------------------------------------- execution

// gate: the callee is registered in the reusable workflow cache before the caller is checked
type nmGateState struct {
	calleeReg chan struct{}
	once      sync.Once
	mu        sync.Mutex
	timeouts  int
}
type nmGate struct {
	actionlint.RuleBase
	st *nmGateState
}

func nmIsCallee(w *actionlint.Workflow) bool {
	for _, e := range w.On {
		if _, ok := e.(*actionlint.WorkflowCallEvent); ok {
			return true
		}
	}
	return false
}

func (g *nmGate) VisitWorkflowPre(w *actionlint.Workflow) error {
	// appended after the built-in rules: RuleWorkflowCall.VisitWorkflowPre of this file has run
	if nmIsCallee(w) {
		g.st.once.Do(func() { close(g.st.calleeReg) })
		return nil
	}
	select {
	case <-g.st.calleeReg:
	case <-time.After(180 * time.Second):
		g.st.mu.Lock()
		g.st.timeouts++
		g.st.mu.Unlock()
	}
	return nil
}

type nmRepo struct {
	root  string
	files map[string]bool
}

var (
	nmRepoMu   sync.Mutex
	nmRepoFree []*nmRepo
	nmRepoN    int
)

func nmTakeRepo(hint string) *nmRepo {
	nmRepoMu.Lock()
	defer nmRepoMu.Unlock()
	if n := len(nmRepoFree); n > 0 {
		r := nmRepoFree[n-1]
		nmRepoFree = nmRepoFree[:n-1]
		return r
	}
	nmRepoN++
	root := filepath.Join(filepath.Dir(hint), fmt.Sprintf("repo%d", nmRepoN))
	_ = os.RemoveAll(root)
	if err := os.MkdirAll(filepath.Join(root, ".git"), 0o755); err != nil {
		panic(err)
	}
	if err := os.MkdirAll(filepath.Join(root, ".github", "workflows"), 0o755); err != nil {
		panic(err)
	}
	return &nmRepo{root: root, files: map[string]bool{}}
}

func nmGiveRepo(r *nmRepo) {
	nmRepoMu.Lock()
	nmRepoFree = append(nmRepoFree, r)
	nmRepoMu.Unlock()
}

func nmLint(mode, root string, files map[string]string) ([]nmDiag, []string) {
	var other []string
	if mode == "src" {
		l, err := newLinter(nil)
		if err != nil {
			return nil, []string{"error: " + err.Error()}
		}
		errs, err := l.Lint("main.yml", []byte(files[nmMain]), nil)
		if err != nil {
			return nil, []string{"error: " + err.Error()}
		}
		return nmProject(errs, ""), nil
	}
	// temporary repositories are reused: files of the previous occupant that are not part of this
	// rendering are removed, the others are overwritten
	repo := nmTakeRepo(root)
	defer nmGiveRepo(repo)
	root = repo.root
	for rel := range repo.files {
		if _, ok := files[rel]; !ok {
			_ = os.Remove(filepath.Join(root, filepath.FromSlash(rel)))
			delete(repo.files, rel)
		}
	}
	for rel, text := range files {
		p := filepath.Join(root, filepath.FromSlash(rel))
		if !repo.files[rel] {
			if err := os.MkdirAll(filepath.Dir(p), 0o755); err != nil {
				return nil, []string{"error: " + err.Error()}
			}
		}
		if err := os.WriteFile(p, []byte(text), 0o644); err != nil {
			return nil, []string{"error: " + err.Error()}
		}
		repo.files[rel] = true
	}
	opts := &actionlint.LinterOptions{WorkingDir: root}
	main := filepath.Join(root, filepath.FromSlash(nmMain))
	var errs []*actionlint.Error
	var err error
	if mode == "repo-ast" {
		st := &nmGateState{calleeReg: make(chan struct{})}
		opts.OnRulesCreated = func(rules []actionlint.Rule) []actionlint.Rule {
			return append(rules, &nmGate{RuleBase: actionlint.NewRuleBase("verif-gate", "schedule gate"), st: st})
		}
		l, e := newLinter(opts)
		if e != nil {
			return nil, []string{"error: " + e.Error()}
		}
		errs, err = l.LintFiles([]string{filepath.Join(root, filepath.FromSlash(nmCallee)), main}, nil)
		if st.timeouts > 0 {
			other = append(other, "schedule gate timed out")
		}
	} else {
		l, e := newLinter(opts)
		if e != nil {
			return nil, []string{"error: " + e.Error()}
		}
		errs, err = l.LintFile(main, nil)
	}
	if err != nil {
		return nil, append(other, "error: "+err.Error())
	}
	return nmProject(errs, root), other
}

func nmRenderFiles(tpls map[string]string, vars map[string]string, pick func(role string, n int) string) (map[string]string, int, int) {
	rels := make([]string, 0, len(tpls))
	for r := range tpls {
		rels = append(rels, r)
	}
	sort.Strings(rels)
	out := map[string]string{}
	n, nf := 0, 0
	for _, r := range rels {
		out[r] = nmRender(nmSubst(tpls[r], vars), &n, pick, &nf)
	}
	return out, n, nf
}

func nmRunVec(v nmVec, scratch string) (outs []nmOut) {
	fail := func(msg string) []nmOut {
		return []nmOut{{ID: v.ID, Other: []string{msg}, Base: []nmDiag{}, Flip: []nmDiag{}}}
	}
	defer func() {
		if r := recover(); r != nil {
			outs = fail(fmt.Sprintf("panic: %v", r))
		}
	}()
	sc, ok := nmScenIndex[v.Sid]
	if !ok {
		return fail("unknown scenario " + v.Sid)
	}
	tpls, ok := sc.Tpl[v.Flavour]
	if !ok {
		return fail("scenario " + v.Sid + " has no flavour " + v.Flavour)
	}
	var insts []nmInst
	if sc.Inst != nil {
		insts = sc.Inst(v)
	} else {
		insts = []nmInst{{Label: "", Vars: map[string]string{}}}
	}
	flips := map[int]string{}
	for _, f := range v.Flips {
		flips[f.I] = f.P
	}
	pickBase := func(string, int) string { return "lower" }
	pickFlip := func(role string, n int) string {
		if v.Sid == "sink" {
			p, listed := flips[n]
			if v.Inv {
				if listed {
					return "lower"
				}
				return "UPPER"
			}
			if listed {
				return p
			}
			return "lower"
		}
		switch role {
		case "1":
			return v.P1
		case "2":
			return v.P2
		}
		return v.Pa
	}
	for k, in := range insts {
		vars := map[string]string{"$N": v.Name, "$A": v.Alt, "$U": v.Name}
		if v.Flavour == "undef" {
			vars["$U"] = v.Alt
		}
		for key, val := range in.Vars {
			vars[key] = val
		}
		bf, n, _ := nmRenderFiles(tpls, vars, pickBase)
		ff, _, nf := nmRenderFiles(tpls, vars, pickFlip)
		o := nmOut{ID: v.ID, Inst: in.Label, Other: []string{}, NOcc: n, NFlip: nf}
		for r := range bf {
			if len(bf[r]) != len(ff[r]) {
				o.Other = append(o.Other, "renderer: texts differ in length: "+r)
			}
		}
		root := filepath.Join(scratch, fmt.Sprintf("v%d-%d", v.ID, k))
		// the base rendering does not depend on the patterns: lint it once per (scenario, instance, name, flavour)
		ce, _ := nmBaseCache.LoadOrStore(strings.Join([]string{v.Sid, in.Label, v.Name, v.Alt, v.Flavour}, "|"), &nmBaseEntry{})
		be := ce.(*nmBaseEntry)
		be.once.Do(func() { be.diags, be.other = nmLint(sc.Mode, root+"b", bf) })
		o.Base = be.diags
		o.Other = append(o.Other, be.other...)
		var oth []string
		o.Flip, oth = nmLint(sc.Mode, root+"f", ff)
		o.Other = append(o.Other, oth...)
		if o.Base == nil {
			o.Base = []nmDiag{}
		}
		if o.Flip == nil {
			o.Flip = []nmDiag{}
		}
		if v.Texts || !nmSameDiags(o.Base, o.Flip) || len(o.Other) > 0 {
			o.Files, o.FlipF = bf, ff
		}
		outs = append(outs, o)
	}
	return outs
}

type nmBaseEntry struct {
	once  sync.Once
	diags []nmDiag
	other []string
}

var nmBaseCache sync.Map

// only decides whether the texts are attached to the record; the verdict is taken by the check
func nmSameDiags(a, b []nmDiag) bool {
	if len(a) != len(b) {
		return false
	}
	for i := range a {
		x, y := a[i], b[i]
		if x.File != y.File || x.Line != y.Line || x.Col != y.Col || x.Kind != y.Kind || x.Class != y.Class || x.Key != y.Key {
			return false
		}
	}
	return true
}

// ------------------------------------------------------------------------- instance builders

// nmPathExpr: `«a:github».«a:event».«2:name»` (dot) or `...['«2:name»']` (index) for a dotted path
func nmPathExpr(path string, index bool) string {
	segs := strings.Split(path, ".")
	var sb strings.Builder
	for i, s := range segs {
		role := "a"
		if i == len(segs)-1 {
			role = "2"
		}
		switch {
		case s == "*":
			sb.WriteString(".*")
		case i == 0:
			sb.WriteString("«" + role + ":" + s + "»")
		case index && i == len(segs)-1:
			sb.WriteString("['«" + role + ":" + s + "»']")
		default:
			sb.WriteString(".«" + role + ":" + s + "»")
		}
	}
	return sb.String()
}

func nmPathInst(index bool) func(v nmVec) []nmInst {
	return func(v nmVec) []nmInst {
		p := v.Name
		if v.Flavour == "undef" {
			p = v.Alt
		}
		return []nmInst{{Vars: map[string]string{"$PATH": nmPathExpr(p, index)}}}
	}
}

var nmFuncArgs = map[string]string{
	"contains":   "('abc', 'b')",
	"startswith": "('abc', 'a')",
	"endswith":   "('abc', 'c')",
	"format":     "('{0}', 'a')",
	"join":       "(github.event.labels.*.name, ',')",
	"tojson":     "(github.event)",
	"fromjson":   "('1')",
	"hashfiles":  "('a.txt')",
	"success":    "()",
	"always":     "()",
	"cancelled":  "()",
	"failure":    "()",
}

func nmCallInst(v nmVec) []nmInst {
	args, ok := nmFuncArgs[strings.ToLower(v.Name)]
	if !ok {
		panic("no argument list for function " + v.Name)
	}
	n := v.Name
	if v.Flavour == "undef" {
		n = v.Alt
	}
	return []nmInst{{Vars: map[string]string{"$CALL": "«2:" + n + "»" + args}}}
}

// every property path of the exported table of built-in context types
func nmBuiltinPaths() []string {
	var out []string
	var walk func(prefix string, t actionlint.ExprType)
	walk = func(prefix string, t actionlint.ExprType) {
		out = append(out, prefix)
		if o, ok := t.(*actionlint.ObjectType); ok {
			keys := make([]string, 0, len(o.Props))
			for k := range o.Props {
				keys = append(keys, k)
			}
			sort.Strings(keys)
			for _, k := range keys {
				walk(prefix+"."+k, o.Props[k])
			}
		}
	}
	ctxs := make([]string, 0, len(actionlint.BuiltinGlobalVariableTypes))
	for c := range actionlint.BuiltinGlobalVariableTypes {
		ctxs = append(ctxs, c)
	}
	sort.Strings(ctxs)
	for _, c := range ctxs {
		walk(c, actionlint.BuiltinGlobalVariableTypes[c])
	}
	return out
}

func nmSweepProps(index bool) func(v nmVec) []nmInst {
	return func(v nmVec) []nmInst {
		var out []nmInst
		for _, p := range nmBuiltinPaths() {
			if index && !strings.Contains(p, ".") {
				continue
			}
			out = append(out, nmInst{Label: p, Vars: map[string]string{"$PATH": nmPathExpr(p, index)}})
		}
		return out
	}
}

func nmSweepFuncs(v nmVec) []nmInst {
	names := make([]string, 0, len(actionlint.BuiltinFuncSignatures))
	for n := range actionlint.BuiltinFuncSignatures {
		names = append(names, n)
	}
	sort.Strings(names)
	var out []nmInst
	for _, n := range names {
		args, ok := nmFuncArgs[n]
		if !ok {
			args = "()"
		}
		out = append(out, nmInst{Label: n, Vars: map[string]string{"$CALL": "«2:" + n + "»" + args}})
	}
	return out
}

// bundled action table: every input as `with:` key, every output as steps.s1.outputs.<name>
func nmSweepPopular(v nmVec) []nmInst {
	specs := make([]string, 0, len(actionlint.PopularActions))
	for s := range actionlint.PopularActions {
		specs = append(specs, s)
	}
	sort.Strings(specs)
	if v.Limit > 0 && v.Limit < len(specs) {
		// deterministic sample: stride through the sorted table starting at the seed
		step := len(specs) / v.Limit
		var pick []string
		for i := v.Seed % step; i < len(specs) && len(pick) < v.Limit; i += step {
			pick = append(pick, specs[i])
		}
		specs = pick
	}
	ident := regexp.MustCompile(`^[A-Za-z_][A-Za-z0-9_-]*$`)
	var out []nmInst
	for _, spec := range specs {
		meta := actionlint.PopularActions[spec]
		var with, refs strings.Builder
		ins := make([]string, 0, len(meta.Inputs))
		for _, i := range meta.Inputs {
			ins = append(ins, i.Name)
		}
		sort.Strings(ins)
		for _, n := range ins {
			if !ident.MatchString(n) {
				continue
			}
			with.WriteString("          «2:" + n + "»: v\n")
		}
		os := make([]string, 0, len(meta.Outputs))
		for _, o := range meta.Outputs {
			os = append(os, o.Name)
		}
		sort.Strings(os)
		for _, n := range os {
			if !ident.MatchString(n) {
				continue
			}
			refs.WriteString(" ${{ «a:steps».«a:s1».«a:outputs».«2:" + n + "» }}")
		}
		w := with.String()
		if w == "" {
			w = "          «2:verif-none»: v\n"
		}
		out = append(out, nmInst{Label: spec, Vars: map[string]string{"$SPEC": spec, "$WITH": strings.TrimRight(w, "\n"), "$REFS": refs.String()}})
	}
	return out
}

// --------------------------------------------------------------------------------- templates

func nmT(flavours string, files ...string) map[string]map[string]string {
	m := map[string]string{}
	for i := 0; i+1 < len(files); i += 2 {
		m[files[i]] = strings.TrimLeft(files[i+1], "\n")
	}
	out := map[string]map[string]string{}
	for _, f := range strings.Split(flavours, ",") {
		out[f] = m
	}
	return out
}

func nmMerge(ms ...map[string]map[string]string) map[string]map[string]string {
	out := map[string]map[string]string{}
	for _, m := range ms {
		for k, v := range m {
			out[k] = v
		}
	}
	return out
}

// one job with one step running `echo <expr>`
func nmStepExpr(expr string) string {
	return `
on: push
jobs:
  j1:
    runs-on: ubuntu-latest
    steps:
      - run: echo ${{ ` + expr + ` }}
`
}

const nmActionHead = `
name: x
description: d
`
const nmActionTail = `
runs:
  using: composite
  steps:
    - run: echo
      shell: bash
`

var nmScens = []nmScen{
	// ------------------------------------------------------------------ contexts
	{Sid: "ctx.builtin.var", Mode: "src", Tpl: nmT("ok,undef", nmMain, nmStepExpr("tojson(«2:$U»)"))},
	{Sid: "ctx.builtin.avail-ok", Mode: "src", Tpl: nmT("ok", nmMain, `
on: push
env:
  V: ${{ tojson(«2:$N») }}
jobs:
  j1:
    runs-on: ubuntu-latest
    steps:
      - run: echo
`)},
	{Sid: "ctx.builtin.avail-no", Mode: "src", Tpl: nmT("diag", nmMain, `
on: push
env:
  V: ${{ tojson(«2:$N») }}
jobs:
  j1:
    runs-on: ubuntu-latest
    steps:
      - run: echo
`)},
	// ---------------------------------------------------------------- properties
	{Sid: "prop.builtin.dot", Mode: "src", Inst: nmPathInst(false), Tpl: nmT("ok,undef", nmMain, nmStepExpr("tojson($PATH)"))},
	{Sid: "prop.builtin.index", Mode: "src", Inst: nmPathInst(true), Tpl: nmT("ok,undef", nmMain, nmStepExpr("tojson($PATH)"))},
	{Sid: "prop.builtin.sweep-dot", Mode: "src", Inst: nmSweepProps(false), Tpl: nmT("any", nmMain, nmStepExpr("tojson($PATH)"))},
	{Sid: "prop.builtin.sweep-index", Mode: "src", Inst: nmSweepProps(true), Tpl: nmT("any", nmMain, nmStepExpr("tojson($PATH)"))},
	{Sid: "prop.untrusted.dot", Mode: "src", Inst: nmPathInst(false), Tpl: nmT("diag", nmMain, nmStepExpr("$PATH"))},
	{Sid: "prop.untrusted.index", Mode: "src", Inst: nmPathInst(true), Tpl: nmT("diag", nmMain, nmStepExpr("$PATH"))},
	{Sid: "prop.step-member.dot", Mode: "src", Tpl: nmT("ok,undef", nmMain, `
on: push
jobs:
  j1:
    runs-on: ubuntu-latest
    steps:
      - id: s1
        run: echo
      - run: echo ${{ tojson(«a:steps».«a:s1».«2:$U») }}
`)},
	{Sid: "prop.needs-member.dot", Mode: "src", Tpl: nmT("ok,undef", nmMain, `
on: push
jobs:
  j1:
    runs-on: ubuntu-latest
    steps:
      - run: echo
  j2:
    needs: [j1]
    runs-on: ubuntu-latest
    steps:
      - run: echo ${{ tojson(«a:needs».«a:j1».«2:$U») }}
`)},
	{Sid: "prop.configvar.dot", Mode: "repo", Tpl: nmT("ok,undef", nmConfig, `
config-variables:
  - «1:$N»
  - other
`, nmMain, nmStepExpr("«a:vars».«2:$U»"))},
	{Sid: "prop.configvar.index", Mode: "repo", Tpl: nmT("ok", nmConfig, `
config-variables:
  - «1:$N»
  - other
`, nmMain, nmStepExpr("«a:vars»['«2:$U»']"))},
	// ----------------------------------------------------------------- functions
	{Sid: "func.builtin.call", Mode: "src", Inst: nmCallInst, Tpl: nmT("ok,undef", nmMain, `
on: push
jobs:
  j1:
    runs-on: ubuntu-latest
    steps:
      - run: echo
        if: ${{ $CALL }}
`)},
	{Sid: "func.builtin.sweep", Mode: "src", Inst: nmSweepFuncs, Tpl: nmT("any", nmMain, `
on: push
jobs:
  j1:
    runs-on: ubuntu-latest
    steps:
      - run: echo
        if: ${{ $CALL }}
`)},
	{Sid: "func.special.not-allowed", Mode: "src", Inst: nmCallInst, Tpl: nmT("diag", nmMain, `
on: push
jobs:
  j1:
    runs-on: ubuntu-latest
    env:
      V: ${{ $CALL }}
    steps:
      - run: echo
`)},
	{Sid: "func.format.arg-check", Mode: "src", Tpl: nmT("diag", nmMain, nmStepExpr("«2:format»('{0}', 'a', 'b')"))},
	{Sid: "func.fromjson.typed", Mode: "src", Tpl: nmT("diag", nmMain, nmStepExpr("«2:fromjson»('{\"a\":1}').b"))},
	{Sid: "func.safe-call.untrusted-arg", Mode: "src", Tpl: nmT("ok", nmMain, nmStepExpr("«2:$N»(github.event.issue.title, 'x')"))},
	{Sid: "func.unsafe-call.untrusted-arg", Mode: "src", Tpl: nmT("diag", nmMain, nmStepExpr("«2:format»('{0}', github.event.issue.title)"))},
	// ------------------------------------------------------------------ step ids
	{Sid: "stepid.id.dot", Mode: "src", Tpl: nmT("ok,undef", nmMain, `
on: push
jobs:
  j1:
    runs-on: ubuntu-latest
    steps:
      - id: «1:$N»
        run: echo
      - run: echo ${{ «a:steps».«2:$U».«a:outcome» }}
`)},
	{Sid: "stepid.id.index", Mode: "src", Tpl: nmT("ok,undef", nmMain, `
on: push
jobs:
  j1:
    runs-on: ubuntu-latest
    steps:
      - id: «1:$N»
        run: echo
      - run: echo ${{ «a:steps»['«2:$U»'].«a:outcome» }}
`)},
	{Sid: "stepid.id.job-outputs", Mode: "src", Tpl: nmT("ok,undef", nmMain, `
on: push
jobs:
  j1:
    runs-on: ubuntu-latest
    outputs:
      o: ${{ «a:steps».«2:$U».«a:outputs».v }}
    steps:
      - id: «1:$N»
        run: echo
`)},
	{Sid: "stepid.id.dup", Mode: "src", Tpl: nmT("dup", nmMain, `
on: push
jobs:
  j1:
    runs-on: ubuntu-latest
    steps:
      - id: «1:$N»
        run: echo
      - id: «2:$N»
        run: echo
`)},
	// ------------------------------------------------------------------- job ids
	{Sid: "jobid.jobs-key.needs-scalar", Mode: "src", Tpl: nmT("ok,undef", nmMain, `
on: push
jobs:
  «1:$N»:
    runs-on: ubuntu-latest
    steps:
      - run: echo
  j2:
    needs: «2:$U»
    runs-on: ubuntu-latest
    steps:
      - run: echo
`)},
	{Sid: "jobid.jobs-key.needs-list", Mode: "src", Tpl: nmT("ok,undef", nmMain, `
on: push
jobs:
  «1:$N»:
    runs-on: ubuntu-latest
    steps:
      - run: echo
  j2:
    needs: [j0, «2:$U»]
    runs-on: ubuntu-latest
    steps:
      - run: echo
  j0:
    runs-on: ubuntu-latest
    steps:
      - run: echo
`)},
	{Sid: "jobid.jobs-key.needs-ctx-dot", Mode: "src", Tpl: nmT("ok,undef", nmMain, `
on: push
jobs:
  «1:$N»:
    runs-on: ubuntu-latest
    steps:
      - run: echo
  j2:
    needs: [«a:$N»]
    runs-on: ubuntu-latest
    steps:
      - run: echo ${{ «a:needs».«2:$U».«a:result» }}
`)},
	{Sid: "jobid.jobs-key.needs-ctx-index", Mode: "src", Tpl: nmT("ok,undef", nmMain, `
on: push
jobs:
  «1:$N»:
    runs-on: ubuntu-latest
    steps:
      - run: echo
  j2:
    needs: [«a:$N»]
    runs-on: ubuntu-latest
    steps:
      - run: echo ${{ «a:needs»['«2:$U»'].«a:result» }}
`)},
	{Sid: "jobid.needs-entry.needs-ctx-dot", Mode: "src", Tpl: nmT("ok", nmMain, `
on: push
jobs:
  «a:$N»:
    runs-on: ubuntu-latest
    steps:
      - run: echo
  j2:
    needs: [«1:$N»]
    runs-on: ubuntu-latest
    steps:
      - run: echo ${{ «a:needs».«2:$N».«a:result» }}
`)},
	{Sid: "jobid.jobs-key.jobs-ctx", Mode: "src", Tpl: nmT("ok,undef", nmMain, `
on:
  workflow_call:
    outputs:
      r:
        value: ${{ «a:jobs».«2:$U».«a:outputs».o }}
jobs:
  «1:$N»:
    runs-on: ubuntu-latest
    outputs:
      o: x
    steps:
      - run: echo
`)},
	{Sid: "jobid.jobs-key.dup", Mode: "src", Tpl: nmT("dup", nmMain, `
on: push
jobs:
  «1:$N»:
    runs-on: ubuntu-latest
    steps:
      - run: echo
  «2:$N»:
    runs-on: ubuntu-latest
    steps:
      - run: echo
`)},
	{Sid: "jobid.needs-entry.dup", Mode: "src", Tpl: nmT("dup", nmMain, `
on: push
jobs:
  «a:$N»:
    runs-on: ubuntu-latest
    steps:
      - run: echo
  j2:
    needs: [«1:$N», «2:$N»]
    runs-on: ubuntu-latest
    steps:
      - run: echo
`)},
	{Sid: "jobid.jobs-key.needs-self", Mode: "src", Tpl: nmT("diag", nmMain, `
on: push
jobs:
  «1:$N»:
    needs: [«a:$N»]
    runs-on: ubuntu-latest
    steps:
      - run: echo ${{ «a:needs».«2:$N».«a:result» }}
`)},
	{Sid: "jobid.jobs-key.needs-cycle", Mode: "src", Tpl: nmT("diag", nmMain, `
on: push
jobs:
  «1:$N»:
    needs: [«a:$A»]
    runs-on: ubuntu-latest
    steps:
      - run: echo ${{ «a:needs».«a:$A».«a:result» }}
  «a:$A»:
    needs: [«2:$N»]
    runs-on: ubuntu-latest
    steps:
      - run: echo ${{ «a:needs».«2:$N».«a:result» }}
`)},
	// -------------------------------------------------------------------- inputs
	{Sid: "input.call-decl.dot", Mode: "src", Tpl: nmT("ok,undef", nmMain, `
on:
  workflow_call:
    inputs:
      «1:$N»:
        type: string
jobs:
  j1:
    runs-on: ubuntu-latest
    steps:
      - run: echo ${{ «a:inputs».«2:$U» }}
`)},
	{Sid: "input.call-decl.index", Mode: "src", Tpl: nmT("ok,undef", nmMain, `
on:
  workflow_call:
    inputs:
      «1:$N»:
        type: string
jobs:
  j1:
    runs-on: ubuntu-latest
    steps:
      - run: echo ${{ «a:inputs»['«2:$U»'] }}
`)},
	{Sid: "input.call-decl.default-ref", Mode: "src", Tpl: nmT("ok,undef", nmMain, `
on:
  workflow_call:
    inputs:
      «1:$N»:
        type: string
      other:
        type: string
        default: ${{ «a:inputs».«2:$U» }}
jobs:
  j1:
    runs-on: ubuntu-latest
    steps:
      - run: echo
`)},
	{Sid: "input.call-decl.self-ref", Mode: "src", Tpl: nmT("diag", nmMain, `
on:
  workflow_call:
    inputs:
      «1:$N»:
        type: string
        default: ${{ «a:inputs».«2:$N» }}
jobs:
  j1:
    runs-on: ubuntu-latest
    steps:
      - run: echo
`)},
	{Sid: "input.call-decl.dup", Mode: "src", Tpl: nmT("dup", nmMain, `
on:
  workflow_call:
    inputs:
      «1:$N»:
        type: string
      «2:$N»:
        type: string
jobs:
  j1:
    runs-on: ubuntu-latest
    steps:
      - run: echo
`)},
	{Sid: "input.dispatch-decl.dot", Mode: "src", Tpl: nmT("ok,undef", nmMain, `
on:
  workflow_dispatch:
    inputs:
      «1:$N»:
        type: string
jobs:
  j1:
    runs-on: ubuntu-latest
    steps:
      - run: echo ${{ «a:inputs».«2:$U» }}
`)},
	{Sid: "input.dispatch-decl.index", Mode: "src", Tpl: nmT("ok,undef", nmMain, `
on:
  workflow_dispatch:
    inputs:
      «1:$N»:
        type: string
jobs:
  j1:
    runs-on: ubuntu-latest
    steps:
      - run: echo ${{ «a:inputs»['«2:$U»'] }}
`)},
	{Sid: "input.dispatch-decl.event-dot", Mode: "src", Tpl: nmT("ok,undef", nmMain, `
on:
  workflow_dispatch:
    inputs:
      «1:$N»:
        type: string
jobs:
  j1:
    runs-on: ubuntu-latest
    steps:
      - run: echo ${{ «a:github».«a:event».«a:inputs».«2:$U» }}
`)},
	{Sid: "input.dispatch-decl.event-index", Mode: "src", Tpl: nmT("ok,undef", nmMain, `
on:
  workflow_dispatch:
    inputs:
      «1:$N»:
        type: string
jobs:
  j1:
    runs-on: ubuntu-latest
    steps:
      - run: echo ${{ «a:github»['«a:event»']['«a:inputs»']['«2:$U»'] }}
`)},
	{Sid: "input.dispatch-decl.dup", Mode: "src", Tpl: nmT("dup", nmMain, `
on:
  workflow_dispatch:
    inputs:
      «1:$N»:
        type: string
      «2:$N»:
        type: string
jobs:
  j1:
    runs-on: ubuntu-latest
    steps:
      - run: echo
`)},
	{Sid: "input.call+dispatch.merge", Mode: "src", Tpl: nmT("ok", nmMain, `
on:
  workflow_call:
    inputs:
      «1:$N»:
        type: string
  workflow_dispatch:
    inputs:
      «2:$N»:
        type: string
jobs:
  j1:
    runs-on: ubuntu-latest
    steps:
      - run: echo ${{ «a:inputs».«a:$N» }}
`)},
	{Sid: "input.callee-file.with-key", Mode: "repo", Tpl: nmT("ok,undef", nmCallee, `
on:
  workflow_call:
    inputs:
      «1:$N»:
        type: string
        required: true
jobs:
  j1:
    runs-on: ubuntu-latest
    steps:
      - run: echo ${{ inputs.«a:$N» }}
`, nmMain, `
on: push
jobs:
  c1:
    uses: ./.github/workflows/callee.yml
    with:
      «2:$U»: v
`)},
	{Sid: "input.callee-ast.with-key", Mode: "repo-ast", Tpl: nmT("ok,undef", nmCallee, `
on:
  workflow_call:
    inputs:
      «1:$N»:
        type: string
        required: true
jobs:
  j1:
    runs-on: ubuntu-latest
    steps:
      - run: echo ${{ inputs.«a:$N» }}
`, nmMain, `
on: push
jobs:
  c1:
    uses: ./.github/workflows/callee.yml
    with:
      «2:$U»: v
`)},
	{Sid: "input.callee-file.with-type", Mode: "repo", Tpl: nmT("diag", nmCallee, `
on:
  workflow_call:
    inputs:
      «1:$N»:
        type: number
jobs:
  j1:
    runs-on: ubuntu-latest
    steps:
      - run: echo
`, nmMain, `
on: push
jobs:
  c1:
    uses: ./.github/workflows/callee.yml
    with:
      «2:$N»: abc
`)},
	{Sid: "input.callee-ast.with-type", Mode: "repo-ast", Tpl: nmT("diag", nmCallee, `
on:
  workflow_call:
    inputs:
      «1:$N»:
        type: number
jobs:
  j1:
    runs-on: ubuntu-latest
    steps:
      - run: echo
`, nmMain, `
on: push
jobs:
  c1:
    uses: ./.github/workflows/callee.yml
    with:
      «2:$N»: abc
`)},
	{Sid: "input.action-local.with-key", Mode: "repo", Tpl: nmT("ok,undef", nmAction, nmActionHead+`
inputs:
  «1:$N»:
    description: d
    required: true
  other:
    description: d
`+nmActionTail, nmMain, `
on: push
jobs:
  j1:
    runs-on: ubuntu-latest
    steps:
      - uses: ./.github/actions/x
        with:
          «2:$U»: v
`)},
	{Sid: "input.action-local.args-entrypoint", Mode: "repo", Tpl: nmT("ok", nmAction, nmActionHead+`
inputs:
  «1:args»:
    description: d
    required: true
  «1:entrypoint»:
    description: d
    required: true
`+nmActionTail, nmMain, `
on: push
jobs:
  j1:
    runs-on: ubuntu-latest
    steps:
      - uses: ./.github/actions/x
        with:
          «2:args»: v
          «2:entrypoint»: w
`)},
	{Sid: "input.action-local.dup", Mode: "repo", Tpl: nmT("dup", nmAction, nmActionHead+`
inputs:
  «1:$N»:
    description: d
  «2:$N»:
    description: d
`+nmActionTail, nmMain, `
on: push
jobs:
  j1:
    runs-on: ubuntu-latest
    steps:
      - uses: ./.github/actions/x
`)},
	{Sid: "input.action-popular.with-key", Mode: "src", Tpl: nmT("ok,undef", nmMain, `
on: push
jobs:
  j1:
    runs-on: ubuntu-latest
    steps:
      - uses: actions/checkout@v4
        with:
          «2:$U»: v
`)},
	{Sid: "input.action-popular.required", Mode: "src", Tpl: nmT("ok", nmMain, `
on: push
jobs:
  j1:
    runs-on: ubuntu-latest
    steps:
      - uses: actions/cache@v4
        with:
          «2:path»: a
          «2:key»: b
`)},
	{Sid: "input.action-popular.sweep", Mode: "src", Inst: nmSweepPopular, Tpl: nmT("any", nmMain, `
on: push
jobs:
  j1:
    runs-on: ubuntu-latest
    steps:
      - uses: $SPEC
        id: s1
        with:
$WITH
      - run: echo$REFS
`)},
	// ------------------------------------------------------------------ with keys
	{Sid: "withkey.step-with.dup", Mode: "src", Tpl: nmT("dup", nmMain, `
on: push
jobs:
  j1:
    runs-on: ubuntu-latest
    steps:
      - uses: verif-owner/verif-unknown@v1
        with:
          «1:$N»: a
          «2:$N»: b
`)},
	{Sid: "withkey.job-with.dup", Mode: "src", Tpl: nmT("dup", nmMain, `
on: push
jobs:
  c1:
    uses: verif-owner/verif-repo/.github/workflows/w.yml@v1
    with:
      «1:$N»: a
      «2:$N»: b
`)},
	{Sid: "withkey.docker.entrypoint-args", Mode: "src", Tpl: nmT("ok", nmMain, `
on: push
jobs:
  j1:
    runs-on: ubuntu-latest
    steps:
      - uses: docker://alpine:3.8
        with:
          «1:entrypoint»: /bin/sh
          «2:args»: -c echo
`)},
	// keys the parser routes by NAME inside the case-insensitive `with:` mapping (args / entrypoint are not inputs)
	{Sid: "withkey.popular.entrypoint-args", Mode: "src", Tpl: nmT("ok", nmMain, `
on: push
jobs:
  j1:
    runs-on: ubuntu-latest
    steps:
      - uses: actions/checkout@v4
        with:
          «1:entrypoint»: /bin/sh
          «2:args»: -c echo
          ref: v
`)},
	{Sid: "withkey.action-local.entrypoint-args", Mode: "repo", Tpl: nmT("ok", nmAction, nmActionHead+`
inputs:
  other:
    description: d
`+nmActionTail, nmMain, `
on: push
jobs:
  j1:
    runs-on: ubuntu-latest
    steps:
      - uses: ./.github/actions/x
        with:
          «1:entrypoint»: /bin/sh
          «2:args»: -c echo
          other: v
`)},
	{Sid: "withkey.popular.args-expr", Mode: "src", Tpl: nmT("diag", nmMain, `
on: push
jobs:
  j1:
    runs-on: ubuntu-latest
    steps:
      - uses: actions/checkout@v4
        with:
          «2:$N»: ${{ github.nope }}
`)},
	{Sid: "withkey.github-script.script", Mode: "src", Tpl: nmT("diag", nmMain, `
on: push
jobs:
  j1:
    runs-on: ubuntu-latest
    steps:
      - uses: actions/github-script@v7
        with:
          «2:script»: console.log('${{ github.event.issue.title }}')
`)},
	// ------------------------------------------------------------------- secrets
	{Sid: "secret.call-decl.dot", Mode: "src", Tpl: nmT("ok,undef", nmMain, `
on:
  workflow_call:
    secrets:
      «1:$N»:
        required: true
jobs:
  j1:
    runs-on: ubuntu-latest
    steps:
      - run: echo ${{ «a:secrets».«2:$U» }}
`)},
	{Sid: "secret.call-decl.index", Mode: "src", Tpl: nmT("ok,undef", nmMain, `
on:
  workflow_call:
    secrets:
      «1:$N»:
        required: true
jobs:
  j1:
    runs-on: ubuntu-latest
    steps:
      - run: echo ${{ «a:secrets»['«2:$U»'] }}
`)},
	{Sid: "secret.call-decl.dup", Mode: "src", Tpl: nmT("dup", nmMain, `
on:
  workflow_call:
    secrets:
      «1:$N»:
        required: true
      «2:$N»:
        required: true
jobs:
  j1:
    runs-on: ubuntu-latest
    steps:
      - run: echo
`)},
	{Sid: "secret.builtin.dot", Mode: "src", Tpl: nmT("ok,undef", nmMain, `
on:
  workflow_call:
    secrets:
      other:
        required: true
jobs:
  j1:
    runs-on: ubuntu-latest
    steps:
      - run: echo ${{ «a:secrets».«2:$U» }}
`)},
	{Sid: "secret.callee-file.secrets-key", Mode: "repo", Tpl: nmT("ok,undef", nmCallee, `
on:
  workflow_call:
    secrets:
      «1:$N»:
        required: true
jobs:
  j1:
    runs-on: ubuntu-latest
    steps:
      - run: echo ${{ secrets.«a:$N» }}
`, nmMain, `
on: push
jobs:
  c1:
    uses: ./.github/workflows/callee.yml
    secrets:
      «2:$U»: v
`)},
	{Sid: "secret.callee-ast.secrets-key", Mode: "repo-ast", Tpl: nmT("ok,undef", nmCallee, `
on:
  workflow_call:
    secrets:
      «1:$N»:
        required: true
jobs:
  j1:
    runs-on: ubuntu-latest
    steps:
      - run: echo ${{ secrets.«a:$N» }}
`, nmMain, `
on: push
jobs:
  c1:
    uses: ./.github/workflows/callee.yml
    secrets:
      «2:$U»: v
`)},
	{Sid: "secret.job-secrets.dup", Mode: "src", Tpl: nmT("dup", nmMain, `
on: push
jobs:
  c1:
    uses: verif-owner/verif-repo/.github/workflows/w.yml@v1
    secrets:
      «1:$N»: a
      «2:$N»: b
`)},
	// ------------------------------------------------------------------- outputs
	{Sid: "output.job-decl.needs-dot", Mode: "src", Tpl: nmT("ok,undef", nmMain, `
on: push
jobs:
  j1:
    runs-on: ubuntu-latest
    outputs:
      «1:$N»: x
    steps:
      - run: echo
  j2:
    needs: [j1]
    runs-on: ubuntu-latest
    steps:
      - run: echo ${{ «a:needs».«a:j1».«a:outputs».«2:$U» }}
`)},
	{Sid: "output.job-decl.needs-index", Mode: "src", Tpl: nmT("ok,undef", nmMain, `
on: push
jobs:
  j1:
    runs-on: ubuntu-latest
    outputs:
      «1:$N»: x
    steps:
      - run: echo
  j2:
    needs: [j1]
    runs-on: ubuntu-latest
    steps:
      - run: echo ${{ «a:needs»['«a:j1»']['«a:outputs»']['«2:$U»'] }}
`)},
	{Sid: "output.job-decl.jobs-ctx", Mode: "src", Tpl: nmT("ok,undef", nmMain, `
on:
  workflow_call:
    outputs:
      r:
        value: ${{ «a:jobs».«a:j1».«a:outputs».«2:$U» }}
jobs:
  j1:
    runs-on: ubuntu-latest
    outputs:
      «1:$N»: x
    steps:
      - run: echo
`)},
	{Sid: "output.job-decl.dup", Mode: "src", Tpl: nmT("dup", nmMain, `
on: push
jobs:
  j1:
    runs-on: ubuntu-latest
    outputs:
      «1:$N»: x
      «2:$N»: y
    steps:
      - run: echo
`)},
	{Sid: "output.call-decl.dup", Mode: "src", Tpl: nmT("dup", nmMain, `
on:
  workflow_call:
    outputs:
      «1:$N»:
        value: x
      «2:$N»:
        value: y
jobs:
  j1:
    runs-on: ubuntu-latest
    steps:
      - run: echo
`)},
	{Sid: "output.action-local.dup", Mode: "repo", Tpl: nmT("dup", nmAction, nmActionHead+`
outputs:
  «1:$N»:
    description: d
    value: v
  «2:$N»:
    description: d
    value: w
`+nmActionTail, nmMain, `
on: push
jobs:
  j1:
    runs-on: ubuntu-latest
    steps:
      - uses: ./.github/actions/x
`)},
	{Sid: "output.action-local.steps-dot", Mode: "repo", Tpl: nmT("ok,undef", nmAction, nmActionHead+`
outputs:
  «1:$N»:
    description: d
    value: v
`+nmActionTail, nmMain, `
on: push
jobs:
  j1:
    runs-on: ubuntu-latest
    steps:
      - uses: ./.github/actions/x
        id: s1
      - run: echo ${{ «a:steps».«a:s1».«a:outputs».«2:$U» }}
`)},
	{Sid: "output.action-local.steps-index", Mode: "repo", Tpl: nmT("ok,undef", nmAction, nmActionHead+`
outputs:
  «1:$N»:
    description: d
    value: v
`+nmActionTail, nmMain, `
on: push
jobs:
  j1:
    runs-on: ubuntu-latest
    steps:
      - uses: ./.github/actions/x
        id: s1
      - run: echo ${{ «a:steps».«a:s1».«a:outputs»['«2:$U»'] }}
`)},
	{Sid: "output.action-popular.steps-dot", Mode: "src", Tpl: nmT("ok,undef", nmMain, `
on: push
jobs:
  j1:
    runs-on: ubuntu-latest
    steps:
      - uses: actions/cache@v4
        id: s1
        with:
          path: a
          key: b
      - run: echo ${{ «a:steps».«a:s1».«a:outputs».«2:$U» }}
`)},
	{Sid: "output.callee-file.needs-dot", Mode: "repo", Tpl: nmT("ok,undef", nmCallee, `
on:
  workflow_call:
    outputs:
      «1:$N»:
        value: x
jobs:
  j1:
    runs-on: ubuntu-latest
    steps:
      - run: echo
`, nmMain, `
on: push
jobs:
  c1:
    uses: ./.github/workflows/callee.yml
  j2:
    needs: [c1]
    runs-on: ubuntu-latest
    steps:
      - run: echo ${{ «a:needs».«a:c1».«a:outputs».«2:$U» }}
`)},
	{Sid: "output.callee-ast.needs-dot", Mode: "repo-ast", Tpl: nmT("ok,undef", nmCallee, `
on:
  workflow_call:
    outputs:
      «1:$N»:
        value: x
jobs:
  j1:
    runs-on: ubuntu-latest
    steps:
      - run: echo
`, nmMain, `
on: push
jobs:
  c1:
    uses: ./.github/workflows/callee.yml
  j2:
    needs: [c1]
    runs-on: ubuntu-latest
    steps:
      - run: echo ${{ «a:needs».«a:c1».«a:outputs».«2:$U» }}
`)},
	// --------------------------------------------------------------- matrix keys
	{Sid: "matrix.row-key.dot", Mode: "src", Tpl: nmT("ok,undef", nmMain, `
on: push
jobs:
  j1:
    runs-on: ubuntu-latest
    strategy:
      matrix:
        «1:$N»: [a, b]
    steps:
      - run: echo ${{ «a:matrix».«2:$U» }}
`)},
	{Sid: "matrix.row-key.index", Mode: "src", Tpl: nmT("ok,undef", nmMain, `
on: push
jobs:
  j1:
    runs-on: ubuntu-latest
    strategy:
      matrix:
        «1:$N»: [a, b]
    steps:
      - run: echo ${{ «a:matrix»['«2:$U»'] }}
`)},
	{Sid: "matrix.include-key.dot", Mode: "src", Tpl: nmT("ok,undef", nmMain, `
on: push
jobs:
  j1:
    runs-on: ubuntu-latest
    strategy:
      matrix:
        os: [a, b]
        include:
          - os: a
            «1:$N»: x
    steps:
      - run: echo ${{ «a:matrix».«2:$U» }}
`)},
	{Sid: "matrix.row-key.exclude-key", Mode: "src", Tpl: nmT("ok,undef", nmMain, `
on: push
jobs:
  j1:
    runs-on: ubuntu-latest
    strategy:
      matrix:
        «1:$N»: [a, b]
        exclude:
          - «2:$U»: a
    steps:
      - run: echo
`)},
	{Sid: "matrix.include-key.exclude-key", Mode: "src", Tpl: nmT("ok,undef", nmMain, `
on: push
jobs:
  j1:
    runs-on: ubuntu-latest
    strategy:
      matrix:
        os: [a, b]
        include:
          - «1:$N»: x
        exclude:
          - «2:$U»: x
    steps:
      - run: echo
`)},
	{Sid: "matrix.row-key.include-key", Mode: "src", Tpl: nmT("ok", nmMain, `
on: push
jobs:
  j1:
    runs-on: ubuntu-latest
    strategy:
      matrix:
        «1:$N»: [a, b]
        include:
          - «2:$N»: c
        exclude:
          - «a:$N»: c
    steps:
      - run: echo ${{ «a:matrix».«a:$N» }}
`)},
	{Sid: "matrix.row-key.dup", Mode: "src", Tpl: nmT("dup", nmMain, `
on: push
jobs:
  j1:
    runs-on: ubuntu-latest
    strategy:
      matrix:
        «1:$N»: [a, b]
        «2:$N»: [c]
    steps:
      - run: echo
`)},
	{Sid: "matrix.include-key.dup", Mode: "src", Tpl: nmT("dup", nmMain, `
on: push
jobs:
  j1:
    runs-on: ubuntu-latest
    strategy:
      matrix:
        os: [a, b]
        include:
          - «1:$N»: x
            «2:$N»: y
    steps:
      - run: echo
`)},
	{Sid: "matrix.value-key.dot", Mode: "src", Tpl: nmT("ok,undef", nmMain, `
on: push
jobs:
  j1:
    runs-on: ubuntu-latest
    strategy:
      matrix:
        os:
          - «1:$N»: 1
            other: 2
    steps:
      - run: echo ${{ «a:matrix».«a:os».«2:$U» }}
`)},
	{Sid: "matrix.include-value-key.dot", Mode: "src", Tpl: nmT("ok,undef", nmMain, `
on: push
jobs:
  j1:
    runs-on: ubuntu-latest
    strategy:
      matrix:
        v: [a]
        include:
          - os:
              «1:$N»: 1
              other: 2
    steps:
      - run: echo ${{ «a:matrix».«a:os».«2:$U» }}
`)},
	{Sid: "matrix.value-key.exclude", Mode: "src", Tpl: nmT("ok,undef", nmMain, `
on: push
jobs:
  j1:
    runs-on: ubuntu-latest
    strategy:
      matrix:
        os:
          - «1:$N»: 1
            other: 2
        exclude:
          - os:
              «2:$U»: 1
    steps:
      - run: echo
`)},
	{Sid: "matrix.section-key.include", Mode: "src", Tpl: nmT("ok", nmMain, `
on: push
jobs:
  j1:
    runs-on: ubuntu-latest
    strategy:
      matrix:
        os: [a, b]
        «1:include»:
          - extra: x
        «2:exclude»:
          - os: a
    steps:
      - run: echo ${{ matrix.extra }}
`)},
	// ------------------------------------------------------------------ env keys
	{Sid: "env.workflow.dup", Mode: "src", Tpl: nmT("dup", nmMain, `
on: push
env:
  «1:$N»: a
  «2:$N»: b
jobs:
  j1:
    runs-on: ubuntu-latest
    steps:
      - run: echo
`)},
	{Sid: "env.job.dup", Mode: "src", Tpl: nmT("dup", nmMain, `
on: push
jobs:
  j1:
    runs-on: ubuntu-latest
    env:
      «1:$N»: a
      «2:$N»: b
    steps:
      - run: echo
`)},
	{Sid: "env.step.dup", Mode: "src", Tpl: nmT("dup", nmMain, `
on: push
jobs:
  j1:
    runs-on: ubuntu-latest
    steps:
      - run: echo
        env:
          «1:$N»: a
          «2:$N»: b
`)},
	{Sid: "env.workflow.dot", Mode: "src", Tpl: nmT("ok", nmMain, `
on: push
env:
  «1:$N»: a
jobs:
  j1:
    runs-on: ubuntu-latest
    steps:
      - run: echo ${{ «a:env».«2:$N» }}
`)},
	// ---------------------------------------------------------- JSON literal keys
	{Sid: "json.fromjson.dot", Mode: "src", Tpl: nmT("ok,undef", nmMain, nmStepExpr(`«a:fromjson»('{"«1:$N»":1,"other":2}').«2:$U»`))},
	{Sid: "json.fromjson.index", Mode: "src", Tpl: nmT("ok,undef", nmMain, nmStepExpr(`«a:fromjson»('{"«1:$N»":1,"other":2}')['«2:$U»']`))},
	{Sid: "json.fromjson-nested.dot", Mode: "src", Tpl: nmT("ok,undef", nmMain, nmStepExpr(`«a:fromjson»('{"«a:x»":{"«1:$N»":1}}').«a:x».«2:$U»`))},
	{Sid: "json.fromjson-nested.index", Mode: "src", Tpl: nmT("ok,undef", nmMain, nmStepExpr(`«a:fromjson»('{"«a:x»":{"«1:$N»":1}}')['«a:x»']['«2:$U»']`))},
	{Sid: "json.fromjson-array.dot", Mode: "src", Tpl: nmT("ok,undef", nmMain, nmStepExpr(`«a:fromjson»('[{"«1:$N»":1}]')[0].«2:$U»`))},
	{Sid: "json.matrix-expr.dot", Mode: "src", Tpl: nmT("ok,undef", nmMain, `
on: push
jobs:
  j1:
    runs-on: ubuntu-latest
    strategy:
      matrix: ${{ «a:fromjson»('{"«1:$N»":["a","b"]}') }}
    steps:
      - run: echo ${{ tojson(«a:matrix».«2:$U») }}
`)},
	{Sid: "json.matrix-expr-include.dot", Mode: "src", Tpl: nmT("ok,undef", nmMain, `
on: push
jobs:
  j1:
    runs-on: ubuntu-latest
    strategy:
      matrix: ${{ «a:fromjson»('{"os":["a"],"«a:include»":[{"«1:$N»":"x"}]}') }}
    steps:
      - run: echo ${{ «a:matrix».«2:$U» }}
`)},
	{Sid: "json.matrix-expr.section-key", Mode: "src", Tpl: nmT("ok", nmMain, `
on: push
jobs:
  j1:
    runs-on: ubuntu-latest
    strategy:
      matrix: ${{ fromjson('{"os":["a"],"«1:include»":[{"extra":"x"}],"«2:exclude»":[{"os":"a"}]}') }}
    steps:
      - run: echo ${{ matrix.extra }}
`)},
	{Sid: "json.matrix-row-expr.dot", Mode: "src", Tpl: nmT("ok,undef", nmMain, `
on: push
jobs:
  j1:
    runs-on: ubuntu-latest
    strategy:
      matrix:
        os: ${{ «a:fromjson»('[{"«1:$N»":1}]') }}
    steps:
      - run: echo ${{ «a:matrix».«a:os».«2:$U» }}
`)},
	{Sid: "json.matrix-include-expr.dot", Mode: "src", Tpl: nmT("ok,undef", nmMain, `
on: push
jobs:
  j1:
    runs-on: ubuntu-latest
    strategy:
      matrix:
        os: [a]
        include: ${{ «a:fromjson»('[{"«1:$N»":"x"}]') }}
    steps:
      - run: echo ${{ «a:matrix».«2:$U» }}
`)},
	// ----------------------------------- folded by the code, not named in the property
	{Sid: "service.key.dup", Mode: "src", Tpl: nmT("dup", nmMain, `
on: push
jobs:
  j1:
    runs-on: ubuntu-latest
    services:
      «1:$N»:
        image: redis
      «2:$N»:
        image: redis
    steps:
      - run: echo
`)},
	{Sid: "service.key.dot", Mode: "src", Tpl: nmT("ok", nmMain, `
on: push
jobs:
  j1:
    runs-on: ubuntu-latest
    services:
      «1:$N»:
        image: redis
    steps:
      - run: echo ${{ «a:job».«a:services».«2:$N».«a:id» }}
`)},
	{Sid: "perm.scope-key.known", Mode: "src", Tpl: nmT("ok,undef", nmMain, `
on: push
permissions:
  «2:$U»: read
jobs:
  j1:
    runs-on: ubuntu-latest
    steps:
      - run: echo
`)},
	{Sid: "perm.scope-key.dup", Mode: "src", Tpl: nmT("dup", nmMain, `
on: push
permissions:
  «1:$N»: read
  «2:$N»: read
jobs:
  j1:
    runs-on: ubuntu-latest
    steps:
      - run: echo
`)},
	// ------------------------------------------- negative controls (case-sensitive)
	{Sid: "ctl.keyword.value", Mode: "src", Tpl: nmT("ok", nmMain, nmStepExpr("«2:$N» == github.event.x"))},
	{Sid: "ctl.keyword.matrix-value", Mode: "src", Tpl: nmT("ok", nmMain, `
on: push
jobs:
  j1:
    runs-on: ubuntu-latest
    strategy:
      matrix:
        v: ['${{ «2:$N» }}']
    steps:
      - run: echo
`)},
	{Sid: "ctl.strlit.json-keyword", Mode: "src", Tpl: nmT("ok", nmMain, nmStepExpr(`tojson(fromjson('{"a":«2:$N»}'))`))},
	{Sid: "ctl.strlit.json-scalar", Mode: "src", Tpl: nmT("ok", nmMain, nmStepExpr(`tojson(fromjson('«2:$N»'))`))},
	{Sid: "ctl.fixedkey.job", Mode: "src", Tpl: nmT("ok", nmMain, `
on: push
jobs:
  j0:
    runs-on: ubuntu-latest
    steps:
      - run: echo
  j1:
    runs-on: ubuntu-latest
    needs: [j0]
    env:
      V: a
    outputs:
      o: x
    strategy:
      matrix:
        os: [a]
    steps:
      - run: echo
        id: s1
      - uses: actions/checkout@v4
        with:
          ref: v
`)},
	{Sid: "ctl.fixedkey.top", Mode: "src", Tpl: nmT("ok", nmMain, `
name: n
on:
  workflow_call:
    inputs:
      i:
        type: string
jobs:
  j1:
    runs-on: ubuntu-latest
    steps:
      - run: echo
`)},
	{Sid: "ctl.fixedkey.call", Mode: "src", Tpl: nmT("ok", nmMain, `
on: push
jobs:
  c1:
    uses: verif-owner/verif-repo/.github/workflows/w.yml@v1
    with:
      a: b
    secrets:
      c: d
`)},
}

var nmScenIndex = map[string]*nmScen{}

// the schema keys of the ctl.fixedkey.* templates are marked by name when the scenario is run
func nmMarkFixedKey(tpl, key string) (string, bool) {
	re := regexp.MustCompile(`(?m)^(\s*(?:- )?)` + regexp.QuoteMeta(key) + `:`)
	loc := re.FindStringSubmatchIndex(tpl)
	if loc == nil {
		return tpl, false
	}
	return tpl[:loc[3]] + "«2:" + key + "»" + tpl[loc[3]+len(key):], true
}

func init() {
	for i := range nmScens {
		s := &nmScens[i]
		if strings.HasPrefix(s.Sid, "ctl.fixedkey.") {
			base := s.Tpl["ok"][nmMain]
			s.Tpl = map[string]map[string]string{"ok": {nmMain: base}}
			sid := s.Sid
			s.Inst = func(v nmVec) []nmInst {
				marked, ok := nmMarkFixedKey(base, v.Name)
				if !ok {
					panic("template of " + sid + " has no key " + v.Name)
				}
				return []nmInst{{Vars: map[string]string{base: marked}}}
			}
		}
		nmScenIndex[s.Sid] = s
	}
	nmScenIndex["sink"] = &nmScen{Sid: "sink", Mode: "repo-ast", Tpl: nmT("any", nmCallee, nmSinkCallee, nmAction, nmSinkAction, nmConfig, nmSinkConfig, nmMain, nmSinkMain)}

	register("names-list", func(args []string) error {
		type entry struct {
			Sid      string   `json:"sid"`
			Mode     string   `json:"mode"`
			Flavours []string `json:"flavours"`
			Roles    []string `json:"roles"`
			NOcc     int      `json:"nocc"`
			Sweep    bool     `json:"sweep"`
		}
		var out []entry
		sids := make([]string, 0, len(nmScenIndex))
		for s := range nmScenIndex {
			sids = append(sids, s)
		}
		sort.Strings(sids)
		for _, sid := range sids {
			s := nmScenIndex[sid]
			e := entry{Sid: sid, Mode: s.Mode}
			roles := map[string]bool{}
			for f, files := range s.Tpl {
				e.Flavours = append(e.Flavours, f)
				for _, t := range files {
					for _, m := range nmMarker.FindAllStringSubmatch(t, -1) {
						roles[m[1]] = true
						e.NOcc++
					}
					if strings.Contains(t, "$PATH") || strings.Contains(t, "$CALL") || strings.Contains(t, "$WITH") || strings.HasPrefix(sid, "ctl.fixedkey.") {
						roles["2"] = true
					}
					if strings.Contains(t, "$PATH") || strings.Contains(t, "$REFS") {
						roles["a"] = true
					}
				}
			}
			if sid == "sink" {
				_, n, _ := nmRenderFiles(s.Tpl["any"], map[string]string{}, func(string, int) string { return "lower" })
				e.NOcc = n
			}
			e.Sweep = strings.Contains(sid, "sweep")
			sort.Strings(e.Flavours)
			for r := range roles {
				e.Roles = append(e.Roles, r)
			}
			sort.Strings(e.Roles)
			out = append(out, e)
		}
		b, err := json.MarshalIndent(out, "", " ")
		if err != nil {
			return err
		}
		return os.WriteFile(args[0], b, 0o644)
	})

	register("names-run", func(args []string) error {
		if len(args) < 3 {
			return fmt.Errorf("usage: names-run <in.jsonl> <out.jsonl> <scratch dir>")
		}
		in, err := readJSONL[nmVec](args[0])
		if err != nil {
			return err
		}
		if err := os.MkdirAll(args[2], 0o755); err != nil {
			return err
		}
		res := parallelMap(in, func(v nmVec) []nmOut { return nmRunVec(v, args[2]) })
		var flat []nmOut
		for _, r := range res {
			flat = append(flat, r...)
		}
		return writeJSONL(args[1], flat)
	})
}

// ----------------------------------------------------------------------------------- corpus
//
//   names-corpus <repo dir> <out.jsonl> <pattern>...
//       every workflow under <repo>/testdata/{ok,examples,err,projects}: the identifiers of every ${{ }}
//       placeholder (context, property and function names; not the keywords true/false/null, not string
//       literals) are re-spelled with the pattern, located with the real lexer (LexExpression).  Base
//       (as written) and re-spelled text are linted and projected like the vectors.

type nmCorpusOut struct {
	File    string   `json:"file"`
	Pattern string   `json:"pattern"`
	NIdent  int      `json:"nident"`
	NFlip   int      `json:"nflip"`
	Base    []nmDiag `json:"base"`
	Flip    []nmDiag `json:"flip"`
	Other   []string `json:"other"`
	Text    string   `json:"text,omitempty"`
	FlipT   string   `json:"flipText,omitempty"`
}

func nmFlipIdents(text, pat string) (string, int, int) {
	b := []byte(text)
	nid, nf := 0, 0
	for i := 0; i+3 <= len(text); {
		j := strings.Index(text[i:], "${{")
		if j < 0 {
			break
		}
		start := i + j + 3
		toks, off, err := actionlint.LexExpression(text[start:])
		if err != nil {
			i = start
			continue
		}
		for _, t := range toks {
			if t.Kind != actionlint.TokenKindIdent || t.Value == "true" || t.Value == "false" || t.Value == "null" {
				continue
			}
			sp := nmSpell(t.Value, pat)
			if len(sp) != len(t.Value) || sp == "true" || sp == "false" || sp == "null" {
				continue // non-ASCII letters, or the re-spelling would be a keyword
			}
			nid++
			if sp != t.Value {
				nf++
			}
			copy(b[start+t.Offset:], sp)
		}
		i = start + off
	}
	return string(b), nid, nf
}

func nmCorpusRun(path, rel, pat string) (out nmCorpusOut) {
	out = nmCorpusOut{File: rel, Pattern: pat, Other: []string{}, Base: []nmDiag{}, Flip: []nmDiag{}}
	defer func() {
		if r := recover(); r != nil {
			out.Other = append(out.Other, fmt.Sprintf("panic: %v", r))
		}
	}()
	src, err := os.ReadFile(path)
	if err != nil {
		out.Other = append(out.Other, "error: "+err.Error())
		return
	}
	text := string(src)
	flipped, nid, nf := nmFlipIdents(text, pat)
	out.NIdent, out.NFlip = nid, nf
	lint := func(t string) []nmDiag {
		l, err := newLinter(nil)
		if err != nil {
			out.Other = append(out.Other, "error: "+err.Error())
			return []nmDiag{}
		}
		errs, err := l.Lint("corpus.yml", []byte(t), nil)
		if err != nil {
			out.Other = append(out.Other, "error: "+err.Error())
			return []nmDiag{}
		}
		return nmProject(errs, "")
	}
	out.Base = lint(text)
	out.Flip = lint(flipped)
	if !nmSameDiags(out.Base, out.Flip) {
		out.Text, out.FlipT = text, flipped
	}
	return
}

func init() {
	register("names-corpus", func(args []string) error {
		if len(args) < 3 {
			return fmt.Errorf("usage: names-corpus <repo dir> <out.jsonl> <pattern>...")
		}
		type job struct{ path, rel, pat string }
		var jobs []job
		for _, d := range []string{"ok", "examples", "err", "projects"} {
			root := filepath.Join(args[0], "testdata", d)
			_ = filepath.Walk(root, func(p string, info os.FileInfo, err error) error {
				if err != nil || info.IsDir() {
					return nil
				}
				if e := filepath.Ext(p); e != ".yaml" && e != ".yml" {
					return nil
				}
				rel, _ := filepath.Rel(args[0], p)
				for _, pat := range args[2:] {
					jobs = append(jobs, job{p, filepath.ToSlash(rel), pat})
				}
				return nil
			})
		}
		sort.Slice(jobs, func(i, j int) bool {
			return jobs[i].rel < jobs[j].rel || jobs[i].rel == jobs[j].rel && jobs[i].pat < jobs[j].pat
		})
		outs := parallelMap(jobs, func(j job) nmCorpusOut { return nmCorpusRun(j.path, j.rel, j.pat) })
		return writeJSONL(args[1], outs)
	})
}

// ----------------------------------------------------------------------------- sink scenario
//
// One repository that uses every name kind at once; every marked occurrence is numbered and the
// vectors flip subsets of them.  (All markers use role "a"; the role is irrelevant here.)

const nmSinkConfig = `
config-variables:
  - «a:cfgvar»
`

const nmSinkAction = nmActionHead + `
inputs:
  «a:actin»:
    description: d
    required: true
outputs:
  «a:actout»:
    description: d
    value: v
` + nmActionTail

const nmSinkCallee = `
on:
  workflow_call:
    inputs:
      «a:cin»:
        type: string
        required: true
    secrets:
      «a:csec»:
        required: true
    outputs:
      «a:cout»:
        value: ${{ «a:jobs».«a:cj».«a:outputs».«a:cjo» }}
jobs:
  «a:cj»:
    runs-on: ubuntu-latest
    outputs:
      «a:cjo»: ${{ «a:steps».«a:cs».«a:outputs».v }}
    steps:
      - id: «a:cs»
        run: echo ${{ «a:inputs».«a:cin» }} ${{ «a:secrets».«a:csec» }}
`

const nmSinkMain = `
on:
  push:
  workflow_dispatch:
    inputs:
      «a:din»:
        type: string
env:
  «a:wenv»: a
jobs:
  «a:first»:
    runs-on: ubuntu-latest
    outputs:
      «a:jout»: ${{ «a:steps».«a:sa».«a:outputs».«a:actout» }}
    strategy:
      matrix:
        «a:mrow»: [a, b]
        include:
          - «a:mrow»: a
            «a:minc»: x
        exclude:
          - «a:mrow»: b
    steps:
      - uses: ./.github/actions/x
        id: «a:sa»
        with:
          «a:actin»: ${{ «a:matrix».«a:mrow» }} ${{ «a:matrix».«a:minc» }}
      - run: echo ${{ «a:steps».«a:sa».«a:outcome» }} ${{ «a:inputs».«a:din» }} ${{ «a:github».«a:event».«a:inputs».«a:din» }} ${{ «a:env».«a:wenv» }} ${{ «a:vars».«a:cfgvar» }}
        if: ${{ «a:contains»(«a:github».«a:event_name», 'push') && «a:fromjson»('{"«a:jk»":1}').«a:jk» == 1 }}
  «a:call»:
    needs: [«a:first»]
    uses: ./.github/workflows/callee.yml
    with:
      «a:cin»: ${{ «a:needs».«a:first».«a:outputs».«a:jout» }}
    secrets:
      «a:csec»: ${{ «a:secrets».«a:tok» }}
  «a:last»:
    needs: [«a:first», «a:call»]
    runs-on: ubuntu-latest
    steps:
      - run: echo ${{ «a:needs».«a:call».«a:outputs».«a:cout» }} ${{ «a:needs»['«a:first»'].«a:result» }} ${{ «a:needs».«a:call».«a:outputs».«a:nope» }} ${{ «a:steps».«a:ghost».«a:outcome» }}
`
