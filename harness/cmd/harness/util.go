package main

import "sort"

func sortStrings(s []string) { sort.Strings(s) }
