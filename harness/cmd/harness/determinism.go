package main

// C02 / C10: repeated and multi-file runs of the real linter on materialised repositories.

import (
	"bytes"
	"crypto/sha256"
	"encoding/hex"
	"encoding/json"
	"fmt"
	"os"
	"path/filepath"
	"reflect"
	"runtime"
	"sort"
	"strings"
	"time"

	"github.com/rhysd/actionlint"
)

type repoFile struct {
	Path    string `json:"path"` // relative to the temp root, e.g. "repo/.github/workflows/a.yml"
	Content string `json:"content"`
}

type detCase struct {
	ID         int        `json:"id"`
	Name       string     `json:"name"`
	Files      []repoFile `json:"files"`
	Dirs       []string   `json:"dirs"` // directories to create (e.g. "repo/.git")
	Args       []string   `json:"args"` // files to lint, relative to the temp root
	Reps       int        `json:"reps"`
	GoMaxProcs []int      `json:"gomaxprocs"`
	Cwd        string     `json:"cwd"` // relative to the temp root ("" = root)
	Single     bool       `json:"single"` // additionally lint every arg alone with a fresh Linter (C10)
	Reuse      bool       `json:"reuse"`  // one Linter instance for all repetitions (history of earlier runs)
	Format     string     `json:"format"` // -format template ("" = default output); the rendered text is compared in every run
	Chdirs     []string   `json:"chdirs"` // process working directories (relative to the temp root) cycled over the repetitions;
	// the result must depend on LinterOptions.WorkingDir only, never on the working directory of the process
}

type fileDiag struct {
	File string `json:"file"`
	Line int    `json:"line"`
	Col  int    `json:"col"`
	Kind string `json:"kind"`
	Msg  string `json:"msg"`
}

type detOutcome struct {
	Count int        `json:"count"`
	Text  string     `json:"text"`
	Fatal string     `json:"fatal"`
	Diags []fileDiag `json:"diags"`
	Procs []int      `json:"procs"`
}

type detResult struct {
	ID       int                   `json:"id"`
	Name     string                `json:"name"`
	Runs     int                   `json:"runs"`
	Outcomes []detOutcome          `json:"outcomes"`
	Single   map[string][]fileDiag `json:"single,omitempty"`      // arg -> diagnostics when linted alone
	SingleF  map[string]string     `json:"single_fatal,omitempty"` // arg -> fatal error when linted alone
	Tables   string                `json:"tables"`                // "" or description of a modified built-in table / config
	Panic    string                `json:"panic,omitempty"`
}

func materialise(c detCase) (string, error) {
	root, err := os.MkdirTemp("", "vp-det-")
	if err != nil {
		return "", err
	}
	for _, d := range c.Dirs {
		if err := os.MkdirAll(filepath.Join(root, d), 0o755); err != nil {
			return root, err
		}
	}
	for _, f := range c.Files {
		p := filepath.Join(root, f.Path)
		if err := os.MkdirAll(filepath.Dir(p), 0o755); err != nil {
			return root, err
		}
		if err := os.WriteFile(p, []byte(f.Content), 0o644); err != nil {
			return root, err
		}
	}
	return root, nil
}

func fileDiags(errs []*actionlint.Error) []fileDiag {
	out := make([]fileDiag, 0, len(errs))
	for _, e := range errs {
		out = append(out, fileDiag{e.Filepath, e.Line, e.Column, e.Kind, e.Message})
	}
	return out
}

// tableFingerprint hashes the exported built-in tables; any change during a run is a violation of C10.
func tableFingerprint() string {
	h := sha256.New()
	dump := func(name string, v interface{}) {
		fmt.Fprintf(h, "%s=", name)
		dumpValue(h, reflect.ValueOf(v), 0)
	}
	dump("AllWebhookTypes", actionlint.AllWebhookTypes)
	dump("BuiltinFuncSignatures", actionlint.BuiltinFuncSignatures)
	dump("BuiltinGlobalVariableTypes", actionlint.BuiltinGlobalVariableTypes)
	dump("BuiltinUntrustedInputs", actionlint.BuiltinUntrustedInputs)
	dump("PopularActions", actionlint.PopularActions)
	dump("OutdatedPopularActionSpecs", actionlint.OutdatedPopularActionSpecs)
	dump("BrandingColors", actionlint.BrandingColors)
	dump("BrandingIcons", actionlint.BrandingIcons)
	dump("SpecialFunctionNames", actionlint.SpecialFunctionNames)
	return hex.EncodeToString(h.Sum(nil))
}

func dumpValue(w interface{ Write([]byte) (int, error) }, v reflect.Value, depth int) {
	if depth > 12 {
		return
	}
	switch v.Kind() {
	case reflect.Ptr, reflect.Interface:
		if v.IsNil() {
			fmt.Fprint(w, "nil;")
			return
		}
		dumpValue(w, v.Elem(), depth+1)
	case reflect.Map:
		keys := v.MapKeys()
		sort.Slice(keys, func(i, j int) bool { return fmt.Sprint(keys[i].Interface()) < fmt.Sprint(keys[j].Interface()) })
		fmt.Fprint(w, "{")
		for _, k := range keys {
			fmt.Fprintf(w, "%v:", k.Interface())
			dumpValue(w, v.MapIndex(k), depth+1)
		}
		fmt.Fprint(w, "}")
	case reflect.Slice, reflect.Array:
		fmt.Fprint(w, "[")
		for i := 0; i < v.Len(); i++ { // order matters: an in-place sort of a shared slice must be seen
			dumpValue(w, v.Index(i), depth+1)
			fmt.Fprint(w, ",")
		}
		fmt.Fprint(w, "]")
	case reflect.Struct:
		fmt.Fprint(w, "(")
		for i := 0; i < v.NumField(); i++ {
			if v.Type().Field(i).PkgPath != "" {
				continue // unexported
			}
			fmt.Fprintf(w, "%s=", v.Type().Field(i).Name)
			dumpValue(w, v.Field(i), depth+1)
		}
		fmt.Fprint(w, ")")
	case reflect.Func:
		fmt.Fprint(w, "func;")
	default:
		fmt.Fprintf(w, "%v;", v.Interface())
	}
}

func runDetCase(c detCase) (res detResult) {
	res = detResult{ID: c.ID, Name: c.Name}
	defer func() {
		if r := recover(); r != nil {
			res.Panic = fmt.Sprint(r)
		}
	}()
	root, err := materialise(c)
	if root != "" {
		defer os.RemoveAll(root)
	}
	if err != nil {
		res.Panic = "materialise: " + err.Error()
		return
	}
	if r, err := filepath.EvalSymlinks(root); err == nil {
		root = r
	}
	cwd := filepath.Join(root, c.Cwd)
	abs := make([]string, len(c.Args))
	for i, a := range c.Args {
		abs[i] = filepath.Join(root, a)
	}
	procs := c.GoMaxProcs
	if len(procs) == 0 {
		procs = []int{runtime.GOMAXPROCS(0)}
	}
	before := tableFingerprint()
	idx := map[string]int{}
	old := runtime.GOMAXPROCS(0)
	defer runtime.GOMAXPROCS(old)
	var shared *actionlint.Linter
	var sharedBuf, buf0 bytes.Buffer
	if len(c.Chdirs) > 0 {
		if wd, err := os.Getwd(); err == nil {
			defer os.Chdir(wd)
		}
	}
	for rep := 0; rep < c.Reps; rep++ {
		p := procs[rep%len(procs)]
		runtime.GOMAXPROCS(p)
		if len(c.Chdirs) > 0 {
			if err := os.Chdir(filepath.Join(root, c.Chdirs[rep%len(c.Chdirs)])); err != nil {
				res.Panic = "chdir: " + err.Error()
				return
			}
		}
		var l *actionlint.Linter
		var err error
		if c.Reuse {
			if shared == nil {
				shared, err = actionlint.NewLinter(&sharedBuf, &actionlint.LinterOptions{Color: actionlint.ColorOptionKindNever, WorkingDir: cwd, Format: c.Format})
			}
			l = shared
			sharedBuf.Reset()
		} else {
			l, err = actionlint.NewLinter(&buf0, &actionlint.LinterOptions{Color: actionlint.ColorOptionKindNever, WorkingDir: cwd, Oneline: rep%2 == 1 && c.Format == "", Format: c.Format})
			buf0.Reset()
		}
		if err != nil {
			res.Panic = "NewLinter: " + err.Error()
			return
		}
		errs, err := l.LintFiles(abs, nil)
		buf := &buf0
		if c.Reuse {
			buf = &sharedBuf
		}
		fatal := ""
		if err != nil {
			fatal = strings.ReplaceAll(err.Error(), root, "<root>")
		}
		// the oneline runs are compared on the diagnostics only (their text has no snippets)
		text := strings.ReplaceAll(buf.String(), root, "<root>")
		ds := fileDiags(errs)
		key := fatal + "\x00"
		for _, d := range ds {
			key += fmt.Sprintf("%s:%d:%d:%s:%s\x00", d.File, d.Line, d.Col, d.Kind, d.Msg)
		}
		if rep%2 == 0 || c.Reuse || c.Format != "" {
			key += "\x01" + text
		}
		res.Runs++
		if i, ok := idx[key]; ok {
			res.Outcomes[i].Count++
			res.Outcomes[i].Procs = append(res.Outcomes[i].Procs, p)
			continue
		}
		// two outcomes that differ only by the snippet text / oneline mode are the same outcome
		merged := false
		for i := range res.Outcomes {
			if res.Outcomes[i].Fatal == fatal && reflect.DeepEqual(res.Outcomes[i].Diags, ds) && ((rep%2 == 1 && c.Format == "") || res.Outcomes[i].Text == "" || res.Outcomes[i].Text == text) {
				if rep%2 == 0 && res.Outcomes[i].Text == "" {
					res.Outcomes[i].Text = text
				}
				res.Outcomes[i].Count++
				idx[key] = i
				merged = true
				break
			}
		}
		if merged {
			continue
		}
		idx[key] = len(res.Outcomes)
		o := detOutcome{Count: 1, Fatal: fatal, Diags: ds, Procs: []int{p}}
		if rep%2 == 0 || c.Format != "" {
			o.Text = text
		}
		res.Outcomes = append(res.Outcomes, o)
	}
	if c.Single {
		res.Single = map[string][]fileDiag{}
		res.SingleF = map[string]string{}
		for i, a := range c.Args {
			var buf bytes.Buffer
			l, err := actionlint.NewLinter(&buf, &actionlint.LinterOptions{Color: actionlint.ColorOptionKindNever, WorkingDir: cwd})
			if err != nil {
				res.Panic = "NewLinter: " + err.Error()
				return
			}
			errs, err := l.LintFile(abs[i], nil)
			if err != nil {
				res.SingleF[a] = strings.ReplaceAll(err.Error(), root, "<root>")
			}
			res.Single[a] = fileDiags(errs)
		}
	}
	if after := tableFingerprint(); after != before {
		res.Tables = "built-in tables changed during the run"
	}
	return
}

func init() {
	// det-run <cases.jsonl> <out.jsonl>
	register("det-run", func(args []string) error {
		cases, err := readJSONL[detCase](args[0])
		if err != nil {
			return err
		}
		out := make([]detResult, 0, len(cases))
		for _, c := range cases { // sequential: GOMAXPROCS is process-wide
			out = append(out, runDetCase(c))
		}
		return writeJSONL(args[1], out)
	})
}

// clock-probe <out.json>: lints a workflow whose cron schedule has its two triggers around the NEXT minute boundary
// (minute M and M+1 of the current hour), once before M and once between M and M+1, and at two more instants.  The
// result of linting a fixed text must not depend on the wall clock.
func init() {
	register("clock-probe", func(args []string) error {
		type probe struct {
			At    string     `json:"at"`
			Diags []fileDiag `json:"diags"`
			Fatal string     `json:"fatal"`
		}
		type out struct {
			Workflow string  `json:"workflow"`
			Probes   []probe `json:"probes"`
		}
		var m time.Time
		for {
			now := time.Now()
			m = now.Truncate(time.Minute).Add(time.Minute)
			// both minutes in the same hour, and enough time left to lint before M
			if m.Minute() <= 57 && m.Sub(now) > 3*time.Second {
				break
			}
			time.Sleep(time.Second)
		}
		// in the zone time.Now() reports, which is what a clock dependent implementation would use
		crons := []string{
			fmt.Sprintf("%d,%d %d * * *", m.Minute(), m.Minute()+1, m.Hour()),
			fmt.Sprintf("%d,%d %d %d * *", m.Minute(), m.Minute()+1, m.Hour(), m.Day()),
			fmt.Sprintf("%d,%d %d %d %d *", m.Minute(), m.Minute()+1, m.Hour(), m.Day(), int(m.Month())),
			fmt.Sprintf("%d,%d %d * * %d", m.Minute(), m.Minute()+1, m.Hour(), int(m.Weekday())),
			fmt.Sprintf("%d %d * * *", m.Minute(), m.Hour()),
			fmt.Sprintf("%d-%d %d * * *", m.Minute(), m.Minute()+2, m.Hour()),
			fmt.Sprintf("%d,%d,%d * * * *", m.Minute(), m.Minute()+1, (m.Minute()+30)%60),
		}
		src := "on:\n  schedule:\n"
		for _, c := range crons {
			src += "    - cron: '" + c + "'\n"
		}
		src += "jobs:\n  a:\n    runs-on: ubuntu-latest\n    steps:\n      - run: echo\n"
		o := out{Workflow: src}
		lint := func() {
			var buf bytes.Buffer
			p := probe{At: time.Now().Format(time.RFC3339Nano)}
			l, err := actionlint.NewLinter(&buf, &actionlint.LinterOptions{Color: actionlint.ColorOptionKindNever})
			if err == nil {
				var errs []*actionlint.Error
				errs, err = l.Lint("w.yml", []byte(src), nil)
				p.Diags = fileDiags(errs)
			}
			if err != nil {
				p.Fatal = err.Error()
			}
			o.Probes = append(o.Probes, p)
		}
		lint() // before M
		time.Sleep(time.Until(m.Add(1500 * time.Millisecond)))
		lint() // between M and M+1
		if len(args) < 2 || args[1] != "short" {
			time.Sleep(time.Until(m.Add(61500 * time.Millisecond)))
			lint() // between M+1 and M+2
		}
		b, _ := json.Marshal(o)
		return os.WriteFile(args[0], b, 0o644)
	})
}

func init() {
	// pos-order <in.jsonl> <out.jsonl>: {a:[l,c], b:[l,c]} -> real Pos.IsBefore
	register("pos-order", func(args []string) error {
		type vec struct {
			A      [2]int `json:"a"`
			B      [2]int `json:"b"`
			Before bool   `json:"before"`
		}
		in, err := readJSONL[vec](args[0])
		if err != nil {
			return err
		}
		for i := range in {
			pa := &actionlint.Pos{Line: in[i].A[0], Col: in[i].A[1]}
			pb := &actionlint.Pos{Line: in[i].B[0], Col: in[i].B[1]}
			in[i].Before = pa.IsBefore(pb)
		}
		return writeJSONL(args[1], in)
	})
}
