package main

// C14 - calls are checked against the callee's declared interface (Calls.tla / CallsTrace.tla).
//
//   calls-run <in.jsonl> <out.jsonl> <scratch dir>
//       every vector = callee declaration + call site (from the TLC state space).  The callee is
//       materialised (local action ./.github/actions/x/action.yml, reusable workflow
//       ./.github/workflows/callee.yml in a temporary repository with a .git directory, or a
//       synthetic entry of actionlint.PopularActions produced by decoding the rendered action.yml into
//       actionlint.ActionMetadata exactly like scripts/generate-popular-actions does), the caller is
//       linted with the real Linter and the diagnostics of the caller are projected onto (class, name).
//       Reusable workflows are run through every real path by which the callee's interface is obtained:
//         file   LintFile(caller)                      -> parseReusableWorkflowMetadata (file)
//         ast    LintFiles(callee, caller), callee first -> WriteWorkflowCallEvent (in-memory AST)
//         file2  LintFiles(callee, caller), caller first -> file derivation inside a multi-file run
//         free   LintFiles(callee, caller) without forcing a schedule, repeated (option free=N)
//       The order is forced with a gate rule added through LinterOptions.OnRulesCreated (exported API).
//   calls-bundled <out.ndjson>
//       enumerates actionlint.PopularActions and OutdatedPopularActionSpecs completely; for every entry
//       the abstract interface is read off the table, call sites are generated and linted, records
//       (spec, iface, call, obs) are written for validation by TLC (CallsTrace.tla).

import (
	"encoding/json"
	"fmt"
	"os"
	"path/filepath"
	"regexp"
	"sort"
	"strconv"
	"strings"
	"sync"
	"time"

	"github.com/rhysd/actionlint"
	"gopkg.in/yaml.v3"
)

type clName struct {
	ID string `json:"id"`
	Sp string `json:"sp"`
}
type clInDecl struct {
	N    clName `json:"n"`
	Req  string `json:"req"`  // absent | true | false | expr
	Def  string `json:"def"`  // absent | null | empty | value
	Type string `json:"type"` // string | number | boolean | none
}
type clSecDecl struct {
	N   clName `json:"n"`
	Req string `json:"req"`
}
type clDecl struct {
	Kind        string      `json:"kind"`  // action | workflow | popular
	Loc         string      `json:"loc"`   // directory of a local action: sub (./.github/actions/x) | root
	Using       string      `json:"using"` // runs.using of a local action: composite | node20 | docker | node16
	Inputs      []clInDecl  `json:"inputs"`
	Secrets     []clSecDecl `json:"secrets"`
	Outputs     []clName    `json:"outputs"`
	SkipInputs  bool        `json:"skipInputs"`
	SkipOutputs bool        `json:"skipOutputs"`
}
type clCall struct {
	Uses       string   `json:"uses"` // form of the `uses:` text of a local action (clUsesText)
	With       []clName `json:"with"`
	ValueTypes []string `json:"valueTypes"`
	Secrets    []clName `json:"secrets"`
	Inherit    bool     `json:"inherit"`
	OutputRefs []clName `json:"outputRefs"`
}
type clVec struct {
	ID    int      `json:"id"`
	D     clDecl   `json:"d"`
	Call  clCall   `json:"call"`
	Paths []string `json:"paths,omitempty"` // restrict the real paths to run (default: all of the kind)
	Free  int      `json:"free,omitempty"`  // number of unforced LintFiles repetitions
	Rep   int      `json:"rep,omitempty"`   // number of extra repetitions of every path (determinism of message lists)
}
type clDiag struct {
	Class string `json:"class"`
	Name  string `json:"name"`
}
type clOut struct {
	ID      int      `json:"id"`
	Path    string   `json:"path"`
	Diags   []clDiag `json:"diags"`
	Other   []string `json:"other"`
	Ignored []string `json:"ignored,omitempty"` // recognised diagnostics that do not concern the interface
	Msgs    []string `json:"msgs"`              // raw caller diagnostics in reported order (determinism of message lists)
	Caller  string   `json:"caller"`
	Callee  string   `json:"callee"`
}

// ---------------------------------------------------------------------------------- rendering

func clDefaultText(def, ty string) (string, bool) {
	switch def {
	case "null":
		return "null", true
	case "empty":
		return "''", true
	case "value":
		switch ty {
		case "number":
			return "1", true
		case "boolean":
			return "true", true
		}
		return "abc", true
	}
	return "", false
}

func clReqText(req string) (string, bool) {
	switch req {
	case "true", "false", "True", "TRUE", "False", "yes", "on", "y":
		return req, true
	case "qtrue":
		return "'true'", true
	case "one":
		return "1", true
	case "expr":
		return "${{ github.event_name == 'push' }}", true
	}
	return "", false
}

func clRenderAction(d clDecl) string {
	var sb strings.Builder
	sb.WriteString("name: x\ndescription: callee of the C14 check\n")
	if len(d.Inputs) > 0 {
		sb.WriteString("inputs:\n")
		for _, in := range d.Inputs {
			sb.WriteString("  " + in.N.Sp + ":\n    description: d\n")
			if t, ok := clReqText(in.Req); ok {
				sb.WriteString("    required: " + t + "\n")
			}
			if t, ok := clDefaultText(in.Def, in.Type); ok {
				sb.WriteString("    default: " + t + "\n")
			}
		}
	}
	if len(d.Outputs) > 0 {
		sb.WriteString("outputs:\n")
		for _, o := range d.Outputs {
			sb.WriteString("  " + o.Sp + ":\n    description: d\n")
			if !clIsJSOrDocker(d.Using) {
				sb.WriteString("    value: v\n") // outputs of a composite action need a value
			}
		}
	}
	// each kind of action with the keys it requires (clActionFiles creates the files that are referenced)
	switch {
	case d.Using == "docker":
		sb.WriteString("runs:\n  using: docker\n  image: docker://alpine:3.19\n")
	case strings.HasPrefix(d.Using, "node"):
		sb.WriteString("runs:\n  using: " + d.Using + "\n  main: index.js\n")
	default:
		sb.WriteString("runs:\n  using: composite\n  steps:\n    - run: echo\n      shell: bash\n")
	}
	return sb.String()
}

func clIsJSOrDocker(using string) bool { return using == "docker" || strings.HasPrefix(using, "node") }

// files referenced by the runs section of the rendered action
func clActionFiles(d clDecl, dir string) error {
	if strings.HasPrefix(d.Using, "node") {
		return clWrite(filepath.Join(dir, "index.js"), "// main\n")
	}
	return nil
}

func clRenderCallee(d clDecl) string {
	var sb strings.Builder
	if len(d.Inputs) == 0 && len(d.Secrets) == 0 && len(d.Outputs) == 0 {
		sb.WriteString("on: workflow_call\n")
	} else {
		sb.WriteString("on:\n  workflow_call:\n")
	}
	if len(d.Inputs) > 0 {
		sb.WriteString("    inputs:\n")
		for _, in := range d.Inputs {
			sb.WriteString("      " + in.N.Sp + ":\n")
			if in.Type != "none" {
				sb.WriteString("        type: " + in.Type + "\n")
			} else {
				sb.WriteString("        description: d\n")
			}
			if t, ok := clReqText(in.Req); ok {
				sb.WriteString("        required: " + t + "\n")
			}
			if t, ok := clDefaultText(in.Def, in.Type); ok {
				sb.WriteString("        default: " + t + "\n")
			}
		}
	}
	if len(d.Secrets) > 0 {
		sb.WriteString("    secrets:\n")
		for _, s := range d.Secrets {
			sb.WriteString("      " + s.N.Sp + ":\n        description: d\n")
			if t, ok := clReqText(s.Req); ok {
				sb.WriteString("        required: " + t + "\n")
			}
		}
	}
	if len(d.Outputs) > 0 {
		sb.WriteString("    outputs:\n")
		for _, o := range d.Outputs {
			sb.WriteString("      " + o.Sp + ":\n        value: ${{ jobs.j.outputs.o }}\n")
		}
	}
	sb.WriteString("jobs:\n  j:\n    runs-on: ubuntu-latest\n    outputs:\n      o: x\n    steps:\n      - run: echo\n")
	return sb.String()
}

// clValueText renders a value kind of Calls.tla: "<style>:<class>" literals, expr-*, embed.
func clValueText(kind string) string {
	switch kind {
	case "expr-str":
		return "${{ 'x' }}"
	case "expr-num":
		return "${{ 42 }}"
	case "expr-bool":
		return "${{ true }}"
	case "expr-null":
		return "${{ null }}"
	case "expr-obj":
		return "${{ github.event }}"
	case "expr-any":
		return "${{ github.event.foo }}"
	case "embed":
		return "n-${{ 42 }}"
	}
	style, class := "plain", kind
	if k := strings.IndexByte(kind, ':'); k >= 0 {
		style, class = kind[:k], kind[k+1:]
	}
	text := map[string]string{"true": "true", "false": "false", "null": "null", "tilde": "~", "int": "42", "float": "1.5",
		"hex": "0x1F", "text": "abc", "empty": "", "TRUE": "TRUE", "tchar": "t", "fchar": "F"}[class]
	switch style {
	case "single":
		return "'" + text + "'"
	case "double":
		return "\"" + text + "\""
	}
	return text
}

// clUsesText is the `uses:` text of a local action for a form of Calls.tla (UsesForm)
func clUsesText(form string) string {
	switch form {
	case "slash":
		return "./.github/actions/x/"
	case "slashdot":
		return "./.github/actions/x/."
	case "dotdot":
		return "./.github/actions/../actions/x"
	case "root":
		return "./"
	case "rootdot":
		return "./."
	}
	return "./.github/actions/x"
}

var clIdent = regexp.MustCompile(`^[A-Za-z_][A-Za-z0-9_-]*$`)

// reference to an output: dot form for identifier-like names, index form otherwise
func clRef(base, name string) string {
	if clIdent.MatchString(name) {
		return base + "." + name
	}
	return base + "['" + strings.ReplaceAll(name, "'", "''") + "']"
}

func clYAMLKey(k string) string {
	if clIdent.MatchString(k) {
		return k
	}
	return "'" + strings.ReplaceAll(k, "'", "''") + "'"
}

func clRenderCaller(kind, uses string, c clCall) string {
	var sb strings.Builder
	sb.WriteString("on: push\njobs:\n")
	val := func(i int) string {
		if i < len(c.ValueTypes) {
			return clValueText(c.ValueTypes[i])
		}
		return "abc"
	}
	if kind == "action" {
		uses = clUsesText(c.Uses)
	}
	if kind == "workflow" {
		sb.WriteString("  c:\n    uses: " + uses + "\n")
		if len(c.With) > 0 {
			sb.WriteString("    with:\n")
			for i, w := range c.With {
				sb.WriteString(strings.TrimRight("      "+clYAMLKey(w.Sp)+": "+val(i), " ") + "\n")
			}
		}
		if c.Inherit {
			sb.WriteString("    secrets: inherit\n")
		} else if len(c.Secrets) > 0 {
			sb.WriteString("    secrets:\n")
			for _, s := range c.Secrets {
				sb.WriteString("      " + clYAMLKey(s.Sp) + ": ${{ secrets.TOKEN }}\n")
			}
		}
		if len(c.OutputRefs) > 0 {
			sb.WriteString("  after:\n    needs: [c]\n    runs-on: ubuntu-latest\n    steps:\n")
			for _, o := range c.OutputRefs {
				sb.WriteString("      - run: echo ${{ " + clRef("needs.c.outputs", o.Sp) + " }}\n")
			}
		}
		return sb.String()
	}
	sb.WriteString("  test:\n    runs-on: ubuntu-latest\n    steps:\n      - id: s1\n        uses: " + uses + "\n")
	if len(c.With) > 0 {
		sb.WriteString("        with:\n")
		for i, w := range c.With {
			sb.WriteString(strings.TrimRight("          "+clYAMLKey(w.Sp)+": "+val(i), " ") + "\n")
		}
	}
	for _, o := range c.OutputRefs {
		sb.WriteString("      - run: echo ${{ " + clRef("steps.s1.outputs", o.Sp) + " }}\n")
	}
	return sb.String()
}

// ------------------------------------------------------------------------------- projection

func clQuoted(s string) (string, bool) {
	i := strings.IndexByte(s, '"')
	if i < 0 {
		return "", false
	}
	q, err := strconv.QuotedPrefix(s[i:])
	if err != nil {
		return "", false
	}
	u, err := strconv.Unquote(q)
	if err != nil {
		return "", false
	}
	return u, true
}

// clClassify projects the diagnostics of the caller onto (class, name); everything that is not
// recognised goes to `other` (the check is then inconclusive).
func clClassify(errs []*actionlint.Error, out *clOut) {
	for _, e := range errs {
		m := e.Message
		out.Msgs = append(out.Msgs, fmt.Sprintf("%d:%d [%s] %s", e.Line, e.Column, e.Kind, m))
		class := ""
		switch e.Kind {
		case "action":
			switch {
			case strings.HasPrefix(m, "input ") && strings.Contains(m, " is not defined in action "):
				class = "undefined-input"
			case strings.HasPrefix(m, "missing input ") && strings.Contains(m, " which is required by action "):
				class = "missing-required-input"
			case strings.HasPrefix(m, "the runner of ") && strings.Contains(m, " action is too old to run on GitHub Actions"):
				out.Diags = append(out.Diags, clDiag{"outdated", ""})
				continue
			case strings.HasPrefix(m, "invalid runner name ") && strings.Contains(m, " at runs.using in "):
				out.Diags = append(out.Diags, clDiag{"invalid-runner", ""})
				continue
			}
		case "workflow-call":
			switch {
			case strings.HasPrefix(m, "input ") && strings.Contains(m, " is required by ") && strings.HasSuffix(m, " reusable workflow"):
				class = "missing-required-input"
			case strings.HasPrefix(m, "input ") && strings.Contains(m, " is not defined in ") && strings.Contains(m, " reusable workflow. "):
				class = "undefined-input"
			case strings.HasPrefix(m, "secret ") && strings.Contains(m, " is required by ") && strings.HasSuffix(m, " reusable workflow"):
				class = "missing-required-secret"
			case strings.HasPrefix(m, "secret ") && strings.Contains(m, " is not defined in ") && strings.Contains(m, " reusable workflow. "):
				class = "undefined-secret"
			}
		case "expression":
			switch {
			case strings.HasPrefix(m, "property ") && strings.Contains(m, " is not defined in object type "):
				class = "undefined-output"
			case strings.HasPrefix(m, "input ") && strings.Contains(m, " is typed as ") && strings.HasSuffix(m, " value cannot be assigned"):
				class = "type-mismatch"
			case strings.HasPrefix(m, "object, array, and null values should not be evaluated in template with ${{ }}"):
				// about the value itself (${{ null }}, ${{ github.event }}), not about the callee's interface
				out.Ignored = append(out.Ignored, m)
				continue
			}
		}
		if class == "" {
			out.Other = append(out.Other, fmt.Sprintf("[%s] %s", e.Kind, m))
			continue
		}
		name, ok := clQuoted(m)
		if !ok {
			out.Other = append(out.Other, fmt.Sprintf("no quoted name in [%s] %s", e.Kind, m))
			continue
		}
		out.Diags = append(out.Diags, clDiag{class, name})
	}
}

// ------------------------------------------------------------------------ forced schedules

type clGateState struct {
	mode       string // callee-first | caller-first
	calleeReg  chan struct{}
	callerDone chan struct{}
	once1      sync.Once
	once2      sync.Once
	mu         sync.Mutex
	timeouts   int
}

type clGate struct {
	actionlint.RuleBase
	st    *clGateState
	front bool
}

func clIsCallee(w *actionlint.Workflow) bool {
	for _, e := range w.On {
		if _, ok := e.(*actionlint.WorkflowCallEvent); ok {
			return true
		}
	}
	return false
}

func (g *clGate) wait(ch chan struct{}) {
	select {
	case <-ch:
	case <-time.After(180 * time.Second):
		g.st.mu.Lock()
		g.st.timeouts++
		g.st.mu.Unlock()
	}
}

func (g *clGate) VisitWorkflowPre(w *actionlint.Workflow) error {
	callee := clIsCallee(w)
	switch g.st.mode {
	case "callee-first":
		// the last pass: RuleWorkflowCall.VisitWorkflowPre of this file has already run
		if !g.front {
			if callee {
				g.st.once1.Do(func() { close(g.st.calleeReg) })
			} else {
				g.wait(g.st.calleeReg)
			}
		}
	case "caller-first":
		if g.front && callee {
			g.wait(g.st.callerDone)
		}
	}
	return nil
}

func (g *clGate) VisitWorkflowPost(w *actionlint.Workflow) error {
	if g.st.mode == "caller-first" && !g.front && !clIsCallee(w) {
		g.st.once2.Do(func() { close(g.st.callerDone) })
	}
	return nil
}

func clGatedOptions(mode, cwd string) (*actionlint.LinterOptions, *clGateState) {
	st := &clGateState{mode: mode, calleeReg: make(chan struct{}), callerDone: make(chan struct{})}
	opts := &actionlint.LinterOptions{WorkingDir: cwd}
	if mode != "" {
		opts.OnRulesCreated = func(rules []actionlint.Rule) []actionlint.Rule {
			f := &clGate{RuleBase: actionlint.NewRuleBase("verif-gate-front", "schedule gate"), st: st, front: true}
			b := &clGate{RuleBase: actionlint.NewRuleBase("verif-gate-back", "schedule gate"), st: st}
			out := make([]actionlint.Rule, 0, len(rules)+2)
			out = append(out, f)
			out = append(out, rules...)
			out = append(out, b)
			return out
		}
	}
	return opts, st
}

// ------------------------------------------------------------------------------ execution

func clWrite(path, text string) error {
	if err := os.MkdirAll(filepath.Dir(path), 0o755); err != nil {
		return err
	}
	return os.WriteFile(path, []byte(text), 0o644)
}

func clCallerOnly(errs []*actionlint.Error, callerRel string) []*actionlint.Error {
	var out []*actionlint.Error
	for _, e := range errs {
		if filepath.ToSlash(e.Filepath) == callerRel {
			out = append(out, e)
		}
	}
	return out
}

const clCalleeRel = ".github/workflows/callee.yml"

// clRunWorkflowPath lints the caller through one real path.
func clRunWorkflowPath(root, callerRel, path string, out *clOut) {
	caller := filepath.Join(root, filepath.FromSlash(callerRel))
	callee := filepath.Join(root, filepath.FromSlash(clCalleeRel))
	mode := map[string]string{"file": "", "ast": "callee-first", "file2": "caller-first", "free": ""}[path]
	opts, st := clGatedOptions(mode, root)
	l, err := newLinter(opts)
	if err != nil {
		out.Other = append(out.Other, "error: "+err.Error())
		return
	}
	var errs []*actionlint.Error
	if path == "file" {
		errs, err = l.LintFile(caller, nil)
	} else {
		errs, err = l.LintFiles([]string{callee, caller}, nil)
	}
	if err != nil {
		out.Other = append(out.Other, "error: "+err.Error())
		return
	}
	if st.timeouts > 0 {
		out.Other = append(out.Other, "schedule gate timed out")
	}
	clClassify(clCallerOnly(errs, callerRel), out)
}

type clGroup struct {
	idx  int
	d    clDecl
	vecs []clVec
	spec string // synthetic table key (popular)
}

func clRunGroup(g clGroup, base string) []clOut {
	var outs []clOut
	root := filepath.Join(base, fmt.Sprintf("r%d", g.idx))
	fail := func(v clVec, path, msg string) {
		outs = append(outs, clOut{ID: v.ID, Path: path, Diags: []clDiag{}, Other: []string{msg}})
	}
	var calleeText, uses string
	switch g.d.Kind {
	case "action":
		calleeText = clRenderAction(g.d)
		actionDir := filepath.Join(root, ".github", "actions", "x")
		if g.d.Loc == "root" {
			actionDir = root
		}
		if err := clWrite(filepath.Join(actionDir, "action.yml"), calleeText); err != nil {
			panic(err)
		}
		if err := clActionFiles(g.d, actionDir); err != nil {
			panic(err)
		}
	case "workflow":
		calleeText = clRenderCallee(g.d)
		uses = "./" + clCalleeRel
		if err := clWrite(filepath.Join(root, filepath.FromSlash(clCalleeRel)), calleeText); err != nil {
			panic(err)
		}
	case "popular":
		calleeText = clRenderAction(g.d)
		uses = g.spec
	}
	if g.d.Kind != "popular" {
		if err := os.MkdirAll(filepath.Join(root, ".git"), 0o755); err != nil {
			panic(err)
		}
		if err := os.MkdirAll(filepath.Join(root, ".github", "workflows"), 0o755); err != nil {
			panic(err)
		}
	}
	for _, v := range g.vecs {
		src := clRenderCaller(g.d.Kind, uses, v.Call)
		callerRel := fmt.Sprintf(".github/workflows/caller%d.yml", v.ID)
		paths := v.Paths
		if len(paths) == 0 {
			switch g.d.Kind {
			case "action":
				paths = []string{"local"}
			case "popular":
				paths = []string{"table"}
			default:
				paths = []string{"file", "ast", "file2"}
			}
		}
		if g.d.Kind != "popular" {
			if err := clWrite(filepath.Join(root, filepath.FromSlash(callerRel)), src); err != nil {
				fail(v, "", "error: "+err.Error())
				continue
			}
		}
		var reps []string
		for k := 0; k <= v.Rep; k++ {
			reps = append(reps, paths...)
		}
		for _, p := range reps {
			o := clOut{ID: v.ID, Path: p, Diags: []clDiag{}, Other: []string{}, Msgs: []string{}, Caller: src, Callee: calleeText}
			switch {
			case g.d.Kind == "popular":
				l, err := newLinter(nil)
				if err != nil {
					o.Other = append(o.Other, "error: "+err.Error())
					break
				}
				errs, err := l.Lint("caller.yml", []byte(src), nil)
				if err != nil {
					o.Other = append(o.Other, "error: "+err.Error())
					break
				}
				clClassify(errs, &o)
			case g.d.Kind == "action":
				l, err := newLinter(&actionlint.LinterOptions{WorkingDir: root})
				if err != nil {
					o.Other = append(o.Other, "error: "+err.Error())
					break
				}
				errs, err := l.LintFile(filepath.Join(root, filepath.FromSlash(callerRel)), nil)
				if err != nil {
					o.Other = append(o.Other, "error: "+err.Error())
					break
				}
				clClassify(errs, &o)
			default:
				clRunWorkflowPath(root, callerRel, p, &o)
			}
			outs = append(outs, o)
		}
		for k := 0; k < v.Free && g.d.Kind == "workflow"; k++ {
			o := clOut{ID: v.ID, Path: "free", Diags: []clDiag{}, Other: []string{}, Msgs: []string{}, Caller: src, Callee: calleeText}
			clRunWorkflowPath(root, callerRel, "free", &o)
			outs = append(outs, o)
		}
		if g.d.Kind != "popular" {
			_ = os.Remove(filepath.Join(root, filepath.FromSlash(callerRel)))
		}
	}
	if g.d.Kind != "popular" {
		_ = os.RemoveAll(root)
	}
	return outs
}

func clRun(in []clVec, base string) ([]clOut, error) {
	// group the vectors by callee declaration: one temporary repository / table entry per declaration
	index := map[string]int{}
	var groups []clGroup
	for _, v := range in {
		kb, _ := json.Marshal(v.D)
		k := string(kb)
		gi, ok := index[k]
		if !ok {
			gi = len(groups)
			index[k] = gi
			groups = append(groups, clGroup{idx: gi, d: v.D})
		}
		groups[gi].vecs = append(groups[gi].vecs, v)
	}
	// synthetic entries of the bundled table, produced like scripts/generate-popular-actions does:
	// the action.yml text is decoded into actionlint.ActionMetadata, then the skip flags are set.
	var added []string
	for i := range groups {
		g := &groups[i]
		if g.d.Kind != "popular" {
			continue
		}
		var meta actionlint.ActionMetadata
		if err := yaml.Unmarshal([]byte(clRenderAction(g.d)), &meta); err != nil {
			return nil, fmt.Errorf("decoding synthetic action metadata: %w", err)
		}
		meta.SkipInputs = g.d.SkipInputs
		meta.SkipOutputs = g.d.SkipOutputs
		g.spec = fmt.Sprintf("verif-c14/d%d@v1", g.idx)
		actionlint.PopularActions[g.spec] = &meta
		added = append(added, g.spec)
	}
	defer func() {
		for _, s := range added {
			delete(actionlint.PopularActions, s)
		}
	}()
	res := parallelMap(groups, func(g clGroup) []clOut { return clRunGroup(g, base) })
	var flat []clOut
	for _, r := range res {
		flat = append(flat, r...)
	}
	return flat, nil
}

// --------------------------------------------------------------------------- bundled table

type clIfaceInput struct {
	N          clName `json:"n"`
	Required   bool   `json:"required"`
	HasDefault bool   `json:"hasDefault"`
	Type       string `json:"type"`
}
type clIfaceSecret struct {
	N        clName `json:"n"`
	Required bool   `json:"required"`
}
type clIface struct {
	Kind        string          `json:"kind"` // popular | outdated
	Repo        string          `json:"repo"` // owner/repo[/path] part of the spec
	Inputs      []clIfaceInput  `json:"inputs"`
	Secrets     []clIfaceSecret `json:"secrets"`
	Outputs     []clName        `json:"outputs"`
	SkipInputs  bool            `json:"skipInputs"`
	SkipOutputs bool            `json:"skipOutputs"`
}
type clRecord struct {
	Spec   string   `json:"spec"`
	Gen    string   `json:"gen"`
	Iface  clIface  `json:"iface"`
	Call   clCall   `json:"call"`
	Obs    []clDiag `json:"obs"`
	Other  []string `json:"other"`
	Caller string   `json:"caller"`
}

func clFlip(s string) string {
	up := strings.ToUpper(s)
	if up != s {
		return up
	}
	return strings.ToLower(s)
}

// with.entrypoint / with.args of a step are keys of the workflow syntax itself
func clBundledIface(spec string, meta *actionlint.ActionMetadata) clIface {
	repo := spec
	if i := strings.IndexByte(spec, '@'); i >= 0 {
		repo = spec[:i]
	}
	f := clIface{Kind: "popular", Repo: repo, Inputs: []clIfaceInput{}, Secrets: []clIfaceSecret{}, Outputs: []clName{}}
	if meta == nil {
		f.Kind = "outdated"
		return f
	}
	f.SkipInputs, f.SkipOutputs = meta.SkipInputs, meta.SkipOutputs
	ids := make([]string, 0, len(meta.Inputs))
	for id := range meta.Inputs {
		ids = append(ids, id)
	}
	sort.Strings(ids)
	for _, id := range ids {
		in := meta.Inputs[id]
		f.Inputs = append(f.Inputs, clIfaceInput{N: clName{id, in.Name}, Required: in.Required, Type: "none"})
	}
	ids = ids[:0]
	for id := range meta.Outputs {
		ids = append(ids, id)
	}
	sort.Strings(ids)
	for _, id := range ids {
		f.Outputs = append(f.Outputs, clName{id, meta.Outputs[id].Name})
	}
	return f
}

func clBundledCalls(f clIface) []struct {
	gen  string
	call clCall
} {
	type gc = struct {
		gen  string
		call clCall
	}
	mk := func(with, refs []clName) clCall {
		if with == nil {
			with = []clName{}
		}
		if refs == nil {
			refs = []clName{}
		}
		vt := make([]string, len(with))
		for i := range vt {
			vt[i] = "plain:text"
		}
		return clCall{Uses: "plain", With: with, ValueTypes: vt, Secrets: []clName{}, OutputRefs: refs}
	}
	var all, req []clName
	for _, in := range f.Inputs {
		all = append(all, in.N)
		if in.Required {
			req = append(req, in.N)
		}
	}
	extra := clName{"verif_no_such_name", "verif_no_such_name"}
	flip := func(ns []clName) []clName {
		out := make([]clName, len(ns))
		for i, n := range ns {
			out[i] = clName{n.ID, clFlip(n.Sp)}
		}
		return out
	}
	out := []gc{
		{"none", mk(nil, nil)},
		{"all-required", mk(req, nil)},
		{"all-declared", mk(all, nil)},
		{"one-extra", mk(append(append([]clName{}, req...), extra), nil)},
		{"all-declared-flipped", mk(flip(all), nil)},
		{"all-required-flipped", mk(flip(req), nil)},
	}
	for i := range req {
		w := append(append([]clName{}, req[:i]...), req[i+1:]...)
		out = append(out, gc{"omit-required-" + req[i].ID, mk(w, nil)})
	}
	out = append(out, gc{"outputs-declared", mk(req, f.Outputs)})
	out = append(out, gc{"outputs-declared-flipped", mk(req, flip(f.Outputs))})
	out = append(out, gc{"outputs-undeclared", mk(req, []clName{extra})})
	out = append(out, gc{"outputs-undeclared-flipped", mk(req, []clName{{extra.ID, clFlip(extra.Sp)}})})
	return out
}

func init() {
	register("calls-run", func(args []string) error {
		if len(args) < 3 {
			return fmt.Errorf("usage: calls-run <in.jsonl> <out.jsonl> <scratch dir>")
		}
		in, err := readJSONL[clVec](args[0])
		if err != nil {
			return err
		}
		base, err := filepath.Abs(args[2])
		if err != nil {
			return err
		}
		outs, err := clRun(in, base)
		if err != nil {
			return err
		}
		return writeJSONL(args[1], outs)
	})

	register("calls-bundled", func(args []string) error {
		if len(args) < 1 {
			return fmt.Errorf("usage: calls-bundled <out.ndjson>")
		}
		type job struct {
			spec string
			meta *actionlint.ActionMetadata
		}
		var jobs []job
		for spec, meta := range actionlint.PopularActions {
			jobs = append(jobs, job{spec, meta})
		}
		for spec := range actionlint.OutdatedPopularActionSpecs {
			if _, ok := actionlint.PopularActions[spec]; ok {
				return fmt.Errorf("%q is in both tables", spec)
			}
			jobs = append(jobs, job{spec, nil})
		}
		sort.Slice(jobs, func(i, j int) bool { return jobs[i].spec < jobs[j].spec })
		res := parallelMap(jobs, func(j job) []clRecord {
			f := clBundledIface(j.spec, j.meta)
			var recs []clRecord
			for _, c := range clBundledCalls(f) {
				src := clRenderCaller("popular", j.spec, c.call)
				r := clRecord{Spec: j.spec, Gen: c.gen, Iface: f, Call: c.call, Obs: []clDiag{}, Other: []string{}, Caller: src}
				l, err := newLinter(nil)
				if err != nil {
					r.Other = append(r.Other, "error: "+err.Error())
					recs = append(recs, r)
					continue
				}
				errs, err := l.Lint("caller.yml", []byte(src), nil)
				if err != nil {
					r.Other = append(r.Other, "error: "+err.Error())
					recs = append(recs, r)
					continue
				}
				o := clOut{Diags: []clDiag{}, Other: []string{}}
				clClassify(errs, &o)
				r.Obs, r.Other = o.Diags, o.Other
				recs = append(recs, r)
			}
			return recs
		})
		var flat []clRecord
		for _, r := range res {
			flat = append(flat, r...)
		}
		return writeJSONL(args[0], flat)
	})
}
