package main

// C05 (and the shape part of C09): workflow shapes of spec/Scope.tla rendered to YAML, one reference
// `${{ toJSON(<ref>) }}` put at a site, linted with the real Linter.
//
//   scope-run <in.jsonl> <out.jsonl> <reps>      in: {id, sh, site, ref}; out: scOut
//   scope-reduce <in.jsonl> <out.jsonl> <reps>   C09: every job of the shape, linted inside the whole
//                                                workflow and inside the reduced one (the job, the
//                                                header and the jobs it needs); both real outputs
//
// The reference is wrapped in toJSON() so that its type (object, string ...) never causes a
// secondary diagnostic: the only diagnostic a vector may produce is "undefined property/variable"
// AT the reference.  Anything else of kind expression/syntax-check goes to `other` (inconclusive).

import (
	"fmt"
	"regexp"
	"sort"
	"strings"
)

type scEvent struct {
	K   string   `json:"k"`
	Ins []string `json:"ins"`
	Sec struct {
		K  string   `json:"k"`
		Ns []string `json:"ns"`
	} `json:"sec"`
	Outs bool `json:"outs"`
}
type scRow struct {
	N   string `json:"n"`
	Lit bool   `json:"lit"`
	VK  string `json:"vk"` // "num" scalars | "obj" the object {x: 1} | "objexpr" that object and an expression element
}
type scMatrix struct {
	K    string  `json:"k"`
	Rows []scRow `json:"rows"`
	Inc  struct {
		K  string   `json:"k"`
		Cs []string `json:"cs"`
	} `json:"inc"`
	Exc string `json:"exc"`
}
type scJob struct {
	Kind  string   `json:"kind"`
	Needs []int    `json:"needs"`
	Outs  []string `json:"outs"`
	Steps []string `json:"steps"`
	Mx    scMatrix `json:"mx"`
	Runs  string   `json:"runs"`
	Shell string   `json:"shell"`
}
type scShape struct {
	Call   scEvent `json:"call"`
	Disp   scEvent `json:"disp"`
	WShell string  `json:"wshell"`
	Jobs   []scJob `json:"jobs"`
}
type scSite struct {
	K string `json:"k"`
	J int    `json:"j"`
	S int    `json:"s"`
}
type scRef struct {
	Ctx string   `json:"ctx"`
	P   []string `json:"p"`
}

// scSpell is a spelling of a vector (Spellings of Scope.tla): access syntax of the entity segments of the
// reference, upper-case reference, upper-case declarations.  The zero value is the plain spelling.
type scSpell struct {
	Syn  string `json:"syn"`
	Ref  string `json:"ref"`
	Decl string `json:"decl"`
	Emb  string `json:"emb"`  // Embeddings of Scope.tla: the expression around the reference "@" ("" = toJSON(@))
	IdSh string `json:"idsh"` // IdShapes: text of a step id given by an expression ("" = one whole ${{ }})
	Lay  int    `json:"lay"`  // layout of the header: bit 0 sections before `on:`, bit 1 workflow_dispatch before workflow_call
}
type scVec struct {
	ID   int     `json:"id"`
	Sh   scShape `json:"sh"`
	Site scSite  `json:"site"`
	Ref  scRef   `json:"ref"`
	Sp   scSpell `json:"sp"`
}
type scOut struct {
	ID       int      `json:"id"`
	Reported bool     `json:"reported"` // an undefined-property/variable diagnostic at the reference
	Unstable bool     `json:"unstable"` // the repetitions (Go map order of the jobs) disagree
	Seen     []bool   `json:"seen"`     // verdict under each textual order of the jobs
	Msgs     []string `json:"msgs"`     // messages at the reference
	Other    []string `json:"other"`    // diagnostics that make the vector unreadable
	Ignored  int      `json:"ignored"`  // diagnostics of unrelated kinds (job-needs, id, matrix ...)
	Src      string   `json:"src"`
	RefLine  int      `json:"ref_line"`
	RefCol   int      `json:"ref_col"`
}

func scRefText(r scRef, sp scSpell) string {
	ctx := r.Ctx
	if ctx == "ghinputs" {
		ctx = "github.event.inputs"
	}
	var sb strings.Builder
	sb.WriteString(ctx)
	for i, seg := range r.P {
		entity := i == 0 || (i == 2 && r.P[1] == "outputs") // names given by the workflow, not keywords
		if entity && sp.Ref == "U" {
			seg = strings.ToUpper(seg)
		}
		if entity && sp.Syn == "idx" {
			sb.WriteString("['" + seg + "']")
		} else {
			sb.WriteString("." + seg)
		}
	}
	return sb.String()
}

// scRendered is the text of a workflow with what the callers need to know about it.
type scRendered struct {
	src      string
	refLine  int         // 1-based line of the reference (0: the site does not exist)
	refCol   int         // 1-based column of the first character of the reference
	jobStart map[int]int // first line (the `  jN:` line) of each rendered job
	jobEnd   map[int]int // last line of each rendered job
}

// scPerms returns the textual orders in which n jobs are written: all permutations (n <= 3).  The
// visitor walks the jobs in source order, so each permutation is one visiting order.
func scPerms(n int) [][]int {
	var out [][]int
	var rec func(cur []int, used int)
	rec = func(cur []int, used int) {
		if len(cur) == n {
			out = append(out, append([]int{}, cur...))
			return
		}
		for j := 1; j <= n; j++ {
			if used&(1<<j) == 0 {
				rec(append(cur, j), used|1<<j)
			}
		}
	}
	rec(nil, 0)
	return out
}

// scRender writes the shape restricted to the jobs in keep (nil: all) in the textual order `order`
// (job indices; nil: ascending).  The reference is put at the site.
func scRender(sh scShape, site scSite, ref scRef, keep map[int]bool, order []int, sp scSpell) scRendered {
	dn := func(name string) string { // a declared name
		if sp.Decl == "U" {
			return strings.ToUpper(name)
		}
		return name
	}
	scJobName := func(i int) string { return dn(fmt.Sprintf("j%d", i)) }
	var sb strings.Builder
	line := 0
	out := scRendered{jobStart: map[int]int{}, jobEnd: map[int]int{}}
	w := func(s string) { sb.WriteString(s + "\n"); line++ }
	frame := sp.Emb
	if frame == "" {
		frame = "toJSON(@)"
	}
	hole := strings.Index(frame, "@")
	body := frame[:hole] + scRefText(ref, sp) + frame[hole+1:]
	atWith := func(prefix, open, close string) { // writes prefix + probe and records the position of the reference
		w(prefix + open + body + close)
		out.refLine = line
		out.refCol = len(prefix) + len(open) + hole + 1
	}
	at := func(prefix string) { atWith(prefix, "${{ ", " }}") }
	// for bool / number positions: the probe has type any
	atAny := func(prefix string) { atWith(prefix, "${{ fromJSON(toJSON(", ")) }}") }
	is := func(k string, j, s int) bool { return site.K == k && site.J == j && site.S == s }

	events := func() {
		w("on:")
		w("  push:")
		call := func() {
			if sh.Call.K == "some" {
				w("  workflow_call:")
				if len(sh.Call.Ins) > 0 {
					w("    inputs:")
					for _, n := range sh.Call.Ins {
						w("      " + dn(n) + ":")
						w("        type: string")
					}
				}
				if sh.Call.Sec.K == "some" {
					if len(sh.Call.Sec.Ns) == 0 {
						w("    secrets: {}")
					} else {
						w("    secrets:")
						for _, n := range sh.Call.Sec.Ns {
							w("      " + dn(n) + ":")
							w("        required: false")
						}
					}
				}
				if sh.Call.Outs {
					w("    outputs:")
					w("      x:")
					if is("callout", 0, 0) {
						at("        value: ")
					} else {
						w("        value: fixed")
					}
				}
			}
		}
		disp := func() {
			if sh.Disp.K == "some" {
				w("  workflow_dispatch:")
				if len(sh.Disp.Ins) > 0 {
					w("    inputs:")
					for _, n := range sh.Disp.Ins {
						w("      " + dn(n) + ":")
						w("        type: string")
					}
				}
			}
		}
		if sp.Lay&2 != 0 {
			disp()
			call()
		} else {
			call()
			disp()
		}
	}
	sections := func() {
		if is("runname", 0, 0) {
			at("run-name: ")
		}
		if is("wfenv", 0, 0) {
			w("env:")
			at("  PROBE: ")
		}
		if sh.WShell != "" {
			w("defaults:")
			w("  run:")
			w("    shell: " + sh.WShell)
		}
		if is("wfconcgroup", 0, 0) {
			w("concurrency:")
			at("  group: ")
		}
		if is("wfconccancel", 0, 0) {
			w("concurrency:")
			w("  group: fixed")
			atAny("  cancel-in-progress: ")
		}
	}
	if sp.Lay&1 != 0 {
		sections()
		events()
	} else {
		events()
		sections()
	}
	w("jobs:")
	if order == nil {
		for j := 1; j <= len(sh.Jobs); j++ {
			order = append(order, j)
		}
	}
	for _, j := range order {
		job := sh.Jobs[j-1]
		if keep != nil && !keep[j] {
			continue
		}
		w("  " + scJobName(j) + ":")
		out.jobStart[j] = line
		if is("jobname", j, 0) {
			at("    name: ")
		}
		if len(job.Needs) > 0 {
			ns := make([]string, len(job.Needs))
			for i, t := range job.Needs {
				ns[i] = scJobName(t)
			}
			w("    needs: [" + strings.Join(ns, ", ") + "]")
		}
		if is("jobif", j, 0) {
			at("    if: ")
		}
		if job.Mx.K == "expr" {
			w("    strategy:")
			w("      matrix: ${{ fromJSON(vars.MATRIX) }}")
		} else if job.Mx.K == "lit" {
			w("    strategy:")
			w("      matrix:")
			firstLit := ""
			for _, r := range job.Mx.Rows {
				if r.Lit {
					objs := r.VK == "obj" || r.VK == "objexpr"
					probeHere := firstLit == "" && is("mxrow", j, 0)
					switch {
					case !objs && !probeHere:
						w("        " + dn(r.N) + ": [1, 2]")
					case !objs:
						w("        " + dn(r.N) + ":")
						w("          - 1")
						w("          - 2")
					default:
						w("        " + dn(r.N) + ":")
						w("          - {x: 1}")
						if r.VK == "objexpr" {
							w("          - ${{ fromJSON(vars.ELEMENT) }}")
						}
					}
					if probeHere {
						at("          - ")
					}
					if firstLit == "" {
						firstLit = dn(r.N)
					}
				} else {
					w("        " + dn(r.N) + ": ${{ fromJSON(vars.ROW) }}")
				}
			}
			switch job.Mx.Inc.K {
			case "expr":
				w("        include: ${{ fromJSON(vars.INCLUDE) }}")
			case "list":
				w("        include:")
				probed := false
				for _, e := range job.Mx.Inc.Cs {
					if e == "$" {
						w("          - ${{ fromJSON(vars.ELEMENT) }}")
						continue
					}
					if e == "A" { // the object literal {y: 1} assigned to key a
						if !probed && is("mxinc", j, 0) {
							at("          - " + dn("a") + ": ")
							probed = true
						} else {
							w("          - " + dn("a") + ": {y: 1}")
						}
						continue
					}
					for i, key := range strings.Split(e, "") {
						if i == 0 && !probed && is("mxinc", j, 0) {
							at("          - " + dn(key) + ": ")
							probed = true
						} else if i == 0 {
							w("          - " + dn(key) + ": 1")
						} else {
							w("            " + dn(key) + ": 1")
						}
					}
				}
			}
			if firstLit == "" && len(job.Mx.Rows) > 0 {
				firstLit = dn(job.Mx.Rows[0].N)
			}
			switch job.Mx.Exc {
			case "expr":
				w("        exclude: ${{ fromJSON(vars.EXCLUDE) }}")
			case "list", "elem":
				w("        exclude:")
				if is("mxexc", j, 0) {
					at("          - " + firstLit + ": ")
				} else {
					w("          - " + firstLit + ": 1")
				}
				if job.Mx.Exc == "elem" {
					w("          - ${{ fromJSON(vars.EXCLUDED) }}")
				}
			}
		}
		if job.Kind == "call" {
			w("    uses: octo-org/shared/.github/workflows/build.yml@v1")
			if is("callwith", j, 0) {
				w("    with:")
				at("      arg: ")
			}
			if is("callsecret", j, 0) {
				w("    secrets:")
				at("      tok: ")
			}
			out.jobEnd[j] = line
			continue
		}
		if is("runson", j, 0) {
			atAny("    runs-on: ")
		}
		switch job.Runs {
		case "w":
			w("    runs-on: windows-latest")
		case "uw":
			w("    runs-on: [self-hosted, windows]")
		default:
			if !is("runson", j, 0) {
				w("    runs-on: ubuntu-latest")
			}
		}
		if is("container", j, 0) {
			w("    container:")
			at("      image: ")
		}
		if is("service", j, 0) {
			w("    services:")
			w("      db:")
			at("        image: ")
		}
		if is("concurrency", j, 0) {
			w("    concurrency:")
			at("      group: ")
		}
		if is("timeout", j, 0) {
			atAny("    timeout-minutes: ")
		}
		if is("conterr", j, 0) {
			atAny("    continue-on-error: ")
		}
		if job.Shell != "" {
			w("    defaults:")
			w("      run:")
			w("        shell: " + job.Shell)
		}
		if is("environment", j, 0) || is("envurl", j, 0) {
			w("    environment:")
			if is("environment", j, 0) {
				at("      name: ")
			} else {
				w("      name: production")
				at("      url: ")
			}
		}
		if is("jobenv", j, 0) {
			w("    env:")
			at("      PROBE: ")
		}
		if len(job.Outs) > 0 {
			w("    outputs:")
			for i, o := range job.Outs {
				if i == 0 && is("outputs", j, 0) {
					at("      " + dn(o) + ": ")
				} else {
					w("      " + dn(o) + ": fixed")
				}
			}
		}
		w("    steps:")
		for si, st := range job.Steps {
			s := si + 1
			first := true
			item := func(text string, probeHere bool) {
				prefix := "        "
				if first {
					prefix = "      - "
					first = false
				}
				if probeHere {
					at(prefix + text)
				} else {
					w(prefix + text)
				}
			}
			switch st {
			case "-":
			case "$":
				if sp.IdSh != "" {
					item("id: "+sp.IdSh, false)
				} else {
					item("id: ${{ format('dyn{0}', 1) }}", false)
				}
			default:
				item("id: "+dn(st), false)
			}
			if is("stepname", j, s) {
				item("name: ", true)
			}
			if is("stepif", j, s) {
				item("if: ", true)
			}
			if is("with", j, s) {
				item("uses: octo-org/some-action@v1", false)
				item("with:", false)
				at("          arg: ")
			} else if is("run", j, s) {
				item("run: echo ", true)
			} else {
				item("run: echo", false)
			}
			if is("stepenv", j, s) {
				item("env:", false)
				at("          PROBE: ")
			}
			if is("steptimeout", j, s) {
				atAny("        timeout-minutes: ")
			}
		}
		out.jobEnd[j] = line
	}
	out.src = sb.String()
	return out
}

var scUndefProp = regexp.MustCompile(`^property "[^"]*" is not defined in object type `)
var scUndefVar = regexp.MustCompile(`^undefined variable "[^"]*"\. available variables are `)

func scIsUndefined(msg string) bool {
	return scUndefProp.MatchString(msg) || scUndefVar.MatchString(msg)
}

// kinds of diagnostics that the shapes may legitimately cause away from the reference
var scUnrelatedKinds = map[string]bool{"job-needs": true, "id": true, "matrix": true, "runner-label": true, "shell-name": true}

func scRunOnce(r scRendered, out *scOut) (reported bool) {
	out.Ignored = 0
	diags, err := lintSrc(r.src)
	if err != nil {
		out.Other = append(out.Other, "error: "+err.Error())
		return false
	}
	for _, d := range diags {
		switch {
		case d.Kind == "expression" && d.Line == r.refLine && d.Col == r.refCol && scIsUndefined(d.Msg):
			if reported {
				out.Other = append(out.Other, "two diagnostics at the reference: "+d.Msg)
			}
			reported = true
			out.Msgs = append(out.Msgs, d.Msg)
		case scUnrelatedKinds[d.Kind]:
			out.Ignored++
		default:
			out.Other = append(out.Other, fmt.Sprintf("%d:%d [%s] %s", d.Line, d.Col, d.Kind, d.Msg))
		}
	}
	return reported
}

func scRun(v scVec, reps int) scOut {
	out := scOut{ID: v.ID, Msgs: []string{}, Other: []string{}, Seen: []bool{}}
	perms := scPerms(len(v.Sh.Jobs))
	if reps > 0 && len(perms) > reps {
		perms = perms[:reps]
	}
	for i, order := range perms {
		r := scRender(v.Sh, v.Site, v.Ref, nil, order, v.Sp)
		if i == 0 {
			out.Src, out.RefLine, out.RefCol = r.src, r.refLine, r.refCol
		}
		if r.refLine == 0 {
			out.Other = append(out.Other, "site does not exist in the rendering")
			return out
		}
		lines := strings.Split(r.src, "\n")
		if got := lines[r.refLine-1][r.refCol-1:]; !strings.HasPrefix(got, scRefText(v.Ref, v.Sp)) {
			out.Other = append(out.Other, "renderer: reference is not at the recorded position: "+got)
			return out
		}
		n := len(out.Other)
		rep := scRunOnce(r, &out)
		if len(out.Other) > n {
			out.Src = r.src
		}
		out.Seen = append(out.Seen, rep)
		if i == 0 {
			out.Reported = rep
		} else if rep != out.Reported {
			out.Unstable = true
		}
	}
	return out
}

// ---------------------------------------------------------------------------------- C09 part

type scSubjDiag struct {
	Line int    `json:"line"` // relative to the first line of the job
	Col  int    `json:"col"`
	Kind string `json:"kind"`
	Msg  string `json:"msg"`
}
type scReduceOut struct {
	ID      int        `json:"id"`
	Job     int        `json:"job"`
	Kept    []int      `json:"kept"`
	Full    [][]string `json:"full"`    // distinct outcomes (sorted diagnostic keys) of the job inside the whole workflow
	Reduced [][]string `json:"reduced"` // ... inside the reduced workflow
	Other   []string   `json:"other"`
	SrcFull string     `json:"src_full"`
	SrcRed  string     `json:"src_reduced"`
	Trivial bool       `json:"trivial"` // nothing was removed
}

var cmpPosInMsg = regexp.MustCompile(`line:\d+,col:(\d+)`)

// cmpKeyOf is the observable of C09: (relative line, column, kind, message); absolute positions quoted
// inside a message are line offsets too and are masked.
func cmpKeyOf(d Diag, start int) string {
	return fmt.Sprintf("%d:%d [%s] %s", d.Line-start, d.Col, d.Kind, cmpPosInMsg.ReplaceAllString(d.Msg, "line:*,col:$1"))
}

func cmpOutcome(diags []Diag, start, end int) []string {
	keys := []string{}
	for _, d := range diags {
		if d.Line >= start && d.Line <= end {
			keys = append(keys, cmpKeyOf(d, start))
		}
	}
	sort.Strings(keys)
	return keys
}

func cmpAddOutcome(set [][]string, o []string) [][]string {
	for _, x := range set {
		if strings.Join(x, "\n") == strings.Join(o, "\n") {
			return set
		}
	}
	return append(set, o)
}

func scClosure(sh scShape, j int) map[int]bool {
	keep := map[int]bool{j: true}
	todo := []int{j}
	for len(todo) > 0 {
		x := todo[0]
		todo = todo[1:]
		for _, t := range sh.Jobs[x-1].Needs {
			if t >= 1 && t <= len(sh.Jobs) && !keep[t] {
				keep[t] = true
				todo = append(todo, t)
			}
		}
	}
	return keep
}

func scReduce(v scVec, reps int) []scReduceOut {
	var outs []scReduceOut
	perms := scPerms(len(v.Sh.Jobs))
	for ji := range v.Sh.Jobs {
		j := ji + 1
		keep := scClosure(v.Sh, j)
		o := scReduceOut{ID: v.ID, Job: j, Other: []string{}, Trivial: len(keep) == len(v.Sh.Jobs)}
		for x := range keep {
			o.Kept = append(o.Kept, x)
		}
		sort.Ints(o.Kept)
		if o.Trivial {
			outs = append(outs, o)
			continue
		}
		for i, order := range perms {
			full := scRender(v.Sh, v.Site, v.Ref, nil, order, v.Sp)
			red := scRender(v.Sh, v.Site, v.Ref, keep, order, v.Sp)
			if i == 0 {
				o.SrcFull, o.SrcRed = full.src, red.src
			}
			if full.jobEnd[j]-full.jobStart[j] != red.jobEnd[j]-red.jobStart[j] {
				o.Other = append(o.Other, "renderer: the job has a different extent in the two workflows")
			}
			df, err1 := lintSrc(full.src)
			dr, err2 := lintSrc(red.src)
			if err1 != nil || err2 != nil {
				o.Other = append(o.Other, fmt.Sprint("error: ", err1, err2))
				break
			}
			n := len(o.Full)
			o.Full = cmpAddOutcome(o.Full, cmpOutcome(df, full.jobStart[j], full.jobEnd[j]))
			o.Reduced = cmpAddOutcome(o.Reduced, cmpOutcome(dr, red.jobStart[j], red.jobEnd[j]))
			if len(o.Full) > n && n > 0 {
				o.SrcFull = full.src // the order that produced a new outcome
				o.SrcRed = red.src
			}
		}
		outs = append(outs, o)
	}
	return outs
}

func init() {
	register("scope-run", func(args []string) error {
		in, err := readJSONL[scVec](args[0])
		if err != nil {
			return err
		}
		reps := 0 // 0: every permutation of the jobs
		if len(args) > 2 {
			fmt.Sscan(args[2], &reps)
		}
		outs := parallelMap(in, func(v scVec) scOut {
			o := scRun(v, reps)
			if len(o.Other) == 0 {
				o.Src = "" // keep the output small; the check re-renders what it reports
			}
			return o
		})
		return writeJSONL(args[1], outs)
	})
	register("scope-render", func(args []string) error {
		in, err := readJSONL[scVec](args[0])
		if err != nil {
			return err
		}
		for _, v := range in {
			r := scRender(v.Sh, v.Site, v.Ref, nil, nil, v.Sp)
			fmt.Printf("# id %d reference at %d:%d\n%s\n", v.ID, r.refLine, r.refCol, r.src)
		}
		return nil
	})
	register("scope-reduce", func(args []string) error {
		in, err := readJSONL[scVec](args[0])
		if err != nil {
			return err
		}
		reps := 6
		if len(args) > 2 {
			fmt.Sscan(args[2], &reps)
		}
		outs := parallelMap(in, func(v scVec) []scReduceOut { return scReduce(v, reps) })
		var flat []scReduceOut
		for _, o := range outs {
			flat = append(flat, o...)
		}
		return writeJSONL(args[1], flat)
	})
}
