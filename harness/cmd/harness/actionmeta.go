package main

// EXT02 - local action metadata / `uses:` format (spec/ActionMeta.tla, lint parts).
//
//   am-run  <basedir> <in.jsonl> <out.jsonl>   {id, v}: v is a vector of ActionMeta.tla (parts runs, top, shape, reuse,
//                                              uses, popular, file).  Materialises the action directories of the vector in a
//                                              temporary repository, renders a workflow whose steps use them, runs the
//                                              real Linter.Lint and classifies the diagnostics of the "action" rule by
//                                              anchor phrase -> {c: class, w: where}; where = "u<i>" when the position
//                                              is the `uses:` value of step i.
//   am-show <vector-json>                      print metadata, workflow and diagnostics of one vector
//   am-tables <out.json>                       the code's BrandingIcons / BrandingColors tables
//
// Nothing here knows which values are valid: predictions come from TLC.

import (
	"encoding/json"
	"fmt"
	"os"
	"path/filepath"
	"regexp"
	"sort"
	"strings"

	"github.com/rhysd/actionlint"
)

type amIn struct {
	ID int             `json:"id"`
	V  json.RawMessage `json:"v"`
}

type amDiag struct {
	C string `json:"c"`
	W string `json:"w"`
}

type amOut struct {
	ID      int               `json:"id"`
	Diags   []amDiag          `json:"diags"`
	Foreign []string          `json:"foreign"`
	Other   []string          `json:"other"`
	Src     string            `json:"src"`
	Files   map[string]string `json:"files,omitempty"`
}

type amVec struct {
	Part   string            `json:"part"`
	Using  string            `json:"using"`
	Keys   map[string]string `json:"keys"`
	Proj   bool              `json:"proj"`
	Name   string            `json:"name"`
	Desc   string            `json:"desc"`
	Icon   string            `json:"icon"`
	Color  string            `json:"color"`
	Faults [][]string        `json:"faults"`
	Steps  []string          `json:"steps"`
	Split  bool              `json:"split"`
	S      []string          `json:"s"`
	Spec   string            `json:"spec"`
	Yml    string            `json:"yml"`
	Yaml   string            `json:"yaml"`
}

var amKeyOrder = []string{"main", "pre", "pre-if", "post", "post-if", "steps", "image", "pre-entrypoint", "entrypoint",
	"post-entrypoint", "args", "env"}

// amScene is what a vector becomes: files of the repository (relative to its root), and the `uses:` values of the steps
type amScene struct {
	files  map[string]string
	uses   []string
	split  bool
	noProj bool
	err    error
}

func amTopScalar(key, class, okText string) string {
	switch class {
	case "absent":
		return ""
	case "null":
		return key + ":\n"
	case "empty":
		return key + ": \"\"\n"
	default:
		return key + ": " + okText + "\n"
	}
}

func amBrandScalar(key, text string) string {
	switch text {
	case "~absent":
		return ""
	case "~null":
		return "  " + key + ":\n"
	default:
		return "  " + key + ": " + rdQ(text) + "\n"
	}
}

func amRunsMeta(v *amVec, sc *amScene) string {
	var sb strings.Builder
	sb.WriteString("name: x\ndescription: d\n")
	switch v.Using {
	case "~norun":
		return sb.String()
	case "~nullrun":
		sb.WriteString("runs:\n")
		return sb.String()
	case "~emptyrun":
		sb.WriteString("runs: {}\n")
		return sb.String()
	}
	sb.WriteString("runs:\n")
	switch v.Using {
	case "~absent":
		sb.WriteString("  author-note: n\n")
	case "~null":
		sb.WriteString("  using:\n")
	default:
		sb.WriteString("  using: " + rdQ(v.Using) + "\n")
	}
	file := func(rel string) { sc.files["act/"+rel] = "# stand-in\n" }
	for _, k := range amKeyOrder {
		c, ok := v.Keys[k]
		if !ok || c == "absent" {
			continue
		}
		val := ""
		switch c {
		case "null":
			val = ""
		case "empty":
			val = `""`
		case "ok":
			val = "f-" + k + ".sh"
			file(val)
		case "missing":
			val = "nofile-" + k + ".sh"
		case "set":
			val = "always()"
		case "emptyseq":
			val = "[]"
		case "emptymap":
			val = "{}"
		case "nonempty":
			switch k {
			case "steps":
				val = "\n    - run: echo\n      shell: bash"
			case "args":
				val = "[a]"
			case "env":
				val = "{A: b}"
			}
		case "dockerfile-ok":
			val = "Dockerfile"
			file(val)
		case "dockerfile-missing":
			val = "Dockerfile"
		case "subdockerfile-ok":
			val = "sub/Dockerfile"
			file(val)
		case "other-ok":
			val = "my.dockerfile"
			file(val)
		case "other-missing":
			val = "my.dockerfile"
		case "docker-url":
			val = "docker://alpine:3"
		case "gcr":
			val = "gcr.io/p/i"
		case "ghcr":
			val = "ghcr.io/o/i"
		case "dockerio":
			val = "docker.io/o/i"
		case "pkgdev":
			val = "pkg.dev/p/i"
		default:
			sc.err = fmt.Errorf("unknown value class %q of key %q", c, k)
		}
		if val == "" {
			sb.WriteString("  " + k + ":\n")
		} else if strings.HasPrefix(val, "\n") {
			sb.WriteString("  " + k + ":" + val + "\n")
		} else {
			sb.WriteString("  " + k + ": " + val + "\n")
		}
	}
	return sb.String()
}

const amCompositeRuns = "runs:\n  using: composite\n  steps: []\n"

func amTopMeta(v *amVec) string {
	var sb strings.Builder
	sb.WriteString(amTopScalar("name", v.Name, "x"))
	sb.WriteString(amTopScalar("description", v.Desc, "d"))
	if v.Icon != "~absent" || v.Color != "~absent" {
		sb.WriteString("branding:\n")
		sb.WriteString(amBrandScalar("icon", v.Icon))
		sb.WriteString(amBrandScalar("color", v.Color))
	}
	sb.WriteString(amCompositeRuns)
	return sb.String()
}

func amShapeMeta(v *amVec, sc *amScene) string {
	f := map[string]string{}
	for _, p := range v.Faults {
		if len(p) != 2 {
			sc.err = fmt.Errorf("fault %v", p)
			return ""
		}
		f[p[0]] = p[1]
	}
	bad := func(slot string) string {
		sc.err = fmt.Errorf("unknown form %q of slot %q", f[slot], slot)
		return ""
	}
	generic := func(slot, key, indent string) (string, bool) {
		switch f[slot] {
		case "null":
			return indent + key + ":\n", true
		case "str":
			return indent + key + ": x\n", true
		case "int":
			return indent + key + ": 1\n", true
		case "seq":
			return indent + key + ": [a]\n", true
		case "map":
			return indent + key + ": {a: b}\n", true
		case "emptymap":
			return indent + key + ": {}\n", true
		}
		return "", false
	}
	base := func(extra string) string {
		return "name: x\n" + extra + "description: d\nbranding:\n  icon: zap\n" + amCompositeRuns
	}
	if form, ok := f["doc"]; ok {
		switch form {
		case "empty":
			return ""
		case "null":
			return "~\n"
		case "seq":
			return "- a\n"
		case "str":
			return "foo\n"
		case "dupkey":
			return base("name: x\n")
		case "unknownkey":
			return base("") + "foo: bar\n"
		case "syntax":
			return "name: [\n"
		}
		return bad("doc")
	}
	var sb strings.Builder
	line := func(slot, key, indent, dflt string) {
		if _, ok := f[slot]; !ok {
			sb.WriteString(dflt)
			return
		}
		if s, ok := generic(slot, key, indent); ok {
			sb.WriteString(s)
			return
		}
		bad(slot)
	}
	line("name", "name", "", "name: x\n")
	line("description", "description", "", "description: d\n")
	for _, io := range []string{"inputs", "outputs"} {
		form, ok := f[io]
		if !ok {
			continue
		}
		okBody := "  a:\n    description: d\n    required: false\n"
		if io == "outputs" {
			okBody = "  o:\n    description: d\n    value: v\n"
		}
		switch form {
		case "ok":
			sb.WriteString(io + ":\n" + okBody)
		case "dup-same":
			sb.WriteString(io + ":\n  a:\n    description: d\n  a:\n    description: e\n")
		case "dup-case":
			sb.WriteString(io + ":\n  a:\n    description: d\n  A:\n    description: e\n")
		case "val-null":
			sb.WriteString(io + ":\n  a:\n")
		case "val-str":
			sb.WriteString(io + ":\n  a: x\n")
		case "val-seq":
			sb.WriteString(io + ":\n  a: [x]\n")
		case "default-seq":
			sb.WriteString(io + ":\n  a:\n    default: [x]\n")
		default:
			if s, ok := generic(io, io, ""); ok {
				sb.WriteString(s)
			} else {
				bad(io)
			}
		}
	}
	if _, ok := f["branding"]; ok {
		line("branding", "branding", "", "")
	} else {
		sb.WriteString("branding:\n")
		line("icon", "icon", "  ", "  icon: zap\n")
	}
	if _, ok := f["runs"]; ok {
		line("runs", "runs", "", "")
	} else {
		sb.WriteString("runs:\n")
		line("using", "using", "  ", "  using: composite\n")
		line("main", "main", "  ", "")
		line("steps", "steps", "  ", "  steps: []\n")
		line("args", "args", "  ", "")
		line("env", "env", "  ", "")
	}
	return sb.String()
}

var amUsesSym = map[string]string{"a": "abc", "D": "docker://", "$": "${{ env.X }}"}

func amScenario(v *amVec) *amScene {
	sc := &amScene{files: map[string]string{}}
	switch v.Part {
	case "runs":
		sc.files["act/action.yml"] = amRunsMeta(v, sc)
		sc.uses = []string{"./act"}
	case "top":
		sc.files["act/action.yml"] = amTopMeta(v)
		sc.uses = []string{"./act"}
		sc.noProj = !v.Proj
	case "shape":
		sc.files["act/action.yml"] = amShapeMeta(v, sc)
		sc.uses = []string{"./act"}
	case "reuse":
		for _, a := range v.Steps {
			switch a {
			case "A":
				sc.files["actA/action.yml"] = amCompositeRuns
			case "B":
				sc.files["actB/action.yml"] = "name: x\ndescription: d\n" + amCompositeRuns
			case "P":
				sc.files["actP/action.yml"] = "- a\n"
			case "M":
			default:
				sc.err = fmt.Errorf("unknown action %q", a)
			}
			sc.uses = append(sc.uses, "./act"+a)
		}
		sc.split = v.Split
	case "file":
		meta := map[string]string{"N": "description: d\n" + amCompositeRuns, "S": "name: x\n" + amCompositeRuns}
		for name, c := range map[string]string{"action.yml": v.Yml, "action.yaml": v.Yaml} {
			if c == "none" {
				continue
			}
			text, ok := meta[c]
			if !ok {
				sc.err = fmt.Errorf("unknown metadata content %q", c)
			}
			sc.files["act/"+name] = text
		}
		if len(sc.files) == 0 {
			sc.files["act/README"] = "no metadata\n"
		}
		sc.uses = []string{"./act"}
	case "uses":
		sc.uses = []string{rdJoin(v.S, amUsesSym)}
	case "popular":
		sc.uses = []string{v.Spec}
	default:
		sc.err = fmt.Errorf("unknown part %q", v.Part)
	}
	return sc
}

// amWorkflow renders the steps; returns the text and line -> step number of the `uses:` values (column is fixed)
const amUsesCol = 15

func amWorkflow(sc *amScene) (string, map[int]int) {
	var sb strings.Builder
	lines := map[int]int{}
	sb.WriteString("on: push\njobs:\n  j1:\n    runs-on: ubuntu-latest\n    steps:\n")
	line := 6
	for i, u := range sc.uses {
		if sc.split && i == len(sc.uses)-1 {
			sb.WriteString("  j2:\n    runs-on: ubuntu-latest\n    steps:\n")
			line += 3
		}
		sb.WriteString("      - uses: " + rdQ(u) + "\n")
		lines[line] = i + 1
		line++
	}
	return sb.String(), lines
}

type amAnchor struct {
	re    *regexp.Regexp
	class string // $1 is replaced by the first group
}

var amAnchors = []amAnchor{
	{regexp.MustCompile(`^name is required in action metadata`), "name-required"},
	{regexp.MustCompile(`^description is required in metadata of`), "description-required"},
	{regexp.MustCompile(`^incorrect icon name `), "bad-icon"},
	{regexp.MustCompile(`^incorrect color `), "bad-color"},
	{regexp.MustCompile(`^"runs\.using" is missing in local action`), "using-missing"},
	{regexp.MustCompile(`^invalid runner name `), "bad-runner"},
	{regexp.MustCompile(`^"([a-z-]+)" is required in "runs" section because .* action\. the action is defined at`), "missing-prop:$1"},
	{regexp.MustCompile(`^"([a-z-]+)" is not allowed in "runs" section because`), "not-allowed:$1"},
	{regexp.MustCompile(`^file ".*" does not exist in ".*"\. it is specified at "([a-z-]+)" key in "runs" section`), "file-missing:$1"},
	{regexp.MustCompile(`^the local file ".*" referenced from "image" key must be named "Dockerfile"`), "image-not-dockerfile"},
	{regexp.MustCompile(`^"pre" is required when "pre-if" is specified`), "pre-required"},
	{regexp.MustCompile(`^"post" is required when "post-if" is specified`), "post-required"},
	{regexp.MustCompile(`^could not parse action metadata in `), "parse-error"},
	{regexp.MustCompile(`^specifying action ".*" in invalid format because ref is missing\.`), "fmt-ref-missing"},
	{regexp.MustCompile(`^specifying action ".*" in invalid format because owner is missing\.`), "fmt-owner-missing"},
	{regexp.MustCompile(`^specifying action ".*" in invalid format because owner and repo and ref should not be empty\.`), "fmt-empty-part"},
	{regexp.MustCompile(`^tag of Docker action should not be empty`), "docker-tag-empty"},
	{regexp.MustCompile(`^URI for Docker container `), "docker-bad-uri"},
	{regexp.MustCompile(`is too old to run on GitHub Actions`), "outdated"},
	{regexp.MustCompile(`^missing input "([^"]*)" which is required by action`), "missing-input:$1"},
	{regexp.MustCompile(`^input "([^"]*)" is not defined in action`), "undefined-input:$1"},
}

func amClassify(out *amOut, errs []*actionlint.Error, lines map[int]int) {
	seenForeign := map[string]bool{}
	for _, e := range errs {
		if e.Kind != "action" {
			if !seenForeign[e.Kind] {
				seenForeign[e.Kind] = true
				out.Foreign = append(out.Foreign, e.Kind)
			}
			if e.Kind == "syntax-check" {
				out.Other = append(out.Other, fmt.Sprintf("syntax error in the rendered workflow: %d:%d: %s", e.Line, e.Column, e.Message))
			}
			continue
		}
		class := ""
		for _, a := range amAnchors {
			if m := a.re.FindStringSubmatch(e.Message); m != nil {
				class = a.class
				if len(m) > 1 {
					class = strings.ReplaceAll(class, "$1", m[1])
				}
				break
			}
		}
		if class == "" {
			out.Other = append(out.Other, fmt.Sprintf("unknown message of the action rule: %d:%d: %s", e.Line, e.Column, e.Message))
			continue
		}
		w := fmt.Sprintf("unmapped %d:%d", e.Line, e.Column)
		if i, ok := lines[e.Line]; ok && e.Column == amUsesCol {
			w = fmt.Sprintf("u%d", i)
		}
		out.Diags = append(out.Diags, amDiag{class, w})
	}
	sort.Strings(out.Foreign)
}

func amRun(in amIn, base string) (out amOut) {
	out = amOut{ID: in.ID, Diags: []amDiag{}, Foreign: []string{}, Other: []string{}}
	defer func() {
		if r := recover(); r != nil {
			out.Other = append(out.Other, fmt.Sprintf("panic: %v", r))
		}
	}()
	var v amVec
	if err := json.Unmarshal(in.V, &v); err != nil {
		out.Other = append(out.Other, "vector: "+err.Error())
		return out
	}
	sc := amScenario(&v)
	if sc.err != nil {
		out.Other = append(out.Other, "render: "+sc.err.Error())
		return out
	}
	src, lines := amWorkflow(sc)
	out.Src = src
	out.Files = sc.files
	root := filepath.Join(base, "shared")
	if len(sc.files) > 0 {
		root = filepath.Join(base, fmt.Sprintf("v%d", in.ID))
		defer os.RemoveAll(root)
		for rel, text := range sc.files {
			if err := clWrite(filepath.Join(root, filepath.FromSlash(rel)), text); err != nil {
				out.Other = append(out.Other, "write: "+err.Error())
				return out
			}
		}
	}
	l, err := newLinter(&actionlint.LinterOptions{WorkingDir: root})
	if err != nil {
		out.Other = append(out.Other, "linter: "+err.Error())
		return out
	}
	var errs []*actionlint.Error
	if sc.noProj {
		errs, err = l.Lint("<stdin>", []byte(src), nil)
	} else {
		proj, perr := actionlint.NewProject(root)
		if perr != nil {
			out.Other = append(out.Other, "project: "+perr.Error())
			return out
		}
		errs, err = l.Lint(filepath.Join(root, ".github", "workflows", "w.yml"), []byte(src), proj)
	}
	if err != nil {
		out.Other = append(out.Other, "lint error: "+err.Error())
		return out
	}
	amClassify(&out, errs, lines)
	return out
}

func amPrepare(base string) error {
	if err := os.MkdirAll(filepath.Join(base, "shared", ".github", "workflows"), 0o755); err != nil {
		return err
	}
	// `./..` of a vector resolves to the base directory: it must not look like an action
	for _, f := range []string{"action.yml", "action.yaml"} {
		if _, err := os.Stat(filepath.Join(base, f)); err == nil {
			return fmt.Errorf("%s exists in the base directory", f)
		}
		if _, err := os.Stat(filepath.Join(filepath.Dir(base), f)); err == nil {
			return fmt.Errorf("%s exists above the base directory", f)
		}
	}
	return nil
}

func init() {
	register("am-run", func(args []string) error {
		if len(args) < 3 {
			return fmt.Errorf("usage: am-run <basedir> <in.jsonl> <out.jsonl>")
		}
		base, err := filepath.Abs(args[0])
		if err != nil {
			return err
		}
		if err := amPrepare(base); err != nil {
			return err
		}
		in, err := readJSONL[amIn](args[1])
		if err != nil {
			return err
		}
		return writeJSONL(args[2], parallelMap(in, func(i amIn) amOut { return amRun(i, base) }))
	})
	register("am-show", func(args []string) error {
		if len(args) < 1 {
			return fmt.Errorf("usage: am-show <vector-json>")
		}
		base, err := os.MkdirTemp("", "am-show-")
		if err != nil {
			return err
		}
		defer os.RemoveAll(base)
		if err := amPrepare(base); err != nil {
			return err
		}
		out := amRun(amIn{ID: 0, V: json.RawMessage(args[0])}, base)
		for f, t := range out.Files {
			fmt.Printf("--- %s\n%s", f, t)
		}
		fmt.Printf("--- workflow\n%s--- diags=%v foreign=%v other=%v\n", out.Src, out.Diags, out.Foreign, out.Other)
		return nil
	})
	register("am-tables", func(args []string) error {
		if len(args) < 1 {
			return fmt.Errorf("usage: am-tables <out.json>")
		}
		keys := func(m map[string]struct{}) []string {
			out := make([]string, 0, len(m))
			for k := range m {
				out = append(out, k)
			}
			sort.Strings(out)
			return out
		}
		b, _ := json.Marshal(map[string][]string{"icons": keys(actionlint.BrandingIcons), "colors": keys(actionlint.BrandingColors)})
		return os.WriteFile(args[0], b, 0o644)
	})
}
