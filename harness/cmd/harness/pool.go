package main

// C20: stand-in shellcheck/pyflakes tools, schedule-point tracer and the pool-run driver.

import (
	"bytes"
	"encoding/json"
	"fmt"
	"hash/fnv"
	"io"
	"os"
	"path/filepath"
	"regexp"
	"runtime"
	"strconv"
	"strings"
	"sync"
	"syscall"
	"time"

	"github.com/rhysd/actionlint"
)

// ---------------------------------------------------------------------------- stand-in tool

type toolPlan struct {
	Outcome string `json:"outcome"` // ok | issues | empty | crash | signal | garbage | trailer | twoarrays
	DelayMs int    `json:"delay_ms"`
	N       int    `json:"n"`
	Gated   bool   `json:"gated"` // wait for the file release-<tok> before finishing (scheduler gate)
}

type toolLog struct {
	Ev    string   `json:"ev"`
	Tok   string   `json:"tok"`
	Kind  string   `json:"kind"`
	Pid   int      `json:"pid"`
	T     int64    `json:"t"`
	Argv  []string `json:"argv,omitempty"`
	Stdin string   `json:"stdin,omitempty"`
}

var reTok = regexp.MustCompile(`tok=([A-Za-z0-9]+)`)

func appendLog(dir string, rec toolLog) {
	b, _ := json.Marshal(rec)
	b = append(b, '\n')
	f, err := os.OpenFile(filepath.Join(dir, "tool.log"), os.O_APPEND|os.O_CREATE|os.O_WRONLY, 0o644)
	if err != nil {
		return
	}
	f.Write(b) // one write call with O_APPEND: atomic with respect to other appenders
	f.Close()
}

func toolMain(args []string) error {
	kind, dir := args[0], args[1]
	t0 := time.Now().UnixNano()
	in, _ := io.ReadAll(os.Stdin)
	tok := "?"
	if m := reTok.FindSubmatch(in); m != nil {
		tok = string(m[1])
	}
	plan := toolPlan{Outcome: "ok"}
	if b, err := os.ReadFile(filepath.Join(dir, "plan.json")); err == nil {
		var all map[string]toolPlan
		if json.Unmarshal(b, &all) == nil {
			if p, ok := all[tok]; ok {
				plan = p
			}
		}
	}
	appendLog(dir, toolLog{Ev: "start", Tok: tok, Kind: kind, Pid: os.Getpid(), T: t0, Argv: args[2:], Stdin: string(in)})
	time.Sleep(time.Duration(plan.DelayMs) * time.Millisecond)
	if plan.Gated {
		rel := filepath.Join(dir, "release-"+tok)
		for i := 0; i < 40000; i++ {
			if _, err := os.Stat(rel); err == nil {
				break
			}
			time.Sleep(500 * time.Microsecond)
		}
	}
	appendLog(dir, toolLog{Ev: "end", Tok: tok, Kind: kind, Pid: os.Getpid(), T: time.Now().UnixNano()})
	switch plan.Outcome {
	case "ok":
		if kind == "sc" {
			fmt.Print("[]")
		}
		os.Exit(0)
	case "issues":
		if kind == "sc" {
			var items []string
			for i := 0; i < plan.N; i++ {
				file := "-"
				if i == 1 {
					file = "./lib/common.sh" // an issue in a file followed via `source` (-x) is an issue the tool printed
				}
				items = append(items, fmt.Sprintf(`{"file":"%s","line":%d,"endLine":%d,"column":1,"endColumn":2,"level":"warning","code":%d,"message":"issue %d of %s."}`, file, i+1, i+1, 2000+i, i, tok)) // the first issue is at the injected setup line
			}
			fmt.Print("[" + strings.Join(items, ",") + "]")
		} else {
			for i := 0; i < plan.N; i++ {
				fmt.Printf("<stdin>:%d:1 issue %d of %s\n", i+1, i, tok)
			}
		}
		os.Exit(1)
	case "empty":
		os.Exit(2)
	case "empty0": // exit status 0 but nothing printed at all (shellcheck -f json always prints at least [])
		os.Exit(0)
	case "crash":
		fmt.Fprintln(os.Stderr, "stand-in tool crashed")
		os.Exit(3)
	case "signal":
		syscall.Kill(os.Getpid(), syscall.SIGKILL)
		time.Sleep(time.Second)
	case "sigout": // killed by a signal AFTER printing (partial) output
		if kind == "sc" {
			fmt.Print(`[{"file":"-","line":2,"endLine":2,"column":1,"endColumn":2,"level":"warning","code":2000,"message":"partial."}]`)
		} else {
			fmt.Printf("<stdin>:1:1 partial output of %s\n", tok)
		}
		os.Stdout.Sync()
		syscall.Kill(os.Getpid(), syscall.SIGKILL)
		time.Sleep(time.Second)
	case "garbage":
		fmt.Print("this is not JSON")
		os.Exit(1)
	case "trailer": // a valid JSON document followed by something else is not JSON
		fmt.Print("[]\nshellcheck: internal error: the impossible happened")
		os.Exit(1)
	case "twoarrays":
		one := `[{"file":"-","line":2,"endLine":2,"column":1,"endColumn":2,"level":"warning","code":2000,"message":"first document."}]`
		fmt.Print(one + one)
		os.Exit(1)
	}
	os.Exit(0)
	return nil
}

// ---------------------------------------------------------------------------- scenario

type poolStep struct {
	Tok   string `json:"tok"`
	Shell string `json:"shell"` // "" = not given
	// Script is the run: script; it contains "tok=<Tok>" so that the stand-in can identify it
	Script string `json:"script"`
}
type poolJob struct {
	DefaultShell string     `json:"default_shell"`
	RunsOn       string     `json:"runs_on"`
	Steps        []poolStep `json:"steps"`
}
type poolFile struct {
	DefaultShell string    `json:"default_shell"`
	Jobs         []poolJob `json:"jobs"`
}
type poolScenario struct {
	ID        int                 `json:"id"`
	Files     []poolFile          `json:"files"`
	Plan      map[string]toolPlan `json:"plan"`
	NoStart   string              `json:"nostart"` // "", "sc" or "py": that tool cannot be started
	HookDelay int                 `json:"hook_delay_us"`
	Single    bool                `json:"single"` // use LintFile on the only file
	// Schedule, when present, is a TLC behaviour of ProcPool projected on the hooked actions: the
	// hooks block until the controller grants them in this order (binding S).
	Schedule []gateStep `json:"schedule,omitempty"`
}

type gateStep struct {
	Ev string `json:"ev"`
	F  int    `json:"f"`
	I  int    `json:"i"`
}

// gate forces the order of the operations of the pool onto the real goroutines. A hook point that
// PRECEDES an operation (go -> Acquire, start -> process start, rel -> Release, done -> wg.Done, add ->
// the next Run of the same file) is a hold: the goroutine blocks there until the controller releases
// it at the step of the behaviour that performs the operation. Hook points that FOLLOW an operation
// (acq, exit, rwait, pwait) pass through and only confirm to the controller that the step happened.
type gate struct {
	mu       sync.Mutex
	waiting  map[string]chan struct{}
	occurred map[string]bool
	notify   chan struct{}
	free     bool
	fileGid  map[int]int
	rwCount  map[int]int
	stuck    string
	steps    int
}

func newGate() *gate {
	return &gate{waiting: map[string]chan struct{}{}, occurred: map[string]bool{}, notify: make(chan struct{}, 4096),
		fileGid: map[int]int{}, rwCount: map[int]int{}}
}

var gateHolds = map[string]bool{"go": true, "start": true, "rel": true, "done": true, "add": true}

func (g *gate) arrive(kind, tok string, gid int) {
	g.mu.Lock()
	key := kind + ":" + tok
	switch kind {
	case "add":
		var f, i int
		if _, err := fmt.Sscanf(tok, "F%dT%d", &f, &i); err == nil {
			g.fileGid[f] = gid
		}
	case "rwait":
		g.rwCount[gid]++
		key = fmt.Sprintf("rwait:g%d:%d", gid, g.rwCount[gid])
	case "pwait":
		key = "pwait"
	}
	g.occurred[key] = true
	var ch chan struct{}
	if gateHolds[kind] && !g.free {
		ch = make(chan struct{})
		g.waiting[key] = ch
	}
	g.mu.Unlock()
	select {
	case g.notify <- struct{}{}:
	default:
	}
	if ch != nil {
		<-ch
	}
}

func (g *gate) releaseAll() {
	g.mu.Lock()
	g.free = true
	for k, ch := range g.waiting {
		close(ch)
		delete(g.waiting, k)
	}
	g.mu.Unlock()
}

func (g *gate) key(ev string, f, i int) string {
	switch ev {
	case "rwait":
		g.mu.Lock()
		gid, ok := g.fileGid[f]
		g.mu.Unlock()
		if !ok {
			return "rwait:unknown"
		}
		return fmt.Sprintf("rwait:g%d:%d", gid, i)
	case "pwait":
		return "pwait"
	}
	return fmt.Sprintf("%s:F%dT%d", ev, f, i)
}

// await blocks until the point has been reached by its goroutine
func (g *gate) await(key string, timeout time.Duration) bool {
	deadline := time.Now().Add(timeout)
	for {
		g.mu.Lock()
		ok := g.occurred[key]
		g.mu.Unlock()
		if ok {
			return true
		}
		if time.Now().After(deadline) {
			g.mu.Lock()
			g.stuck = "await " + key
			g.mu.Unlock()
			return false
		}
		select {
		case <-g.notify:
		case <-time.After(time.Millisecond):
		}
	}
}

// open releases a held point (waiting for its arrival first)
func (g *gate) open(key string, timeout time.Duration) bool {
	if !g.await(key, timeout) {
		return false
	}
	g.mu.Lock()
	if ch, ok := g.waiting[key]; ok {
		close(ch)
		delete(g.waiting, key)
	}
	g.mu.Unlock()
	return true
}

// step performs one step of the behaviour on the real code
func (g *gate) step(st gateStep, dir string, lastOfFile map[int]int, to time.Duration) bool {
	ok := true
	switch st.Ev {
	case "add":
		// the hook sits between wg.Add and eg.Go: releasing it launches the task's goroutine and lets the
		// visiting goroutine of the file go on to its next step
		ok = g.open(g.key("add", st.F, st.I), to)
	case "go":
		ok = g.await(g.key("go", st.F, st.I), to)
	case "acq":
		ok = g.open(g.key("go", st.F, st.I), to) && g.await(g.key("acq", st.F, st.I), to)
	case "start":
		ok = g.open(g.key("start", st.F, st.I), to)
	case "exit":
		os.WriteFile(filepath.Join(dir, fmt.Sprintf("release-F%dT%d", st.F, st.I)), []byte("go"), 0o644)
		ok = g.await(g.key("exit", st.F, st.I), to)
	case "rel":
		ok = g.open(g.key("rel", st.F, st.I), to)
	case "done":
		ok = g.open(g.key("done", st.F, st.I), to)
	case "rwait", "pwait":
		ok = g.await(g.key(st.Ev, st.F, st.I), to)
	}
	if ok {
		g.mu.Lock()
		g.steps++
		g.mu.Unlock()
	}
	return ok
}

type poolEvent struct {
	Seq   int    `json:"seq"`
	Ev    string `json:"ev"`
	Tok   string `json:"tok,omitempty"`
	Rule  string `json:"rule,omitempty"`
	Gid   int    `json:"gid"`
	Group string `json:"group,omitempty"`
	Err   bool   `json:"err,omitempty"`
}

type poolResult struct {
	ID       int                 `json:"id"`
	Cap      int                 `json:"cap"`
	Fatal    bool                `json:"fatal"`
	FatalMsg string              `json:"fatal_msg,omitempty"`
	Diags    map[string][]string `json:"diags"` // token -> messages reported at that step's run: key
	Other    []string            `json:"other"`
	Events   []poolEvent         `json:"events"`
	TRet     int64               `json:"t_ret"`
	Tool     []toolLog           `json:"tool"`
	Scripts  map[string]string   `json:"scripts"`
	Panic    string              `json:"panic,omitempty"`
	Stuck    string              `json:"gate_stuck,omitempty"` // schedule step the real code could not follow
	Granted  int                 `json:"gate_granted"`
}

func goid() int {
	var buf [64]byte
	n := runtime.Stack(buf[:], false)
	f := strings.Fields(string(buf[:n]))
	if len(f) >= 2 {
		if id, err := strconv.Atoi(f[1]); err == nil {
			return id
		}
	}
	return -1
}

func yamlBlock(script, indent string) string {
	var sb strings.Builder
	sb.WriteString("|\n")
	for _, l := range strings.Split(script, "\n") {
		sb.WriteString(indent + l + "\n")
	}
	return sb.String()
}

// renderPoolFile returns the YAML text and the line of each step's `run:` key
func renderPoolFile(f poolFile) (string, map[int]string) {
	var sb strings.Builder
	line := 0
	w := func(s string) { sb.WriteString(s + "\n"); line++ }
	runLines := map[int]string{}
	w("on: push")
	// the pseudo shell "<wd>" stands for: the section/step exists and gives working-directory but no shell
	if f.DefaultShell != "" {
		w("defaults:")
		w("  run:")
		if f.DefaultShell == "<wd>" {
			w("    working-directory: .")
		} else {
			w("    shell: " + f.DefaultShell)
		}
	}
	w("jobs:")
	for ji, j := range f.Jobs {
		w(fmt.Sprintf("  job%d:", ji+1))
		ro := j.RunsOn
		if ro == "" {
			ro = "ubuntu-latest"
		}
		w("    runs-on: " + ro)
		if j.DefaultShell != "" {
			w("    defaults:")
			w("      run:")
			if j.DefaultShell == "<wd>" {
				w("        working-directory: .")
			} else {
				w("        shell: " + j.DefaultShell)
			}
		}
		w("    steps:")
		for _, s := range j.Steps {
			first := true
			if s.Shell != "" {
				if s.Shell == "<wd>" {
					w("      - working-directory: .")
				} else {
					w("      - shell: " + s.Shell)
				}
				first = false
			}
			prefix := "        "
			if first {
				prefix = "      - "
			}
			runLines[line+1] = s.Tok
			blk := yamlBlock(s.Script, "          ")
			sb.WriteString(prefix + "run: " + blk)
			line += strings.Count(blk, "\n")
		}
	}
	return sb.String(), runLines
}

func poolRun(sc poolScenario, self string) (res poolResult) {
	res = poolResult{ID: sc.ID, Cap: runtime.NumCPU(), Diags: map[string][]string{}, Other: []string{}, Scripts: map[string]string{}}
	dir, err := os.MkdirTemp("", "vp-pool-")
	if err != nil {
		res.Other = append(res.Other, "mkdtemp: "+err.Error())
		return
	}
	defer os.RemoveAll(dir)
	planB, _ := json.Marshal(sc.Plan)
	os.WriteFile(filepath.Join(dir, "plan.json"), planB, 0o644)
	bad := filepath.Join(dir, "badtool")
	os.WriteFile(bad, []byte("#!/nonexistent/interpreter\n"), 0o755)
	scCmd := self + " tool sc " + dir
	pyCmd := self + " tool py " + dir
	if sc.NoStart == "sc" {
		scCmd = bad
	}
	if sc.NoStart == "py" {
		pyCmd = bad
	}
	var paths []string
	runLineOf := map[string]map[int]string{}
	for i, f := range sc.Files {
		src, runLines := renderPoolFile(f)
		p := filepath.Join(dir, fmt.Sprintf("w%d.yaml", i+1))
		os.WriteFile(p, []byte(src), 0o644)
		paths = append(paths, p)
		runLineOf[filepath.Base(p)] = runLines
		for _, j := range f.Jobs {
			for _, s := range j.Steps {
				res.Scripts[s.Tok] = s.Script
			}
		}
	}
	// scheduler gate (binding S)
	var gt *gate
	if len(sc.Schedule) > 0 {
		gt = newGate()
		lastOfFile := map[int]int{}
		for f := range sc.Files {
			lastOfFile[f+1] = len(sc.Files[f].Jobs[0].Steps)
		}
		go func() {
			for _, st := range sc.Schedule {
				if !gt.step(st, dir, lastOfFile, 6*time.Second) {
					break
				}
			}
			gt.releaseAll()
			// whatever is still gated must be able to finish
			for f := range sc.Files {
				for i := range sc.Files[f].Jobs[0].Steps {
					os.WriteFile(filepath.Join(dir, fmt.Sprintf("release-F%dT%d", f+1, i+1)), []byte("go"), 0o644)
				}
			}
		}()
	}
	// tracer
	var mu sync.Mutex
	seq := 0
	actionlint.SetVerifHook(func(ev actionlint.VerifEvent) {
		gid := goid()
		tok := ""
		if m := reTok.FindStringSubmatch(ev.Stdin); m != nil {
			tok = m[1]
		}
		rule := ""
		for i, a := range ev.Args {
			if a == "tool" && i+1 < len(ev.Args) {
				rule = ev.Args[i+1]
			}
		}
		if rule == "" && ev.Cmd != "" {
			rule = "sc" // the unstartable stand-in is resolved without arguments
			if len(ev.Args) == 0 {
				rule = "py"
			}
		}
		mu.Lock()
		seq++
		n := seq
		res.Events = append(res.Events, poolEvent{Seq: n, Ev: ev.Kind, Tok: tok, Rule: rule, Gid: gid, Group: ev.Group, Err: ev.Err != nil})
		mu.Unlock()
		if gt != nil {
			gt.arrive(ev.Kind, tok, gid)
		}
		if sc.HookDelay > 0 {
			h := fnv.New32a()
			fmt.Fprintf(h, "%d/%d/%s/%s", sc.ID, n, ev.Kind, tok)
			d := int(h.Sum32() % uint32(sc.HookDelay+1))
			if h.Sum32()%3 == 0 {
				runtime.Gosched()
			} else {
				time.Sleep(time.Duration(d) * time.Microsecond)
			}
		}
	})
	defer actionlint.SetVerifHook(nil)
	func() {
		defer func() {
			if r := recover(); r != nil {
				res.Panic = fmt.Sprint(r)
			}
		}()
		l, err := newLinter(&actionlint.LinterOptions{Shellcheck: scCmd, Pyflakes: pyCmd, WorkingDir: dir})
		if err != nil {
			res.Other = append(res.Other, "NewLinter: "+err.Error())
			return
		}
		var errs []*actionlint.Error
		if sc.Single && len(paths) == 1 {
			errs, err = l.LintFile(paths[0], nil)
		} else {
			errs, err = l.LintFiles(paths, nil)
		}
		res.TRet = time.Now().UnixNano()
		mu.Lock()
		seq++
		res.Events = append(res.Events, poolEvent{Seq: seq, Ev: "ret", Gid: goid(), Err: err != nil})
		mu.Unlock()
		if err != nil {
			res.Fatal = true
			res.FatalMsg = err.Error()
		}
		for _, e := range errs {
			if e.Kind != "shellcheck" && e.Kind != "pyflakes" {
				res.Other = append(res.Other, fmt.Sprintf("%s:%d:%d: %s [%s]", e.Filepath, e.Line, e.Column, e.Message, e.Kind))
				continue
			}
			tok, ok := runLineOf[filepath.Base(e.Filepath)][e.Line]
			if !ok {
				res.Other = append(res.Other, fmt.Sprintf("%s diagnostic not at a run: key: %s:%d:%d: %s", e.Kind, e.Filepath, e.Line, e.Column, e.Message))
				continue
			}
			res.Diags[tok] = append(res.Diags[tok], e.Kind+": "+e.Message)
		}
	}()
	if gt != nil {
		gt.mu.Lock()
		res.Stuck = gt.stuck
		res.Granted = gt.steps
		gt.mu.Unlock()
	}
	// let stragglers (tools still alive after the call returned) finish and be logged
	maxDelay := 0
	for _, p := range sc.Plan {
		if p.DelayMs > maxDelay {
			maxDelay = p.DelayMs
		}
	}
	time.Sleep(time.Duration(maxDelay+30) * time.Millisecond)
	if b, err := os.ReadFile(filepath.Join(dir, "tool.log")); err == nil {
		for _, ln := range bytes.Split(b, []byte("\n")) {
			if len(ln) == 0 {
				continue
			}
			var r toolLog
			if json.Unmarshal(ln, &r) == nil {
				res.Tool = append(res.Tool, r)
			}
		}
	}
	return
}

func init() {
	register("tool", toolMain)

	// pool-run <scenarios.jsonl> <out.jsonl>: run every scenario (sequentially: each one is itself concurrent)
	register("pool-run", func(args []string) error {
		scs, err := readJSONL[poolScenario](args[0])
		if err != nil {
			return err
		}
		self, err := os.Executable()
		if err != nil {
			return err
		}
		out := make([]poolResult, 0, len(scs))
		stuckRun := 0
		for _, sc := range scs {
			if stuckRun >= 4 && len(sc.Schedule) > 0 {
				// the gate does not bind on this tree (several behaviours in a row could not be followed):
				// run the remaining scenarios free instead of waiting for a time-out each
				sc.Schedule = nil
				for k, p := range sc.Plan {
					p.Gated = false
					sc.Plan[k] = p
				}
			}
			done := make(chan poolResult, 1)
			go func() { done <- poolRun(sc, self) }()
			select {
			case r := <-done:
				out = append(out, r)
				if r.Stuck != "" {
					stuckRun++
				} else if len(sc.Schedule) > 0 {
					stuckRun = 0
				}
			case <-time.After(60 * time.Second):
				out = append(out, poolResult{ID: sc.ID, Cap: runtime.NumCPU(), Panic: "HANG: scenario did not return within 60 s", Diags: map[string][]string{}, Other: []string{}})
				// the stuck goroutines cannot be recovered: write what we have and stop
				if err := writeJSONL(args[1], out); err != nil {
					return err
				}
				os.Exit(3)
			}
		}
		return writeJSONL(args[1], out)
	})

	// sanitize-run <in.jsonl> <out.jsonl>: {id, script} -> stdin the stand-in shellcheck receives for it
	// (through the real rule: one bash step per script), used by the Sanitize specification
}
