package main

// Renderer: abstract YAML documents (the S/Q/M trees of spec/Schema.tla) -> YAML text with KNOWN
// positions for every key, scalar, sequence dash and collection node.
//
// Shared by the document-level properties (C13, C03; intended for C01 kind/tag mutations, C07
// positions, C08 case flips, C16 echo sites).  Nothing here knows the workflow syntax: documents,
// edit scripts and predictions come from TLC; this file only materialises them and reports
// where every node ended up.
//
//   DocNode            abstract document: {"k":"s","v":text,"st":style} | {"k":"q","e":[...]} |
//                      {"k":"m","p":[[key,node],...]}; collections may carry "st":"flow".
//                      Scalar styles: "" plain (error if the text is not plain-safe), "auto"
//                      (plain if safe, else single-quoted), "'" , "\"", "|" (literal block, the
//                      text must end with a line feed), "null" (no value at all: `key:`).
//   identities         docAssignIDs gives every node of a base the ID "r.<i>.<j>..." (its path of
//                      1-based child indices).  Nodes created by an edit get "new<k>...".
//   DocOp / docApply   edit script over ORIGINAL paths: set / del / ins / rev / key / style.
//   docRender          text + []DocToken{ID, Role, Line, Col, End}; roles: "key" (key of the
//                      mapping entry whose VALUE has this ID), "val" (scalar), "node" (start of a
//                      collection as yaml.v3 reports it), "dash" (the "- " of a block sequence
//                      element with this ID).  Line/Col are 1-based like yaml.v3 / actionlint.
//                      The pseudo identity "doc" (role "node") is the yaml.v3 document node.
//   docValidate        parses the text with yaml.v3 and compares kind, value, quoting and
//                      line/column of every node with the recorded tokens.  A mismatch means the
//                      renderer is wrong for this input: callers must treat it as inconclusive.
//   DocRenderOpts      Indent (default 2), SeqIndent (sequences nested under a mapping key are
//                      indented, default true), FlowLeaves (collections that contain only
//                      scalars are written in flow style), DocStart ("---" first), Prefix
//                      (comment / blank lines put before the document; shifts every line).

import (
	"encoding/json"
	"fmt"
	"strconv"
	"strings"
	"unicode/utf8"

	"gopkg.in/yaml.v3"
)

type DocPair struct {
	Key   string
	KeySt string // style of the key scalar: "" | "'" | "\""
	Val   *DocNode
}

func (p *DocPair) UnmarshalJSON(b []byte) error {
	var raw []json.RawMessage
	if err := json.Unmarshal(b, &raw); err != nil {
		return err
	}
	if len(raw) != 2 {
		return fmt.Errorf("mapping entry must be [key, node]")
	}
	if err := json.Unmarshal(raw[0], &p.Key); err != nil {
		return err
	}
	p.Val = &DocNode{}
	return json.Unmarshal(raw[1], p.Val)
}

func (p DocPair) MarshalJSON() ([]byte, error) {
	return json.Marshal([]interface{}{p.Key, p.Val})
}

type DocNode struct {
	K  string     `json:"k"`
	V  string     `json:"v,omitempty"`
	St string     `json:"st,omitempty"`
	E  []*DocNode `json:"e,omitempty"`
	P  []DocPair  `json:"p,omitempty"`
	ID string     `json:"-"`
}

func (n *DocNode) clone() *DocNode {
	c := &DocNode{K: n.K, V: n.V, St: n.St, ID: n.ID}
	for _, e := range n.E {
		c.E = append(c.E, e.clone())
	}
	for _, p := range n.P {
		c.P = append(c.P, DocPair{p.Key, p.KeySt, p.Val.clone()})
	}
	return c
}

func (n *DocNode) kids() []*DocNode {
	if n.K == "m" {
		out := make([]*DocNode, len(n.P))
		for i := range n.P {
			out[i] = n.P[i].Val
		}
		return out
	}
	return n.E
}

// docAssignIDs sets ID = prefix for n and prefix.<i> for its children, recursively.
func docAssignIDs(n *DocNode, prefix string) {
	n.ID = prefix
	for i, c := range n.kids() {
		docAssignIDs(c, prefix+"."+strconv.Itoa(i+1))
	}
}

// docPathID is the identity of the node at a path of 1-based child indices.
func docPathID(path []int) string {
	var sb strings.Builder
	sb.WriteString("r")
	for _, i := range path {
		sb.WriteString(".")
		sb.WriteString(strconv.Itoa(i))
	}
	return sb.String()
}

func docNodeAt(root *DocNode, path []int) (*DocNode, error) {
	n := root
	for _, i := range path {
		k := n.kids()
		if i < 1 || i > len(k) {
			return nil, fmt.Errorf("path %v leaves the document at %s", path, n.ID)
		}
		n = k[i-1]
	}
	return n, nil
}

// ---------------------------------------------------------------------------------- edit scripts

// DocOp is one edit.  All paths refer to the ORIGINAL (unedited) document.  Keys given by an edit may
// spell non-ASCII characters as "{U+XXXX}" (docKeyText).
//
//	set   : the node at Path becomes the scalar (V, St); it keeps its identity
//	del   : the mapping entry / sequence element at Path is removed
//	ins   : a new entry is put into the mapping at Path before original entry At (At = n+1: at the
//	        end); key = Key transformed by Case ("" | "upper" | "mixed": another spelling that differs
//	        only in letter case, see docCase); value = Val, or a deep copy
//	        of the (already edited) node at Copy.  The new value gets the identity New (default "new").
//	rev   : the children of the collection at Path are written in reverse order
//	key   : the key of the entry at Path is replaced by Key (if given) and transformed by Case
//	        ("" | "upper" | "mixed"); identity unchanged
//	style : St of the node at Path is replaced (e.g. "flow", "'")
type DocOp struct {
	Op   string   `json:"op"`
	Path []int    `json:"path"`
	V    string   `json:"v,omitempty"`
	St   string   `json:"st,omitempty"`
	At   int      `json:"at,omitempty"`
	Key  string   `json:"key,omitempty"`
	Case string   `json:"case,omitempty"`
	Val  *DocNode `json:"val,omitempty"`
	Copy []int    `json:"copy,omitempty"`
	New  string   `json:"new,omitempty"`
}

// docKeyText decodes "{U+XXXX}" sequences in a key given by an edit: TLA+ strings are ASCII, so
// specifications spell non-ASCII key names this way ("{U+00E4}rger" is "ärger").
func docKeyText(key string) string {
	for {
		i := strings.Index(key, "{U+")
		if i < 0 {
			return key
		}
		j := strings.Index(key[i:], "}")
		if j < 0 {
			return key
		}
		n, err := strconv.ParseInt(key[i+3:i+j], 16, 32)
		if err != nil {
			return key
		}
		key = key[:i] + string(rune(n)) + key[i+j+1:]
	}
}

func docCase(key, mode string) string {
	switch mode {
	case "upper":
		// every letter in the other case: upper case, or lower case if the key is upper case already
		if u := strings.ToUpper(key); u != key {
			return u
		}
		return strings.ToLower(key)
	case "mixed":
		// the case of the first letter flipped: "runs-on" -> "Runs-on", "TOP" -> "tOP"
		for i, r := range key {
			s := string(r)
			if u := strings.ToUpper(s); u != s {
				return key[:i] + u + key[i+len(s):]
			}
			if l := strings.ToLower(s); l != s {
				return key[:i] + l + key[i+len(s):]
			}
		}
	}
	return key
}

// docStyle: "single" / "double" are accepted as names of the quoting styles "'" and "\"" (TLC
// configuration files cannot spell a double quote inside a string).
func docStyle(st string) string {
	switch st {
	case "single":
		return "'"
	case "double":
		return "\""
	}
	return st
}

// docApply returns an edited deep copy of base (base must carry identities).
func docApply(base *DocNode, ops []DocOp) (*DocNode, error) {
	root := base.clone()
	type ins struct {
		at   int
		pair DocPair
		copy *DocNode
	}
	deleted := map[*DocNode]bool{}
	reversed := map[*DocNode]bool{}
	inserts := map[*DocNode][]*ins{}
	// resolve every path on the unedited copy first
	targets := make([]*DocNode, len(ops))
	copies := make([]*DocNode, len(ops))
	for i, op := range ops {
		n, err := docNodeAt(root, op.Path)
		if err != nil {
			return nil, err
		}
		targets[i] = n
		if op.Copy != nil {
			c, err := docNodeAt(root, op.Copy)
			if err != nil {
				return nil, err
			}
			copies[i] = c
		}
	}
	parentOf := map[*DocNode]*DocNode{}
	var walk func(n *DocNode)
	walk = func(n *DocNode) {
		for _, c := range n.kids() {
			parentOf[c] = n
			walk(c)
		}
	}
	walk(root)
	newCount := 0
	for i, op := range ops {
		n := targets[i]
		switch op.Op {
		case "set":
			n.K, n.V, n.St, n.E, n.P = "s", op.V, docStyle(op.St), nil, nil
		case "style":
			n.St = docStyle(op.St)
		case "del":
			if parentOf[n] == nil {
				return nil, fmt.Errorf("del: the root cannot be deleted")
			}
			deleted[n] = true
		case "rev":
			reversed[n] = true
		case "key":
			p := parentOf[n]
			if p == nil || p.K != "m" {
				return nil, fmt.Errorf("key: %s is not a mapping entry", n.ID)
			}
			for j := range p.P {
				if p.P[j].Val == n {
					if op.Key != "" {
						p.P[j].Key = docKeyText(op.Key)
					}
					p.P[j].Key = docCase(p.P[j].Key, op.Case)
				}
			}
		case "ins":
			if n.K != "m" {
				return nil, fmt.Errorf("ins: %s is not a mapping", n.ID)
			}
			if op.At < 1 || op.At > len(n.P)+1 {
				return nil, fmt.Errorf("ins: index %d outside 1..%d", op.At, len(n.P)+1)
			}
			newCount++
			id := op.New
			if id == "" {
				id = "new"
				if newCount > 1 {
					id = "new" + strconv.Itoa(newCount)
				}
			}
			x := &ins{at: op.At, pair: DocPair{Key: docCase(docKeyText(op.Key), op.Case)}}
			if copies[i] != nil {
				x.copy = copies[i]
			} else if op.Val != nil {
				x.pair.Val = op.Val.clone()
			} else {
				return nil, fmt.Errorf("ins: neither val nor copy given")
			}
			if x.pair.Val != nil {
				docAssignIDs(x.pair.Val, id)
			} else {
				x.pair.Val = &DocNode{ID: id} // filled below, after all `set` edits
			}
			inserts[n] = append(inserts[n], x)
		default:
			return nil, fmt.Errorf("unknown edit %q", op.Op)
		}
	}
	for _, list := range inserts {
		for _, x := range list {
			if x.copy != nil {
				id := x.pair.Val.ID
				x.pair.Val = x.copy.clone()
				docAssignIDs(x.pair.Val, id)
			}
		}
	}
	var rebuild func(n *DocNode)
	rebuild = func(n *DocNode) {
		switch n.K {
		case "m":
			var out []DocPair
			for i, p := range n.P {
				for _, x := range inserts[n] {
					if x.at == i+1 {
						out = append(out, x.pair)
					}
				}
				if !deleted[p.Val] {
					rebuild(p.Val)
					out = append(out, p)
				}
			}
			for _, x := range inserts[n] {
				if x.at == len(n.P)+1 {
					out = append(out, x.pair)
				}
			}
			if reversed[n] {
				for i, j := 0, len(out)-1; i < j; i, j = i+1, j-1 {
					out[i], out[j] = out[j], out[i]
				}
			}
			n.P = out
		case "q":
			var out []*DocNode
			for _, e := range n.E {
				if !deleted[e] {
					rebuild(e)
					out = append(out, e)
				}
			}
			if reversed[n] {
				for i, j := 0, len(out)-1; i < j; i, j = i+1, j-1 {
					out[i], out[j] = out[j], out[i]
				}
			}
			n.E = out
		}
	}
	rebuild(root)
	return root, nil
}

// ------------------------------------------------------------------------------------- rendering

type DocToken struct {
	ID   string `json:"id"`
	Role string `json:"role"` // key | val | node | dash
	Line int    `json:"line"`
	Col  int    `json:"col"`
	End  int    `json:"end"`         // column of the last character of the token (same line)
	Q    bool   `json:"q,omitempty"` // scalar written with quotes (actionlint's String.Quoted)
}

type DocRenderOpts struct {
	Indent     int    `json:"indent,omitempty"`
	NoSeqInd   bool   `json:"noseqindent,omitempty"` // `key:\n- a` instead of `key:\n  - a`
	FlowLeaves bool   `json:"flowleaves,omitempty"`
	DocStart   bool   `json:"docstart,omitempty"`
	Prefix     string `json:"prefix,omitempty"` // whole lines, each ending with \n
}

type DocRendering struct {
	Src    string
	Tokens []DocToken
	byID   map[string][]int
}

func (r *DocRendering) Find(id, role string) *DocToken {
	for _, i := range r.byID[id] {
		if r.Tokens[i].Role == role {
			return &r.Tokens[i]
		}
	}
	return nil
}

// At returns the tokens that contain the position: same line, Col <= col <= End+1.  The column
// directly behind the last character belongs to the token as well: it is where "unexpected end
// of input" errors of the token's text point to (tokens are always separated by ": ", ", " or a
// line break, so the position is never the start of another token).
func (r *DocRendering) At(line, col int) []DocToken {
	var out []DocToken
	for _, t := range r.Tokens {
		if t.Line == line && t.Col <= col && col <= t.End+1 {
			out = append(out, t)
		}
	}
	return out
}

type docWriter struct {
	sb        strings.Builder
	line, col int
	opts      DocRenderOpts
	toks      []DocToken
	err       error
}

func (w *docWriter) put(s string) {
	w.sb.WriteString(s)
	w.col += utf8.RuneCountInString(s)
}
func (w *docWriter) nl()       { w.sb.WriteString("\n"); w.line++; w.col = 1 }
func (w *docWriter) pad(n int) { w.put(strings.Repeat(" ", n)) }
func (w *docWriter) tok(id, role string, width int) {
	w.toks = append(w.toks, DocToken{ID: id, Role: role, Line: w.line, Col: w.col, End: w.col + width - 1})
}
func (w *docWriter) fail(format string, args ...interface{}) {
	if w.err == nil {
		w.err = fmt.Errorf(format, args...)
	}
}

const docFlowIndicators = ",[]{}"

// docPlainSafe: may the text be written as a plain (unquoted) single-line scalar?
// Deliberately conservative; whatever it lets through is still verified by docValidate.
func docPlainSafe(v string, flow bool) bool {
	if v == "" || strings.TrimSpace(v) != v || strings.ContainsAny(v, "\n\r\t") {
		return false
	}
	switch v[0] {
	case '?', ':', ',', '[', ']', '{', '}', '#', '&', '*', '!', '|', '>', '\'', '"', '%', '@', '`':
		return false
	case '-':
		if len(v) == 1 || v[1] == ' ' || v == "---" {
			return false
		}
	}
	if strings.Contains(v, ": ") || strings.Contains(v, " #") || strings.HasSuffix(v, ":") {
		return false
	}
	if v == "~" || v == "..." {
		return false
	}
	if flow && strings.ContainsAny(v, docFlowIndicators) {
		return false
	}
	return true
}

func docQuote(v, st string) string {
	if st == "'" {
		return "'" + strings.ReplaceAll(v, "'", "''") + "'"
	}
	var sb strings.Builder
	sb.WriteByte('"')
	for _, r := range v {
		switch r {
		case '\\':
			sb.WriteString(`\\`)
		case '"':
			sb.WriteString(`\"`)
		case '\n':
			sb.WriteString(`\n`)
		case '\t':
			sb.WriteString(`\t`)
		case '\r':
			sb.WriteString(`\r`)
		default:
			sb.WriteRune(r)
		}
	}
	sb.WriteByte('"')
	return sb.String()
}

// scalarText: the text of a single-line scalar in the given context; ok=false if impossible.
func docScalarText(v, st string, flow bool) (string, bool) {
	switch st {
	case "":
		return v, docPlainSafe(v, flow)
	case "auto":
		if docPlainSafe(v, flow) {
			return v, true
		}
		return docQuote(v, "'"), !strings.ContainsAny(v, "\n\r")
	case "'":
		return docQuote(v, "'"), !strings.ContainsAny(v, "\n\r")
	case "\"":
		return docQuote(v, "\""), true
	}
	return "", false
}

// scalar writes a scalar value; the cursor is behind "key:" / "-" (no blank written yet).
// blockCol is the column at which the lines of a literal block have to start.
func (w *docWriter) scalar(n *DocNode, flow bool, blockCol int) {
	switch n.St {
	case "null":
		w.tok(n.ID, "val", 1) // yaml.v3 puts the null node where a value would start; not validated
		return
	case "|":
		if flow || !strings.HasSuffix(n.V, "\n") || strings.Contains(n.V, "\r") {
			w.fail("literal block scalar impossible here for %s", n.ID)
			return
		}
		w.put(" ")
		w.tok(n.ID, "val", 1)
		w.put("|")
		for _, l := range strings.Split(strings.TrimSuffix(n.V, "\n"), "\n") {
			w.nl()
			if l != "" {
				w.pad(blockCol - 1)
				w.put(l)
			}
		}
		return
	}
	t, ok := docScalarText(n.V, n.St, flow)
	if !ok {
		w.fail("scalar %q of %s cannot be written in style %q", n.V, n.ID, n.St)
		return
	}
	w.put(" ")
	w.tok(n.ID, "val", utf8.RuneCountInString(t))
	w.toks[len(w.toks)-1].Q = docIsQuoted(t, n.V, n.St)
	w.put(t)
}

func docIsQuoted(text, v, st string) bool {
	return st == "'" || st == "\"" || (st == "auto" && text != v)
}

func (w *docWriter) key(p DocPair, flow bool) {
	t, ok := docScalarText(p.Key, p.KeySt, flow)
	if p.KeySt == "" && !ok {
		t, ok = docScalarText(p.Key, "auto", flow)
	}
	if !ok {
		w.fail("key %q cannot be written", p.Key)
	}
	w.tok(p.Val.ID, "key", utf8.RuneCountInString(t))
	w.put(t)
	w.put(":")
}

func docAllScalarsFlowSafe(n *DocNode) bool {
	if n.K == "s" {
		if n.St == "null" || n.St == "|" {
			return false
		}
		_, ok := docScalarText(n.V, n.St, true)
		return ok
	}
	for _, p := range n.P {
		if _, ok := docScalarText(p.Key, "auto", true); !ok {
			return false
		}
	}
	for _, c := range n.kids() {
		if !docAllScalarsFlowSafe(c) {
			return false
		}
	}
	return true
}

func (w *docWriter) useFlow(n *DocNode) bool {
	if n.K == "s" {
		return false
	}
	if len(n.kids()) == 0 || n.St == "flow" {
		return true
	}
	if w.opts.FlowLeaves {
		for _, c := range n.kids() {
			if c.K != "s" {
				return false
			}
		}
		return docAllScalarsFlowSafe(n)
	}
	return false
}

// flow writes a collection in flow style at the cursor (no leading blank).
func (w *docWriter) flow(n *DocNode) {
	switch n.K {
	case "s":
		t, ok := docScalarText(n.V, n.St, true)
		if !ok {
			w.fail("scalar %q of %s cannot be written in flow context with style %q", n.V, n.ID, n.St)
			return
		}
		w.tok(n.ID, "val", utf8.RuneCountInString(t))
		w.toks[len(w.toks)-1].Q = docIsQuoted(t, n.V, n.St)
		w.put(t)
	case "q":
		w.tok(n.ID, "node", 1)
		w.put("[")
		for i, e := range n.E {
			if i > 0 {
				w.put(", ")
			}
			w.flow(e)
		}
		w.put("]")
	case "m":
		w.tok(n.ID, "node", 1)
		w.put("{")
		for i, p := range n.P {
			if i > 0 {
				w.put(", ")
			}
			w.key(p, true)
			w.put(" ")
			w.flow(p.Val)
		}
		w.put("}")
	}
}

// block writes a non-empty collection in block style.  The cursor is at column col of the current
// line; every further line of the node starts at column col.
func (w *docWriter) block(n *DocNode, col int) {
	ind := w.opts.Indent
	if ind <= 0 {
		ind = 2
	}
	switch n.K {
	case "m":
		w.tok(n.ID, "node", 1)
		for i, p := range n.P {
			if i > 0 {
				w.nl()
				w.pad(col - 1)
			}
			w.key(p, false)
			v := p.Val
			switch {
			case v.K == "s":
				w.scalar(v, false, col+ind)
			case w.useFlow(v):
				w.put(" ")
				w.flow(v)
			default:
				c := col + ind
				if v.K == "q" && w.opts.NoSeqInd {
					c = col
				}
				w.nl()
				w.pad(c - 1)
				w.block(v, c)
			}
		}
	case "q":
		w.tok(n.ID, "node", 1)
		for i, e := range n.E {
			if i > 0 {
				w.nl()
				w.pad(col - 1)
			}
			w.tok(e.ID, "dash", 1)
			w.put("-")
			switch {
			case e.K == "s":
				w.scalar(e, false, col+2)
			case w.useFlow(e):
				w.put(" ")
				w.flow(e)
			default:
				w.put(" ")
				w.block(e, col+2)
			}
		}
	}
}

// docRender renders a document (a mapping or sequence at the top level).
func docRender(root *DocNode, opts DocRenderOpts) (*DocRendering, error) {
	w := &docWriter{line: 1, col: 1, opts: opts}
	if opts.Prefix != "" {
		for _, l := range strings.SplitAfter(opts.Prefix, "\n") {
			if l == "" {
				continue
			}
			if !strings.HasSuffix(l, "\n") {
				return nil, fmt.Errorf("prefix must consist of whole lines")
			}
			w.put(strings.TrimSuffix(l, "\n"))
			w.nl()
		}
	}
	// the document node of yaml.v3 (where actionlint reports a missing `on`/`jobs`) sits at the
	// "---" marker if there is one, else at the first token of the root: token {"doc", "node"}
	if opts.DocStart {
		w.tok("doc", "node", 3)
		w.put("---")
		w.nl()
	} else {
		w.tok("doc", "node", 1)
	}
	switch {
	case root.K == "s":
		return nil, fmt.Errorf("top-level scalars are not supported")
	case w.useFlow(root):
		w.flow(root)
	default:
		w.block(root, 1)
	}
	w.nl()
	if w.err != nil {
		return nil, w.err
	}
	r := &DocRendering{Src: w.sb.String(), Tokens: w.toks, byID: map[string][]int{}}
	for i, t := range r.Tokens {
		r.byID[t.ID] = append(r.byID[t.ID], i)
	}
	return r, nil
}

// ------------------------------------------------------------------------------------ validation

// docValidate parses the rendering with yaml.v3 and compares every node with what was recorded.
func docValidate(root *DocNode, r *DocRendering) error {
	var y yaml.Node
	if err := yaml.Unmarshal([]byte(r.Src), &y); err != nil {
		return fmt.Errorf("yaml.v3 rejects the rendering: %v", err)
	}
	if y.Kind != yaml.DocumentNode || len(y.Content) != 1 {
		return fmt.Errorf("rendering is not a single document")
	}
	if t := r.Find("doc", "node"); t == nil || t.Line != y.Line || t.Col != y.Column {
		return fmt.Errorf("document node: yaml.v3 says %d:%d, recorded %v", y.Line, y.Column, t)
	}
	var cmp func(n *DocNode, y *yaml.Node) error
	at := func(id, role string, y *yaml.Node) error {
		t := r.Find(id, role)
		if t == nil {
			return fmt.Errorf("no %s token recorded for %s", role, id)
		}
		if t.Line != y.Line || t.Col != y.Column {
			return fmt.Errorf("%s of %s: recorded %d:%d, yaml.v3 says %d:%d", role, id, t.Line, t.Col, y.Line, y.Column)
		}
		return nil
	}
	cmp = func(n *DocNode, y *yaml.Node) error {
		switch n.K {
		case "s":
			if y.Kind != yaml.ScalarNode {
				return fmt.Errorf("%s: scalar expected, yaml.v3 has kind %d", n.ID, y.Kind)
			}
			if n.St == "null" {
				if y.Tag != "!!null" {
					return fmt.Errorf("%s: null expected, yaml.v3 has tag %s value %q", n.ID, y.Tag, y.Value)
				}
				return nil
			}
			if y.Value != n.V {
				return fmt.Errorf("%s: value %q expected, yaml.v3 has %q", n.ID, n.V, y.Value)
			}
			quoted := y.Style&(yaml.DoubleQuotedStyle|yaml.SingleQuotedStyle) != 0
			if t := r.Find(n.ID, "val"); t != nil && t.Q != quoted {
				return fmt.Errorf("%s: quoting differs (written quoted=%v, yaml.v3 quoted=%v)", n.ID, t.Q, quoted)
			}
			return at(n.ID, "val", y)
		case "q":
			if y.Kind != yaml.SequenceNode || len(y.Content) != len(n.E) {
				return fmt.Errorf("%s: sequence of %d expected, yaml.v3 has kind %d with %d children", n.ID, len(n.E), y.Kind, len(y.Content))
			}
			if err := at(n.ID, "node", y); err != nil {
				return err
			}
			for i, e := range n.E {
				if err := cmp(e, y.Content[i]); err != nil {
					return err
				}
			}
		case "m":
			if y.Kind != yaml.MappingNode || len(y.Content) != 2*len(n.P) {
				return fmt.Errorf("%s: mapping of %d expected, yaml.v3 has kind %d with %d children", n.ID, len(n.P), y.Kind, len(y.Content)/2)
			}
			if err := at(n.ID, "node", y); err != nil {
				return err
			}
			for i, p := range n.P {
				k := y.Content[2*i]
				if k.Kind != yaml.ScalarNode || k.Value != p.Key {
					return fmt.Errorf("%s: key %q expected, yaml.v3 has %q", n.ID, p.Key, k.Value)
				}
				if err := at(p.Val.ID, "key", k); err != nil {
					return err
				}
				if err := cmp(p.Val, y.Content[2*i+1]); err != nil {
					return err
				}
			}
		default:
			return fmt.Errorf("%s: unknown node kind %q", n.ID, n.K)
		}
		return nil
	}
	return cmp(root, y.Content[0])
}
