package main

// C12 - context and special-function availability.
//
//   avail-run <in.jsonl> <out.jsonl>   vectors {id,pos,form,name,nkind,emb,variant} of Availability.tla: render a workflow
//                                      that is clean except for one placeholder at the position, run Linter.Lint, classify
//   avail-api <in.jsonl> <out.jsonl>   {id,kind:"row"|"api",key,name,nkind}: WorkflowKeyAvailability(key) and the
//                                      verdict of ExprSemanticsChecker configured with that result
//   avail-show <pos> <name> <nkind> <emb> <variant> <form>   print the rendered workflow and its diagnostics

import (
	"encoding/json"
	"fmt"
	"os"
	"path/filepath"
	"regexp"
	"strconv"
	"strings"
	"sync"
	"unicode"

	"github.com/rhysd/actionlint"
)

type avVec struct {
	ID      int    `json:"id"`
	Kind    string `json:"kind"`
	Pos     string `json:"pos"`
	Form    string `json:"form"`
	Key     string `json:"key"`
	Name    string `json:"name"`
	NKind   string `json:"nkind"`
	Emb     string `json:"emb"`
	Variant int    `json:"variant"`
}

type avOut struct {
	ID            int      `json:"id"`
	Reported      bool     `json:"reported"`       // "... is not allowed here" for exactly this name at the placeholder
	ReportedUpper bool     `json:"reported_upper"` // avail-api: the same for the upper-case spelling
	Undefined     bool     `json:"undefined"`      // undefined variable "jobs" at the placeholder (5.22)
	NotAllowed    int      `json:"n_notallowed"`
	Others        []string `json:"others"`             // anything else: the vector is inconclusive
	Tree          string   `json:"tree,omitempty"`     // avail-api: per frame sequence '1' reported / '0' not, occurrence W(NAME)
	TreeRaw       string   `json:"tree_raw,omitempty"` // the same for the bare NAME ('-' = not applicable)
	Ctx           []string `json:"ctx,omitempty"`
	Fns           []string `json:"fns,omitempty"`
	NilCtx        bool     `json:"nilctx,omitempty"`
	Expr          string   `json:"expr,omitempty"`
	Src           string   `json:"src,omitempty"`
}

// ---------------------------------------------------------------------------------------------
// position catalogue: how to write a workflow with one scalar at the position (marker @@)

type avPos struct {
	on       string // replaces `on: push`
	top      string // additional top-level lines
	job      string // lines of job `test` (relative indentation)
	step     string // lines of the step under test; "" = `run: echo`
	call     bool   // job `test` calls a reusable workflow
	noRunsOn bool
	project  bool     // lint inside the scratch project (local reusable workflows are read from it)
	tolerate []string // anchor phrases of diagnostics of other rules that this configuration provokes by design
}

const avCallUses = "uses: owner/repo/.github/workflows/w.yml@v1\n"
const avNeutral = "${{ fromJSON(toJSON('x')) }}"

// an earlier sibling element whose type is any (text differs from every placeholder: equal values are duplicates)
const avSibling = "${{ fromJSON(toJSON('sibling')) }}"

func avContainer(prefix string) map[string]string {
	// bodies of a container mapping, relative to the key that holds it
	return map[string]string{
		"":                      prefix + ": @@\n",
		".image":                prefix + ":\n  image: @@\n",
		".credentials.username": prefix + ":\n  image: alpine\n  credentials:\n    username: @@\n    password: " + avNeutral + "\n",
		".credentials.password": prefix + ":\n  image: alpine\n  credentials:\n    username: user\n    password: @@\n",
		".env.<env_name>":       prefix + ":\n  image: alpine\n  env:\n    FOO: @@\n",
		".env#expr":             prefix + ":\n  image: alpine\n  env: @@\n",
		".ports[*]":             prefix + ":\n  image: alpine\n  ports:\n    - 80\n    - @@\n",
		".volumes[*]":           prefix + ":\n  image: alpine\n  volumes:\n    - @@\n",
		".options":              prefix + ":\n  image: alpine\n  options: @@\n",
	}
}

func avIndentAll(s string, n int) string {
	if s == "" {
		return ""
	}
	pad := strings.Repeat(" ", n)
	lines := strings.Split(strings.TrimSuffix(s, "\n"), "\n")
	for i := range lines {
		lines[i] = pad + lines[i]
	}
	return strings.Join(lines, "\n") + "\n"
}

var avPositions = func() map[string]avPos {
	m := map[string]avPos{}
	wcall := func(body string) string { return "on:\n  workflow_call:\n" + avIndentAll(body, 4) }
	wdisp := func(body string) string {
		return "on:\n  workflow_dispatch:\n    inputs:\n      in1:\n" + avIndentAll(body, 8)
	}
	// workflow level
	m["name"] = avPos{top: "name: @@\n"}
	m["run-name"] = avPos{top: "run-name: @@\n"}
	m["env.<env_name>"] = avPos{top: "env:\n  FOO: @@\n"}
	m["env#expr"] = avPos{top: "env: @@\n"}
	m["defaults.run.shell"] = avPos{top: "defaults:\n  run:\n    shell: @@\n"}
	m["defaults.run.working-directory"] = avPos{top: "defaults:\n  run:\n    working-directory: @@\n"}
	m["concurrency"] = avPos{top: "concurrency: @@\n"}
	m["concurrency.group"] = avPos{top: "concurrency:\n  group: @@\n"}
	m["concurrency.cancel-in-progress"] = avPos{top: "concurrency:\n  group: g\n  cancel-in-progress: @@\n"}
	m["on.workflow_call.inputs.<input_id>.default"] = avPos{on: wcall("inputs:\n  in1:\n    type: string\n    default: @@\n")}
	m["on.workflow_call.inputs.<input_id>.default#boolean"] = avPos{on: wcall("inputs:\n  in1:\n    type: boolean\n    default: @@\n")}
	m["on.workflow_call.inputs.<input_id>.default#number"] = avPos{on: wcall("inputs:\n  in1:\n    type: number\n    default: @@\n")}
	m["on.workflow_call.inputs.<input_id>.description"] = avPos{on: wcall("inputs:\n  in1:\n    type: string\n    description: @@\n")}
	m["on.workflow_call.secrets.<secret_id>.description"] = avPos{on: wcall("secrets:\n  sec1:\n    description: @@\n")}
	m["on.workflow_call.outputs.<output_id>.description"] = avPos{on: wcall("outputs:\n  out1:\n    description: @@\n    value: v\n")}
	m["on.workflow_call.outputs.<output_id>.value"] = avPos{on: wcall("outputs:\n  out1:\n    value: @@\n")}
	m["on.workflow_dispatch.inputs.<input_id>.description"] = avPos{on: wdisp("type: string\ndescription: @@\n")}
	m["on.workflow_dispatch.inputs.<input_id>.default"] = avPos{on: wdisp("type: string\ndefault: @@\n")}
	m["on.workflow_dispatch.inputs.<input_id>.required"] = avPos{on: wdisp("type: string\nrequired: @@\n")}
	m["on.workflow_dispatch.inputs.<input_id>.options[*]"] = avPos{on: wdisp("type: choice\noptions:\n  - a\n  - @@\n")}
	m["on.push.paths[*]"] = avPos{on: "on:\n  push:\n    paths:\n      - src/**\n      - @@\n"}
	m["on.workflow_run.workflows[*]"] = avPos{on: "on:\n  workflow_run:\n    workflows:\n      - @@\n"}
	m["on.repository_dispatch.types[*]"] = avPos{on: "on:\n  repository_dispatch:\n    types:\n      - @@\n"}
	// job level
	m["jobs.<job_id>.name"] = avPos{job: "name: @@\n"}
	m["jobs.<job_id>.name#call"] = avPos{job: "name: @@\n" + avCallUses, call: true}
	m["jobs.<job_id>.runs-on"] = avPos{job: "runs-on: @@\n", noRunsOn: true}
	m["jobs.<job_id>.runs-on[*]"] = avPos{job: "runs-on:\n  - self-hosted\n  - @@\n", noRunsOn: true}
	m["jobs.<job_id>.runs-on.labels"] = avPos{job: "runs-on:\n  labels: @@\n", noRunsOn: true}
	m["jobs.<job_id>.runs-on.labels[*]"] = avPos{job: "runs-on:\n  labels:\n    - self-hosted\n    - @@\n", noRunsOn: true}
	m["jobs.<job_id>.runs-on.group"] = avPos{job: "runs-on:\n  group: @@\n", noRunsOn: true}
	m["jobs.<job_id>.environment"] = avPos{job: "environment: @@\n"}
	m["jobs.<job_id>.environment.name"] = avPos{job: "environment:\n  name: @@\n"}
	m["jobs.<job_id>.environment.url"] = avPos{job: "environment:\n  name: prod\n  url: @@\n"}
	m["jobs.<job_id>.concurrency"] = avPos{job: "concurrency: @@\n"}
	m["jobs.<job_id>.concurrency.group"] = avPos{job: "concurrency:\n  group: @@\n"}
	m["jobs.<job_id>.concurrency.cancel-in-progress"] = avPos{job: "concurrency:\n  group: g\n  cancel-in-progress: @@\n"}
	m["jobs.<job_id>.outputs.<output_id>"] = avPos{job: "outputs:\n  out1: @@\n"}
	m["jobs.<job_id>.env.<env_name>"] = avPos{job: "env:\n  FOO: @@\n"}
	m["jobs.<job_id>.env#expr"] = avPos{job: "env: @@\n"}
	m["jobs.<job_id>.defaults.run.shell"] = avPos{job: "defaults:\n  run:\n    shell: @@\n"}
	m["jobs.<job_id>.defaults.run.working-directory"] = avPos{job: "defaults:\n  run:\n    working-directory: @@\n"}
	m["jobs.<job_id>.if"] = avPos{job: "if: @@\n"}
	m["jobs.<job_id>.if#braces"] = avPos{job: "if: @@\n"}
	m["jobs.<job_id>.if#call"] = avPos{job: "if: @@\n" + avCallUses, call: true}
	m["jobs.<job_id>.strategy.fail-fast"] = avPos{job: "strategy:\n  fail-fast: @@\n  matrix:\n    os: [a, b]\n"}
	m["jobs.<job_id>.strategy.max-parallel"] = avPos{job: "strategy:\n  max-parallel: @@\n  matrix:\n    os: [a, b]\n"}
	m["jobs.<job_id>.strategy.matrix#expr"] = avPos{job: "strategy:\n  matrix: @@\n"}
	m["jobs.<job_id>.strategy.matrix.<row>#expr"] = avPos{job: "strategy:\n  matrix:\n    os: @@\n"}
	m["jobs.<job_id>.strategy.matrix.<row>[*]"] = avPos{job: "strategy:\n  matrix:\n    os:\n      - a\n      - @@\n"}
	m["jobs.<job_id>.strategy.matrix.<row>[*].<key>"] = avPos{job: "strategy:\n  matrix:\n    os:\n      - k: a\n      - k: @@\n"}
	m["jobs.<job_id>.strategy.matrix.<row>[*][*]"] = avPos{job: "strategy:\n  matrix:\n    os:\n      - - a\n      - - @@\n"}
	m["jobs.<job_id>.strategy.matrix.include#expr"] = avPos{job: "strategy:\n  matrix:\n    os: [a, b]\n    include: @@\n"}
	m["jobs.<job_id>.strategy.matrix.include[*]#expr"] = avPos{job: "strategy:\n  matrix:\n    os: [a, b]\n    include:\n      - os: c\n      - @@\n"}
	m["jobs.<job_id>.strategy.matrix.include[*].<key>"] = avPos{job: "strategy:\n  matrix:\n    os: [a, b]\n    include:\n      - os: c\n        extra: @@\n"}
	m["jobs.<job_id>.strategy.matrix.exclude#expr"] = avPos{job: "strategy:\n  matrix:\n    os: [a, b]\n    exclude: @@\n"}
	m["jobs.<job_id>.strategy.matrix.exclude[*]#expr"] = avPos{job: "strategy:\n  matrix:\n    os: [a, b]\n    exclude:\n      - os: a\n      - @@\n"}
	m["jobs.<job_id>.strategy.matrix.exclude[*].<key>"] = avPos{job: "strategy:\n  matrix:\n    os: [a, b]\n    exclude:\n      - os: @@\n"}
	// elements after an earlier any-typed sibling, and elements nested one level deeper (rows, include, exclude)
	mx := "jobs.<job_id>.strategy.matrix."
	mxRow := func(body string) avPos { return avPos{job: "strategy:\n  matrix:\n    os:\n" + avIndentAll(body, 6)} }
	m[mx+"<row>[*]#after-any"] = mxRow("- " + avSibling + "\n- @@\n")
	m[mx+"<row>[*].<key>#after-any"] = mxRow("- k1: " + avSibling + "\n  k2: @@\n")
	m[mx+"<row>[*][*]#after-any"] = mxRow("- - " + avSibling + "\n  - @@\n")
	m[mx+"<row>[*][*][*]#after-any"] = mxRow("- - - " + avSibling + "\n    - @@\n")
	m[mx+"<row>[*].<key>[*]#after-any"] = mxRow("- k:\n    - " + avSibling + "\n    - @@\n")
	m[mx+"<row>[*].<key>.<key>#after-any"] = mxRow("- k:\n    k1: " + avSibling + "\n    k2: @@\n")
	for _, sib := range []struct{ tag, val string }{{"", "a"}, {"#after-any", avSibling}} {
		inc := func(body string) avPos {
			return avPos{job: "strategy:\n  matrix:\n    os: [a, b]\n    include:\n      - os: c\n" + avIndentAll(body, 8)}
		}
		exc := func(rows, body string) avPos {
			return avPos{job: "strategy:\n  matrix:\n" + avIndentAll(rows, 4) + "    exclude:\n" + avIndentAll(body, 6)}
		}
		m[mx+"include[*].<key>[*]"+sib.tag] = inc("flags:\n  - " + sib.val + "\n  - @@\n")
		m[mx+"include[*].<key>.<key>"+sib.tag] = inc("cfg:\n  k1: " + sib.val + "\n  k2: @@\n")
		m[mx+"exclude[*].<key>[*]"+sib.tag] = exc("os: [a, b]\nflags:\n  - [a, b]\n", "- flags:\n    - "+sib.val+"\n    - @@\n")
		m[mx+"exclude[*].<key>.<key>"+sib.tag] = exc("os: [a, b]\ncfg:\n  - {k1: a, k2: b}\n", "- cfg:\n    k1: "+sib.val+"\n    k2: @@\n")
		if sib.tag != "" {
			m[mx+"include[*].<key>"+sib.tag] = inc("e1: " + sib.val + "\ne2: @@\n")
			m[mx+"exclude[*].<key>"+sib.tag] = exc("os: [a, b]\nver: [1, 2]\n", "- os: "+sib.val+"\n  ver: @@\n")
		}
	}
	m["jobs.<job_id>.continue-on-error"] = avPos{job: "continue-on-error: @@\n"}
	m["jobs.<job_id>.timeout-minutes"] = avPos{job: "timeout-minutes: @@\n"}
	for suffix, body := range avContainer("container") {
		m["jobs.<job_id>.container"+suffix] = avPos{job: body}
	}
	m["jobs.<job_id>.services#expr"] = avPos{job: "services: @@\n"}
	for suffix, body := range avContainer("db") {
		m["jobs.<job_id>.services.<service_id>"+suffix] = avPos{job: "services:\n" + avIndentAll(body, 2)}
	}
	m["jobs.<job_id>.uses"] = avPos{job: "uses: @@\n", call: true}
	m["jobs.<job_id>.with.<input_id>"] = avPos{job: avCallUses + "with:\n  in1: @@\n", call: true}
	m["jobs.<job_id>.secrets.<secret_id>"] = avPos{job: avCallUses + "secrets:\n  sec1: @@\n", call: true}
	// step level
	st := "jobs.<job_id>.steps[*]."
	m[st+"name"] = avPos{step: "name: @@\nrun: echo\n"}
	m[st+"if"] = avPos{step: "if: @@\nrun: echo\n"}
	m[st+"if#braces"] = avPos{step: "if: @@\nrun: echo\n"}
	m[st+"run"] = avPos{step: "run: echo @@\n"}
	m[st+"shell"] = avPos{step: "run: echo\nshell: @@\n"}
	m[st+"uses"] = avPos{step: "uses: @@\n"}
	m[st+"id"] = avPos{step: "id: @@\nrun: echo\n"}
	m[st+"working-directory"] = avPos{step: "run: echo\nworking-directory: @@\n"}
	m[st+"with.<input_id>"] = avPos{step: "uses: my-org/my-action@v1\nwith:\n  in1: @@\n"}
	m[st+"with.<input_id>#github-script"] = avPos{step: "uses: actions/github-script@v7\nwith:\n  script: console.log(@@)\n"}
	m[st+"with.entrypoint"] = avPos{step: "uses: docker://alpine:3.8\nwith:\n  entrypoint: @@\n"}
	m[st+"with.args"] = avPos{step: "uses: docker://alpine:3.8\nwith:\n  args: @@\n"}
	m[st+"env.<env_name>"] = avPos{step: "run: echo\nenv:\n  FOO: @@\n"}
	m[st+"env#expr"] = avPos{step: "run: echo\nenv: @@\n"}
	m[st+"continue-on-error"] = avPos{step: "run: echo\ncontinue-on-error: @@\n"}
	m[st+"timeout-minutes"] = avPos{step: "run: echo\ntimeout-minutes: @@\n"}
	// matrix sibling configurations (Availability.tla, MatrixSiblings): var = sib-<rows>-<include>-<exclude>
	sibSection := func(name, state, lit, target string) string {
		switch state {
		case "none":
			return ""
		case "expr":
			return "    " + name + ": ${{ fromJSON(toJSON('" + name + "')) }}\n"
		}
		body := lit
		if target != "" {
			body = target
		}
		out := "    " + name + ":\n" + avIndentAll(body, 6)
		if state == "elem" {
			out += "      - ${{ fromJSON(toJSON('" + name + "-element')) }}\n"
		}
		return out
	}
	states := []string{"none", "lit", "expr", "elem"}
	for _, r := range []string{"lit", "expr"} {
		for _, i := range states {
			for _, x := range states {
				rows := "    os: [a, b]\n"
				if r == "expr" {
					rows = "    os: ${{ fromJSON(toJSON('rows')) }}\n"
				}
				v := "#sib-" + r + "-" + i + "-" + x
				head := "strategy:\n  matrix:\n"
				if r == "lit" {
					m[mx+"<row>[*]"+v] = avPos{job: head + "    os:\n      - a\n      - @@\n" +
						sibSection("include", i, "- os: c\n", "") + sibSection("exclude", x, "- os: a\n", "")}
				}
				if i == "lit" || i == "elem" {
					m[mx+"include[*].<key>"+v] = avPos{job: head + rows +
						sibSection("include", i, "", "- os: c\n  extra: @@\n") + sibSection("exclude", x, "- os: a\n", "")}
				}
				if x == "lit" || x == "elem" {
					m[mx+"exclude[*].<key>"+v] = avPos{job: head + rows +
						sibSection("include", i, "- os: c\n", "") + sibSection("exclude", x, "", "- os: @@\n")}
				}
			}
		}
	}
	// callee variants of a call job (Availability.tla, CalleeVariants); the scratch project holds callee.yml
	for _, c := range []struct {
		tag, uses, in, sec string
		tol                []string
	}{
		{"local-declared", "./.github/workflows/callee.yml", "in1", "sec1", nil},
		{"local-undeclared", "./.github/workflows/callee.yml", "other", "other", []string{"is not defined in \"./.github/workflows/callee.yml\" reusable workflow"}},
		{"local-missing", "./.github/workflows/missing.yml", "in1", "sec1", []string{"could not read reusable workflow file for \"./.github/workflows/missing.yml\""}},
	} {
		m["jobs.<job_id>.with.<input_id>#"+c.tag] = avPos{job: "uses: " + c.uses + "\nwith:\n  " + c.in + ": @@\n", call: true, project: true, tolerate: c.tol}
		m["jobs.<job_id>.secrets.<secret_id>#"+c.tag] = avPos{job: "uses: " + c.uses + "\nsecrets:\n  " + c.sec + ": @@\n", call: true, project: true, tolerate: c.tol}
	}
	// copies inside a job that calls a reusable workflow (Availability.tla, CallCopies)
	m["jobs.<job_id>.if#braces-call"] = avPos{job: "if: @@\n" + avCallUses, call: true}
	for id, pos := range m {
		if pos.call {
			continue
		}
		for _, sec := range []string{"concurrency", "strategy", "services"} {
			if strings.HasPrefix(id, "jobs.<job_id>."+sec) {
				cp := pos
				cp.call = true
				cp.job += avCallUses
				if strings.Contains(id, "#") {
					m[id+"-call"] = cp
				} else {
					m[id+"#call"] = cp
				}
			}
		}
	}
	return m
}()

// avBuild assembles the workflow; variant 1 surrounds the job and the step under test with other jobs and steps,
// a `needs` edge, a matrix and a workflow name.  Returns the text with the marker still in place.
func avBuild(p avPos, variant int) string {
	var sb strings.Builder
	if variant == 1 && !strings.HasPrefix(p.top, "name:") {
		sb.WriteString("name: decorated\n")
	}
	if p.on != "" {
		sb.WriteString(p.on)
	} else if variant == 1 {
		sb.WriteString("on: [push, pull_request]\n")
	} else {
		sb.WriteString("on: push\n")
	}
	sb.WriteString(p.top)
	sb.WriteString("jobs:\n")
	if variant == 1 {
		sb.WriteString("  prep:\n    runs-on: ubuntu-latest\n    outputs:\n      o: ${{ steps.s.outputs.x }}\n    steps:\n      - id: s\n        run: echo \"x=1\" >> \"$GITHUB_OUTPUT\"\n")
	}
	sb.WriteString("  test:\n")
	if variant == 1 {
		sb.WriteString("    needs: [prep]\n")
	}
	if !p.call && !p.noRunsOn {
		sb.WriteString("    runs-on: ubuntu-latest\n")
	}
	if variant == 1 && !p.call && !strings.Contains(p.job, "strategy:") {
		sb.WriteString("    strategy:\n      matrix:\n        ver: [1, 2]\n")
	}
	sb.WriteString(avIndentAll(p.job, 4))
	if !p.call {
		sb.WriteString("    steps:\n")
		if variant == 1 {
			sb.WriteString("      - id: first\n        run: echo first\n")
		}
		step := p.step
		if step == "" {
			step = "run: echo\n"
		}
		ind := avIndentAll(step, 8)
		sb.WriteString("      - " + ind[8:])
		if variant == 1 {
			sb.WriteString("      - run: echo after\n")
		}
	}
	if variant == 1 {
		sb.WriteString("  post:\n    needs: [test]\n    runs-on: ubuntu-latest\n    steps:\n      - run: echo\n")
	}
	return sb.String()
}

// ---------------------------------------------------------------------------------------------
// expression texts

func avSpell(name, how string) string {
	switch how {
	case "upper":
		return strings.ToUpper(name)
	case "lower":
		return strings.ToLower(name)
	case "mixed":
		rs := []rune(name)
		for i, r := range rs {
			if i%2 == 0 {
				rs[i] = unicode.ToUpper(r)
			} else {
				rs[i] = unicode.ToLower(r)
			}
		}
		return string(rs)
	}
	return name
}

// avCore is the bare occurrence of the name; name == "" gives the neutral core used to verify the scaffold.
func avCore(name, nkind, spelling string) string {
	if name == "" {
		if nkind == "neutral-bool" {
			return "true"
		}
		return "'x'"
	}
	s := avSpell(name, spelling)
	if nkind == "fn" {
		if strings.EqualFold(name, "hashfiles") {
			return s + "('x')"
		}
		return s + "()"
	}
	return s
}

func avW(x string) string { return "fromJSON(toJSON(" + x + "))" }

// avApplyFrames places the occurrence `hole` in the expression tree: the frames are applied innermost first
// (Availability.tla, FrameSeqs).  The other operands have type any.
func avApplyFrames(hole string, seq []string) (string, error) {
	e := hole
	others := []string{avW("'a'"), avW("'b'"), avW("'c'")}
	for i, f := range seq {
		in := e
		if i > 0 {
			in = "(" + e + ")"
		}
		o := others[i%len(others)]
		switch f {
		case "orL":
			e = in + " || " + o
		case "orR":
			e = o + " || " + in
		case "andL":
			e = in + " && " + o
		case "andR":
			e = o + " && " + in
		case "not":
			e = "!" + in
		case "cmpL":
			e = in + " == 'a'"
		case "cmpR":
			e = "'a' != " + in
		case "argFormat":
			e = "format('{0}', " + e + ")"
		case "argContains":
			e = "contains(" + e + ", 'a')"
		case "idx":
			e = o + "[" + e + "]"
		case "recv":
			e = in + ".y"
		case "recvIdx":
			e = in + "['y']"
		default:
			return "", fmt.Errorf("unknown frame %q", f)
		}
	}
	return e, nil
}

// avRawOK: the bare name (an object, a bool or a string) fits under these frames without a type diagnostic
func avRawOK(seq []string) bool {
	for _, f := range seq {
		switch f {
		case "orL", "orR", "andL", "andR", "not", "argFormat":
		default:
			return false
		}
	}
	return true
}

// avValue returns the scalar text for the position and the expression text
func avValue(form, name, nkind, emb string) (string, string, error) {
	spelling := ""
	if emb == "upper" || emb == "lower" || emb == "mixed" {
		spelling = emb
	}
	c := avCore(name, nkind, spelling)
	var e string
	switch emb {
	case "wrap", "upper", "lower", "mixed", "text", "second":
		e = avW(c)
	case "and":
		e = avW(c) + " && " + avW("'x'")
	case "or":
		e = avW("'x'") + " || " + avW(c)
	case "arg":
		e = "fromJSON(format('{0}', toJSON(" + c + ")))"
	case "index":
		e = avW("'x'") + "[" + avW(c) + "]"
	case "not":
		e = avW("!" + avW(c))
	case "cmp":
		e = avW(avW(c) + " == 'x'")
	case "deep":
		e = avW("'x'") + "[format('{0}', toJSON(" + c + "))].y"
	case "direct":
		e = c
	case "ternary":
		e = avW(c) + " && " + avW("'a'") + " || " + avW("'b'")
	case "nand":
		e = "!(" + avW(c) + " && " + avW("'a'") + ") && " + avW("'b'")
	case "bracket":
		prop, ok := map[string]string{"github": "sha", "runner": "os", "job": "status", "strategy": "job-index"}[strings.ToLower(name)]
		switch {
		case name == "": // the neutral placeholder of the same shape
			e = avW(c)
		case !ok:
			return "", "", fmt.Errorf("embedding bracket is not defined for %q", name)
		default:
			e = avW(c + "['" + prop + "']")
		}
	default:
		if !strings.HasPrefix(emb, "f:") {
			return "", "", fmt.Errorf("unknown embedding %q", emb)
		}
		var err error
		if e, err = avApplyFrames(avW(c), strings.Split(emb[2:], ".")); err != nil {
			return "", "", err
		}
		if form == "cond" && strings.HasPrefix(e, "!") {
			e = "(" + e + ")" // a bare `if: !...` would be a YAML tag
		}
	}
	switch form {
	case "cond":
		return e, e, nil
	case "one":
		return "${{ " + e + " }}", e, nil
	case "tmpl":
		switch emb {
		case "text":
			return "pre-${{ " + e + " }}-post", e, nil
		case "second":
			return "${{ 'x' }}${{ " + e + " }}", e, nil
		}
		return "${{ " + e + " }}", e, nil
	}
	return "", "", fmt.Errorf("unknown form %q", form)
}

func avRender(v avVec, neutral bool) (src string, line int, expr string, err error) {
	p, ok := avPositions[v.Pos]
	if !ok {
		return "", 0, "", fmt.Errorf("position %q of the specification has no renderer in the harness", v.Pos)
	}
	name := v.Name
	if neutral {
		name = ""
	}
	val, e, err := avValue(v.Form, name, v.NKind, v.Emb)
	if err != nil {
		return "", 0, "", err
	}
	// variants: 0 minimal, 1 decorated, 2 minimal with the value in double quotes, 3 decorated with double quotes
	if v.Variant >= 2 {
		val = "\"" + val + "\""
	}
	tmpl := avBuild(p, v.Variant%2)
	if strings.Count(tmpl, "@@") != 1 {
		return "", 0, "", fmt.Errorf("renderer of %q has %d markers", v.Pos, strings.Count(tmpl, "@@"))
	}
	idx := strings.Index(tmpl, "@@")
	line = strings.Count(tmpl[:idx], "\n") + 1
	return strings.Replace(tmpl, "@@", val, 1), line, e, nil
}

const avCalleeSrc = `on:
  workflow_call:
    inputs:
      in1:
        type: string
    secrets:
      sec1:
        required: false
jobs:
  j:
    runs-on: ubuntu-latest
    steps:
      - run: echo
`

var (
	avProjOnce sync.Once
	avProjRoot string
	avProjErr  error
)

// avLint lints the workflow; positions with project=true are linted as a file of a scratch project (under
// $AVAIL_SCRATCH or a temporary directory) that contains .github/workflows/callee.yml.  Diagnostics that the
// configuration provokes by design in other rules (tolerate) are dropped.
func avLint(p avPos, src string) ([]Diag, error) {
	var diags []Diag
	if !p.project {
		d, err := lintSrc(src)
		if err != nil {
			return nil, err
		}
		diags = d
	} else {
		avProjOnce.Do(func() {
			avProjRoot, avProjErr = os.MkdirTemp(os.Getenv("AVAIL_SCRATCH"), "avproj")
			if avProjErr != nil {
				return
			}
			wf := filepath.Join(avProjRoot, ".github", "workflows")
			if avProjErr = os.MkdirAll(wf, 0o755); avProjErr != nil {
				return
			}
			avProjErr = os.WriteFile(filepath.Join(wf, "callee.yml"), []byte(avCalleeSrc), 0o644)
		})
		if avProjErr != nil {
			return nil, avProjErr
		}
		proj, err := actionlint.NewProject(avProjRoot)
		if err != nil {
			return nil, err
		}
		l, err := newLinter(nil)
		if err != nil {
			return nil, err
		}
		errs, err := l.Lint(filepath.Join(avProjRoot, ".github", "workflows", "test.yml"), []byte(src), proj)
		if err != nil {
			return nil, err
		}
		diags = toDiags(errs)
	}
	if len(p.tolerate) == 0 {
		return diags, nil
	}
	kept := diags[:0]
	for _, d := range diags {
		drop := false
		for _, t := range p.tolerate {
			if strings.Contains(d.Msg, t) {
				drop = true
			}
		}
		if !drop {
			kept = append(kept, d)
		}
	}
	return kept, nil
}

var (
	avReCtx   = regexp.MustCompile(`^context "([^"]*)" is not allowed here\. `)
	avReFn    = regexp.MustCompile(`^calling function "([^"]*)" is not allowed here\. `)
	avReUndef = regexp.MustCompile(`^undefined variable "([^"]*)"\. `)
)

// avClassify sorts diagnostics into the observable of the property
func avClassify(out *avOut, name, nkind string, line int, diags []Diag) {
	for _, d := range diags {
		loc := fmt.Sprintf("%d:%d %s: %s", d.Line, d.Col, d.Kind, d.Msg)
		if d.Kind != "expression" {
			out.Others = append(out.Others, loc)
			continue
		}
		if m := avReCtx.FindStringSubmatch(d.Msg); m != nil {
			out.NotAllowed++
			if nkind == "ctx" && strings.EqualFold(m[1], name) && (line == 0 || d.Line == line) {
				out.Reported = true
			} else {
				out.Others = append(out.Others, loc)
			}
			continue
		}
		if m := avReFn.FindStringSubmatch(d.Msg); m != nil {
			out.NotAllowed++
			if nkind == "fn" && strings.EqualFold(m[1], name) && (line == 0 || d.Line == line) {
				out.Reported = true
			} else {
				out.Others = append(out.Others, loc)
			}
			continue
		}
		if m := avReUndef.FindStringSubmatch(d.Msg); m != nil && nkind == "ctx" && strings.EqualFold(name, "jobs") &&
			strings.EqualFold(m[1], "jobs") && (line == 0 || d.Line == line) {
			out.Undefined = true
			continue
		}
		out.Others = append(out.Others, loc)
	}
}

type avBaseKey struct {
	pos, form, emb string
	variant        int
}

var (
	avBaseMu    sync.Mutex
	avBaseCache = map[avBaseKey][]string{}
)

// avBaseProblems lints the scaffold of a vector with a neutral core ('x' instead of the name): it must be clean.
func avBaseProblems(v avVec) []string {
	k := avBaseKey{v.Pos, v.Form, v.Emb, v.Variant}
	avBaseMu.Lock()
	r, ok := avBaseCache[k]
	avBaseMu.Unlock()
	if ok {
		return r
	}
	r = []string{}
	nv := v
	nv.NKind = "ctx"
	if v.Emb == "direct" {
		// the scaffold of `direct` is the bare placeholder; a bool literal stands for the call
		nv.NKind = "neutral-bool"
	}
	src, _, _, err := avRender(nv, true)
	if err != nil {
		r = append(r, "render: "+err.Error())
	} else if diags, err := avLint(avPositions[v.Pos], src); err != nil {
		r = append(r, "base workflow: lint error: "+err.Error())
	} else {
		for _, d := range diags {
			r = append(r, fmt.Sprintf("base workflow is not clean: %d:%d %s: %s\n%s", d.Line, d.Col, d.Kind, d.Msg, src))
		}
	}
	avBaseMu.Lock()
	avBaseCache[k] = r
	avBaseMu.Unlock()
	return r
}

func avRun(v avVec) (out avOut) {
	out = avOut{ID: v.ID, Others: []string{}}
	defer func() {
		if r := recover(); r != nil {
			out.Others = append(out.Others, fmt.Sprintf("panic: %v", r))
		}
	}()
	if probs := avBaseProblems(v); len(probs) > 0 {
		out.Others = append(out.Others, probs...)
		return out
	}
	src, line, expr, err := avRender(v, false)
	if err != nil {
		out.Others = append(out.Others, "render: "+err.Error())
		return out
	}
	out.Src, out.Expr = src, expr
	diags, err := avLint(avPositions[v.Pos], src)
	if err != nil {
		out.Others = append(out.Others, "lint error: "+err.Error())
		return out
	}
	avClassify(&out, v.Name, v.NKind, line, diags)
	return out
}

// avAPI: WorkflowKeyAvailability(key) and, for kind "api", the checker configured with it applied to the bare name
func avAPI(v avVec) (out avOut) {
	out = avOut{ID: v.ID, Others: []string{}}
	defer func() {
		if r := recover(); r != nil {
			out.Others = append(out.Others, fmt.Sprintf("panic: %v", r))
		}
	}()
	ctx, sp := actionlint.WorkflowKeyAvailability(v.Key)
	out.NilCtx = ctx == nil && sp == nil
	out.Ctx = append([]string{}, ctx...)
	out.Fns = append([]string{}, sp...)
	if v.Kind != "api" {
		return out
	}
	for _, spelling := range []string{"", "upper"} {
		src := avCore(v.Name, v.NKind, spelling)
		out.Expr = src
		expr, perr := actionlint.NewExprParser().Parse(actionlint.NewExprLexer(src + "}}"))
		if perr != nil {
			out.Others = append(out.Others, "parse: "+perr.Error())
			return out
		}
		c := actionlint.NewExprSemanticsChecker(false, nil)
		c.UpdateJobs(actionlint.NewEmptyObjectType())
		c.SetContextAvailability(ctx)
		c.SetSpecialFunctionAvailability(sp)
		_, errs := c.Check(expr)
		diags := make([]Diag, 0, len(errs))
		for _, e := range errs {
			diags = append(diags, Diag{e.Line, e.Column, "expression", e.Message})
		}
		o := avOut{Others: []string{}}
		avClassify(&o, v.Name, v.NKind, 0, diags)
		out.Others = append(out.Others, o.Others...)
		if spelling == "" {
			out.Reported = o.Reported
		} else {
			out.ReportedUpper = o.Reported
		}
	}
	// the occurrence at every place of the expression tree
	tree := make([]byte, len(avFrameSeqs))
	raw := make([]byte, len(avFrameSeqs))
	for i, seq := range avFrameSeqs {
		tree[i], raw[i] = '-', '-'
		holes := []string{avW(avCore(v.Name, v.NKind, ""))}
		if avRawOK(seq) {
			holes = append(holes, avCore(v.Name, v.NKind, ""))
		}
		for h, hole := range holes {
			rep, others := avCheckTree(hole, seq, v.Name, v.NKind, ctx, sp, true)
			for _, o := range others {
				out.Others = append(out.Others, strings.Join(seq, ".")+": "+o)
			}
			b := byte('0')
			if rep {
				b = '1'
			}
			if h == 0 {
				tree[i] = b
			} else {
				raw[i] = b
			}
		}
	}
	out.Tree, out.TreeRaw = string(tree), string(raw)
	return out
}

var avFrameSeqs [][]string

// avCheckTree runs the checker (configured with ctx, sp if restrict) on the occurrence placed by the frame sequence
func avCheckTree(hole string, seq []string, name, nkind string, ctx, sp []string, restrict bool) (bool, []string) {
	src, err := avApplyFrames(hole, seq)
	if err != nil {
		return false, []string{err.Error()}
	}
	expr, perr := actionlint.NewExprParser().Parse(actionlint.NewExprLexer(src + "}}"))
	if perr != nil {
		return false, []string{"parse " + src + ": " + perr.Error()}
	}
	c := actionlint.NewExprSemanticsChecker(false, nil)
	c.UpdateJobs(actionlint.NewEmptyObjectType())
	if restrict {
		c.SetContextAvailability(ctx)
		c.SetSpecialFunctionAvailability(sp)
	}
	_, errs := c.Check(expr)
	diags := make([]Diag, 0, len(errs))
	for _, e := range errs {
		diags = append(diags, Diag{e.Line, e.Column, "expression", e.Message})
	}
	o := avOut{Others: []string{}}
	avClassify(&o, name, nkind, 0, diags)
	for i := range o.Others {
		o.Others[i] = src + ": " + o.Others[i]
	}
	return o.Reported, o.Others
}

func init() {
	register("avail-run", func(args []string) error {
		in, err := readJSONL[avVec](args[0])
		if err != nil {
			return err
		}
		return writeJSONL(args[1], parallelMap(in, avRun))
	})
	register("avail-api", func(args []string) error {
		in, err := readJSONL[avVec](args[0])
		if err != nil {
			return err
		}
		// optional third argument: JSON file with the frame sequences of the specification
		if len(args) > 2 {
			raw, err := os.ReadFile(args[2])
			if err != nil {
				return err
			}
			if err := json.Unmarshal(raw, &avFrameSeqs); err != nil {
				return err
			}
			// every frame sequence must be well-typed around a neutral occurrence
			for _, seq := range avFrameSeqs {
				holes := []string{avW("'x'")}
				if avRawOK(seq) {
					holes = append(holes, "'x'", "true", avW("'x'")+".obj")
				}
				for _, hole := range holes {
					if _, others := avCheckTree(hole, seq, "", "ctx", nil, nil, false); len(others) > 0 {
						return fmt.Errorf("frame sequence %v is not clean around a neutral occurrence: %v", seq, others)
					}
				}
			}
		}
		return writeJSONL(args[1], parallelMap(in, avAPI))
	})
	register("avail-show", func(args []string) error {
		if len(args) < 6 {
			return fmt.Errorf("usage: avail-show <pos> <name> <ctx|fn> <emb> <variant> <form>")
		}
		variant, _ := strconv.Atoi(args[4])
		v := avVec{Pos: args[0], Name: args[1], NKind: args[2], Emb: args[3], Variant: variant, Form: args[5]}
		src, line, expr, err := avRender(v, false)
		if err != nil {
			return err
		}
		fmt.Printf("%s--- placeholder at line %d: %s\n", src, line, expr)
		diags, err := lintSrc(src)
		if err != nil {
			return err
		}
		for _, d := range diags {
			fmt.Fprintf(os.Stdout, "%d:%d [%s] %s\n", d.Line, d.Col, d.Kind, d.Msg)
		}
		out := avRun(v)
		fmt.Printf("reported=%v undefined=%v others=%d\n", out.Reported, out.Undefined, len(out.Others))
		return nil
	})
}
