package main

import (
	"fmt"
	"os"
	"regexp"
	"sort"
	"strconv"
	"strings"
	"sync/atomic"
	"time"

	"github.com/rhysd/actionlint"
)

type needsVec struct {
	ID    int     `json:"id"`
	Needs [][]int `json:"needs"`
}

type needsCycle struct {
	At   int   `json:"at"`
	Path []int `json:"path"`
}

type needsRec struct {
	ID       int          `json:"id"`
	Needs    [][]int      `json:"needs"`
	Status   string       `json:"status"`
	Dangling [][2]int     `json:"dangling"`
	Dups     [][2]int     `json:"dups"`
	Cycles   []needsCycle `json:"cycles"`
	Other    []string     `json:"other"`
	Via      string       `json:"via"`
}

var (
	reDangling = regexp.MustCompile(`^job "([^"]*)" needs job "([^"]*)" which does not exist in this workflow`)
	reDupNeed  = regexp.MustCompile(`^job ID "([^"]*)" duplicates in "needs" section`)
	reCycle    = regexp.MustCompile(`^cyclic dependencies in "needs" job configurations are detected\. detected cycle is (.*)$`)
)

func jobIndex(name string) int {
	n := strings.ToLower(name)
	if strings.HasPrefix(n, "job") {
		if k, err := strconv.Atoi(n[3:]); err == nil {
			return k
		}
	}
	if n == "ghost" {
		return 0
	}
	return -1
}

// spelling of a reference to target t written as entry i of job j (exercises case-insensitivity)
func refSpelling(t, j, i int) string {
	name := "ghost"
	if t > 0 {
		name = "job" + strconv.Itoa(t)
	}
	switch (i + j) % 3 {
	case 1:
		return strings.ToUpper(name)
	case 2:
		return strings.ToUpper(name[:1]) + name[1:]
	}
	return name
}

func classifyNeeds(rec *needsRec, diags []Diag, jobOfLine func(int) int, entryOfPos func(line, col int) (int, int)) {
	for _, d := range diags {
		if d.Kind != "job-needs" {
			rec.Other = append(rec.Other, d.Kind+": "+d.Msg)
			continue
		}
		if m := reDangling.FindStringSubmatch(d.Msg); m != nil {
			j := jobOfLine(d.Line)
			if jobIndex(m[1]) != j {
				rec.Other = append(rec.Other, fmt.Sprintf("dangling reference reported at line %d (job %d) but names %q", d.Line, j, m[1]))
			}
			rec.Dangling = append(rec.Dangling, [2]int{j, jobIndex(m[2])})
		} else if m := reDupNeed.FindStringSubmatch(d.Msg); m != nil {
			j, i := entryOfPos(d.Line, d.Col)
			rec.Dups = append(rec.Dups, [2]int{j, i})
		} else if m := reCycle.FindStringSubmatch(d.Msg); m != nil {
			parts := strings.Split(m[1], " -> ")
			c := needsCycle{At: jobOfLine(d.Line)}
			for _, p := range parts {
				s, err := strconv.Unquote(p)
				if err != nil {
					s = p
				}
				c.Path = append(c.Path, jobIndex(s))
			}
			rec.Cycles = append(rec.Cycles, c)
		} else {
			rec.Other = append(rec.Other, "unknown job-needs message: "+d.Msg)
		}
	}
	sort.Slice(rec.Dangling, func(a, b int) bool {
		if rec.Dangling[a][0] != rec.Dangling[b][0] {
			return rec.Dangling[a][0] < rec.Dangling[b][0]
		}
		return rec.Dangling[a][1] < rec.Dangling[b][1]
	})
}

// runNeedsAST runs the real RuleJobNeeds through the Visitor on an AST built from the graph.
func runNeedsAST(v needsVec) (rec needsRec) {
	rec = needsRec{ID: v.ID, Needs: v.Needs, Status: "ok", Dangling: [][2]int{}, Dups: [][2]int{}, Cycles: []needsCycle{}, Other: []string{}, Via: "ast"}
	defer func() {
		if r := recover(); r != nil {
			rec.Status = fmt.Sprintf("panic: %v", r)
		}
	}()
	w := &actionlint.Workflow{Jobs: map[string]*actionlint.Job{}}
	for j0, l := range v.Needs {
		j := j0 + 1
		id := "job" + strconv.Itoa(j)
		spell := id
		if j%2 == 0 {
			spell = "Job" + strconv.Itoa(j)
		}
		job := &actionlint.Job{ID: &actionlint.String{Value: spell, Pos: &actionlint.Pos{Line: 100 * j, Col: 3}}, Pos: &actionlint.Pos{Line: 100 * j, Col: 3}}
		for i0, t := range l {
			job.Needs = append(job.Needs, &actionlint.String{Value: refSpelling(t, j, i0+1), Pos: &actionlint.Pos{Line: 100*j + i0 + 1, Col: 12}})
		}
		w.Jobs[id] = job
	}
	rule := actionlint.NewRuleJobNeeds()
	vis := actionlint.NewVisitor()
	vis.AddPass(rule)
	if err := vis.Visit(w); err != nil {
		rec.Status = "error: " + err.Error()
		return
	}
	classifyNeeds(&rec, toDiags(rule.Errs()), func(line int) int { return line / 100 }, func(line, col int) (int, int) { return line / 100, line % 100 })
	return
}

func needsYAML(v needsVec) string {
	var sb strings.Builder
	sb.WriteString("on: push\njobs:\n")
	for j0, l := range v.Needs {
		j := j0 + 1
		spell := "job" + strconv.Itoa(j)
		if j%2 == 0 {
			spell = "Job" + strconv.Itoa(j)
		}
		fmt.Fprintf(&sb, "  %s:\n    runs-on: ubuntu-latest\n", spell)
		if len(l) == 0 {
			sb.WriteString("    name: x\n") // keeps the five-lines-per-job layout
		} else {
			sb.WriteString("    needs: [")
			for i0, t := range l {
				if i0 > 0 {
					sb.WriteString(", ")
				}
				sb.WriteString(refSpelling(t, j, i0+1))
			}
			sb.WriteString("]\n")
		}
		sb.WriteString("    steps:\n      - run: echo\n")
	}
	return sb.String()
}

func runNeedsLint(v needsVec) (rec needsRec) {
	rec = needsRec{ID: v.ID, Needs: v.Needs, Status: "ok", Dangling: [][2]int{}, Dups: [][2]int{}, Cycles: []needsCycle{}, Other: []string{}, Via: "lint"}
	defer func() {
		if r := recover(); r != nil {
			rec.Status = fmt.Sprintf("panic: %v", r)
		}
	}()
	src := needsYAML(v)
	diags, err := lintSrc(src)
	if err != nil {
		rec.Status = "error: " + err.Error()
		return
	}
	// job j occupies lines 3+5(j-1) .. 7+5(j-1); the needs list is on the third of them
	jobOfLine := func(line int) int { return (line-3)/5 + 1 }
	entryOfPos := func(line, col int) (int, int) {
		j := (line-3)/5 + 1
		c := 13 // column of the first entry in `    needs: [`
		for i0, t := range v.Needs[j-1] {
			if col == c {
				return j, i0 + 1
			}
			c += len(refSpelling(t, j, i0+1)) + 2
		}
		return j, -1
	}
	classifyNeeds(&rec, diags, jobOfLine, entryOfPos)
	return
}

func recKey(r needsRec) string {
	return fmt.Sprintf("%s|%v|%v|%v|%v", r.Status, r.Dangling, r.Dups, r.Cycles, r.Other)
}

func init() {
	// needs-run <in.jsonl> <out.ndjson> <reps> <lintEvery>: every graph through the AST `reps` times (Go map order
	// varies the DFS entry point), every lintEvery-th graph also through YAML + Linter.Lint.
	register("needs-run", func(args []string) error {
		in, err := readJSONL[needsVec](args[0])
		if err != nil {
			return err
		}
		reps, _ := strconv.Atoi(args[2])
		lintEvery, _ := strconv.Atoi(args[3])
		var cur atomic.Int64
		var curStart atomic.Int64
		cur.Store(-1)
		go func() { // watchdog: a single graph must not take seconds
			for {
				time.Sleep(500 * time.Millisecond)
				if id := cur.Load(); id >= 0 && time.Now().UnixNano()-curStart.Load() > int64(20*time.Second) {
					fmt.Fprintf(os.Stderr, "HANG id=%d\n", id)
					os.Exit(3)
				}
			}
		}()
		outs := parallelMap(in, func(v needsVec) []needsRec {
			cur.Store(int64(v.ID))
			curStart.Store(time.Now().UnixNano())
			seen := map[string]bool{}
			var recs []needsRec
			for k := 0; k < reps; k++ {
				r := runNeedsAST(v)
				if key := recKey(r); !seen[key] {
					seen[key] = true
					recs = append(recs, r)
				}
			}
			if lintEvery > 0 && v.ID%lintEvery == 0 {
				for k := 0; k < 3; k++ {
					r := runNeedsLint(v)
					if key := "lint" + recKey(r); !seen[key] {
						seen[key] = true
						recs = append(recs, r)
					}
				}
			}
			return recs
		})
		var flat []needsRec
		for _, o := range outs {
			flat = append(flat, o...)
		}
		return writeJSONL(args[1], flat)
	})
}
