package main

// C04 - expression lexer and parser.  Commands that run the REAL ExprLexer / ExprParser / Linter on
// vectors produced by TLC (ExprLexer.tla, ExprParser.tla) and record executions for ExprTrace.tla.
// Nothing here decides what is right: token classes are rendered with concrete representatives, the
// real outputs are projected onto the observables of the specifications, and (for the exhaustive
// enumerator) compared with the sentence table printed by TLC; whatever differs is handed back to be
// judged by TLC.

import (
	"fmt"
	"math/rand"
	"os"
	"strconv"
	"strings"
	"time"

	"github.com/rhysd/actionlint"
	"gopkg.in/yaml.v3"
)

// ---------------------------------------------------------------------------------- rendering

var exprClasses = []string{"id", "kw", "lit", "lp", "rp", "lb", "rb", "dot", "not", "cmp", "and", "or", "star", "comma"}

var exprIDReps = []string{"a", "Foo", "x-y", "_z", "github", "B_c-D", "n0", "UPPER", "e", "x1f"}
var exprKwReps = []string{"null", "true", "false"}
var exprCmpReps = []string{"<", "<=", ">", ">=", "==", "!="}

type exprLit struct {
	text string // as written
	n    string // kind and value the AST must carry
	num  bool   // number (a following '.' would be glued to it)
	wide bool   // contains non-ASCII
}

var exprLitReps = []exprLit{
	{"1", "int:1", true, false},
	{"'s'", "str:s", false, false},
	{"1.5", "float:1.5", true, false},
	{"0x1F", "int:31", true, false},
	{"0", "int:0", true, false},
	{"'it''s'", "str:it's", false, false},
	{"1e3", "float:1000", true, false},
	{"-7", "int:-7", true, false},
	{"''", "str:", false, false},
	{"-0.25", "float:-0.25", true, false},
	{"-0xa", "int:-10", true, false},
	{"''''", "str:'", false, false},
	{"2E-2", "float:0.02", true, false},
	{"2147483647", "int:2147483647", true, false},
	{"'a b'", "str:a b", false, false},
	{"1.0e0", "float:1", true, false},
	{"0x0", "int:0", true, false},
	{"'x''''y'", "str:x''y", false, false},
	{"-3.5e2", "float:-350", true, false},
	{"-2147483648", "int:-2147483648", true, false},
	{"'(1 && !2)'", "str:(1 && !2)", false, false},
	{"0e0", "float:0", true, false},
	{"-0", "int:0", true, false},
	{"0xdeadBEE", "int:233495534", true, false},
	{"12.50E1", "float:125", true, false},
	{"'é'", "str:é", false, true},
	{"0.0", "float:0", true, false},
	{"42", "int:42", true, false},
}

var exprFixed = map[string]string{"lp": "(", "rp": ")", "lb": "[", "rb": "]", "dot": ".", "not": "!",
	"and": "&&", "or": "||", "star": "*", "comma": ","}

// exprTok is one rendered token.
type exprTok struct {
	class string
	text  string
	name  string // what an AST node anchored at this token must carry in `n`
	num   bool
}

// exprRenderTok picks the representative of a class for position pos (1-based) and rotation rot.
func exprRenderTok(class string, pos, rot int, ascii bool) (exprTok, error) {
	switch class {
	case "id":
		t := exprIDReps[(pos+rot)%len(exprIDReps)] + strconv.Itoa(pos) // unique per position
		return exprTok{class, t, strings.ToLower(t), false}, nil
	case "kw":
		t := exprKwReps[(pos+rot)%len(exprKwReps)]
		return exprTok{class, t, t, false}, nil
	case "lit":
		i := (pos*5 + rot) % len(exprLitReps)
		for ascii && exprLitReps[i].wide {
			i = (i + 1) % len(exprLitReps)
		}
		l := exprLitReps[i]
		return exprTok{class, l.text, l.n, l.num}, nil
	case "cmp":
		t := exprCmpReps[(pos+rot)%len(exprCmpReps)]
		return exprTok{class, t, t, false}, nil
	}
	if t, ok := exprFixed[class]; ok {
		return exprTok{class, t, t, false}, nil
	}
	return exprTok{}, fmt.Errorf("unknown token class %q", class)
}

func exprWordByte(b byte) bool {
	return b >= '0' && b <= '9' || b >= 'a' && b <= 'z' || b >= 'A' && b <= 'Z' || b == '_' || b == '-'
}

// exprNeedSpace: would the two token texts, written next to each other, be read as something else?
func exprNeedSpace(l, r exprTok) bool {
	lb, rb := l.text[len(l.text)-1], r.text[0]
	switch {
	case exprWordByte(lb) && exprWordByte(rb):
		return true
	case l.num && rb == '.':
		return true
	case lb == '\'' && rb == '\'':
		return true
	case (l.text == "!" || l.text == "<" || l.text == ">") && rb == '=':
		return true
	}
	return false
}

var exprWsMix = []string{"\n", "\t", "  ", "\r\n", " \t ", "\n\n", " "}

// exprRendered is a token string written out as text.
type exprRendered struct {
	toks    []exprTok
	text    string
	offsets []int // byte offset of every token
	names   []string
}

// exprRender writes the token classes as text.  variant 0: no white space where the lexer does not
// need it, 1: single spaces everywhere, 2: newline/tab/CR mix.
func exprRender(classes []string, rot, variant int, ascii bool) (*exprRendered, error) {
	r := &exprRendered{}
	var sb strings.Builder
	ws := func(i int) string {
		switch variant {
		case 1:
			return " "
		case 2:
			return exprWsMix[(i+rot)%len(exprWsMix)]
		}
		return ""
	}
	if variant != 0 {
		sb.WriteString(ws(0))
	}
	for i, c := range classes {
		t, err := exprRenderTok(c, i+1, rot, ascii)
		if err != nil {
			return nil, err
		}
		if i > 0 {
			sep := ws(i)
			if sep == "" && exprNeedSpace(r.toks[i-1], t) {
				sep = " "
			}
			sb.WriteString(sep)
		}
		r.offsets = append(r.offsets, sb.Len())
		sb.WriteString(t.text)
		r.toks = append(r.toks, t)
		r.names = append(r.names, t.name)
	}
	if variant != 0 {
		sb.WriteString(ws(len(classes) + 1))
	}
	r.text = sb.String()
	if r.names == nil {
		r.names = []string{}
	}
	return r, nil
}

// ---------------------------------------------------------------------- projection of the AST

// ExprTree is the observable of a syntax tree: node kind, index (1-based) of the token the node is
// anchored at when the AST keeps that token (var kw lit call not; otherwise 0), the name / operator /
// literal value the node carries, children.
type ExprTree struct {
	K  string      `json:"k"`
	At int         `json:"at"`
	N  string      `json:"n"`
	A  []*ExprTree `json:"a"`
}

func exprNoTree() *ExprTree { return &ExprTree{"none", 0, "", []*ExprTree{}} }

func exprProject(n actionlint.ExprNode, idx func(*actionlint.Token) int) *ExprTree {
	leaf := func(k string, t *actionlint.Token, name string) *ExprTree {
		return &ExprTree{k, idx(t), name, []*ExprTree{}}
	}
	switch n := n.(type) {
	case *actionlint.VariableNode:
		return leaf("var", n.Token(), n.Name)
	case *actionlint.NullNode:
		return leaf("kw", n.Token(), "null")
	case *actionlint.BoolNode:
		return leaf("kw", n.Token(), strconv.FormatBool(n.Value))
	case *actionlint.IntNode:
		return leaf("lit", n.Token(), "int:"+strconv.Itoa(n.Value))
	case *actionlint.FloatNode:
		return leaf("lit", n.Token(), "float:"+strconv.FormatFloat(n.Value, 'g', -1, 64))
	case *actionlint.StringNode:
		return leaf("lit", n.Token(), "str:"+n.Value)
	case *actionlint.ObjectDerefNode:
		return &ExprTree{"prop", 0, n.Property, []*ExprTree{exprProject(n.Receiver, idx)}}
	case *actionlint.ArrayDerefNode:
		return &ExprTree{"deref", 0, "", []*ExprTree{exprProject(n.Receiver, idx)}}
	case *actionlint.IndexAccessNode:
		return &ExprTree{"index", 0, "", []*ExprTree{exprProject(n.Operand, idx), exprProject(n.Index, idx)}}
	case *actionlint.NotOpNode:
		return &ExprTree{"not", idx(n.Token()), "", []*ExprTree{exprProject(n.Operand, idx)}}
	case *actionlint.CompareOpNode:
		return &ExprTree{"cmp", 0, n.Kind.String(), []*ExprTree{exprProject(n.Left, idx), exprProject(n.Right, idx)}}
	case *actionlint.LogicalOpNode:
		k := "badlogical"
		switch n.Kind {
		case actionlint.LogicalOpNodeKindAnd:
			k = "and"
		case actionlint.LogicalOpNodeKindOr:
			k = "or"
		}
		return &ExprTree{k, 0, "", []*ExprTree{exprProject(n.Left, idx), exprProject(n.Right, idx)}}
	case *actionlint.FuncCallNode:
		t := &ExprTree{"call", idx(n.Token()), strings.ToLower(n.Callee), []*ExprTree{}}
		for _, a := range n.Args {
			t.A = append(t.A, exprProject(a, idx))
		}
		return t
	case nil:
		return &ExprTree{"nil", 0, "", []*ExprTree{}}
	}
	return &ExprTree{fmt.Sprintf("unknown:%T", n), 0, "", []*ExprTree{}}
}

// ExprRun is one execution of the real lexer+parser on one rendering (the record of ExprTrace.tla).
type ExprRun struct {
	Kind    string    `json:"kind"` // "parse"
	Ts      []string  `json:"ts"`
	Names   []string  `json:"names"`
	Ok      bool      `json:"ok"`
	Tree    *ExprTree `json:"tree"`
	ErrAt   int       `json:"errAt"` // token index of the error, Len+1 = END, 0 = not at a token
	Off     int       `json:"off"`   // byte offset of the error (-1: none)
	Inside  bool      `json:"inside"`
	Msg     string    `json:"msg"`
	LexOK   bool      `json:"lexok"` // the rendering was lexed into exactly the intended tokens
	Text    string    `json:"text"`
	Variant int       `json:"variant"`
	Rot     int       `json:"rot"`
	Panic   string    `json:"panic,omitempty"`
}

var exprKindOfTok = map[actionlint.TokenKind]string{
	actionlint.TokenKindLeftParen: "lp", actionlint.TokenKindRightParen: "rp", actionlint.TokenKindLeftBracket: "lb",
	actionlint.TokenKindRightBracket: "rb", actionlint.TokenKindDot: "dot", actionlint.TokenKindNot: "not",
	actionlint.TokenKindLess: "cmp", actionlint.TokenKindLessEq: "cmp", actionlint.TokenKindGreater: "cmp",
	actionlint.TokenKindGreaterEq: "cmp", actionlint.TokenKindEq: "cmp", actionlint.TokenKindNotEq: "cmp",
	actionlint.TokenKindAnd: "and", actionlint.TokenKindOr: "or", actionlint.TokenKindStar: "star",
	actionlint.TokenKindComma: "comma",
}

// exprLexAgrees: does the real lexer read the rendering as the intended tokens (same texts, same
// offsets, compatible kinds)?
func exprLexAgrees(r *exprRendered) bool {
	toks, _, err := actionlint.LexExpression(r.text + "}}")
	if err != nil || len(toks) != len(r.toks)+1 {
		return false
	}
	for i, t := range r.toks {
		g := toks[i]
		if g.Offset != r.offsets[i] || g.Value != t.text {
			return false
		}
		switch t.class {
		case "id", "kw":
			if g.Kind != actionlint.TokenKindIdent {
				return false
			}
		case "lit":
			want := actionlint.TokenKindString
			if strings.HasPrefix(t.name, "int:") {
				want = actionlint.TokenKindInt
			} else if strings.HasPrefix(t.name, "float:") {
				want = actionlint.TokenKindFloat
			}
			if g.Kind != want {
				return false
			}
		default:
			if exprKindOfTok[g.Kind] != t.class || g.Kind.String() != t.text {
				return false
			}
		}
	}
	return toks[len(toks)-1].Kind == actionlint.TokenKindEnd
}

// exprExec runs the real parser the way rule_expression.go does (text followed by the end marker).
func exprExec(classes []string, rot, variant int, ascii bool) (run ExprRun) {
	r, err := exprRender(classes, rot, variant, ascii)
	if err != nil {
		return ExprRun{Kind: "parse", Ts: classes, Panic: "render: " + err.Error(), Tree: exprNoTree(), Names: []string{}}
	}
	run = ExprRun{Kind: "parse", Ts: classes, Names: r.names, Tree: exprNoTree(), Off: -1, Text: r.text, Variant: variant, Rot: rot}
	if run.Ts == nil {
		run.Ts = []string{}
	}
	defer func() {
		if p := recover(); p != nil {
			run.Panic = fmt.Sprint(p)
			run.Ok = false
			run.Tree = exprNoTree()
		}
	}()
	run.LexOK = exprLexAgrees(r)
	idx := func(t *actionlint.Token) int {
		if t == nil {
			return 0
		}
		for i, o := range r.offsets {
			if o == t.Offset {
				return i + 1
			}
		}
		return 0
	}
	node, perr := actionlint.NewExprParser().Parse(actionlint.NewExprLexer(r.text + "}}"))
	if perr != nil {
		run.Msg = perr.Message
		run.Off = perr.Offset
		run.Inside = perr.Offset >= 0 && perr.Offset <= len(r.text)
		for i, o := range r.offsets {
			if o == perr.Offset {
				run.ErrAt = i + 1
			}
		}
		if perr.Offset == len(r.text) {
			run.ErrAt = len(classes) + 1
		}
		if node != nil {
			run.Panic = "Parse returned both a tree and an error"
		}
		return run
	}
	run.Ok = true
	run.Tree = exprProject(node, idx)
	return run
}

// specTree is a tree as ExprParser.tla writes it: [k, at, a].
type specTree struct {
	K  string      `json:"k"`
	At int         `json:"at"`
	A  []*specTree `json:"a"`
}

var exprTokKinds = map[string]bool{"var": true, "kw": true, "lit": true, "call": true, "not": true}
var exprNamedKinds = map[string]bool{"var": true, "kw": true, "lit": true, "call": true, "prop": true, "cmp": true}

// exprSameTree: is the real tree the projection of the predicted one?  (Pre-filter only: everything
// that is not "same" is judged by TLC.)
func exprSameTree(d *specTree, r *ExprTree, names []string) bool {
	if d == nil || r == nil || d.K != r.K || len(d.A) != len(r.A) {
		return false
	}
	if exprTokKinds[d.K] && r.At != d.At {
		return false
	}
	if !exprTokKinds[d.K] && r.At != 0 {
		return false
	}
	if exprNamedKinds[d.K] {
		if d.At < 1 || d.At > len(names) || names[d.At-1] != r.N {
			return false
		}
	} else if r.N != "" {
		return false
	}
	for i := range d.A {
		if !exprSameTree(d.A[i], r.A[i], names) {
			return false
		}
	}
	return true
}

// ------------------------------------------------------------------------------ lexer vectors

var exprCharReps = map[string][]string{
	"alpha":    {"g", "Z", "q", "X", "k", "W"},
	"hexalpha": {"a", "F", "c", "B", "d", "f"},
	"e":        {"e", "E"},
	"x":        {"x"},
	"zero":     {"0"},
	"nz":       {"1", "9", "5", "7"},
	"minus":    {"-"},
	"plus":     {"+"},
	"under":    {"_"},
	"dot":      {"."},
	"quote":    {"'"},
	"ws":       {" ", "\t", "\n", "\r"},
	"rbrace":   {"}"},
	"bang":     {"!"},
	"lt":       {"<"},
	"gt":       {">"},
	"eq":       {"="},
	"amp":      {"&"},
	"bar":      {"|"},
	"lp":       {"("},
	"rp":       {")"},
	"lb":       {"["},
	"rb":       {"]"},
	"star":     {"*"},
	"comma":    {","},
	"illegal":  {"?", "\"", "#", "{", "$", "/", "é", "\\", "~", "%", "^", ":", ";", "@", "\v", "\u00a0", "`", "あ"},
	"bad":      {"\x00", "\xff", "\xc3"},
	"dollar":   {"$"}, // members of `illegal` that the if: channel tells apart (the marks ${{ and {)
	"lbrace":   {"{"},
}

var exprLexKind = map[actionlint.TokenKind]string{
	actionlint.TokenKindEnd: "end", actionlint.TokenKindIdent: "ident", actionlint.TokenKindString: "string",
	actionlint.TokenKindInt: "int", actionlint.TokenKindFloat: "float",
	actionlint.TokenKindLeftParen: "lp", actionlint.TokenKindRightParen: "rp", actionlint.TokenKindLeftBracket: "lb",
	actionlint.TokenKindRightBracket: "rb", actionlint.TokenKindDot: "dot", actionlint.TokenKindNot: "not",
	actionlint.TokenKindLess: "lt", actionlint.TokenKindLessEq: "le", actionlint.TokenKindGreater: "gt",
	actionlint.TokenKindGreaterEq: "ge", actionlint.TokenKindEq: "eq", actionlint.TokenKindNotEq: "ne",
	actionlint.TokenKindAnd: "and", actionlint.TokenKindOr: "or", actionlint.TokenKindStar: "star",
	actionlint.TokenKindComma: "comma",
}

type ExprLexTok struct {
	K   string `json:"k"`
	Off int    `json:"off"`
}

// ExprLexRun is one execution of the real lexer (record kind "lex" of ExprTrace.tla).  Offsets are
// in characters of the class string.
type ExprLexRun struct {
	Kind  string       `json:"kind"`
	S     []string     `json:"s"`
	Toks  []ExprLexTok `json:"toks"`
	Err   bool         `json:"err"`
	Off   int          `json:"off"`
	Text  string       `json:"text"` // strconv.Quote form (may hold invalid UTF-8)
	Rot   int          `json:"rot"`
	Msg   string       `json:"msg"`
	Note  string       `json:"note,omitempty"` // observable could not be projected
	Panic string       `json:"panic,omitempty"`
}

func exprLexExec(classes []string, rot int) (run ExprLexRun) {
	run = ExprLexRun{Kind: "lex", S: classes, Toks: []ExprLexTok{}, Rot: rot}
	if run.S == nil {
		run.S = []string{}
	}
	var sb strings.Builder
	at := map[int]int{} // byte offset -> character index
	for i, c := range classes {
		reps, ok := exprCharReps[c]
		if !ok {
			run.Panic = "unknown character class " + c
			return run
		}
		at[sb.Len()] = i
		sb.WriteString(reps[(i*7+rot)%len(reps)])
	}
	at[sb.Len()] = len(classes)
	text := sb.String()
	run.Text = strconv.Quote(text)
	defer func() {
		if p := recover(); p != nil {
			run.Panic = fmt.Sprint(p)
		}
	}()
	conv := func(off int) int {
		if i, ok := at[off]; ok {
			return i
		}
		run.Note = fmt.Sprintf("offset %d is not a character boundary", off)
		return 0
	}
	l := actionlint.NewExprLexer(text)
	for n := 0; ; n++ {
		if n > 2*len(text)+4 {
			run.Panic = "lexer does not terminate"
			return run
		}
		t := l.Next()
		if e := l.Err(); e != nil {
			// a token that was completed before the position of the error still counts
			if t.Kind != actionlint.TokenKindEnd && t.Offset+len(t.Value) <= e.Offset {
				run.Toks = append(run.Toks, ExprLexTok{exprLexKind[t.Kind], conv(t.Offset)})
			}
			run.Err, run.Off, run.Msg = true, conv(e.Offset), e.Message
			break
		}
		k, ok := exprLexKind[t.Kind]
		if !ok {
			run.Note = fmt.Sprintf("token kind %d", int(t.Kind))
		}
		run.Toks = append(run.Toks, ExprLexTok{k, conv(t.Offset)})
		if t.Kind == actionlint.TokenKindEnd {
			break
		}
	}
	// LexExpression must tell the same story (relation between two real outputs)
	ts, _, e2 := actionlint.LexExpression(text)
	if (e2 != nil) != run.Err {
		run.Note = "LexExpression and ExprLexer.Next disagree about the error"
	} else if e2 != nil {
		if conv(e2.Offset) != run.Off {
			run.Note = "LexExpression and ExprLexer.Next disagree about the error offset"
		}
	} else if len(ts) != len(run.Toks) {
		run.Note = "LexExpression and ExprLexer.Next disagree about the tokens"
	}
	return run
}

// --------------------------------------------------------------------------- random long inputs

type exprGen struct {
	rng  *rand.Rand
	left int // rough budget of tokens still to spend
}

func (g *exprGen) coin(n int) bool { return g.left > 0 && g.rng.Intn(n) == 0 }

func (g *exprGen) name() string {
	if g.rng.Intn(6) == 0 {
		return "kw"
	}
	return "id"
}

func (g *exprGen) prim(d int) []string {
	g.left--
	switch c := g.rng.Intn(10); {
	case c < 2 || d <= 0 && c < 6:
		return []string{"id"}
	case c < 3:
		return []string{"kw"}
	case c < 5 || d <= 0:
		return []string{"lit"}
	case c < 8:
		out := []string{g.name(), "lp"}
		g.left -= 2
		for n := g.rng.Intn(4); n > 0; n-- {
			out = append(out, g.or(d-1)...)
			if n > 1 {
				out = append(out, "comma")
				g.left--
			}
		}
		return append(out, "rp")
	default:
		g.left -= 2
		return append(append([]string{"lp"}, g.or(d-1)...), "rp")
	}
}

func (g *exprGen) post(d int) []string {
	out := g.prim(d)
	for g.coin(2) {
		switch g.rng.Intn(4) {
		case 0:
			out = append(out, "dot", "star")
			g.left -= 2
		case 1:
			out = append(append(append(out, "lb"), g.or(d-1)...), "rb")
			g.left -= 2
		default:
			out = append(out, "dot", g.name())
			g.left -= 2
		}
	}
	return out
}

func (g *exprGen) pre(d int) []string {
	if g.coin(5) {
		g.left--
		return append([]string{"not"}, g.pre(d)...)
	}
	return g.post(d)
}

func (g *exprGen) cmp(d int) []string {
	out := g.pre(d)
	if g.coin(3) {
		g.left--
		out = append(append(out, "cmp"), g.cmp(d)...)
	}
	return out
}

func (g *exprGen) and(d int) []string {
	out := g.cmp(d)
	if g.coin(3) {
		g.left--
		out = append(append(out, "and"), g.and(d)...)
	}
	return out
}

func (g *exprGen) or(d int) []string {
	out := g.and(d)
	if g.coin(3) {
		g.left--
		out = append(append(out, "or"), g.or(d)...)
	}
	return out
}

// exprRandom: a sentence of the grammar (deep nesting, every operator mix) with 0..2 random edits,
// or now and then a completely random token string.
func exprRandom(rng *rand.Rand, lo, hi int) []string {
	for {
		var ts []string
		if rng.Intn(12) == 0 {
			n := lo + rng.Intn(hi-lo+1)
			for i := 0; i < n; i++ {
				ts = append(ts, exprClasses[rng.Intn(len(exprClasses))])
			}
			return ts
		}
		g := &exprGen{rng: rng, left: lo + rng.Intn(hi-lo+1)}
		ts = g.or(3 + rng.Intn(6))
		for g.left > 3 && len(ts) < hi { // spend the rest of the budget at the top level
			op := []string{"or", "and", "cmp"}[rng.Intn(3)]
			g.left--
			ts = append(append(ts, op), g.pre(2+rng.Intn(5))...)
		}
		edits := 0
		if rng.Intn(2) == 0 {
			edits = 1 + rng.Intn(2)
		}
		for ; edits > 0 && len(ts) > 1; edits-- {
			i := rng.Intn(len(ts))
			switch rng.Intn(5) {
			case 0: // delete
				ts = append(ts[:i:i], ts[i+1:]...)
			case 1: // insert
				ts = append(ts[:i:i], append([]string{exprClasses[rng.Intn(len(exprClasses))]}, ts[i:]...)...)
			case 2: // replace
				ts[i] = exprClasses[rng.Intn(len(exprClasses))]
			case 3: // swap neighbours
				if i+1 < len(ts) {
					ts[i], ts[i+1] = ts[i+1], ts[i]
				}
			default: // duplicate
				ts = append(ts[:i+1:i+1], ts[i:]...)
			}
		}
		if len(ts) >= lo && len(ts) <= hi {
			return ts
		}
	}
}

// exprLexRandom: a character-class string made of token-like fragments (numbers in all their forms,
// strings with escapes, identifiers, operators, white space) with 0..2 random edits; mostly followed
// by the end marker.
func exprLexRandom(rng *rand.Rand, lo, hi int) []string {
	pick := func(xs ...string) string { return xs[rng.Intn(len(xs))] }
	digits := func(n int) []string {
		var out []string
		for i := 0; i < n; i++ {
			out = append(out, pick("zero", "nz", "nz"))
		}
		return out
	}
	var all []string
	for c := range exprCharReps {
		all = append(all, c)
	}
	sortStrings(all)
	for {
		var s []string
		n := lo + rng.Intn(hi-lo+1)
		for len(s) < n {
			switch rng.Intn(9) {
			case 0: // identifier
				s = append(s, pick("alpha", "hexalpha", "e", "x", "under"))
				for k := rng.Intn(4); k > 0; k-- {
					s = append(s, pick("alpha", "hexalpha", "e", "x", "under", "minus", "zero", "nz"))
				}
			case 1, 2: // decimal number
				if rng.Intn(3) == 0 {
					s = append(s, "minus")
				}
				if rng.Intn(3) == 0 {
					s = append(s, "zero")
				} else {
					s = append(append(s, "nz"), digits(rng.Intn(3))...)
				}
				if rng.Intn(2) == 0 {
					s = append(append(s, "dot"), digits(1+rng.Intn(2))...)
				}
				if rng.Intn(2) == 0 {
					s = append(s, "e")
					if rng.Intn(2) == 0 {
						s = append(s, pick("minus", "minus", "plus"))
					}
					s = append(s, digits(1+rng.Intn(2))...)
				}
			case 3: // hex
				s = append(s, "zero", "x")
				for k := 1 + rng.Intn(3); k > 0; k-- {
					s = append(s, pick("zero", "nz", "hexalpha", "e"))
				}
			case 4: // string
				s = append(s, "quote")
				for k := rng.Intn(5); k > 0; k-- {
					if rng.Intn(3) == 0 {
						s = append(s, "quote", "quote")
					} else {
						s = append(s, pick("alpha", "ws", "rbrace", "illegal", "dot", "nz", "lp", "amp"))
					}
				}
				s = append(s, "quote")
			case 5: // operator
				switch rng.Intn(8) {
				case 0:
					s = append(s, "bang", "eq")
				case 1:
					s = append(s, pick("lt", "gt"), "eq")
				case 2:
					s = append(s, "eq", "eq")
				case 3:
					s = append(s, "amp", "amp")
				case 4:
					s = append(s, "bar", "bar")
				default:
					s = append(s, pick("bang", "lt", "gt", "lp", "rp", "lb", "rb", "dot", "star", "comma"))
				}
			case 6:
				s = append(s, "ws")
			default:
				s = append(s, all[rng.Intn(len(all))])
			}
		}
		for edits := rng.Intn(3); edits > 0 && len(s) > 1; edits-- {
			i := rng.Intn(len(s))
			switch rng.Intn(3) {
			case 0:
				s = append(s[:i:i], s[i+1:]...)
			case 1:
				s[i] = all[rng.Intn(len(all))]
			default:
				s = append(s[:i:i], append([]string{all[rng.Intn(len(all))]}, s[i:]...)...)
			}
		}
		if len(s) > hi {
			continue
		}
		if rng.Intn(5) != 0 {
			s = append(s, "rbrace", "rbrace")
		}
		return s
	}
}

// ----------------------------------------------------------------------------------- lint level

var exprSyntaxAnchors = []string{
	"got unexpected ", "unexpected EOF while lexing", "scan error while lexing expression",
	"unexpected token ", "unexpected end of input while parsing", "parser did not reach end of input",
	"parsing invalid integer literal", "parsing invalid float literal",
	"unexpected \"}}\" in \"if\" condition", // checkIfCondition (fix 4175e16)
}

func exprIsSyntaxMsg(m string) bool {
	for _, a := range exprSyntaxAnchors {
		if strings.HasPrefix(m, a) {
			return true
		}
	}
	return false
}

// ExprLintSite is one embedding of the text into a workflow and what Linter.Lint said about it.
type ExprLintSite struct {
	Site    string `json:"site"` // "placeholder" | "if"
	Src     string `json:"src"`
	Line    int    `json:"line"`
	ColFrom int    `json:"colFrom"` // first column of the placeholder (the `$` of ${{ / the opening quote of the if: value)
	ColTo   int    `json:"colTo"`   // last column of the placeholder (the last `}` / the closing quote)
	Expr    []Diag `json:"expr"`    // diagnostics of kind "expression"
	Syntax  []Diag `json:"syntax"`  // those of them that are syntax errors of the lexer/parser
	Other   []Diag `json:"other"`   // diagnostics of any other kind (the embedding must be clean)
	LintErr string `json:"lintErr,omitempty"`
}

type ExprLintOut struct {
	ID     int            `json:"id"`
	Ts     []string       `json:"ts"`
	Text   string         `json:"text"`
	APIOk  bool           `json:"apiOk"`
	APIMsg string         `json:"apiMsg"`
	Sites  []ExprLintSite `json:"sites"`
}

func exprLintSite(site, head, line, tail string, lineNo, from, to int) ExprLintSite {
	s := ExprLintSite{Site: site, Src: head + line + "\n" + tail, Line: lineNo, ColFrom: from, ColTo: to,
		Expr: []Diag{}, Syntax: []Diag{}, Other: []Diag{}}
	ds, err := lintSrc(s.Src)
	if err != nil {
		s.LintErr = err.Error()
		return s
	}
	for _, d := range ds {
		if d.Kind != "expression" {
			s.Other = append(s.Other, d)
			continue
		}
		s.Expr = append(s.Expr, d)
		if exprIsSyntaxMsg(d.Msg) {
			s.Syntax = append(s.Syntax, d)
		}
	}
	return s
}

func exprLint(id int, classes []string, rot, variant int) ExprLintOut {
	if variant == 2 {
		variant = 1 // single-line embeddings only (positions of multi-line scalars belong to C07)
	}
	r, err := exprRender(classes, rot, variant, true)
	if err != nil {
		return ExprLintOut{ID: id, Ts: classes, APIMsg: "render: " + err.Error()}
	}
	out := ExprLintOut{ID: id, Ts: classes, Text: r.text}
	_, perr := actionlint.NewExprParser().Parse(actionlint.NewExprLexer(r.text + "}}"))
	out.APIOk = perr == nil
	if perr != nil {
		out.APIMsg = perr.Message
	}
	const head = "on: push\njobs:\n  test:\n    runs-on: ubuntu-latest\n    steps:\n      - run: echo\n"
	pad := " "
	if variant == 0 {
		pad = ""
	}
	// (1) inside ${{ }} in a double-quoted scalar (the text holds neither `"` nor `\`)
	pre := "        env:\n"
	l1 := "          X: \"${{" + pad + r.text + pad + "}}\""
	from := strings.Index(l1, "${{") + 1
	to := strings.LastIndex(l1, "}}") + 2
	out.Sites = append(out.Sites, exprLintSite("placeholder", head+pre, l1, "", 8, from, to))
	// (2) as a bare if: condition
	if r.text != "" {
		l2 := "        if: \"" + r.text + "\""
		from2 := strings.Index(l2, "\"") + 1
		out.Sites = append(out.Sites, exprLintSite("if", head, l2, "", 7, from2, len(l2)))
	}
	return out
}

// ------------------------------------------------------------------------------------ if: channel

// ExprIfRun is what Linter.Lint says about one rendering of a character-class string as the value of an
// if: key (record kind "if" of ExprTrace.tla).
type ExprIfRun struct {
	Kind    string   `json:"kind"`
	S       []string `json:"s"`
	Text    string   `json:"text"`
	Level   string   `json:"level"` // "job" | "step"
	Style   string   `json:"style"` // "plain" | "single" | "double"
	Rot     int      `json:"rot"`
	NSyntax int      `json:"nsyntax"` // syntax diagnostics of the lexer/parser/if-condition check
	NExpr   int      `json:"nexpr"`   // all diagnostics of the expression rule
	Inside  bool     `json:"inside"`  // every syntax diagnostic lies on the line of the value, between its first character and the end of the lexer's input
	Off     int      `json:"off"`     // offset (in characters of S) of the first syntax diagnostic, 0 if none / not at a character
	Msgs    []string `json:"msgs"`
	Other   []Diag   `json:"other"` // diagnostics of other rules except if-cond (the embedding must be clean)
	LintErr string   `json:"lintErr,omitempty"`
	Src     string   `json:"src"`
}

// exprPlainOK: does YAML read `text` written as a plain scalar after `key: ` as exactly that string?
func exprPlainOK(text string) bool {
	if text == "" || strings.ContainsAny(text, "\n\r\t\x00") {
		return false
	}
	var doc yaml.Node
	if err := yaml.Unmarshal([]byte("k: "+text+"\n"), &doc); err != nil {
		return false
	}
	if doc.Kind != yaml.DocumentNode || len(doc.Content) != 1 {
		return false
	}
	m := doc.Content[0]
	if m.Kind != yaml.MappingNode || len(m.Content) != 2 {
		return false
	}
	n := m.Content[1]
	return n.Kind == yaml.ScalarNode && n.Style == 0 && n.Value == text && n.Anchor == "" && n.Alias == nil &&
		n.HeadComment == "" && n.LineComment == "" && n.FootComment == "" && m.Content[0].Value == "k"
}

// exprIfExec renders the classes (ws is always a blank, see C07 for multi-line scalars) and lints the
// value as a bare if: at job and step level in every YAML style that can carry it unchanged.
func exprIfExec(classes []string, rot int, only string) []ExprIfRun {
	var sb strings.Builder
	for i, c := range classes {
		reps := exprCharReps[c]
		switch { // every class is written as exactly one character
		case c == "ws":
			sb.WriteString(" ")
		case c == "illegal": // characters every YAML style can carry; ASCII only (columns of non-ASCII text belong to C07)
			safe := []string{"?", "#", "/", "~", "%", "^", ":", ";", "@"}
			sb.WriteString(safe[(i*7+rot)%len(safe)])
		case len(reps) == 0:
			sb.WriteString("?")
		default:
			sb.WriteString(reps[(i*7+rot)%len(reps)])
		}
	}
	text := sb.String()
	if classes == nil {
		classes = []string{}
	}
	type styleT struct{ name, scalar string }
	var styles []styleT
	if exprPlainOK(text) {
		styles = append(styles, styleT{"plain", text})
	}
	if !strings.ContainsAny(text, "\x00\n\r\t") {
		styles = append(styles, styleT{"single", "'" + strings.ReplaceAll(text, "'", "''") + "'"})
	}
	if !strings.ContainsAny(text, "\"\\\x00\n\r\t") {
		styles = append(styles, styleT{"double", "\"" + text + "\""})
	}
	levels := []struct {
		name, head, prefix, tail string
		line                     int
	}{
		{"job", "on: push\njobs:\n  test:\n", "    if: ", "    runs-on: ubuntu-latest\n    steps:\n      - run: echo\n", 4},
		{"step", "on: push\njobs:\n  test:\n    runs-on: ubuntu-latest\n    steps:\n      - run: echo\n", "        if: ", "", 7},
	}
	var out []ExprIfRun
	for _, lv := range levels {
		for _, st := range styles {
			if only != "" && only != lv.name+"/"+st.name {
				continue
			}
			run := ExprIfRun{Kind: "if", S: classes, Text: text, Level: lv.name, Style: st.name, Rot: rot, Inside: true,
				Msgs: []string{}, Other: []Diag{}}
			run.Src = lv.head + lv.prefix + st.scalar + "\n" + lv.tail
			first := len(lv.prefix) + 1 // column of the first character of the value
			if st.name != "plain" {
				first++
			}
			ds, err := lintSrc(run.Src)
			if err != nil {
				run.LintErr = err.Error()
				out = append(out, run)
				continue
			}
			for _, d := range ds {
				if d.Kind != "expression" {
					if d.Kind != "if-cond" {
						run.Other = append(run.Other, d)
					}
					continue
				}
				run.NExpr++
				if !exprIsSyntaxMsg(d.Msg) {
					continue
				}
				run.NSyntax++
				run.Msgs = append(run.Msgs, d.Msg)
				// text/scanner counts columns in characters and every class is one character, so the column of
				// the diagnostic relative to the first character of the value is an offset in S (the quoted
				// forms only ever make the source longer than the value)
				off := d.Col - first
				if d.Line != lv.line || off < 0 || off > len(classes)+2 {
					run.Inside = false
				} else if run.NSyntax == 1 {
					run.Off = off
				}
			}
			out = append(out, run)
		}
	}
	return out
}

// exprLiteralsInRange: no run of digits longer than 2 and no run of hex digits longer than 6, so that every
// number that can be read out of the string fits 32 bits / float64 (out-of-range literals are rejected by design).
func exprLiteralsInRange(s []string) bool {
	dig, hex := 0, 0
	for _, c := range s {
		switch c {
		case "zero", "nz":
			dig++
			hex++
		case "hexalpha", "e":
			dig = 0
			hex++
		default:
			dig, hex = 0, 0
		}
		if dig > 2 || hex > 6 {
			return false
		}
	}
	return true
}

// ------------------------------------------------------------------------------------ commands

type exprVecIn struct {
	ID  int      `json:"id"`
	Ts  []string `json:"ts"`
	Rot *int     `json:"rot,omitempty"`
	Var *int     `json:"variant,omitempty"`
}

type exprVecOut struct {
	ID   int       `json:"id"`
	Runs []ExprRun `json:"runs"`
}

type exprAcc struct {
	Ts   []string  `json:"ts"`
	Tree *specTree `json:"tree"`
}

type exprLexIn struct {
	ID  int      `json:"id"`
	S   []string `json:"s"`
	Rot *int     `json:"rot,omitempty"`
}

type exprLexOut struct {
	ID   int          `json:"id"`
	Runs []ExprLexRun `json:"runs"`
}

func init() {
	watchdog := func() { time.AfterFunc(25*time.Minute, func() { fmt.Fprintln(os.Stderr, "harness: watchdog"); os.Exit(3) }) }

	// expr-parse-vectors <in.jsonl> <out.jsonl>: {id, ts[, rot, variant]} -> the real parser's runs on the
	// three white-space renderings (or the one asked for)
	register("expr-parse-vectors", func(args []string) error {
		watchdog()
		in, err := readJSONL[exprVecIn](args[0])
		if err != nil {
			return err
		}
		out := parallelMap(in, func(v exprVecIn) exprVecOut {
			o := exprVecOut{ID: v.ID}
			if v.Var != nil && v.Rot != nil {
				o.Runs = []ExprRun{exprExec(v.Ts, *v.Rot, *v.Var, false)}
				return o
			}
			for variant := 0; variant < 3; variant++ {
				o.Runs = append(o.Runs, exprExec(v.Ts, v.ID*3+variant, variant, false))
			}
			return o
		})
		return writeJSONL(args[1], out)
	})

	// expr-parse-enum <accepted.jsonl> <N> <out.jsonl>: every token string up to length N over the 14 classes,
	// three renderings each, compared with the sentence table printed by TLC.  Writes the runs that are
	// not exactly as predicted, then one summary line.
	register("expr-parse-enum", func(args []string) error {
		watchdog()
		accs, err := readJSONL[exprAcc](args[0])
		if err != nil {
			return err
		}
		maxN, _ := strconv.Atoi(args[1])
		table := make(map[string]*specTree, len(accs))
		for _, a := range accs {
			table[strings.Join(a.Ts, " ")] = a.Tree
		}
		type shard struct{ first, second int }
		var shards []shard
		k := len(exprClasses)
		for a := 0; a < k; a++ {
			for b := 0; b < k; b++ {
				shards = append(shards, shard{a, b})
			}
		}
		type res struct {
			bad                      []ExprRun
			strings, runs, acc, seen int
		}
		work := func(s shard) res {
			var r res
			check := func(ts []string, id int) {
				r.strings++
				want, inTable := table[strings.Join(ts, " ")]
				if inTable {
					r.seen++
				}
				for variant := 0; variant < 3; variant++ {
					run := exprExec(append([]string{}, ts...), id+variant, variant, false)
					r.runs++
					good := run.Panic == "" && run.LexOK && run.Ok == inTable
					if good && run.Ok {
						r.acc++
						good = exprSameTree(want, run.Tree, run.Names)
					} else if good {
						good = run.ErrAt >= 1 && run.ErrAt <= len(ts)+1 && run.Inside
					}
					if !good && len(r.bad) < 2000 {
						r.bad = append(r.bad, run)
					}
				}
			}
			// strings of length >= 2 starting with (first, second); the short ones are done by shard (0,0)
			if s.first == 0 && s.second == 0 {
				check([]string{}, 0)
				for a := 0; a < k; a++ {
					check([]string{exprClasses[a]}, a)
				}
			}
			if maxN < 2 {
				return r
			}
			var rec func(ts []string, id int)
			rec = func(ts []string, id int) {
				check(ts, id)
				if len(ts) >= maxN {
					return
				}
				for c := 0; c < k; c++ {
					rec(append(ts, exprClasses[c]), id*k+c+1)
				}
			}
			rec([]string{exprClasses[s.first], exprClasses[s.second]}, s.first*k+s.second)
			return r
		}
		results := parallelMap(shards, work)
		var bad []ExprRun
		total := map[string]int{}
		for _, r := range results {
			bad = append(bad, r.bad...)
			total["strings"] += r.strings
			total["runs"] += r.runs
			total["accepted_runs"] += r.acc
			total["table_entries_met"] += r.seen
		}
		total["table_entries"] = len(table)
		total["differing"] = len(bad)
		type outT struct {
			Summary map[string]int `json:"summary,omitempty"`
			Run     *ExprRun       `json:"run,omitempty"`
		}
		lines := make([]outT, 0, len(bad)+1)
		for i := range bad {
			lines = append(lines, outT{Run: &bad[i]})
		}
		lines = append(lines, outT{Summary: total})
		return writeJSONL(args[2], lines)
	})

	// expr-lex-vectors <in.jsonl> <out.jsonl> <rotations>: {id, s[, rot]} -> the real lexer's runs
	register("expr-lex-vectors", func(args []string) error {
		watchdog()
		in, err := readJSONL[exprLexIn](args[0])
		if err != nil {
			return err
		}
		rots, _ := strconv.Atoi(args[2])
		out := parallelMap(in, func(v exprLexIn) exprLexOut {
			o := exprLexOut{ID: v.ID}
			if v.Rot != nil {
				o.Runs = []ExprLexRun{exprLexExec(v.S, *v.Rot)}
				return o
			}
			for i := 0; i < rots; i++ {
				o.Runs = append(o.Runs, exprLexExec(v.S, v.ID+i*5))
			}
			return o
		})
		return writeJSONL(args[1], out)
	})

	// expr-lint <in.jsonl> <out.jsonl>: {id, ts[, rot, variant]} -> Linter.Lint on the text inside ${{ }} and as if:
	register("expr-lint", func(args []string) error {
		watchdog()
		in, err := readJSONL[exprVecIn](args[0])
		if err != nil {
			return err
		}
		out := parallelMap(in, func(v exprVecIn) ExprLintOut {
			rot, variant := v.ID, v.ID%2
			if v.Rot != nil {
				rot = *v.Rot
			}
			if v.Var != nil {
				variant = *v.Var
			}
			return exprLint(v.ID, v.Ts, rot, variant)
		})
		return writeJSONL(args[1], out)
	})

	// expr-if <in.jsonl> <out.jsonl>: {id, s[, rot, only]} -> Linter.Lint on the value as a bare if: condition
	register("expr-if", func(args []string) error {
		watchdog()
		type inT struct {
			ID   int      `json:"id"`
			S    []string `json:"s"`
			Rot  *int     `json:"rot,omitempty"`
			Only string   `json:"only,omitempty"`
		}
		type outT struct {
			ID   int         `json:"id"`
			Runs []ExprIfRun `json:"runs"`
		}
		in, err := readJSONL[inT](args[0])
		if err != nil {
			return err
		}
		out := parallelMap(in, func(v inT) outT {
			rot := v.ID
			if v.Rot != nil {
				rot = *v.Rot
			}
			return outT{v.ID, exprIfExec(v.S, rot, v.Only)}
		})
		return writeJSONL(args[1], out)
	})

	// expr-if-random <n> <minlen> <maxlen> <seed> <out.ndjson>: random longer if: values (token-like fragments with
	// open / close marks dropped in), one rendering each
	register("expr-if-random", func(args []string) error {
		watchdog()
		n, _ := strconv.Atoi(args[0])
		lo, _ := strconv.Atoi(args[1])
		hi, _ := strconv.Atoi(args[2])
		seed, _ := strconv.ParseInt(args[3], 10, 64)
		rng := rand.New(rand.NewSource(seed))
		type job struct {
			s         []string
			rot, pick int
		}
		insert := func(s []string, at int, what ...string) []string {
			return append(s[:at:at], append(append([]string{}, what...), s[at:]...)...)
		}
		jobs := make([]job, n)
		for i := 0; i < n; {
			s := exprLexRandom(rng, lo, hi)
			if rng.Intn(2) == 0 && len(s) >= 2 && s[len(s)-1] == "rbrace" && s[len(s)-2] == "rbrace" {
				s = s[:len(s)-2] // the generator for the lexer mostly closes its strings
			}
			for k := range s {
				if s[k] == "bad" {
					s[k] = "illegal"
				}
			}
			if rng.Intn(3) == 0 {
				s = insert(s, rng.Intn(len(s)+1), "dollar", "lbrace", "lbrace")
			}
			if rng.Intn(3) == 0 {
				s = insert(s, rng.Intn(len(s)+1), "rbrace", "rbrace")
			}
			if rng.Intn(6) == 0 {
				s = insert(s, rng.Intn(len(s)+1), []string{"rbrace", "lbrace", "dollar"}[rng.Intn(3)])
			}
			if !exprLiteralsInRange(s) {
				continue
			}
			jobs[i] = job{s, rng.Intn(1000), rng.Intn(6)}
			i++
		}
		recs := parallelMap(jobs, func(j job) *ExprIfRun {
			runs := exprIfExec(j.s, j.rot, "")
			if len(runs) == 0 {
				return nil
			}
			return &runs[j.pick%len(runs)]
		})
		out := make([]ExprIfRun, 0, len(recs))
		for _, r := range recs {
			if r != nil && len(r.S) > 0 {
				out = append(out, *r)
			}
		}
		return writeJSONL(args[4], out)
	})

	// expr-lex-random <n> <minlen> <maxlen> <seed> <out.ndjson>: random longer character strings on the real lexer
	register("expr-lex-random", func(args []string) error {
		watchdog()
		n, _ := strconv.Atoi(args[0])
		lo, _ := strconv.Atoi(args[1])
		hi, _ := strconv.Atoi(args[2])
		seed, _ := strconv.ParseInt(args[3], 10, 64)
		rng := rand.New(rand.NewSource(seed))
		type job struct {
			s   []string
			rot int
		}
		jobs := make([]job, n)
		for i := range jobs {
			jobs[i] = job{exprLexRandom(rng, lo, hi), rng.Intn(1000)}
		}
		recs := parallelMap(jobs, func(j job) ExprLexRun { return exprLexExec(j.s, j.rot) })
		return writeJSONL(args[4], recs)
	})

	// expr-random <n> <minlen> <maxlen> <seed> <out.ndjson>: the recorder for ExprTrace.tla
	register("expr-random", func(args []string) error {
		watchdog()
		n, _ := strconv.Atoi(args[0])
		lo, _ := strconv.Atoi(args[1])
		hi, _ := strconv.Atoi(args[2])
		seed, _ := strconv.ParseInt(args[3], 10, 64)
		rng := rand.New(rand.NewSource(seed))
		type job struct {
			ts           []string
			rot, variant int
		}
		jobs := make([]job, n)
		for i := range jobs {
			jobs[i] = job{exprRandom(rng, lo, hi), rng.Intn(1000), rng.Intn(3)}
		}
		recs := parallelMap(jobs, func(j job) ExprRun { return exprExec(j.ts, j.rot, j.variant, false) })
		return writeJSONL(args[4], recs)
	})
}
