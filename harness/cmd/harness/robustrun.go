package main

// C01 (part 2): running concrete inputs in CHILD PROCESSES, bisection of failing batches, the
// seeded byte-level driver, the placeholder-scan vectors and the stand-in tools.
//
//	robust-child                         worker: cases (JSON lines) on stdin -> one record per case on stdout.
//	                                     Every case runs actionlint.Command.Main in this process on a scratch
//	                                     repository; a Go panic / fatal error therefore kills the worker, which
//	                                     is what the parent looks for.  A watchdog dumps all goroutines and
//	                                     exits 97 when one case exceeds the per-input limit.
//	robust-run <export> <vecs> <out>     materialise TLC vectors (robust.go) and run them
//	robust-cases <cases> <out>           run ready-made cases (regression inputs, large scripts, replay)
//	robust-fuzz <export> <out> <n> <chans> <repo>   seeded byte-level driver (binding T)
//	robust-scan <vecs> <out>             strings of spec/RobustScan.tla through the real linter
//	robust-tool sc|py                    stand-in for shellcheck / pyflakes: reads all of stdin, reports nothing
//
// A batch whose worker dies or stalls names the first case without a record; that case is re-run
// ALONE three times; only if it fails every time is it reported as confirmed (confirmed = 3).
// If it does not fail alone the batch prefix is bisected (state carried between inputs).

import (
	"bufio"
	"bytes"
	"crypto/sha1"
	"encoding/hex"
	"encoding/json"
	"fmt"
	"io"
	"math/rand"
	"os"
	"os/exec"
	"path/filepath"
	"regexp"
	"runtime"
	"sort"
	"strconv"
	"strings"
	"sync"
	"sync/atomic"
	"syscall"
	"time"

	"github.com/rhysd/actionlint"
)

const rbDefaultLimitMs = 2000

// second stage for inputs that exceed the limit three times: terminates within this bound = slow, not hanging
const rbSlowLimitMs = 240000

func rbLimitMs() int {
	if s := os.Getenv("VERIF_C01_LIMIT_MS"); s != "" {
		if n, err := strconv.Atoi(s); err == nil && n > 0 {
			return n
		}
	}
	return rbDefaultLimitMs
}

type rbRec struct {
	ID      int    `json:"id"`
	Chan    string `json:"c"`
	Outcome string `json:"o"` // clean | diag | fatal | exit:<n> | panic | crash | hang
	Exit    int    `json:"exit"`
	Ms      int    `json:"ms"`
	Hash    string `json:"h"`
	// only for failures
	Confirmed int      `json:"confirmed,omitempty"` // how many of 3 runs ALONE failed the same way
	Stderr    string   `json:"stderr,omitempty"`
	Case      *rbCase  `json:"case,omitempty"`
	Err       string   `json:"err,omitempty"` // vector could not be materialised
	Src       string   `json:"src,omitempty"`
	Alone     []string `json:"alone,omitempty"`
}

func rbHash(c *rbCase) string {
	h := sha1.New()
	names := make([]string, 0, len(c.Files))
	for n := range c.Files {
		names = append(names, n)
	}
	sort.Strings(names)
	for _, n := range names {
		io.WriteString(h, n)
		h.Write([]byte{0})
		h.Write(c.Files[n])
		h.Write([]byte{0})
	}
	outs := make([]string, 0, len(c.Out))
	for n := range c.Out {
		outs = append(outs, n)
	}
	sort.Strings(outs)
	for _, n := range outs {
		io.WriteString(h, "out:"+n)
		h.Write([]byte{0})
		h.Write(c.Out[n])
		h.Write([]byte{0})
	}
	io.WriteString(h, strings.Join(c.Args, "\x00"))
	return hex.EncodeToString(h.Sum(nil)[:8])
}

// ---------------------------------------------------------------------------------------- child

func rbOutcomeOfExit(code int) string {
	switch code {
	case 0:
		return "clean"
	case 1:
		return "diag"
	case 3:
		return "fatal"
	}
	return "exit:" + strconv.Itoa(code)
}

func rbChildMain(args []string) error {
	self, _ := os.Executable()
	base, err := os.MkdirTemp("", "rbchild-")
	if err != nil {
		return err
	}
	defer os.RemoveAll(base)
	limit := time.Duration(rbLimitMs()) * time.Millisecond
	var cur atomic.Int64
	var curStart atomic.Int64
	cur.Store(-1)
	go func() {
		for {
			time.Sleep(50 * time.Millisecond)
			if id := cur.Load(); id >= 0 && time.Duration(time.Now().UnixNano()-curStart.Load()) > limit {
				buf := make([]byte, 1<<20)
				n := runtime.Stack(buf, true)
				fmt.Fprintf(os.Stderr, "HANG id=%d after %v\n%s\n", id, limit, buf[:n])
				os.RemoveAll(base)
				os.Exit(97)
			}
		}
	}()
	root := filepath.Join(base, "repo")
	if err := os.MkdirAll(filepath.Join(root, ".git"), 0o755); err != nil {
		return err
	}
	if err := os.MkdirAll(filepath.Join(root, ".github", "workflows"), 0o755); err != nil {
		return err
	}
	present := map[string]bool{}
	dirs := map[string]bool{}
	outDir := filepath.Join(base, "outside") // no .git and no .github/workflows above it: not a project
	outPresent := map[string]bool{}
	in := bufio.NewReaderSize(os.Stdin, 1<<20)
	dec := json.NewDecoder(in)
	out := bufio.NewWriter(os.Stdout)
	enc := json.NewEncoder(out)
	n := 0
	for {
		var c rbCase
		if err := dec.Decode(&c); err == io.EOF {
			break
		} else if err != nil {
			return err
		}
		n++
		// one scratch repository per worker: files of the previous case that this case does not have are removed
		for rel := range present {
			if _, ok := c.Files[rel]; !ok {
				os.Remove(filepath.Join(root, filepath.FromSlash(rel)))
				delete(present, rel)
			}
		}
		for rel, b := range c.Files {
			p := filepath.Join(root, filepath.FromSlash(rel))
			if d := filepath.Dir(p); !dirs[d] {
				if err := os.MkdirAll(d, 0o755); err != nil {
					return err
				}
				dirs[d] = true
			}
			if err := os.WriteFile(p, b, 0o644); err != nil {
				return err
			}
			present[rel] = true
		}
		for rel := range outPresent {
			if _, ok := c.Out[rel]; !ok {
				os.Remove(filepath.Join(outDir, filepath.FromSlash(rel)))
				delete(outPresent, rel)
			}
		}
		for rel, b := range c.Out {
			p := filepath.Join(outDir, filepath.FromSlash(rel))
			if err := os.MkdirAll(filepath.Dir(p), 0o755); err != nil {
				return err
			}
			if err := os.WriteFile(p, b, 0o644); err != nil {
				return err
			}
			outPresent[rel] = true
		}
		argv := []string{"actionlint"}
		for _, a := range c.Args {
			a = strings.ReplaceAll(a, "{OUT}", outDir)
			a = strings.ReplaceAll(a, "{ROOT}", root)
			a = strings.ReplaceAll(a, "{SELF}", self)
			argv = append(argv, a)
		}
		var so, se bytes.Buffer
		cmd := actionlint.Command{Stdin: strings.NewReader(""), Stdout: &so, Stderr: &se}
		curStart.Store(time.Now().UnixNano())
		cur.Store(int64(c.ID))
		t0 := time.Now()
		code := cmd.Main(argv) // a panic here must kill this process: no recover
		ms := int(time.Since(t0) / time.Millisecond)
		cur.Store(-1)
		rec := rbRec{ID: c.ID, Chan: c.Chan, Outcome: rbOutcomeOfExit(code), Exit: code, Ms: ms}
		if code != 0 && code != 1 {
			rec.Stderr = rbClip(se.String(), 600)
		}
		if err := enc.Encode(&rec); err != nil {
			return err
		}
		out.Flush()
	}
	return nil
}

// --------------------------------------------------------------------------------------- parent

type rbBatchResult struct {
	recs    []rbRec // records of the cases that completed, in order
	failed  bool
	outcome string // panic | crash | hang
	stderr  string
}

var rbPanicRe = regexp.MustCompile(`(?m)^(panic: |fatal error: |goroutine \d+ \[)`)

// rbRunBatch runs the cases sequentially in ONE child process.
func rbRunBatch(self string, cases []*rbCase) rbBatchResult {
	return rbRunBatchLimit(self, cases, rbLimitMs())
}

func rbRunBatchLimit(self string, cases []*rbCase, limitMs int) rbBatchResult {
	var res rbBatchResult
	limit := time.Duration(limitMs) * time.Millisecond
	cmd := exec.Command(self, "robust-child")
	cmd.Env = append(os.Environ(), "VERIF_C01_LIMIT_MS="+strconv.Itoa(limitMs))
	var in bytes.Buffer
	enc := json.NewEncoder(&in)
	for _, c := range cases {
		enc.Encode(c)
	}
	cmd.Stdin = &in
	var se bytes.Buffer
	cmd.Stderr = &se
	so, err := cmd.StdoutPipe()
	if err != nil {
		res.failed, res.outcome, res.stderr = true, "crash", "harness: "+err.Error()
		return res
	}
	if err := cmd.Start(); err != nil {
		res.failed, res.outcome, res.stderr = true, "crash", "harness: "+err.Error()
		return res
	}
	lines := make(chan []byte, 64)
	go func() {
		r := bufio.NewReaderSize(so, 1<<16)
		for {
			l, err := r.ReadBytes('\n')
			if len(l) > 0 {
				lines <- l
			}
			if err != nil {
				close(lines)
				return
			}
		}
	}()
	// backup deadline per input, in case the watchdog of the child is itself stuck
	stall := limit + 5*time.Second
	timer := time.NewTimer(stall + 5*time.Second)
	killed := false
loop:
	for {
		select {
		case l, ok := <-lines:
			if !ok {
				break loop
			}
			var r rbRec
			if json.Unmarshal(l, &r) == nil {
				res.recs = append(res.recs, r)
			}
			if !timer.Stop() {
				select {
				case <-timer.C:
				default:
				}
			}
			timer.Reset(stall)
		case <-timer.C:
			killed = true
			cmd.Process.Kill()
			break loop
		}
	}
	werr := cmd.Wait()
	for range lines {
	}
	if len(res.recs) == len(cases) && werr == nil && !killed {
		return res
	}
	res.failed = true
	res.stderr = se.String()
	switch {
	case killed:
		res.outcome = "hang"
		res.stderr = "worker killed by the parent: no record within " + stall.String() + "\n" + res.stderr
	case strings.Contains(res.stderr, "HANG id="):
		res.outcome = "hang"
	case rbPanicRe.MatchString(res.stderr):
		res.outcome = "panic"
	default:
		res.outcome = "crash"
		if ee, ok := werr.(*exec.ExitError); ok {
			if ws, ok := ee.Sys().(syscall.WaitStatus); ok && ws.Signaled() {
				res.stderr = "worker terminated by signal " + ws.Signal().String() + "\n" + res.stderr
			} else {
				res.stderr = "worker exit status " + strconv.Itoa(ee.ExitCode()) + "\n" + res.stderr
			}
		}
	}
	return res
}

// rbIsolate finds the single failing case of a batch whose last element is the first case without
// a record, and re-runs it alone three times.
func rbIsolate(self string, prefix []*rbCase, first rbBatchResult) rbRec {
	cand := prefix[len(prefix)-1]
	try := func(c *rbCase) (int, []string, string) {
		n := 0
		var how []string
		st := ""
		for k := 0; k < 3; k++ {
			r := rbRunBatch(self, []*rbCase{c})
			if r.failed {
				n++
				how = append(how, r.outcome)
				if st == "" {
					st = r.stderr
				}
			} else {
				how = append(how, r.recs[0].Outcome+" in "+strconv.Itoa(r.recs[0].Ms)+" ms")
			}
		}
		return n, how, st
	}
	n, how, st := try(cand)
	if n == 0 && len(prefix) > 1 {
		// does not fail alone: bisect the prefix (the failure needs state left by earlier inputs)
		set := prefix
		for len(set) > 1 {
			h := len(set) / 2
			if rbRunBatch(self, set[:h]).failed {
				set = set[:h]
			} else if rbRunBatch(self, set[h:]).failed {
				set = set[h:]
			} else {
				break
			}
		}
		if len(set) == 1 && set[0] != cand {
			cand = set[0]
			n, how, st = try(cand)
		}
	}
	if st == "" {
		st = first.stderr
	}
	rec := rbRec{ID: cand.ID, Chan: cand.Chan, Outcome: first.outcome, Exit: -1, Ms: -1, Hash: rbHash(cand), Confirmed: n,
		Stderr: rbClip(st, 6000), Case: cand, Alone: how}
	if n == 3 && first.outcome == "hang" {
		rbClassifyHang(self, cand, &rec)
	}
	return rec
}

// Does an input that exceeds the limit terminate at all?  One more run with a generous limit: an input
// that is only slow is reported as "slow" (with its time), not as a hang.  Inputs that do NOT terminate and
// are stuck in the same code (a common non-generic actionlint frame on the stack) share one classification.
var (
	rbHangMu    sync.Mutex
	rbHangKnown []*rbHangClass
	rbGoroutine = regexp.MustCompile(`(?m)^goroutine \d+ \[([^\],]*)`)
	rbFrameRe   = regexp.MustCompile(`(?m)^(github\.com/rhysd/actionlint\.[^\s(]*(?:\([^)]*\))?[^\s(]*)\(`)
	rbGenericRe = regexp.MustCompile(`\*Linter\)|\*Visitor\)|\*Command\)|\)\.Visit|\.func\d`)
)

type rbHangClass struct {
	frames map[string]bool
	slow   bool
	ms     int
	exit   int
	how    string
}

func rbHangFrames(stderr string) []string {
	idx := rbGoroutine.FindAllStringSubmatchIndex(stderr, -1)
	best, bestRank := "", 3
	for i, m := range idx {
		end := len(stderr)
		if i+1 < len(idx) {
			end = idx[i+1][0]
		}
		block := stderr[m[0]:end]
		if strings.Contains(block, "rbChildMain.func1") || !strings.Contains(block, "rhysd/actionlint.") {
			continue
		}
		rank := 2
		switch stderr[m[2]:m[3]] {
		case "running", "syscall", "IO wait", "runnable":
			rank = 1
		}
		if rank < bestRank {
			best, bestRank = block, rank
		}
	}
	var out []string // innermost first
	for _, m := range rbFrameRe.FindAllStringSubmatch(best, -1) {
		if !rbGenericRe.MatchString(m[1]) {
			out = append(out, m[1])
		}
	}
	return out
}

func rbClassifyHang(self string, cand *rbCase, rec *rbRec) {
	rbHangMu.Lock()
	defer rbHangMu.Unlock()
	frames := rbHangFrames(rec.Stderr)
	var cl *rbHangClass
	// same class: the innermost actionlint frame of this input is on the stack of the class's first member
	if len(frames) > 0 {
		for _, k := range rbHangKnown {
			if !k.slow && k.frames[frames[0]] {
				cl = k
				break
			}
		}
	}
	if cl == nil {
		// a class that is known NOT to terminate also takes every input that has one of its frames anywhere on
		// the stack (a busy loop is stopped at varying leaves); this can only add inputs to a run that fails already
		for _, k := range rbHangKnown {
			if k.slow {
				continue
			}
			for _, f := range frames {
				if k.frames[f] {
					cl = k
					break
				}
			}
			if cl != nil {
				break
			}
		}
	}
	if cl == nil {
		cl = &rbHangClass{frames: map[string]bool{}}
		for _, f := range frames {
			cl.frames[f] = true
		}
		if r := rbRunBatchLimit(self, []*rbCase{cand}, rbSlowLimitMs); !r.failed {
			cl.slow, cl.ms, cl.exit = true, r.recs[0].Ms, r.recs[0].Exit
			cl.how = fmt.Sprintf("%s after %d ms with a limit of %d ms", r.recs[0].Outcome, r.recs[0].Ms, rbSlowLimitMs)
		} else {
			cl.how = fmt.Sprintf("no result within %d ms", rbSlowLimitMs)
		}
		if !cl.slow {
			// only non-termination is shared between inputs stuck in the same code: how long a slow input
			// takes depends on the input (2^30 paths end, 2^80 do not)
			rbHangKnown = append(rbHangKnown, cl)
		}
	}
	rec.Alone = append(rec.Alone, cl.how)
	if cl.slow {
		rec.Outcome, rec.Ms, rec.Exit = "slow", cl.ms, cl.exit
	}
}

// rbRunAll runs all cases in batches on `workers` child processes.  Result: one record per case.
func rbRunAll(cases []*rbCase, batch int) []rbRec {
	self, _ := os.Executable()
	workers := runtime.NumCPU()
	if s := os.Getenv("VERIF_WORKERS"); s != "" {
		if n, err := strconv.Atoi(s); err == nil && n > 0 {
			workers = n
		}
	}
	if batch <= 0 {
		batch = 250
	}
	hashes := make([]string, len(cases))
	idx := map[int]int{}
	for i, c := range cases {
		hashes[i] = rbHash(c)
		idx[c.ID] = i
	}
	out := make([]rbRec, len(cases))
	var mu sync.Mutex
	put := func(r rbRec) {
		mu.Lock()
		i := idx[r.ID]
		r.Hash = hashes[i]
		out[i] = r
		mu.Unlock()
	}
	jobs := make(chan []*rbCase, 1024)
	var wg sync.WaitGroup
	for w := 0; w < workers; w++ {
		wg.Add(1)
		go func() {
			defer wg.Done()
			for b := range jobs {
				rest := b
				for len(rest) > 0 {
					r := rbRunBatch(self, rest)
					for _, x := range r.recs {
						put(x)
					}
					if !r.failed {
						break
					}
					k := len(r.recs) // the first case without a record
					if k >= len(rest) {
						k = len(rest) - 1
					}
					iso := rbIsolate(self, rest[:k+1], r)
					put(iso)
					if iso.ID != rest[k].ID {
						// the culprit is an EARLIER case of the batch (its failure surfaced late, after its own
						// record); the first case without a record is innocent and still needs its record
						if a := rbRunBatch(self, []*rbCase{rest[k]}); !a.failed {
							put(a.recs[0])
						} else {
							put(rbIsolate(self, []*rbCase{rest[k]}, a))
						}
					}
					rest = rest[k+1:]
				}
			}
		}()
	}
	for s := 0; s < len(cases); s += batch {
		e := s + batch
		if e > len(cases) {
			e = len(cases)
		}
		jobs <- cases[s:e]
	}
	close(jobs)
	wg.Wait()
	// safety net: every case has exactly one record
	for i := range out {
		if out[i].Hash == "" {
			fmt.Fprintf(os.Stderr, "robust: case %d had no record, run alone\n", cases[i].ID)
			r := rbRunBatch(self, []*rbCase{cases[i]})
			if r.failed {
				out[i] = rbIsolate(self, []*rbCase{cases[i]}, r)
			} else {
				out[i] = r.recs[0]
			}
			out[i].Hash = hashes[i]
		}
	}
	limit := rbLimitMs()
	// a case that completed but took longer than the limit: measured again alone
	for i := range out {
		// an exit status outside {0, 1, 3}: run again alone
		if out[i].Case == nil && strings.HasPrefix(out[i].Outcome, "exit:") {
			same := 0
			var how []string
			for k := 0; k < 3; k++ {
				r := rbRunBatch(self, []*rbCase{cases[i]})
				if !r.failed && r.recs[0].Outcome == out[i].Outcome {
					same++
				}
				if r.failed {
					how = append(how, r.outcome)
				} else {
					how = append(how, r.recs[0].Outcome)
				}
			}
			out[i].Confirmed, out[i].Case, out[i].Alone = same, cases[i], how
			continue
		}
		if out[i].Confirmed == 0 && out[i].Ms > limit && out[i].Case == nil {
			slow := 0
			var how []string
			for k := 0; k < 3; k++ {
				r := rbRunBatch(self, []*rbCase{cases[i]})
				if r.failed || r.recs[0].Ms > limit {
					slow++
				}
				if r.failed {
					how = append(how, r.outcome)
				} else {
					how = append(how, strconv.Itoa(r.recs[0].Ms)+" ms")
				}
			}
			if slow == 3 {
				out[i].Outcome, out[i].Confirmed, out[i].Case, out[i].Alone = "slow", 3, cases[i], how
			} else {
				out[i].Ms = limit // a loaded machine, not the input
				out[i].Alone = how
			}
		}
	}
	return out
}

// ----------------------------------------------------------------------------------- fuzz driver

var rbTokRe = regexp.MustCompile(`[ \n:,\[\]{}'"#$]`)

func rbBoundaries(b []byte) []int {
	out := []int{0, len(b)}
	for _, m := range rbTokRe.FindAllIndex(b, -1) {
		out = append(out, m[0], m[1])
	}
	return out
}

var rbInserts = []string{
	"\x00", "\xff", "\xfe\xff", "\xc0\x80", "\xed\xa0\x80", "\x80", "\xf8\x88\x80\x80\x80", "\ufeff", "\u2028", "\u0085", "\x1b", "\x7f", "\t", "\r", "\r\n",
	"${{", "}}", "${{ }}", "${{ a.. }}", "*a", "&a ", "*", "&", "!!float ", "!!int ", "!!bool ", "!!null ", "!!str ", "!!binary ", "!!timestamp ",
	"!x ", "!<tag:yaml.org,2002:float> ", "<<: ", "<<: *a", "- ", "? ", ": ", "|\n", ">-\n", "|2-", "---\n", "...\n", "%YAML 1.2\n", "%TAG ! tag:x:\n",
	"'", "\"", "[", "]", "{", "}", ",", "#", "\\", "nan", ".nan", ".inf", "1e999", "0x", "~", "null", "TZ=UTC", "@every", "**", "[a-", "\U0001F600", "漢",
}

func rbRandRune(r *rand.Rand) string {
	switch r.Intn(5) {
	case 0:
		return string(rune(r.Intn(0x20)))
	case 1:
		return string(rune(0x80 + r.Intn(0x780)))
	case 2:
		return string(rune(0x800 + r.Intn(0xf000)))
	case 3:
		return string(rune(0x10000 + r.Intn(0xfffff)))
	}
	return string(rune(0x20 + r.Intn(0x5f)))
}

const rbMaxInput = 64 << 10

func rbMutate(r *rand.Rand, seeds [][]byte) []byte {
	b := append([]byte{}, seeds[r.Intn(len(seeds))]...)
	for k := 1 + r.Intn(3); k > 0; k-- {
		bd := rbBoundaries(b)
		at := bd[r.Intn(len(bd))]
		switch r.Intn(12) {
		case 0: // bit flips
			for j := 1 + r.Intn(3); j > 0 && len(b) > 0; j-- {
				b[r.Intn(len(b))] ^= 1 << uint(r.Intn(8))
			}
		case 1: // truncation
			if r.Intn(2) == 0 {
				b = b[:at]
			} else if len(b) > 0 {
				b = b[:r.Intn(len(b))]
			}
		case 2: // splice with another document
			o := seeds[r.Intn(len(seeds))]
			ob := rbBoundaries(o)
			b = append(append([]byte{}, b[:at]...), o[ob[r.Intn(len(ob))]:]...)
		case 3, 4: // insertion of a special token
			ins := rbInserts[r.Intn(len(rbInserts))]
			b = append(append(append([]byte{}, b[:at]...), ins...), b[at:]...)
		case 5: // random rune / byte
			ins := rbRandRune(r)
			if r.Intn(3) == 0 {
				ins = string([]byte{byte(r.Intn(256))})
			}
			b = append(append(append([]byte{}, b[:at]...), ins...), b[at:]...)
		case 6: // delete a token
			e := bd[r.Intn(len(bd))]
			if e < at {
				at, e = e, at
			}
			if e-at < 200 {
				b = append(append([]byte{}, b[:at]...), b[e:]...)
			}
		case 7: // duplicate a range of lines
			ls := bytes.SplitAfter(b, []byte("\n"))
			if len(ls) > 1 {
				i := r.Intn(len(ls))
				j := i + 1 + r.Intn(3)
				if j > len(ls) {
					j = len(ls)
				}
				var nb []byte
				for x, l := range ls {
					nb = append(nb, l...)
					if x == j-1 {
						for _, d := range ls[i:j] {
							nb = append(nb, d...)
						}
					}
				}
				b = nb
			}
		case 8: // change the indentation of a line
			ls := bytes.SplitAfter(b, []byte("\n"))
			i := r.Intn(len(ls))
			if r.Intn(2) == 0 {
				ls[i] = append([]byte(strings.Repeat(" ", 1+r.Intn(4))), ls[i]...)
			} else {
				ls[i] = bytes.TrimLeft(ls[i], " ")
			}
			b = bytes.Join(ls, nil)
		case 9: // repeat a token many times (bounded by the input size limit)
			ins := rbInserts[r.Intn(len(rbInserts))]
			n := 1 << uint(r.Intn(14))
			if n*len(ins) > rbMaxInput {
				n = rbMaxInput / len(ins)
			}
			b = append(append(append([]byte{}, b[:at]...), strings.Repeat(ins, n)...), b[at:]...)
		case 10: // replace one byte
			if len(b) > 0 {
				b[r.Intn(len(b))] = byte(r.Intn(256))
			}
		case 11: // swap two lines
			ls := bytes.SplitAfter(b, []byte("\n"))
			i, j := r.Intn(len(ls)), r.Intn(len(ls))
			ls[i], ls[j] = ls[j], ls[i]
			b = bytes.Join(ls, nil)
		}
	}
	if len(b) > rbMaxInput {
		b = b[:rbMaxInput]
	}
	return b
}

func rbGlobRead(patterns ...string) [][]byte {
	var out [][]byte
	for _, p := range patterns {
		ms, _ := filepath.Glob(p)
		sort.Strings(ms)
		for _, m := range ms {
			if b, err := os.ReadFile(m); err == nil && len(b) <= rbMaxInput {
				out = append(out, b)
			}
		}
	}
	return out
}

func rbSeeds(e *rbExport, ch, repo string) ([][]byte, error) {
	var out [][]byte
	for _, d := range e.Docs[ch] {
		for _, l := range rbLayouts {
			r, err := docRender(d, l)
			if err != nil {
				return nil, err
			}
			out = append(out, []byte(r.Src))
		}
		r, err := docRender(d, DocRenderOpts{FlowLeaves: true})
		if err == nil {
			out = append(out, []byte(r.Src))
		}
	}
	td := filepath.Join(repo, "testdata")
	switch ch {
	case "workflow":
		out = append(out, rbGlobRead(filepath.Join(td, "ok", "*.yaml"), filepath.Join(td, "examples", "*.yaml"),
			filepath.Join(td, "examples", "*", "*.yaml"))...)
	case "action":
		out = append(out, rbGlobRead(filepath.Join(td, "projects", "*", "action.y*ml"), filepath.Join(td, "projects", "*", "*", "action.y*ml"),
			filepath.Join(td, "projects", "*", "*", "*", "action.y*ml"))...)
	case "reusable":
		out = append(out, rbGlobRead(filepath.Join(td, "ok", "*workflow_call*.yaml"), filepath.Join(td, "projects", "*", "workflows", "*.yaml"),
			filepath.Join(td, "projects", "*", ".github", "workflows", "*.yaml"))...)
	case "config":
		out = append(out, rbGlobRead(filepath.Join(td, "config", "*.yaml"), filepath.Join(td, "config", "*", "*.yaml"),
			filepath.Join(td, "projects", "*", ".github", "actionlint.y*ml"))...)
	}
	return out, nil
}

// ------------------------------------------------------------------------------------- commands

func rbWriteRecs(path string, recs []rbRec) error { return writeJSONL(path, recs) }

func init() {
	register("robust-child", rbChildMain)

	register("robust-tool", func(args []string) error {
		b, _ := io.ReadAll(os.Stdin)
		if d := os.Getenv("VERIF_C01_TOOL_LOG"); d != "" {
			f, err := os.OpenFile(d, os.O_APPEND|os.O_CREATE|os.O_WRONLY, 0o644)
			if err == nil {
				fmt.Fprintf(f, "%s %d\n", strings.Join(args, " "), len(b))
				f.Close()
			}
		}
		if len(args) > 0 && args[0] == "sc" {
			fmt.Print("[]")
		}
		return nil
	})

	register("robust-run", func(args []string) error {
		if len(args) != 3 {
			return fmt.Errorf("usage: robust-run <export.json> <vectors.jsonl> <out.jsonl>")
		}
		e, err := rbLoadExport(args[0])
		if err != nil {
			return err
		}
		callers, err := rbRenderCallers(e)
		if err != nil {
			return err
		}
		vecs, err := readJSONL[rbVec](args[1])
		if err != nil {
			return err
		}
		type mat struct {
			c   *rbCase
			err string
			src string
		}
		mats := parallelMap(vecs, func(v rbVec) mat {
			if len(v.Multi.Files) > 0 {
				return mat{c: rbMultiCase(v.ID, v.Fmt, &v.Multi)}
			}
			src, err := rbSource(e, &v)
			if err != nil {
				return mat{err: err.Error(), src: src}
			}
			return mat{c: rbCaseOf(v.ID, v.Ch, v.Mode, v.Fmt, []byte(src), callers), src: src}
		})
		var cases []*rbCase
		for _, m := range mats {
			if m.c != nil {
				cases = append(cases, m.c)
			}
		}
		recs := rbRunAll(cases, 0)
		byID := map[int]rbRec{}
		for _, r := range recs {
			byID[r.ID] = r
		}
		out := make([]rbRec, len(vecs))
		for i, v := range vecs {
			if mats[i].c == nil {
				out[i] = rbRec{ID: v.ID, Chan: v.Ch, Err: mats[i].err}
				continue
			}
			out[i] = byID[v.ID]
			if os.Getenv("VERIF_C01_KEEP_SRC") != "" {
				out[i].Src = mats[i].src
			}
		}
		return rbWriteRecs(args[2], out)
	})

	register("robust-src", func(args []string) error { // materialise only (debugging / replay)
		if len(args) != 3 {
			return fmt.Errorf("usage: robust-src <export.json> <vectors.jsonl> <out.jsonl>")
		}
		e, err := rbLoadExport(args[0])
		if err != nil {
			return err
		}
		vecs, err := readJSONL[rbVec](args[1])
		if err != nil {
			return err
		}
		out := make([]rbRec, len(vecs))
		for i, v := range vecs {
			src, err := rbSource(e, &v)
			out[i] = rbRec{ID: v.ID, Chan: v.Ch, Src: src}
			if err != nil {
				out[i].Err = err.Error()
			}
		}
		return rbWriteRecs(args[2], out)
	})

	register("robust-cases", func(args []string) error {
		if len(args) != 2 {
			return fmt.Errorf("usage: robust-cases <cases.jsonl> <out.jsonl>")
		}
		cs, err := readJSONL[rbCase](args[0])
		if err != nil {
			return err
		}
		ps := make([]*rbCase, len(cs))
		for i := range cs {
			ps[i] = &cs[i]
		}
		batch := 0
		if s := os.Getenv("VERIF_C01_BATCH"); s != "" {
			batch, _ = strconv.Atoi(s)
		}
		return rbWriteRecs(args[1], rbRunAll(ps, batch))
	})

	register("robust-fuzz", func(args []string) error {
		if len(args) != 5 {
			return fmt.Errorf("usage: robust-fuzz <export.json> <out.jsonl> <n> <chan,chan,...> <repo>")
		}
		e, err := rbLoadExport(args[0])
		if err != nil {
			return err
		}
		callers, err := rbRenderCallers(e)
		if err != nil {
			return err
		}
		n, err := strconv.Atoi(args[2])
		if err != nil {
			return err
		}
		chans := strings.Split(args[3], ",")
		seed, _ := strconv.ParseInt(os.Getenv("VERIF_SEED"), 10, 64)
		rng := rand.New(rand.NewSource(seed*7919 + 17))
		seeds := map[string][][]byte{}
		for _, c := range chans {
			s, err := rbSeeds(e, c, args[4])
			if err != nil {
				return err
			}
			if len(s) == 0 {
				return fmt.Errorf("no seed documents for channel %s", c)
			}
			seeds[c] = s
		}
		cases := make([]*rbCase, n)
		fmts := []string{"", "", "oneline", "json", "sarif"}
		for i := 0; i < n; i++ {
			c := chans[i%len(chans)]
			mode := ""
			if c == "reusable" && rng.Intn(3) == 0 {
				mode = "both"
			}
			if c == "config" {
				switch rng.Intn(3) {
				case 0:
					mode = "flag"
				case 1:
					mode = "dirty"
				}
			}
			cases[i] = rbCaseOf(i, c, mode, fmts[rng.Intn(len(fmts))], rbMutate(rng, seeds[c]), callers)
		}
		recs := rbRunAll(cases, 0)
		fmt.Fprintf(os.Stderr, "seeds: ")
		for _, c := range chans {
			fmt.Fprintf(os.Stderr, "%s=%d ", c, len(seeds[c]))
		}
		fmt.Fprintln(os.Stderr)
		return rbWriteRecs(args[1], recs)
	})

	register("robust-scan", func(args []string) error {
		if len(args) != 2 {
			return fmt.Errorf("usage: robust-scan <vectors.jsonl> <out.jsonl>")
		}
		type vec struct {
			ID int      `json:"id"`
			S  []string `json:"s"`
		}
		type res struct {
			ID    int    `json:"id"`
			Text  string `json:"text"`
			Err   bool   `json:"err"`
			Other int    `json:"other"`
			Ms    int    `json:"ms"`
			Msg   string `json:"msg,omitempty"`
		}
		vecs, err := readJSONL[vec](args[0])
		if err != nil {
			return err
		}
		var cur atomic.Int64
		var curStart atomic.Int64
		cur.Store(-1)
		limit := time.Duration(rbLimitMs()) * time.Millisecond
		go func() {
			for {
				time.Sleep(100 * time.Millisecond)
				if id := cur.Load(); id >= 0 && time.Duration(time.Now().UnixNano()-curStart.Load()) > 5*limit {
					fmt.Fprintf(os.Stderr, "HANG id=%d\n", id)
					os.Exit(3)
				}
			}
		}()
		outs := parallelMap(vecs, func(v vec) res {
			text := strings.ReplaceAll(strings.Join(v.S, ""), "a", "1")
			src := "on: push\nenv:\n  V: \"" + text + "\"\njobs:\n  j:\n    runs-on: ubuntu-latest\n    steps:\n      - run: echo\n"
			cur.Store(int64(v.ID))
			curStart.Store(time.Now().UnixNano())
			t0 := time.Now()
			ds, err := lintSrc(src)
			r := res{ID: v.ID, Text: text, Ms: int(time.Since(t0) / time.Millisecond)}
			if err != nil {
				r.Msg = "error: " + err.Error()
				r.Other++
			}
			for _, d := range ds {
				if d.Kind == "expression" {
					r.Err = true
				} else {
					r.Other++
					r.Msg = d.Msg
				}
			}
			return r
		})
		cur.Store(-1)
		return writeJSONL(args[1], outs)
	})
}
