package main

// EXT04 - type algebra (spec/TypeAlgebra*.tla) and typing of built-in function calls and operators (spec/FuncCalls.tla).
//
//   ta-run   <in.jsonl> <out.jsonl>   {id, kind: un|bin|tri, t, u, v}: type terms as written by ToJson.  Builds the REAL ExprType
//                                     values and evaluates the real methods (String, Assignable, EqualTypes, Merge, DeepCopy);
//                                     writes {id, out}: the observables in the record shape of TypeAlgebraOps!Out*.  Merge is
//                                     repeated (map iteration order) and all distinct results are collected.
//   fc-table <out.json>               the real actionlint.BuiltinFuncSignatures as JSON
//   fc-run   <in.jsonl> <out.jsonl>   {id, v}: a vector of FuncCalls.tla.  Writes the expression, checks it with the exported
//                                     ExprSemanticsChecker (api) and with Linter.Lint inside a workflow (lint): static type of the
//                                     whole expression and the classified diagnostics.
//   ta-show / fc-show <json>          one vector, human readable
//
// Nothing here knows what the outcome should be: predictions and judgements come from TLC.

import (
	"encoding/json"
	"fmt"
	"regexp"
	"sort"
	"strconv"
	"strings"

	"github.com/rhysd/actionlint"
)

// ---------------------------------------------------------------------------------------------
// terms <-> real types

type taTerm struct {
	K     string `json:"k"`
	Props []struct {
		N string `json:"n"`
		T taTerm `json:"t"`
	} `json:"props"`
	M     *taTerm `json:"m"`
	Elem  *taTerm `json:"elem"`
	Deref bool    `json:"deref"`
}

func taBuild(t *taTerm) actionlint.ExprType {
	switch t.K {
	case "any":
		return actionlint.AnyType{}
	case "null":
		return actionlint.NullType{}
	case "number":
		return actionlint.NumberType{}
	case "bool":
		return actionlint.BoolType{}
	case "string":
		return actionlint.StringType{}
	case "arr":
		return &actionlint.ArrayType{Elem: taBuild(t.Elem), Deref: t.Deref}
	case "obj":
		props := make(map[string]actionlint.ExprType, len(t.Props))
		for i := range t.Props {
			props[t.Props[i].N] = taBuild(&t.Props[i].T)
		}
		switch {
		case t.M == nil || t.M.K == "strict":
			return actionlint.NewStrictObjectType(props)
		case t.M.K == "any":
			return actionlint.NewObjectType(props)
		case len(props) == 0:
			return actionlint.NewMapObjectType(taBuild(t.M))
		default:
			return &actionlint.ObjectType{Props: props, Mapped: taBuild(t.M)}
		}
	}
	panic("unknown term kind " + t.K)
}

func taDump(ty actionlint.ExprType) any {
	switch ty := ty.(type) {
	case actionlint.AnyType:
		return map[string]any{"k": "any"}
	case actionlint.NullType:
		return map[string]any{"k": "null"}
	case actionlint.NumberType:
		return map[string]any{"k": "number"}
	case actionlint.BoolType:
		return map[string]any{"k": "bool"}
	case actionlint.StringType:
		return map[string]any{"k": "string"}
	case *actionlint.ArrayType:
		return map[string]any{"k": "arr", "elem": taDump(ty.Elem), "deref": ty.Deref}
	case *actionlint.ObjectType:
		names := make([]string, 0, len(ty.Props))
		for n := range ty.Props {
			names = append(names, n)
		}
		sort.Strings(names)
		props := make([]any, 0, len(names))
		for _, n := range names {
			props = append(props, map[string]any{"n": n, "t": taDump(ty.Props[n])})
		}
		var m any = map[string]any{"k": "strict"}
		if ty.Mapped != nil {
			m = taDump(ty.Mapped)
		}
		return map[string]any{"k": "obj", "props": props, "m": m}
	}
	panic(fmt.Sprintf("unknown ExprType %T", ty))
}

func taCanon(v any) string {
	b, err := json.Marshal(v) // map keys are written in sorted order
	if err != nil {
		panic(err)
	}
	return string(b)
}

// taKey is a cheap injective text of a real type (distinct results of repeated calls are told apart by it)
func taKey(sb *strings.Builder, ty actionlint.ExprType) {
	switch ty := ty.(type) {
	case *actionlint.ArrayType:
		if ty.Deref {
			sb.WriteString("D<")
		} else {
			sb.WriteString("A<")
		}
		taKey(sb, ty.Elem)
		sb.WriteByte('>')
	case *actionlint.ObjectType:
		names := make([]string, 0, len(ty.Props))
		for n := range ty.Props {
			names = append(names, n)
		}
		sort.Strings(names)
		sb.WriteByte('{')
		for _, n := range names {
			sb.WriteString(strconv.Quote(n))
			sb.WriteByte(':')
			taKey(sb, ty.Props[n])
			sb.WriteByte(';')
		}
		sb.WriteByte('|')
		if ty.Mapped != nil {
			taKey(sb, ty.Mapped)
		}
		sb.WriteByte('}')
	default:
		sb.WriteString(fmt.Sprintf("%T", ty))
	}
}

func taMaxMap(t *taTerm) int {
	if t == nil {
		return 0
	}
	n := len(t.Props)
	for i := range t.Props {
		if m := taMaxMap(&t.Props[i].T); m > n {
			n = m
		}
	}
	if m := taMaxMap(t.M); m > n {
		n = m
	}
	if m := taMaxMap(t.Elem); m > n {
		n = m
	}
	return n
}

func taCountProps(t *taTerm) int {
	if t == nil {
		return 0
	}
	n := len(t.Props)
	for i := range t.Props {
		n += taCountProps(&t.Props[i].T)
	}
	return n + taCountProps(t.M) + taCountProps(t.Elem)
}

// taMutate changes every mutable part reachable from ty (property assignment, Mapped, Elem, Deref)
func taMutate(ty actionlint.ExprType) {
	switch ty := ty.(type) {
	case *actionlint.ObjectType:
		for _, t := range ty.Props {
			taMutate(t)
		}
		if ty.Mapped != nil {
			taMutate(ty.Mapped)
		}
		for n := range ty.Props {
			ty.Props[n] = actionlint.NullType{}
		}
		if ty.Props != nil {
			ty.Props["zz"] = actionlint.NumberType{}
		}
		if ty.Mapped == nil {
			ty.Mapped = actionlint.BoolType{}
		} else {
			ty.Mapped = nil
		}
	case *actionlint.ArrayType:
		taMutate(ty.Elem)
		ty.Elem = actionlint.NullType{}
		ty.Deref = !ty.Deref
	}
}

type taSet struct {
	keys []string
	vals map[string]actionlint.ExprType
	sb   strings.Builder
}

func newTaSet() *taSet { return &taSet{vals: map[string]actionlint.ExprType{}} }
func (s *taSet) add(ty actionlint.ExprType) {
	s.sb.Reset()
	taKey(&s.sb, ty)
	k := s.sb.String()
	if _, ok := s.vals[k]; !ok {
		s.vals[k] = ty
		s.keys = append(s.keys, k)
	}
}
func (s *taSet) list() []any {
	sort.Strings(s.keys)
	out := make([]any, 0, len(s.keys))
	for _, k := range s.keys {
		out = append(out, taDump(s.vals[k]))
	}
	return out
}
func (s *taSet) each(f func(actionlint.ExprType)) {
	for _, k := range s.keys {
		f(s.vals[k])
	}
}

type taIn struct {
	ID   int     `json:"id"`
	Kind string  `json:"kind"`
	T    *taTerm `json:"t"`
	U    *taTerm `json:"u"`
	V    *taTerm `json:"v"`
}

type taOut struct {
	ID    int            `json:"id"`
	Out   map[string]any `json:"out"`
	Other []string       `json:"other"`
}

func taRun(in taIn) (out taOut) {
	out = taOut{ID: in.ID, Out: map[string]any{}, Other: []string{}}
	defer func() {
		if r := recover(); r != nil {
			out.Other = append(out.Other, fmt.Sprintf("panic: %v", r))
		}
	}()
	terms := []*taTerm{in.T}
	switch in.Kind {
	case "bin":
		terms = append(terms, in.U)
	case "tri":
		terms = append(terms, in.U, in.V)
	}
	vals := make([]actionlint.ExprType, len(terms))
	orig := make([]string, len(terms))
	nprops, maxmap := 0, 0
	for i, t := range terms {
		if t == nil {
			out.Other = append(out.Other, "missing operand")
			return out
		}
		vals[i] = taBuild(t)
		orig[i] = taCanon(taDump(vals[i]))
		nprops += taCountProps(t)
		if m := taMaxMap(t); m > maxmap {
			maxmap = m
		}
	}
	// the order of a map iteration varies from call to call: repeat when some map can hold two entries (an operand lists two
	// properties; for ternary vectors also an intermediate result)
	reps := 4
	if maxmap >= 2 || (in.Kind == "tri" && nprops >= 2) {
		reps = 192
	}
	unchanged := func() bool {
		for i := range vals {
			if taCanon(taDump(vals[i])) != orig[i] {
				return false
			}
		}
		return true
	}
	o := out.Out
	switch in.Kind {
	case "un":
		t := vals[0]
		o["str"] = t.String()
		o["self"] = t.Assignable(t)
		o["eqself"] = actionlint.EqualTypes(t, t)
		mm := newTaSet()
		for i := 0; i < reps; i++ {
			mm.add(t.Merge(t))
		}
		idem := true
		mm.each(func(m actionlint.ExprType) { idem = idem && actionlint.EqualTypes(m, t) })
		o["mm"] = mm.list()
		o["idemEq"] = idem
		c := t.DeepCopy()
		o["copy"] = taDump(c)
		o["copyEq"] = actionlint.EqualTypes(c, t)
		taMutate(c)
		o["shared"] = !unchanged()
	case "bin":
		t, u := vals[0], vals[1]
		o["asgTU"] = t.Assignable(u)
		o["asgUT"] = u.Assignable(t)
		o["eqTU"] = actionlint.EqualTypes(t, u)
		o["eqUT"] = actionlint.EqualTypes(u, t)
		a, b := newTaSet(), newTaSet()
		for i := 0; i < reps; i++ {
			a.add(t.Merge(u))
			b.add(u.Merge(t))
		}
		comm, accTU, accUT := true, true, true
		a.each(func(x actionlint.ExprType) {
			accTU = accTU && x.Assignable(t) && x.Assignable(u)
			b.each(func(y actionlint.ExprType) { comm = comm && actionlint.EqualTypes(x, y) })
		})
		b.each(func(y actionlint.ExprType) { accUT = accUT && y.Assignable(u) && y.Assignable(t) })
		o["mTU"] = a.list()
		o["mUT"] = b.list()
		o["commEq"] = comm
		o["accTU"] = accTU
		o["accUT"] = accUT
		o["pure"] = unchanged()
	case "tri":
		t, u, v := vals[0], vals[1], vals[2]
		o["eTU"] = actionlint.EqualTypes(t, u)
		o["eUV"] = actionlint.EqualTypes(u, v)
		o["eTV"] = actionlint.EqualTypes(t, v)
		l, r := newTaSet(), newTaSet()
		for i := 0; i < reps; i++ {
			l.add(t.Merge(u).Merge(v))
			r.add(t.Merge(u.Merge(v)))
		}
		assoc := true
		l.each(func(x actionlint.ExprType) {
			r.each(func(y actionlint.ExprType) { assoc = assoc && actionlint.EqualTypes(x, y) })
		})
		o["l"] = l.list()
		o["r"] = r.list()
		o["assocEq"] = assoc
		if !unchanged() {
			out.Other = append(out.Other, "Merge modified an operand of a ternary vector")
		}
	default:
		out.Other = append(out.Other, "unknown kind "+in.Kind)
	}
	return out
}

// ---------------------------------------------------------------------------------------------
// function calls and operators

type fcAst struct {
	K string `json:"k"`
	T string `json:"t"`
	E *fcAst `json:"e"`
	L *fcAst `json:"l"`
	R *fcAst `json:"r"`
}

type fcVec struct {
	Kind   string   `json:"kind"`
	F      string   `json:"f"`
	Args   []string `json:"args"`
	Pieces []string `json:"pieces"`
	N      int      `json:"n"`
	Op     string   `json:"op"`
	L      string   `json:"l"`
	R      string   `json:"r"`
	E      *fcAst   `json:"e"`
}

type fcIn struct {
	ID int   `json:"id"`
	V  fcVec `json:"v"`
}

type fcDiag struct {
	C    string `json:"c"`
	W    string `json:"w"`
	I    string `json:"i"`
	Sig  string `json:"sig"`
	Got  string `json:"got"`
	Want string `json:"want"`
}

type fcSide struct {
	Ty    string   `json:"ty"`
	Diags []fcDiag `json:"diags"`
	Other []string `json:"other"`
}

type fcOut struct {
	ID   int    `json:"id"`
	Expr string `json:"expr"`
	Src  string `json:"src"`
	API  fcSide `json:"api"`
	Lint fcSide `json:"lint"`
}

var fcTagExpr = map[string]string{
	"any": "github.event.v", "null": "null", "number": "1", "bool": "true", "string": "env.S",
	"object": "github.event", "arrstr": "matrix.as", "arrany": "matrix.aa",
}

var fcPieceText = map[string]string{
	"x": "x", "oo": "{{", "cc": "}}", "p0": "{0}", "p1": "{1}", "p2": "{2}", "p9": "{9}", "p10": "{10}",
	"o": "{", "c": "}", "p01": "{01}", "pe": "{}", "ps": "{ 0}",
}

type fcExpr struct {
	text string
	args []int // offset of the first token of argument i (calls)
	lead int   // opening parentheses in front of the first token
	err  error
}

func fcTag(tag string) (string, error) {
	s, ok := fcTagExpr[tag]
	if !ok {
		return "", fmt.Errorf("unknown type tag %q", tag)
	}
	return s, nil
}

func fcRenderAst(e *fcAst) (string, error) {
	if e == nil {
		return "", fmt.Errorf("missing operand")
	}
	wrap := func(c *fcAst) (string, error) {
		s, err := fcRenderAst(c)
		if err == nil && c != nil && (c.K == "and" || c.K == "or") {
			s = "(" + s + ")"
		}
		return s, err
	}
	switch e.K {
	case "leaf":
		return fcTag(e.T)
	case "not":
		s, err := wrap(e.E)
		return "!" + s, err
	case "and", "or":
		l, err := wrap(e.L)
		if err != nil {
			return "", err
		}
		r, err := wrap(e.R)
		op := " && "
		if e.K == "or" {
			op = " || "
		}
		return l + op + r, err
	}
	return "", fmt.Errorf("unknown node %q", e.K)
}

func fcRender(v *fcVec) fcExpr {
	var x fcExpr
	switch v.Kind {
	case "call":
		var sb strings.Builder
		sb.WriteString(v.F + "(")
		for i, a := range v.Args {
			if i > 0 {
				sb.WriteString(", ")
			}
			s, err := fcTag(a)
			if err != nil {
				x.err = err
			}
			x.args = append(x.args, sb.Len())
			sb.WriteString(s)
		}
		sb.WriteString(")")
		x.text = sb.String()
	case "fmt":
		var sb strings.Builder
		sb.WriteString("format(")
		x.args = append(x.args, sb.Len())
		sb.WriteString("'")
		for _, p := range v.Pieces {
			t, ok := fcPieceText[p]
			if !ok {
				x.err = fmt.Errorf("unknown piece %q", p)
			}
			sb.WriteString(t)
		}
		sb.WriteString("'")
		for i := 0; i < v.N; i++ {
			sb.WriteString(", ")
			x.args = append(x.args, sb.Len())
			sb.WriteString("1")
		}
		sb.WriteString(")")
		x.text = sb.String()
	case "cmp":
		l, err := fcTag(v.L)
		if err != nil {
			x.err = err
		}
		r, err := fcTag(v.R)
		if err != nil {
			x.err = err
		}
		x.text = l + " " + v.Op + " " + r
	case "log":
		x.text, x.err = fcRenderAst(v.E)
	default:
		x.err = fmt.Errorf("unknown kind %q", v.Kind)
	}
	for x.lead < len(x.text) && x.text[x.lead] == '(' {
		x.lead++
	}
	return x
}

type fcAnchor struct {
	re *regexp.Regexp
	mk func(m []string) fcDiag
}

var fcAnchors = []fcAnchor{
	{regexp.MustCompile(`^number of arguments is wrong\. function "([^"]*)" takes (?:at least )?\d+ parameters but \d+ arguments are given$`),
		func(m []string) fcDiag { return fcDiag{C: "arity", I: "0", Sig: m[1]} }},
	{regexp.MustCompile(`^(\d+)(?:st|nd|rd|th) argument of function call is not assignable\. "([^"]*)" cannot be assigned to "([^"]*)"\. called function type is "([^"]*)"$`),
		func(m []string) fcDiag { return fcDiag{C: "argtype", I: m[1], Got: m[2], Want: m[3], Sig: m[4]} }},
	{regexp.MustCompile(`^undefined function "[^"]*"\. available functions are `),
		func(m []string) fcDiag { return fcDiag{C: "undef", I: "0"} }},
	{regexp.MustCompile(`^format string "[^"]*" does not contain placeholder \{(\d+)\}\. remove argument which is unused in the format string$`),
		func(m []string) fcDiag { return fcDiag{C: "fmt-unused", I: m[1]} }},
	{regexp.MustCompile(`^format string "[^"]*" contains placeholder \{(\d+)\} but only \d+ arguments are given to format$`),
		func(m []string) fcDiag { return fcDiag{C: "fmt-missing", I: m[1]} }},
	{regexp.MustCompile(`^"([^"]*)" value cannot be compared to "([^"]*)" value with "([^"]*)" operator$`),
		func(m []string) fcDiag { return fcDiag{C: "cmp", I: "0", Got: m[1], Want: m[2], Sig: m[3]} }},
	{regexp.MustCompile(`^type of operand of ! operator "([^"]*)" is not assignable to type "bool"$`),
		func(m []string) fcDiag { return fcDiag{C: "not-operand", I: "0", Got: m[1]} }},
}

var fcProbeTemplate = regexp.MustCompile(`^object, array, and null values should not be evaluated in template with \$\{\{ \}\} but evaluating the value of type (.+)$`)
var fcProbeDeref = regexp.MustCompile(`^receiver of object dereference "x" must be type of object but got "(.+)"$`)
var fcProbeProp = regexp.MustCompile(`^property "x" is not defined in object type (.+)$`)

func fcWhere(x *fcExpr, off int) string {
	if off == x.lead {
		return "root"
	}
	for i, a := range x.args {
		if a == off {
			return "arg" + strconv.Itoa(i+1)
		}
	}
	return "unmapped:" + strconv.Itoa(off)
}

func fcClassify(side *fcSide, x *fcExpr, msg string, off int) bool {
	for _, a := range fcAnchors {
		if m := a.re.FindStringSubmatch(msg); m != nil {
			d := a.mk(m)
			d.W = fcWhere(x, off)
			side.Diags = append(side.Diags, d)
			return true
		}
	}
	return false
}

func fcSpecialNames() []string {
	names := make([]string, 0, len(actionlint.SpecialFunctionNames))
	for n := range actionlint.SpecialFunctionNames {
		names = append(names, n)
	}
	sort.Strings(names)
	return names
}

func fcAPI(x *fcExpr) (side fcSide) {
	side = fcSide{Diags: []fcDiag{}, Other: []string{}}
	defer func() {
		if r := recover(); r != nil {
			side.Other = append(side.Other, fmt.Sprintf("panic: %v", r))
		}
	}()
	p := actionlint.NewExprParser()
	e, perr := p.Parse(actionlint.NewExprLexer(x.text + "}}"))
	if perr != nil {
		side.Other = append(side.Other, "parse error: "+perr.Error())
		return side
	}
	c := actionlint.NewExprSemanticsChecker(false, nil)
	c.UpdateMatrix(actionlint.NewStrictObjectType(map[string]actionlint.ExprType{
		"as": &actionlint.ArrayType{Elem: actionlint.StringType{}},
		"aa": &actionlint.ArrayType{Elem: actionlint.AnyType{}},
	}))
	c.SetSpecialFunctionAvailability(fcSpecialNames())
	ctx := make([]string, 0, len(actionlint.BuiltinGlobalVariableTypes))
	for n := range actionlint.BuiltinGlobalVariableTypes {
		ctx = append(ctx, n)
	}
	c.SetContextAvailability(ctx) // availability is C12's: everything is available here
	ty, errs := c.Check(e)
	side.Ty = ty.String()
	for _, err := range errs {
		if !fcClassify(&side, x, err.Message, err.Offset) {
			side.Other = append(side.Other, "unknown message: "+err.Error())
		}
	}
	return side
}

// fcInIf tells whether the call must be written at `if:` (a status function is not available at `run:`)
func fcInIf(v *fcVec) bool {
	if v.Kind != "call" {
		return false
	}
	keys, ok := actionlint.SpecialFunctionNames[strings.ToLower(v.F)]
	if !ok {
		return false
	}
	for _, k := range keys {
		if k == "jobs.<job_id>.steps.run" {
			return false
		}
	}
	return true
}

const fcHead = "on: push\njobs:\n  test:\n    strategy:\n      matrix:\n        as: [[a]]\n        aa: [[]]\n    runs-on: ubuntu-latest\n    steps:\n"

func fcLint(v *fcVec, x *fcExpr) (side fcSide, src string) {
	side = fcSide{Diags: []fcDiag{}, Other: []string{}}
	defer func() {
		if r := recover(); r != nil {
			side.Other = append(side.Other, fmt.Sprintf("panic: %v", r))
		}
	}()
	var sb strings.Builder
	sb.WriteString(fcHead)
	headLines := strings.Count(fcHead, "\n")
	var line0, line1, col int
	if fcInIf(v) {
		prefix := "        if: ${{ "
		sb.WriteString("      - run: echo\n" + prefix + x.text + " }}\n")
		sb.WriteString("      - run: echo\n" + prefix + "(" + x.text + ").x }}\n")
		line0, line1, col = headLines+2, headLines+4, len(prefix)+1
	} else {
		prefix := "      - run: echo ${{ "
		sb.WriteString(prefix + x.text + " }}\n")
		sb.WriteString(prefix + "(" + x.text + ").x }}\n")
		line0, line1, col = headLines+1, headLines+2, len(prefix)+1
	}
	src = sb.String()
	l, err := newLinter(nil)
	if err != nil {
		side.Other = append(side.Other, "linter: "+err.Error())
		return side, src
	}
	errs, err := l.Lint("<stdin>", []byte(src), nil)
	if err != nil {
		side.Other = append(side.Other, "lint error: "+err.Error())
		return side, src
	}
	probe0, probe1 := "", ""
	var second fcSide
	for _, e := range errs {
		loc := fmt.Sprintf("%d:%d [%s] %s", e.Line, e.Column, e.Kind, e.Message)
		if e.Kind != "expression" {
			side.Other = append(side.Other, "foreign diagnostic: "+loc)
			continue
		}
		switch e.Line {
		case line0:
			if m := fcProbeTemplate.FindStringSubmatch(e.Message); m != nil && e.Column == col-4 {
				probe0 = m[1]
			} else if !fcClassify(&side, x, e.Message, e.Column-col) {
				side.Other = append(side.Other, "unknown message: "+loc)
			}
		case line1:
			if m := fcProbeDeref.FindStringSubmatch(e.Message); m != nil && e.Column == col+1+x.lead {
				probe1 = m[1]
			} else if m := fcProbeProp.FindStringSubmatch(e.Message); m != nil && e.Column == col+1+x.lead {
				probe1 = m[1]
			} else if !fcClassify(&second, x, e.Message, e.Column-col-1) {
				side.Other = append(side.Other, "unknown message: "+loc)
			}
		default:
			side.Other = append(side.Other, "diagnostic at an unexpected line: "+loc)
		}
	}
	// the second placeholder repeats the expression: its own diagnostics must be the same
	if fmt.Sprint(second.Diags) != fmt.Sprint(side.Diags) && !(len(second.Diags) == 0 && len(side.Diags) == 0) {
		side.Other = append(side.Other, fmt.Sprintf("the two placeholders disagree: %v / %v", side.Diags, second.Diags))
	}
	switch {
	case probe0 != "":
		side.Ty = probe0
	case probe1 != "":
		side.Ty = probe1
	default:
		side.Ty = "any"
	}
	return side, src
}

func fcRun(in fcIn) (out fcOut) {
	out = fcOut{ID: in.ID}
	x := fcRender(&in.V)
	out.Expr = x.text
	if x.err != nil {
		out.API = fcSide{Diags: []fcDiag{}, Other: []string{"render: " + x.err.Error()}}
		out.Lint = out.API
		return out
	}
	out.API = fcAPI(&x)
	out.Lint, out.Src = fcLint(&in.V, &x)
	return out
}

type fcSigJ struct {
	Name   string `json:"name"`
	Params []any  `json:"params"`
	Var    bool   `json:"var"`
	Ret    any    `json:"ret"`
	Str    string `json:"str"`
}

func fcTable() map[string][]fcSigJ {
	out := map[string][]fcSigJ{}
	for key, sigs := range actionlint.BuiltinFuncSignatures {
		for _, s := range sigs {
			j := fcSigJ{Name: s.Name, Params: []any{}, Var: s.VariableLengthParams, Ret: taDump(s.Ret), Str: s.String()}
			for _, p := range s.Params {
				j.Params = append(j.Params, taDump(p))
			}
			out[key] = append(out[key], j)
		}
	}
	return out
}

func init() {
	register("ta-run", func(args []string) error {
		if len(args) < 2 {
			return fmt.Errorf("usage: ta-run <in.jsonl> <out.jsonl>")
		}
		in, err := readJSONL[taIn](args[0])
		if err != nil {
			return err
		}
		return writeJSONL(args[1], parallelMap(in, taRun))
	})
	register("ta-show", func(args []string) error {
		if len(args) < 1 {
			return fmt.Errorf("usage: ta-show <vector-json>")
		}
		var in taIn
		if err := json.Unmarshal([]byte(args[0]), &in); err != nil {
			return err
		}
		b, _ := json.MarshalIndent(taRun(in), "", " ")
		fmt.Println(string(b))
		return nil
	})
	register("fc-table", func(args []string) error {
		if len(args) < 1 {
			return fmt.Errorf("usage: fc-table <out.json>")
		}
		return writeJSONL(args[0], []map[string][]fcSigJ{fcTable()})
	})
	register("fc-run", func(args []string) error {
		if len(args) < 2 {
			return fmt.Errorf("usage: fc-run <in.jsonl> <out.jsonl>")
		}
		in, err := readJSONL[fcIn](args[0])
		if err != nil {
			return err
		}
		return writeJSONL(args[1], parallelMap(in, fcRun))
	})
	register("fc-show", func(args []string) error {
		if len(args) < 1 {
			return fmt.Errorf("usage: fc-show <vector-json>")
		}
		var v fcVec
		if err := json.Unmarshal([]byte(args[0]), &v); err != nil {
			return err
		}
		out := fcRun(fcIn{ID: 0, V: v})
		fmt.Print(out.Src)
		fmt.Printf("--- %s\n--- api:  %+v\n--- lint: %+v\n", out.Expr, out.API, out.Lint)
		return nil
	})
}
