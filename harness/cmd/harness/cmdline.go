package main

// EXT03 / EXT02(config) - process runner for the BUILT actionlint binary (spec/Command.tla, spec/ActionMeta.tla parts
// config / choice / init).
//
//   px-run <binary> <basedir> <in.jsonl> <out.jsonl>
//       one scenario per line: a directory layout (files, directories, executables) created under a fresh directory
//       of <basedir>, then one or more runs of <binary> {cwd, argv, stdin, path}; the result holds exit status, stdout
//       and stderr of every run and the content of the files named in `readback` after the last run.
//       The text @ROOT@ in file contents, argv and cwd stands for the absolute path of the scenario directory and is
//       put back into the outputs.  The environment of the child is PATH=<path>:/usr/bin:/bin (path relative to the root
//       or absolute), HOME=<root>.
//
// The runner knows nothing about actionlint: what to run and what to expect both come from the TLC vectors.

import (
	"bytes"
	"context"
	"fmt"
	"os"
	"os/exec"
	"path/filepath"
	"strings"
	"time"
)

type pxRunSpec struct {
	Cwd   string   `json:"cwd"`
	Argv  []string `json:"argv"`
	Stdin string   `json:"stdin"`
	Path  string   `json:"path"` // directory (relative to the root) put in front of PATH
}

type pxScenario struct {
	ID       int               `json:"id"`
	Dirs     []string          `json:"dirs"`
	Files    map[string]string `json:"files"`
	Exec     []string          `json:"exec"`
	Runs     []pxRunSpec       `json:"runs"`
	Readback []string          `json:"readback"`
}

type pxRunResult struct {
	RC      int    `json:"rc"`
	Stdout  string `json:"stdout"`
	Stderr  string `json:"stderr"`
	Timeout bool   `json:"timeout"`
	Err     string `json:"err,omitempty"`
}

type pxResult struct {
	ID    int               `json:"id"`
	Runs  []pxRunResult     `json:"runs"`
	Files map[string]string `json:"files"`
	Err   string            `json:"err,omitempty"`
}

const pxRoot = "@ROOT@"

func pxExec(binary string, sc pxScenario, base string) (res pxResult) {
	res = pxResult{ID: sc.ID, Runs: []pxRunResult{}, Files: map[string]string{}}
	root := filepath.Join(base, fmt.Sprintf("s%d", sc.ID))
	defer os.RemoveAll(root)
	sub := func(s string) string { return strings.ReplaceAll(s, pxRoot, root) }
	unsub := func(s string) string { return strings.ReplaceAll(s, root, pxRoot) }
	if err := os.MkdirAll(root, 0o755); err != nil {
		res.Err = err.Error()
		return res
	}
	for _, d := range sc.Dirs {
		if err := os.MkdirAll(filepath.Join(root, filepath.FromSlash(d)), 0o755); err != nil {
			res.Err = err.Error()
			return res
		}
	}
	for rel, text := range sc.Files {
		if err := clWrite(filepath.Join(root, filepath.FromSlash(rel)), sub(text)); err != nil {
			res.Err = err.Error()
			return res
		}
	}
	for _, rel := range sc.Exec {
		if err := os.Chmod(filepath.Join(root, filepath.FromSlash(rel)), 0o755); err != nil {
			res.Err = err.Error()
			return res
		}
	}
	for _, r := range sc.Runs {
		ctx, cancel := context.WithTimeout(context.Background(), 60*time.Second)
		argv := make([]string, len(r.Argv))
		for i, a := range r.Argv {
			argv[i] = sub(a)
		}
		cmd := exec.CommandContext(ctx, binary, argv...)
		cmd.Dir = filepath.Join(root, filepath.FromSlash(sub(r.Cwd)))
		if filepath.IsAbs(sub(r.Cwd)) {
			cmd.Dir = sub(r.Cwd)
		}
		path := "/usr/bin:/bin"
		if filepath.IsAbs(r.Path) {
			// shared directory prepared by the caller before any process is started (an executable written by this
			// process while another goroutine forks can fail with ETXTBSY)
			path = r.Path + ":" + path
		} else if r.Path != "" {
			path = filepath.Join(root, filepath.FromSlash(r.Path)) + ":" + path
		}
		cmd.Env = []string{"PATH=" + path, "HOME=" + root}
		cmd.Stdin = strings.NewReader(r.Stdin)
		var so, se bytes.Buffer
		cmd.Stdout, cmd.Stderr = &so, &se
		err := cmd.Run()
		rr := pxRunResult{Stdout: unsub(so.String()), Stderr: unsub(se.String())}
		if ctx.Err() != nil {
			rr.Timeout = true
			rr.RC = -1
		} else if err != nil {
			if ee, ok := err.(*exec.ExitError); ok {
				rr.RC = ee.ExitCode()
			} else {
				rr.RC = -2
				rr.Err = err.Error()
			}
		}
		cancel()
		res.Runs = append(res.Runs, rr)
	}
	for _, rel := range sc.Readback {
		if b, err := os.ReadFile(filepath.Join(root, filepath.FromSlash(rel))); err == nil {
			res.Files[rel] = unsub(string(b))
		}
	}
	return res
}

func init() {
	register("px-run", func(args []string) error {
		if len(args) < 4 {
			return fmt.Errorf("usage: px-run <binary> <basedir> <in.jsonl> <out.jsonl>")
		}
		base, err := filepath.Abs(args[1])
		if err != nil {
			return err
		}
		if err := os.MkdirAll(base, 0o755); err != nil {
			return err
		}
		in, err := readJSONL[pxScenario](args[2])
		if err != nil {
			return err
		}
		return writeJSONL(args[3], parallelMap(in, func(sc pxScenario) pxResult { return pxExec(args[0], sc, base) }))
	})
}
