package main

// C10 / C02, binding S: behaviours of Linter.tla (interleavings of the file goroutines at the shared
// caches) are forced onto the real goroutines of Linter.LintFiles through the hook points of
// linter.go / reusable_workflow.go / action_metadata.go (build tag verif).
//
// Hook points that PRECEDE an operation are holds: the goroutine parks there until the controller
// reaches the step of the behaviour that performs the operation.
//     file-go       -> Start(f)
//     rw-reg-read   -> RegRead(f)        rw-reg-write -> RegWrite(f)
//     rw-read       -> ReadCache(f)      rw-write     -> MissWrite(f)      (reusable workflows)
//     ac-read       -> ReadCache(f)      ac-write     -> MissWrite(f)      (local actions)
// Points that FOLLOW an operation (rw-hit, rw-miss, rw-reg-hit, ac-hit, ac-miss, file-done) pass through
// and are recorded: they are the observed outcome of the step.

import (
	"bytes"
	"fmt"
	"os"
	"path/filepath"
	"runtime"
	"strings"
	"sync"
	"time"

	"github.com/rhysd/actionlint"
)

type schedStep struct {
	File string `json:"f"` // argument (path relative to the temp root)
	Act  string `json:"a"` // start | regread | regwrite | read | write | finish
}

type schedCase struct {
	ID         int         `json:"id"`
	Name       string      `json:"name"`
	Files      []repoFile  `json:"files"`
	Dirs       []string    `json:"dirs"`
	Args       []string    `json:"args"`
	Cwd        string      `json:"cwd"`
	Schedule   []schedStep `json:"schedule"` // empty = free run (record mode)
	Single     bool        `json:"single"`
	GoMaxProcs int         `json:"gomaxprocs"`
}

type schedEvent struct {
	Seq  int    `json:"seq"`
	File string `json:"file"`
	Kind string `json:"kind"`
	Spec string `json:"spec"`
}

type schedResult struct {
	ID       int                   `json:"id"`
	Name     string                `json:"name"`
	Events   []schedEvent          `json:"events"`
	Diags    []fileDiag            `json:"diags"`
	Fatal    string                `json:"fatal"`
	Stuck    string                `json:"stuck"`
	Followed int                   `json:"followed"` // steps of the schedule performed under control
	Single   map[string][]fileDiag `json:"single,omitempty"`
	Panic    string                `json:"panic,omitempty"`
}

var schedClass = map[string]string{"file-go": "start", "rw-reg-read": "regread", "rw-reg-write": "regwrite",
	"rw-read": "read", "ac-read": "read", "rw-write": "write", "ac-write": "write"}

type parked struct {
	class string
	ch    chan struct{}
}

type schedGate struct {
	mu      sync.Mutex
	root    string
	gated   bool
	free    bool
	fileOf  map[int]string // goroutine id -> argument
	parked  map[string]*parked
	done    map[string]bool
	events  []schedEvent
	arrived chan struct{}
}

func (g *schedGate) rel(p string) string {
	if r, err := filepath.Rel(g.root, p); err == nil && !strings.HasPrefix(r, "..") {
		return r
	}
	return p
}

func (g *schedGate) hook(ev actionlint.VerifEvent) {
	gid := goid()
	g.mu.Lock()
	file, known := g.fileOf[gid]
	if ev.Kind == "file-go" {
		file = g.rel(ev.Group)
		g.fileOf[gid] = file
		known = true
	}
	if !known {
		g.mu.Unlock()
		return // not a file goroutine of the run under control (e.g. the single-file reference runs)
	}
	spec := ev.Group
	if ev.Kind == "file-go" || ev.Kind == "file-done" {
		spec = ""
	}
	g.events = append(g.events, schedEvent{Seq: len(g.events) + 1, File: file, Kind: ev.Kind, Spec: spec})
	if ev.Kind == "file-done" {
		g.done[file] = true
		delete(g.fileOf, gid)
	}
	var ch chan struct{}
	if cl, hold := schedClass[ev.Kind]; hold && g.gated && !g.free {
		ch = make(chan struct{})
		g.parked[file] = &parked{class: cl, ch: ch}
	}
	g.mu.Unlock()
	select {
	case g.arrived <- struct{}{}:
	default:
	}
	if ch != nil {
		<-ch
	}
}

func (g *schedGate) releaseAll() {
	g.mu.Lock()
	g.free = true
	for f, p := range g.parked {
		close(p.ch)
		delete(g.parked, f)
	}
	g.mu.Unlock()
}

// waitFor blocks until cond holds (evaluated under the lock) or the timeout expires
func (g *schedGate) waitFor(cond func() bool, to time.Duration, finished <-chan struct{}) bool {
	deadline := time.Now().Add(to)
	for {
		g.mu.Lock()
		ok := cond()
		g.mu.Unlock()
		if ok {
			return true
		}
		if time.Now().After(deadline) {
			return false
		}
		select {
		case <-g.arrived:
		case <-finished:
			g.mu.Lock()
			ok := cond()
			g.mu.Unlock()
			return ok
		case <-time.After(2 * time.Millisecond):
		}
	}
}

func runSchedCase(c schedCase) (res schedResult) {
	res = schedResult{ID: c.ID, Name: c.Name}
	defer func() {
		if r := recover(); r != nil {
			res.Panic = fmt.Sprint(r)
		}
	}()
	root, err := materialise(detCase{Files: c.Files, Dirs: c.Dirs})
	if root != "" {
		defer os.RemoveAll(root)
	}
	if err != nil {
		res.Panic = "materialise: " + err.Error()
		return
	}
	if r, err := filepath.EvalSymlinks(root); err == nil {
		root = r
	}
	cwd := filepath.Join(root, c.Cwd)
	abs := make([]string, len(c.Args))
	for i, a := range c.Args {
		abs[i] = filepath.Join(root, a)
	}
	if c.GoMaxProcs > 0 {
		old := runtime.GOMAXPROCS(c.GoMaxProcs)
		defer runtime.GOMAXPROCS(old)
	}
	g := &schedGate{root: root, gated: len(c.Schedule) > 0, fileOf: map[int]string{}, parked: map[string]*parked{}, done: map[string]bool{},
		arrived: make(chan struct{}, 4096)}
	actionlint.SetVerifHook(g.hook)
	defer actionlint.SetVerifHook(nil)

	var buf bytes.Buffer
	l, err := actionlint.NewLinter(&buf, &actionlint.LinterOptions{Color: actionlint.ColorOptionKindNever, WorkingDir: cwd})
	if err != nil {
		res.Panic = "NewLinter: " + err.Error()
		return
	}
	finished := make(chan struct{})
	var errs []*actionlint.Error
	var ferr error
	var pan interface{}
	go func() {
		defer close(finished)
		defer func() { pan = recover() }()
		errs, ferr = l.LintFiles(abs, nil)
	}()

	const to = 5 * time.Second
	for i, st := range c.Schedule {
		f := st.File
		if st.Act == "finish" {
			if !g.waitFor(func() bool { return g.done[f] }, to, finished) {
				res.Stuck = fmt.Sprintf("step %d: %s never finished", i+1, f)
				break
			}
			res.Followed++
			continue
		}
		if !g.waitFor(func() bool { p := g.parked[f]; return p != nil }, to, finished) {
			res.Stuck = fmt.Sprintf("step %d (%s %s): the goroutine of the file never reached a hold point", i+1, st.Act, f)
			break
		}
		g.mu.Lock()
		p := g.parked[f]
		if p.class != st.Act {
			g.mu.Unlock()
			res.Stuck = fmt.Sprintf("step %d: behaviour says %s for %s, the real goroutine is at %s", i+1, st.Act, f, p.class)
			break
		}
		delete(g.parked, f)
		close(p.ch)
		g.mu.Unlock()
		// the step is complete when the goroutine reaches its next hold point or finishes
		if !g.waitFor(func() bool { return g.parked[f] != nil || g.done[f] }, to, finished) {
			res.Stuck = fmt.Sprintf("step %d (%s %s): no progress after the release", i+1, st.Act, f)
			break
		}
		res.Followed++
	}
	g.releaseAll()
	select {
	case <-finished:
	case <-time.After(60 * time.Second):
		res.Panic = "HANG: LintFiles did not return within 60 s after the gate was opened"
		return
	}
	actionlint.SetVerifHook(nil)
	if pan != nil {
		res.Panic = fmt.Sprint(pan)
		return
	}
	if ferr != nil {
		res.Fatal = strings.ReplaceAll(ferr.Error(), root, "<root>")
	}
	res.Diags = fileDiags(errs)
	for i := range res.Diags {
		res.Diags[i].Msg = strings.ReplaceAll(res.Diags[i].Msg, root, "<root>")
	}
	g.mu.Lock()
	res.Events = g.events
	g.mu.Unlock()
	if c.Single {
		res.Single = map[string][]fileDiag{}
		for i, a := range c.Args {
			var b bytes.Buffer
			l, err := actionlint.NewLinter(&b, &actionlint.LinterOptions{Color: actionlint.ColorOptionKindNever, WorkingDir: cwd})
			if err != nil {
				res.Panic = "NewLinter: " + err.Error()
				return
			}
			es, _ := l.LintFile(abs[i], nil)
			ds := fileDiags(es)
			for k := range ds {
				ds[k].Msg = strings.ReplaceAll(ds[k].Msg, root, "<root>")
			}
			res.Single[a] = ds
		}
	}
	return
}

func init() {
	// sched-run <cases.jsonl> <out.jsonl>
	register("sched-run", func(args []string) error {
		cases, err := readJSONL[schedCase](args[0])
		if err != nil {
			return err
		}
		out := make([]schedResult, 0, len(cases))
		for _, c := range cases { // sequential: the hook is process-wide
			out = append(out, runSchedCase(c))
		}
		return writeJSONL(args[1], out)
	})
}
