package main

// EXT01 - value domains of the linter rules (spec/RuleDomains.tla).
//
//   rd-run  <in.jsonl> <out.jsonl>   {id, v}: v is a vector of RuleDomains.tla.  Renders a workflow that is clean except
//                                    for the value(s) under test, runs the real Linter.Lint and classifies the
//                                    diagnostics of the rule under test by anchor phrase -> {c: class, w: where, p: partner}.
//                                    "where" is the name of the token the diagnostic points at (positions recorded while
//                                    rendering).  Diagnostics of other rules are only listed by kind (`foreign`);
//                                    syntax errors, unknown messages and unmapped positions go to `other` (inconclusive).
//   rd-show <vector-json>            print the rendered workflow and its diagnostics
//
// Nothing here knows which values are valid: predictions come from TLC.

import (
	"encoding/json"
	"fmt"
	"os"
	"path/filepath"
	"regexp"
	"strconv"
	"strings"
	"unicode/utf8"

	"github.com/rhysd/actionlint"
)

type rdIn struct {
	ID int             `json:"id"`
	V  json.RawMessage `json:"v"`
}

type rdDiag struct {
	C string `json:"c"`
	W string `json:"w"`
	P string `json:"p"`
}

type rdOut struct {
	ID      int      `json:"id"`
	Diags   []rdDiag `json:"diags"`
	Foreign []string `json:"foreign"`
	Other   []string `json:"other"`
	Src     string   `json:"src"`
	Cfg     string   `json:"cfg,omitempty"`
}

// ---------------------------------------------------------------------------------------------
// text builder with named positions

type rdPos struct{ line, col int }

type rdB struct {
	sb    strings.Builder
	line  int
	col   int
	marks map[rdPos]string
	err   error
}

func newRdB() *rdB { return &rdB{line: 1, col: 1, marks: map[rdPos]string{}} }

func (b *rdB) w(s string) {
	b.sb.WriteString(s)
	for _, r := range s {
		if r == '\n' {
			b.line++
			b.col = 1
		} else {
			b.col++
		}
	}
}

func (b *rdB) ln(s string) { b.w(s + "\n") }

// mark names the token that starts at the current position
func (b *rdB) mark(name string) {
	p := rdPos{b.line, b.col}
	if old, ok := b.marks[p]; ok && old != name {
		b.err = fmt.Errorf("two tokens at %d:%d: %s, %s", p.line, p.col, old, name)
	}
	b.marks[p] = name
}

// rdQ writes a double-quoted YAML scalar
func rdQ(s string) string {
	var sb strings.Builder
	sb.WriteByte('"')
	for _, r := range s {
		switch r {
		case '"':
			sb.WriteString(`\"`)
		case '\\':
			sb.WriteString(`\\`)
		case '\n':
			sb.WriteString(`\n`)
		case '\t':
			sb.WriteString(`\t`)
		default:
			sb.WriteRune(r)
		}
	}
	sb.WriteByte('"')
	return sb.String()
}

func rdJoin(syms []string, m map[string]string) string {
	var sb strings.Builder
	for _, s := range syms {
		if t, ok := m[s]; ok {
			sb.WriteString(t)
		} else {
			sb.WriteString(s)
		}
	}
	return sb.String()
}

const rdStepsTail = "    steps:\n      - run: echo\n"

// ---------------------------------------------------------------------------------------------
// vectors

type rdFrag struct {
	Cmd  string   `json:"cmd"`
	Sep  string   `json:"sep"`
	Name []string `json:"name"`
	Val  string   `json:"val"`
}

type rdEl struct {
	K string `json:"k"`
	V string `json:"v"`
}

type rdInput struct {
	Type   string   `json:"type"`
	HasDef bool     `json:"hasdef"`
	Def    []string `json:"def"`
	Opts   []string `json:"opts"`
}

type rdVec struct {
	Rule string `json:"rule"`
	Part string `json:"part"`
	Pos  string `json:"pos"`
	// id, env-var, credentials, if-cond
	S     []string   `json:"s"`
	IDs   [][]string `json:"ids"`
	Split bool       `json:"split"`
	// deprecated-commands
	Frs  []rdFrag `json:"frs"`
	Join string   `json:"join"`
	// permissions
	Form   string     `json:"form"`
	All    string     `json:"all"`
	Scopes [][]string `json:"scopes"`
	// shell-name
	Shell string     `json:"shell"`
	Ro    [][]string `json:"ro"`
	// runner-label
	Cfg string   `json:"cfg"`
	Els []rdEl   `json:"els"`
	Row []string `json:"row"`
	Inc []string `json:"inc"`
	// events
	Hook      string    `json:"hook"`
	Types     []string  `json:"types"`
	Filters   []string  `json:"filters"`
	Workflows bool      `json:"workflows"`
	Inputs    []rdInput `json:"inputs"`
	N         int       `json:"n"`
	Type      string    `json:"type"`
	HasDef    bool      `json:"hasdef"`
	Def       []string  `json:"def"`
	Req       string    `json:"req"`
}

var rdIDSyms = map[string]string{"$": "${{ 'x' }}"}
var rdEnvSyms = map[string]string{"$": "${{ 'x' }}", "t": "\t"}
var rdCredSyms = map[string]string{"P": "${{ secrets.PW }}", "T": "pw", "W": " ", "N": "\n", "B": "}}"}
var rdIfSyms = map[string]string{"P": "${{ true }}", "T": "true", "W": " ", "N": "\n", "O": " && ", "B": "}}"}
var rdCallSyms = map[string]string{"$": "${{ vars.X }}"}

func rdRender(v *rdVec) (*rdB, error) {
	b := newRdB()
	switch v.Rule {
	case "id":
		rdRenderID(b, v)
	case "env-var":
		rdRenderEnv(b, v)
	case "credentials":
		rdRenderCred(b, v)
	case "if-cond":
		rdRenderIf(b, v)
	case "deprecated-commands":
		rdRenderCmd(b, v)
	case "permissions":
		rdRenderPerm(b, v)
	case "shell-name":
		rdRenderShell(b, v)
	case "runner-label":
		rdRenderLabel(b, v)
	case "events":
		switch v.Part {
		case "webhook":
			rdRenderWebhook(b, v)
		case "dispatch", "dispatch-count":
			rdRenderDispatch(b, v)
		case "call":
			rdRenderCall(b, v)
		default:
			return nil, fmt.Errorf("unknown part %q of events", v.Part)
		}
	default:
		return nil, fmt.Errorf("unknown rule %q", v.Rule)
	}
	return b, b.err
}

func rdRenderID(b *rdB, v *rdVec) {
	b.ln("on: push")
	b.ln("jobs:")
	if v.Part == "dup" {
		n := len(v.IDs)
		first := n
		if v.Split {
			first = n - 1
		}
		step := func(i int) {
			b.w("      - id: ")
			b.mark("s" + strconv.Itoa(i+1))
			b.ln(rdQ(rdJoin(v.IDs[i], rdIDSyms)))
			b.ln("        run: echo")
		}
		b.ln("  test:")
		b.ln("    runs-on: ubuntu-latest")
		b.ln("    steps:")
		b.ln("      - run: echo")
		for i := 0; i < first; i++ {
			step(i)
		}
		if v.Split {
			b.ln("  other:")
			b.ln("    runs-on: ubuntu-latest")
			b.ln("    steps:")
			step(n - 1)
		}
		return
	}
	id := rdQ(rdJoin(v.S, rdIDSyms))
	switch v.Pos {
	case "job":
		b.w("  ")
		b.mark("id")
		b.ln(id + ":")
		b.ln("    runs-on: ubuntu-latest")
		b.w(rdStepsTail)
	case "needs":
		b.ln("  test:")
		b.w("    needs: [")
		b.mark("id")
		b.ln(id + "]")
		b.ln("    runs-on: ubuntu-latest")
		b.w(rdStepsTail)
	case "step":
		b.ln("  test:")
		b.ln("    runs-on: ubuntu-latest")
		b.ln("    steps:")
		b.w("      - id: ")
		b.mark("id")
		b.ln(id)
		b.ln("        run: echo")
	default:
		b.err = fmt.Errorf("id: unknown position %q", v.Pos)
	}
}

// rdContainer writes a job `test` whose container (or service `db`) holds the given lines (relative indentation)
func rdJobWithContainer(b *rdB, service bool, body func(indent string)) {
	b.ln("on: push")
	b.ln("jobs:")
	b.ln("  test:")
	b.ln("    runs-on: ubuntu-latest")
	if service {
		b.ln("    services:")
		b.ln("      db:")
		b.ln("        image: postgres:16")
		body("        ")
	} else {
		b.ln("    container:")
		b.ln("      image: alpine:3")
		body("      ")
	}
	b.w(rdStepsTail)
}

func rdRenderEnv(b *rdB, v *rdVec) {
	name := rdQ(rdJoin(v.S, rdEnvSyms))
	env := func(indent string) {
		b.ln(indent + "env:")
		b.w(indent + "  ")
		b.mark("name")
		b.ln(name + ": value")
	}
	switch v.Pos {
	case "workflow":
		b.ln("on: push")
		env("")
		b.ln("jobs:")
		b.ln("  test:")
		b.ln("    runs-on: ubuntu-latest")
		b.w(rdStepsTail)
	case "job":
		b.ln("on: push")
		b.ln("jobs:")
		b.ln("  test:")
		b.ln("    runs-on: ubuntu-latest")
		env("    ")
		b.w(rdStepsTail)
	case "step":
		b.ln("on: push")
		b.ln("jobs:")
		b.ln("  test:")
		b.ln("    runs-on: ubuntu-latest")
		b.ln("    steps:")
		b.ln("      - run: echo")
		env("        ")
	case "container":
		rdJobWithContainer(b, false, env)
	case "service":
		rdJobWithContainer(b, true, env)
	default:
		b.err = fmt.Errorf("env-var: unknown position %q", v.Pos)
	}
}

func rdRenderCred(b *rdB, v *rdVec) {
	val := rdQ(rdJoin(v.S, rdCredSyms))
	cred := func(indent string) {
		b.ln(indent + "credentials:")
		b.ln(indent + "  username: user")
		b.w(indent + "  password: ")
		b.mark("password")
		b.ln(val)
	}
	switch v.Pos {
	case "container":
		rdJobWithContainer(b, false, cred)
	case "service":
		rdJobWithContainer(b, true, cred)
	default:
		b.err = fmt.Errorf("credentials: unknown position %q", v.Pos)
	}
}

func rdRenderIf(b *rdB, v *rdVec) {
	val := rdQ(rdJoin(v.S, rdIfSyms))
	b.ln("on: push")
	b.ln("jobs:")
	b.ln("  test:")
	b.ln("    runs-on: ubuntu-latest")
	switch v.Pos {
	case "job":
		b.w("    if: ")
		b.mark("if")
		b.ln(val)
		b.w(rdStepsTail)
	case "step":
		b.ln("    steps:")
		b.ln("      - run: echo")
		b.w("        if: ")
		b.mark("if")
		b.ln(val)
	default:
		b.err = fmt.Errorf("if-cond: unknown position %q", v.Pos)
	}
}

func rdFragText(f rdFrag) (string, error) {
	if f.Sep == "none" {
		return "::" + f.Cmd + "::" + f.Val, nil
	}
	sep, ok := map[string]string{"sp": " ", "sp2": "  ", "tab": "\t"}[f.Sep]
	if !ok {
		return "", fmt.Errorf("unknown separator %q", f.Sep)
	}
	return "::" + f.Cmd + sep + "name=" + strings.Join(f.Name, "") + "::" + f.Val, nil
}

func rdRenderCmd(b *rdB, v *rdVec) {
	var sb strings.Builder
	for i, f := range v.Frs {
		t, err := rdFragText(f)
		if err != nil {
			b.err = err
			return
		}
		switch {
		case i == 0:
			sb.WriteString("echo ")
		case v.Join == "sp":
			sb.WriteString(" ")
		default:
			sb.WriteString("\necho ")
		}
		sb.WriteString(t)
	}
	b.ln("on: push")
	b.ln("jobs:")
	b.ln("  test:")
	b.ln("    runs-on: ubuntu-latest")
	b.ln("    steps:")
	b.w("      - run: ")
	b.mark("run")
	b.ln(rdQ(sb.String()))
}

func rdRenderPerm(b *rdB, v *rdVec) {
	perm := func(indent string) {
		if v.Form == "all" {
			b.w(indent + "permissions: ")
			b.mark("all")
			b.ln(rdQ(v.All))
			return
		}
		if len(v.Scopes) == 0 {
			b.ln(indent + "permissions: {}")
			return
		}
		b.ln(indent + "permissions:")
		for i, kv := range v.Scopes {
			b.w(indent + "  ")
			b.mark("k" + strconv.Itoa(i+1))
			b.w(rdQ(kv[0]) + ": ")
			b.mark("v" + strconv.Itoa(i+1))
			b.ln(rdQ(kv[1]))
		}
	}
	b.ln("on: push")
	if v.Pos == "workflow" {
		perm("")
	}
	b.ln("jobs:")
	b.ln("  test:")
	b.ln("    runs-on: ubuntu-latest")
	if v.Pos == "job" {
		perm("    ")
	}
	b.w(rdStepsTail)
	if v.Pos != "workflow" && v.Pos != "job" {
		b.err = fmt.Errorf("permissions: unknown position %q", v.Pos)
	}
}

func rdRenderShell(b *rdB, v *rdVec) {
	shell := v.Shell
	if shell == "$shell" {
		shell = "${{ matrix.shell }}"
	}
	labels := make([]string, 0, len(v.Ro))
	for _, l := range v.Ro {
		t := strings.Join(l, "")
		if l[0] == "$mx" {
			t = "${{ matrix.os }}"
		}
		labels = append(labels, rdQ(t))
	}
	sh := func(indent string) {
		b.w(indent + "shell: ")
		b.mark("shell")
		b.ln(rdQ(shell))
	}
	b.ln("on: push")
	if v.Pos == "wf-default" {
		b.ln("defaults:")
		b.ln("  run:")
		sh("    ")
	}
	b.ln("jobs:")
	b.ln("  test:")
	b.ln("    strategy:")
	b.ln("      matrix:")
	b.ln("        os: [ubuntu-latest, windows-latest]")
	b.ln("        shell: [bash, pwsh]")
	if len(labels) == 1 {
		b.ln("    runs-on: " + labels[0])
	} else {
		b.ln("    runs-on: [" + strings.Join(labels, ", ") + "]")
	}
	if v.Pos == "job-default" {
		b.ln("    defaults:")
		b.ln("      run:")
		sh("        ")
	}
	b.ln("    steps:")
	b.ln("      - run: echo")
	switch v.Pos {
	case "step":
		sh("        ")
	case "job-default", "wf-default":
	default:
		b.err = fmt.Errorf("shell-name: unknown position %q", v.Pos)
	}
}

func rdRenderLabel(b *rdB, v *rdVec) {
	mval := func(s string) string {
		if s == "$x" {
			return rdQ("${{ github.sha }}")
		}
		return rdQ(s)
	}
	b.ln("on: push")
	b.ln("jobs:")
	b.ln("  test:")
	if len(v.Row) > 0 || len(v.Inc) > 0 {
		b.ln("    strategy:")
		b.ln("      matrix:")
		if len(v.Row) > 0 {
			b.ln("        os:")
			for j, l := range v.Row {
				b.w("          - ")
				b.mark("r" + strconv.Itoa(j+1))
				b.ln(mval(l))
			}
		}
		if len(v.Inc) > 0 {
			b.ln("        include:")
			for k, l := range v.Inc {
				b.w("          - os: ")
				b.mark("i" + strconv.Itoa(k+1))
				b.ln(mval(l))
			}
		}
	}
	el := func(i int) {
		e := v.Els[i]
		b.mark("l" + strconv.Itoa(i+1))
		switch e.K {
		case "lit":
			b.ln(rdQ(e.V))
		case "mx":
			b.ln(rdQ("${{ matrix.os }}"))
		case "mxtext":
			b.ln(rdQ("${{ matrix.os }}-x"))
		default:
			b.err = fmt.Errorf("runner-label: unknown element kind %q", e.K)
		}
	}
	switch v.Form {
	case "scalar", "mscalar":
		if len(v.Els) != 1 {
			b.err = fmt.Errorf("runner-label: scalar form with %d labels", len(v.Els))
			return
		}
		if v.Form == "scalar" {
			b.w("    runs-on: ")
		} else {
			b.ln("    runs-on:")
			b.w("      labels: ")
		}
		el(0)
	case "seq", "mseq":
		indent := "      "
		b.ln("    runs-on:")
		if v.Form == "mseq" {
			b.ln("      labels:")
			indent = "        "
		}
		for i := range v.Els {
			b.w(indent + "- ")
			el(i)
		}
	default:
		b.err = fmt.Errorf("runner-label: unknown form %q", v.Form)
	}
	b.w(rdStepsTail)
}

const rdJobsTail = "jobs:\n  test:\n    runs-on: ubuntu-latest\n    steps:\n      - run: echo\n"

var rdFilterValue = map[string]string{
	"branches": "main", "branches-ignore": "dev", "tags": "v1", "tags-ignore": "v0",
	"paths": "\"src/**\"", "paths-ignore": "\"docs/**\"",
}

func rdRenderWebhook(b *rdB, v *rdVec) {
	switch v.Form {
	case "scalar":
		b.w("on: ")
		b.mark("hook")
		b.ln(v.Hook)
	case "seq":
		b.ln("on:")
		b.w("  - ")
		b.mark("hook")
		b.ln(v.Hook)
	case "map":
		b.ln("on:")
		b.w("  ")
		b.mark("hook")
		b.ln(v.Hook + ":")
		if len(v.Types) > 0 {
			b.ln("    types:")
			for i, t := range v.Types {
				b.w("      - ")
				b.mark("t" + strconv.Itoa(i+1))
				b.ln(t)
			}
		}
		for _, f := range v.Filters {
			val, ok := rdFilterValue[f]
			if !ok {
				b.err = fmt.Errorf("events: unknown filter %q", f)
				return
			}
			b.w("    ")
			b.mark("f:" + f)
			b.ln(f + ":")
			b.ln("      - " + val)
		}
		if v.Workflows {
			b.ln("    workflows:")
			b.ln("      - CI")
		}
	default:
		b.err = fmt.Errorf("events: unknown form %q", v.Form)
	}
	b.w(rdJobsTail)
}

func rdRenderDispatch(b *rdB, v *rdVec) {
	inputs := v.Inputs
	if v.Part == "dispatch-count" {
		for i := 0; i < v.N; i++ {
			inputs = append(inputs, rdInput{Type: "string"})
		}
	}
	b.ln("on:")
	b.w("  ")
	b.mark("event")
	b.ln("workflow_dispatch:")
	if len(inputs) > 0 {
		b.ln("    inputs:")
	}
	for i, in := range inputs {
		n := "in" + strconv.Itoa(i+1)
		b.w("      ")
		b.mark(n + ":name")
		b.ln(n + ":")
		b.ln("        description: input " + strconv.Itoa(i+1))
		if in.Type != "none" {
			b.ln("        type: " + in.Type)
		}
		if in.HasDef {
			b.w("        default: ")
			b.mark(n + ":default")
			b.ln(rdQ(strings.Join(in.Def, "")))
		}
		if len(in.Opts) > 0 {
			b.ln("        options:")
			for j, o := range in.Opts {
				b.w("          - ")
				b.mark(n + ":opt" + strconv.Itoa(j+1))
				b.ln(rdQ(o))
			}
		}
	}
	b.w(rdJobsTail)
}

func rdRenderCall(b *rdB, v *rdVec) {
	b.ln("on:")
	b.ln("  workflow_call:")
	b.ln("    inputs:")
	b.ln("      in1:")
	b.ln("        type: " + v.Type)
	switch v.Req {
	case "true", "false":
		b.ln("        required: " + v.Req)
	case "absent":
	default:
		b.err = fmt.Errorf("events: unknown required %q", v.Req)
	}
	if v.HasDef {
		b.w("        default: ")
		b.mark("default")
		b.ln(rdQ(rdJoin(v.Def, rdCallSyms)))
	}
	b.w(rdJobsTail)
}

// ---------------------------------------------------------------------------------------------
// classification: rule kind + anchor phrase -> class

type rdAnchor struct {
	re      *regexp.Regexp
	class   string // "" = first capture group is the class
	partner bool   // message carries "line:L,col:C" of a second token
}

func rdA(re, class string) rdAnchor { return rdAnchor{regexp.MustCompile(re), class, false} }

var rdAnchors = map[string][]rdAnchor{
	"events": {
		rdA(`^unknown Webhook event "`, "unknown-event"),
		rdA(`^"types" cannot be specified for "`, "types-not-allowed"),
		rdA(`^invalid activity type "`, "bad-type"),
		rdA(`^no workflow is configured for "workflow_run" event`, "no-workflows"),
		rdA(`^"workflows" cannot be configured for "`, "workflows-unavailable"),
		rdA(`^"[a-z-]+" filter is not available for `, "filter-unavailable"),
		rdA(`^both "[a-z-]+" and "[a-z-]+" filters cannot be used for the same event`, "exclusive"),
		rdA(`^input type of "[^"]*" is "choice" but "options" is not set`, "no-options"),
		rdA(`^option "[^"]*" is duplicated in options of "`, "dup-option"),
		rdA(`^default value "[^"]*" of "[^"]*" input is not included in its options`, "default-not-in-options"),
		rdA(`^"options" can not be set to "`, "options-not-choice"),
		rdA(`^type of "[^"]*" input is "number" but its default value `, "bad-number-default"),
		rdA(`^type of "[^"]*" input is "boolean"\. its default value `, "bad-bool-default"),
		rdA(`^maximum number of inputs for "workflow_dispatch" event is 10 but `, "too-many-inputs"),
		rdA(`^input of workflow_call event "[^"]*" is typed as number but its default value `, "bad-number-default"),
		rdA(`^input of workflow_call event "[^"]*" is typed as boolean\. its default value must be true or false`, "bad-bool-default"),
		rdA(`^input "[^"]*" of workflow_call event has the default value .*, but it is also required`, "default-never-used"),
	},
	"permissions": {
		rdA(`is invalid for permission for all the scopes\.`, "bad-all"),
		rdA(`^unknown permission scope "`, "unknown-scope"),
		rdA(`is invalid for permission of scope "`, "bad-value"),
	},
	"shell-name": {
		rdA(`^shell name "[^"]*" is invalid on Windows\. available names are `, "invalid-on-windows"),
		rdA(`^shell name "[^"]*" is invalid on macOS or Linux\. available names are `, "invalid-on-unix"),
		rdA(`^shell name "[^"]*" is invalid\. available names are `, "invalid"),
	},
	"runner-label": {
		rdA(`^label "[^"]*" is unknown\. available labels are `, "unknown"),
		{regexp.MustCompile(`^label "[^"]*" conflicts with label "[^"]*" defined at line:(\d+),col:(\d+)\.`), "conflict", true},
	},
	"id": {
		rdA(`^invalid job ID "`, "invalid-job-id"),
		rdA(`^invalid step ID "`, "invalid-step-id"),
		{regexp.MustCompile(`^step ID "[^"]*" duplicates\. previously defined at line:(\d+),col:(\d+)\.`), "dup-step-id", true},
	},
	"env-var": {
		rdA(`^environment variable name "(?s:.*)" is invalid\. '&', '=' and spaces should not be contained`, "invalid-name"),
	},
	"credentials": {
		rdA(`^"password" section in ("container" section|"[^"]*" service) should be specified via secrets\.`, "hardcoded"),
	},
	"deprecated-commands": {
		rdA(`^workflow command "([a-z-]+)" was deprecated\. use `, ""),
	},
	"if-cond": {
		rdA(`^if: condition "(?s:.*)" is always evaluated to true because extra characters are around \$\{\{ \}\}`, "always-true"),
	},
}

func rdClassify(out *rdOut, rule string, marks map[rdPos]string, errs []*actionlint.Error) {
	seenForeign := map[string]bool{}
	for _, e := range errs {
		loc := fmt.Sprintf("%d:%d [%s] %s", e.Line, e.Column, e.Kind, e.Message)
		if e.Kind != rule {
			if e.Kind == "syntax-check" || e.Kind == "yaml-syntax" {
				out.Other = append(out.Other, "rendering rejected by the parser: "+loc)
			} else if !seenForeign[e.Kind] {
				seenForeign[e.Kind] = true
				out.Foreign = append(out.Foreign, e.Kind)
			}
			continue
		}
		var d *rdDiag
		for _, a := range rdAnchors[rule] {
			m := a.re.FindStringSubmatch(e.Message)
			if m == nil {
				continue
			}
			d = &rdDiag{C: a.class}
			if a.class == "" {
				d.C = m[1]
			}
			if a.partner {
				l, _ := strconv.Atoi(m[1])
				c, _ := strconv.Atoi(m[2])
				if name, ok := marks[rdPos{l, c}]; ok {
					d.P = name
				} else {
					d.P = fmt.Sprintf("unmapped %d:%d", l, c)
				}
			}
			break
		}
		if d == nil {
			out.Other = append(out.Other, "unknown message of the rule: "+loc)
			continue
		}
		if name, ok := marks[rdPos{e.Line, e.Column}]; ok {
			d.W = name
		} else {
			d.W = fmt.Sprintf("unmapped %d:%d", e.Line, e.Column)
		}
		out.Diags = append(out.Diags, *d)
	}
}

// ---------------------------------------------------------------------------------------------

var rdConfigFile string

func rdSetup() (func(), error) {
	dir, err := os.MkdirTemp("", "rd-cfg-")
	if err != nil {
		return nil, err
	}
	rdConfigFile = filepath.Join(dir, "actionlint.yaml")
	cfg := "self-hosted-runner:\n  labels:\n    - gpu\n    - big-*\n"
	if err := os.WriteFile(rdConfigFile, []byte(cfg), 0o644); err != nil {
		return nil, err
	}
	return func() { os.RemoveAll(dir) }, nil
}

func rdRun(in rdIn) (out rdOut) {
	out = rdOut{ID: in.ID, Diags: []rdDiag{}, Foreign: []string{}, Other: []string{}}
	defer func() {
		if r := recover(); r != nil {
			out.Other = append(out.Other, fmt.Sprintf("panic: %v", r))
		}
	}()
	var v rdVec
	if err := json.Unmarshal(in.V, &v); err != nil {
		out.Other = append(out.Other, "vector: "+err.Error())
		return out
	}
	b, err := rdRender(&v)
	if err != nil {
		out.Other = append(out.Other, "render: "+err.Error())
		return out
	}
	out.Src = b.sb.String()
	if !utf8.ValidString(out.Src) {
		out.Other = append(out.Other, "render: invalid UTF-8")
		return out
	}
	opts := &actionlint.LinterOptions{}
	if v.Rule == "runner-label" && v.Cfg == "custom" {
		opts.ConfigFile = rdConfigFile
		out.Cfg = "self-hosted-runner.labels: [gpu, big-*]"
	}
	l, err := newLinter(opts)
	if err != nil {
		out.Other = append(out.Other, "linter: "+err.Error())
		return out
	}
	errs, err := l.Lint("<stdin>", []byte(out.Src), nil)
	if err != nil {
		out.Other = append(out.Other, "lint error: "+err.Error())
		return out
	}
	rdClassify(&out, v.Rule, b.marks, errs)
	return out
}

func init() {
	register("rd-run", func(args []string) error {
		if len(args) < 2 {
			return fmt.Errorf("usage: rd-run <in.jsonl> <out.jsonl>")
		}
		cleanup, err := rdSetup()
		if err != nil {
			return err
		}
		defer cleanup()
		in, err := readJSONL[rdIn](args[0])
		if err != nil {
			return err
		}
		return writeJSONL(args[1], parallelMap(in, rdRun))
	})
	register("rd-show", func(args []string) error {
		if len(args) < 1 {
			return fmt.Errorf("usage: rd-show <vector-json>")
		}
		cleanup, err := rdSetup()
		if err != nil {
			return err
		}
		defer cleanup()
		out := rdRun(rdIn{ID: 0, V: json.RawMessage(args[0])})
		fmt.Print(out.Src)
		if out.Cfg != "" {
			fmt.Println("--- config:", out.Cfg)
		}
		fmt.Printf("--- diags=%v foreign=%v other=%v\n", out.Diags, out.Foreign, out.Other)
		return nil
	})
}
