package main

import (
	"encoding/json"
	"fmt"
	"strings"
)

// JSON form of Matrix.tla values
type mxValue struct {
	K string            `json:"k"`
	V string            `json:"v,omitempty"`
	E []mxValue         `json:"e,omitempty"`
	P []json.RawMessage `json:"p,omitempty"` // pairs [key, value]
}

type mxCombo struct {
	Lit bool                `json:"lit"`
	As  [][]json.RawMessage `json:"as"`
}
type mxSection struct {
	K  string    `json:"k"`
	Cs []mxCombo `json:"cs"`
}
type mxRow struct {
	Name string    `json:"name"`
	Lit  bool      `json:"lit"`
	Vals []mxValue `json:"vals"`
}
type mxMatrix struct {
	Rows    []mxRow   `json:"rows"`
	Include mxSection `json:"include"`
	Exclude mxSection `json:"exclude"`
}
type mxVec struct {
	ID int      `json:"id"`
	M  mxMatrix `json:"m"`
}
type mxDiag struct {
	Kind string `json:"kind"`
	T    string `json:"t"`
	N    string `json:"n"`
	I    int    `json:"i"`
	J    int    `json:"j"`
}
type mxOut struct {
	ID      int      `json:"id"`
	Variant int      `json:"variant"`
	Diags   []mxDiag `json:"diags"`
	Other   []string `json:"other"`
	Src     string   `json:"src"`
}

func mxPair(raw json.RawMessage) (string, mxValue) {
	var pr []json.RawMessage
	var k string
	var v mxValue
	_ = json.Unmarshal(raw, &pr)
	_ = json.Unmarshal(pr[0], &k)
	_ = json.Unmarshal(pr[1], &v)
	return k, v
}

func mxScalar(t string) string {
	switch t {
	case "$x":
		return "'${{ fromJSON(env.X) }}'"
	case "$y":
		return "'pre-${{ env.Y }}'"
	}
	if strings.TrimSpace(t) != t {
		return "'" + t + "'"
	}
	return t
}

// flow-style rendering; variant 1 reverses the member order of mappings and upper-cases their keys
func mxRender(v mxValue, variant int) string {
	switch v.K {
	case "s":
		return mxScalar(v.V)
	case "a":
		parts := make([]string, len(v.E))
		for i, e := range v.E {
			parts[i] = mxRender(e, variant)
		}
		return "[" + strings.Join(parts, ", ") + "]"
	default:
		parts := make([]string, 0, len(v.P))
		for _, raw := range v.P {
			k, val := mxPair(raw)
			if variant == 1 {
				k = strings.ToUpper(k)
			}
			parts = append(parts, k+": "+mxRender(val, variant))
		}
		if variant == 1 {
			for i, j := 0, len(parts)-1; i < j; i, j = i+1, j-1 {
				parts[i], parts[j] = parts[j], parts[i]
			}
		}
		return "{" + strings.Join(parts, ", ") + "}"
	}
}

type mxPos struct{ line, col int }

func mxBuild(m mxMatrix, variant int) (string, map[mxPos]mxDiag, int) {
	var sb strings.Builder
	line := 0
	w := func(s string) { sb.WriteString(s + "\n"); line++ }
	ids := map[mxPos]mxDiag{}
	w("on: push")
	w("jobs:")
	w("  test:")
	w("    runs-on: ubuntu-latest")
	w("    strategy:")
	w("      matrix:")
	matrixLine := line
	rows := m.Rows
	for _, r := range rows {
		name := r.Name
		if variant == 1 {
			name = strings.ToUpper(name)
		}
		if !r.Lit {
			w("        " + name + ": ${{ fromJSON(env.ROW) }}")
			continue
		}
		w("        " + name + ":")
		for i, v := range r.Vals {
			w("          - " + mxRender(v, variant))
			ids[mxPos{line, 13}] = mxDiag{T: "row", N: r.Name, I: i + 1}
		}
	}
	section := func(name string, s mxSection, record bool) {
		switch s.K {
		case "none":
			return
		case "expr":
			w("        " + name + ": ${{ fromJSON(env.SEC) }}")
			return
		}
		w("        " + name + ":")
		for c, combo := range s.Cs {
			if !combo.Lit {
				w("          - ${{ fromJSON(env.ELEM) }}")
				continue
			}
			order := make([]int, len(combo.As))
			for i := range order {
				order[i] = i
			}
			if variant == 1 {
				for i, j := 0, len(order)-1; i < j; i, j = i+1, j-1 {
					order[i], order[j] = order[j], order[i]
				}
			}
			for n, a := range order {
				var key string
				var val mxValue
				_ = json.Unmarshal(combo.As[a][0], &key)
				_ = json.Unmarshal(combo.As[a][1], &val)
				spell := key
				if variant == 1 {
					spell = strings.ToUpper(key)
				}
				prefix := "            "
				if n == 0 {
					prefix = "          - "
				}
				w(prefix + spell + ": " + mxRender(val, variant))
				if record {
					ids[mxPos{line, 13}] = mxDiag{T: "exclude-key", N: key, I: c + 1, J: a + 1}
					ids[mxPos{line, 13 + len(spell) + 2}] = mxDiag{T: "exclude-value", N: key, I: c + 1, J: a + 1}
				}
			}
		}
	}
	section("include", m.Include, false)
	section("exclude", m.Exclude, true)
	if len(rows) == 0 && m.Include.K == "none" && m.Exclude.K == "none" {
		// `matrix:` must not be empty
		sb.Reset()
		return "", nil, 0
	}
	w("    steps:")
	w("      - run: echo")
	return sb.String(), ids, matrixLine
}

func mxRun(v mxVec, variant int) mxOut {
	out := mxOut{ID: v.ID, Variant: variant, Diags: []mxDiag{}, Other: []string{}}
	src, ids, matrixLine := mxBuild(v.M, variant)
	if src == "" {
		out.Other = append(out.Other, "skip")
		return out
	}
	out.Src = src
	diags, err := lintSrc(src)
	if err != nil {
		out.Other = append(out.Other, "error: "+err.Error())
		return out
	}
	for _, d := range diags {
		switch {
		case d.Kind == "syntax-check":
			out.Other = append(out.Other, fmt.Sprintf("syntax-check at %d:%d: %s", d.Line, d.Col, d.Msg))
		case d.Kind != "matrix":
			continue
		default:
			kind := ""
			switch {
			case strings.HasPrefix(d.Msg, "duplicate value "):
				kind = "dup"
			case strings.Contains(d.Msg, "in \"exclude\" section does not exist in matrix"):
				kind = "unknown-key"
			case strings.Contains(d.Msg, "in \"exclude\" does not match in matrix"):
				kind = "no-match"
			case strings.Contains(d.Msg, "\"exclude\" section exists but no matrix variation exists"):
				kind = "no-variation"
			default:
				out.Other = append(out.Other, "unknown matrix message: "+d.Msg)
				continue
			}
			if kind == "no-variation" {
				if d.Line != matrixLine {
					out.Other = append(out.Other, fmt.Sprintf("no-variation reported at line %d, matrix: is at line %d", d.Line, matrixLine))
				}
				out.Diags = append(out.Diags, mxDiag{Kind: kind, T: "matrix"})
				continue
			}
			id, ok := ids[mxPos{d.Line, d.Col}]
			if !ok {
				out.Diags = append(out.Diags, mxDiag{Kind: kind, T: fmt.Sprintf("unmapped position %d:%d", d.Line, d.Col)})
				continue
			}
			id.Kind = kind
			out.Diags = append(out.Diags, id)
		}
	}
	return out
}

func init() {
	// matrix-run <in.jsonl> <out.jsonl>: render each matrix (2 variants) and lint it with the real code
	register("matrix-run", func(args []string) error {
		in, err := readJSONL[mxVec](args[0])
		if err != nil {
			return err
		}
		outs := parallelMap(in, func(v mxVec) []mxOut { return []mxOut{mxRun(v, 0), mxRun(v, 1)} })
		var flat []mxOut
		for _, o := range outs {
			flat = append(flat, o...)
		}
		return writeJSONL(args[1], flat)
	})
}
