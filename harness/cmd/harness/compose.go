package main

// C09: compositions enumerated by spec/Compose.tla, materialised from a catalogue of state-bearing
// constructs.  For each composition the harness lints the COMPOSED workflow and the REDUCED one
// (subject + header + what the subject may depend on) with the real Linter and reports the
// subject's diagnostics in both as multisets of (relative line, column, kind, message).  The verdict
// (equal or not) is a relation between two real outputs and is taken by tools/checks/c09.py.
//
//   compose-run <in.jsonl> <out.jsonl> <reps>
//   c09tool sc|py ...      stand-in for shellcheck / pyflakes: echoes what it was asked to check, so
//                          that the shell state of RuleShellcheck / RulePyflakes becomes observable

import (
	"crypto/sha1"
	"encoding/json"
	"fmt"
	"io"
	"os"
	"os/exec"
	"path/filepath"
	"strings"
	"sync"

	"github.com/rhysd/actionlint"
)

type cmpVec struct {
	ID     int      `json:"id"`
	Lvl    string   `json:"lvl"`
	Hdr    string   `json:"hdr"`
	Cfg    string   `json:"cfg"` // "" / "none": no configuration file; "labels": see cmpConfigLabels
	Subj   string   `json:"subj"`
	Preds  []string `json:"preds"`
	States []string `json:"states"`
	Pos    int      `json:"pos"`
	Place  string   `json:"place"`
	Tools  bool     `json:"tools"`
	NoStub bool     `json:"nostub"` // binding self-test: drop what the subject depends on from the reduced workflow
}

type cmpOut struct {
	ID          int        `json:"id"`
	Composed    [][]string `json:"composed"` // distinct outcomes over the repetitions
	Reduced     [][]string `json:"reduced"`
	Other       []string   `json:"other"`
	SrcComposed string     `json:"src_composed"`
	SrcReduced  string     `json:"src_reduced"`
	// set on the first record of a batch: the process-global type tables differ after the batch
	GlobalChanged bool `json:"global_changed"`
}

type cmpItem struct {
	body string // YAML text, indented for its level; @DEP@ / @SUBJ@ are replaced by job ids
	dep  string // job level: catalogue name of the job the entry needs
	stub string // step level: what remains of an EARLIER step in the reduced job ("" = nothing)
}

var cmpHeaders = map[string]string{
	"push": "on: push\n",
	"pydefault": `on: push
defaults:
  run:
    shell: python
`,
	"call": `on:
  workflow_call:
    inputs:
      include:
        type: string
      flag:
        type: boolean
    secrets:
      tok:
        required: false
`,
	// an input named exclude and none named include: the type of `inputs` has a property the matrix
	// typing removes from its own copy, and no property that makes it take the include path
	"callx": `on:
  workflow_call:
    inputs:
      exclude:
        type: string
      flag:
        type: boolean
    secrets:
      tok:
        required: false
`,
}

var cmpJobs = map[string]cmpItem{
	"plain": {body: `    runs-on: ubuntu-latest
    steps:
      - run: echo hello
`},
	"matrix-lit": {body: `    strategy:
      matrix:
        os: [ubuntu-latest, macos-latest]
        x: [{y: 1}]
        arr: [[1, 2]]
    runs-on: ${{ matrix.os }}
    steps:
      - run: echo ${{ matrix.x.y }} ${{ matrix.nope }}
      - run: echo ${{ matrix.os }}
`},
	"matrix-expr": {body: `    strategy:
      matrix: ${{ fromJSON(vars.MATRIX) }}
    runs-on: ubuntu-latest
    steps:
      - run: echo ${{ matrix.anything }}
`},
	"matrix-include-elem-expr": {body: `    strategy:
      matrix:
        a: [1]
        include:
          - a: 2
            b: 3
          - ${{ fromJSON(vars.ELEMENT) }}
    runs-on: ubuntu-latest
    steps:
      - run: echo ${{ matrix.a }} ${{ matrix.zzz }}
`},
	"matrix-ref-without-matrix": {body: `    runs-on: ubuntu-latest
    steps:
      - run: echo ${{ matrix.os }}
      - run: echo ${{ matrix.a }} ${{ matrix.flag }}
`},
	"matrix-from-inputs": {body: `    strategy:
      matrix: ${{ inputs }}
    runs-on: ubuntu-latest
    steps:
      - run: echo ${{ matrix.flag }}
`},
	"inputs-ref": {body: `    runs-on: ubuntu-latest
    steps:
      - run: echo ${{ inputs.include }} ${{ inputs.exclude }} ${{ inputs.flag }} ${{ inputs.nope }}
      - run: echo ${{ inputs.extra }}
      - run: echo ${{ inputs.flag.deep }}
`},
	"call-with-matrix": {body: `    strategy:
      matrix:
        os: [linux, mac]
        flag: [1]
    uses: octo-org/shared/.github/workflows/build.yml@v1
    with:
      os: ${{ matrix.os }}
`},
	"call-with-needs": {dep: "outputs-job", body: `    needs: [@DEP@]
    uses: octo-org/shared/.github/workflows/build.yml@v1
    with:
      v: ${{ needs.@DEP@.outputs.o }}
      w: ${{ needs.@DEP@.outputs.zz }}
`},
	"matrix-include-context-inputs": {body: `    strategy:
      matrix:
        include:
          - ${{ inputs }}
          - extra: foo
            flag: bar
    runs-on: ubuntu-latest
    steps:
      - run: echo ${{ matrix.extra }}
`},
	"matrix-include-context-github-event": {body: `    strategy:
      matrix:
        include:
          - ${{ github.event }}
          - os: linux
            extra: foo
    runs-on: ubuntu-latest
    steps:
      - run: echo ${{ matrix.os }}
`},
	"matrix-include-context-vars": {body: `    strategy:
      matrix:
        include:
          - ${{ vars }}
          - extra: foo
    runs-on: ubuntu-latest
    steps:
      - run: echo ${{ matrix.extra }}
`},
	"matrix-include-expr-then-literal": {body: `    strategy:
      matrix:
        include:
          - ${{ fromJSON(vars.ELEMENT) }}
          - os: linux
    runs-on: ubuntu-latest
    steps:
      - run: echo ${{ matrix.os }} ${{ matrix.other }}
`},
	"github-event-deref": {body: `    runs-on: ubuntu-latest
    steps:
      - run: echo ${{ github.event.os.name }}
      - run: echo ${{ github.event.extra.name }}
      - run: echo ${{ vars.extra.name }}
`},
	"no-runs-on-shells": {body: `    defaults:
      run:
        shell: bash
    steps:
      - run: echo hello
        shell: sh
      - run: echo hello
        shell: cmd
      - run: echo hello
        shell: powershell
`},
	"no-runs-on-default-shell": {body: `    steps:
      - run: echo hello
      - run: echo again
`},
	"labels-multi-ok": {body: `    runs-on: [self-hosted, linux]
    steps:
      - run: echo
`},
	"steps-in-job-env": {body: `    runs-on: ubuntu-latest
    env:
      FROM_STEP: ${{ steps.a.outputs.v }}
    steps:
      - run: echo
`},
	"label-selfhosted-misspelled": {body: `    runs-on: [self-hosted, bigbox]
    steps:
      - run: echo
`},
	"label-selfhosted-pattern": {body: `    runs-on: [self-hosted, gpu-1]
    steps:
      - run: echo
`},
	"vars-config": {body: `    runs-on: ubuntu-latest
    steps:
      - run: echo ${{ vars.ALLOWED }}
      - run: echo ${{ vars.OTHER }}
`},
	"needs-in-matrix": {dep: "outputs-job", body: `    needs: [@DEP@]
    strategy:
      matrix:
        v: ${{ fromJSON(needs.@DEP@.outputs.o) }}
        include:
          - w: ${{ needs.@DEP@.outputs.o }}
          - w: ${{ needs.@DEP@.outputs.zz }}
    runs-on: ubuntu-latest
    steps:
      - run: echo ${{ matrix.v }} ${{ matrix.w }}
`},
	"shell-python-default": {body: `    runs-on: ubuntu-latest
    defaults:
      run:
        shell: python
    steps:
      - run: print(1)
      - run: echo
        shell: bash
`},
	"shell-pwsh-default": {body: `    runs-on: ubuntu-latest
    defaults:
      run:
        shell: pwsh
    steps:
      - run: Write-Output 1
`},
	"shell-sh-default": {body: `    runs-on: ubuntu-latest
    defaults:
      run:
        shell: sh
    steps:
      - run: echo
`},
	"windows-runner": {body: `    runs-on: windows-latest
    steps:
      - run: echo
      - run: echo
        shell: sh
      - run: echo
        shell: bash
`},
	"ubuntu-shell-names": {body: `    runs-on: ubuntu-latest
    steps:
      - run: echo
        shell: cmd
      - run: echo
        shell: powershell
      - run: echo
        shell: sh
`},
	"bash-default": {body: `    runs-on: ubuntu-latest
    steps:
      - run: echo one
      - run: echo two
`},
	"labels-conflict": {body: `    runs-on: [ubuntu-latest, windows-latest]
    steps:
      - run: echo
`},
	"label-unknown": {body: `    runs-on: ubuntu-lastest
    steps:
      - run: echo
`},
	"labels-from-matrix": {body: `    strategy:
      matrix:
        os: [ubuntu-latest, windows-2022, bogus-label]
    runs-on: ${{ matrix.os }}
    steps:
      - run: echo
`},
	"step-ids": {body: `    runs-on: ubuntu-latest
    steps:
      - id: a
        run: echo
      - id: b
        run: echo ${{ steps.a.outputs.v }} ${{ steps.b.outputs.v }} ${{ steps.c.outputs.v }}
      - run: echo ${{ steps.b.conclusion }} ${{ steps.a.nope }}
`},
	"step-ids-dup": {body: `    runs-on: ubuntu-latest
    steps:
      - id: a
        run: echo
      - id: A
        run: echo
      - id: 1bad
        run: echo
`},
	"steps-ref-without-ids": {body: `    runs-on: ubuntu-latest
    steps:
      - run: echo ${{ steps.a.outputs.v }}
      - run: echo ${{ steps.b.conclusion }}
`},
	"step-id-expr": {body: `    runs-on: ubuntu-latest
    steps:
      - id: ${{ format('dyn{0}', 1) }}
        run: echo
      - run: echo ${{ steps.whatever.outputs.v }}
`},
	"env-var-names": {body: `    runs-on: ubuntu-latest
    env:
      GOOD: 1
      "BAD NAME": 2
    steps:
      - run: echo
        env:
          "A=B": 3
`},
	"container-services": {body: `    runs-on: ubuntu-latest
    container:
      image: node:20
      credentials:
        username: user
        password: hunter2
    services:
      redis:
        image: redis
        ports:
          - 6379:6379
    steps:
      - run: echo
`},
	"needs-outputs": {dep: "outputs-job", body: `    needs: [@DEP@]
    runs-on: ubuntu-latest
    steps:
      - run: echo ${{ needs.@DEP@.outputs.o }} ${{ needs.@DEP@.outputs.zz }} ${{ needs.other.result }}
`},
	"needs-missing": {body: `    needs: [ghost]
    runs-on: ubuntu-latest
    steps:
      - run: echo ${{ needs.ghost.result }}
`},
	"needs-cycle": {dep: "cycle-partner", body: `    needs: [@DEP@]
    runs-on: ubuntu-latest
    steps:
      - run: echo ${{ needs.@DEP@.result }}
`},
	"cycle-partner": {body: `    needs: [@SUBJ@]
    runs-on: ubuntu-latest
    steps:
      - run: echo
`},
	"outputs-job": {body: `    runs-on: ubuntu-latest
    outputs:
      o: ${{ steps.a.outputs.v }}
      bad: ${{ steps.nope.outputs.v }}
    steps:
      - id: a
        run: echo
`},
	"syntax-errors": {body: `    runs-on: ubuntu-latest
    foo: bar
    timeout-minutes: abc
    steps:
      - run: echo
        uses: actions/checkout@v4
      - bogus: 1
`},
	"expr-errors": {body: `    runs-on: ubuntu-latest
    if: ${{ github.nope }}
    steps:
      - run: echo ${{ unknownfunc() }}
      - run: echo ${{ 1 + }}
      - run: echo ${{ format('{0}', 1, 2) }}
`},
	"call-remote": {body: `    uses: octo-org/shared/.github/workflows/build.yml@v1
    with:
      a: ${{ inputs.flag }}
    secrets: inherit
`},
	"untrusted": {body: `    runs-on: ubuntu-latest
    steps:
      - run: echo ${{ github.event.issue.title }}
      - run: echo ${{ github.event.pull_request.head.ref }}
`},
	"if-cond": {body: `    runs-on: ubuntu-latest
    if: ${{ github.ref == 'x' }} && true
    steps:
      - run: echo
        if: ${{ true }} || false
`},
	"permissions-bad": {body: `    runs-on: ubuntu-latest
    permissions:
      contents: read
      bogus: write
    steps:
      - run: echo
`},
	"deprecated-commands": {body: `    runs-on: ubuntu-latest
    steps:
      - run: echo "::set-output name=a::b"
`},
	"action-inputs": {body: `    runs-on: ubuntu-latest
    steps:
      - uses: actions/checkout@v4
        with:
          bogus: 1
      - uses: actions/setup-node@v4
        with:
          node-version: 20
`},
	"array-deref-in-job": {body: `    strategy:
      matrix:
        x: [[{y: 1}]]
        arr: [[1, 2]]
    runs-on: ubuntu-latest
    steps:
      - run: echo ${{ join(matrix.arr.*, ',') }} ${{ toJSON(matrix.x.*.y) }}
      - run: echo ${{ matrix.x.y }} ${{ matrix.arr.y }}
`},
}

const cmpStepFrame = `on: push
jobs:
  subj:
    strategy:
      matrix:
        m: [1]
        arr: [[1, 2]]
    runs-on: ubuntu-latest
    steps:
`

var cmpSteps = map[string]cmpItem{
	"run":  {body: "      - run: echo\n"},
	"id-a": {body: "      - id: a\n        run: echo\n", stub: "      - id: a\n        run: echo\n"},
	"id-a-action": {body: "      - id: a\n        uses: actions/checkout@v4\n",
		stub: "      - id: a\n        uses: actions/checkout@v4\n"},
	"id-b-with-error": {body: "      - id: b\n        run: echo ${{ unknownfunc() }}\n", stub: "      - id: b\n        run: echo\n"},
	"id-expr": {body: "      - id: ${{ format('dyn{0}', 1) }}\n        run: echo\n",
		stub: "      - id: ${{ format('dyn{0}', 1) }}\n        run: echo\n"},
	"refs":               {body: "      - run: echo ${{ steps.a.outputs.v }} ${{ steps.b.outcome }} ${{ steps.zz.outputs.v }}\n"},
	"if-ref":             {body: "      - if: ${{ steps.a.conclusion == 'success' }}\n        run: echo\n"},
	"shell-python":       {body: "      - shell: python\n        run: print(1)\n"},
	"shell-cmd":          {body: "      - shell: cmd\n        run: echo\n"},
	"untrusted":          {body: "      - run: echo ${{ github.event.issue.title }}\n"},
	"action-bogus-input": {body: "      - uses: actions/checkout@v4\n        with:\n          bogus: 1\n"},
	"env-var-name":       {body: "      - run: echo\n        env:\n          \"A B\": 1\n"},
	"syntax-error":       {body: "      - run: echo\n        uses: actions/checkout@v4\n        bogus: 1\n"},
	"expr-parse-error":   {body: "      - name: ${{ 1 + }}\n        run: echo\n"},
	"matrix-deref":       {body: "      - run: echo ${{ join(matrix.arr.*, ',') }}\n"},
	"matrix-ref":         {body: "      - run: echo ${{ matrix.m }} ${{ matrix.arr.y }} ${{ matrix.zz }}\n"},
}

var cmpExprs = map[string]string{
	"array-filter-objects": "${{ toJSON(matrix.x.*.y) }}",
	"array-filter-numbers": "${{ join(matrix.arr.*, ',') }}",
	"array-prop-objects":   "${{ matrix.x.y }}",
	"array-prop-numbers":   "${{ matrix.arr.y }}",
	"array-index":          "${{ matrix.x[0].y }}",
	"matrix-scalar":        "${{ matrix.s }}",
	"matrix-undefined":     "${{ matrix.nope }}",
	"object-filter-strict": "${{ toJSON(matrix.o.*) }}",
	"steps-output":         "${{ steps.a.outputs.v }}",
	"steps-undefined":      "${{ steps.zz.outputs.v }}",
	"needs-undefined":      "${{ needs.dep1.outputs.zz }}",
	"untrusted-title":      "${{ github.event.issue.title }}",
	"untrusted-filter":     "${{ toJSON(github.event.commits.*.message) }}",
	"json-literal-filter":  "${{ join(fromJSON('[[1],[2]]').*, ',') }}",
	"format-args":          "${{ format('{0}{1}', 1) }}",
	"parse-error":          "${{ 1 + }}",
	"vars-prefix":          "${{ vars.github_token }}",
	"github-event-inputs":  "${{ github.event.inputs.who }} ${{ github.event.inputs.nope }}",
	"env-and-secrets":      "${{ env.JOBENV }} ${{ secrets.TOKEN }}",
}

// cmpText is a workflow text and the line range of the subject in it
type cmpText struct {
	src        string
	start, end int
}

type cmpBuilder struct {
	sb   strings.Builder
	line int
}

func (b *cmpBuilder) add(text string) (first, last int) {
	first = b.line + 1
	b.sb.WriteString(text)
	b.line += strings.Count(text, "\n")
	return first, b.line
}

func cmpJobText(name, id, dep, subj string) (string, error) {
	it, ok := cmpJobLookup(name)
	if !ok {
		return "", fmt.Errorf("job catalogue has no entry %q", name)
	}
	body := strings.ReplaceAll(strings.ReplaceAll(it.body, "@DEP@", dep), "@SUBJ@", subj)
	return "  " + id + ":\n" + body, nil
}

func cmpBuildJob(v cmpVec) (composed, reduced cmpText, err error) {
	hdr, ok := cmpHeaders[v.Hdr]
	if !ok {
		return composed, reduced, fmt.Errorf("no header %q", v.Hdr)
	}
	subjItem, ok := cmpJobLookup(v.Subj)
	if !ok {
		return composed, reduced, fmt.Errorf("job catalogue has no entry %q", v.Subj)
	}
	block := func(b *cmpBuilder) (int, int, error) { // the jobs the subject needs, then the subject
		if subjItem.dep != "" {
			t, err := cmpJobText(subjItem.dep, "dep1", "", "subj")
			if err != nil {
				return 0, 0, err
			}
			b.add(t)
		}
		t, err := cmpJobText(v.Subj, "subj", "dep1", "subj")
		if err != nil {
			return 0, 0, err
		}
		f, l := b.add(t)
		return f, l, nil
	}
	var c, r cmpBuilder
	c.add(hdr + "jobs:\n")
	r.add(hdr + "jobs:\n")
	for i := 0; i <= len(v.Preds); i++ {
		if i == v.Pos {
			if composed.start, composed.end, err = block(&c); err != nil {
				return
			}
		}
		if i < len(v.Preds) {
			// a predecessor that needs another job brings it along (it is unrelated to the subject)
			pi, _ := cmpJobLookup(v.Preds[i])
			pid := fmt.Sprintf("p%d", i+1)
			if pi.dep != "" {
				t, e := cmpJobText(pi.dep, pid+"dep", "", pid)
				if e != nil {
					return composed, reduced, e
				}
				c.add(t)
			}
			t, e := cmpJobText(v.Preds[i], pid, pid+"dep", pid)
			if e != nil {
				return composed, reduced, e
			}
			c.add(t)
		}
	}
	if reduced.start, reduced.end, err = block(&r); err != nil {
		return
	}
	composed.src, reduced.src = c.sb.String(), r.sb.String()
	return
}

func cmpBuildStep(v cmpVec) (composed, reduced cmpText, err error) {
	subj, ok := cmpSteps[v.Subj]
	if !ok {
		return composed, reduced, fmt.Errorf("step catalogue has no entry %q", v.Subj)
	}
	var c, r cmpBuilder
	c.add(cmpStepFrame)
	r.add(cmpStepFrame)
	for i := 0; i <= len(v.Preds); i++ {
		if i == v.Pos {
			composed.start, composed.end = c.add(subj.body)
			reduced.start, reduced.end = r.add(subj.body)
		}
		if i < len(v.Preds) {
			p, ok := cmpSteps[v.Preds[i]]
			if !ok {
				return composed, reduced, fmt.Errorf("step catalogue has no entry %q", v.Preds[i])
			}
			c.add(p.body)
			if i < v.Pos && p.stub != "" && !v.NoStub { // ids of EARLIER steps are part of what the subject depends on
				r.add(p.stub)
			}
		}
	}
	if reduced.start == reduced.end && strings.Count(r.sb.String(), "      - ") == 0 {
		return composed, reduced, fmt.Errorf("reduced job has no step")
	}
	composed.src, reduced.src = c.sb.String(), r.sb.String()
	return
}

func cmpExprFrame(subject string, place, pred string) cmpText {
	at := func(p string) string {
		if p == place {
			return pred
		}
		return ""
	}
	orElse := func(s, d string) string {
		if s == "" {
			return d
		}
		return s
	}
	var b cmpBuilder
	b.add(`on:
  workflow_dispatch:
    inputs:
      who:
        type: string
jobs:
  dep1:
    runs-on: ubuntu-latest
    outputs:
      o: fixed
    steps:
      - run: echo
  subj:
    needs: [dep1]
    strategy:
      matrix:
        x: [[{y: 1}]]
        arr: [[1, 2]]
        s: [a, b]
        o: [{k: 1}]
    runs-on: ubuntu-latest
    env:
`)
	b.add("      JOBENV: " + orElse(at("job-env"), "fixed") + "\n")
	b.add("    steps:\n      - id: a\n")
	b.add(strings.TrimRight("        run: echo "+at("earlier-step-run"), " ") + "\n")
	b.add("      - name: " + orElse(at("same-step-name"), "subject") + "\n")
	f, l := b.add("        run: echo " + subject + "\n")
	b.add(strings.TrimRight("      - run: echo "+at("later-step-run"), " ") + "\n")
	return cmpText{b.sb.String(), f, l}
}

func cmpBuildExpr(v cmpVec) (composed, reduced cmpText, err error) {
	subj, ok := cmpExprs[v.Subj]
	if !ok || len(v.Preds) != 1 {
		return composed, reduced, fmt.Errorf("expression catalogue has no entry %q", v.Subj)
	}
	pred, ok := cmpExprs[v.Preds[0]]
	if !ok {
		return composed, reduced, fmt.Errorf("expression catalogue has no entry %q", v.Preds[0])
	}
	return cmpExprFrame(subj, v.Place, pred), cmpExprFrame(subj, "", ""), nil
}

// ------------------------------------------------------------------ project directories
//
// Every workflow is linted as .github/workflows/w.yaml of a scratch repository that holds local actions
// (two pairs that collide in `name:` / in the directory base name but differ in inputs and outputs)
// and, for cfg = "labels", the configuration file .github/actionlint.yaml.

const cmpConfigLabels = `self-hosted-runner:
  labels:
    - gpu-*
    - big-box
config-variables:
  - ALLOWED
`

var cmpLocalActions = map[string]string{
	"actions/one/action.yml": `name: 'Build'
description: 'first action named Build'
inputs:
  token:
    description: 'token'
    required: true
outputs:
  alpha:
    description: 'alpha'
runs:
  using: 'node20'
  main: 'index.js'
`,
	"actions/two/action.yml": `name: 'Build'
description: 'second action named Build'
inputs:
  token:
    description: 'token'
    required: false
  extra:
    description: 'extra'
    required: false
outputs:
  beta:
    description: 'beta'
runs:
  using: 'node20'
  main: 'index.js'
`,
	"pkg-a/build/action.yml": `name: 'Build of package A'
description: 'a'
outputs:
  alpha:
    description: 'alpha'
runs:
  using: 'node20'
  main: 'index.js'
`,
	"pkg-b/build/action.yml": `name: 'Build of package B'
description: 'b'
inputs:
  flavor:
    description: 'flavor'
    required: true
outputs:
  beta:
    description: 'beta'
runs:
  using: 'node20'
  main: 'index.js'
`,
}

var (
	cmpProjOnce sync.Once
	cmpProjDirs = map[string]string{}
	cmpProjs    = map[string]*actionlint.Project{}
	cmpProjErr  error
	cmpProjBase string
)

func cmpProject(cfg string) (*actionlint.Project, string, error) {
	cmpProjOnce.Do(func() {
		cmpProjBase, cmpProjErr = os.MkdirTemp("", "vp-c09-")
		if cmpProjErr != nil {
			return
		}
		for _, c := range []string{"none", "labels"} {
			root := filepath.Join(cmpProjBase, c)
			for _, d := range []string{".git", ".github/workflows"} {
				if cmpProjErr = os.MkdirAll(filepath.Join(root, d), 0o755); cmpProjErr != nil {
					return
				}
			}
			for rel, text := range cmpLocalActions {
				f := filepath.Join(root, rel)
				os.MkdirAll(filepath.Dir(f), 0o755)
				if cmpProjErr = os.WriteFile(f, []byte(text), 0o644); cmpProjErr != nil {
					return
				}
				// the callees are well formed (a broken local action is reported once per run by design: C02/C10)
				os.WriteFile(filepath.Join(filepath.Dir(f), "index.js"), []byte("// entry point\n"), 0o644)
			}
			if c == "labels" {
				if cmpProjErr = os.WriteFile(filepath.Join(root, ".github", "actionlint.yaml"), []byte(cmpConfigLabels), 0o644); cmpProjErr != nil {
					return
				}
			}
			var p *actionlint.Project
			if p, cmpProjErr = actionlint.NewProject(root); cmpProjErr != nil {
				return
			}
			cmpProjDirs[c], cmpProjs[c] = root, p
		}
	})
	if cmpProjErr != nil {
		return nil, "", cmpProjErr
	}
	if cfg == "" {
		cfg = "none"
	}
	p, ok := cmpProjs[cfg]
	if !ok {
		return nil, "", fmt.Errorf("unknown configuration %q", cfg)
	}
	return p, filepath.Join(cmpProjDirs[cfg], ".github", "workflows", "w.yaml"), nil
}

func cmpProjectCleanup() {
	if cmpProjBase != "" {
		os.RemoveAll(cmpProjBase)
	}
}

func cmpLint(src string, tools bool, cfg string) ([]Diag, error) {
	proj, path, err := cmpProject(cfg)
	if err != nil {
		return nil, err
	}
	opts := &actionlint.LinterOptions{WorkingDir: filepath.Dir(filepath.Dir(filepath.Dir(path)))}
	if tools {
		self, err := os.Executable()
		if err != nil {
			return nil, err
		}
		opts.Shellcheck = self + " c09tool sc"
		opts.Pyflakes = self + " c09tool py"
	}
	l, err := newLinter(opts)
	if err != nil {
		return nil, err
	}
	errs, err := l.Lint(path, []byte(src), proj)
	if err != nil {
		return nil, err
	}
	return toDiags(errs), nil
}

// ------------------------------------------------------------------ colliding popular actions

type cmpActionPair struct{ a, b string }

var (
	cmpPairsOnce sync.Once
	cmpPairs     []cmpActionPair
)

func cmpOutputNames(spec string) []string {
	var o []string
	for n := range actionlint.PopularActions[spec].Outputs {
		o = append(o, n)
	}
	sortStrings(o)
	return o
}

// cmpPopularPairs finds, in the bundled table, pairs of actions whose metadata has the same `name:` but
// different outputs (one pair per name, in the order of the names).
func cmpPopularPairs() []cmpActionPair {
	cmpPairsOnce.Do(func() {
		byName := map[string][]string{}
		for spec, m := range actionlint.PopularActions {
			byName[m.Name] = append(byName[m.Name], spec)
		}
		var names []string
		for n := range byName {
			names = append(names, n)
		}
		sortStrings(names)
		// first the names with two versions that both declare outputs, then those where one declares none
		for _, both := range []bool{true, false} {
			for _, n := range names {
				specs := byName[n]
				sortStrings(specs)
			search:
				for i := 0; i < len(specs); i++ {
					for j := i + 1; j < len(specs); j++ {
						oa, ob := strings.Join(cmpOutputNames(specs[i]), ","), strings.Join(cmpOutputNames(specs[j]), ",")
						if oa != ob && (oa != "" && ob != "") == both {
							cmpPairs = append(cmpPairs, cmpActionPair{specs[i], specs[j]})
							break search
						}
					}
				}
			}
		}
	})
	return cmpPairs
}

func cmpUsesJob(spec string, with string, outputs []string) cmpItem {
	var sb strings.Builder
	sb.WriteString("    runs-on: ubuntu-latest\n    steps:\n      - id: act\n        uses: " + spec + "\n" + with)
	for _, o := range outputs {
		sb.WriteString("      - run: echo ${{ steps.act.outputs['" + o + "'] }}\n")
	}
	return cmpItem{body: sb.String()}
}

// cmpJobLookup resolves a catalogue name: the static table, or the entries generated from the action tables
func cmpJobLookup(name string) (cmpItem, bool) {
	if it, ok := cmpJobs[name]; ok {
		return it, true
	}
	if strings.HasPrefix(name, "popular-same-name-") && len(name) == len("popular-same-name-")+2 {
		pairs := cmpPopularPairs()
		if len(pairs) == 0 {
			return cmpItem{}, false
		}
		k := int(name[len(name)-2]-'1') % len(pairs)
		pr := pairs[k]
		union := append(cmpOutputNames(pr.a), cmpOutputNames(pr.b)...)
		sortStrings(union)
		var outs []string
		for i, o := range union {
			if (i == 0 || union[i-1] != o) && len(outs) < 8 {
				outs = append(outs, o)
			}
		}
		outs = append(outs, "no-such-output")
		spec := pr.a
		if name[len(name)-1] == 'b' {
			spec = pr.b
		}
		return cmpUsesJob(spec, "", outs), true
	}
	switch name {
	case "local-action-same-name-a":
		return cmpUsesJob("./actions/one", "        with:\n          token: t\n", []string{"alpha", "beta"}), true
	case "local-action-same-name-b":
		return cmpUsesJob("./actions/two", "        with:\n          extra: e\n", []string{"alpha", "beta"}), true
	case "local-action-same-basename-a":
		return cmpUsesJob("./pkg-a/build", "", []string{"alpha", "beta"}), true
	case "local-action-same-basename-b":
		return cmpUsesJob("./pkg-b/build", "", []string{"alpha", "beta"}), true
	}
	return cmpItem{}, false
}

func cmpRun(v cmpVec, reps int) cmpOut {
	out := cmpOut{ID: v.ID, Other: []string{}}
	var c, r cmpText
	var err error
	switch v.Lvl {
	case "job":
		c, r, err = cmpBuildJob(v)
	case "step":
		c, r, err = cmpBuildStep(v)
	case "expr":
		c, r, err = cmpBuildExpr(v)
	default:
		err = fmt.Errorf("unknown level %q", v.Lvl)
	}
	if err != nil {
		out.Other = append(out.Other, "catalogue: "+err.Error())
		return out
	}
	if c.end-c.start != r.end-r.start {
		out.Other = append(out.Other, "renderer: subject has different extents")
		return out
	}
	out.SrcComposed, out.SrcReduced = c.src, r.src
	for i := 0; i < reps; i++ {
		dc, e1 := cmpLint(c.src, v.Tools, v.Cfg)
		dr, e2 := cmpLint(r.src, v.Tools, v.Cfg)
		if e1 != nil || e2 != nil {
			out.Other = append(out.Other, fmt.Sprint("lint error: ", e1, " / ", e2))
			return out
		}
		out.Composed = cmpAddOutcome(out.Composed, cmpOutcome(dc, c.start, c.end))
		out.Reduced = cmpAddOutcome(out.Reduced, cmpOutcome(dr, r.start, r.end))
	}
	return out
}

// stand-in tools: what they print becomes the message of a diagnostic at the `run:` key
func cmpTool(args []string) error {
	in, _ := io.ReadAll(os.Stdin)
	sum := fmt.Sprintf("%x", sha1.Sum(in))[:8]
	if len(args) > 0 && args[0] == "sc" {
		shell := "?"
		for i, a := range args {
			if a == "--shell" && i+1 < len(args) {
				shell = args[i+1]
			}
		}
		fmt.Printf(`[{"file":"-","line":2,"endLine":2,"column":1,"endColumn":2,"level":"info","code":9999,"message":"stand-in shellcheck shell=%s script=%s."}]`, shell, sum)
		return nil
	}
	fmt.Printf("<stdin>:1:1 stand-in pyflakes script=%s\n", sum)
	return nil
}

// ------------------------------------------------------------------ process-global type tables
//
// The composed and the reduced workflow are linted in one process, so a construct that edits a
// PROCESS-GLOBAL table (BuiltinGlobalVariableTypes, BuiltinFuncSignatures) changes both alike and
// the relation above cannot see it.  Every catalogue entry is therefore also linted alone in a
// fresh process and the deep dump of the tables before and after is compared.

func cmpDumpType(sb *strings.Builder, t actionlint.ExprType, depth int) {
	if depth > 12 {
		sb.WriteString("...")
		return
	}
	switch t := t.(type) {
	case *actionlint.ObjectType:
		if t == nil {
			sb.WriteString("nil-object")
			return
		}
		sb.WriteString("{")
		names := make([]string, 0, len(t.Props))
		for n := range t.Props {
			names = append(names, n)
		}
		sortStrings(names)
		for _, n := range names {
			sb.WriteString(n + ":")
			cmpDumpType(sb, t.Props[n], depth+1)
			sb.WriteString(";")
		}
		sb.WriteString("}=>")
		if t.Mapped == nil {
			sb.WriteString("strict")
		} else {
			cmpDumpType(sb, t.Mapped, depth+1)
		}
	case *actionlint.ArrayType:
		fmt.Fprintf(sb, "array(deref=%v)<", t.Deref)
		cmpDumpType(sb, t.Elem, depth+1)
		sb.WriteString(">")
	case nil:
		sb.WriteString("nil")
	default:
		sb.WriteString(t.String())
	}
}

func cmpGlobalDump() []string {
	var lines []string
	for n, t := range actionlint.BuiltinGlobalVariableTypes {
		var sb strings.Builder
		cmpDumpType(&sb, t, 0)
		lines = append(lines, "var "+n+" = "+sb.String())
	}
	for n, sigs := range actionlint.BuiltinFuncSignatures {
		for i, sig := range sigs {
			var sb strings.Builder
			cmpDumpType(&sb, sig.Ret, 0)
			for _, p := range sig.Params {
				sb.WriteString(" <- ")
				cmpDumpType(&sb, p, 0)
			}
			lines = append(lines, fmt.Sprintf("func %s#%d = %s varargs=%v", n, i, sb.String(), sig.VariableLengthParams))
		}
	}
	sortStrings(lines)
	return lines
}

type cmpItemOut struct {
	Lvl     string   `json:"lvl"`
	Name    string   `json:"name"`
	Hdr     string   `json:"hdr"`
	Changed []string `json:"changed"` // lines of the dump that differ after linting the entry alone
	Other   []string `json:"other"`
	Src     string   `json:"src"`
}

// cmpItemRun lints one catalogue entry alone (this process has linted nothing before)
func cmpItemRun(lvl, name, hdr, cfg string) cmpItemOut {
	out := cmpItemOut{Lvl: lvl, Name: name, Hdr: hdr, Changed: []string{}, Other: []string{}}
	v := cmpVec{Lvl: lvl, Hdr: hdr, Subj: name, Pos: 0, Place: ""}
	var r cmpText
	var err error
	switch lvl {
	case "job":
		_, r, err = cmpBuildJob(v)
	case "step":
		_, r, err = cmpBuildStep(v)
	case "expr":
		s, ok := cmpExprs[name]
		if !ok {
			err = fmt.Errorf("expression catalogue has no entry %q", name)
		}
		r = cmpExprFrame(s, "", "")
	default:
		err = fmt.Errorf("unknown level %q", lvl)
	}
	if err != nil {
		out.Other = append(out.Other, "catalogue: "+err.Error())
		return out
	}
	out.Src = r.src
	before := cmpGlobalDump()
	if _, err := cmpLint(r.src, false, cfg); err != nil {
		out.Other = append(out.Other, "lint error: "+err.Error())
		return out
	}
	after := cmpGlobalDump()
	seen := map[string]bool{}
	for _, l := range before {
		seen[l] = true
	}
	for _, l := range after {
		if !seen[l] {
			out.Changed = append(out.Changed, l)
		}
	}
	if len(before) != len(after) && len(out.Changed) == 0 {
		out.Changed = append(out.Changed, fmt.Sprintf("%d entries before, %d after", len(before), len(after)))
	}
	return out
}

func init() {
	// compose-item <lvl> <name> <hdr>: one entry in this fresh process, JSON on stdout
	register("compose-item", func(args []string) error {
		defer cmpProjectCleanup()
		cfg := "none"
		if len(args) > 3 {
			cfg = args[3]
		}
		o := cmpItemRun(args[0], args[1], args[2], cfg)
		b, _ := json.Marshal(o)
		fmt.Println(string(b))
		return nil
	})
	// compose-items <in.jsonl> <out.jsonl>: in = {lvl, name, hdr}; one child process per entry
	register("compose-items", func(args []string) error {
		in, err := readJSONL[cmpItemOut](args[0])
		if err != nil {
			return err
		}
		self, err := os.Executable()
		if err != nil {
			return err
		}
		outs := parallelMap(in, func(it cmpItemOut) cmpItemOut {
			b, err := exec.Command(self, "compose-item", it.Lvl, it.Name, it.Hdr, "labels").Output()
			var o cmpItemOut
			if err != nil || json.Unmarshal(b, &o) != nil {
				return cmpItemOut{Lvl: it.Lvl, Name: it.Name, Hdr: it.Hdr, Changed: []string{},
					Other: []string{fmt.Sprint("child process failed: ", err, " ", string(b))}}
			}
			return o
		})
		return writeJSONL(args[1], outs)
	})
}

func init() {
	// compose-popular: the colliding pairs found in the bundled table (for inspection)
	register("compose-popular", func(args []string) error {
		for _, pr := range cmpPopularPairs() {
			fmt.Printf("%q: %s %v | %s %v\n", actionlint.PopularActions[pr.a].Name, pr.a, cmpOutputNames(pr.a), pr.b, cmpOutputNames(pr.b))
		}
		return nil
	})
	register("c09tool", cmpTool)
	register("compose-run", func(args []string) error {
		defer cmpProjectCleanup()
		in, err := readJSONL[cmpVec](args[0])
		if err != nil {
			return err
		}
		reps := 2
		if len(args) > 2 {
			fmt.Sscan(args[2], &reps)
		}
		before := strings.Join(cmpGlobalDump(), "\n")
		outs := parallelMap(in, func(v cmpVec) cmpOut {
			o := cmpRun(v, reps)
			same := len(o.Composed) == 1 && len(o.Reduced) == 1 && strings.Join(o.Composed[0], "\n") == strings.Join(o.Reduced[0], "\n")
			if same && len(o.Other) == 0 {
				o.SrcComposed, o.SrcReduced = "", ""
			}
			return o
		})
		if after := strings.Join(cmpGlobalDump(), "\n"); after != before && len(outs) > 0 {
			outs[0].GlobalChanged = true // some composition of this batch edited a process-global type table
		}
		return writeJSONL(args[1], outs)
	})
}
