package main

import (
	"encoding/json"
	"fmt"
	"math/rand"
	"os"
	"regexp"
	"strconv"
	"strings"

	"github.com/rhysd/actionlint"
)

// GlobErr is the spec-side observable of one InvalidGlobPattern: class (by anchor phrase),
// column and the code point of the character the message names (-1 EOF, -2 none).
type GlobErr struct {
	Cls string `json:"cls"`
	Col int    `json:"col"`
	Ch  int    `json:"ch"`
}

var globAnchors = []struct{ phrase, cls string }{
	{"glob pattern cannot be empty", "empty"},
	{"at least one character must follow !", "bang-alone"},
	{"the preceding character must not be special character", "quant"},
	{"character match must not be empty", "class-empty"},
	{"missing ]", "class-eof"},
	{"end of range is missing", "range-noend"},
	{"is larger than end of range", "range-order"},
	{"character match with single character is useless", "class-single"},
	{"newline cannot be contained", "newline"},
	{"ref name cannot contain spaces", "ref-char"},
	{"only special characters", "ref-escape"},
	{"ref name must not start with /", "ref-start-slash"},
	{"ref name must not end with", "ref-end"},
	{"path value must not start with spaces", "path-lead-space"},
	{"path value must not end with spaces", "path-trail-space"},
	{"error while scanning glob pattern", "scan-error"},
}

var (
	reUnexpected = regexp.MustCompile(`^invalid glob pattern\. unexpected character ('(?:[^'\\]|\\.)+')`)
	reRefCharC   = regexp.MustCompile(`(?s)^character '(.)' is invalid for branch and tag names`)
	reRefCharQ   = regexp.MustCompile(`^character ('(?:[^'\\]|\\.)+') is invalid for branch and tag names`)
)

func namedChar(msg string) int {
	if strings.HasPrefix(msg, "invalid glob pattern. unexpected EOF") {
		return -1
	}
	if m := reRefCharC.FindStringSubmatch(msg); m != nil {
		return int([]rune(m[1])[0])
	}
	for _, re := range []*regexp.Regexp{reUnexpected, reRefCharQ} {
		if m := re.FindStringSubmatch(msg); m != nil {
			q := m[1]
			if r, _, _, err := strconv.UnquoteChar(q[1:len(q)-1], '\''); err == nil {
				return int(r)
			}
			// '%c' form (printable, not escaped)
			rs := []rune(q[1 : len(q)-1])
			if len(rs) == 1 {
				return int(rs[0])
			}
			return -3
		}
	}
	return -2
}

func classifyGlob(errs []actionlint.InvalidGlobPattern) []GlobErr {
	out := make([]GlobErr, 0, len(errs))
	for _, e := range errs {
		cls := "unknown:" + e.Message
		for _, a := range globAnchors {
			if strings.Contains(e.Message, a.phrase) {
				cls = a.cls
				break
			}
		}
		out = append(out, GlobErr{cls, e.Column, namedChar(e.Message)})
	}
	return out
}

type globVec struct {
	ID int    `json:"id"`
	S  string `json:"s"`
}
type globOut struct {
	ID   int       `json:"id"`
	Ref  []GlobErr `json:"ref"`
	Path []GlobErr `json:"path"`
}

func init() {
	// glob-vectors <in.jsonl> <out.jsonl>: run the real validators on every pattern
	register("glob-vectors", func(args []string) error {
		in, err := readJSONL[globVec](args[0])
		if err != nil {
			return err
		}
		out := parallelMap(in, func(v globVec) globOut {
			return globOut{v.ID, classifyGlob(actionlint.ValidateRefGlob(v.S)), classifyGlob(actionlint.ValidatePathGlob(v.S))}
		})
		return writeJSONL(args[1], out)
	})

	// glob-random <alphabet.json> <n> <minlen> <maxlen> <seed> <out.ndjson>
	// records (symbols, classified real outputs) for trace validation by TLC
	register("glob-random", func(args []string) error {
		var alpha map[string]int
		b, err := os.ReadFile(args[0])
		if err != nil {
			return err
		}
		if err := json.Unmarshal(b, &alpha); err != nil {
			return err
		}
		n, _ := strconv.Atoi(args[1])
		lo, _ := strconv.Atoi(args[2])
		hi, _ := strconv.Atoi(args[3])
		seed, _ := strconv.ParseInt(args[4], 10, 64)
		names := make([]string, 0, len(alpha))
		for k := range alpha {
			names = append(names, k)
		}
		sortStrings(names)
		byCode := map[int]string{-1: "eof", -2: "none"}
		for k, c := range alpha {
			byCode[c] = k
		}
		byCode[0xfffd] = "bad"
		// illegal symbols are rare in the random strings: most strings must stay judged by the full model
		if len(names) > 4 {
			keep := names[:0]
			for _, n := range names {
				if alpha[n] != 0 && alpha[n] != -100 {
					keep = append(keep, n)
				}
			}
			names = append(keep, keep...)
			names = append(names, keep...)
			names = append(names, "nul", "bad")
		}
		rng := rand.New(rand.NewSource(seed))
		type symErr struct {
			Cls string `json:"cls"`
			Col int    `json:"col"`
			Ch  string `json:"ch"`
		}
		type rec struct {
			S    []string `json:"s"`
			Ref  []symErr `json:"ref"`
			Path []symErr `json:"path"`
		}
		conv := func(es []GlobErr) []symErr {
			out := make([]symErr, 0, len(es))
			for _, e := range es {
				name, ok := byCode[e.Ch]
				if !ok {
					name = fmt.Sprintf("U+%04X", e.Ch)
				}
				out = append(out, symErr{e.Cls, e.Col, name})
			}
			return out
		}
		// bias: most symbols special so that classes/escapes/quantifiers are dense
		recs := make([]rec, n)
		for i := range recs {
			l := lo + rng.Intn(hi-lo+1)
			syms := make([]string, l)
			var sb strings.Builder
			for j := range syms {
				syms[j] = names[rng.Intn(len(names))]
				if alpha[syms[j]] == -100 {
					sb.WriteByte(0xff) // invalid UTF-8
				} else {
					sb.WriteRune(rune(alpha[syms[j]]))
				}
			}
			s := sb.String()
			recs[i] = rec{syms, conv(classifyGlob(actionlint.ValidateRefGlob(s))), conv(classifyGlob(actionlint.ValidatePathGlob(s)))}
		}
		return writeJSONL(args[5], recs)
	})

	// glob-lint <in.jsonl> <out.jsonl>: each input {id, src}; output {id, diags} restricted to rule glob
	register("lint-batch", func(args []string) error {
		type inT struct {
			ID  int    `json:"id"`
			Src string `json:"src"`
		}
		type outT struct {
			ID    int    `json:"id"`
			Diags []Diag `json:"diags"`
			Err   string `json:"err,omitempty"`
		}
		in, err := readJSONL[inT](args[0])
		if err != nil {
			return err
		}
		out := parallelMap(in, func(v inT) outT {
			d, err := lintSrc(v.Src)
			if err != nil {
				return outT{v.ID, nil, err.Error()}
			}
			return outT{v.ID, d, ""}
		})
		return writeJSONL(args[1], out)
	})
}
