------------------------------- MODULE Matrix -------------------------------
(* strategy.matrix checks of actionlint: rule_matrix.go, ast.go (RawYAMLValue.Equals).

   Raw YAML values:  [k |-> "s", v |-> text]            scalar ("$..." text = contains ${{ }})
                     [k |-> "a", e |-> <<values>>]       sequence
                     [k |-> "m", p |-> <<<<key, value>>, ...>>]   mapping (keys distinct, lower case)

   Declarative layer : StructEq (structural equality), Matches (exclude filter vs candidate),
                       Expected(m) = the diagnostics the property demands.
   Operational layer : OpEquals / OpSubset / OpRun - Equals, isYAMLValueSubset, checkDuplicateInRow
                       and checkExclude as written in the code (row table built from rows, then
                       include assignments appended unless already present).
   TLC checks OpRun = Expected on the bounded universe, that StructEq is an equivalence and that
   the verdict does not depend on the order of values.  `tc` is the vector for the harness. *)
EXTENDS Naturals, Sequences, FiniteSets, TLC, Json

CONSTANTS RowU, IncU, ExcU,     \* indices into U usable as row values / include values / exclude values
          RowMax,               \* max number of values of the row "os"
          Row2U, Row2Max,       \* values / max number of values of a second row "node" (empty set: no second row)
          IncKinds, ExcKeys     \* include variants, exclude keys to try

S(t) == [k |-> "s", v |-> t]
A(es) == [k |-> "a", e |-> es]
Mp(ps) == [k |-> "m", p |-> ps]

U == << S("1"), S("a"), S("$x"), S("$y"),
        A(<<S("1")>>), A(<<S("1"), S("a")>>), A(<<S("a"), S("1")>>), A(<<S("1"), S("$x")>>),
        Mp(<<<<"k", S("1")>>>>), Mp(<<<<"k", S("1")>>, <<"l", S("a")>>>>), Mp(<<<<"l", S("a")>>>>),
        Mp(<<<<"k", S("a")>>>>), Mp(<<<<"k", S("$x")>>>>),
        Mp(<<<<"k", Mp(<<<<"l", S("1")>>>>)>>>>), Mp(<<<<"k", Mp(<<<<"l", S("1")>>, <<"m", S("a")>>>>)>>>>),
        Mp(<<<<"k", A(<<S("1")>>)>>>>), S("1 "),
        \* 18-20: scalars that are different TEXT but the same number as "1" (scalars match by equality of the text)
        S("1.0"), Mp(<<<<"k", S("1.0")>>>>), S("1e0") >>

Range(f) == {f[x] : x \in DOMAIN f}
IsExprText(t) == t \in {"$x", "$y"}
Keys(m) == {m.p[i][1] : i \in DOMAIN m.p}
Get(m, key) == m.p[CHOOSE i \in DOMAIN m.p : m.p[i][1] = key][2]

----------------------------------------------------------------------------
(* Declarative layer *)
RECURSIVE StructEq(_, _)
StructEq(a, b) ==
  /\ a.k = b.k
  /\ CASE a.k = "s" -> a.v = b.v
       [] a.k = "a" -> Len(a.e) = Len(b.e) /\ \A i \in DOMAIN a.e : StructEq(a.e[i], b.e[i])
       [] a.k = "m" -> Keys(a) = Keys(b) /\ \A key \in Keys(a) : StructEq(Get(a, key), Get(b, key))

\* does the exclude filter f match the candidate c
RECURSIVE Matches(_, _)
Matches(c, f) ==
  IF f.k = "s" /\ IsExprText(f.v) THEN TRUE
  ELSE IF c.k = "s" /\ IsExprText(c.v) THEN TRUE
  ELSE /\ c.k = f.k
       /\ CASE c.k = "s" -> c.v = f.v
            [] c.k = "a" -> Len(c.e) = Len(f.e) /\ \A i \in DOMAIN c.e : Matches(c.e[i], f.e[i])
            [] c.k = "m" -> Keys(f) \subseteq Keys(c) /\ \A key \in Keys(f) : Matches(Get(c, key), Get(f, key))

(* A matrix: rows    : sequence of [name, lit, vals]   (lit = FALSE: the row is given by ${{ }}, vals = <<>>)
             include : [k |-> "none" | "expr" | "list", cs |-> sequence of combinations]
             exclude : same; a combination is [lit |-> BOOLEAN, as |-> sequence of <<key, value>>]
                       (lit = FALSE: the element is given by ${{ }})
   A diagnostic is [kind, t, n, i, j]: t/n/i/j identify the YAML node it points to. *)
RowNames(m) == {m.rows[i].name : i \in DOMAIN m.rows}
Row(m, n) == m.rows[CHOOSE i \in DOMAIN m.rows : m.rows[i].name = n]
IncCombos(m) == m.include.cs
ExcCombos(m) == m.exclude.cs
IncludeHasExpr(m) == m.include.k = "expr" \/ \E i \in DOMAIN IncCombos(m) : ~IncCombos(m)[i].lit
IncAssigns(m) == UNION {Range(IncCombos(m)[i].as) : i \in DOMAIN IncCombos(m)}
ExprRows(m) == {n \in RowNames(m) : ~Row(m, n).lit}
Candidates(m, key) ==
  (IF key \in RowNames(m) THEN Range(Row(m, key).vals) ELSE {})
  \cup {a[2] : a \in {b \in IncAssigns(m) : b[1] = key}}
DefinedKeys(m) == (RowNames(m) \ ExprRows(m)) \cup {a[1] : a \in {b \in IncAssigns(m) : b[1] \notin ExprRows(m)}}
D(kind, t, n, i, j) == [kind |-> kind, t |-> t, n |-> n, i |-> i, j |-> j]

DupDiags(m) ==
  UNION {{D("dup", "row", m.rows[r].name, i, 0) :
            i \in {i2 \in DOMAIN m.rows[r].vals :
                     \E j \in 1 .. (i2 - 1) : StructEq(m.rows[r].vals[j], m.rows[r].vals[i2])}}
         : r \in DOMAIN m.rows}
ExcludeDiags(m) ==
  IF ExcCombos(m) = <<>> \/ IncludeHasExpr(m) THEN {}
  ELSE IF m.rows = <<>> /\ IncCombos(m) = <<>> THEN {D("no-variation", "matrix", "", 0, 0)}
  ELSE UNION {
         {IF ExcCombos(m)[c].as[a][1] \notin DefinedKeys(m)
            THEN D("unknown-key", "exclude-key", ExcCombos(m)[c].as[a][1], c, a)
            ELSE D("no-match", "exclude-value", ExcCombos(m)[c].as[a][1], c, a) :
          a \in {a2 \in DOMAIN ExcCombos(m)[c].as :
                   LET key == ExcCombos(m)[c].as[a2][1] val == ExcCombos(m)[c].as[a2][2] IN
                   /\ key \notin ExprRows(m)
                   /\ \/ key \notin DefinedKeys(m)
                      \/ ~\E cand \in Candidates(m, key) : Matches(cand, val)}}
         : c \in DOMAIN ExcCombos(m)}
Expected(m) == DupDiags(m) \cup ExcludeDiags(m)

----------------------------------------------------------------------------
(* Operational layer: the code *)
RECURSIVE OpEquals(_, _)
OpEquals(a, b) ==
  CASE a.k = "s" -> b.k = "s" /\ a.v = b.v
    [] a.k = "a" -> b.k = "a" /\ Len(a.e) = Len(b.e) /\ \A i \in DOMAIN a.e : OpEquals(a.e[i], b.e[i])
    [] a.k = "m" -> /\ b.k = "m"
                    /\ Len(a.p) = Len(b.p)     \* same number of members (the one-sided loop alone is a subset test)
                    /\ \A i \in DOMAIN a.p : a.p[i][1] \in Keys(b) /\ OpEquals(a.p[i][2], Get(b, a.p[i][1]))

RECURSIVE OpSubset(_, _)
OpSubset(v, sub) ==
  IF sub.k = "s" /\ IsExprText(sub.v) THEN TRUE
  ELSE CASE v.k = "m" -> sub.k = "m" /\ \A i \in DOMAIN sub.p :
                            sub.p[i][1] \in Keys(v) /\ OpSubset(Get(v, sub.p[i][1]), sub.p[i][2])
         [] v.k = "a" -> sub.k = "a" /\ Len(v.e) = Len(sub.e) /\ \A i \in DOMAIN v.e : OpSubset(v.e[i], sub.e[i])
         [] v.k = "s" -> IsExprText(v.v) \/ OpEquals(v, sub)

\* checkDuplicateInRow: indices reported in one row
RECURSIVE OpDup(_, _, _, _)
OpDup(vals, i, seen, out) ==
  IF i > Len(vals) THEN out
  ELSE IF \E j \in DOMAIN seen : OpEquals(seen[j], vals[i])
         THEN OpDup(vals, i + 1, seen, out \cup {i})
         ELSE OpDup(vals, i + 1, Append(seen, vals[i]), out)

\* the `rows` table of checkExclude: literal rows, then include assignments appended unless Equals
RECURSIVE AddAssigns(_, _, _)
AddAssigns(tbl, as, i) ==
  IF i > Len(as) THEN tbl
  ELSE LET key == as[i][1] val == as[i][2] IN
       IF key \in tbl.ignored THEN AddAssigns(tbl, as, i + 1)
       ELSE LET row == IF key \in DOMAIN tbl.rows THEN tbl.rows[key] ELSE <<>> IN
            IF \E j \in DOMAIN row : OpEquals(row[j], val) THEN AddAssigns(tbl, as, i + 1)
            ELSE AddAssigns([tbl EXCEPT !.rows = [x \in (DOMAIN tbl.rows) \cup {key} |->
                                                    IF x = key THEN Append(row, val) ELSE tbl.rows[x]]], as, i + 1)
RECURSIVE AddCombos(_, _, _)
AddCombos(tbl, cs, i) ==
  IF i > Len(cs) THEN tbl
  ELSE AddCombos(AddAssigns(tbl, cs[i].as, 1), cs, i + 1)

OpRun(m) ==
  LET dups == UNION {{D("dup", "row", m.rows[r].name, i, 0) : i \in OpDup(m.rows[r].vals, 1, <<>>, {})}
                     : r \in DOMAIN m.rows}
      exc ==
        IF ExcCombos(m) = <<>> \/ IncludeHasExpr(m) THEN {}
        ELSE IF m.rows = <<>> /\ IncCombos(m) = <<>> THEN {D("no-variation", "matrix", "", 0, 0)}
        ELSE LET lit == {n \in RowNames(m) : Row(m, n).lit}
                 t0 == [rows |-> [n \in lit |-> Row(m, n).vals], ignored |-> ExprRows(m)]
                 tbl == AddCombos(t0, IncCombos(m), 1) IN
             UNION {UNION {LET key == ExcCombos(m)[c].as[a][1] val == ExcCombos(m)[c].as[a][2] IN
                           IF key \in tbl.ignored THEN {}
                           ELSE IF key \notin DOMAIN tbl.rows
                             THEN {D("unknown-key", "exclude-key", key, c, a)}
                           ELSE IF \E j \in DOMAIN tbl.rows[key] : OpSubset(tbl.rows[key][j], val) THEN {}
                           ELSE {D("no-match", "exclude-value", key, c, a)}
                           : a \in DOMAIN ExcCombos(m)[c].as}
                    : c \in DOMAIN ExcCombos(m)}
  IN dups \cup exc

----------------------------------------------------------------------------
(* Generator *)
VARIABLES m, tc
vars == <<m, tc>>

SetToSeq(Q) == CHOOSE f \in [1 .. Cardinality(Q) -> Q] : \A i, j \in 1 .. Cardinality(Q) : i # j => f[i] # f[j]
Vector(x) == ToJson([m |-> x, exp |-> SetToSeq(Expected(x))])

None == [k |-> "none", cs |-> <<>>]
Lit(as) == [lit |-> TRUE, as |-> as]
ExprCombo == [lit |-> FALSE, as |-> <<>>]
M0 == [rows |-> <<>>, include |-> None, exclude |-> None]
Init == m = M0 /\ tc = Vector(M0)

AddRowValue ==
  /\ m.include.k = "none" /\ m.exclude.k = "none"
  /\ \E u \in RowU :
       IF m.rows = <<>> THEN m' = [m EXCEPT !.rows = <<[name |-> "os", lit |-> TRUE, vals |-> <<U[u]>>]>>]
       ELSE /\ m.rows[1].lit /\ Len(m.rows[1].vals) < RowMax /\ Len(m.rows) = 1
            /\ m' = [m EXCEPT !.rows[1].vals = Append(@, U[u])]
\* a second literal row: duplicates are a per-row notion (equal values in DIFFERENT rows are fine)
AddRow2Value ==
  /\ m.include.k = "none" /\ m.exclude.k = "none" /\ Len(m.rows) >= 1 /\ m.rows[1].lit
  /\ \E u \in Row2U :
       IF Len(m.rows) = 1 THEN m' = [m EXCEPT !.rows = Append(@, [name |-> "node", lit |-> TRUE, vals |-> <<U[u]>>])]
       ELSE /\ Len(m.rows[2].vals) < Row2Max
            /\ m' = [m EXCEPT !.rows[2].vals = Append(@, U[u])]
MakeRowExpr == /\ m = M0 /\ "rowexpr" \in IncKinds
               /\ m' = [m EXCEPT !.rows = <<[name |-> "os", lit |-> FALSE, vals |-> <<>>]>>]
SetInclude ==
  /\ m.include.k = "none" /\ m.exclude.k = "none"
  /\ \/ "expr" \in IncKinds /\ m' = [m EXCEPT !.include = [k |-> "expr", cs |-> <<>>]]
     \/ "elemexpr" \in IncKinds /\ m' = [m EXCEPT !.include = [k |-> "list", cs |-> <<ExprCombo, Lit(<<<<"os", U[1]>>>>)>>]]
     \* the expression element AFTER a literal one, and between two literal ones (its position must not matter)
     \/ "elemexpr2" \in IncKinds /\ m' = [m EXCEPT !.include = [k |-> "list", cs |-> <<Lit(<<<<"os", U[1]>>>>), ExprCombo>>]]
     \/ "elemexpr2" \in IncKinds /\ m' = [m EXCEPT !.include = [k |-> "list", cs |-> <<Lit(<<<<"os", U[1]>>>>), ExprCombo, Lit(<<<<"new", U[2]>>>>)>>]]
     \/ \E key \in {"os", "new"}, u \in IncU :
          "lit" \in IncKinds /\ m' = [m EXCEPT !.include = [k |-> "list", cs |-> <<Lit(<<<<key, U[u]>>>>)>>]]
SetExclude ==
  /\ m.exclude.k = "none"
  /\ \/ \E key \in ExcKeys, u \in ExcU : m' = [m EXCEPT !.exclude = [k |-> "list", cs |-> <<Lit(<<<<key, U[u]>>>>)>>]]
     \/ \E u \in ExcU : "two" \in IncKinds /\
          m' = [m EXCEPT !.exclude = [k |-> "list", cs |-> <<Lit(<<<<"os", U[u]>>, <<"ghost", U[1]>>>>), ExprCombo>>]]
Next == /\ (AddRowValue \/ AddRow2Value \/ MakeRowExpr \/ SetInclude \/ SetExclude)
        /\ tc' = Vector(m')
Spec == Init /\ [][Next]_vars

CodeMatchesProperty == OpRun(m) = Expected(m)
EqIsEquivalence ==
  \A a, b \in Range(U) : /\ StructEq(a, a)
                         /\ StructEq(a, b) = StructEq(b, a)
                         /\ OpEquals(a, b) = StructEq(a, b)
                         /\ \A c \in Range(U) : StructEq(a, b) /\ StructEq(b, c) => StructEq(a, c)
\* reversing the order of the row values does not change which values are reported (by value)
Reverse(s) == [i \in DOMAIN s |-> s[Len(s) + 1 - i]]
OrderInsensitive ==
  (m.rows # <<>> /\ m.rows[1].lit) =>
     LET r == [m EXCEPT !.rows[1].vals = Reverse(@)] IN
     /\ {d \in Expected(r) : d.kind # "dup" \/ d.n # r.rows[1].name} = {d \in Expected(m) : d.kind # "dup" \/ d.n # m.rows[1].name}
     /\ \A v \in Range(m.rows[1].vals) :
          Cardinality({d \in Expected(r) : d.kind = "dup" /\ d.n = r.rows[1].name /\ StructEq(r.rows[1].vals[d.i], v)})
          = Cardinality({d \in Expected(m) : d.kind = "dup" /\ d.n = m.rows[1].name /\ StructEq(m.rows[1].vals[d.i], v)})
=============================================================================
