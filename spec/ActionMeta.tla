----------------------------- MODULE ActionMeta -----------------------------
(* EXT02 - local action metadata validation, the `uses:` format check and the configuration file
   (extension: no listed property pins these down).

   Code:  rule_action.go (VisitStep, checkRepoAction, checkDockerAction, checkLocalAction, checkLocalActionMetadata,
          checkLocalActionRuns and the three checkLocal*ActionRuns), action_metadata.go (LocalActionsCache.FindMetadata,
          the yaml.v3 decoding of ActionMetadata), config.go (ParseConfig, IgnorePatterns.UnmarshalYAML, loadRepoConfig,
          writeDefaultConfigFile), linter.go (NewLinter: -config-file; check: choice of the configuration), project.go.
   Docs:  docs/checks.md "Action metadata syntax validation", "Action format in `uses:`", "Outdated popular actions
          detection", docs/config.md.

   Per part
     Declarative layer : Decl_<part>(v)  - what the documentation demands for vector v, as predicates / tables / set
                         comprehensions over the vector.
     Operational layer : Op_<part>(v, devs) - a transcription of what the code does (switch statements, the explicit
                         property lists, index scanning of the `uses:` text, the cache, the decoding rules of the Go
                         types).  `devs` = enabled *named deviations*: with devs = {} the layer is the intended design
                         (= documentation), with a deviation enabled it is the code as read.  AllDevs lists them.
     TLC invariants    : Agree     Op(v, {}) = Decl(v)
                         Confined  Op(v, AllDevs) # Decl(v) => some single deviation explains it
                         TablesOK  sanity of the constant tables (evaluated in the initial state)
   Generator: the universe of each part is grown by Next (one key / one symbol / one step / one fault per step);
   `tc` = ToJson([v, exp = Decl(v), asread = Op(v, AllDevs), devs = deviations that change the outcome of v]).

   Observable of the lint parts: a set of diagnostics [c = class, w = where]; where = "u<i>" = the `uses:` value of
   step i (every diagnostic of these rules is reported there).
   Observable of the configuration parts: [exit, diags = set of classes, err = stderr class] of the BUILT BINARY. *)
EXTENDS Naturals, Sequences, FiniteSets, TLC, Json, ActionMetaDoc

CONSTANTS Parts,          \* enabled parts
          MaxSetMain,     \* runs: number of keys set at once for node20 / composite / docker / node16
          MaxSetOther,    \* runs: ... for every other `using` value
          UsesAlpha, UsesLen,    \* uses: symbol strings
          ReuseLen,       \* reuse: number of steps
          MaxFaults,      \* shape: number of slots filled at once
          CfgMaxSlots     \* config: number of configuration slots filled at once

Range(f) == {f[i] : i \in DOMAIN f}
Min(S) == CHOOSE x \in S : \A y \in S : x <= y
Max(S) == CHOOSE x \in S : \A y \in S : x >= y
DW(c, w) == [c |-> c, w |-> w]
D(c) == DW(c, "u1")
Tok(i) == "u" \o ToString(i)

AllDevs == {"Dev_ColorTable", "Dev_EmptyStepsAllowed", "Dev_DockerFirstColon", "Dev_RepoConfigAlwaysParsed"}

----------------------------------------------------------------------------
(* runs  -  the `runs:` section of a local action   (docs: "Runner name at using: is one of composite, docker,
   node20"; "Keys under runs: section are correct.  Required/Valid keys are different depending on the type of
   action"; "Files specified in some keys under runs are existing"; the documented example treats node16 as a
   JavaScript action: its `main` file and its `env` key are reported next to the runner name.)

   v = [part = "runs", using, keys]   keys : key name -> value class

   using:  "~norun" (no runs key) "~nullrun" (runs: with no value) "~emptyrun" (runs: {}) "~absent" (no using key)
           "~null" (using: with no value) "" (using: "")  or the text of the value.
   value classes
     absent                                  the key is not written
     null                                    key with no value
     empty                                   key: ""
     ok / missing                            a relative path of an existing / a non-existing file of the action directory
     set                                     pre-if / post-if: a condition
     emptyseq / emptymap / nonempty          [] / {} / a non-empty collection
     image: dockerfile-ok dockerfile-missing subdockerfile-ok (sub/Dockerfile) other-ok other-missing (my.dockerfile)
            docker-url (docker://alpine:3) gcr ghcr dockerio pkgdev (image names starting with gcr.io/ ghcr.io/
            docker.io/ pkg.dev/) *)
Keys == <<"main", "pre", "pre-if", "post", "post-if", "steps", "image", "pre-entrypoint", "entrypoint",
          "post-entrypoint", "args", "env">>
KeySet == Range(Keys)
KeyIdx(k) == CHOOSE i \in DOMAIN Keys : Keys[i] = k
PlainFileKeys == {"main", "pre", "post", "pre-entrypoint", "entrypoint", "post-entrypoint"}
ImageLocalClasses == {"dockerfile-ok", "dockerfile-missing", "subdockerfile-ok", "other-ok", "other-missing"}
ImageRegistryClasses == {"docker-url", "gcr", "ghcr", "dockerio", "pkgdev"}
ValClasses(k) ==
  IF k = "main" THEN {"null", "empty", "ok", "missing"}
  ELSE IF k \in PlainFileKeys THEN {"empty", "ok", "missing"}
  ELSE IF k \in {"pre-if", "post-if"} THEN {"empty", "set"}
  ELSE IF k \in {"steps", "args"} THEN {"null", "emptyseq", "nonempty"}
  ELSE IF k = "env" THEN {"null", "emptymap", "nonempty"}
  ELSE {"null", "empty"} \cup ImageLocalClasses \cup ImageRegistryClasses
NoKeys == [k \in KeySet |-> "absent"]

UsingUnset == {"~norun", "~nullrun", "~emptyrun", "~absent", "~null", ""}
UsingTexts == {"node20", "node16", "node12", "node", "Node20", "composite", "Composite", "docker", "go"}
UsingU == UsingUnset \cup UsingTexts
MainUsing == {"node20", "composite", "docker", "node16"}
\* strings.HasPrefix(text, "node") - a fact about the texts of the universe
NodePrefixed == {"node20", "node16", "node12", "node"}

\* ---- declarative
ValidRunners == DocRunners                                       \* docs/checks.md (ActionMetaDoc)
\* which keys belong to which kind of action (GitHub's metadata syntax as cited by the documentation)
Allowed == [js |-> {"main", "pre", "pre-if", "post", "post-if"},
            composite |-> {"steps"},
            docker |-> {"image", "pre-entrypoint", "entrypoint", "post-entrypoint", "args", "env"}]
Required == [js |-> {"main"}, composite |-> {"steps"}, docker |-> {"image"}]
FileKeysOf == [js |-> {"main", "pre", "post"}, composite |-> {},
               docker |-> {"image", "pre-entrypoint", "entrypoint", "post-entrypoint"}]
\* a key is set when it is written with a value: no value (null) and the empty string are "not set"; an empty
\* sequence / mapping is a value
IsSet(c) == c \notin {"absent", "null", "empty"}
NamesMissingFile(k, c) == IF k = "image" THEN c \in {"dockerfile-missing", "other-missing"}
                          ELSE k \in PlainFileKeys /\ c = "missing"
ImageNamedDockerfile(c) == c \in {"dockerfile-ok", "dockerfile-missing", "subdockerfile-ok"}
KindOf(u) == IF u = "composite" THEN "composite" ELSE IF u = "docker" THEN "docker"
             ELSE IF u \in NodePrefixed THEN "js" ELSE "none"
KeyDiags(kind, ks) ==
  {D("missing-prop:" \o p) : p \in {q \in Required[kind] : ~IsSet(ks[q])}}
  \cup {D("not-allowed:" \o p) : p \in {q \in KeySet \ Allowed[kind] : IsSet(ks[q])}}
  \cup {D("file-missing:" \o p) : p \in {q \in FileKeysOf[kind] : NamesMissingFile(q, ks[q])}}
  \cup (IF kind = "docker" /\ ks["image"] \in ImageLocalClasses /\ ~ImageNamedDockerfile(ks["image"])
          THEN {D("image-not-dockerfile")} ELSE {})
  \cup (IF kind = "js" /\ IsSet(ks["pre-if"]) /\ ~IsSet(ks["pre"]) THEN {D("pre-required")} ELSE {})
  \cup (IF kind = "js" /\ IsSet(ks["post-if"]) /\ ~IsSet(ks["post"]) THEN {D("post-required")} ELSE {})
Decl_Runs(v) ==
  IF v.using \in UsingUnset THEN {D("using-missing")}
  ELSE (IF v.using \in ValidRunners THEN {} ELSE {D("bad-runner")})
       \cup (IF KindOf(v.using) = "none" THEN {} ELSE KeyDiags(KindOf(v.using), v.keys))

\* ---- operational: the decoded ActionMetadataRuns, then the switch of checkLocalActionRuns
StrEmpty(c) == c \in {"absent", "null", "empty"}                 \* r.X == ""
CollNil(c) == c \in {"absent", "null"}                           \* r.X == nil
CollLen0(c) == c \in {"absent", "null", "emptyseq", "emptymap"}  \* len(r.X) == 0
\* checkInvalidRunsProps: one condition per property.  Design: a collection key is reported when it is written with
\* a value (!= nil).  Dev_EmptyStepsAllowed: `steps` only when it has elements (len(r.Steps) > 0).
OpPropInvalid(prop, ks, devs) ==
  IF prop \in {"args", "env"} THEN ~CollNil(ks[prop])
  ELSE IF prop = "steps" THEN (IF "Dev_EmptyStepsAllowed" \in devs THEN ~CollLen0(ks[prop]) ELSE ~CollNil(ks[prop]))
  ELSE ~StrEmpty(ks[prop])
RECURSIVE OpInvalidLoop(_, _, _, _, _)
OpInvalidLoop(props, i, ks, devs, out) ==
  IF i > Len(props) THEN out
  ELSE OpInvalidLoop(props, i + 1, ks, devs,
                     IF OpPropInvalid(props[i], ks, devs) THEN out \cup {D("not-allowed:" \o props[i])} ELSE out)
\* checkRunsFileExists: "" returns early; os.Stat
OpFile(prop, ks) == IF StrEmpty(ks[prop]) THEN {}
                    ELSE IF NamesMissingFile(prop, ks[prop]) THEN {D("file-missing:" \o prop)} ELSE {}
OpDocker(ks, devs) ==
  (IF StrEmpty(ks["image"]) THEN {D("missing-prop:image")}
   ELSE IF ks["image"] \in ImageRegistryClasses THEN {}          \* isImageOnDockerRegistry
   ELSE OpFile("image", ks) \cup (IF ImageNamedDockerfile(ks["image"]) THEN {} ELSE {D("image-not-dockerfile")}))
  \cup OpFile("pre-entrypoint", ks) \cup OpFile("entrypoint", ks) \cup OpFile("post-entrypoint", ks)
  \cup OpInvalidLoop(<<"main", "pre", "pre-if", "post", "post-if", "steps">>, 1, ks, devs, {})
OpComposite(ks, devs) ==
  (IF CollNil(ks["steps"]) THEN {D("missing-prop:steps")} ELSE {})
  \cup OpInvalidLoop(<<"main", "pre", "pre-if", "post", "post-if", "image", "pre-entrypoint", "entrypoint",
                       "post-entrypoint", "args", "env">>, 1, ks, devs, {})
OpJS(ks, devs) ==
  (IF StrEmpty(ks["main"]) THEN {D("missing-prop:main")} ELSE OpFile("main", ks))
  \cup OpFile("pre", ks)
  \cup (IF StrEmpty(ks["pre"]) /\ ~StrEmpty(ks["pre-if"]) THEN {D("pre-required")} ELSE {})
  \cup OpFile("post", ks)
  \cup (IF StrEmpty(ks["post"]) /\ ~StrEmpty(ks["post-if"]) THEN {D("post-required")} ELSE {})
  \cup OpInvalidLoop(<<"steps", "image", "pre-entrypoint", "entrypoint", "post-entrypoint", "args", "env">>, 1, ks, devs, {})
Op_Runs(v, devs) ==
  LET u == IF v.using \in UsingUnset THEN "" ELSE v.using IN
  IF u = "" THEN {D("using-missing")}
  ELSE IF u = "docker" THEN OpDocker(v.keys, devs)
  ELSE IF u = "composite" THEN OpComposite(v.keys, devs)
  ELSE IF u = "node20" THEN OpJS(v.keys, devs)
  ELSE {D("bad-runner")} \cup (IF u \in NodePrefixed THEN OpJS(v.keys, devs) ELSE {})

----------------------------------------------------------------------------
(* top  -  name, description, branding   (docs: "name:, description:, runs: sections are required"; "Icon name at
   icon: in branding: section is correct.  Supported icon names are listed in the official document"; "Supported
   icon colors are white, yellow, blue, green, orange, red, purple, or gray-dark")
   v = [part = "top", proj, name, desc, icon, color]
   proj = FALSE: the workflow is checked without a repository (the local action cannot be located: nothing to say).
   name / desc: absent null empty ok;  icon / color: "~absent" "~null" or the text. *)
\* DocColors: the colours the documentation lists (ActionMetaDoc)
CodeColors == {"white", "black", "yellow", "blue", "green", "orange", "red", "purple", "gray-dark"}        \* BrandingColors of the code
Icons == {
  "activity", "airplay", "alert-circle", "alert-octagon", "alert-triangle", "align-center", "align-justify", "align-left",
  "align-right", "anchor", "aperture", "archive", "arrow-down-circle", "arrow-down-left", "arrow-down-right", "arrow-down",
  "arrow-left-circle", "arrow-left", "arrow-right-circle", "arrow-right", "arrow-up-circle", "arrow-up-left",
  "arrow-up-right", "arrow-up", "at-sign", "award", "bar-chart-2", "bar-chart", "battery-charging", "battery", "bell-off",
  "bell", "bluetooth", "bold", "book-open", "book", "bookmark", "box", "briefcase", "calendar", "camera-off", "camera",
  "cast", "check-circle", "check-square", "check", "chevron-down", "chevron-left", "chevron-right", "chevron-up",
  "chevrons-down", "chevrons-left", "chevrons-right", "chevrons-up", "circle", "clipboard", "clock", "cloud-drizzle",
  "cloud-lightning", "cloud-off", "cloud-rain", "cloud-snow", "cloud", "code", "command", "compass", "copy",
  "corner-down-left", "corner-down-right", "corner-left-down", "corner-left-up", "corner-right-down", "corner-right-up",
  "corner-up-left", "corner-up-right", "cpu", "credit-card", "crop", "crosshair", "database", "delete", "disc",
  "dollar-sign", "download-cloud", "download", "droplet", "edit-2", "edit-3", "edit", "external-link", "eye-off", "eye",
  "fast-forward", "feather", "file-minus", "file-plus", "file-text", "file", "film", "filter", "flag", "folder-minus",
  "folder-plus", "folder", "gift", "git-branch", "git-commit", "git-merge", "git-pull-request", "globe", "grid",
  "hard-drive", "hash", "headphones", "heart", "help-circle", "home", "image", "inbox", "info", "italic", "layers",
  "layout", "life-buoy", "link-2", "link", "list", "loader", "lock", "log-in", "log-out", "mail", "map-pin", "map",
  "maximize-2", "maximize", "menu", "message-circle", "message-square", "mic-off", "mic", "minimize-2", "minimize",
  "minus-circle", "minus-square", "minus", "monitor", "moon", "more-horizontal", "more-vertical", "move", "music",
  "navigation-2", "navigation", "octagon", "package", "paperclip", "pause-circle", "pause", "percent", "phone-call",
  "phone-forwarded", "phone-incoming", "phone-missed", "phone-off", "phone-outgoing", "phone", "pie-chart", "play-circle",
  "play", "plus-circle", "plus-square", "plus", "pocket", "power", "printer", "radio", "refresh-ccw", "refresh-cw",
  "repeat", "rewind", "rotate-ccw", "rotate-cw", "rss", "save", "scissors", "search", "send", "server", "settings",
  "share-2", "share", "shield-off", "shield", "shopping-bag", "shopping-cart", "shuffle", "sidebar", "skip-back",
  "skip-forward", "slash", "sliders", "smartphone", "speaker", "square", "star", "stop-circle", "sun", "sunrise", "sunset",
  "table", "tablet", "tag", "target", "terminal", "thermometer", "thumbs-down", "thumbs-up", "toggle-left", "toggle-right",
  "trash-2", "trash", "trending-down", "trending-up", "triangle", "truck", "tv", "type", "umbrella", "underline", "unlock",
  "upload-cloud", "upload", "user-check", "user-minus", "user-plus", "user-x", "user", "users", "video-off", "video",
  "voicemail", "volume-1", "volume-2", "volume-x", "volume", "watch", "wifi-off", "wifi", "wind", "x-circle", "x-square",
  "x", "zap-off", "zap", "zoom-in", "zoom-out"}
\* strings.ToLower on the texts of the universe that are not lower case already
LowerOf == ("Zap" :> "zap") @@ ("ALERT-CIRCLE" :> "alert-circle") @@ ("Git-Branch" :> "git-branch") @@ ("Dog" :> "dog")
           @@ ("Gray-Dark" :> "gray-dark") @@ ("RED" :> "red") @@ ("Black" :> "black") @@ ("Pink" :> "pink")
Low(x) == IF x \in DOMAIN LowerOf THEN LowerOf[x] ELSE x
IconOthers == {"~absent", "~null", "", "Zap", "ALERT-CIRCLE", "Git-Branch", "Dog", "dog", "alert_circle", "alertcircle",
               "zap-", "github", "octocat", "x-"}
IconSample == {"~absent", "zap", "Zap", "dog", ""}
ColorU == {"~absent", "~null", ""} \cup DocColors \cup CodeColors
          \cup {"black", "Black", "Gray-Dark", "RED", "Pink", "gray-white", "grey-dark", "gray", "dark-gray", "#ffffff", "gray_dark"}
TopStates == {"absent", "null", "empty", "ok"}
BrandSet(x) == x \notin {"~absent", "~null", ""}
TopUnset(c) == c \in {"absent", "null", "empty"}

Decl_Top(v) ==
  IF ~v.proj THEN {}
  ELSE (IF TopUnset(v.name) THEN {D("name-required")} ELSE {})
       \cup (IF TopUnset(v.desc) THEN {D("description-required")} ELSE {})
       \cup (IF BrandSet(v.icon) /\ Low(v.icon) \notin Icons THEN {D("bad-icon")} ELSE {})
       \cup (IF BrandSet(v.color) /\ Low(v.color) \notin DocColors THEN {D("bad-color")} ELSE {})

\* checkLocalActionMetadata; FindMetadata returns nil without a project.
\* Design: the colour table is the documented one.  Dev_ColorTable: the table of the code (it also holds "black").
OpBrandingColors(devs) == IF "Dev_ColorTable" \in devs THEN CodeColors ELSE DocColors
OpStr(x) == IF x \in {"~absent", "~null"} THEN "" ELSE x
Op_Top(v, devs) ==
  IF ~v.proj THEN {}
  ELSE LET o1 == IF TopUnset(v.name) THEN {D("name-required")} ELSE {}
           o2 == IF TopUnset(v.desc) THEN o1 \cup {D("description-required")} ELSE o1
           o3 == IF OpStr(v.icon) # "" THEN (IF Low(v.icon) \in Icons THEN o2 ELSE o2 \cup {D("bad-icon")}) ELSE o2
           o4 == IF OpStr(v.color) # "" THEN (IF Low(v.color) \in OpBrandingColors(devs) THEN o3 ELSE o3 \cup {D("bad-color")})
                 ELSE o3
       IN o4

----------------------------------------------------------------------------
(* shape  -  node kinds of the metadata file   (docs: "reports errors when they are not following the syntax")
   v = [part = "shape", faults]   faults : sequence of <<slot, form>>, at most one form per slot.
   Forms are node kinds (null str int seq map emptymap) or special forms of a slot:
     doc:      empty (empty file) null seq str dupkey (name twice) unknownkey (an extra key) syntax (not YAML)
     inputs:   ok dup-same dup-case val-null val-str val-seq default-seq
     outputs:  ok dup-same dup-case
   Declarative: the syntax of the metadata file as a table slot -> acceptable node kinds.  A file outside the syntax
   gives one parse-error and nothing else; an empty document is an empty mapping. *)
ScalarKinds == {"null", "str", "int"}
SlotSyntax ==
  [doc |-> {"map", "empty", "null", "unknownkey"},            \* a mapping; nothing at all is an empty mapping
   name |-> ScalarKinds, description |-> ScalarKinds,
   inputs |-> {"null", "emptymap", "ok", "val-null"},         \* mapping id -> (mapping | nothing), ids unique ignoring case
   outputs |-> {"null", "emptymap", "ok"},
   branding |-> {"null", "emptymap", "map"}, icon |-> ScalarKinds,
   runs |-> {"null", "emptymap", "map"}, using |-> ScalarKinds, main |-> ScalarKinds,
   steps |-> {"null", "seq"}, args |-> {"null", "seq"}, env |-> {"null", "map", "emptymap"}]
SlotForms ==
  [doc |-> {"empty", "null", "seq", "str", "dupkey", "unknownkey", "syntax"},
   name |-> {"seq", "map", "int"}, description |-> {"seq", "null"},
   inputs |-> {"null", "emptymap", "ok", "seq", "str", "dup-same", "dup-case", "val-null", "val-str", "val-seq", "default-seq"},
   outputs |-> {"null", "emptymap", "ok", "seq", "str", "dup-same", "dup-case"},
   branding |-> {"null", "str", "seq"}, icon |-> {"seq", "int"},
   runs |-> {"seq", "str"}, using |-> {"seq", "map"}, main |-> {"seq", "map"},
   steps |-> {"str", "map"}, args |-> {"str", "map"}, env |-> {"str", "seq"}]
Slots == <<"doc", "name", "description", "inputs", "outputs", "branding", "icon", "runs", "using", "main", "steps", "args", "env">>
SlotIdx(s) == CHOOSE i \in DOMAIN Slots : Slots[i] = s
\* what the base metadata (a valid composite action) reports when the fault leaves the syntax intact
ShapeResidual(f) ==
  IF f[1] = "doc" /\ f[2] \in {"empty", "null"} THEN {D("name-required"), D("description-required"), D("using-missing")}
  ELSE IF f[1] = "description" /\ f[2] = "null" THEN {D("description-required")}
  ELSE IF f[1] = "icon" /\ f[2] = "int" THEN {D("bad-icon")}
  ELSE {}
Decl_Shape(v) ==
  IF \E i \in DOMAIN v.faults : v.faults[i][2] \notin SlotSyntax[v.faults[i][1]] THEN {D("parse-error")}
  ELSE UNION {ShapeResidual(v.faults[i]) : i \in DOMAIN v.faults}

\* operational: yaml.Unmarshal into the Go types.  A string field takes any scalar; a slice takes a sequence; a map
\* or struct takes a mapping; nothing (null) leaves the zero value and calls no UnmarshalYAML; decoding a mapping
\* into a struct rejects a repeated key and ignores unknown keys; ActionMetadataInputs / Outputs.UnmarshalYAML
\* demand a MappingNode, decode every input value into struct{Required bool; Default *string} and reject ids that are
\* equal after strings.ToLower.
GoType == [doc |-> "struct", name |-> "string", description |-> "string", inputs |-> "inputs", outputs |-> "outputs",
           branding |-> "struct", icon |-> "string", runs |-> "struct", using |-> "string", main |-> "string",
           steps |-> "slice", args |-> "slice", env |-> "map"]
OpDecodeFails(slot, form) ==
  IF form = "syntax" THEN TRUE
  ELSE IF form \in {"null", "empty"} THEN FALSE
  ELSE LET ty == GoType[slot] IN
    IF ty = "string" THEN form \in {"seq", "map"}
    ELSE IF ty = "slice" THEN form # "seq"
    ELSE IF ty = "map" THEN form \notin {"map", "emptymap"}
    ELSE IF ty = "struct" THEN (IF form = "dupkey" THEN TRUE ELSE form \notin {"map", "emptymap", "unknownkey"})
    ELSE IF ty = "inputs" THEN (IF form \in {"seq", "str"} THEN TRUE                       \* expectedMapping
                                ELSE IF form \in {"val-str", "val-seq", "default-seq"} THEN TRUE   \* v.Decode(&m)
                                ELSE form \in {"dup-same", "dup-case"})
    ELSE (IF form \in {"seq", "str"} THEN TRUE ELSE form \in {"dup-same", "dup-case"})
RECURSIVE OpShapeLoop(_, _)
OpShapeLoop(faults, i) ==
  IF i > Len(faults) THEN FALSE
  ELSE IF OpDecodeFails(faults[i][1], faults[i][2]) THEN TRUE ELSE OpShapeLoop(faults, i + 1)
Op_Shape(v, devs) ==
  IF OpShapeLoop(v.faults, 1) THEN {D("parse-error")}       \* FindMetadata: error, nothing else is checked
  ELSE UNION {ShapeResidual(v.faults[i]) : i \in DOMAIN v.faults}

----------------------------------------------------------------------------
(* reuse  -  one action used by several steps   (docs: "actionlint checks an action when it is actually used in a
   workflow": the defects of a metadata file are reported once, at the first step that uses the action)
   v = [part = "reuse", steps, split]  steps over A (metadata without name and description) B (clean) P (not YAML
   mapping: parse error) M (directory does not exist: silently ignored);  with split the last step is in a second job *)
ReuseActions == {"A", "B", "P", "M"}
ReuseMeta == [A |-> {"name-required", "description-required"}, B |-> {}, P |-> {"parse-error"}, M |-> {}]
ReuseFirst(v) == {i \in DOMAIN v.steps : \A j \in 1 .. (i - 1) : v.steps[j] # v.steps[i]}
Decl_Reuse(v) == UNION {{DW(c, Tok(i)) : c \in ReuseMeta[v.steps[i]]} : i \in ReuseFirst(v)}
\* LocalActionsCache: one map per linted file, keyed by the spec; a parse error and a missing directory are cached as nil
RECURSIVE OpReuseLoop(_, _, _, _)
OpReuseLoop(steps, i, cache, out) ==
  IF i > Len(steps) THEN out
  ELSE LET a == steps[i] IN
    IF a \in cache THEN OpReuseLoop(steps, i + 1, cache, out)
    ELSE OpReuseLoop(steps, i + 1, cache \cup {a}, out \cup {DW(c, Tok(i)) : c \in ReuseMeta[a]})
Op_Reuse(v, devs) == OpReuseLoop(v.steps, 1, {}, {})

----------------------------------------------------------------------------
(* file  -  the name of the metadata file   (docs: "All actions require a metadata file action.yml or action.yaml")
   v = [part = "file", yml, yaml]   content of action.yml / action.yaml: none, N (metadata without name), S (metadata
   without description).  Which file is used when both exist with different content is not documented: the universe
   has both only with equal content.  No file at all: the action is ignored (documented). *)
FileMeta == [none |-> {}, N |-> {D("name-required")}, S |-> {D("description-required")}]
Decl_File(v) == IF v.yaml # "none" THEN FileMeta[v.yaml] ELSE FileMeta[v.yml]
\* readLocalActionMetadataFile: action.yaml, then action.yml
Op_File(v, devs) == IF v.yaml # "none" THEN FileMeta[v.yaml] ELSE IF v.yml # "none" THEN FileMeta[v.yml] ELSE {}

----------------------------------------------------------------------------
(* uses  -  the format of the `uses:` value   (docs "Action format in uses:": owner/repo/path@ref, ./path, docker://image:tag)
   v = [part = "uses", s]  s over the symbols  a (a name)  /  @  .  :  D (the text docker://)  $ (a ${{ }} placeholder)
   Declarative: a value with a placeholder is not known statically.  ./path is a local action (a directory that does
   not exist is ignored).  docker://image[:tag]: the tag is what follows the last colon of the last path component of
   the image reference (registry hosts may carry a port); a tag that is written must not be empty.  Everything else
   must be owner/repo[/path]@ref with non-empty owner, repo and ref; the ref starts after the first @. *)
HasSym(s, x) == \E i \in DOMAIN s : s[i] = x
FirstIdx(s, x) == IF HasSym(s, x) THEN Min({i \in DOMAIN s : s[i] = x}) ELSE 0
LastIdx(s, x) == IF HasSym(s, x) THEN Max({i \in DOMAIN s : s[i] = x}) ELSE 0
IsLocal(s) == Len(s) >= 2 /\ s[1] = "." /\ s[2] = "/"
IsDocker(s) == Len(s) >= 1 /\ s[1] = "D"
DeclDocker(s) ==
  LET r == SubSeq(s, 2, Len(s))
      comp == SubSeq(r, LastIdx(r, "/") + 1, Len(r))           \* last path component
  IN IF HasSym(comp, ":") /\ LastIdx(comp, ":") = Len(comp) THEN {D("docker-tag-empty")} ELSE {}
DeclRepo(s) ==
  IF ~HasSym(s, "@") THEN {D("fmt-ref-missing")}
  ELSE LET at == FirstIdx(s, "@")
           left == SubSeq(s, 1, at - 1)
           ref == SubSeq(s, at + 1, Len(s)) IN
    IF ~HasSym(left, "/") THEN {D("fmt-owner-missing")}
    ELSE LET sl == FirstIdx(left, "/")
             owner == SubSeq(left, 1, sl - 1)
             rest == SubSeq(left, sl + 1, Len(left))
             repo == IF HasSym(rest, "/") THEN SubSeq(rest, 1, FirstIdx(rest, "/") - 1) ELSE rest IN
      IF owner = <<>> \/ repo = <<>> \/ ref = <<>> THEN {D("fmt-empty-part")} ELSE {}
Decl_Uses(v) ==
  IF HasSym(v.s, "$") THEN {}
  ELSE IF IsLocal(v.s) THEN {}
  ELSE IF IsDocker(v.s) THEN DeclDocker(v.s)
  ELSE DeclRepo(v.s)

\* operational: VisitStep's prefix tests, then strings.IndexRune scanning
RECURSIVE OpIndex(_, _, _)
OpIndex(s, i, x) == IF i > Len(s) THEN 0 ELSE IF s[i] = x THEN i ELSE OpIndex(s, i + 1, x)
\* checkDockerAction.  Design: the tag separator is the last colon of the last component.
\* Dev_DockerFirstColon: the first colon after docker:// (a registry port is taken for the tag separator).
RECURSIVE OpLastIndex(_, _, _)
OpLastIndex(s, i, x) == IF i < 1 THEN 0 ELSE IF s[i] = x THEN i ELSE OpLastIndex(s, i - 1, x)
OpDockerAction(s, devs) ==
  LET r == SubSeq(s, 2, Len(s))
      idx == IF "Dev_DockerFirstColon" \in devs THEN OpIndex(r, 1, ":")
             ELSE LET sl == OpLastIndex(r, Len(r), "/")
                      c == OpLastIndex(r, Len(r), ":") IN IF c > sl THEN c ELSE 0
  IN IF idx = 0 THEN {}
     ELSE IF SubSeq(r, idx + 1, Len(r)) = <<>> THEN {D("docker-tag-empty")} ELSE {}
OpRepoAction(s) ==
  LET at == OpIndex(s, 1, "@") IN
  IF at = 0 THEN {D("fmt-ref-missing")}
  ELSE LET ref == SubSeq(s, at + 1, Len(s))
           s1 == SubSeq(s, 1, at - 1)
           sl == OpIndex(s1, 1, "/") IN
    IF sl = 0 THEN {D("fmt-owner-missing")}
    ELSE LET owner == SubSeq(s1, 1, sl - 1)
             s2 == SubSeq(s1, sl + 1, Len(s1))
             sl2 == OpIndex(s2, 1, "/")
             repo == IF sl2 = 0 THEN s2 ELSE SubSeq(s2, 1, sl2 - 1) IN
      IF owner = <<>> THEN {D("fmt-empty-part")} ELSE IF repo = <<>> THEN {D("fmt-empty-part")}
      ELSE IF ref = <<>> THEN {D("fmt-empty-part")} ELSE {}
Op_Uses(v, devs) ==
  IF HasSym(v.s, "$") THEN {}                                          \* ContainsExpression
  ELSE IF Len(v.s) >= 2 /\ v.s[1] = "." /\ v.s[2] = "/" THEN {}        \* HasPrefix "./": FindMetadata finds no file
  ELSE IF Len(v.s) >= 1 /\ v.s[1] = "D" THEN OpDockerAction(v.s, devs)
  ELSE OpRepoAction(v.s)

----------------------------------------------------------------------------
(* popular  -  docs "Outdated popular actions detection": actions/checkout@v3 is reported, actions/checkout@v4 is not;
   node12 actions are outdated as well; pinned versions and branches are not supported (nothing is reported). *)
PopularSpecs == {"actions/checkout@v1", "actions/checkout@v2", "actions/checkout@v3", "actions/checkout@v4",
                 "actions/checkout@v4.0.1", "actions/checkout@main"}
DocOutdated == {"actions/checkout@v1", "actions/checkout@v2", "actions/checkout@v3"}
Decl_Popular(v) == IF v.spec \in DocOutdated THEN {D("outdated")} ELSE {}
\* PopularActions / OutdatedPopularActionSpecs lookups of checkRepoAction for these specs
OpPopularTable == {"actions/checkout@v4"}
OpOutdatedTable == {"actions/checkout@v1", "actions/checkout@v2", "actions/checkout@v3"}
Op_Popular(v, devs) == IF v.spec \in OpPopularTable THEN {}
                       ELSE IF v.spec \in OpOutdatedTable THEN {D("outdated")} ELSE {}

----------------------------------------------------------------------------
(* config  -  the configuration file, observed through the built binary   (docs/config.md)
   v = [part = "config", src, slots]   src: "yaml" (.github/actionlint.yaml) "yml" (.github/actionlint.yml)
                                             "flag" (-config-file <file outside the repository>)
   slots : sequence of <<slot, form>>
     doc:   empty null seq str dupkey unknownkey syntax
     shr (self-hosted-runner):  null emptymap str seq labels-null labels-empty labels-mine labels-other labels-str
                                labels-map labels-nested unknownkey
     cv (config-variables):     null empty listV listW str map nested
     paths:                     null emptymap seq str glob-null glob-emptymap ignore-null ignore-empty ignore-shell
                                ignore-str ignore-nested ignore-badregex badglob dupglob other-glob unknownkey
   The probe workflow has four diagnostics: label (runs-on: mylabel), varV and varW (vars.V, vars.W), shell
   (shell: fish9).  Semantics (docs): labels = additional runner labels; config-variables: null = vars unchecked, a list
   = exactly these names exist; paths.<glob>.ignore = regular expressions filtering the messages of matching files.
   A file that is not of the documented shape is a fatal error: exit 3, nothing on stdout. *)
CfgSyntax ==
  [doc |-> {"map", "empty", "null", "unknownkey"},
   shr |-> {"null", "emptymap", "labels-null", "labels-empty", "labels-mine", "labels-other", "unknownkey"},
   cv |-> {"null", "empty", "listV", "listW"},
   paths |-> {"null", "emptymap", "glob-null", "glob-emptymap", "ignore-null", "ignore-empty", "ignore-shell",
              "other-glob", "unknownkey"}]
CfgForms ==
  [doc |-> {"empty", "null", "seq", "str", "dupkey", "unknownkey", "syntax"},
   shr |-> {"null", "emptymap", "str", "seq", "labels-null", "labels-empty", "labels-mine", "labels-other", "labels-str",
            "labels-map", "labels-nested", "unknownkey"},
   cv |-> {"null", "empty", "listV", "listW", "str", "map", "nested"},
   paths |-> {"null", "emptymap", "seq", "str", "glob-null", "glob-emptymap", "ignore-null", "ignore-empty", "ignore-shell",
              "ignore-str", "ignore-nested", "ignore-badregex", "badglob", "dupglob", "other-glob", "unknownkey"}]
CfgSlots == <<"doc", "shr", "cv", "paths">>
CfgSlotIdx(s) == CHOOSE i \in DOMAIN CfgSlots : CfgSlots[i] = s
CfgForm(slots, s) == IF \E i \in DOMAIN slots : slots[i][1] = s
                     THEN slots[CHOOSE i \in DOMAIN slots : slots[i][1] = s][2] ELSE "absent"
Obs(exit, diags, err) == [exit |-> exit, diags |-> diags, err |-> err]
\* the diagnostics of the probe under a configuration given by the forms of its three sections ("none" = no configuration)
ProbeDiags(shr, cv, paths) ==
  (IF shr = "labels-mine" THEN {} ELSE {"label"})
  \cup (IF cv \in {"empty", "listW"} THEN {"varV"} ELSE {})
  \cup (IF cv \in {"empty", "listV"} THEN {"varW"} ELSE {})
  \cup (IF paths = "ignore-shell" THEN {} ELSE {"shell"})
LintObs(ds) == Obs(IF ds = {} THEN 0 ELSE 1, ds, "none")
FatalObs(err) == Obs(3, {}, err)
CfgBroken(slots) == \E i \in DOMAIN slots : slots[i][2] \notin CfgSyntax[slots[i][1]]
CfgEffect(slots) ==
  IF CfgForm(slots, "doc") \in {"empty", "null"} THEN ProbeDiags("absent", "absent", "absent")
  ELSE ProbeDiags(CfgForm(slots, "shr"), CfgForm(slots, "cv"), CfgForm(slots, "paths"))
Decl_Config(v) == IF CfgBroken(v.slots) THEN FatalObs("config-parse") ELSE LintObs(CfgEffect(v.slots))

\* operational: yaml.Unmarshal into Config (struct{Labels []string}, []string, map[string]PathConfig with
\* IgnorePatterns.UnmarshalYAML), then doublestar.ValidatePattern for every key of paths
OpCfgFails(slot, form) ==
  IF form = "syntax" THEN TRUE
  ELSE IF slot = "doc" THEN form \in {"seq", "str", "dupkey"}
  ELSE IF slot = "shr" THEN form \in {"str", "seq", "labels-str", "labels-map", "labels-nested"}
  ELSE IF slot = "cv" THEN form \in {"str", "map", "nested"}
  ELSE form \in {"seq", "str", "ignore-str", "ignore-nested", "ignore-badregex", "dupglob", "badglob"}
RECURSIVE OpCfgLoop(_, _)
OpCfgLoop(slots, i) == IF i > Len(slots) THEN FALSE
                       ELSE IF OpCfgFails(slots[i][1], slots[i][2]) THEN TRUE ELSE OpCfgLoop(slots, i + 1)
Op_Config(v, devs) == IF OpCfgLoop(v.slots, 1) THEN FatalObs("config-parse") ELSE LintObs(CfgEffect(v.slots))

(* choice  -  which configuration file is used   (docs: "actionlint.yaml or actionlint.yml can be put in .github";
   man page: -config-file <PATH>; linter.go: "-config-file option has higher priority than repository config file")
   v = [part = "choice", yaml, yml, flag]   each \in none, A, B, broken; flag also "missing" (the file does not exist)
   A = labels [mylabel];  B = config-variables [V].
   Declarative: the configuration given by -config-file is used if the flag is given, else .github/actionlint.yaml,
   else .github/actionlint.yml, else none; only the file that is used is read: if it is broken (or, for the flag,
   missing) the run is fatal. *)
ChoiceEffect(c) == IF c = "A" THEN ProbeDiags("labels-mine", "absent", "absent")
                   ELSE IF c = "B" THEN ProbeDiags("absent", "listV", "absent")
                   ELSE ProbeDiags("absent", "absent", "absent")
ChoiceUsed(v) == IF v.flag # "none" THEN v.flag ELSE IF v.yaml # "none" THEN v.yaml ELSE v.yml
Decl_Choice(v) ==
  LET u == ChoiceUsed(v) IN
  IF u = "missing" THEN FatalObs("config-read")
  ELSE IF u = "broken" THEN FatalObs("config-parse")
  ELSE LintObs(ChoiceEffect(u))
\* NewLinter reads -config-file first; Projects.At -> NewProject -> loadRepoConfig reads the repository files in the
\* order yaml, yml and stops at the first that exists; check() prefers the flag's configuration.
\* Design: the repository configuration is not loaded when the flag is given.
\* Dev_RepoConfigAlwaysParsed: it is loaded (and a broken one is fatal) whenever a project is found.
Op_Choice(v, devs) ==
  IF v.flag = "missing" THEN FatalObs("config-read")
  ELSE IF v.flag = "broken" THEN FatalObs("config-parse")
  ELSE LET repo == IF v.yaml # "none" THEN v.yaml ELSE v.yml
           loadrepo == v.flag = "none" \/ "Dev_RepoConfigAlwaysParsed" \in devs IN
    IF loadrepo /\ repo = "broken" THEN FatalObs("config-parse")
    ELSE LintObs(ChoiceEffect(IF v.flag # "none" THEN v.flag ELSE repo))

(* init  -  -init-config   (docs/config.md "Generate the initial configuration")
   v = [part = "init", proj, pre]  pre: none yaml yml (a configuration file exists already)
   Declarative: in a repository without configuration the file .github/actionlint.yaml is written (exit 0, the path on
   stdout); the generated file is a valid configuration with the default meaning (no extra label, vars unchecked,
   nothing ignored): a following run reports the label and the shell of the probe.  An existing file is not overwritten and no
   repository is a fatal error (exit 3). *)
Decl_Init(v) ==
  IF ~v.proj THEN [first |-> FatalObs("init-no-project"), second |-> FatalObs("no-project")]
  ELSE IF v.pre # "none" THEN [first |-> FatalObs("init-exists"), second |-> LintObs(ChoiceEffect("A"))]
  ELSE [first |-> Obs(0, {"generated"}, "none"), second |-> LintObs(ProbeDiags("labels-empty", "null", "null"))]
\* GenerateDefaultConfig: projects.At; stat of both names; writeDefaultConfigFile; the text parses to
\* {labels: [], config-variables: nil, paths: nil}
Op_Init(v, devs) ==
  IF ~v.proj THEN [first |-> FatalObs("init-no-project"), second |-> FatalObs("no-project")]
  ELSE IF v.pre = "yaml" THEN [first |-> FatalObs("init-exists"), second |-> LintObs(ChoiceEffect("A"))]
  ELSE IF v.pre = "yml" THEN [first |-> FatalObs("init-exists"), second |-> LintObs(ChoiceEffect("A"))]
  ELSE [first |-> Obs(0, {"generated"}, "none"), second |-> LintObs(ProbeDiags("labels-empty", "null", "null"))]

----------------------------------------------------------------------------
LintParts == {"runs", "top", "shape", "reuse", "uses", "popular", "file"}
Decl(v) ==
  CASE v.part = "runs" -> Decl_Runs(v) [] v.part = "top" -> Decl_Top(v) [] v.part = "shape" -> Decl_Shape(v)
    [] v.part = "reuse" -> Decl_Reuse(v) [] v.part = "uses" -> Decl_Uses(v) [] v.part = "popular" -> Decl_Popular(v)
    [] v.part = "file" -> Decl_File(v)
    [] v.part = "config" -> Decl_Config(v) [] v.part = "choice" -> Decl_Choice(v) [] v.part = "init" -> Decl_Init(v)
Op(v, devs) ==
  CASE v.part = "runs" -> Op_Runs(v, devs) [] v.part = "top" -> Op_Top(v, devs) [] v.part = "shape" -> Op_Shape(v, devs)
    [] v.part = "reuse" -> Op_Reuse(v, devs) [] v.part = "uses" -> Op_Uses(v, devs) [] v.part = "popular" -> Op_Popular(v, devs)
    [] v.part = "file" -> Op_File(v, devs)
    [] v.part = "config" -> Op_Config(v, devs) [] v.part = "choice" -> Op_Choice(v, devs) [] v.part = "init" -> Op_Init(v, devs)
DevsOf(v) == {d \in AllDevs : Op(v, {d}) # Decl(v)}
J(v, o) == o            \* ToJson writes sets as arrays

----------------------------------------------------------------------------
(* Generator *)
VARIABLES cur, tc
vars == <<cur, tc>>

Header == ToJson([part |-> "header", parts |-> Parts, devs |-> AllDevs, icons |-> Icons, colors |-> DocColors,
                  keys |-> Keys, using |-> UsingU])
TC(v) == ToJson([v |-> v, exp |-> J(v, Decl(v)), asread |-> J(v, Op(v, AllDevs)), devs |-> DevsOf(v)])
Init == cur = [part |-> "init0"] /\ tc = Header
AtInit == cur.part = "init0"
Go(v) == cur' = v /\ tc' = TC(v)
On(p) == AtInit /\ p \in Parts

\* ---- runs: choose `using`, then set keys in the order of Keys
RunsVec(u, ks, last, n) == [part |-> "runs", using |-> u, keys |-> ks, last |-> last, n |-> n]
StartRuns == On("runs") /\ \E u \in UsingU : Go(RunsVec(u, NoKeys, 0, 0))
GrowRuns == /\ cur.part = "runs"
            /\ cur.using \notin UsingUnset \/ cur.using = "~absent"
            /\ cur.n < (IF cur.using \in MainUsing THEN MaxSetMain ELSE MaxSetOther)
            /\ \E i \in (cur.last + 1) .. Len(Keys) : \E c \in ValClasses(Keys[i]) :
                 Go(RunsVec(cur.using, [cur.keys EXCEPT ![Keys[i]] = c], i, cur.n + 1))
\* ---- top
TopVec(p, n, d, i, c) == [part |-> "top", proj |-> p, name |-> n, desc |-> d, icon |-> i, color |-> c]
StartTop == On("top") /\
  \/ \E i \in Icons \cup IconOthers : Go(TopVec(TRUE, "ok", "ok", i, "~absent"))
  \/ \E n \in TopStates, d \in TopStates, i \in IconSample, c \in ColorU : Go(TopVec(TRUE, n, d, i, c))
  \/ \E n \in {"ok", "absent"}, i \in IconSample, c \in {"~absent", "Pink"} : Go(TopVec(FALSE, n, "ok", i, c))
\* ---- shape
ShapeVec(fs) == [part |-> "shape", faults |-> fs]
StartShape == On("shape") /\ \E s \in Range(Slots) : \E f \in SlotForms[s] : Go(ShapeVec(<<<<s, f>>>>))
ShapeParent(s) == IF s = "icon" THEN "branding" ELSE IF s \in {"using", "main", "steps", "args", "env"} THEN "runs" ELSE "none"
GrowShape == /\ cur.part = "shape" /\ Len(cur.faults) < MaxFaults
             /\ cur.faults[1][1] # "doc"
             /\ \E s \in Range(Slots) : /\ SlotIdx(s) > SlotIdx(cur.faults[Len(cur.faults)][1])
                                        /\ \A i \in DOMAIN cur.faults : cur.faults[i][1] # ShapeParent(s)
                                        /\ \E f \in SlotForms[s] : Go(ShapeVec(Append(cur.faults, <<s, f>>)))
\* ---- reuse
ReuseVec(st, sp) == [part |-> "reuse", steps |-> st, split |-> sp]
StartReuse == On("reuse") /\ \E a \in ReuseActions : Go(ReuseVec(<<a>>, FALSE))
GrowReuse == /\ cur.part = "reuse" /\ ~cur.split
             /\ \/ Len(cur.steps) < ReuseLen /\ \E a \in ReuseActions : Go(ReuseVec(Append(cur.steps, a), FALSE))
                \/ Len(cur.steps) >= 2 /\ Go(ReuseVec(cur.steps, TRUE))
\* ---- uses
UsesVec(s) == [part |-> "uses", s |-> s]
StartUses == On("uses") /\ \E c \in UsesAlpha : Go(UsesVec(<<c>>))
\* D holds the characters : and / and is only used as the first symbol
GrowUses == cur.part = "uses" /\ Len(cur.s) < UsesLen /\ \E c \in UsesAlpha \ {"D"} : Go(UsesVec(Append(cur.s, c)))
\* ---- popular
StartPopular == On("popular") /\ \E s \in PopularSpecs : Go([part |-> "popular", spec |-> s])
StartFile == On("file") /\ \E a \in {"none", "N", "S"}, b \in {"none", "N", "S"} :
               (a = "none" \/ b = "none" \/ a = b) /\ Go([part |-> "file", yml |-> a, yaml |-> b])
\* ---- config
CfgVec(src, sl) == [part |-> "config", src |-> src, slots |-> sl]
StartConfig == On("config") /\ \E src \in {"yaml", "yml", "flag"} :
  \/ Go(CfgVec(src, <<>>))
  \/ \E s \in Range(CfgSlots) : \E f \in CfgForms[s] : Go(CfgVec(src, <<<<s, f>>>>))
GrowConfig == /\ cur.part = "config" /\ cur.slots # <<>> /\ Len(cur.slots) < CfgMaxSlots
              /\ cur.slots[1][1] # "doc"
              /\ \E s \in Range(CfgSlots) : /\ CfgSlotIdx(s) > CfgSlotIdx(cur.slots[Len(cur.slots)][1])
                                           /\ \E f \in CfgForms[s] : Go(CfgVec(cur.src, Append(cur.slots, <<s, f>>)))
ChoiceU == {"none", "A", "B", "broken"}
StartChoice == On("choice") /\ \E y \in ChoiceU, m \in ChoiceU, f \in ChoiceU \cup {"missing"} :
                 Go([part |-> "choice", yaml |-> y, yml |-> m, flag |-> f])
StartInit == On("init") /\ \E p \in BOOLEAN, pre \in {"none", "yaml", "yml"} :
               (p \/ pre = "none") /\ Go([part |-> "init", proj |-> p, pre |-> pre])

Next == \/ StartRuns \/ GrowRuns \/ StartTop \/ StartShape \/ GrowShape \/ StartReuse \/ GrowReuse
        \/ StartUses \/ GrowUses \/ StartPopular \/ StartFile \/ StartConfig \/ GrowConfig \/ StartChoice \/ StartInit
Spec == Init /\ [][Next]_vars

----------------------------------------------------------------------------
(* Invariants *)
Agree == ~AtInit => Op(cur, {}) = Decl(cur)
Confined == ~AtInit => (Op(cur, AllDevs) # Decl(cur) => DevsOf(cur) # {})
TablesOK == AtInit =>
  /\ Cardinality(Icons) = 257
  /\ DocColors # {} /\ DocColors \subseteq ColorU /\ DocRunners # {}
  /\ \A k \in DOMAIN Allowed : Required[k] \subseteq Allowed[k] /\ FileKeysOf[k] \subseteq Allowed[k]
  /\ Allowed["js"] \cup Allowed["composite"] \cup Allowed["docker"] = KeySet                    \* every key belongs to a kind
  /\ Allowed["js"] \cap Allowed["composite"] = {} /\ Allowed["js"] \cap Allowed["docker"] = {}
  /\ Allowed["composite"] \cap Allowed["docker"] = {}
  /\ ValidRunners \subseteq UsingTexts
  /\ \A s \in Range(Slots) : s \in DOMAIN SlotSyntax /\ s \in DOMAIN SlotForms /\ s \in DOMAIN GoType
  /\ \A s \in Range(CfgSlots) : CfgSyntax[s] \subseteq CfgForms[s] \cup {"map"}
  /\ DocOutdated \subseteq PopularSpecs
=============================================================================
