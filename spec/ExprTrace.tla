----------------------------- MODULE ExprTrace -----------------------------
(* Trace validation for the expression lexer and parser.  Every record of trace.ndjson is one
   execution of the REAL code, written by the conformance harness:

   kind = "parse": ExprParser.Parse(ExprLexer(text }})) on a rendering of the token classes `ts`
       names  what an AST node anchored at token i has to carry (lower-cased identifier, keyword,
              "int:31" / "float:0.02" / "str:it's", comparison operator)
       ok     accepted?          errAt  token index of the reported error (Len+1 = end, 0 = elsewhere)
       tree   the real AST, nodes [k, at, n, a]; `at` only where the AST keeps a token
   kind = "lex":   ExprLexer.Next until END or the first error on a rendering of the character
              classes `s` (the whole input, end marker included if there is one):
              toks = <<[k, off]>>, err, off (offsets in characters).

   kind = "if":    Linter.Lint on a workflow whose job- or step-level `if:` value is a rendering of the
              character classes `s` (plain / single-quoted / double-quoted scalar):
              nsyntax = syntax diagnostics of the expression rule, nexpr = all its diagnostics,
              inside = every syntax diagnostic lies within the condition, off = offset of the first.

   PropOK  = the property, judged by the DECLARATIVE layers only (grammar / token languages):
             it alone decides VIOLATION.
   ModelOK = equality with the operational models (error index / offset, tokens before an error);
             a difference here alone is model drift.
   A mismatching record does not stop validation, its index is collected. *)
EXTENDS Naturals, Sequences, TLC, Json
CONSTANTS MaxLen, Alphabet, EmitTc, PrintAcc, EndMarker
VARIABLES l, mism, why, drift, ts, s, v, tc

P == INSTANCE ExprParser
L == INSTANCE ExprLexer
I == INSTANCE ExprIf

Trace == ndJsonDeserialize("trace.ndjson")

TokKinds == {"var", "kw", "lit", "call", "not"}                 \* the AST keeps the anchoring token
NamedKinds == {"var", "kw", "lit", "call", "prop", "cmp"}      \* the AST keeps a name / value / operator

\* the real tree r is the projection of the specification tree d
RECURSIVE TreeEq(_, _, _)
TreeEq(d, r, names) ==
  /\ d.k = r.k
  /\ Len(d.a) = Len(r.a)
  /\ r.at = (IF d.k \in TokKinds THEN d.at ELSE 0)
  /\ r.n = (IF d.k \in NamedKinds THEN names[d.at] ELSE "")
  /\ \A c \in DOMAIN d.a : TreeEq(d.a[c], r.a[c], names)

ParsePropOK(r) ==
  LET ds == P!Sentences(r.ts, TRUE) IN
  /\ r.lexok                                        \* the lexer read the rendering as the intended tokens
  /\ r.ok <=> (ds # {})                             \* accepted iff a sentence of the documented grammar
  /\ r.ok => \E d \in ds : TreeEq(d, r.tree, r.names)   \* analysed according to that structure
  /\ ~r.ok => r.errAt \in 1 .. (Len(r.ts) + 1)      \* the one error lies at a token of the text or its end
ParseModelOK(r) ==
  LET p == P!Parse(r.ts) IN
  /\ p.ok = r.ok
  /\ r.ok => TreeEq(p.tree, r.tree, r.names)
  /\ ~r.ok => p.errAt = r.errAt

LexObs(r) == [toks |-> r.toks, err |-> r.err, off |-> IF r.err THEN r.off ELSE 0]
LexPropOK(r) ==
  LET d == L!DTok(r.s) IN
  /\ r.err <=> d.err                                \* lexically accepted iff a sequence of documented tokens
  /\ ~r.err => r.toks = d.toks                      \* the same tokens at the same offsets
  /\ r.err => r.off \in 0 .. Len(r.s)               \* the one error lies inside the text
LexModelOK(r) == LexObs(r) = L!Lex(r.s, {}) \/ LexObs(r) = L!Lex(r.s, L!AllDevs)

IfPropOK(r) == I!Holds(r.s, [nsyntax |-> r.nsyntax, nexpr |-> r.nexpr, inside |-> r.inside])
IfModelOK(r) ==
  LET m == I!Check(r.s, I!IfDevs, L!AllDevs) IN
  m.n = 2 \/ (m.n = r.nsyntax /\ (m.n = 1 => m.off = r.off))
\* which part of the property an if: record breaks, or the named deviation that explains it exactly
IfWhy(r) ==
  LET m == I!Check(r.s, I!IfDevs, L!AllDevs)
      old == I!Check(r.s, I!AllIfDevs, L!AllDevs)
      vd == I!Verdict(r.s) IN
  IF m.dev # "none" /\ m.n = r.nsyntax THEN m.dev
  ELSE IF old.dev # "none" /\ old.n = r.nsyntax THEN old.dev
  ELSE IF ~vd.sentence /\ r.nsyntax = 0 THEN "if-accepts"
  ELSE IF vd.sentence /\ ~vd.more /\ r.nsyntax > 0 THEN "if-rejects"
  ELSE "if-diagnostics"

PropOK(r) == IF r.kind = "lex" THEN LexPropOK(r) ELSE IF r.kind = "if" THEN IfPropOK(r) ELSE ParsePropOK(r)
\* which part of the property a rejected record breaks (names the site of the violation)
Why(r) ==
  IF r.kind = "if" THEN IfWhy(r)
  ELSE IF r.kind = "lex" THEN
       LET d == L!DTok(r.s)
           cr == L!Run(r.s, L!AllDevs) IN
       IF ~r.err /\ d.err THEN "lex-accepts"
       ELSE IF r.err /\ ~d.err THEN
            \* exactly the behaviour of a named deviation of the pinned code: its name
            IF cr.dev # "none" /\ LexObs(r) = L!Obs(cr) THEN cr.dev ELSE "lex-rejects"
       ELSE IF ~r.err THEN "lex-tokens" ELSE "lex-error-position"
  ELSE LET ds == P!Sentences(r.ts, TRUE) IN
       IF ~r.lexok THEN "render-lex"
       ELSE IF r.ok /\ ds = {} THEN "accepts-nonsentence"
       ELSE IF ~r.ok /\ ds # {} THEN "rejects-sentence"
       ELSE IF r.ok THEN "tree" ELSE "error-position"
ModelOK(r) == IF r.kind = "lex" THEN LexModelOK(r) ELSE IF r.kind = "if" THEN IfModelOK(r) ELSE ParseModelOK(r)

Init == l = 1 /\ mism = <<>> /\ why = <<>> /\ drift = <<>> /\ ts = <<>> /\ s = <<>> /\ v = <<>> /\ tc = ""
Step ==
  /\ l <= Len(Trace)
  /\ LET r == Trace[l] IN
       /\ mism' = IF PropOK(r) \/ Len(mism) >= 20000 THEN mism ELSE Append(mism, l)
       /\ why' = IF PropOK(r) \/ Len(mism) >= 20000 THEN why ELSE Append(why, Why(r))
       /\ drift' = IF ModelOK(r) \/ Len(drift) >= 20000 THEN drift ELSE Append(drift, l)
  /\ l' = l + 1
  /\ UNCHANGED <<ts, s, v, tc>>
Spec == Init /\ [][Step]_<<l, mism, why, drift, ts, s, v, tc>>

Report == (l = Len(Trace) + 1) => PrintT(<<"MISM", Len(Trace), mism, why, drift>>)
=============================================================================
