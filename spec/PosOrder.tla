------------------------------ MODULE PosOrder ------------------------------
(* Source positions are ordered lexicographically by (line, column): ast.go Pos.IsBefore, used by
   ByErrorPosition (the stable sort of the output) and by every "smallest position" choice that
   makes a message deterministic (needs-cycle start, runner-label conflict partner, job order).
   The choices are only deterministic if IsBefore is a strict total order; TLC checks that of the
   specified order and dumps the complete table for a small grid, which the harness compares with
   the real Pos.IsBefore. *)
EXTENDS Naturals, TLC, Json
CONSTANT N
Grid == (1 .. N) \X (1 .. N)
Before(a, b) == a[1] < b[1] \/ (a[1] = b[1] /\ a[2] < b[2])

VARIABLES a, b, tc
Init == a = <<1, 1>> /\ b = <<1, 1>> /\ tc = ToJson([a |-> a, b |-> b, before |-> Before(a, b)])
Next == \E x \in Grid, y \in Grid : a' = x /\ b' = y /\ tc' = ToJson([a |-> x, b |-> y, before |-> Before(x, y)])
Spec == Init /\ [][Next]_<<a, b, tc>>

StrictTotalOrder ==
  /\ ~Before(a, a)
  /\ Before(a, b) => ~Before(b, a)
  /\ a # b => (Before(a, b) \/ Before(b, a))
  /\ \A c \in Grid : Before(a, b) /\ Before(b, c) => Before(a, c)
=============================================================================
