----------------------------- MODULE ExprTypes -----------------------------
(* Static types of the expression language of actionlint (expr_type.go) as TLA+ values.

     any | null | number | bool | string | obj(props, m) | arr(elem, deref)

   `props` is a sequence of [n |-> name, t |-> type] sorted by PropOrder (canonical form, also the
   JSON form the conformance harness reads and writes); `m` is the `Mapped` field of ObjectType:
   [k |-> "strict"] (nil: closed object), AnyT (open object) or a type T (map of T).
   Operational layer: Assignable, Merge, TypeOfJSON transcribed from expr_type.go.
   Declarative layer: the loosening preorder of DESIGN.md A.6 (Loosens) and its generating
   single-step relation (Loosen1). *)
EXTENDS Naturals, Sequences, FiniteSets, TLC

AnyT    == [k |-> "any"]
Null   == [k |-> "null"]
Number == [k |-> "number"]
Bool   == [k |-> "bool"]
String == [k |-> "string"]
Strict == [k |-> "strict"]      \* value of `m` only: ObjectType.Mapped = nil
Unset  == [k |-> "unset"]       \* environment slot for which no Update* method is called
Obj(ps, m) == [k |-> "obj", props |-> ps, m |-> m]
Arr(t, d)  == [k |-> "arr", elem |-> t, deref |-> d]
P(n, t)    == [n |-> n, t |-> t]

Scalars == {AnyT, Null, Number, Bool, String}

\* canonical order of property names (TLC cannot order strings); every name the model handles
PropOrder == <<"a", "actions_runner_debug", "actions_step_debug", "b", "c", "event", "github_token",
               "inputs", "ref", "x">>

IsStrict(o) == o.m.k = "strict"
IsLoose(o)  == o.m.k = "any"
Names(o)    == {o.props[i].n : i \in DOMAIN o.props}
HasProp(o, n) == \E i \in DOMAIN o.props : o.props[i].n = n
PropT(o, n) == o.props[CHOOSE i \in DOMAIN o.props : o.props[i].n = n].t
\* canonical props sequence for the name set S with types F(n)
MkProps(S, F(_)) ==
  LET ns == SelectSeq(PropOrder, LAMBDA n : n \in S) IN [i \in 1 .. Len(ns) |-> P(ns[i], F(ns[i]))]

----------------------------------------------------------------------------
(* expr_type.go: Assignable(other) of every type.  `ty` is the receiver. *)
RECURSIVE Assignable(_, _)
Assignable(ty, o) ==
  CASE ty.k = "any"    -> TRUE
    [] ty.k = "null"   -> o.k \in {"null", "any"}
    [] ty.k = "number" -> o.k \in {"number", "any"}
    [] ty.k = "bool"   -> TRUE                                   \* anything converts to bool
    [] ty.k = "string" -> o.k \in {"string", "number", "any"}
    [] ty.k = "obj" ->
         IF o.k = "any" THEN TRUE
         ELSE IF o.k # "obj" THEN FALSE
         ELSE IF ~IsStrict(ty) THEN
                IF ~IsStrict(o) THEN Assignable(ty.m, o.m)
                ELSE \A i \in DOMAIN o.props : Assignable(ty.m, o.props[i].t)
         ELSE IF ~IsStrict(o) THEN \A i \in DOMAIN ty.props : Assignable(ty.props[i].t, o.m)
         ELSE \A i \in DOMAIN o.props :
                IF HasProp(ty, o.props[i].n) THEN Assignable(PropT(ty, o.props[i].n), o.props[i].t) ELSE FALSE
    [] ty.k = "arr" ->
         IF o.k = "any" THEN TRUE ELSE IF o.k = "arr" THEN Assignable(ty.elem, o.elem) ELSE FALSE

(* expr_type.go: Merge(other).  The element type (Mapped) of the result stays an upper bound of all its
   properties: a closed receiver merged into a map/open object folds its own properties into the other's
   element type, and every property of the other operand (merged with the receiver's, if any) is folded
   in as well -- in sorted name order, as the code does (PropOrder is that order). *)
RECURSIVE Merge(_, _), MergeMapped(_, _, _)
MergeMapped(m, ps, i) ==
  IF i > Len(ps) THEN m ELSE MergeMapped(Merge(m, ps[i].t), ps, i + 1)
Merge(ty, o) ==
  CASE ty.k = "any"    -> ty
    [] ty.k = "null"   -> IF o.k = "null" THEN ty ELSE AnyT
    [] ty.k = "number" -> IF o.k = "number" THEN ty ELSE IF o.k = "string" THEN o ELSE AnyT
    [] ty.k = "bool"   -> IF o.k = "bool" THEN ty ELSE IF o.k = "string" THEN o ELSE AnyT
    [] ty.k = "string" -> IF o.k \in {"string", "number", "bool"} THEN ty ELSE AnyT
    [] ty.k = "obj" ->
         IF o.k # "obj" THEN AnyT
         ELSE IF Len(ty.props) = 0 /\ IsLoose(o) THEN o
         ELSE IF Len(o.props) = 0 /\ IsLoose(ty) THEN ty
         ELSE LET m0  == IF IsStrict(ty)
                           THEN IF IsStrict(o) THEN Strict ELSE MergeMapped(o.m, ty.props, 1)
                           ELSE IF IsStrict(o) THEN ty.m ELSE Merge(ty.m, o.m)
                  F(n) == IF HasProp(ty, n)
                            THEN IF HasProp(o, n) THEN Merge(PropT(ty, n), PropT(o, n)) ELSE PropT(ty, n)
                            ELSE PropT(o, n)
                  ps  == MkProps(Names(ty) \cup Names(o), F)
                  fromO == SelectSeq(ps, LAMBDA p : HasProp(o, p.n))
                  m1  == IF m0.k = "strict" THEN m0 ELSE MergeMapped(m0, fromO, 1)
              IN Obj(ps, m1)
    [] ty.k = "arr" ->
         IF o.k # "arr" THEN AnyT
         ELSE IF ty.elem.k = "any" \/ o.elem.k = "any" THEN Arr(AnyT, FALSE)
         ELSE Arr(Merge(ty.elem, o.elem), FALSE)

(* typeOfJSONValue: JSON values are [k |-> "jbool" | "jnum" | "jstr" | "jnull"], [k |-> "jarr", items |-> seq],
   [k |-> "jobj", props |-> seq of [n, v]] (names in PropOrder order); "jbroken" is a text that does not parse. *)
RECURSIVE TypeOfJSON(_), MergeItems(_, _, _)
MergeItems(items, i, acc) ==
  IF i > Len(items) THEN acc ELSE MergeItems(items, i + 1, Merge(acc, TypeOfJSON(items[i])))
TypeOfJSON(v) ==
  CASE v.k = "jbool" -> Bool
    [] v.k = "jnum"  -> Number
    [] v.k = "jstr"  -> String
    [] v.k = "jnull" -> Null
    [] v.k = "jarr"  -> IF Len(v.items) = 0 THEN Arr(AnyT, FALSE)
                        ELSE Arr(MergeItems(v.items, 2, TypeOfJSON(v.items[1])), FALSE)
    [] v.k = "jobj"  -> Obj([i \in DOMAIN v.props |-> P(v.props[i].n, TypeOfJSON(v.props[i].v))], Strict)

----------------------------------------------------------------------------
(* Declarative layer: DESIGN.md A.6.  T [= any; obj(P, strict) [= obj(P, any); covariant in the
   properties, the mapped type and the element type.  For arrays produced by `.*` the Deref flag may
   only be gained (a filtered array admits more, never fewer, operations).
   Derived rule for an OPEN object on the right (its absent properties read as any, so leaving a
   property out of an open object is the same as typing it any): obj(P, m) [= obj(P', any) if every
   property of P' is loosened from what the left object gives for that name (its property, else its
   mapped type; a closed object without it rejects the access, which constrains nothing).  This is
   what "a literal object replaced by an expression evaluating to an open object" (github.event, an
   `include` element of unknown type opening the matrix) means. *)
RECURSIVE Loosens(_, _)
Loosens(t, u) ==
  IF u.k = "any" THEN TRUE
  ELSE IF t.k # u.k THEN FALSE
  ELSE CASE t.k = "obj" ->
              IF u.m.k = "any" THEN
                \A i \in DOMAIN u.props :
                  IF HasProp(t, u.props[i].n) THEN Loosens(PropT(t, u.props[i].n), u.props[i].t)
                  ELSE IF IsStrict(t) THEN TRUE ELSE Loosens(t.m, u.props[i].t)
              ELSE
                /\ Len(t.props) = Len(u.props)
                /\ \A i \in DOMAIN t.props : t.props[i].n = u.props[i].n /\ Loosens(t.props[i].t, u.props[i].t)
                /\ IF t.m.k = "strict" THEN u.m.k = "strict"
                   ELSE IF u.m.k = "strict" THEN FALSE ELSE Loosens(t.m, u.m)
         [] t.k = "arr" -> Loosens(t.elem, u.elem) /\ (t.deref => u.deref)
         [] OTHER -> TRUE

(* The generating relation: exactly one type occurrence replaced by `any`, or one closed object opened. *)
RECURSIVE Loosen1(_)
Loosen1(t) ==
  (IF t.k = "any" THEN {} ELSE {AnyT}) \cup
  CASE t.k = "obj" ->
         (IF t.m.k = "strict" THEN {} ELSE {[t EXCEPT !.m = u] : u \in Loosen1(t.m)})
         \cup (IF t.m.k = "strict" THEN {[t EXCEPT !.m = AnyT]} ELSE {})
         \cup UNION {{[t EXCEPT !.props[i].t = u] : u \in Loosen1(t.props[i].t)} : i \in DOMAIN t.props}
    [] t.k = "arr" -> {[t EXCEPT !.elem = u] : u \in Loosen1(t.elem)}
    [] OTHER -> {}
\* a context variable installed through Update* stays an object
Loosen1Top(t) == Loosen1(t) \ {AnyT}

RECURSIVE TypeDepth(_)
Max2(a, b) == IF a >= b THEN a ELSE b
RECURSIVE MaxOver(_, _, _)
MaxOver(ps, i, acc) == IF i > Len(ps) THEN acc ELSE MaxOver(ps, i + 1, Max2(acc, TypeDepth(ps[i].t)))
TypeDepth(t) ==
  CASE t.k = "obj" -> 1 + Max2(MaxOver(t.props, 1, 0), IF t.m.k \in {"strict", "any"} THEN 0 ELSE TypeDepth(t.m))
    [] t.k = "arr" -> 1 + TypeDepth(t.elem)
    [] OTHER -> 0
=============================================================================
