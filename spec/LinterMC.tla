------------------------------ MODULE LinterMC ------------------------------
(* Constants for Linter: two sibling repositories whose directory names share a prefix
   ("repo", "repo-b"), a caller/callee pair and a second caller in "repo", a file outside. *)
EXTENDS Linter
FilesC == {"a", "a2", "callee", "b", "out"}
RepoOfC == [f \in FilesC |-> CASE f \in {"a", "a2", "callee"} -> "repo" [] f = "b" -> "repo-b" [] OTHER -> "none"]
ProgC == [f \in FilesC |-> IF f \in {"a", "a2"} THEN <<<<"use", "callee">>>> ELSE IF f = "callee" THEN <<<<"reg", "callee">>>> ELSE <<>>]
NamePrefixC == {<<"repo", "repo-b">>}
SpecInit == Init /\ [][FALSE]_vars
=============================================================================
