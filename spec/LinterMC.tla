------------------------------ MODULE LinterMC ------------------------------
(* Constants for Linter: two sibling repositories whose directory names share a prefix
   ("repo", "repo-b"), a caller/callee pair and a second caller in "repo", a file outside. *)
EXTENDS Linter
FilesC == {"a", "a2", "callee", "b", "out"}
RepoOfC == [f \in FilesC |-> CASE f \in {"a", "a2", "callee"} -> "repo" [] f = "b" -> "repo-b" [] OTHER -> "none"]
ProgC == [f \in FilesC |-> IF f \in {"a", "a2"} THEN <<<<"use", "callee">>>> ELSE IF f = "callee" THEN <<<<"reg", "callee">>>> ELSE <<>>]
NamePrefixC == {<<"repo", "repo-b">>}
InsideC == {}
\* nested layout: repository "inner" lies in a sub-directory of "repo"
FilesN == {"a", "callee", "in", "b"}
RepoOfN == [f \in FilesN |-> CASE f \in {"a", "callee"} -> "repo" [] f = "in" -> "inner" [] OTHER -> "repo-b"]
ProgN == [f \in FilesN |-> IF f \in {"a", "in"} THEN <<<<"use", "callee">>>> ELSE IF f = "callee" THEN <<<<"reg", "callee">>>> ELSE <<>>]
InsideN == {<<"inner", "repo">>}
SpecInit == Init /\ [][FALSE]_vars
=============================================================================
