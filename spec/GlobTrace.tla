----------------------------- MODULE GlobTrace -----------------------------
(* Trace validation for Glob: every record of trace.ndjson is one execution of the real
   ValidateRefGlob / ValidatePathGlob ([s, ref, path], symbols by name).  TLC evaluates the
   specification on each record; a mismatch does not stop validation, its index is collected. *)
EXTENDS Naturals, Sequences, TLC, Json
CONSTANTS MaxLen, Alphabet
VARIABLES l, mism, drift, s, tc

G == INSTANCE Glob

Trace == ndJsonDeserialize("trace.ndjson")

\* the property itself, judged on the real outputs by the declarative layer only
PropOK(r) ==
  /\ (r.ref = <<>>) <=> G!WF(r.s, TRUE)
  /\ (r.path = <<>>) <=> G!WF(r.s, FALSE)
  /\ (r.ref = <<>>) => (r.path = <<>>)
  /\ \A i \in DOMAIN r.ref : G!ErrOKFor(r.s, r.ref[i])
  /\ \A i \in DOMAIN r.path : G!ErrOKFor(r.s, r.path[i])
\* agreement with the operational layer (same error list); a difference here alone is model drift
ModelOK(r) == G!HasIllegal(r.s) \/ (G!ScanRef(r.s) = r.ref /\ G!ScanPath(r.s) = r.path)

Init == l = 1 /\ mism = <<>> /\ drift = <<>> /\ s = <<>> /\ tc = ""
Step ==
  /\ l <= Len(Trace)
  /\ LET r == Trace[l] IN
       /\ mism' = IF PropOK(r) \/ Len(mism) >= 200 THEN mism ELSE Append(mism, l)
       /\ drift' = IF ModelOK(r) \/ Len(drift) >= 200 THEN drift ELSE Append(drift, l)
  /\ l' = l + 1
  /\ UNCHANGED <<s, tc>>
Spec == Init /\ [][Step]_<<l, mism, drift, s, tc>>

Report == (l = Len(Trace) + 1) => PrintT(<<"MISM", Len(Trace), mism, drift>>)
=============================================================================
