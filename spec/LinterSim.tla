------------------------------ MODULE LinterSim ------------------------------
(* Behaviour generator for the scheduler gate of C10 (binding S): Linter with a history variable `last`
   = <<action, file, outcome>> naming the step just taken and what it observed, so that `tlc -simulate`
   writes behaviours the harness forces onto the real goroutines of Linter.LintFiles step by step (the hook
   points file-go / rw-reg-read / rw-reg-write / rw-read / ac-read / rw-write / ac-write block until
   granted).  The constants (files, repositories, per-file programs) come from LinterSimMC, which the check
   regenerates from a recorded free run of the real code before every use. *)
EXTENDS LinterSimMC

VARIABLE last
svars == <<vars, last>>

SimInit == Init /\ last = <<"init", "", "">>
L(a, f, o) == last' = <<a, f, o>>
AllDone == Started /\ \A f \in Range(args) : pc[f] = "done"
Present(f) == proj[f] \in Repos /\ cache[proj[f]][Op(f)[2]] # "absent"

SimNext ==
  \/ Resolve /\ L("resolve", "", "")
  \/ \E f \in Files : \/ Start(f) /\ L("start", f, "")
                      \/ RegRead(f) /\ L("regread", f, IF Present(f) THEN "present" ELSE "absent")
                      \/ RegWrite(f) /\ L("regwrite", f, "")
                      \/ ReadCache(f) /\ L("read", f, IF Present(f) THEN "hit" ELSE "miss")
                      \/ MissWrite(f) /\ L("write", f, "")
                      \/ Finish(f) /\ L("finish", f, "")
  \/ AllDone /\ UNCHANGED vars /\ L("end", "", "") /\ last[1] # "end"

SimSpec == SimInit /\ [][SimNext]_svars
=============================================================================
