------------------------------- MODULE Linter -------------------------------
(* Multi-file runs of actionlint: linter.go LintFiles, project.go (Projects.At / Project.Knows),
   action_metadata.go / reusable_workflow.go (per-project caches shared by the file goroutines).

   Resolve(k)        sequential, before any worker: the project of the k-th argument is the first
                     known project that "knows" the path, else it is searched in the parents.
   Start(f)          the goroutine of file f begins (after all Resolve steps)
   RegisterCallee(f) a file that is itself a reusable workflow registers its interface, derived
                     from the in-memory AST, unless the cache already has an entry
   ReadCache(f)      next local spec used by f: hit -> use the cached interface
   MissWrite(f)      miss -> derive the interface from the callee FILE and write it
                     (read and write are separate steps: two workers may both miss)
   Finish(f)

   Checked for every argument order and interleaving: every file is attributed to the repository
   that contains it (segment-wise), and the interface a file sees for each spec is the one it
   sees when linted alone - which holds iff the two derivations agree (Calls!DerivationsAgree);
   the cfg with Agree = FALSE / KnowsMode = "stringprefix" are the documented counterexamples. *)
EXTENDS Naturals, Sequences, FiniteSets, TLC, Json

CONSTANTS Files,        \* file ids
          RepoOf,       \* [Files -> repository name or "none"]
          Uses,         \* [Files -> sequence of local specs (reusable workflows) used by the file]
          CalleeSpec,   \* [Files -> spec the file itself provides or "none"]
          NamePrefix,   \* set of <<a, b>>: repository directory name a is a proper string prefix of b (siblings)
          KnowsMode,    \* "segments" (intended) | "stringprefix" (what strings.HasPrefix on paths does)
          Agree         \* TRUE: interface derived from the AST = interface derived from the file

VARIABLES args, k, known, proj, cache, pc, idx, seen
vars == <<args, k, known, proj, cache, pc, idx, seen>>

Repos == {RepoOf[f] : f \in Files} \ {"none"}
Specs == UNION {{Uses[f][i] : i \in DOMAIN Uses[f]} : f \in Files}
Range(s) == {s[i] : i \in DOMAIN s}

\* does project p claim the file f ?
Knows(p, f) == \/ RepoOf[f] = p
               \/ KnowsMode = "stringprefix" /\ <<p, RepoOf[f]>> \in NamePrefix
\* what the interface of spec looks like depending on where it was derived from
Iface(spec, src) == IF Agree THEN <<spec, "iface">> ELSE <<spec, src>>

Perms == {s \in [1 .. Cardinality(Files) -> Files] : \A i, j \in 1 .. Cardinality(Files) : i # j => s[i] # s[j]}

Init == /\ args \in {SubSeq(p, 1, n) : p \in Perms, n \in 1 .. Cardinality(Files)}
        /\ k = 1 /\ known = <<>>
        /\ proj = [f \in Files |-> "unresolved"]
        /\ cache = [r \in Repos |-> [s \in Specs |-> "absent"]]
        /\ pc = [f \in Files |-> "idle"] /\ idx = [f \in Files |-> 1]
        /\ seen = [f \in Files |-> <<>>]

Resolve ==
  /\ k <= Len(args)
  /\ LET f == args[k]
         hits == {i \in DOMAIN known : Knows(known[i], f)} IN
     IF hits # {}
       THEN /\ proj' = [proj EXCEPT ![f] = known[CHOOSE i \in hits : \A j \in hits : i <= j]]
            /\ UNCHANGED known
       ELSE /\ proj' = [proj EXCEPT ![f] = RepoOf[f]]
            /\ known' = IF RepoOf[f] = "none" THEN known ELSE Append(known, RepoOf[f])
  /\ k' = k + 1
  /\ UNCHANGED <<args, cache, pc, idx, seen>>

Started == k > Len(args)
Start(f) == /\ Started /\ f \in Range(args) /\ pc[f] = "idle"
            /\ pc' = [pc EXCEPT ![f] = IF CalleeSpec[f] # "none" THEN "register" ELSE "use"]
            /\ UNCHANGED <<args, k, known, proj, cache, idx, seen>>
RegisterCallee(f) ==
  /\ pc[f] = "register"
  /\ LET r == proj[f] s == CalleeSpec[f] IN
     cache' = IF r \in Repos /\ cache[r][s] = "absent" THEN [cache EXCEPT ![r][s] = "ast"] ELSE cache
  /\ pc' = [pc EXCEPT ![f] = "use"]
  /\ UNCHANGED <<args, k, known, proj, idx, seen>>
ReadCache(f) ==
  /\ pc[f] = "use" /\ idx[f] <= Len(Uses[f])
  /\ LET r == proj[f] s == Uses[f][idx[f]] IN
     IF r \in Repos /\ cache[r][s] # "absent"
       THEN /\ seen' = [seen EXCEPT ![f] = Append(@, Iface(s, cache[r][s]))]
            /\ idx' = [idx EXCEPT ![f] = @ + 1] /\ UNCHANGED pc
       ELSE /\ pc' = [pc EXCEPT ![f] = "miss"] /\ UNCHANGED <<seen, idx>>
  /\ UNCHANGED <<args, k, known, proj, cache>>
MissWrite(f) ==
  /\ pc[f] = "miss"
  /\ LET r == proj[f] s == Uses[f][idx[f]] IN
     /\ cache' = IF r \in Repos THEN [cache EXCEPT ![r][s] = "file"] ELSE cache
     /\ seen' = [seen EXCEPT ![f] = Append(@, Iface(s, "file"))]
  /\ idx' = [idx EXCEPT ![f] = @ + 1] /\ pc' = [pc EXCEPT ![f] = "use"]
  /\ UNCHANGED <<args, k, known, proj>>
Finish(f) == /\ pc[f] = "use" /\ idx[f] > Len(Uses[f]) /\ pc' = [pc EXCEPT ![f] = "done"]
             /\ UNCHANGED <<args, k, known, proj, cache, idx, seen>>

Next == Resolve \/ \E f \in Files : Start(f) \/ RegisterCallee(f) \/ ReadCache(f) \/ MissWrite(f) \/ Finish(f)
Spec == Init /\ [][Next]_vars

\* a file is always attributed to the repository that actually contains it
Attribution == \A f \in Files : proj[f] # "unresolved" => proj[f] = RepoOf[f]
\* what a file sees = what it sees when linted alone (every interface derived from the callee file)
Isolation == \A f \in Files : pc[f] = "done" =>
               seen[f] = [i \in DOMAIN Uses[f] |-> Iface(Uses[f][i], "file")]
=============================================================================
