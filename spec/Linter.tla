------------------------------- MODULE Linter -------------------------------
(* Multi-file runs of actionlint: linter.go LintFiles, project.go (Projects.At / Project.Knows),
   action_metadata.go / reusable_workflow.go (per-project caches shared by the file goroutines).

   Every file has a PROGRAM: the sequence of cache operations its goroutine performs, in the order the
   rules perform them - <<"reg", spec>> (the file is itself a reusable workflow and registers the
   interface derived from its AST, WriteWorkflowCallEvent) and <<"use", spec>> (FindMetadata of a local
   action or reusable workflow).  For the bounded model the programs are constants; for the scheduler
   gate they are read off a recorded run of the real code (hook points rw-reg-read / rw-read / ac-read).

   Resolve(k)     sequential, before any worker: the root of the k-th argument is searched in its parents and
                  the known project instance with that root is reused (ResolveMode "search"; the variant
                  "knownfirst" - first known project that contains the path - is what the code did before
                  fix: nested repositories; kept as a counterexample guard).
   Start(f)       the goroutine of file f begins (after all Resolve steps)           [hook file-go]
   RegRead(f)     "reg": look the spec up; present -> nothing to do                   [rw-reg-read]
   RegWrite(f)    "reg": absent at RegRead -> write the AST-derived interface (a separate step:
                  another worker may have written in between and is overwritten)      [rw-reg-write]
   ReadCache(f)   "use": hit -> use the cached interface                              [rw-read, ac-read]
   MissWrite(f)   "use": miss -> derive the interface from the FILE and write it
                  (read and write are separate steps: two workers may both miss)      [rw-write, ac-write]
   Finish(f)                                                                          [file-done]

   Checked for every argument order and interleaving: every file is attributed to the repository
   that contains it (segment-wise), and the interface a file sees for each spec is the one it
   sees when linted alone - which holds iff the two derivations agree (Calls!DerivationsAgree);
   the cfg with Agree = FALSE / KnowsMode = "stringprefix" are the documented counterexamples. *)
EXTENDS Naturals, Sequences, FiniteSets, TLC, Json

CONSTANTS Files,        \* file ids
          RepoOf,       \* [Files -> repository name or "none"]
          Prog,         \* [Files -> sequence of <<"reg" | "use", spec>>]
          NamePrefix,   \* set of <<a, b>>: repository directory name a is a proper string prefix of b (siblings)
          Inside,       \* set of <<inner, outer>>: repository inner lies in a sub-directory of repository outer (nested)
          KnowsMode,    \* "segments" (intended) | "stringprefix" (what strings.HasPrefix on paths does)
          ResolveMode,  \* "search" (the root is always searched from the file, instances are reused by root) |
                        \* "knownfirst" (the first known project that contains the path wins - wrong for nested repositories)
          Agree         \* TRUE: interface derived from the AST = interface derived from the file

VARIABLES args, k, known, proj, cache, pc, idx, seen
vars == <<args, k, known, proj, cache, pc, idx, seen>>

Repos == {RepoOf[f] : f \in Files} \ {"none"}
Specs == UNION {{Prog[f][i][2] : i \in DOMAIN Prog[f]} : f \in Files}
Op(f) == Prog[f][idx[f]]
\* the specs a file uses, in program order (what Isolation talks about)
RECURSIVE UsesFrom(_, _)
UsesFrom(p, i) == IF i > Len(p) THEN <<>> ELSE IF p[i][1] = "use" THEN <<p[i][2]>> \o UsesFrom(p, i + 1) ELSE UsesFrom(p, i + 1)
Uses(f) == UsesFrom(Prog[f], 1)
Range(s) == {s[i] : i \in DOMAIN s}

\* does project p claim the file f ?
Knows(p, f) == \/ RepoOf[f] = p
               \/ <<RepoOf[f], p>> \in Inside          \* the path of a file of a nested repository starts with the outer root too
               \/ KnowsMode = "stringprefix" /\ <<p, RepoOf[f]>> \in NamePrefix
\* what the interface of spec looks like depending on where it was derived from
Iface(spec, src) == IF Agree THEN <<spec, "iface">> ELSE <<spec, src>>

Perms == {s \in [1 .. Cardinality(Files) -> Files] : \A i, j \in 1 .. Cardinality(Files) : i # j => s[i] # s[j]}

Init == /\ args \in {SubSeq(p, 1, n) : p \in Perms, n \in 1 .. Cardinality(Files)}
        /\ k = 1 /\ known = <<>>
        /\ proj = [f \in Files |-> "unresolved"]
        /\ cache = [r \in Repos |-> [s \in Specs |-> "absent"]]
        /\ pc = [f \in Files |-> "idle"] /\ idx = [f \in Files |-> 1]
        /\ seen = [f \in Files |-> <<>>]

Resolve ==
  /\ k <= Len(args)
  /\ LET f == args[k]
         hits == {i \in DOMAIN known : Knows(known[i], f)} IN
     IF ResolveMode = "knownfirst" /\ hits # {}
       THEN /\ proj' = [proj EXCEPT ![f] = known[CHOOSE i \in hits : \A j \in hits : i <= j]]
            /\ UNCHANGED known
       ELSE /\ proj' = [proj EXCEPT ![f] = RepoOf[f]]
            /\ known' = IF RepoOf[f] = "none" \/ RepoOf[f] \in Range(known) THEN known ELSE Append(known, RepoOf[f])
  /\ k' = k + 1
  /\ UNCHANGED <<args, cache, pc, idx, seen>>

Started == k > Len(args)
Start(f) == /\ Started /\ f \in Range(args) /\ pc[f] = "idle"
            /\ pc' = [pc EXCEPT ![f] = "run"]
            /\ UNCHANGED <<args, k, known, proj, cache, idx, seen>>
AtOp(f, o) == pc[f] = "run" /\ idx[f] <= Len(Prog[f]) /\ Op(f)[1] = o
RegRead(f) ==
  /\ AtOp(f, "reg")
  /\ LET r == proj[f] s == Op(f)[2] IN
     IF r \in Repos /\ cache[r][s] = "absent"
       THEN pc' = [pc EXCEPT ![f] = "regwrite"] /\ UNCHANGED idx
       ELSE idx' = [idx EXCEPT ![f] = @ + 1] /\ UNCHANGED pc
  /\ UNCHANGED <<args, k, known, proj, cache, seen>>
RegWrite(f) ==
  /\ pc[f] = "regwrite"
  /\ cache' = [cache EXCEPT ![proj[f]][Op(f)[2]] = "ast"]      \* unconditional: overwrites what was written since RegRead
  /\ idx' = [idx EXCEPT ![f] = @ + 1] /\ pc' = [pc EXCEPT ![f] = "run"]
  /\ UNCHANGED <<args, k, known, proj, seen>>
ReadCache(f) ==
  /\ AtOp(f, "use")
  /\ LET r == proj[f] s == Op(f)[2] IN
     IF r \in Repos /\ cache[r][s] # "absent"
       THEN /\ seen' = [seen EXCEPT ![f] = Append(@, Iface(s, cache[r][s]))]
            /\ idx' = [idx EXCEPT ![f] = @ + 1] /\ UNCHANGED pc
       ELSE /\ pc' = [pc EXCEPT ![f] = "miss"] /\ UNCHANGED <<seen, idx>>
  /\ UNCHANGED <<args, k, known, proj, cache>>
MissWrite(f) ==
  /\ pc[f] = "miss"
  /\ LET r == proj[f] s == Op(f)[2] IN
     /\ cache' = IF r \in Repos THEN [cache EXCEPT ![r][s] = "file"] ELSE cache
     /\ seen' = [seen EXCEPT ![f] = Append(@, Iface(s, "file"))]
  /\ idx' = [idx EXCEPT ![f] = @ + 1] /\ pc' = [pc EXCEPT ![f] = "run"]
  /\ UNCHANGED <<args, k, known, proj>>
Finish(f) == /\ pc[f] = "run" /\ idx[f] > Len(Prog[f]) /\ pc' = [pc EXCEPT ![f] = "done"]
             /\ UNCHANGED <<args, k, known, proj, cache, idx, seen>>

Next == Resolve \/ \E f \in Files : Start(f) \/ RegRead(f) \/ RegWrite(f) \/ ReadCache(f) \/ MissWrite(f) \/ Finish(f)
Spec == Init /\ [][Next]_vars

\* a file is always attributed to the repository that actually contains it
Attribution == \A f \in Files : proj[f] # "unresolved" => proj[f] = RepoOf[f]
\* what a file sees = what it sees when linted alone (every interface derived from the callee file)
Isolation == \A f \in Files : pc[f] = "done" =>
               seen[f] = [i \in DOMAIN Uses(f) |-> Iface(Uses(f)[i], "file")]
=============================================================================
