--------------------------- MODULE TypeAlgebraOps ---------------------------
(* EXT04 - the type algebra of actionlint's expression types (expr_type.go): pure definitions shared by
   TypeAlgebra (generator), TypeAlgebraTrace (judgement of recorded real outcomes) and FuncCalls.

   Terms are those of ExprTypes (any | null | number | bool | string | obj(props, m) | arr(elem, deref)); property
   names come from NamePool, whose order is the order of sort.Strings ("A" < "a" < "b": two names differ in case only).

   Operational layer
     Assignable            ExprTypes!Assignable (expr_type.go: Assignable of every type)
     MergeD(t, u, dv)      the SET of values t.Merge(u) can return under the enabled deviations dv.  dv = AllDevs is the code
                           as read (MergeAll).  A set because, with Dev_MergeMapOrder, ObjectType.Merge folded the new properties
                           of `other` into Mapped in map iteration order (repaired: sorted order).  dv = {} is the design:
                           the smallest repair of Merge under which all laws below hold on the universe (Agree)
     OpEq(t, u), EqD       EqualTypes: l.Assignable(r) && r.Assignable(l) (as read) / the equivalence of Sub (design)
     Str(t)                String()
   Declarative layer (documentation: docs/checks.md "Type checks for expression syntax", the doc comments of expr_type.go)
     Str                   the notation table of checks.md (any, number, bool, string, null, array<T>, object,
                           {p1: T1; p2: T2} as printed in every example, {string => T})
     DA(t, u)              what the documentation says about assignability, a PARTIAL function [d |-> defined, v |-> value]:
                           "Only any and number are allowed to be converted to string implicitly", "Implicit conversion to
                           number is not allowed", "Any type can be converted into bool", any is compatible both ways;
                           arrays by element; objects by the field comments of ObjectType (loose: any properties;
                           strict: only the known properties; Mapped: "all props have the type").  Silent on non-strict
                           objects that carry own properties.
     DM(t, u)              what the documentation says about Merge, PARTIAL: "When other type conflicts with this type, the
                           merged result is any type as fallback"; same type -> itself; number merges into string (the
                           only implicit conversion); arrays element-wise and "When fusing array deref type, it means prop
                           deref chain breaks" (Deref false).  Silent on {bool,string} and {number,bool} (bool accepts
                           every type, the documentation does not say whether that is a conflict) and on objects, for
                           which ObjShape / ObjProps / WF state the doc comment of ObjectType.Merge and the struct invariant.
     Sub(t, u)             the loosening preorder of DESIGN A.6 (ExprTypes!Loosens) extended by the two widenings the
                           documentation gives to Merge: number -> string and "When other object has unknown props, they are
                           merged into current object" (a key may be absent below and present above; a key that is not
                           listed has the mapped type).  Deref is not part of the order (Assignable ignores it too).
     Broken*(...)          the laws and facts, evaluated on an OUTCOME record (the observables of one vector, produced by
                           the operational layer in the generator and by the real code in the harness). *)
EXTENDS ExprTypes, Json, SequencesExt

NamePool == <<"A", "a", "b">>
Canon(S, F(_)) == LET ns == SelectSeq(NamePool, LAMBDA n : n \in S) IN [i \in 1 .. Len(ns) |-> P(ns[i], F(ns[i]))]
IsScalar(t) == t.k \in {"any", "null", "number", "bool", "string"}
Absent == [k |-> "absent"]
SetSeq(S) == SetToSeq(S)

----------------------------------------------------------------------------
(* Operational layer *)
\* Named deviations of the code as read from a lawful design (DESIGN 2.1).  MergeD / EqD take the set of ENABLED
\* deviations: with all of them the operators are the code as read, with none they are the design (the smallest repair
\* under which the laws below hold on the universe - invariant Agree of TypeAlgebra).
\*   Dev_MergeMapOrder              ObjectType.Merge folds the new properties of `other` into Mapped in map iteration order
\*                                  (design: in sorted key order)
\*   Dev_StrictReceiverNotFolded    a strict receiver merged with a non-strict object takes over the other's Mapped without
\*                                  folding its own properties into it (the other way round they are folded)
\*   Dev_CommonPropNotFolded        the merged type of a property both sides list is not folded into Mapped
\*   Dev_BoolMergesIntoString       bool merged with string is string although string does not accept bool (design: any,
\*                                  "When other type conflicts with this type, the merged result is any type as fallback")
\*   Dev_ArrayAnyShortcutKeepsDeref array<any> merged with an array returns the array<any> operand itself, Deref flag included
\*                                  (design: Deref false as for every other pair, "prop deref chain breaks")
\*   Dev_EqualTypesIsCompatibility  EqualTypes is mutual assignability: any equals every type, a map object equals every
\*                                  strict object whose properties fit (design: the equivalence of the preorder Sub)
\* Dev_MergeMapOrder, Dev_StrictReceiverNotFolded, Dev_CommonPropNotFolded and Dev_ArrayAnyShortcutKeepsDeref were repaired
\* in /repo (a8ccf7a "fix: ObjectType.Merge keeps the element type of a map object an upper bound ..."); their branches stay
\* as named, disabled deviations: the generator predicts the outcome of every vector with each of them back (TypeAlgebra!Back)
\* so that a regression is reported under its name.
AllDevs == {"Dev_BoolMergesIntoString", "Dev_EqualTypesIsCompatibility"}
RepairedDevs == {"Dev_MergeMapOrder", "Dev_StrictReceiverNotFolded", "Dev_CommonPropNotFolded", "Dev_ArrayAnyShortcutKeepsDeref"}

RECURSIVE MergeD(_, _, _), FoldD(_, _, _, _), Perms(_)
Perms(s) == IF Len(s) <= 1 THEN {s}
            ELSE UNION {{<<s[i]>> \o p : p \in Perms(SubSeq(s, 1, i - 1) \o SubSeq(s, i + 1, Len(s)))} : i \in DOMAIN s}
\* mapped = mapped.Merge(r) for the types ps[i], in the order ps
FoldD(ms, ps, i, dv) == IF i > Len(ps) THEN ms ELSE FoldD(UNION {MergeD(m, ps[i], dv) : m \in ms}, ps, i + 1, dv)
MergeD(ty, o, dv) ==
  CASE ty.k = "any"    -> {ty}
    [] ty.k = "null"   -> {IF o.k = "null" THEN ty ELSE AnyT}
    [] ty.k = "number" -> {IF o.k = "number" THEN ty ELSE IF o.k = "string" THEN o ELSE AnyT}
    [] ty.k = "bool"   -> {IF o.k = "bool" THEN ty
                           ELSE IF o.k = "string" THEN (IF "Dev_BoolMergesIntoString" \in dv THEN o ELSE AnyT) ELSE AnyT}
    [] ty.k = "string" -> {IF o.k \in {"string", "number"} THEN ty
                           ELSE IF o.k = "bool" THEN (IF "Dev_BoolMergesIntoString" \in dv THEN ty ELSE AnyT) ELSE AnyT}
    [] ty.k = "obj" ->
         IF o.k # "obj" THEN {AnyT}
         ELSE IF Len(ty.props) = 0 /\ IsLoose(o) THEN {o}                \* shortcut: returns `other` itself
         ELSE IF Len(o.props) = 0 /\ IsLoose(ty) THEN {ty}               \* shortcut: returns the receiver itself
         ELSE LET m0s    == IF IsStrict(ty) THEN {o.m} ELSE IF IsStrict(o) THEN {ty.m} ELSE MergeD(ty.m, o.m, dv)
                  common == Names(ty) \cap Names(o)
                  Res(n) == MergeD(PropT(ty, n), PropT(o, n), dv)
                  picks  == IF common = {} THEN {<<>>}
                            ELSE {f \in [common -> UNION {Res(n) : n \in common}] : \A n \in common : f[n] \in Res(n)}
                  own    == IF "Dev_StrictReceiverNotFolded" \notin dv /\ IsStrict(ty)
                              THEN [i \in DOMAIN ty.props |-> ty.props[i].t] ELSE <<>>
                  \* the types folded into Mapped while visiting the properties of `other` (sorted, or in map order)
                  Vis(f) == LET ps == SelectSeq(o.props, LAMBDA p : ~HasProp(ty, p.n) \/ "Dev_CommonPropNotFolded" \notin dv) IN
                            [i \in DOMAIN ps |-> IF HasProp(ty, ps[i].n) THEN f[ps[i].n] ELSE ps[i].t]
                  Orders(f) == IF "Dev_MergeMapOrder" \in dv THEN Perms(Vis(f)) ELSE {Vis(f)}
                  M1s(f) == UNION {IF m0.k = "strict" THEN {m0}
                                   ELSE UNION {FoldD({m0}, own \o pm, 1, dv) : pm \in Orders(f)} : m0 \in m0s}
              IN UNION {{Obj(Canon(Names(ty) \cup Names(o),
                                   LAMBDA n : IF n \in common THEN f[n] ELSE IF HasProp(ty, n) THEN PropT(ty, n) ELSE PropT(o, n)), m1) :
                         m1 \in M1s(f)} : f \in picks}
    [] ty.k = "arr" ->
         IF o.k # "arr" THEN {AnyT}
         ELSE IF ty.elem.k = "any"                                       \* shortcut: the receiver itself (keeps its Deref)
           THEN {IF "Dev_ArrayAnyShortcutKeepsDeref" \in dv THEN ty ELSE Arr(AnyT, FALSE)}
         ELSE IF o.elem.k = "any"
           THEN {IF "Dev_ArrayAnyShortcutKeepsDeref" \in dv THEN o ELSE Arr(AnyT, FALSE)}
         ELSE {Arr(e, FALSE) : e \in MergeD(ty.elem, o.elem, dv)}
MergeAll(ty, o) == MergeD(ty, o, AllDevs)

OpEq(t, u) == Assignable(t, u) /\ Assignable(u, t)      \* EqualTypes as read

RECURSIVE Str(_), StrProps(_, _)
StrProps(ps, i) == IF i > Len(ps) THEN ""
                   ELSE (IF i > 1 THEN "; " ELSE "") \o ps[i].n \o ": " \o Str(ps[i].t) \o StrProps(ps, i + 1)
Str(t) ==
  CASE t.k = "obj" -> IF IsStrict(t) THEN "{" \o StrProps(t.props, 1) \o "}"
                      ELSE IF IsLoose(t) THEN "object" ELSE "{string => " \o Str(t.m) \o "}"
    [] t.k = "arr" -> "array<" \o Str(t.elem) \o ">"
    [] OTHER -> t.k

\* the struct invariant of ObjectType: "All types in Props field must be assignable to this type (Mapped)"
RECURSIVE WF(_)
WF(t) ==
  CASE t.k = "obj" -> /\ \A i \in DOMAIN t.props : WF(t.props[i].t)
                      /\ IF IsStrict(t) THEN TRUE
                         ELSE WF(t.m) /\ \A i \in DOMAIN t.props : Assignable(t.m, t.props[i].t)
    [] t.k = "arr" -> WF(t.elem)
    [] OTHER -> TRUE

----------------------------------------------------------------------------
(* Declarative layer *)
Dv(v) == [d |-> TRUE, v |-> v]
Undef == [d |-> FALSE, v |-> FALSE]
AllOf(S) == IF \E x \in S : ~x.d THEN Undef ELSE Dv(\A x \in S : x.v)
PlainObj(o) == IsStrict(o) \/ Len(o.props) = 0

RECURSIVE DA(_, _)
DA(t, u) ==
  IF t.k = "any" THEN Dv(TRUE)
  ELSE IF u.k = "any" THEN Dv(TRUE)
  ELSE CASE t.k = "bool"   -> Dv(TRUE)
         [] t.k = "null"   -> Dv(u.k = "null")
         [] t.k = "number" -> Dv(u.k = "number")
         [] t.k = "string" -> Dv(u.k \in {"string", "number"})
         [] t.k = "arr"    -> IF u.k = "arr" THEN DA(t.elem, u.elem) ELSE Dv(FALSE)
         [] t.k = "obj"    ->
              IF u.k # "obj" THEN Dv(FALSE)
              ELSE IF ~PlainObj(t) THEN Undef
              ELSE IF ~PlainObj(u) THEN Undef
              ELSE IF IsLoose(t) THEN Dv(TRUE)
              ELSE IF ~IsStrict(t)
                THEN (IF IsStrict(u) THEN AllOf({DA(t.m, u.props[i].t) : i \in DOMAIN u.props}) ELSE DA(t.m, u.m))
              ELSE IF IsStrict(u)
                THEN (IF Names(u) \subseteq Names(t) THEN AllOf({DA(PropT(t, n), PropT(u, n)) : n \in Names(u)}) ELSE Dv(FALSE))
              ELSE AllOf({DA(t.props[i].t, u.m) : i \in DOMAIN t.props})

RECURSIVE DM(_, _)
DM(t, u) ==
  IF t.k = "any" THEN Dv(AnyT)
  ELSE IF u.k = "any" THEN Dv(AnyT)
  ELSE IF IsScalar(t) /\ IsScalar(u)
    THEN (IF t.k = u.k THEN Dv(t)
          ELSE IF {t.k, u.k} = {"number", "string"} THEN Dv(String)
          ELSE IF "null" \in {t.k, u.k} THEN Dv(AnyT)
          ELSE Undef)
  ELSE IF t.k = "arr" /\ u.k = "arr"
    THEN (LET e == DM(t.elem, u.elem) IN IF e.d THEN Dv(Arr(e.v, FALSE)) ELSE Undef)
  ELSE IF t.k = "obj" /\ u.k = "obj" THEN Undef
  ELSE Dv(AnyT)

KeyT(o, n) == IF HasProp(o, n) THEN PropT(o, n) ELSE IF IsStrict(o) THEN Absent ELSE o.m
RECURSIVE Sub(_, _)
Sub(t, u) ==
  IF u.k = "any" THEN TRUE
  ELSE IF t.k = "number" /\ u.k = "string" THEN TRUE
  ELSE IF t.k # u.k THEN FALSE
  ELSE CASE t.k = "obj" -> \A n \in Names(t) \cup Names(u) \cup {"*"} :
                              LET a == KeyT(t, n) b == KeyT(u, n) IN
                              IF a.k = "absent" THEN TRUE ELSE IF b.k = "absent" THEN FALSE ELSE Sub(a, b)
         [] t.k = "arr" -> Sub(t.elem, u.elem)
         [] OTHER -> TRUE
SubEq(t, u) == Sub(t, u) /\ Sub(u, t)

\* operands that list the same keys at every level: the loosening preorder compares only such types
RECURSIVE SameKeys(_, _)
SameKeys(t, u) ==
  IF t.k = "obj" /\ u.k = "obj"
    THEN /\ Names(t) = Names(u)
         /\ \A n \in Names(t) : SameKeys(PropT(t, n), PropT(u, n))
         /\ IF IsStrict(t) THEN TRUE ELSE IF IsStrict(u) THEN TRUE ELSE SameKeys(t.m, u.m)
  ELSE IF t.k = "arr" /\ u.k = "arr" THEN SameKeys(t.elem, u.elem)
  ELSE TRUE

\* doc comment of ObjectType.Merge, for one result m of merging the objects t and u
ObjShapeOK(t, u, m) ==
  /\ m.k = "obj"
  /\ Names(m) = Names(t) \cup Names(u)                                  \* unknown props are merged into the object
  /\ IsStrict(m) <=> (IsStrict(t) /\ IsStrict(u))                        \* a side that allows unknown props keeps allowing them
ObjPropsOK(t, u, m) ==
  m.k = "obj" =>
    \A n \in Names(m) :
      IF HasProp(t, n) /\ HasProp(u, n)
        THEN (LET d == DM(PropT(t, n), PropT(u, n)) IN d.d => PropT(m, n) = d.v)
      ELSE IF HasProp(t, n) THEN PropT(m, n) = PropT(t, n)
      ELSE IF HasProp(u, n) THEN PropT(m, n) = PropT(u, n)
      ELSE TRUE
\* join-closed: Merge has nothing to add to the mapped type for the listed properties (every non-strict object that
\* NewObjectType / NewMapObjectType / Merge produce from such objects is of this form, cf. Dev_StrictReceiverNotFolded)
RECURSIVE JC(_)
JC(t) ==
  CASE t.k = "obj" -> /\ \A i \in DOMAIN t.props : JC(t.props[i].t)
                      /\ IF IsStrict(t) THEN TRUE
                         ELSE JC(t.m) /\ \A i \in DOMAIN t.props : MergeAll(t.m, t.props[i].t) = {t.m}
    [] t.k = "arr" -> JC(t.elem)
    [] OTHER -> TRUE

StrsOf(S) == {Str(x) : x \in S}
\* the notation of checks.md prints a non-strict object as `object` / `{string => T}`: the properties it lists are not shown
RECURSIVE Printable(_)
Printable(t) ==
  CASE t.k = "obj" -> IF IsStrict(t) THEN \A i \in DOMAIN t.props : Printable(t.props[i].t)
                      ELSE Len(t.props) = 0 /\ Printable(t.m)
    [] t.k = "arr" -> Printable(t.elem)
    [] OTHER -> TRUE

----------------------------------------------------------------------------
(* Outcomes of the operational layer under the enabled deviations dv (same record shapes as the harness writes) *)
EqD(t, u, dv) == IF "Dev_EqualTypesIsCompatibility" \in dv THEN OpEq(t, u) ELSE SubEq(t, u)
OutUnD(t, dv) ==
  LET mm == MergeD(t, t, dv) IN
  [str |-> Str(t), self |-> Assignable(t, t), eqself |-> EqD(t, t, dv), mm |-> mm,
   idemEq |-> \A m \in mm : EqD(m, t, dv), copy |-> t, copyEq |-> EqD(t, t, dv), shared |-> FALSE]
OutBinD(t, u, dv) ==
  LET a == MergeD(t, u, dv) b == MergeD(u, t, dv) IN
  [asgTU |-> Assignable(t, u), asgUT |-> Assignable(u, t), eqTU |-> EqD(t, u, dv), eqUT |-> EqD(u, t, dv),
   mTU |-> a, mUT |-> b,
   commEq |-> \A x \in a : \A y \in b : EqD(x, y, dv),
   accTU |-> \A x \in a : Assignable(x, t) /\ Assignable(x, u),
   accUT |-> \A y \in b : Assignable(y, u) /\ Assignable(y, t),
   pure |-> TRUE]
OutTriD(t, u, v, dv) ==
  LET l == UNION {MergeD(m, v, dv) : m \in MergeD(t, u, dv)}
      r == UNION {MergeD(t, m, dv) : m \in MergeD(u, v, dv)} IN
  [eTU |-> EqD(t, u, dv), eUV |-> EqD(u, v, dv), eTV |-> EqD(t, v, dv), l |-> l, r |-> r,
   assocEq |-> \A x \in l : \A y \in r : EqD(x, y, dv)]
OutUn(t) == OutUnD(t, AllDevs)
OutBin(t, u) == OutBinD(t, u, AllDevs)
OutTri(t, u, v) == OutTriD(t, u, v, AllDevs)

----------------------------------------------------------------------------
(* Laws and facts: names of the rules an outcome breaks *)
Rule(name, cond) == IF cond THEN {name} ELSE {}

BrokenUn(t, o) ==
     Rule("U_Str",      o.str # Str(t))                                  \* notation table of checks.md
  \cup Rule("U_Refl",   ~o.self)                                         \* Assignable is reflexive
  \cup Rule("U_EqRefl", ~o.eqself)                                       \* Equals is reflexive
  \cup Rule("U_Idem",   ~o.idemEq)                                       \* Merge(t, t) Equals t
  \cup Rule("U_IdemStr", StrsOf(o.mm) # {Str(t)})                        \* ... and prints like t
  \cup Rule("U_Det",    Cardinality(o.mm) # 1)                           \* Merge is a function
  \cup Rule("U_MergeWF", \E m \in o.mm : ~WF(m))                         \* Merge keeps the struct invariant
  \cup Rule("U_Copy",   o.copy # t \/ ~o.copyEq)                         \* DeepCopy "duplicates itself"
  \cup Rule("U_CopyShared", o.shared)                                    \* "All its child types are copied recursively"

MergeFactBroken(t, u, ms) == LET d == DM(t, u) IN d.d /\ ms # {d.v}
BothObj(t, u) == t.k = "obj" /\ u.k = "obj"

BrokenBin(t, u, o) ==
     Rule("B_AsgFact",  (LET d == DA(t, u) IN d.d /\ d.v # o.asgTU) \/ (LET e == DA(u, t) IN e.d /\ e.v # o.asgUT))
  \cup Rule("B_EqSym",  o.eqTU # o.eqUT)                                 \* Equals is symmetric
  \cup Rule("B_EqIsEquality", o.eqTU # SubEq(t, u))                      \* "returns if the two types are equal"
  \cup Rule("B_StrInj", Printable(t) /\ Printable(u) /\ Str(t) = Str(u) /\ ~o.eqTU)   \* String() is injective up to Equals
  \cup Rule("B_MergeFact", MergeFactBroken(t, u, o.mTU) \/ MergeFactBroken(u, t, o.mUT))
  \cup Rule("B_ObjShape", BothObj(t, u) /\ ((\E m \in o.mTU : ~ObjShapeOK(t, u, m)) \/ (\E m \in o.mUT : ~ObjShapeOK(u, t, m))))
  \cup Rule("B_ObjProps", BothObj(t, u) /\ ((\E m \in o.mTU : ~ObjPropsOK(t, u, m)) \/ (\E m \in o.mUT : ~ObjPropsOK(u, t, m))))
  \cup Rule("B_MergeWF", \E m \in o.mTU \cup o.mUT : ~WF(m))             \* Merge keeps the struct invariant
  \cup Rule("B_Det",    Cardinality(o.mTU) # 1 \/ Cardinality(o.mUT) # 1) \* Merge is a function
  \cup Rule("B_Comm",   ~o.commEq)                                       \* Merge is commutative up to Equals
  \cup Rule("B_CommStr", StrsOf(o.mTU) # StrsOf(o.mUT))                  \* ... and both orders print alike
  \cup Rule("B_Upper",  SameKeys(t, u) /\ \E m \in o.mTU \cup o.mUT : ~Sub(t, m) \/ ~Sub(u, m))   \* Merge(t,u) is an upper bound of t and u
  \cup Rule("B_Accepts", ~o.accTU \/ ~o.accUT)                           \* the merged type accepts both operands
  \cup Rule("B_Pure",   ~o.pure)                                         \* Merge does not modify its operands

BrokenTri(t, u, v, o) ==
     Rule("T_EqTrans",  o.eTU /\ o.eUV /\ ~o.eTV)                        \* Equals is transitive
  \cup Rule("T_Assoc",  ~o.assocEq)                                      \* Merge is associative up to Equals
  \cup Rule("T_AssocStr", StrsOf(o.l) # StrsOf(o.r))                     \* ... and both groupings print alike
=============================================================================
