-------------------------- MODULE TypeAlgebraTrace --------------------------
(* EXT04 - judgement of recorded real outcomes of the type-algebra vectors (binding T).  Every record of trace.ndjson is
   [id, kind, t, u, v, out]: the operands of one vector and the observables the real code produced for it (harness
   `ta-run`).  TLC evaluates the laws and facts of TypeAlgebraOps on the real outcome; `tc` carries the verdict
   [id, broken] for each record (read from the dump).  Used for every vector whose real outcome is not the one the
   operational layer predicted, for the replay of a stored violation and for the binding self-test. *)
EXTENDS TypeAlgebraOps
VARIABLES l, tc

Trace == ndJsonDeserialize("trace.ndjson")

NormUn(o) == [o EXCEPT !.mm = ToSet(@)]
NormBin(o) == [o EXCEPT !.mTU = ToSet(@), !.mUT = ToSet(@)]
NormTri(o) == [o EXCEPT !.l = ToSet(@), !.r = ToSet(@)]
Verdict(r) ==
  CASE r.kind = "un"  -> BrokenUn(r.t, NormUn(r.out))
    [] r.kind = "bin" -> BrokenBin(r.t, r.u, NormBin(r.out))
    [] r.kind = "tri" -> BrokenTri(r.t, r.u, r.v, NormTri(r.out))

Init == l = 0 /\ tc = ToJson([kind |-> "header", n |-> Len(Trace)])
Step == /\ l < Len(Trace)
        /\ l' = l + 1
        /\ tc' = ToJson([id |-> Trace[l + 1].id, broken |-> SetToSeq(Verdict(Trace[l + 1]))])
Spec == Init /\ [][Step]_<<l, tc>>
=============================================================================
