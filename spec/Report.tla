------------------------------- MODULE Report -------------------------------
(* Rendering of diagnostics by actionlint: error.go (Error.PrettyPrint, getLine, getIndicator,
   GetTemplateFields), linter.go (printErrors) and the shipped problem matcher
   (.github/actionlint-matcher.json).

   Part A - Render as a homomorphic image of the diagnostic list.
     A diagnostic is [msg |-> sequence of message atoms]; file, position and kind are the fixed
     tokens F, P, K.  The byte stream of the header lines is a token sequence; physical lines are
     obtained by cutting the stream at line feeds.  Parse is a token-level transcription of the
     matcher regexp  ^E?(.+?)E*:E*(\d+)E*:E*(\d+)E*: E*(.+?)E* \[(KIND)\]$  on colour-free lines:
     lazy groups = smallest index for which the rest of the pattern still matches.
     The message atom "pc" stands for text that a formatting layer between the message and the
     output could interpret (%, %%, %s, %d, %v, %!, %[1]s, {{, }}, \, \n as two characters, $1,
     %0A, ::): to the renderers and to the matcher it is ordinary text, so it has no role below;
     the harness instantiates it with each of these strings.
     KindPat selects the pattern of the last group: "lazy" (.+? - shipped), "norb" ([^\]]+) and
     "nobr" ([^\[\]]+ - proposed repair).
     Checked by TLC for every list of <= MaxDiags diagnostics with messages of <= MaxAtoms atoms:
       Homomorphic     Render(ds) = concatenation of Render(<<d>>), empty list -> empty output
       OneLineIff      #physical lines = #diagnostics  <=>  no message contains a line feed
                       (and the same with CR counted as a terminator, for CR-splitting consumers)
       FaithfulIff     the matcher parses the header of d back to d  <=>  Parseable(d.msg); for the
                       shipped pattern Parseable excludes an opening " [" after the first atom.

   Part B - guard model of the snippet code.
     A source is [lines |-> sequence of lines (sequences of character atoms), eol, final].
     Operational layer: GetLine (bufio.Scanner: counter, token limit, dropCR), Indicator
     (byte slicing line[start:], line[:start], rune loop, display widths), PP (PrettyPrint) and TF
     (GetTemplateFields) with their guards, every slice carrying its bounds check ("panic").
     Declarative layer: SnipOK - never a panic; a snippet, when shown, is the referenced line; a
     caret, when shown, stands for a column inside the line (or one past its end) and, when the
     column is a character boundary and the text before it has a defined display width, it is
     preceded by exactly that many blanks.
     Checked by TLC for all generated (source, line, col): NoPanic, SnippetDecl.

   The generator variable `tc` is the test vector + predicted observable (JSON text). *)
EXTENDS Integers, Sequences, FiniteSets, TLC, Json

CONSTANTS Gen,        \* "render" or "snippet": which generator the behaviour specification runs
          MaxDiags, MaxAtoms, MsgAtoms, KindPat,
          MaxChars, LineAtoms, Lines, Cols, Frames,
          Guarded    \* TRUE = the code as written; FALSE = the column guard of PrettyPrint /
                     \* GetTemplateFields removed (vacuity control: NoPanic must then fail)

----------------------------------------------------------------------------
(* Part A *)

\* tokens with the same text
IsOpen(t) == t \in {"KO", "br"}       \* " ["
IsClose(t) == t \in {"KC", "rb"}      \* "]"
IsPos(t) == t \in {"P", "pp"}         \* ":<digits>:<digits>: "
IsLF(t) == t \in {"lf", "NL"}
IsBreak(t) == t \in {"lf", "cr", "NL"}

HeaderToks(d) == <<"F", "P">> \o d.msg \o <<"KO", "K", "KC">>

RECURSIVE Stream(_)
Stream(ds) == IF ds = <<>> THEN <<>> ELSE HeaderToks(Head(ds)) \o <<"NL">> \o Stream(Tail(ds))

\* cut a stream into physical lines at line feeds (crToo: also at CR); the text after the last
\* terminator is a line only when it is not empty
RECURSIVE Split(_, _, _, _)
Split(s, i, cur, crToo) ==
  IF i > Len(s) THEN (IF cur = <<>> THEN <<>> ELSE <<cur>>)
  ELSE IF (IF crToo THEN IsBreak(s[i]) ELSE IsLF(s[i])) THEN <<cur>> \o Split(s, i + 1, <<>>, crToo)
  ELSE Split(s, i + 1, Append(cur, s[i]), crToo)

Render(ds) == Split(Stream(ds), 1, <<>>, FALSE)           \* what a "\n"-splitting consumer sees
RenderCR(ds) == Split(Stream(ds), 1, <<>>, TRUE)          \* a consumer that also ends lines at CR

Min(S) == CHOOSE x \in S : \A y \in S : x <= y

KindOK(ks) ==
  /\ ks # <<>>
  /\ KindPat = "norb" => \A i \in DOMAIN ks : ~IsClose(ks[i])
  /\ KindPat = "nobr" => \A i \in DOMAIN ks : ~IsClose(ks[i]) /\ ~IsOpen(ks[i])

Fail == [ok |-> FALSE, file |-> <<>>, pos |-> 0, msg |-> <<>>, kind |-> <<>>]

\* the matcher on one colour-free physical line
Parse(line) ==
  LET n == Len(line)
      ps == {i \in 2 .. n : IsPos(line[i])}                       \* (.+?) then the position group
  IN IF ps = {} THEN Fail
     ELSE LET p == Min(ps)
              os == {o \in (p + 2) .. (n - 2) :                   \* (.+?) then " [" kind "]" $
                       /\ IsOpen(line[o]) /\ IsClose(line[n])
                       /\ KindOK(SubSeq(line, o + 1, n - 1))}
          IN IF os = {} THEN Fail
             ELSE LET o == Min(os) IN
                  [ok |-> TRUE, file |-> SubSeq(line, 1, p - 1), pos |-> p,
                   msg |-> SubSeq(line, p + 1, o - 1), kind |-> SubSeq(line, o + 1, n - 1)]

Faithful(d) ==
  LET ls == Render(<<d>>) IN
  /\ Len(ls) = 1
  /\ LET r == Parse(ls[1]) IN
       r.ok /\ r.file = <<"F">> /\ r.pos = 2 /\ r.msg = d.msg /\ r.kind = <<"K">>

NoLF(m) == \A i \in DOMAIN m : m[i] # "lf"
NoBreak(m) == \A i \in DOMAIN m : m[i] \notin {"lf", "cr"}
\* which messages the pattern can carry
Parseable(m) ==
  /\ m # <<>> /\ NoLF(m)
  /\ KindPat = "lazy" => \A i \in 2 .. Len(m) : m[i] # "br"

----------------------------------------------------------------------------
(* Part B *)

AtomB == [a |-> 1, sp |-> 1, tab |-> 1, cr |-> 1, n2 |-> 2, w3 |-> 3, w4 |-> 4, LONG |-> 70000]  \* bytes
AtomW == [a |-> 1, sp |-> 1, tab |-> 0, cr |-> 0, n2 |-> 1, w3 |-> 2, w4 |-> 2, LONG |-> 70000]  \* go-runewidth
StopAtoms == {"sp", "tab", "cr"}          \* the underline stops at blank, tab, CR (LF cannot be in a line)
ControlAtoms == {"tab", "cr"}             \* no defined display width
MaxTok == 65536                           \* bufio.MaxScanTokenSize

RECURSIVE BytesOf(_)
BytesOf(cs) == IF cs = <<>> THEN 0 ELSE AtomB[Head(cs)] + BytesOf(Tail(cs))
RECURSIVE WidthOf(_)
WidthOf(cs) == IF cs = <<>> THEN 0 ELSE AtomW[Head(cs)] + WidthOf(Tail(cs))

Terminated(src, i) == i < Len(src.lines) \/ src.final
\* the bytes of line i without the LF
Raw(src, i) == src.lines[i] \o (IF src.eol = "crlf" /\ Terminated(src, i) THEN <<"cr">> ELSE <<>>)
DropCR(cs) == IF cs # <<>> /\ cs[Len(cs)] = "cr" THEN SubSeq(cs, 1, Len(cs) - 1) ELSE cs
RECURSIVE SrcBytesFrom(_, _)
SrcBytesFrom(src, i) ==
  IF i > Len(src.lines) THEN 0
  ELSE BytesOf(Raw(src, i)) + (IF Terminated(src, i) THEN 1 ELSE 0) + SrcBytesFrom(src, i + 1)
SrcBytes(src) == SrcBytesFrom(src, 1)

\* getLine: the scanner yields one token per line; a token of MaxTok bytes or more ends the scan
RECURSIVE ScanFrom(_, _, _)
ScanFrom(src, target, i) ==
  IF i > Len(src.lines) THEN [ok |-> FALSE, l |-> <<>>, n |-> 0]
  ELSE IF BytesOf(Raw(src, i)) >= MaxTok THEN [ok |-> FALSE, l |-> <<>>, n |-> 0]   \* bufio.ErrTooLong
  ELSE IF i = target THEN [ok |-> TRUE, l |-> DropCR(Raw(src, i)), n |-> i]
  ELSE ScanFrom(src, target, i + 1)
GetLine(src, target) == ScanFrom(src, target, 1)

\* position of byte offset `start` in cs: i whole atoms before it, j bytes into atom i+1
RECURSIVE CutAt(_, _, _)
CutAt(cs, start, i) ==
  IF start = 0 \/ i = Len(cs) THEN [i |-> i, j |-> start]
  ELSE IF AtomB[cs[i + 1]] <= start THEN CutAt(cs, start - AtomB[cs[i + 1]], i + 1)
  ELSE [i |-> i, j |-> start]

RECURSIVE RunWidth(_, _)       \* width of the characters from index k up to the first stop character
RunWidth(cs, k) ==
  IF k > Len(cs) THEN 0 ELSE IF cs[k] \in StopAtoms THEN 0 ELSE AtomW[cs[k]] + RunWidth(cs, k + 1)

NoInd == [k |-> "empty", caret |-> 0, ul |-> 0]
\* getIndicator
Indicator(l, col) ==
  IF col <= 0 THEN NoInd
  ELSE
  LET start == col - 1 IN
  IF start > BytesOf(l) THEN [k |-> "panic", caret |-> 0, ul |-> 0]          \* line[start:] out of range
  ELSE
  LET c == CutAt(l, start, 0)
      \* a slice inside a multi-byte character leaves j / B-j bytes, each decoded as U+FFFD (width 1);
      \* inside the long ASCII run it leaves j / B-j ordinary characters
      tailPart == IF c.j > 0 THEN AtomB[l[c.i + 1]] - c.j ELSE 0
      uw0 == IF c.j > 0 THEN tailPart + RunWidth(l, c.i + 2) ELSE RunWidth(l, c.i + 1)
      uw == IF uw0 > 0 THEN uw0 - 1 ELSE 0
      sw == WidthOf(SubSeq(l, 1, c.i)) + c.j
  IN [k |-> "ind", caret |-> sw, ul |-> uw]

None == [k |-> "none", shown |-> 0, ind |-> FALSE, caret |-> 0, ul |-> 0]
Panic == [k |-> "panic", shown |-> 0, ind |-> FALSE, caret |-> 0, ul |-> 0]

\* Error.PrettyPrint below the header line
PP(src, line, col) ==
  IF SrcBytes(src) = 0 \/ line <= 0 THEN None
  ELSE LET r == GetLine(src, line) IN
       IF ~r.ok THEN None
       ELSE IF Guarded /\ BytesOf(r.l) < col - 1 THEN None
       ELSE LET ind == Indicator(r.l, col) IN
            IF ind.k = "panic" THEN Panic
            ELSE [k |-> "snip", shown |-> r.n, ind |-> ind.k = "ind", caret |-> ind.caret, ul |-> ind.ul]

\* Error.GetTemplateFields: Snippet and EndColumn.  The observable is the Snippet string: an empty
\* line shown without indicator is the empty string, i.e. indistinguishable from "no snippet".
TF(src, line, col) ==
  LET none == None @@ [end |-> col] IN
  IF SrcBytes(src) = 0 \/ line <= 0 THEN none
  ELSE LET r == GetLine(src, line)
           bare == IF r.l = <<>> THEN none
                   ELSE [k |-> "snip", shown |-> r.n, ind |-> FALSE, caret |-> 0, ul |-> 0, end |-> col] IN
       IF ~r.ok THEN none
       ELSE IF Guarded /\ BytesOf(r.l) < col - 1 THEN bare
       ELSE LET ind == Indicator(r.l, col) IN
            IF ind.k = "panic" THEN Panic @@ [end |-> col]
            ELSE IF ind.k = "empty" THEN bare
            ELSE [k |-> "snip", shown |-> r.n, ind |-> TRUE, caret |-> ind.caret, ul |-> ind.ul,
                  end |-> ind.caret + 1 + ind.ul]

\* ---- declarative layer
NumLines(src) == Len(src.lines)
Content(src, n) == DropCR(Raw(src, n))         \* CR LF and LF are terminators, not content
WidthDefined(cs) == \A i \in DOMAIN cs : cs[i] \notin ControlAtoms
\* o: an observed (or predicted) record of PrettyPrint / GetTemplateFields
SnipOK(src, line, col, o) ==
  /\ o.k # "panic"
  /\ o.k = "snip" =>
       /\ line \in 1 .. NumLines(src)
       /\ o.shown = line
       /\ o.ind =>
            /\ col >= 1
            /\ col - 1 <= BytesOf(Content(src, line))
            /\ LET c == CutAt(Content(src, line), col - 1, 0)
                   pre == SubSeq(Content(src, line), 1, c.i) IN
               (c.j = 0 /\ WidthDefined(pre)) => o.caret = WidthOf(pre)
  /\ (o.k = "none" /\ "end" \in DOMAIN o) => o.end = col

----------------------------------------------------------------------------
(* Generators *)
VARIABLES g, tc
vars == <<g, tc>>

\* --- render generator: every list of <= MaxDiags messages of <= MaxAtoms atoms
ParseJ(l) == Parse(l) @@ [toks |-> l]
VecR(ds) == ToJson([ds |-> ds, lines |-> [i \in DOMAIN Render(ds) |-> ParseJ(Render(ds)[i])],
                    faithful |-> [i \in DOMAIN ds |-> Faithful(ds[i])]])
InitR == g = [k |-> "render", ds |-> <<>>] /\ tc = VecR(<<>>)
NextR ==
  \/ /\ Len(g.ds) < MaxDiags
     /\ g' = [g EXCEPT !.ds = Append(@, [msg |-> <<>>])]
     /\ tc' = VecR(g'.ds)
  \/ /\ g.ds # <<>>
     /\ Len(g.ds[Len(g.ds)].msg) < MaxAtoms
     /\ \E a \in MsgAtoms : g' = [g EXCEPT !.ds[Len(g.ds)].msg = Append(@, a)]
     /\ tc' = VecR(g'.ds)

\* --- snippet generator: frame (nb context lines before, na after) x line under test x eol x final
\*     newline x (line, col)
Before == <<"a", "n2">>
After == <<"w3">>
SrcOf(s) ==
  LET ls == [i \in 1 .. s.nb |-> Before] \o <<s.chars>> \o [i \in 1 .. s.na |-> After]
      \* an empty unterminated last line does not exist in the byte stream
      ls2 == IF ls[Len(ls)] = <<>> /\ ~s.final THEN SubSeq(ls, 1, Len(ls) - 1) ELSE ls
  IN [lines |-> ls2, eol |-> s.eol, final |-> IF ls2 = <<>> THEN FALSE ELSE s.final]
VecS(s) == ToJson([src |-> SrcOf(s), line |-> s.line, col |-> s.col,
                   pp |-> PP(SrcOf(s), s.line, s.col), tf |-> TF(SrcOf(s), s.line, s.col)])
InitS == /\ g \in [k : {"snippet"}, nb : 0 .. 2, na : 0 .. 1, eol : {"lf", "crlf"}, final : BOOLEAN,
                   chars : {<<>>}, line : Lines, col : Cols]
         /\ <<g.nb, g.na>> \in Frames
         /\ tc = VecS(g)
NextS == /\ Len(g.chars) < MaxChars
         /\ \E a \in LineAtoms : g' = [g EXCEPT !.chars = Append(@, a)]
         /\ tc' = VecS(g')

LinesDef == -1 .. 4
ColsDef == -1 .. 6
FramesQuick == {<<0, 0>>, <<1, 0>>, <<0, 1>>, <<1, 1>>}
FramesAll == {<<0, 0>>, <<1, 0>>, <<2, 0>>, <<0, 1>>, <<1, 1>>}
NoInts == {}

Init == IF Gen = "render" THEN InitR ELSE InitS
Next == IF Gen = "render" THEN NextR ELSE NextS
Spec == Init /\ [][Next]_vars

----------------------------------------------------------------------------
(* Invariants *)
RECURSIVE Concat(_)
Concat(ss) == IF ss = <<>> THEN <<>> ELSE Head(ss) \o Concat(Tail(ss))

Homomorphic ==
  Gen = "render" =>
    /\ Render(g.ds) = Concat([i \in DOMAIN g.ds |-> Render(<<g.ds[i]>>)])
    /\ (g.ds = <<>>) => Render(g.ds) = <<>>
OneLineIff ==
  Gen = "render" =>
    /\ (Len(Render(g.ds)) = Len(g.ds)) <=> \A i \in DOMAIN g.ds : NoLF(g.ds[i].msg)
    /\ (Len(RenderCR(g.ds)) = Len(g.ds)) <=> \A i \in DOMAIN g.ds : NoBreak(g.ds[i].msg)
    /\ Len(Render(g.ds)) >= Len(g.ds)
FaithfulIff ==
  Gen = "render" => \A i \in DOMAIN g.ds : Faithful(g.ds[i]) <=> Parseable(g.ds[i].msg)
\* a header that parses at all always gives back file and position (file names carry no ':')
PositionStable ==
  Gen = "render" => \A i \in DOMAIN Render(g.ds) :
     LET r == Parse(Render(g.ds)[i]) IN r.ok /\ Render(g.ds)[i][1] = "F" => r.file = <<"F">> /\ r.pos = 2

NoPanic ==
  Gen = "snippet" => PP(SrcOf(g), g.line, g.col).k # "panic" /\ TF(SrcOf(g), g.line, g.col).k # "panic"
SnippetDecl ==
  Gen = "snippet" => /\ SnipOK(SrcOf(g), g.line, g.col, PP(SrcOf(g), g.line, g.col))
                     /\ SnipOK(SrcOf(g), g.line, g.col, TF(SrcOf(g), g.line, g.col))
\* the two renderers agree on what they show
PPvsTF ==
  Gen = "snippet" =>
    LET p == PP(SrcOf(g), g.line, g.col) t == TF(SrcOf(g), g.line, g.col) IN
    /\ (p.k = "snip" /\ p.ind) => t.k = "snip" /\ t.shown = p.shown /\ t.ind /\ t.caret = p.caret /\ t.ul = p.ul
    /\ (t.k = "snip" /\ Guarded /\ g.col - 1 <= BytesOf(Content(SrcOf(g), g.line))) => p.k = "snip" /\ p.shown = t.shown
    /\ t.ind => t.end = t.caret + 1 + t.ul
    /\ ~t.ind => t.end = g.col
=============================================================================
