----------------------------- MODULE LinterSimMC -----------------------------
(* Constants of LinterSim.  This committed copy describes the layout of tools/checks/c10.py as recorded
   on the pinned tree; the check overwrites it (in its scratch directory) with the programs read off a
   fresh recorded run, so the model follows what the rules really do. *)
EXTENDS Linter
FilesS == {"f1", "f2", "f3", "f4", "f5"}
RepoOfS == [f \in FilesS |-> CASE f \in {"f1", "f2", "f3"} -> "repo" [] f = "f4" -> "repo-b" [] OTHER -> "none"]
ProgS == [f \in FilesS |-> CASE f \in {"f1", "f2"} -> <<<<"use", "s1">>, <<"use", "s1">>, <<"use", "s2">>>>
                             [] f = "f3" -> <<<<"reg", "s1">>>>
                             [] OTHER -> <<>>]
NamePrefixS == {<<"repo", "repo-b">>}
InsideS == {}
=============================================================================
