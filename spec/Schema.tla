------------------------------- MODULE Schema -------------------------------
(* The GitHub Actions workflow syntax AS DATA (DESIGN.md 3.2 / Appendix A.1), shared by the
   document-level properties (C13, C03; C01/C07/C08/C12/C16 reuse it).

   1. SCHEMA NODES (operator Root and its parts) - a tree of *positions*:
        Sc(dom, slots)            scalar value; dom = scalar domain, slots = AST fields ("Type.Field") that
                                  hold the value (two when the field depends on the value being `${{ }}`)
        Sq(sec, elem, emptyOk)    sequence
        Mp(...)                   mapping: sec (section name), cs (keys compared case-sensitively), emptyOk
                                  (empty / null accepted), fields (the FIXED keys, each with its node), open
                                  (node of every other key, None = the key set is closed), kslot (AST field
                                  holding an open key), req (alternatives of mandatory key sets: one of them
                                  must be present), miss (where a missing mandatory key is reported: "doc" |
                                  "parentkey" | "node"), keyErrAt (where a foreign key is reported: "key" |
                                  "item" - only `schedule` items use the latter)
        Alt(s, q, m)              alternatives selected by the kind of the YAML node (scalar / sequence / mapping)
        RawT                      raw matrix value: any nesting of scalars (dom "raw"), sequences and
                                  case-insensitive open mappings
      A schema position is the path of edge labels from the root: key names, "*" (any key of an open
      mapping), "[]" (sequence element).  Alternatives add no label (`needs` vs `needs[]`).

   2. ABSTRACT DOCUMENTS - what the harness renders to YAML with known positions:
        S(v)  [k |-> "s", v, st]  scalar with text v; st = "" plain | "'" | "\"" | "null" (no value)
        Q(es) [k |-> "q", e]      sequence
        M(ps) [k |-> "m", p]      mapping, p = sequence of <<key, node>>
      A document path is the sequence of child indices (1-based) from the root.

   3. Bases: maximal clean base workflows.  Invariants (checked by TLC in SchemaExport.tla):
      SchemaWF (mandatory keys are keys, fixed keys distinct, ...), BasesTyped (every node of every base is
      typed by the schema), BasesCover (every schema position - scalar, sequence, mapping, raw - occurs in a
      base).  SchemaExport.tla checks them and exports schema, bases and positions as JSON. *)
EXTENDS Naturals, Sequences, FiniteSets, TLC, Json

Range(f) == {f[x] : x \in DOMAIN f}

----------------------------------------------------------------------------
(* Schema node constructors *)
None == [k |-> "none"]
Sc(dom, slots) == [k |-> "scalar", dom |-> dom, slots |-> slots]
Sq(sec, elem, emptyOk) == [k |-> "seq", sec |-> sec, elem |-> elem, emptyOk |-> emptyOk]
F(key, t) == [key |-> key, t |-> t, kslot |-> ""]
FK(key, t, kslot) == [key |-> key, t |-> t, kslot |-> kslot]      \* the key itself is kept in an AST field
Mp(sec, cs, emptyOk, fields, open, kslot, req, miss) ==
  [k |-> "map", sec |-> sec, cs |-> cs, emptyOk |-> emptyOk, fields |-> fields, open |-> open, kslot |-> kslot,
   req |-> req, miss |-> miss, keyErrAt |-> "key", kinds |-> <<>>]
\* kinds of a node: [name, when (the node is of this kind if one of these keys is present), deny (keys of the
\* key set that are not available in a node of this kind: reported as a key conflict), soft (keys GitHub
\* documents as unavailable but for which the reading of the docs is not certain: drift-only)]
Kind(name, when, deny, soft) == [name |-> name, when |-> when, deny |-> deny, soft |-> soft]
Alt(s, q, m) == [k |-> "alt", s |-> s, q |-> q, m |-> m]
RawT == [k |-> "raw"]

\* scalar domains; Class decides what C03 demands of a malformed placeholder at the position
Domains == {"template", "script", "ifcond", "bool", "int", "float", "expr", "event-name", "input-type",
            "permission", "inherit", "uses", "call-uses", "shell", "id", "needs-id", "cron", "glob-ref",
            "glob-path", "raw"}
NonTemplate == {"event-name", "input-type", "permission", "inherit"}   \* the exclusion list of C03
WholeScalar == {"bool", "int", "float", "expr"}      \* only a single ${{ }} covering the whole scalar is syntax
Class(dom) == IF dom \in NonTemplate THEN "nontemplate" ELSE IF dom \in WholeScalar THEN "whole" ELSE "template"

T(slot) == Sc("template", <<slot>>)
StrOrSeq(sec, dom, slot) == Alt(Sc(dom, <<slot>>), Sq(sec, Sc(dom, <<slot>>), FALSE), None)

----------------------------------------------------------------------------
(* The workflow syntax *)
EnvT == Alt(Sc("expr", <<"Env.Expression">>), None,
            Mp("env", FALSE, FALSE, <<>>, T("EnvVar.Value"), "EnvVar.Name", <<>>, "node"))

PermT == Alt(Sc("permission", <<"Permissions.All">>), None,
             Mp("permissions", FALSE, TRUE, <<>>, Sc("permission", <<"PermissionScope.Value">>),
                "PermissionScope.Name", <<>>, "node"))

DefaultsT ==
  Mp("defaults", TRUE, FALSE,
     << F("run", Mp("run", TRUE, FALSE,
                    << F("shell", Sc("shell", <<"DefaultsRun.Shell">>)),
                       F("working-directory", T("DefaultsRun.WorkingDirectory")) >>,
                    None, "", <<>>, "node")) >>,
     None, "", <<{"run"}>>, "node")

ConcT == Alt(T("Concurrency.Group"), None,
             Mp("concurrency", TRUE, FALSE,
                << F("group", T("Concurrency.Group")),
                   F("cancel-in-progress", Sc("bool", <<"Concurrency.CancelInProgress">>)) >>,
                None, "", <<{"group"}>>, "parentkey"))

ScheduleT ==
  Sq("schedule",
     [Mp("schedule-item", TRUE, FALSE, << F("cron", Sc("cron", <<"ScheduledEvent.Cron">>)) >>,
         None, "", <<{"cron"}>>, "node") EXCEPT !.keyErrAt = "item"],
     FALSE)

DispatchInputT ==
  Mp("dispatch-input", TRUE, TRUE,
     << F("description", T("DispatchInput.Description")),
        F("required", Sc("bool", <<"DispatchInput.Required">>)),
        F("default", T("DispatchInput.Default")),
        F("type", Sc("input-type", <<>>)),
        F("options", Sq("options", T("DispatchInput.Options"), FALSE)) >>,
     None, "", <<>>, "node")
DispatchT ==
  Mp("workflow_dispatch", TRUE, TRUE,
     << F("inputs", Mp("inputs", FALSE, TRUE, <<>>, DispatchInputT, "DispatchInput.Name", <<>>, "node")) >>,
     None, "", <<>>, "node")

RepoDispatchT ==
  Mp("repository_dispatch", TRUE, TRUE,
     << F("types", StrOrSeq("types", "template", "RepositoryDispatchEvent.Types")) >>, None, "", <<>>, "node")

FilterT(name, dom) == FK(name, StrOrSeq(name, dom, "WebhookEventFilter.Values"), "WebhookEventFilter.Name")
WebhookT ==
  Mp("webhook", TRUE, TRUE,
     << F("types", StrOrSeq("types", "template", "WebhookEvent.Types")),
        FilterT("branches", "glob-ref"), FilterT("branches-ignore", "glob-ref"),
        FilterT("tags", "glob-ref"), FilterT("tags-ignore", "glob-ref"),
        FilterT("paths", "glob-path"), FilterT("paths-ignore", "glob-path"),
        F("workflows", StrOrSeq("workflows", "template", "WebhookEvent.Workflows")) >>,
     None, "", <<>>, "node")

CallInputT ==
  Mp("call-input", TRUE, TRUE,
     << F("description", T("WorkflowCallEventInput.Description")),
        F("required", Sc("bool", <<"WorkflowCallEventInput.Required">>)),
        F("default", T("WorkflowCallEventInput.Default")),
        F("type", Sc("input-type", <<>>)) >>,
     None, "", <<{"type"}>>, "parentkey")
CallSecretT ==
  Mp("call-secret", TRUE, TRUE,
     << F("description", T("WorkflowCallEventSecret.Description")),
        F("required", Sc("bool", <<"WorkflowCallEventSecret.Required">>)) >>,
     None, "", <<>>, "node")
CallOutputT ==
  Mp("call-output", TRUE, TRUE,
     << F("description", T("WorkflowCallEventOutput.Description")),
        F("value", T("WorkflowCallEventOutput.Value")) >>,
     None, "", <<{"value"}>>, "parentkey")
CallT ==
  Mp("workflow_call", TRUE, TRUE,
     << F("inputs", Mp("inputs", FALSE, TRUE, <<>>, CallInputT, "WorkflowCallEventInput.Name", <<>>, "node")),
        F("secrets", Mp("secrets", FALSE, TRUE, <<>>, CallSecretT, "WorkflowCallEventSecret.Name", <<>>, "node")),
        F("outputs", Mp("outputs", FALSE, TRUE, <<>>, CallOutputT, "WorkflowCallEventOutput.Name", <<>>, "node")) >>,
     None, "", <<>>, "node")

\* Keys of the webhook key set that are NOT available for an event ("Events that trigger workflows": activity
\* types per event; branches filters for push / pull_request(_target) / workflow_run / merge_group; tags filters for
\* push; paths filters for push / pull_request(_target); workflows for workflow_run).  Only the events that occur
\* in the base workflows are listed.
AllFilters == {"branches", "branches-ignore", "tags", "tags-ignore", "paths", "paths-ignore"}
EventDeny == [push |-> {"types", "workflows"},
              pull_request |-> {"tags", "tags-ignore", "workflows"},
              pull_request_target |-> {"tags", "tags-ignore", "workflows"},
              workflow_run |-> {"tags", "tags-ignore", "paths", "paths-ignore"},
              release |-> AllFilters \cup {"workflows"},
              fork |-> AllFilters \cup {"workflows", "types"}]

EventName == Sc("event-name", <<"WebhookEvent.Hook">>)
OnT == Alt(EventName, Sq("on", EventName, FALSE),
           Mp("on", TRUE, FALSE,
              << F("schedule", ScheduleT), F("workflow_dispatch", DispatchT),
                 F("repository_dispatch", RepoDispatchT), F("workflow_call", CallT) >>,
              WebhookT, "WebhookEvent.Hook", <<>>, "node"))

LabelT == Sc("template", <<"Runner.LabelsExpr", "Runner.Labels">>)
RunsOnT ==
  Alt(LabelT, Sq("runs-on", T("Runner.Labels"), FALSE),
      Mp("runs-on", TRUE, FALSE,
         << F("labels", Alt(LabelT, Sq("labels", T("Runner.Labels"), FALSE), None)),
            F("group", T("Runner.Group")) >>,
         None, "", <<>>, "node"))

EnvironmentT ==
  Alt(T("Environment.Name"), None,
      Mp("environment", TRUE, FALSE, << F("name", T("Environment.Name")), F("url", T("Environment.URL")) >>,
         None, "", <<{"name"}>>, "parentkey"))

OutputsT == Mp("outputs", FALSE, FALSE, <<>>, T("Output.Value"), "Output.Name", <<>>, "node")

CombT(sec) ==
  Alt(Sc("expr", <<"MatrixCombinations.Expression">>),
      Sq(sec, Alt(Sc("expr", <<"MatrixCombination.Expression">>), None,
                  Mp("combination", FALSE, FALSE, <<>>, RawT, "MatrixAssign.Key", <<>>, "node")), FALSE),
      None)
RowT == Alt(Sc("expr", <<"MatrixRow.Expression">>), Sq("matrix values", RawT, FALSE), None)
MatrixT ==
  Alt(Sc("expr", <<"Matrix.Expression">>), None,
      Mp("matrix", FALSE, FALSE, << F("include", CombT("include")), F("exclude", CombT("exclude")) >>,
         RowT, "MatrixRow.Name", <<>>, "node"))
StrategyT ==
  Mp("strategy", TRUE, FALSE,
     << F("matrix", MatrixT), F("fail-fast", Sc("bool", <<"Strategy.FailFast">>)),
        F("max-parallel", Sc("int", <<"Strategy.MaxParallel">>)) >>,
     None, "", <<>>, "node")

ContainerT(sec) ==
  Alt(T("Container.Image"), None,
      Mp(sec, TRUE, FALSE,
         << F("image", T("Container.Image")),
            F("credentials", Mp("credentials", TRUE, FALSE,
                                << F("username", T("Credentials.Username")), F("password", T("Credentials.Password")) >>,
                                None, "", <<{"username", "password"}>>, "parentkey")),
            F("env", EnvT),
            F("ports", Sq("ports", T("Container.Ports"), TRUE)),
            F("volumes", Sq("volumes", T("Container.Volumes"), TRUE)),
            F("options", T("Container.Options")) >>,
         None, "", <<>>, "node"))
ServicesT == Alt(Sc("expr", <<"Services.Expression">>), None,
                 Mp("services", FALSE, FALSE, <<>>, ContainerT("services"), "Service.Name", <<>>, "node"))

StepT ==
  [Mp("step", TRUE, FALSE,
     << F("id", Sc("id", <<"Step.ID">>)), F("if", Sc("ifcond", <<"Step.If">>)), F("name", T("Step.Name")),
        F("env", EnvT), F("continue-on-error", Sc("bool", <<"Step.ContinueOnError">>)),
        F("timeout-minutes", Sc("float", <<"Step.TimeoutMinutes">>)),
        F("uses", Sc("uses", <<"ExecAction.Uses">>)),
        F("with", Mp("with", FALSE, FALSE,
                     << F("entrypoint", T("ExecAction.Entrypoint")), F("args", T("ExecAction.Args")) >>,
                     T("Input.Value"), "Input.Name", <<>>, "node")),
        F("run", Sc("script", <<"ExecRun.Run">>)), F("shell", Sc("shell", <<"ExecRun.Shell">>)),
        F("working-directory", T("ExecRun.WorkingDirectory")) >>,
     None, "", <<{"run"}, {"uses"}>>, "node") EXCEPT !.kinds =
       << Kind("action", {"uses", "with"}, {"run", "shell", "working-directory"}, {}),
          Kind("run", {"run", "shell"}, {"uses", "with"}, {}) >>]

JobT ==
  [Mp("job", TRUE, FALSE,
     << F("name", T("Job.Name")),
        F("needs", StrOrSeq("needs", "needs-id", "Job.Needs")),
        F("runs-on", RunsOnT), F("permissions", PermT), F("environment", EnvironmentT),
        F("concurrency", ConcT), F("outputs", OutputsT), F("env", EnvT), F("defaults", DefaultsT),
        F("if", Sc("ifcond", <<"Job.If">>)), F("steps", Sq("steps", StepT, FALSE)),
        F("timeout-minutes", Sc("float", <<"Job.TimeoutMinutes">>)), F("strategy", StrategyT),
        F("continue-on-error", Sc("bool", <<"Job.ContinueOnError">>)),
        F("container", ContainerT("container")), F("services", ServicesT),
        F("uses", Sc("call-uses", <<"WorkflowCall.Uses">>)),
        F("with", Mp("with", FALSE, FALSE, <<>>, T("WorkflowCallInput.Value"), "WorkflowCallInput.Name", <<>>, "node")),
        F("secrets", Alt(Sc("inherit", <<>>), None,
                         Mp("secrets", FALSE, FALSE, <<>>, T("WorkflowCallSecret.Value"), "WorkflowCallSecret.Name",
                            <<>>, "node"))) >>,
     None, "", <<{"runs-on", "steps"}, {"uses"}>>, "parentkey") EXCEPT !.kinds =
       \* "Supported keywords for jobs that call a reusable workflow": name, uses, with, secrets, strategy, needs,
       \* if, concurrency, permissions
       << Kind("call", {"uses"}, {"runs-on", "environment", "outputs", "env", "defaults", "steps", "timeout-minutes",
                                  "continue-on-error", "container"}, {"services"}),
          Kind("steps", {"runs-on", "steps"}, {"with", "secrets", "uses"}, {}) >>]

Root ==
  Mp("workflow", TRUE, FALSE,
     << F("name", T("Workflow.Name")), F("run-name", T("Workflow.RunName")), F("on", OnT),
        F("permissions", PermT), F("env", EnvT), F("defaults", DefaultsT), F("concurrency", ConcT),
        F("jobs", Mp("jobs", FALSE, FALSE, <<>>, JobT, "Job.ID", <<>>, "node")) >>,
     None, "", <<{"on", "jobs"}>>, "doc")

----------------------------------------------------------------------------
(* Abstract documents *)
S(v) == [k |-> "s", v |-> v, st |-> ""]
SQ(v) == [k |-> "s", v |-> v, st |-> "'"]          \* single-quoted
Null == [k |-> "s", v |-> "", st |-> "null"]
Q(es) == [k |-> "q", e |-> es]
M(ps) == [k |-> "m", p |-> ps]

IsNull(d) == d.k = "s" /\ d.st = "null"
NKids(d) == IF d.k = "m" THEN Len(d.p) ELSE IF d.k = "q" THEN Len(d.e) ELSE 0
Kid(d, i) == IF d.k = "m" THEN d.p[i][2] ELSE d.e[i]
KeysOf(d) == {d.p[i][1] : i \in DOMAIN d.p}
RECURSIVE NodeAt(_, _)
NodeAt(d, path) == IF path = <<>> THEN d ELSE NodeAt(Kid(d, Head(path)), Tail(path))

\* ---- typing of a document node by a schema node
Resolve(t, d) ==
  IF t.k # "alt" THEN t
  ELSE IF d.k = "s" THEN t.s ELSE IF d.k = "q" THEN t.q ELSE t.m
FieldIdx(t, key) == {i \in DOMAIN t.fields : t.fields[i].key = key}
FieldT(t, key) == IF FieldIdx(t, key) # {} THEN t.fields[CHOOSE i \in FieldIdx(t, key) : TRUE].t ELSE t.open
IsFixedKey(t, key) == FieldIdx(t, key) # {}
\* type of child i of document node d, whose own (resolved) type is r
KidT(r, d, i) ==
  IF r.k = "raw" THEN RawT
  ELSE IF d.k = "m" THEN FieldT(r, d.p[i][1]) ELSE r.elem
\* edge label of child i
KidLabel(r, d, i) ==
  IF d.k = "q" THEN "[]"
  ELSE IF r.k = "raw" THEN "*" ELSE IF IsFixedKey(r, d.p[i][1]) THEN d.p[i][1] ELSE "*"

RECURSIVE TypeAt(_, _, _)
TypeAt(t, d, path) ==
  LET r == Resolve(t, d) IN
  IF path = <<>> THEN r ELSE TypeAt(KidT(r, d, Head(path)), Kid(d, Head(path)), Tail(path))
RECURSIVE SitePath(_, _, _)
SitePath(t, d, path) ==
  LET r == Resolve(t, d) IN
  IF path = <<>> THEN <<>> ELSE <<KidLabel(r, d, Head(path))>> \o SitePath(KidT(r, d, Head(path)), Kid(d, Head(path)), Tail(path))

ReqOK(r, d) == r.req = <<>> \/ \E a \in DOMAIN r.req : r.req[a] \subseteq KeysOf(d)
RECURSIVE Typed(_, _)
Typed(t, d) ==
  LET r == Resolve(t, d) IN
  CASE r.k = "none" -> FALSE
    [] r.k = "raw" -> IF d.k = "s" THEN ~IsNull(d) ELSE \A i \in 1 .. NKids(d) : Typed(RawT, Kid(d, i))
    [] r.k = "scalar" -> d.k = "s" /\ ~IsNull(d)
    [] r.k = "seq" -> d.k = "q" /\ (r.emptyOk \/ NKids(d) > 0) /\ \A i \in 1 .. NKids(d) : Typed(r.elem, d.e[i])
    [] r.k = "map" ->
         IF IsNull(d) THEN r.emptyOk
         ELSE /\ d.k = "m"
              /\ r.emptyOk \/ NKids(d) > 0
              /\ \A i, j \in DOMAIN d.p : i # j => d.p[i][1] # d.p[j][1]
              /\ ReqOK(r, d)
              /\ \A i \in DOMAIN d.p : Typed(FieldT(r, d.p[i][1]), d.p[i][2])

\* ---- positions: [p |-> path of labels, k |-> kind]
RECURSIVE SchemaPos(_, _)
SchemaPos(t, prefix) ==
  CASE t.k = "none" -> {}
    [] t.k = "raw" -> {[p |-> prefix, k |-> "raw"]}
    [] t.k = "scalar" -> {[p |-> prefix, k |-> "scalar"]}
    [] t.k = "seq" -> {[p |-> prefix, k |-> "seq"]} \cup SchemaPos(t.elem, Append(prefix, "[]"))
    [] t.k = "alt" -> SchemaPos(t.s, prefix) \cup SchemaPos(t.q, prefix) \cup SchemaPos(t.m, prefix)
    [] t.k = "map" -> {[p |-> prefix, k |-> "map"]}
                      \cup UNION {SchemaPos(t.fields[i].t, Append(prefix, t.fields[i].key)) : i \in DOMAIN t.fields}
                      \cup SchemaPos(t.open, Append(prefix, "*"))

RECURSIVE DocPos(_, _, _)
DocPos(t, d, prefix) ==
  LET r == Resolve(t, d) IN
  IF r.k = "none" THEN {}
  ELSE IF r.k = "raw" THEN {[p |-> prefix, k |-> "raw"]}
  ELSE IF IsNull(d) THEN {}
  ELSE {[p |-> prefix, k |-> r.k]}
       \cup UNION {DocPos(KidT(r, d, i), Kid(d, i), Append(prefix, KidLabel(r, d, i))) : i \in 1 .. NKids(d)}

\* every key of a fixed key set occurs in some base below the mapping position (needed by C13's converse)
RECURSIVE SchemaKeys(_, _)
SchemaKeys(t, prefix) ==
  CASE t.k \in {"none", "raw", "scalar"} -> {}
    [] t.k = "seq" -> SchemaKeys(t.elem, Append(prefix, "[]"))
    [] t.k = "alt" -> SchemaKeys(t.s, prefix) \cup SchemaKeys(t.q, prefix) \cup SchemaKeys(t.m, prefix)
    [] t.k = "map" -> {Append(prefix, t.fields[i].key) : i \in DOMAIN t.fields}
                      \cup UNION {SchemaKeys(t.fields[i].t, Append(prefix, t.fields[i].key)) : i \in DOMAIN t.fields}
                      \cup SchemaKeys(t.open, Append(prefix, "*"))
RECURSIVE DocKeys(_, _, _)
DocKeys(t, d, prefix) ==
  LET r == Resolve(t, d) IN
  IF r.k \in {"none", "raw", "scalar"} \/ IsNull(d) THEN {}
  ELSE (IF r.k = "map" THEN {Append(prefix, d.p[i][1]) : i \in {j \in DOMAIN d.p : IsFixedKey(r, d.p[j][1])}} ELSE {})
       \cup UNION {DocKeys(KidT(r, d, i), Kid(d, i), Append(prefix, KidLabel(r, d, i))) : i \in 1 .. NKids(d)}

\* ---- schema well-formedness
RECURSIVE WF(_)
WF(t) ==
  CASE t.k \in {"none", "raw"} -> TRUE
    [] t.k = "scalar" -> t.dom \in Domains /\ (t.slots = <<>> => t.dom \in NonTemplate)
    [] t.k = "seq" -> t.elem.k # "none" /\ WF(t.elem)
    [] t.k = "alt" -> /\ t.s.k \in {"none", "scalar"} /\ t.q.k \in {"none", "seq"} /\ t.m.k \in {"none", "map"}
                      /\ WF(t.s) /\ WF(t.q) /\ WF(t.m)
    [] t.k = "map" ->
         /\ \A i, j \in DOMAIN t.fields : i # j => t.fields[i].key # t.fields[j].key
         /\ \A a \in DOMAIN t.req : t.req[a] # {} /\ t.req[a] \subseteq {t.fields[i].key : i \in DOMAIN t.fields}
         /\ t.miss \in {"doc", "parentkey", "node"} /\ t.keyErrAt \in {"key", "item"}
         /\ \A i \in DOMAIN t.kinds : (t.kinds[i].when \cup t.kinds[i].deny \cup t.kinds[i].soft)
                                          \subseteq {t.fields[j].key : j \in DOMAIN t.fields}
         /\ (t.open.k # "none") = (t.kslot # "")
         /\ (t.fields = <<>> => t.open.k # "none")
         /\ \A i \in DOMAIN t.fields : WF(t.fields[i].t)
         /\ WF(t.open)

----------------------------------------------------------------------------
(* Base workflows.  Expressions use only functions and the `github` context so that removing or
   reordering siblings never creates a dangling reference. *)
E(x) == S("${{ " \o x \o " }}")
AnyObj == "fromJSON('{\"a\":\"b\"}')"
AnyArr == "fromJSON('[{\"a\":\"b\"}]')"

\* B1: ordinary workflow, scalar/sequence forms, every event kind
B1 == M(<<
  <<"name", S("CI ${{ format('{0}', 'x') }}")>>,
  <<"run-name", S("Run by ${{ github.actor }}")>>,
  <<"on", M(<<
     <<"push", M(<< <<"branches", Q(<<S("main"), S("release/**")>>)>>, <<"tags", Q(<<S("v*")>>)>>,
                    <<"paths", Q(<<S("src/**")>>)>> >>)>>,
     <<"pull_request", M(<< <<"types", Q(<<S("opened"), S("synchronize")>>)>>, <<"branches-ignore", S("wip/**")>>,
                            <<"paths-ignore", S("docs/**")>> >>)>>,
     <<"workflow_run", M(<< <<"workflows", Q(<<S("Build")>>)>>, <<"types", S("completed")>>,
                            <<"branches", S("main")>> >>)>>,
     <<"schedule", Q(<< M(<< <<"cron", SQ("0 3 * * 1")>> >>), M(<< <<"cron", SQ("30 5 1 * *")>> >>) >>)>>,
     <<"workflow_dispatch", M(<< <<"inputs", M(<<
        <<"level", M(<< <<"description", S("Log level")>>, <<"required", S("true")>>, <<"default", S("warning")>>,
                        <<"type", S("choice")>>, <<"options", Q(<<S("warning"), S("debug")>>)>> >>)>>,
        <<"dry", M(<< <<"description", S("Dry run")>>, <<"required", E("false")>>,
                      <<"type", S("boolean")>> >>)>> >>)>> >>)>>,
     <<"repository_dispatch", M(<< <<"types", Q(<<S("deploy"), S("rollback")>>)>> >>)>> >>)>>,
  <<"permissions", M(<< <<"contents", S("read")>>, <<"issues", S("write")>> >>)>>,
  <<"env", M(<< <<"TOP", S("x")>>, <<"REF", E("github.ref")>> >>)>>,
  <<"defaults", M(<< <<"run", M(<< <<"shell", S("bash")>>, <<"working-directory", S("src")>> >>)>> >>)>>,
  <<"concurrency", S("ci-${{ github.ref }}")>>,
  <<"jobs", M(<<
     <<"prep", M(<< <<"runs-on", Q(<<S("self-hosted"), S("linux")>>)>>,
                    <<"steps", Q(<< M(<< <<"run", S("echo prep")>> >>) >>)>> >>)>>,
     <<"build", M(<<
        <<"name", S("Build ${{ github.sha }}")>>,
        <<"needs", S("prep")>>,
        <<"runs-on", S("ubuntu-latest")>>,
        <<"permissions", S("read-all")>>,
        <<"environment", S("production")>>,
        <<"concurrency", S("build-${{ github.ref }}")>>,
        <<"outputs", M(<< <<"sha", E("github.sha")>>, <<"fixed", S("x")>> >>)>>,
        <<"env", M(<< <<"JOBVAR", S("y")>> >>)>>,
        <<"defaults", M(<< <<"run", M(<< <<"shell", S("sh")>>, <<"working-directory", S("app")>> >>)>> >>)>>,
        <<"if", S("github.event_name == 'push'")>>,
        <<"timeout-minutes", S("30")>>,
        <<"strategy", M(<<
           <<"matrix", M(<<
              <<"os", Q(<<S("ubuntu-latest"), S("windows-latest")>>)>>,
              <<"node", Q(<<S("14"), M(<< <<"v", S("16")>>, <<"tags", Q(<<S("lts"), S("cur")>>)>> >>)>>)>>,
              <<"include", Q(<< M(<< <<"os", S("macos-latest")>>, <<"node", S("18")>> >>) >>)>>,
              <<"exclude", Q(<< M(<< <<"os", S("windows-latest")>>, <<"node", S("14")>> >>) >>)>> >>)>>,
           <<"fail-fast", S("false")>>,
           <<"max-parallel", S("2")>> >>)>>,
        <<"continue-on-error", S("false")>>,
        <<"container", S("node:18")>>,
        <<"services", M(<< <<"redis", S("redis:7")>> >>)>>,
        <<"steps", Q(<<
           M(<< <<"id", S("checkout")>>, <<"if", S("always()")>>, <<"name", S("Checkout")>>,
                <<"env", M(<< <<"STEPVAR", S("z")>> >>)>>, <<"continue-on-error", S("true")>>,
                <<"timeout-minutes", S("5")>>, <<"uses", S("actions/checkout@v4")>>,
                <<"with", M(<< <<"ref", S("main")>>, <<"fetch-depth", S("1")>> >>)>> >>),
           M(<< <<"name", S("Script")>>, <<"run", S("echo ${{ github.sha }}")>>, <<"shell", S("bash")>>,
                <<"working-directory", S("build")>> >>),
           M(<< <<"uses", S("docker://alpine:3.8")>>,
                <<"with", M(<< <<"entrypoint", S("/bin/echo")>>, <<"args", S("hello")>> >>)>> >>),
           \* the kind of the step (popular action above, github-script, local action, docker) is a sibling configuration
           M(<< <<"uses", S("actions/github-script@v7")>>,
                <<"with", M(<< <<"script", S("return 1")>>, <<"github-token", E("github.token")>>,
                               <<"result-encoding", S("string")>> >>)>> >>),
           M(<< <<"uses", S("./.github/actions/local")>>,
                <<"with", M(<< <<"first", S("a")>>, <<"second", S("b")>> >>)>> >>) >>)>> >>)>> >>)>> >>)

\* B2: reusable workflow (callee interface) + caller jobs
CallUses == "octo/repo/.github/workflows/build.yml@v1"
B2 == M(<<
  <<"on", M(<<
     <<"workflow_call", M(<<
        <<"inputs", M(<<
           <<"target", M(<< <<"description", S("Target")>>, <<"required", S("false")>>, <<"default", S("all")>>,
                            <<"type", S("string")>> >>)>>,
           <<"count", M(<< <<"type", S("number")>>, <<"required", E("true")>> >>)>> >>)>>,
        <<"secrets", M(<<
           <<"token", M(<< <<"description", S("Token")>>, <<"required", S("false")>> >>)>>,
           <<"key", M(<< <<"required", E("true")>> >>)>> >>)>>,
        <<"outputs", M(<<
           <<"result", M(<< <<"description", S("Result")>>, <<"value", E("github.sha")>> >>)>> >>)>> >>)>> >>)>>,
  <<"jobs", M(<<
     <<"work", M(<< <<"runs-on", S("ubuntu-latest")>>, <<"steps", Q(<< M(<< <<"run", S("echo work")>> >>) >>)>> >>)>>,
     <<"call", M(<<
        <<"name", S("Call")>>,
        <<"needs", Q(<<S("work")>>)>>,
        <<"if", E("github.ref == 'refs/heads/main'")>>,
        <<"permissions", M(<< <<"contents", S("read")>> >>)>>,
        <<"uses", S(CallUses)>>,
        <<"with", M(<< <<"target", S("x")>>, <<"ref", E("github.ref")>> >>)>>,
        <<"secrets", M(<< <<"token", E("github.token")>> >>)>>,
        \* everything else a job that calls a reusable workflow may carry
        <<"concurrency", M(<< <<"group", S("call-${{ github.ref }}")>>, <<"cancel-in-progress", E("github.ref == 'x'")>> >>)>>,
        <<"strategy", M(<<
           <<"matrix", M(<< <<"target", Q(<<S("a"), S("b")>>)>>,
                            <<"include", Q(<< M(<< <<"target", S("c")>>, <<"extra", S("d")>> >>) >>)>>,
                            <<"exclude", Q(<< M(<< <<"target", S("b")>> >>) >>)>> >>)>>,
           <<"fail-fast", E("github.ref == 'x'")>>,
           <<"max-parallel", E("fromJSON(format('{0}', 2))")>> >>)>> >>)>>,
     <<"call2", M(<< <<"uses", S(CallUses)>>, <<"secrets", S("inherit")>>,
                     <<"concurrency", S("call2-${{ github.ref }}")>>, <<"permissions", S("read-all")>>,
                     <<"strategy", M(<< <<"matrix", E(AnyObj)>>, <<"fail-fast", S("true")>>, <<"max-parallel", S("1")>> >>)>> >>)>> >>)>> >>)

\* B3: sibling configurations - mapping forms of every section that has one
FullContainer(img) ==
  M(<< <<"image", S(img)>>,
       <<"credentials", M(<< <<"username", S("user")>>, <<"password", E("github.token")>> >>)>>,
       <<"env", M(<< <<"CVAR", S("v")>> >>)>>,
       <<"ports", Q(<<S("80"), S("8080:8080")>>)>>,
       <<"volumes", Q(<<S("data:/data"), S("/tmp:/tmp")>>)>>,
       <<"options", S("--cpus 1")>> >>)
B3 == M(<<
  <<"on", M(<<
     <<"push", M(<< <<"branches-ignore", Q(<<S("tmp/**")>>)>>, <<"tags-ignore", Q(<<S("nightly*")>>)>>,
                    <<"paths-ignore", Q(<<S("docs/**")>>)>> >>)>>,
     <<"pull_request_target", M(<< <<"branches", Q(<<S("main")>>)>>, <<"paths", S("src/**")>> >>)>>,
     <<"workflow_dispatch", Null>>,
     <<"fork", Null>>,
     <<"repository_dispatch", M(<< <<"types", S("deploy")>> >>)>>,
     <<"release", M(<< <<"types", Q(<<S("published")>>)>> >>)>> >>)>>,
  <<"permissions", S("read-all")>>,
  <<"env", E(AnyObj)>>,
  <<"concurrency", M(<< <<"group", S("grp-${{ github.ref }}")>>, <<"cancel-in-progress", S("true")>> >>)>>,
  <<"jobs", M(<<
     <<"test", M(<<
        <<"runs-on", M(<< <<"group", S("big")>>, <<"labels", Q(<<S("ubuntu-latest"), S("linux")>>)>> >>)>>,
        <<"permissions", M(<< <<"contents", S("write")>>, <<"packages", S("none")>> >>)>>,
        <<"environment", M(<< <<"name", S("staging")>>, <<"url", S("https://example.com/${{ github.sha }}")>> >>)>>,
        <<"concurrency", M(<< <<"group", S("job")>>, <<"cancel-in-progress", E("github.ref == 'x'")>> >>)>>,
        <<"env", E(AnyObj)>>,
        <<"timeout-minutes", E("fromJSON('10')")>>,
        <<"continue-on-error", E("github.ref == 'x'")>>,
        <<"strategy", M(<<
           <<"fail-fast", E("github.ref == 'x'")>>,
           <<"max-parallel", E("fromJSON(format('{0}', 2))")>>,
           <<"matrix", M(<<
              <<"os", E(AnyArr)>>,
              <<"ver", Q(<<S("1"), Q(<<S("2"), S("3")>>)>>)>>,
              \* nested values with an expression (type any) BEFORE literal siblings
              <<"mix", Q(<< E("fromJSON(format('{0}', 1))"), S("lit"), Q(<<E("fromJSON(format('{0}', 2))"), S("n2"), S("n3")>>),
                            M(<< <<"k", E("fromJSON(format('{0}', 3))")>>, <<"l", S("m2")>> >>) >>)>>,
              <<"include", Q(<< E(AnyObj), M(<< <<"os", S("linux")>>, <<"extra", M(<< <<"deep", S("v")>> >>)>>,
                                                <<"lst", Q(<<E("fromJSON(format('{0}', 4))"), S("i2")>>)>> >>) >>)>>,
              <<"exclude", Q(<< E(AnyObj), M(<< <<"ver", S("1")>> >>) >>)>> >>)>> >>)>>,
        <<"container", FullContainer("node:18")>>,
        <<"services", M(<< <<"db", FullContainer("postgres:15")>>, <<"cache", S("redis:7")>>,
                           <<"dynenv", M(<< <<"image", S("memcached:1")>>, <<"env", E(AnyObj)>> >>)>> >>)>>,
        <<"steps", Q(<<
           M(<< <<"run", S("echo test")>>, <<"env", E(AnyObj)>>, <<"continue-on-error", E("github.ref == 'x'")>>,
                <<"timeout-minutes", E("fromJSON(format('{0}', 3))")>>, <<"if", E("github.ref == 'x'")>> >>),
           M(<< <<"uses", S("actions/setup-node@v4")>>, <<"id", S("node")>> >>) >>)>> >>)>>,
     <<"other", M(<<
        <<"runs-on", M(<< <<"labels", S("ubuntu-latest")>> >>)>>,
        <<"strategy", M(<< <<"matrix", M(<< <<"include", E(AnyArr)>>, <<"exclude", E(AnyArr)>>,
                                            <<"os", Q(<<S("linux")>>)>> >>)>> >>)>>,
        <<"services", E(AnyObj)>>,
        <<"container", M(<< <<"image", S("alpine:3")>>, <<"env", E(AnyObj)>>, <<"ports", Q(<<>>)>> >>)>>,
        <<"steps", Q(<< M(<< <<"run", S("echo other")>> >>) >>)>> >>)>>,
     <<"dyn", M(<<
        <<"runs-on", E("github.event_name")>>,
        <<"strategy", M(<< <<"matrix", E(AnyObj)>> >>)>>,
        <<"steps", Q(<< M(<< <<"run", S("echo dyn")>> >>) >>)>> >>)>> >>)>> >>)

\* B4, B5: the scalar and the sequence form of `on`
B4 == M(<< <<"on", S("push")>>,
           <<"jobs", M(<< <<"j", M(<< <<"runs-on", M(<< <<"labels", E("github.event_name")>> >>)>>,
                                      <<"steps", Q(<< M(<< <<"run", S("echo j")>> >>) >>)>> >>)>> >>)>> >>)
B5 == M(<< <<"on", Q(<<S("push"), S("pull_request")>>)>>,
           <<"jobs", M(<< <<"j", M(<< <<"runs-on", S("ubuntu-latest")>>,
                                      <<"steps", Q(<< M(<< <<"run", S("echo j")>> >>) >>)>> >>)>> >>)>> >>)

MiniJobs == M(<< <<"j", M(<< <<"runs-on", S("ubuntu-latest")>>,
                           <<"steps", Q(<< M(<< <<"run", S("echo j")>> >>) >>)>> >>)>> >>)
B6 == M(<< <<"on", M(<< <<"push", M(<< <<"tags", S("v*")>> >>)>>,
                        <<"workflow_run", M(<< <<"workflows", S("Build")>> >>)>> >>)>>, <<"jobs", MiniJobs>> >>)
B7 == M(<< <<"on", M(<< <<"push", M(<< <<"tags-ignore", S("nightly*")>> >>)>> >>)>>, <<"jobs", MiniJobs>> >>)

Bases == <<B1, B2, B3, B4, B5, B6, B7>>
BaseNames == <<"ordinary", "reusable", "siblings", "on-scalar", "on-sequence", "scalar-filters", "scalar-filters-2">>

----------------------------------------------------------------------------
(* Invariants on the schema and the bases *)
SchemaWF == WF(Root)
BasesTyped == \A b \in DOMAIN Bases : Typed(Root, Bases[b])
AllSchemaPos == SchemaPos(Root, <<>>)
AllDocPos == UNION {DocPos(Root, Bases[b], <<>>) : b \in DOMAIN Bases}
Uncovered == AllSchemaPos \ AllDocPos
UncoveredKeys == SchemaKeys(Root, <<>>) \ UNION {DocKeys(Root, Bases[b], <<>>) : b \in DOMAIN Bases}
BasesCover == Uncovered = {} /\ UncoveredKeys = {} /\ AllDocPos \subseteq AllSchemaPos

=============================================================================
