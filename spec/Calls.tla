-------------------------------- MODULE Calls --------------------------------
(* Calls of local actions, bundled popular actions and local reusable workflows, checked against
   the callee's declared interface: rule_action.go (checkAction), rule_workflow_call.go
   (checkWorkflowCallUsesLocal), rule_expression.go (getActionOutputsType, getWorkflowCallOutputsType,
   checkWorkflowCall), action_metadata.go, reusable_workflow.go, popular_actions.go.

   A name is [id, sp]: id = the lower-case identity (what strings.ToLower yields in the code),
   sp = the spelling in the file.

   Declaration d (what is written in action.yml / on.workflow_call / the source of a table entry):
     [kind    : "action" | "workflow" | "popular",
      inputs  : sequence of [n, req : absent|true|false, def : absent|null|empty|value, type],
      secrets : sequence of [n, req], outputs : sequence of names, skipInputs, skipOutputs]
   Abstract interface Iface(d) (DESIGN 3.3):
     [kind, repo, inputs : seq of [n, required, hasDefault, type], secrets : seq of [n, required],
      outputs, skipInputs, skipOutputs]
   Call site: [uses : form of the `uses:` text of a local action, with : seq of names,
               valueTypes : seq of value kinds (parallel to with), secrets : seq of names, inherit,
               outputRefs : seq of names]
   d.loc is the directory of a local action: "sub" (./.github/actions/x) or "root" (the repository root);
   d.using is its `runs.using` (composite | node20 | docker: the runners the checker accepts, each
   rendered with the keys that kind requires; node16: a JavaScript action on a runner it rejects).
   A diagnostic is [class, name].

   Declarative layer : Expected(iface, call) - the property C14 as stated.
   Operational layer : the metadata the code derives (three derivations of "required": bundled table /
                       local action.yml, reusable workflow from the file, reusable workflow from the
                       in-memory AST) and the loops of checkAction, checkWorkflowCallUsesLocal, the
                       outputs object types and the typed `with:` check.
   TLC checks operational = declarative on the bounded universe and that the derivations of "required"
   agree (within a callee kind) on all 12 declarations; `tc` is the vector for the harness (declaration, interface, call,
   expected diagnostics, operational prediction per real path). *)
EXTENDS Naturals, Sequences, FiniteSets, TLC, Json

CONSTANTS Kinds,        \* subset of {"action", "workflow", "popular"}
          NameSet,      \* "std" | "special": which input ids are declared (in this order), see InputNames
          MaxInputs, Reqs, Defs, Types,      \* input declarations to enumerate (Types: for workflows)
          DeclSpells, CallSpells,            \* spelling variants: subset of {"lower", "upper", "mixed"}
          MaxSecrets, SecReqs, MaxOutputs,
          ValueKinds,   \* value kinds passed to inputs of reusable workflows (names, see LitKinds / ExprKinds)
          Locs,         \* directories of a local action to try: subset of {"sub", "root"}
          UsesForms,    \* spellings of `uses:` of a local action to try (see UsesForm)
          Usings,       \* `runs.using` of a local action to try: subset of {"composite", "node20", "docker", "node16"}
          Extras,       \* BOOLEAN: call sites may use one undeclared input / secret / output name
          Inherit,      \* BOOLEAN: `secrets: inherit` is tried
          Skips         \* BOOLEAN: skip_inputs / skip_outputs are tried (bundled table only)

AllReqs == {"absent", "true", "false"}
(* Spellings of `required:` in on.workflow_call (inputs and secrets).  A workflow file is YAML 1.2 core
   schema: only true / True / TRUE are the boolean true.  yes, on, y are plain strings, 'true' is a
   quoted string, 1 is an integer ("qtrue", "one" name the last two); go-yaml would still decode
   yes / on / y into a Go bool (YAML 1.1 compatibility).  Required iff the boolean true. *)
WfReqs == {"absent", "true", "True", "TRUE", "false", "False", "yes", "on", "y", "qtrue", "one"}
ReqTrue(req) == req \in {"true", "True", "TRUE"}
AllDefs == {"absent", "null", "empty", "value"}

SpellTab == [in1 |-> [lower |-> "in1", upper |-> "IN1", mixed |-> "In1"],
             in2 |-> [lower |-> "in2", upper |-> "IN2", mixed |-> "In2"],
             in3 |-> [lower |-> "in3", upper |-> "IN3", mixed |-> "In3"],
             args |-> [lower |-> "args", upper |-> "ARGS", mixed |-> "Args"],
             entrypoint |-> [lower |-> "entrypoint", upper |-> "ENTRYPOINT", mixed |-> "EntryPoint"],
             x9 |-> [lower |-> "x9", upper |-> "X9", mixed |-> "X9"],
             s1 |-> [lower |-> "s1", upper |-> "S1", mixed |-> "S1"],
             s2 |-> [lower |-> "s2_b", upper |-> "S2_B", mixed |-> "S2_b"],
             y9 |-> [lower |-> "y9", upper |-> "Y9", mixed |-> "Y9"],
             o1 |-> [lower |-> "o1", upper |-> "O1", mixed |-> "O1"],
             o2 |-> [lower |-> "o2-b", upper |-> "O2-B", mixed |-> "O2-b"],
             z9 |-> [lower |-> "z9", upper |-> "Z9", mixed |-> "Z9"]]
\* the id of a name is its lower-case spelling
Nm(key, variant) == [id |-> SpellTab[key].lower, sp |-> SpellTab[key][variant]]
InputNames == IF NameSet = "special" THEN <<"args", "entrypoint">> ELSE <<"in1", "in2", "in3">>
SecretNames == <<"s1", "s2">>
OutputNames == <<"o1", "o2">>

Range(f) == {f[x] : x \in DOMAIN f}
Ids(names) == {names[i].id : i \in DOMAIN names}
D(class, name) == [class |-> class, name |-> name]

----------------------------------------------------------------------------
(* Declarative layer *)

(* "Without default" is read per callee kind (the property speaks about one callee at a time):
     actions (local action.yml and the bundled table): `default: null` / `default:` is YAML's "no
       value", there is no default - the reading of action_metadata.go and of the table generator;
     reusable workflows: the presence of the `default:` key counts, `default: null` is a default - the
       reading of parse.go / rule_events.go and, since fix 12e35db, of BOTH derivations (file and AST).
   The derivations of "required" are therefore asserted equal WITHIN a kind only: local action.yml vs
   decoding for the bundled table; reusable workflow from the file vs from the in-memory AST. *)
HasDefault(kind, def) == IF kind = "workflow" THEN def # "absent" ELSE def \in {"empty", "value"}
Mandatory(kind, in) == ReqTrue(in.req) /\ ~HasDefault(kind, in.def)

Iface(d) ==
  [kind |-> d.kind, repo |-> "", using |-> d.using,
   inputs |-> [i \in DOMAIN d.inputs |-> [n |-> d.inputs[i].n, required |-> ReqTrue(d.inputs[i].req),
                                          hasDefault |-> HasDefault(d.kind, d.inputs[i].def), type |-> d.inputs[i].type]],
   secrets |-> [i \in DOMAIN d.secrets |-> [n |-> d.secrets[i].n, required |-> ReqTrue(d.secrets[i].req)]],
   outputs |-> d.outputs, skipInputs |-> d.skipInputs, skipOutputs |-> d.skipOutputs]

(* Values given to inputs.  A literal value kind is named "<style>:<class>": the YAML scalar style
   (plain, single-quoted, double-quoted) and the class of its text; the other kinds are one
   whole-scalar placeholder (expr-<type>) and a placeholder embedded in text (embed).
   The checker documents that the TEXT of the scalar is what is passed to the called workflow, so the
   scalar style does not take part in the classification: null / true / false / a decimal number are
   null, bool, number - quoted or not; other text is a string.
   The property does not pin how the BORDERLINE texts are classified (~, TRUE, 0x1F, the empty scalar:
   a maintainer may make ~ null or 0x1F a number without breaking it): for a value of such a class the
   type-mismatch verdict is UNSPECIFIED - it is never part of Expected and is removed from the real
   output before judging (Unspecified below); only the operational layer predicts it (model drift). *)
LitStyles == {"plain", "single", "double"}
\* "tchar" / "fchar": the one-letter texts t and F, which are plain text (a string) although strconv.ParseBool accepts them
LitClasses == {"true", "false", "null", "tilde", "int", "float", "hex", "text", "empty", "TRUE", "tchar", "fchar"}
LitKinds == {[name |-> st \o ":" \o cl, style |-> st, cls |-> cl] : st \in LitStyles, cl \in LitClasses}
ExprKinds == {"expr-str", "expr-num", "expr-bool", "expr-null", "expr-obj", "expr-any", "embed"}
BorderClasses == {"tilde", "hex", "empty", "TRUE"}
LitNames == {k.name : k \in LitKinds}
LitOf(vk) == CHOOSE k \in LitKinds : k.name = vk
ClassType(cl) == CASE cl \in {"true", "false"} -> "bool" [] cl = "null" -> "null"
                   [] cl \in {"int", "float"} -> "number" [] OTHER -> "string"
Borderline(vk) == vk \in {k.name : k \in {x \in LitKinds : x.cls \in BorderClasses}}
\* static type of a value kind (for borderline literals: what the checker does today, not demanded)
TypeOf(vk) ==
  IF vk \in LitNames THEN ClassType(LitOf(vk).cls)
  ELSE CASE vk \in {"expr-str", "embed"} -> "string"
         [] vk = "expr-num" -> "number"
         [] vk = "expr-bool" -> "bool"
         [] vk = "expr-null" -> "null"
         [] vk = "expr-obj" -> "object"
         [] vk = "expr-any" -> "any"
\* docs/checks.md "Check inputs and outputs of reusable workflow call": everything converts to a
\* boolean, numbers convert to strings, nothing else converts; a statically unknown value is accepted
AssignOK(declType, vt) ==
  CASE declType = "boolean" -> TRUE
    [] declType = "number" -> vt \in {"number", "any"}
    [] declType = "string" -> vt \in {"string", "number", "any"}
    [] OTHER -> TRUE

ValidRunners == {"composite", "docker", "node20"}
\* outputs set dynamically: skip_outputs of the table, and actions/github-script (core.setOutput)
DynamicOutputs(f) == f.skipOutputs \/ f.repo = "actions/github-script"

Expected(f, c) ==
  IF f.kind = "outdated" THEN {D("outdated", "")}     \* no interface is known: only the runner is reported
  ELSE
  LET declIn == {f.inputs[i].n.id : i \in DOMAIN f.inputs}
      declSec == {f.secrets[i].n.id : i \in DOMAIN f.secrets}
      declOut == Ids(f.outputs)
      undefIn == IF f.skipInputs THEN {}
                 ELSE {D("undefined-input", w.sp) : w \in {x \in Range(c.with) : x.id \notin declIn}}
      missIn == IF f.skipInputs THEN {}
                ELSE {D("missing-required-input", in.n.sp) :
                        in \in {x \in Range(f.inputs) : x.required /\ ~x.hasDefault /\ x.n.id \notin Ids(c.with)}}
      undefSec == IF c.inherit THEN {}
                  ELSE {D("undefined-secret", s.sp) : s \in {x \in Range(c.secrets) : x.id \notin declSec}}
      missSec == IF c.inherit THEN {}
                 ELSE {D("missing-required-secret", s.n.sp) :
                         s \in {x \in Range(f.secrets) : x.required /\ x.n.id \notin Ids(c.secrets)}}
      \* the checker names the property in lower case
      undefOut == IF DynamicOutputs(f) THEN {}
                  ELSE {D("undefined-output", r.id) : r \in {x \in Range(c.outputRefs) : x.id \notin declOut}}
      mismatch == IF f.kind # "workflow" THEN {}
                  ELSE {D("type-mismatch", f.inputs[i].n.sp) :
                          i \in {j \in DOMAIN f.inputs :
                                   \E k \in DOMAIN c.with : /\ c.with[k].id = f.inputs[j].n.id
                                                            /\ ~Borderline(c.valueTypes[k])
                                                            /\ ~AssignOK(f.inputs[j].type, TypeOf(c.valueTypes[k]))}}
      \* the interface checks do not depend on how the action is run; a local action on a runner
      \* that is no longer available is reported as such (once, where it is used)
      runner == IF f.kind = "action" /\ f.using \notin ValidRunners THEN {D("invalid-runner", "")} ELSE {}
  IN undefIn \cup missIn \cup undefSec \cup missSec \cup undefOut \cup mismatch \cup runner

\* diagnostics whose presence the property leaves open: type-mismatch of an input that is given a
\* borderline literal
Unspecified(f, c) ==
  IF f.kind # "workflow" THEN {}
  ELSE {D("type-mismatch", f.inputs[j].n.sp) :
          j \in {i \in DOMAIN f.inputs : \E k \in DOMAIN c.with : c.with[k].id = f.inputs[i].n.id /\ Borderline(c.valueTypes[k])}}

----------------------------------------------------------------------------
(* Operational layer: derivations of "required" *)

YamlBool(req) == req = "true"                    \* yaml.v3 into bool; a missing key leaves false
YamlStrPtrNil(def) == def \in {"absent", "null"} \* yaml.v3 into *string: a null node leaves nil
\* action_metadata.go:55  ActionMetadataInput{k, m.Required && m.Default == nil}
ReqLocalAction(in) == YamlBool(in.req) /\ YamlStrPtrNil(in.def)
\* scripts/generate-popular-actions decodes the action.yml into ActionMetadata through the same
\* UnmarshalYAML and prints i.Required into the table; checkAction reads the table value
ReqBundled(in) == ReqLocalAction(in)
\* reusable_workflow.go:50  input.Required = yamlNodeIsTrue(&md.Required) && md.Default.Kind == 0
\* (a yaml.Node field stays zero only when the key is missing; before fix 12e35db this was
\* md.Required && md.Default == nil with Default *string, i.e. YamlBool /\ YamlStrPtrNil)
\* go-yaml: the resolved tag of the scalar, and whether Decode(&bool) succeeds with true
YamlTag(req) == CASE req \in {"true", "True", "TRUE", "false", "False"} -> "!!bool"
                  [] req = "one" -> "!!int"
                  [] OTHER -> "!!str"          \* yes, on, y, 'true', ${{ }}
YamlDecodesTrue(req) == req \in {"true", "True", "TRUE", "yes", "on", "y"}
\* reusable_workflow.go:107 yamlNodeIsTrue (since 8258f91): n.ShortTag() == "!!bool" && n.Decode(&b) == nil && b
YamlNodeIsTrue(req) == req # "absent" /\ YamlTag(req) = "!!bool" /\ YamlDecodesTrue(req)
YamlNodeMissing(def) == def = "absent"
ReqWorkflowFile(in) == YamlNodeIsTrue(in.req) /\ YamlNodeMissing(in.def)
\* parse.go:485 parseBool: *Bool (nil when the key is missing), Value = (text = "true")
\* parse.go:172 parseBool: nil (and an error in the callee) unless the tag is !!bool or !!str; a !!str
\* node is kept as an expression with Value false; a !!bool node is decoded (true, True, TRUE)
AstReqNil(req) == req = "absent" \/ YamlTag(req) \notin {"!!bool", "!!str"}
AstReqValue(req) == YamlTag(req) = "!!bool" /\ YamlDecodesTrue(req)
\* parse.go:487 parseString returns a *String for every scalar node, the null scalar included
AstDefaultNil(def) == def = "absent"
\* reusable_workflow.go:297  i.Required != nil && i.Required.Value && i.Default == nil
ReqWorkflowAST(in) == ~AstReqNil(in.req) /\ AstReqValue(in.req) /\ AstDefaultNil(in.def)

AllInDecls == {[n |-> Nm("in1", "lower"), req |-> r, def |-> df, type |-> "string"] : r \in WfReqs \cup {"expr"}, df \in AllDefs}
DerivRow(in) == [req |-> in.req, def |-> in.def,
                 actionMandatory |-> Mandatory("action", in), bundled |-> ReqBundled(in), action |-> ReqLocalAction(in),
                 workflowMandatory |-> Mandatory("workflow", in), file |-> ReqWorkflowFile(in), ast |-> ReqWorkflowAST(in)]
\* action.yml is judged on required in {absent, true, false}; on.workflow_call on every spelling
RowAgrees(r) == /\ r.req \in AllReqs => (r.bundled = r.actionMandatory /\ r.action = r.actionMandatory)
                /\ r.file = r.workflowMandatory /\ r.ast = r.workflowMandatory
Deviating == {r \in {DerivRow(in) : in \in AllInDecls} : ~RowAgrees(r)}
\* the module's claim: within a kind the derivations agree with each other and with the property on
\* every well-formed declaration required x default
DerivationsOK == Deviating = {}
DeviatingJson == ToJson(Deviating)
\* secrets: yamlNodeIsTrue (file) vs s.Required != nil && s.Required.Value (AST)
SecretDerivationsOK == \A r \in WfReqs \cup {"expr"} : /\ YamlNodeIsTrue(r) = (~AstReqNil(r) /\ AstReqValue(r))
                                                        /\ YamlNodeIsTrue(r) = ReqTrue(r)

----------------------------------------------------------------------------
(* Operational layer: metadata and checks *)

InById(d, id) == d.inputs[CHOOSE i \in DOMAIN d.inputs : d.inputs[i].n.id = id]
SecById(d, id) == d.secrets[CHOOSE i \in DOMAIN d.secrets : d.secrets[i].n.id = id]
OutById(outs, id) == outs[CHOOSE i \in DOMAIN outs : outs[i].id = id]

\* ActionMetadata: maps keyed by the lower-case id
ActionMeta(d, R(_)) ==
  [inputs |-> [id \in {d.inputs[i].n.id : i \in DOMAIN d.inputs} |->
                 [name |-> InById(d, id).n.sp, required |-> R(InById(d, id))]],
   outputs |-> [id \in Ids(d.outputs) |-> OutById(d.outputs, id).sp],
   skipInputs |-> d.skipInputs, skipOutputs |-> d.skipOutputs, using |-> d.using]

WfType(t) == IF t \in {"boolean", "number", "string"} THEN t ELSE "any"
\* ReusableWorkflowMetadata from parseReusableWorkflowMetadata / WriteWorkflowCallEvent
WfMeta(d, R(_), SR(_)) ==
  [inputs |-> [id \in {d.inputs[i].n.id : i \in DOMAIN d.inputs} |->
                 [name |-> InById(d, id).n.sp, required |-> R(InById(d, id)), type |-> WfType(InById(d, id).type)]],
   secrets |-> [id \in {d.secrets[i].n.id : i \in DOMAIN d.secrets} |->
                 [name |-> SecById(d, id).n.sp, required |-> SR(SecById(d, id).req)]],
   outputs |-> [id \in Ids(d.outputs) |-> OutById(d.outputs, id).sp]]
SecFile(req) == YamlNodeIsTrue(req)        \* reusable_workflow.go:112
SecAST(req) == ~AstReqNil(req) /\ AstReqValue(req)

NameById(names, id) == names[CHOOSE i \in DOMAIN names : names[i].id = id]

\* parse.go:1036 `with:` of a step: the keys entrypoint and args are stored in ExecAction.Entrypoint /
\* .Args, every other key in ExecAction.Inputs[lower-case key]
ExecInputs(c) == Ids(c.with) \ {"entrypoint", "args"}
ExecSpecial(c) == Ids(c.with) \cap {"entrypoint", "args"}
\* rule_action.go:583 checkAction; since fix 6584628 a required input named args / entrypoint counts
\* as supplied when ExecAction.Args / .Entrypoint is set (before: reported although supplied)
OpCheckAction(meta, c) ==
  {D("undefined-input", NameById(c.with, id).sp) : id \in {x \in ExecInputs(c) : x \notin DOMAIN meta.inputs}}
  \cup {D("missing-required-input", meta.inputs[id].name) :
          id \in {x \in DOMAIN meta.inputs : meta.inputs[x].required /\ x \notin ExecInputs(c) /\ x \notin ExecSpecial(c)}}
\* rule_expression.go:320 getActionOutputsType + :1064 typeOfActionOutputs; a property that a strict
\* object type does not have is reported with its lower-case name
OpStepOutputs(meta, repo, c) ==
  IF repo = "actions/github-script" THEN {}
  ELSE IF meta.skipOutputs THEN {}
  ELSE {D("undefined-output", r.id) : r \in {x \in Range(c.outputRefs) : x.id \notin DOMAIN meta.outputs}}
\* rule_action.go:374 checkRepoAction for a spec found in PopularActions
OpRepoAction(meta, repo, c) ==
  (IF meta.skipInputs THEN {} ELSE OpCheckAction(meta, c)) \cup OpStepOutputs(meta, repo, c)
(* `uses:` of a local action.  The facts about each text that the code relies on:
     dotSlash : strings.HasPrefix(text, "./")  - rule_action.go:331 (VisitStep) and rule_expression.go:327
                (getActionOutputsType) both recognise a local action by this test on the unmodified text
     dir      : filepath.Join(root, text) cleans the path lexically (action_metadata.go:238)
   Every form denotes the directory of the action, so every form must give the same verdicts. *)
UsesForm == [plain    |-> [text |-> "./.github/actions/x",            dotSlash |-> TRUE, dir |-> "sub"],
             slash    |-> [text |-> "./.github/actions/x/",           dotSlash |-> TRUE, dir |-> "sub"],
             slashdot |-> [text |-> "./.github/actions/x/.",          dotSlash |-> TRUE, dir |-> "sub"],
             dotdot   |-> [text |-> "./.github/actions/../actions/x", dotSlash |-> TRUE, dir |-> "sub"],
             root     |-> [text |-> "./",                             dotSlash |-> TRUE, dir |-> "root"],
             rootdot  |-> [text |-> "./.",                            dotSlash |-> TRUE, dir |-> "root"]]
FormsFor(loc) == {f \in DOMAIN UsesForm : UsesForm[f].dir = loc}
\* rule_action.go:331/561 checkLocalAction and rule_expression.go:327: the metadata is looked up
\* independently by the two rules, each time by prefix test + FindMetadata(text)
OpLocalAction(meta, loc, c) ==
  LET f == UsesForm[c.uses]
      found == f.dotSlash /\ f.dir = loc      \* action.yml exists in the directory the text resolves to
      \* rule_action.go:480 checkLocalActionRuns (first use of the action in the run): the switch on
      \* runs.using has the cases "docker", "composite", "node20"; anything else is an invalid runner name.
      \* Neither checkAction nor getActionOutputsType / typeOfActionOutputs consult meta.Runs.
      runs == IF found /\ meta.using \notin {"docker", "composite", "node20"} THEN {D("invalid-runner", "")} ELSE {}
  IN (IF found THEN OpCheckAction(meta, c) ELSE {}) \cup (IF found THEN OpStepOutputs(meta, "", c) ELSE {}) \cup runs

\* rule_workflow_call.go:75 checkWorkflowCallUsesLocal
OpWorkflowCall(m, c) ==
  LET callIn == Ids(c.with)
      callSec == Ids(c.secrets)
      ins == {D("missing-required-input", m.inputs[id].name) :
                id \in {x \in DOMAIN m.inputs : m.inputs[x].required /\ x \notin callIn}}
             \cup {D("undefined-input", NameById(c.with, id).sp) : id \in {x \in callIn : x \notin DOMAIN m.inputs}}
      secs == IF c.inherit THEN {}
              ELSE {D("missing-required-secret", m.secrets[id].name) :
                      id \in {x \in DOMAIN m.secrets : m.secrets[x].required /\ x \notin callSec}}
                   \cup {D("undefined-secret", NameById(c.secrets, id).sp) :
                           id \in {x \in callSec : x \notin DOMAIN m.secrets}}
  IN ins \cup secs

\* rule_expression.go:510 checkWorkflowCall: how the value of one `with:` entry is typed.
\* Facts about the text of a literal class, as the Go code sees it (v = strings.TrimSpace(Value)):
\*   v == "null"; v == "true" || v == "false"; strconv.ParseFloat(v, 64) succeeds
\* ("~", "TRUE", "" are none of these; "0x1F" is rejected by ParseFloat: a hexadecimal mantissa needs a
\* p exponent).  String.Quoted is not consulted: the scalar style plays no role.
LitFacts(cl) == [isNull |-> cl = "null", isTrueFalse |-> cl \in {"true", "false"}, parseFloatOK |-> cl \in {"int", "float"}]
VK(x) ==
  IF x \in LitNames THEN [places |-> 0, facts |-> LitFacts(LitOf(x).cls), assigned |-> FALSE, ety |-> "-"]
  ELSE [places |-> 1, facts |-> LitFacts("text"), assigned |-> x # "embed",
        ety |-> CASE x = "expr-str" -> "string" [] x = "expr-num" -> "number" [] x = "expr-bool" -> "bool"
                  [] x = "expr-null" -> "null" [] x = "expr-obj" -> "object" [] x = "expr-any" -> "any"
                  [] x = "embed" -> "number"]
OpValueType(v) ==
  IF v.places = 0
    THEN IF v.facts.isNull THEN "null"
         ELSE IF v.facts.isTrueFalse THEN "bool"
         ELSE IF v.facts.parseFloatOK THEN "number"
         ELSE "string"
  ELSE IF v.places = 1 /\ v.assigned THEN v.ety
  ELSE "string"
\* expr_type.go Assignable of StringType / NumberType / BoolType / AnyType
OpAssignable(t, other) ==
  CASE t = "string" -> other \in {"string", "number", "any"}
    [] t = "number" -> other \in {"number", "any"}
    [] t = "boolean" -> TRUE
    [] t = "any" -> TRUE
OpTypedInputs(m, c) ==
  {D("type-mismatch", m.inputs[c.with[k].id].name) :
     k \in {j \in DOMAIN c.with : /\ c.with[j].id \in DOMAIN m.inputs
                                  /\ m.inputs[c.with[j].id].type # "any"
                                  /\ ~OpAssignable(m.inputs[c.with[j].id].type, OpValueType(VK(c.valueTypes[j])))}}
\* rule_expression.go:353 getWorkflowCallOutputsType
OpNeedsOutputs(m, c) ==
  {D("undefined-output", r.id) : r \in {x \in Range(c.outputRefs) : x.id \notin DOMAIN m.outputs}}
OpWorkflow(m, c) == OpWorkflowCall(m, c) \cup OpTypedInputs(m, c) \cup OpNeedsOutputs(m, c)

\* the real paths by which a callee's interface reaches the checks
PathsOf(kind) == CASE kind = "action" -> {"local"} [] kind = "popular" -> {"table"}
                   [] kind = "workflow" -> {"file", "ast", "file2"}
Op(path, d, c) ==
  CASE path = "local" -> OpLocalAction(ActionMeta(d, ReqLocalAction), d.loc, c)
    [] path = "table" -> OpRepoAction(ActionMeta(d, ReqBundled), "", c)
    [] path \in {"file", "file2"} -> OpWorkflow(WfMeta(d, ReqWorkflowFile, SecFile), c)
    [] path = "ast" -> OpWorkflow(WfMeta(d, ReqWorkflowAST, SecAST), c)

\* interface given directly by a table entry (trace validation of the bundled data set)
MetaOfIface(f) ==
  [inputs |-> [id \in {f.inputs[i].n.id : i \in DOMAIN f.inputs} |->
                 LET in == f.inputs[CHOOSE i \in DOMAIN f.inputs : f.inputs[i].n.id = id]
                 IN [name |-> in.n.sp, required |-> in.required /\ ~in.hasDefault]],
   outputs |-> [id \in Ids(f.outputs) |-> OutById(f.outputs, id).sp],
   skipInputs |-> f.skipInputs, skipOutputs |-> f.skipOutputs]
OpOfIface(f, c) ==
  IF f.kind = "outdated" THEN {D("outdated", "")}     \* rule_action.go:366: reported, nothing else checked
  ELSE OpRepoAction(MetaOfIface(f), f.repo, c)

PathReq(path, in) == CASE path = "local" -> ReqLocalAction(in) [] path = "table" -> ReqBundled(in)
                         [] path \in {"file", "file2"} -> ReqWorkflowFile(in) [] path = "ast" -> ReqWorkflowAST(in)
(* Deviations of the code from the property that the operational layer transcribes faithfully (the
   check reports each as a violation found on the real code; here they are only excluded from the
   model-level equality, which is what lets TLC cover the rest of the universe): a derivation of
   "required" that differs from Mandatory on some declared input (the rows of Deviating; none since
   fix 12e35db).  Undeclared with.args / with.entrypoint are outside the universe (they are accepted
   implicitly for Docker actions and never reach ExecAction.Inputs). *)
KnownDeviation(path, d, c) ==
  \E i \in DOMAIN d.inputs : PathReq(path, d.inputs[i]) # Mandatory(d.kind, d.inputs[i])

----------------------------------------------------------------------------
(* Generator *)
VARIABLES d, call, tc
vars == <<d, call, tc>>

D0(kind, loc, using) == [kind |-> kind, loc |-> loc, using |-> using, inputs |-> <<>>, secrets |-> <<>>, outputs |-> <<>>,
                  skipInputs |-> FALSE, skipOutputs |-> FALSE]
C0(form) == [uses |-> form, with |-> <<>>, valueTypes |-> <<>>, secrets |-> <<>>, inherit |-> FALSE, outputRefs |-> <<>>]
NoArgs(c) == c.with = <<>> /\ c.secrets = <<>> /\ ~c.inherit /\ c.outputRefs = <<>>

Vector(dd, c) == ToJson([d |-> dd, iface |-> Iface(dd), call |-> c, exp |-> Expected(Iface(dd), c),
                         unspec |-> Unspecified(Iface(dd), c),
                         op |-> [p \in PathsOf(dd.kind) |-> Op(p, dd, c)]])

\* the directory and the spelling of `uses:` vary for local actions only
Init == /\ d \in {D0(k, "sub", "composite") : k \in Kinds \ {"action"}}
                 \cup {D0("action", l, u) : l \in IF "action" \in Kinds THEN Locs \cup {"sub"} ELSE {}, u \in Usings \cup {"composite"}}
        /\ call \in IF d.kind = "action" THEN {C0(f) : f \in FormsFor(d.loc) \cap (UsesForms \cup {"plain", "root"})}
                    ELSE {C0("plain")}
        /\ tc = Vector(d, call)

TypesOf(kind) == IF kind = "workflow" THEN Types ELSE {"none"}
ValueKindsOf(kind) == IF kind = "workflow" THEN ValueKinds ELSE {"plain:text"}

AddInput ==
  /\ NoArgs(call) /\ d.secrets = <<>> /\ d.outputs = <<>>
  /\ Len(d.inputs) < MaxInputs /\ Len(d.inputs) < Len(InputNames)
  /\ \E r \in Reqs, df \in Defs, ty \in TypesOf(d.kind), sv \in DeclSpells :
       d' = [d EXCEPT !.inputs = Append(@, [n |-> Nm(InputNames[Len(d.inputs) + 1], sv), req |-> r, def |-> df, type |-> ty])]
  /\ call' = call
AddSecret ==
  /\ NoArgs(call) /\ d.kind = "workflow" /\ d.outputs = <<>> /\ Len(d.secrets) < MaxSecrets
  /\ \E r \in SecReqs, sv \in DeclSpells :
       d' = [d EXCEPT !.secrets = Append(@, [n |-> Nm(SecretNames[Len(d.secrets) + 1], sv), req |-> r])]
  /\ call' = call
AddOutput ==
  /\ NoArgs(call) /\ Len(d.outputs) < MaxOutputs
  /\ \E sv \in DeclSpells : d' = [d EXCEPT !.outputs = Append(@, Nm(OutputNames[Len(d.outputs) + 1], sv))]
  /\ call' = call
SetSkip ==
  /\ Skips /\ NoArgs(call) /\ d.kind = "popular"
  /\ \/ ~d.skipInputs /\ d' = [d EXCEPT !.skipInputs = TRUE]
     \/ ~d.skipOutputs /\ d' = [d EXCEPT !.skipOutputs = TRUE]
  /\ call' = call

\* candidates are taken in a fixed order so that every set of names is generated once
KeySeq(names, extra, withExtra) == [i \in 1 .. (Len(names) + (IF withExtra THEN 1 ELSE 0)) |->
                                      IF i <= Len(names) THEN names[i] ELSE extra]
PosOf(keys, id) == CHOOSE i \in DOMAIN keys : SpellTab[keys[i]].lower = id
After(keys, chosen, j) == IF chosen = <<>> THEN TRUE ELSE j > PosOf(keys, chosen[Len(chosen)].id)

\* an undeclared secret / output name is tried in the configurations that declare secrets / outputs at all
InKeys == KeySeq([i \in DOMAIN d.inputs |-> InputNames[i]], "x9", Extras)
SecKeys == KeySeq([i \in DOMAIN d.secrets |-> SecretNames[i]], "y9", Extras /\ MaxSecrets > 0)
OutKeys == KeySeq([i \in DOMAIN d.outputs |-> OutputNames[i]], "z9", Extras /\ MaxOutputs > 0)

AddWith ==
  /\ call.secrets = <<>> /\ ~call.inherit /\ call.outputRefs = <<>>
  /\ \E j \in DOMAIN InKeys, sv \in CallSpells, vk \in ValueKindsOf(d.kind) :
       /\ After(InKeys, call.with, j)
       /\ call' = [call EXCEPT !.with = Append(@, Nm(InKeys[j], sv)), !.valueTypes = Append(@, vk)]
  /\ d' = d
AddSecretArg ==
  /\ d.kind = "workflow" /\ ~call.inherit /\ call.outputRefs = <<>>
  /\ \E j \in DOMAIN SecKeys, sv \in CallSpells :
       /\ After(SecKeys, call.secrets, j)
       /\ call' = [call EXCEPT !.secrets = Append(@, Nm(SecKeys[j], sv))]
  /\ d' = d
SetInherit ==
  /\ Inherit /\ d.kind = "workflow" /\ call.secrets = <<>> /\ ~call.inherit /\ call.outputRefs = <<>>
  /\ call' = [call EXCEPT !.inherit = TRUE]
  /\ d' = d
AddRef ==
  /\ \E j \in DOMAIN OutKeys, sv \in CallSpells :
       /\ After(OutKeys, call.outputRefs, j)
       /\ call' = [call EXCEPT !.outputRefs = Append(@, Nm(OutKeys[j], sv))]
  /\ d' = d

Next == /\ (AddInput \/ AddSecret \/ AddOutput \/ SetSkip \/ AddWith \/ AddSecretArg \/ SetInherit \/ AddRef)
        /\ tc' = Vector(d', call')
Spec == Init /\ [][Next]_vars

----------------------------------------------------------------------------
(* Invariants *)
\* state-level wrappers (checked on the single state of Calls_derive.cfg)
DerivationsAgree == d.kind \in Kinds => DerivationsOK
SecretDerivationsAgree == d.kind \in Kinds => SecretDerivationsOK
DeriveReport == d.kind \in Kinds => PrintT(<<"DEVIATING", DeviatingJson>>)
\* the code (as transcribed) reports exactly what the property demands, on every real path
CodeMatchesProperty ==
  \A p \in PathsOf(d.kind) : IF KnownDeviation(p, d, call) THEN TRUE
                            ELSE Op(p, d, call) \ Unspecified(Iface(d), call) = Expected(Iface(d), call)
\* the file derivation used alone or inside a multi-file run is the same function
FilePathsAgree == d.kind = "workflow" => Op("file", d, call) = Op("file2", d, call)
\* Expected is well defined: names of one class are distinct spellings of distinct ids
ExpectedWellFormed ==
  LET e == Expected(Iface(d), call) IN
  /\ \A x \in e : x.class \in {"undefined-input", "missing-required-input", "undefined-secret",
                               "missing-required-secret", "undefined-output", "type-mismatch", "invalid-runner"}
  /\ \A x \in e : x.class = "missing-required-input" => x.name \notin {call.with[i].sp : i \in DOMAIN call.with}
  /\ call.inherit => \A x \in e : x.class \notin {"undefined-secret", "missing-required-secret"}
  /\ d.skipInputs => \A x \in e : x.class \notin {"undefined-input", "missing-required-input"}
  /\ d.skipOutputs => \A x \in e : x.class # "undefined-output"
  /\ e \cap Unspecified(Iface(d), call) = {}
\* every spelling of `uses:` that denotes the directory of the local action gives the same verdicts
UsesInsensitive ==
  d.kind = "action" =>
    \A f \in FormsFor(d.loc) : /\ Expected(Iface(d), [call EXCEPT !.uses = f]) = Expected(Iface(d), call)
                               /\ Op("local", d, [call EXCEPT !.uses = f]) = Op("local", d, call)
\* the way a local action is run does not change the verdicts of the interface checks
Reusing(dd, u) == [dd EXCEPT !.using = u]
UsingInsensitive ==
  d.kind = "action" =>
    \A u \in {"composite", "node20", "docker", "node16"} :
      LET nr(S) == {x \in S : x.class # "invalid-runner"} IN
      /\ nr(Expected(Iface(Reusing(d, u)), call)) = nr(Expected(Iface(d), call))
      /\ nr(Op("local", Reusing(d, u), call)) = nr(Op("local", d, call))
\* the scalar style of a literal value does not change the verdicts (judged on the unambiguous
\* classes: the unspecified diagnostics are left out)
Restyle(vk, st) == IF vk \in LitNames THEN st \o ":" \o LitOf(vk).cls ELSE vk
StyleInsensitive ==
  d.kind = "workflow" =>
    \A st \in LitStyles :
      LET c2 == [call EXCEPT !.valueTypes = [k \in DOMAIN call.valueTypes |-> Restyle(call.valueTypes[k], st)]] IN
      /\ Expected(Iface(d), c2) = Expected(Iface(d), call)
      /\ Unspecified(Iface(d), c2) = Unspecified(Iface(d), call)
      /\ Op("file", d, c2) \ Unspecified(Iface(d), call) = Op("file", d, call) \ Unspecified(Iface(d), call)
      /\ Op("ast", d, c2) \ Unspecified(Iface(d), call) = Op("ast", d, call) \ Unspecified(Iface(d), call)
\* a bundled interface seen through Iface/MetaOfIface is judged like the declaration it was generated from
TableViewAgrees ==
  d.kind = "popular" =>
    IF KnownDeviation("table", d, call) THEN TRUE
    ELSE OpOfIface([Iface(d) EXCEPT !.inputs = [i \in DOMAIN d.inputs |->
                       [n |-> d.inputs[i].n, required |-> ReqBundled(d.inputs[i]), hasDefault |-> FALSE, type |-> "none"]]], call)
         = Expected(Iface(d), call)
=============================================================================
