------------------------------ MODULE Emission ------------------------------
(* How one file's diagnostic list is produced (linter.go check(), pass.go, error.go ByErrorPosition):

     all = parser errors  \o  for rule in RuleOrder: rule.errs (in callback/emission order)
     output = StableSort(all) by (line, column)

   A rule emits at *sites*; a site iterates over a slice (source order), over sorted keys, or over
   a Go MAP (any order, different on every execution).  The job visiting order of the Visitor is
   itself such a source ("jobs").  The model enumerates every order of every map-sourced site
   and of the jobs and asks whether the output is unique.

   Theorem checked by TLC on all small files:  the output is the same for all orders
     IFF  no map-sourced site emits two different diagnostics at one position (Tied)
          and no map-sourced site *chooses* which candidate to report (Choosing).
   The witness shapes (smallest files on which orders differ when a site is not canonicalised)
   are dumped as `tc` and materialised by the harness for every concrete site of the catalogue. *)
EXTENDS Naturals, Sequences, FiniteSets, TLC, Json

CONSTANTS MaxSites,     \* number of emission sites in a file
          MaxItems,     \* items per site
          Positions     \* abstract positions (line numbers)


Sources == {"slice", "sorted", "map"}
Modes == {"all", "first"}      \* "first": the site reports only the first candidate it meets

(* A site: [rule, src, mode, items] where items is a sequence of [pos, msg] in *source order*.
   The emission order of a map site is any permutation; of a slice/sorted site the given order. *)
Perms(n) == {p \in [1 .. n -> 1 .. n] : \A i, j \in 1 .. n : i # j => p[i] # p[j]}
Permute(s, p) == [i \in DOMAIN s |-> s[p[i]]]

OrdersOf(site) == IF site.src = "map" THEN {Permute(site.items, p) : p \in Perms(Len(site.items))}
                  ELSE {site.items}
Emit(site, ord) == IF site.mode = "first" /\ ord # <<>> THEN <<ord[1]>> ELSE ord

\* all emission sequences of a file (sites are already listed in rule order / callback order)
RECURSIVE Emissions(_, _)
Emissions(sites, k) ==
  IF k > Len(sites) THEN {<<>>}
  ELSE {Emit(sites[k], o) \o rest : o \in OrdersOf(sites[k]), rest \in Emissions(sites, k + 1)}

\* stable insertion sort by position
RECURSIVE InsertSorted(_, _)
InsertSorted(sorted, d) ==
  IF sorted = <<>> THEN <<d>>
  ELSE IF sorted[Len(sorted)].pos <= d.pos THEN Append(sorted, d)
  ELSE Append(InsertSorted(SubSeq(sorted, 1, Len(sorted) - 1), d), sorted[Len(sorted)])
RECURSIVE StableSort(_, _)
StableSort(s, acc) == IF s = <<>> THEN acc ELSE StableSort(Tail(s), InsertSorted(acc, Head(s)))

Outputs(sites) == {StableSort(e, <<>>) : e \in Emissions(sites, 1)}
Deterministic(sites) == Cardinality(Outputs(sites)) = 1

Tied(site) == /\ site.src = "map" /\ site.mode = "all"
              /\ \E i, j \in DOMAIN site.items : i # j /\ site.items[i].pos = site.items[j].pos
                                                  /\ site.items[i].msg # site.items[j].msg
Choosing(site) == /\ site.src = "map" /\ site.mode = "first"
                  /\ \E i, j \in DOMAIN site.items : site.items[i] # site.items[j]
Unsafe(sites) == \E k \in DOMAIN sites : Tied(sites[k]) \/ Choosing(sites[k])

----------------------------------------------------------------------------
VARIABLES sites, tc
vars == <<sites, tc>>

Vector(s) == ToJson([sites |-> s, deterministic |-> Deterministic(s), unsafe |-> Unsafe(s)])

Init == sites = <<>> /\ tc = Vector(<<>>)
AddSite == /\ Len(sites) < MaxSites
           /\ \E src \in Sources, mode \in Modes :
                /\ sites' = Append(sites, [rule |-> Len(sites) + 1, src |-> src, mode |-> mode, items |-> <<>>])
AddItem == /\ sites # <<>> /\ Len(sites[Len(sites)].items) < MaxItems
           /\ \E p \in Positions, m \in 1 .. MaxItems :
                sites' = [sites EXCEPT ![Len(sites)].items = Append(@, [pos |-> p, msg |-> m])]
Next == (AddSite \/ AddItem) /\ tc' = Vector(sites')
Spec == Init /\ [][Next]_vars

\* the characterisation: canonicalising exactly the unsafe sites is necessary and sufficient
Characterisation == Deterministic(sites) <=> ~Unsafe(sites)
\* the sort is stable and sorted: ties keep emission (rule) order
SortedOut == \A o \in Outputs(sites) : \A i \in 1 .. (Len(o) - 1) : o[i].pos <= o[i + 1].pos
=============================================================================
