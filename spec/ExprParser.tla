----------------------------- MODULE ExprParser -----------------------------
(* Parser of the ${{ }} expression language of actionlint: expr_parser.go.

   A token string is a sequence of TOKEN CLASSES
     id  kw (null/true/false)  lit (int/float/string)  lp ( rp ) lb [ rb ] dot . not !
     cmp (< <= > >= == !=)  and &&  or ||  star *  comma ,
   (keywords are ordinary identifiers for the lexer: `true(` is a call, `a.true` a property).

   Declarative layer : D(ts, nt, i, j, pr) - the set of derivation trees of ts[i..j] from the
                       nonterminal nt of the documented, stratified grammar
                         Or   -> And | And '||' Or          And -> Cmp | Cmp '&&' And
                         Cmp  -> Pre | Pre cmp Cmp          Pre -> '!' Pre | Post
                         Post -> Prim | Post '.' name | Post '.' '*' | Post '[' Or ']'
                         Prim -> lit | kw | id | name '(' ')' | name '(' Args ')' | '(' Or ')'
                         Args -> Or | Or ',' Args           name = id | kw
                       written as a grammar (a union over productions and split points).  The set
                       has at most one element (the grammar is unambiguous - checked).
   Operational layer : Parse(ts) - the recursive-descent functions of expr_parser.go, one
                       RECURSIVE operator each, returning [ok, next, tree, errAt], with the
                       "parser did not reach end of input" rule of ExprParser.Parse.
   Trees: [k, at, a] - node kind, index of the token the node is anchored at, children.
     var kw lit (leaf, at = its token)   call (at = the name, a = arguments)
     prop (at = the property name)  deref (at = the star)  index (at = the '[', a = <<operand, index>>)
     not (at = the '!')   cmp and or (at = the operator, a = <<left, right>>)
   Parentheses leave no node.  The precedence claim of the property (`!` tighter than comparison
   tighter than && tighter than ||, right-nested as the code nests) is "the parser's tree IS the
   derivation tree of the stratified grammar". *)
EXTENDS Naturals, Sequences, FiniteSets, TLC, Json

CONSTANTS MaxLen,     \* bound on the length of generated token strings
          Alphabet,   \* token classes used by the generator
          EmitTc,     \* TRUE: carry the JSON vector of every string in `tc` (for -dump)
          PrintAcc    \* TRUE: print the vector of every ACCEPTED string (the sentence table)

Name == {"id", "kw"}
Node(k, at, a) == [k |-> k, at |-> at, a |-> a]
NoTree == Node("none", 0, <<>>)
Tok(ts, i) == IF i >= 1 /\ i <= Len(ts) THEN ts[i] ELSE "end"

----------------------------------------------------------------------------
(* Operational layer: expr_parser.go.  `next` = index of the current (look-ahead) token after the
   call, errAt = index of the token at which the (single) error is reported (Len+1 = END). *)
Ok(n, t) == [ok |-> TRUE, next |-> n, tree |-> t, errAt |-> 0]
Fail(i) == [ok |-> FALSE, next |-> i, tree |-> NoTree, errAt |-> i]

RECURSIVE POr(_, _), PAnd(_, _), PCmp(_, _), PPre(_, _), PPost(_, _), PPostLoop(_, _, _), PPrim(_, _),
          PArgs(_, _, _)

\* the LoopArgs loop of parseIdent; i = first token of the next argument
PArgs(ts, i, acc) ==
  LET r == POr(ts, i) IN
  IF ~r.ok THEN [ok |-> FALSE, next |-> r.next, args |-> <<>>, errAt |-> r.errAt]
  ELSE LET c == Tok(ts, r.next)
           acc2 == Append(acc, r.tree) IN
       IF c = "comma" THEN PArgs(ts, r.next + 1, acc2)
       ELSE IF c = "rp" THEN [ok |-> TRUE, next |-> r.next + 1, args |-> acc2, errAt |-> 0]
       ELSE [ok |-> FALSE, next |-> r.next, args |-> <<>>, errAt |-> r.next]

\* parsePrimaryExpr with parseIdent, parseNestedExpr, parseInt/Float/String inlined
PPrim(ts, i) ==
  LET c == Tok(ts, i) IN
  IF c \in Name THEN
       IF Tok(ts, i + 1) = "lp" THEN
            IF Tok(ts, i + 2) = "rp" THEN Ok(i + 3, Node("call", i, <<>>))
            ELSE LET r == PArgs(ts, i + 2, <<>>) IN
                 IF r.ok THEN Ok(r.next, Node("call", i, r.args)) ELSE Fail(r.errAt)
       ELSE Ok(i + 1, Node(IF c = "kw" THEN "kw" ELSE "var", i, <<>>))
  ELSE IF c = "lp" THEN
       LET r == POr(ts, i + 1) IN
       IF ~r.ok THEN r
       ELSE IF Tok(ts, r.next) = "rp" THEN Ok(r.next + 1, r.tree) ELSE Fail(r.next)
  ELSE IF c = "lit" THEN Ok(i + 1, Node("lit", i, <<>>))
  ELSE Fail(i)

\* the for loop of parsePostfixOp; t = the operand so far, i = current token
PPostLoop(ts, i, t) ==
  LET c == Tok(ts, i) IN
  IF c = "dot" THEN
       LET c2 == Tok(ts, i + 1) IN
       IF c2 = "star" THEN PPostLoop(ts, i + 2, Node("deref", i + 1, <<t>>))
       ELSE IF c2 \in Name THEN PPostLoop(ts, i + 2, Node("prop", i + 1, <<t>>))
       ELSE Fail(i + 1)
  ELSE IF c = "lb" THEN
       LET r == POr(ts, i + 1) IN
       IF ~r.ok THEN r
       ELSE IF Tok(ts, r.next) = "rb" THEN PPostLoop(ts, r.next + 1, Node("index", i, <<t, r.tree>>))
       ELSE Fail(r.next)
  ELSE Ok(i, t)

PPost(ts, i) == LET r == PPrim(ts, i) IN IF ~r.ok THEN r ELSE PPostLoop(ts, r.next, r.tree)

PPre(ts, i) ==
  IF Tok(ts, i) # "not" THEN PPost(ts, i)
  ELSE LET r == PPre(ts, i + 1) IN IF ~r.ok THEN r ELSE Ok(r.next, Node("not", i, <<r.tree>>))

PCmp(ts, i) ==
  LET l == PPre(ts, i) IN
  IF ~l.ok THEN l
  ELSE IF Tok(ts, l.next) # "cmp" THEN l
  ELSE LET r == PCmp(ts, l.next + 1) IN
       IF ~r.ok THEN r ELSE Ok(r.next, Node("cmp", l.next, <<l.tree, r.tree>>))

PAnd(ts, i) ==
  LET l == PCmp(ts, i) IN
  IF ~l.ok THEN l
  ELSE IF Tok(ts, l.next) # "and" THEN l
  ELSE LET r == PAnd(ts, l.next + 1) IN
       IF ~r.ok THEN r ELSE Ok(r.next, Node("and", l.next, <<l.tree, r.tree>>))

POr(ts, i) ==
  LET l == PAnd(ts, i) IN
  IF ~l.ok THEN l
  ELSE IF Tok(ts, l.next) # "or" THEN l
  ELSE LET r == POr(ts, l.next + 1) IN
       IF ~r.ok THEN r ELSE Ok(r.next, Node("or", l.next, <<l.tree, r.tree>>))

\* ExprParser.Parse: the whole input must be consumed
Parse(ts) ==
  LET r == POr(ts, 1) IN
  IF ~r.ok THEN [ok |-> FALSE, tree |-> NoTree, errAt |-> r.errAt]
  ELSE IF r.next <= Len(ts) THEN [ok |-> FALSE, tree |-> NoTree, errAt |-> r.next]
  ELSE [ok |-> TRUE, tree |-> r.tree, errAt |-> 0]

----------------------------------------------------------------------------
(* Declarative layer: the grammar.  D(ts, nt, i, j, pr) = derivation trees of ts[i..j] from nt.
   pr = TRUE additionally uses the lemma "every derivable span is bracket-balanced" to discard
   split points early (needed for the long inputs of ExprTrace); PruneSound states that this does
   not change the set.  The right operand of a split is only looked at when the left one derives. *)
RECURSIVE BalScan(_, _, _, _)
BalScan(ts, i, j, stk) ==
  IF i > j THEN stk = <<>>
  ELSE LET c == ts[i] IN
       IF c \in {"lp", "lb"} THEN BalScan(ts, i + 1, j, <<c>> \o stk)
       ELSE IF c = "rp" THEN stk # <<>> /\ stk[1] = "lp" /\ BalScan(ts, i + 1, j, Tail(stk))
       ELSE IF c = "rb" THEN stk # <<>> /\ stk[1] = "lb" /\ BalScan(ts, i + 1, j, Tail(stk))
       ELSE BalScan(ts, i + 1, j, stk)
Balanced(ts, i, j) == BalScan(ts, i, j, <<>>)
Guard(ts, i, j, pr) == IF pr THEN Balanced(ts, i, j) ELSE TRUE

RECURSIVE D(_, _, _, _, _), DArgs(_, _, _, _)

\* nt -> sub op nt   (right recursive binary level): all split points k carrying the operator
BinLevel(ts, nt, sub, op, i, j, pr) ==
  D(ts, sub, i, j, pr) \cup
  UNION { LET ls == D(ts, sub, i, k - 1, pr) IN
          IF ls = {} THEN {}
          ELSE {Node(op, k, <<l, r>>) : l \in ls, r \in D(ts, nt, k + 1, j, pr)}
          : k \in {k2 \in (i + 1) .. (j - 1) : ts[k2] = op /\ Guard(ts, i, k2 - 1, pr)} }

D(ts, nt, i, j, pr) ==
  IF i > j THEN {}
  ELSE
  CASE nt = "Or" -> BinLevel(ts, "Or", "And", "or", i, j, pr)
    [] nt = "And" -> BinLevel(ts, "And", "Cmp", "and", i, j, pr)
    [] nt = "Cmp" -> BinLevel(ts, "Cmp", "Pre", "cmp", i, j, pr)
    [] nt = "Pre" ->
         (IF ts[i] = "not" THEN {Node("not", i, <<t>>) : t \in D(ts, "Pre", i + 1, j, pr)} ELSE {})
         \cup D(ts, "Post", i, j, pr)
    [] nt = "Post" ->
         D(ts, "Prim", i, j, pr)
         \cup (IF j - i >= 2 /\ ts[j - 1] = "dot" /\ ts[j] \in Name
                 THEN {Node("prop", j, <<t>>) : t \in D(ts, "Post", i, j - 2, pr)} ELSE {})
         \cup (IF j - i >= 2 /\ ts[j - 1] = "dot" /\ ts[j] = "star"
                 THEN {Node("deref", j, <<t>>) : t \in D(ts, "Post", i, j - 2, pr)} ELSE {})
         \cup (IF ts[j] # "rb" THEN {}
               ELSE UNION { LET os == D(ts, "Post", i, k - 1, pr) IN
                            IF os = {} THEN {}
                            ELSE {Node("index", k, <<o, x>>) : o \in os, x \in D(ts, "Or", k + 1, j - 1, pr)}
                            : k \in {k2 \in (i + 1) .. (j - 2) : ts[k2] = "lb" /\ Guard(ts, k2 + 1, j - 1, pr)} })
    [] nt = "Prim" ->
         (IF i = j /\ ts[i] = "lit" THEN {Node("lit", i, <<>>)} ELSE {})
         \cup (IF i = j /\ ts[i] = "kw" THEN {Node("kw", i, <<>>)} ELSE {})
         \cup (IF i = j /\ ts[i] = "id" THEN {Node("var", i, <<>>)} ELSE {})
         \cup (IF j >= i + 2 /\ ts[i] \in Name /\ ts[i + 1] = "lp" /\ ts[j] = "rp"
                 THEN IF j = i + 2 THEN {Node("call", i, <<>>)}
                      ELSE {Node("call", i, al) : al \in DArgs(ts, i + 2, j - 1, pr)}
                 ELSE {})
         \cup (IF j >= i + 2 /\ ts[i] = "lp" /\ ts[j] = "rp" /\ Guard(ts, i + 1, j - 1, pr)
                 THEN D(ts, "Or", i + 1, j - 1, pr) ELSE {})

\* Args -> Or | Or ',' Args : the set of argument lists (sequences of trees) of ts[i..j]
DArgs(ts, i, j, pr) ==
  IF i > j THEN {}
  ELSE {<<t>> : t \in D(ts, "Or", i, j, pr)} \cup
       UNION { LET ls == D(ts, "Or", i, k - 1, pr) IN
               IF ls = {} THEN {}
               ELSE {<<l>> \o rest : l \in ls, rest \in DArgs(ts, k + 1, j, pr)}
               : k \in {k2 \in (i + 1) .. (j - 1) : ts[k2] = "comma" /\ Guard(ts, i, k2 - 1, pr)} }

Sentences(ts, pr) == D(ts, "Or", 1, Len(ts), pr)

----------------------------------------------------------------------------
(* Generator: all token strings over Alphabet up to MaxLen. *)
VARIABLES ts, tc
vars == <<ts, tc>>

Vector(t) == LET p == Parse(t) IN ToJson([ts |-> t, ok |-> p.ok, tree |-> p.tree, errAt |-> p.errAt])

Init == ts = <<>> /\ tc = IF EmitTc THEN Vector(<<>>) ELSE ""
Next == /\ Len(ts) < MaxLen
        /\ \E c \in Alphabet : ts' = Append(ts, c)
        /\ tc' = IF EmitTc THEN Vector(ts') ELSE ""
Spec == Init /\ [][Next]_vars

res == Parse(ts)
der == Sentences(ts, FALSE)

\* accepted exactly the sentences of the grammar
AcceptIffDerivable == res.ok <=> (der # {})
\* the tree built by the parser is THE derivation tree (precedence, nesting, anchoring)
TreeIsDerivation == res.ok => der = {res.tree}
\* the grammar is unambiguous
Unambiguous == Cardinality(der) <= 1
\* on rejection exactly one error, at a token of the text or at its end
OneErrorInside == ~res.ok => (res.errAt \in 1 .. (Len(ts) + 1) /\ res.tree = NoTree)
\* every node is anchored at a token of the right class, children in text order
KindAt == [var |-> {"id"}, kw |-> {"kw"}, lit |-> {"lit"}, call |-> Name, prop |-> Name, deref |-> {"star"},
           index |-> {"lb"}, not |-> {"not"}, cmp |-> {"cmp"}, and |-> {"and"}, or |-> {"or"}]
RECURSIVE Anchored(_, _)
Anchored(t, n) == /\ n.k \in DOMAIN KindAt
                  /\ n.at \in 1 .. Len(t)
                  /\ t[n.at] \in KindAt[n.k]
                  /\ \A c \in DOMAIN n.a : Anchored(t, n.a[c])
AnchoredTree == res.ok => Anchored(ts, res.tree)
\* the bracket-balance pruning used for long inputs does not change the set of derivations
PruneSound == Sentences(ts, TRUE) = der
\* the five statements above in one invariant that evaluates Parse and the derivations once per state
\* (used by the big configurations; the small one checks them one by one, so that a failure is named)
AllOf(p, d, dp) ==
  /\ p.ok <=> (d # {})
  /\ p.ok => d = {p.tree}
  /\ Cardinality(d) <= 1
  /\ ~p.ok => (p.errAt \in 1 .. (Len(ts) + 1) /\ p.tree = NoTree)
  /\ p.ok => Anchored(ts, p.tree)
  /\ dp = d
ParserInvariants == AllOf(Parse(ts), Sentences(ts, FALSE), Sentences(ts, TRUE))
\* the sentence table for the conformance harness (printed once per accepted string)
Accepted == (PrintAcc /\ res.ok) => PrintT(<<"ACC", ToJson([ts |-> ts, tree |-> res.tree])>>)
=============================================================================
