------------------------------- MODULE Filter -------------------------------
(* Ignore patterns and per-path `ignore` configuration of actionlint: linter.go (check, filterErrors,
   LintFile, LintFiles, LintRepository), config.go (PathConfigs), project.go (Projects.At, Knows),
   command.go (exit status).

   File-system model (DESIGN A.9): a path is a sequence of segments below the scratch base directory.
     top/repo     repository (.git - a directory or, for a linked worktree, a regular file -, .github/workflows/a.yml, .github/workflows/sub/b.yml), config = the
                  configuration of the run (or none)
     top/repo-b   sibling repository whose name has the prefix "repo" (a.yml), constant config CfgB
     top/other    unrelated directory: x.yml (outside every repository), the -config-file target
     top/link     symbolic link -> top/repo (an alias of the repository root); alt = symbolic link -> top (an
                  alias of a parent of it); top/repo/.github/workflows/l.yml = symbolic link -> a.yml.
                  A *named* path may go through the aliases, Canon gives the real directories.  The aliases
                  are siblings of their targets, so lexical and physical ".." agree.  The file a run names is
                  Canon of its named path (the last component, e.g. l.yml, is a name of its own).
   Ordinary workflow files have the same N diagnostics, message ids 1..N in unfiltered output order;
   y.yml is not YAML (its only diagnostic, id N+1, is the syntax error: nothing is visited), p.yml has
   diagnostics of the workflow parser only (ids N+2, N+3).
   A pattern is a record [f, s, k].  f = "set": matches exactly the message ids in s (the harness renders
   it as an alternation of regexp.QuoteMeta(fragment), DESIGN 5.22).  The other forms concern message k:
     "icase"     (?i)FRAGMENT-IN-WRONG-CASE      matches {k}        "start"  ^FRAGMENT      matches {k}
     "wrongcase" FRAGMENT-IN-WRONG-CASE          matches nothing    "end"    TAIL$          matches {k}
                                                                    "full"   ^MESSAGE$      matches {k}
     "empty"     the empty regular expression    matches everything (k unused)
   Whether a pattern matches a message never depends on the other patterns of the list or their order.

   Declarative layer : Attribute / RootRel / Applicable / DeclOut / DeclExits - what C15 demands:
                       a `paths` glob is matched against the path relative to the root of the
                       repository that contains the file, whatever the cwd and the spelling are.
   Operational layer : OpAttr / OpCfgPath / OpOut - what the code does: project looked up in the cache
                       of known projects (segment-wise containment), glob matched against the path
                       relative to that project's root (pathFromProjectRoot).
   Disabled deviations: DevCwdOut (glob matched against the displayed, cwd-relative path) and DevPreOut
                       (string-prefix project lookup) - the behaviour before the two fixes.
   `tc` = run vector + predicted surviving diagnostics per linted file + set of accepted exit statuses
   (declarative) + the operational prediction + what the two disabled deviations would print. *)
EXTENDS Naturals, Sequences, FiniteSets, TLC, Json

CONSTANTS N,          \* number of diagnostics per ordinary workflow file
          CliPats,    \* "set" patterns usable on the command line (sets of message ids)
          CliForms, CfgForms, FormIds,   \* other pattern forms to try on the command line / in a paths entry, for which ids
          MaxCli,     \* max number of -ignore flags
          CfgPats,    \* patterns usable in a `paths` entry
          GlobNames,  \* names of glob forms (keys of Globs) to try
          MaxEntries, \* max number of `paths` entries
          CwdKinds, Spellings, ArgNames, CfgSrcs, CfgFaults, FlagFaults,
          GitKinds,       \* what .git of top/repo is: "dir", or "file" (linked worktree / submodule: "gitdir: ...")
          Vias, CwdVias   \* through which alias the files / the cwd are named: "real", "link", "plink"

Range(f) == {f[x] : x \in DOMAIN f}
Ids == 1 .. N
AllIds == [i \in Ids |-> i]
P(ids) == [f |-> "set", s |-> ids, k |-> 0]
Form(fm, id) == [f |-> fm, s |-> {}, k |-> IF fm = "empty" THEN 0 ELSE id]
\* the abstract relation "pattern p matches message d"
Matches(p, d) == CASE p.f = "set" -> d \in p.s
                   [] p.f = "wrongcase" -> FALSE
                   [] p.f = "empty" -> TRUE       \* the empty regular expression matches every message
                   [] OTHER -> d = p.k          \* icase, start, end, full

----------------------------------------------------------------------------
(* File system *)
Top == <<"top">>
RepoA == <<"top", "repo">>
RepoB == <<"top", "repo-b">>
Other == <<"top", "other">>
Repos == {RepoA, RepoB}
NoRepo == <<>>
WF == <<".github", "workflows">>
FA == RepoA \o WF \o <<"a.yml">>
FS == RepoA \o WF \o <<"sub", "b.yml">>
FB == RepoB \o WF \o <<"a.yml">>
FO == Other \o <<"x.yml">>
FY == RepoA \o WF \o <<"y.yml">>              \* not YAML
FP == RepoA \o WF \o <<"p.yml">>              \* parser diagnostics only
FL == RepoA \o WF \o <<"l.yml">>              \* symbolic link -> a.yml
FM == RepoA \o WF \o <<"missing.yml">>        \* does not exist
FD == RepoA \o WF \o <<"sub">>                \* a directory
Readable == {FA, FS, FB, FO, FY, FP, FL}
YmlNames == {"a.yml", "b.yml", "x.yml", "missing.yml", "y.yml", "p.yml", "l.yml"}
\* the unfiltered diagnostics of a file
MsgsOf(f) == IF f = FY THEN <<N + 1>> ELSE IF f = FP THEN <<N + 2, N + 3>> ELSE AllIds
\* the workflow files of a repository in the order LintDir visits them (sorted)
WorkflowFiles(r) == IF r = RepoA THEN <<FA, FL, FP, FS, FY>> ELSE IF r = RepoB THEN <<FB>> ELSE <<>>
\* directory names d1, d2 with d1 a proper string prefix of d2 (TLC has no string prefix test)
NamePrefix == {<<"repo", "repo-b">>}

CwdOf == [root |-> RepoA, parent |-> Top, nested |-> RepoA \o <<".github">>, unrelated |-> Other,
          workflows |-> RepoA \o WF, rootb |-> RepoB]
ArgLists == [a |-> <<FA>>, s |-> <<FS>>, b |-> <<FB>>, o |-> <<FO>>, as |-> <<FA, FS>>, ab |-> <<FA, FB>>,
             ba |-> <<FB, FA>>, sa |-> <<FS, FA>>, none |-> <<>>, m |-> <<FM>>, am |-> <<FA, FM>>, d |-> <<FD>>,
             ao |-> <<FA, FO>>, y |-> <<FY>>, p |-> <<FP>>, ay |-> <<FA, FY>>, ya |-> <<FY, FA>>,
             l |-> <<FL>>, al |-> <<FA, FL>>]

IsPrefix(p, q) == Len(p) <= Len(q) /\ SubSeq(q, 1, Len(p)) = p
\* directory aliases (symbolic links)
LinkA == <<"top", "link">>        \* -> RepoA
AltTop == <<"alt">>               \* -> Top
RECURSIVE Canon(_)
Canon(p) == IF IsPrefix(LinkA, p) THEN Canon(RepoA \o SubSeq(p, Len(LinkA) + 1, Len(p)))
            ELSE IF IsPrefix(AltTop, p) THEN Canon(Top \o SubSeq(p, Len(AltTop) + 1, Len(p)))
            ELSE p
\* the name of the real path p through an alias (unchanged when the alias does not lead to p)
NameVia(p, via) ==
  CASE via = "link" /\ IsPrefix(RepoA, p) -> LinkA \o SubSeq(p, Len(RepoA) + 1, Len(p))
    [] via = "plink" /\ IsPrefix(Top, p) -> AltTop \o SubSeq(p, Len(Top) + 1, Len(p))
    [] OTHER -> p
RECURSIVE Common(_, _)
Common(p, q) == IF p = <<>> \/ q = <<>> THEN 0
                ELSE IF Head(p) = Head(q) THEN 1 + Common(Tail(p), Tail(q)) ELSE 0
Ups(n) == [i \in 1 .. n |-> ".."]
\* filepath.Rel(cwd, file) for two absolute paths
Rel(cwd, f) == LET c == Common(cwd, f) IN Ups(Len(cwd) - c) \o SubSeq(f, c + 1, Len(f))
\* the command line argument naming file f from cwd
Spell(cwd, f, sp) == CASE sp = "abs" -> [abs |-> TRUE, segs |-> f]
                       [] sp = "rel" -> [abs |-> FALSE, segs |-> Rel(cwd, f)]
                       [] sp = "dot" -> [abs |-> FALSE, segs |-> <<".">> \o Rel(cwd, f)]
RECURSIVE Walk(_, _)
Walk(acc, segs) == IF segs = <<>> THEN acc
                   ELSE LET h == Head(segs) IN
                        Walk(IF h = "." THEN acc
                             ELSE IF h = ".." THEN (IF acc = <<>> THEN acc ELSE SubSeq(acc, 1, Len(acc) - 1))
                             ELSE Append(acc, h), Tail(segs))
\* the file an argument names
Resolve(cwd, arg) == Walk(IF arg.abs THEN <<>> ELSE cwd, arg.segs)

----------------------------------------------------------------------------
(* Globs: sequences of segment patterns (forms whose meaning is the same in doublestar) *)
L(v) == [k |-> "lit", v |-> v]
ExtSeg == [k |-> "ext", v |-> ".yml"]      \* *.yml
AnySeg == [k |-> "any", v |-> ""]          \* *
PreSeg == [k |-> "pre", v |-> "a."]        \* a.*
Deep == [k |-> "deep", v |-> ""]        \* **
Globs == [exact      |-> <<L(".github"), L("workflows"), L("a.yml")>>,
          subexact   |-> <<L(".github"), L("workflows"), L("sub"), L("b.yml")>>,
          deepname   |-> <<Deep, L("a.yml")>>,
          dirdeep    |-> <<L(".github"), Deep>>,
          starext    |-> <<L(".github"), L("workflows"), ExtSeg>>,
          deepext    |-> <<Deep, ExtSeg>>,
          anydir     |-> <<AnySeg, L("workflows"), ExtSeg>>,
          nomatch    |-> <<L(".github"), L("workflows"), L("zzz.yml")>>,
          lexact     |-> <<L(".github"), L("workflows"), L("l.yml")>>,
          parentform |-> <<L("repo"), L(".github"), L("workflows"), L("a.yml")>>,
          nestedform |-> <<L("workflows"), L("a.yml")>>,
          bareform   |-> <<L("a.yml")>>,      \* globs without "/" match only a root-relative path without "/"
          bareext    |-> <<ExtSeg>>,
          bareany    |-> <<AnySeg>>,
          barepre    |-> <<PreSeg>>,
          dotform    |-> <<L("."), L(".github"), L("workflows"), L("a.yml")>>]
GlobOrder == <<"exact", "subexact", "deepname", "dirdeep", "starext", "deepext", "anydir", "nomatch",
               "parentform", "nestedform", "bareform", "dotform", "lexact", "bareext", "bareany", "barepre">>
GlobIdx(g) == CHOOSE i \in DOMAIN GlobOrder : GlobOrder[i] = g
SegText(h) == CASE h.k = "lit" -> h.v [] h.k = "ext" -> "*" \o h.v [] h.k = "any" -> "*" [] h.k = "deep" -> "**" [] h.k = "pre" -> h.v \o "*"
RECURSIVE GlobText(_)
GlobText(g) == IF Len(g) = 1 THEN SegText(g[1]) ELSE SegText(g[1]) \o "/" \o GlobText(Tail(g))

SegMatch(h, s) == CASE h.k = "lit" -> s = h.v
                    [] h.k = "ext" -> s \in YmlNames
                    [] h.k = "any" -> TRUE
                    [] h.k = "pre" -> s = "a.yml"
                    [] h.k = "deep" -> FALSE
RECURSIVE GMatch(_, _)
GMatch(g, p) ==
  IF g = <<>> THEN p = <<>>
  ELSE IF Head(g).k = "deep"
         THEN IF GMatch(Tail(g), p) THEN TRUE ELSE IF p = <<>> THEN FALSE ELSE GMatch(g, Tail(p))
  ELSE IF p = <<>> THEN FALSE
  ELSE IF SegMatch(Head(g), Head(p)) THEN GMatch(Tail(g), Tail(p)) ELSE FALSE

----------------------------------------------------------------------------
(* Configurations: [k |-> "none" | "paths" | "badyaml" | "badregex" | "badglob", src |-> "repo" | "flag",
                    entries |-> sequence of [glob |-> name, pats |-> sequence of patterns]] *)
NoCfg == [k |-> "none", src |-> "repo", entries |-> <<>>]
CfgB == [k |-> "paths", src |-> "repo", entries |-> <<[glob |-> "exact", pats |-> <<P({N})>>]>>]
CfgBroken(c) == c.k \in {"badyaml", "badregex", "badglob"}

(* A run: [cwdk, sp, argn, via, cvia, cli (sequence of patterns), cfg, ff (flag fault)] *)
Cwd(run) == CwdOf[run.cwdk]                       \* the real directory
NCwd(run) == NameVia(Cwd(run), run.cvia)          \* as the shell names it ($PWD)
Args(run) == [i \in DOMAIN ArgLists[run.argn] |->
                Spell(NCwd(run), NameVia(ArgLists[run.argn][i], run.via), run.sp)]
RepoMode(run) == ArgLists[run.argn] = <<>>

----------------------------------------------------------------------------
(* Declarative layer *)
Attribute(p) == LET cands == {r \in Repos : IsPrefix(r, p)} IN
                IF cands = {} THEN NoRepo ELSE CHOOSE r \in cands : \A q \in cands : Len(q) <= Len(r)
RootRel(p) == SubSeq(p, Len(Attribute(p)) + 1, Len(p))
RepoCfg(run, r) == IF r = RepoA THEN (IF run.cfg.src = "repo" THEN run.cfg ELSE NoCfg)
                   ELSE IF r = RepoB THEN CfgB ELSE NoCfg
CfgFor(run, r) == IF run.cfg.src = "flag" THEN run.cfg ELSE RepoCfg(run, r)
\* the files named by the run, in the order they are linted
Named(run) == IF RepoMode(run) THEN WorkflowFiles(Attribute(Cwd(run)))
              ELSE [i \in DOMAIN Args(run) |-> Canon(Resolve(NCwd(run), Args(run)[i]))]
EntryPats(c, rel) == UNION {Range(c.entries[i].pats) :
                              i \in {j \in DOMAIN c.entries : GMatch(Globs[c.entries[j].glob], rel)}}
Applicable(run, f) == Range(run.cli) \cup EntryPats(CfgFor(run, Attribute(f)), RootRel(f))
FilterBy(ds, pats) == SelectSeq(ds, LAMBDA d : ~\E p \in pats : Matches(p, d))
DeclOut(run, f) == FilterBy(MsgsOf(f), Applicable(run, f))

Fatal(run) ==
  \/ run.cfg.src = "flag" /\ CfgBroken(run.cfg)
  \/ RepoMode(run) /\ Attribute(Cwd(run)) = NoRepo
  \/ \E i \in DOMAIN Named(run) : \/ Named(run)[i] \notin Readable
                                  \/ CfgBroken(RepoCfg(run, Attribute(Named(run)[i])))
  \/ RepoMode(run) /\ CfgBroken(RepoCfg(run, Attribute(Cwd(run))))
Remaining(run) == LET fs == Named(run) IN \E i \in DOMAIN fs : DeclOut(run, fs[i]) # <<>>
\* accepted exit statuses (an invalid regular expression given to -ignore: the property does not say
\* whether that is an "invalid flag" or a "fatal error")
DeclExits(run) == CASE run.ff \in {"unknown", "badbool"} -> {2}
                    [] run.ff = "badregex" -> {2, 3}
                    [] OTHER -> IF Fatal(run) THEN {3} ELSE IF Remaining(run) THEN {1} ELSE {0}

----------------------------------------------------------------------------
(* Operational layer: the code *)
\* Project.Knows.  The code compares with a trailing separator (segment-wise containment); before the
\* fix "Project.Knows no longer claims files of sibling directories" it was strings.HasPrefix(abs, root),
\* kept here (strpre = TRUE) to name that deviation if it comes back.
StrPrefixPath(r, p) ==
  IF IsPrefix(r, p) THEN TRUE
  ELSE /\ Len(p) >= Len(r) /\ Len(r) > 0
       /\ SubSeq(p, 1, Len(r) - 1) = SubSeq(r, 1, Len(r) - 1)
       /\ <<r[Len(r)], p[Len(r)]>> \in NamePrefix
Knows(r, p, strpre) == IF strpre THEN StrPrefixPath(r, p) ELSE IsPrefix(r, p)
\* Projects.At over the arguments in order; known = sequence of cached roots. Result: sequence of roots
\* findProject: walks up the absolute path as named (os.Stat follows the links): the nearest ancestor
\* that is a repository root, under the name it has in that path
LexRoot(p) == LET ks == {k \in 0 .. Len(p) : Canon(SubSeq(p, 1, k)) \in Repos} IN
              IF ks = {} THEN NoRepo ELSE SubSeq(p, 1, CHOOSE k \in ks : \A k2 \in ks : k2 <= k)
\* the files of the run under the names the code sees (absolute, lexically cleaned)
NamedP(run) == IF RepoMode(run)
                 THEN [i \in DOMAIN Named(run) |-> LexRoot(NCwd(run)) \o RootRel(Named(run)[i])]
                 ELSE [i \in DOMAIN Args(run) |-> Resolve(NCwd(run), Args(run)[i])]
RECURSIVE OpAttrSeq(_, _, _, _)
OpAttrSeq(fs, i, known, strpre) ==
  IF i > Len(fs) THEN <<>>
  ELSE LET hit == {j \in DOMAIN known : Knows(known[j], fs[i], strpre)} IN
       IF hit # {} THEN <<known[CHOOSE j \in hit : \A j2 \in hit : j <= j2]>> \o OpAttrSeq(fs, i + 1, known, strpre)
       ELSE LET r == LexRoot(fs[i]) IN
            <<r>> \o OpAttrSeq(fs, i + 1, IF r = NoRepo THEN known ELSE Append(known, r), strpre)
\* the (named) project roots the files are attributed to
OpAttrP(run, strpre) == IF RepoMode(run) THEN [i \in DOMAIN Named(run) |-> LexRoot(NCwd(run))]
                        ELSE OpAttrSeq(NamedP(run), 1, <<>>, strpre)
OpAttr(run) == OpAttrP(run, FALSE)
\* the path that is printed: Rel(cwd, path) when that works, else the argument as spelled
OpDisplay(run, i) == IF RepoMode(run) THEN Rel(NCwd(run), NamedP(run)[i])
                     ELSE IF Args(run)[i].abs THEN Rel(NCwd(run), NamedP(run)[i]) ELSE Args(run)[i].segs
\* pathFromProjectRoot: the path handed to PathConfigs = the file relative to the root of the project it
\* was attributed to; the displayed path when there is no project or the file is outside of it
OpCfgPath(run, i, root) ==
  LET f == NamedP(run)[i] IN
  IF root # NoRepo /\ IsPrefix(root, f) THEN SubSeq(f, Len(root) + 1, Len(f)) ELSE OpDisplay(run, i)
OpOutWith(run, i, root, cpath) ==
  FilterBy(MsgsOf(Named(run)[i]), Range(run.cli) \cup EntryPats(CfgFor(run, Canon(root)), cpath))
OpOut(run, i) == OpOutWith(run, i, OpAttr(run)[i], OpCfgPath(run, i, OpAttr(run)[i]))
OpRemaining(run) == \E i \in DOMAIN Named(run) : OpOut(run, i) # <<>>
OpExits(run) == CASE run.ff \in {"unknown", "badbool"} -> {2}
                  [] run.ff = "badregex" -> {3}
                  [] OTHER -> IF Fatal(run) THEN {3} ELSE IF OpRemaining(run) THEN {1} ELSE {0}

(* Named deviations - NOT the code (disabled).  They are kept (a) as a vacuity guard: TLC must find a run
   where each of them differs from the property (Filter_dev.cfg / _dev2 / _dev3), and (b) so that the
   check can name the site precisely if the real code ever falls back to one of them.
   DevCwd : before "fix: `paths` globs of the config are matched against the path relative to the project
            root" the glob was matched against the displayed path (cwd-relative, or as spelled).
   DevPre : before "fix: Project.Knows no longer claims files of sibling directories sharing a name
            prefix" the project cache was searched with strings.HasPrefix.
   DevLnk : the project root is the physical directory (symbolic links resolved) while the file keeps the
            name it was given: reached through an alias, the file looks outside of its project. *)
DevCwdOut(run, i) == OpOutWith(run, i, OpAttr(run)[i], OpDisplay(run, i))
DevPreOut(run, i) == LET root == OpAttrP(run, TRUE)[i] IN OpOutWith(run, i, root, OpCfgPath(run, i, root))
DevLnkOut(run, i) == LET root == Canon(OpAttr(run)[i]) IN OpOutWith(run, i, root, OpCfgPath(run, i, root))
\* which form of the DevCwd deviation the i-th file would show
Tags(run, i) ==
  LET f == Named(run)[i] IN
  IF DevCwdOut(run, i) # DeclOut(run, f)
    THEN {IF Cwd(run) = Attribute(f) THEN "paths-spelling" ELSE "paths-cwd"} ELSE {}

----------------------------------------------------------------------------
(* Generator: one dimension per step *)
VARIABLES run, stage, tc
vars == <<run, stage, tc>>

FileName(f) == CASE f = FA -> "a" [] f = FS -> "s" [] f = FB -> "b" [] f = FO -> "o" [] f = FM -> "m" [] f = FD -> "d"
                  [] f = FY -> "y" [] f = FP -> "p" [] f = FL -> "l"
CfgJson(c) == [k |-> c.k, src |-> c.src,
               entries |-> [i \in DOMAIN c.entries |->
                              [glob |-> c.entries[i].glob, text |-> GlobText(Globs[c.entries[i].glob]),
                               pats |-> c.entries[i].pats]]]
Vector(r, st) ==
  IF st # "done" THEN ToJson([final |-> FALSE]) ELSE
  LET fs == Named(r)
      lint == r.ff = "none" /\ ~Fatal(r) IN
  ToJson([final |-> st = "done", cwdk |-> r.cwdk, cwd |-> NCwd(r), via |-> r.via, cvia |-> r.cvia, git |-> r.git, sp |-> r.sp, argn |-> r.argn,
          args |-> Args(r), cli |-> r.cli, cfg |-> CfgJson(r.cfg), cfgb |-> CfgJson(CfgB), ff |-> r.ff,
          lint |-> lint, exits |-> DeclExits(r), opexits |-> OpExits(r),
          files |-> IF lint THEN [i \in DOMAIN fs |->
                       [name |-> FileName(fs[i]), path |-> fs[i], all |-> MsgsOf(fs[i]), exp |-> DeclOut(r, fs[i]), op |-> OpOut(r, i),
                        devcwd |-> DevCwdOut(r, i), devpre |-> DevPreOut(r, i), devlnk |-> DevLnkOut(r, i),
                        npath |-> NamedP(r)[i],
                        tags |-> Tags(r, i), rootrel |-> RootRel(fs[i]), display |-> OpDisplay(r, i)]]
                    ELSE <<>>])

R0 == [cwdk |-> "root", sp |-> "rel", argn |-> "a", via |-> "real", cvia |-> "real", git |-> "dir", cli |-> <<>>, cfg |-> NoCfg, ff |-> "none"]
Init == run = R0 /\ stage = "args" /\ tc = Vector(R0, "args")

SetArgs == /\ stage = "args"
           /\ \E a \in ArgNames : run' = [run EXCEPT !.argn = a]
           /\ stage' = "cwd"
SetCwd == /\ stage = "cwd"
          /\ \E c \in CwdKinds : run' = [run EXCEPT !.cwdk = c]
          /\ stage' = "sp"
SetSp == /\ stage = "sp"
         /\ \E s \in Spellings : (RepoMode(run) => s = "rel") /\ run' = [run EXCEPT !.sp = s]
         /\ stage' = "via"
\* through which alias the files and the cwd are named (only aliases that lead there)
SetVia == /\ stage = "via"
          /\ \E v \in Vias, c \in CwdVias, g \in GitKinds :
               /\ RepoMode(run) => v = "real"
               /\ v # "real" => \E i \in DOMAIN ArgLists[run.argn] : NameVia(ArgLists[run.argn][i], v) # ArgLists[run.argn][i]
               /\ c # "real" => NameVia(Cwd(run), c) # Cwd(run)
               /\ run' = [run EXCEPT !.via = v, !.cvia = c, !.git = g]
          /\ stage' = "fault"
\* faults are combined with the default filter settings only
SetFault == /\ stage = "fault"
            /\ \/ run' = run /\ stage' = (IF Range(ArgLists[run.argn]) \subseteq Readable THEN "src" ELSE "done")
               \/ \E f \in FlagFaults : run' = [run EXCEPT !.ff = f] /\ stage' = "done"
               \/ \E k \in CfgFaults, s \in CfgSrcs :
                    /\ s = "flag" => FO \notin Range(ArgLists[run.argn])
                    /\ run' = [run EXCEPT !.cfg = [k |-> k, src |-> s, entries |-> <<>>]] /\ stage' = "done"
SetSrc == /\ stage = "src"
          /\ \/ run' = run /\ stage' = "cli"                      \* no configuration at all
             \/ \E s \in CfgSrcs :
                  /\ s = "flag" => FO \notin Range(ArgLists[run.argn])    \* no repository root to be relative to
                  /\ run' = [run EXCEPT !.cfg = [k |-> "paths", src |-> s, entries |-> <<>>]]
                  /\ stage' = "entries"
AddEntry == /\ stage = "entries"
            /\ Len(run.cfg.entries) < MaxEntries
            /\ \E g \in GlobNames, p \in CfgPats :
                 /\ \A i \in DOMAIN run.cfg.entries : GlobIdx(run.cfg.entries[i].glob) < GlobIdx(g)
                 /\ run' = [run EXCEPT !.cfg.entries = Append(@, [glob |-> g, pats |-> <<P(p)>>])]
            /\ stage' = "entries"
\* one entry with two patterns (both orders when a non-"set" form is involved: a pattern must not
\* influence how its neighbours match)
CfgUniverse == {P(q) : q \in CfgPats} \cup {Form(fm, id) : fm \in CfgForms, id \in FormIds}
AddEntry2 == /\ stage = "entries" /\ run.cfg.entries = <<>>
             /\ \E g \in GlobNames : \E p1, p2 \in CfgUniverse :
                  /\ p1 # p2 /\ g \in {"exact", "deepext"}
                  /\ (p1.f = "set" /\ p2.f = "set") =>
                       /\ p1.s # {} /\ p2.s # {} /\ p1.s # Ids /\ p2.s # Ids
                       /\ \A d \in p1.s : \A e \in p2.s : d < e
                  /\ run' = [run EXCEPT !.cfg.entries = <<[glob |-> g, pats |-> <<p1, p2>>]>>]
             /\ stage' = "cli"
EndEntries == /\ stage = "entries" /\ run.cfg.entries # <<>>
              /\ run' = run /\ stage' = "cli"
CliUniverse == {P(q) : q \in CliPats} \cup {Form(fm, id) : fm \in CliForms, id \in FormIds}
AddCli == /\ stage = "cli"
          /\ Len(run.cli) < MaxCli
          /\ \E p \in CliUniverse : p \notin Range(run.cli) /\ run' = [run EXCEPT !.cli = Append(@, p)]
          /\ stage' = "cli"
EndCli == /\ stage = "cli" /\ run' = run /\ stage' = "done"

Next == /\ (SetArgs \/ SetCwd \/ SetSp \/ SetVia \/ SetFault \/ SetSrc \/ AddEntry \/ AddEntry2 \/ EndEntries \/ AddCli \/ EndCli)
        /\ tc' = Vector(run', stage')
Spec == Init /\ [][Next]_vars

----------------------------------------------------------------------------
(* Properties of the model (use E) *)
Increasing(s) == \A i, j \in DOMAIN s : i < j => s[i] < s[j]
\* output = unfiltered minus matched, order kept
ExactFilter ==
  \A i \in DOMAIN Named(run) :
    LET f == Named(run)[i] o == DeclOut(run, f) IN
    /\ Increasing(o)
    /\ Range(o) = {d \in Range(MsgsOf(f)) : \A p \in Applicable(run, f) : ~Matches(p, d)}
\* CLI and config patterns compose: filtering by the union = filtering by one, then by the other
Composes ==
  \A i \in DOMAIN Named(run) :
    LET f == Named(run)[i]
        cfgp == EntryPats(CfgFor(run, Attribute(f)), RootRel(f)) IN
    /\ DeclOut(run, f) = FilterBy(FilterBy(MsgsOf(f), Range(run.cli)), cfgp)
    /\ DeclOut(run, f) = FilterBy(FilterBy(MsgsOf(f), cfgp), Range(run.cli))
\* spelled arguments name the intended files
SpellResolves ==
  stage = "cwd" =>
  \A c \in DOMAIN CwdOf : \A s \in {"abs", "rel", "dot"} : \A v, cv \in {"real", "link", "plink"} :
    \A i \in DOMAIN ArgLists[run.argn] :
      LET nc == NameVia(CwdOf[c], cv)
          nf == NameVia(ArgLists[run.argn][i], v) IN
      /\ Canon(nc) = CwdOf[c] /\ Canon(nf) = ArgLists[run.argn][i]
      /\ Resolve(nc, Spell(nc, nf, s)) = nf
\* the declarative result does not depend on cwd, spelling and the aliases the paths go through: it is the
\* result of the reference run (repository root, absolute, real names) on the same files
CwdIndependent ==
  (stage = "done" /\ ~RepoMode(run)) =>
    LET r0 == [run EXCEPT !.cwdk = "root", !.sp = "abs", !.via = "real", !.cvia = "real"] IN
    /\ Named(r0) = Named(run)
    /\ \A i \in DOMAIN Named(run) : DeclOut(r0, Named(r0)[i]) = DeclOut(run, Named(run)[i])
    /\ DeclExits(r0) = DeclExits(run)
ExitTable ==
  /\ DeclExits(run) \subseteq {0, 1, 2, 3} /\ DeclExits(run) # {}
  /\ run.ff \in {"unknown", "badbool"} => DeclExits(run) = {2}
  /\ (run.ff = "none" /\ ~Fatal(run)) =>
       DeclExits(run) = {IF \A i \in DOMAIN Named(run) : DeclOut(run, Named(run)[i]) = <<>> THEN 0 ELSE 1}
  /\ (run.ff = "none" /\ Fatal(run)) => DeclExits(run) = {3}
\* the code-like layer (root-relative matching, segment-wise project lookup) satisfies the property
OpEqualsDecl ==
  /\ \A i \in DOMAIN Named(run) : OpOut(run, i) = DeclOut(run, Named(run)[i])
  /\ OpExits(run) \subseteq DeclExits(run)
\* the old cwd-relative matching agreed with the property from the repository root on plain/absolute
\* spellings of files of that repository (why the test suite never saw it)
DevCwdAgreesAtRoot ==
  (Cwd(run) = RepoA /\ run.sp # "dot" /\ run.via = run.cvia
     /\ \A i \in DOMAIN Named(run) : Attribute(Named(run)[i]) = RepoA) =>
    \A i \in DOMAIN Named(run) : DevCwdOut(run, i) = DeclOut(run, Named(run)[i])
TagsExplain ==
  \A i \in DOMAIN Named(run) : (Tags(run, i) = {}) <=> DevCwdOut(run, i) = DeclOut(run, Named(run)[i])
GlobTexts == \A g \in GlobNames : g \in DOMAIN Globs /\ g \in Range(GlobOrder)
\* EXPECTED TO BE VIOLATED (vacuity guards, cfg Filter_dev / Filter_dev2): the disabled deviations are real
\* deviations inside the explored universe
DevCwdEqualsDecl == \A i \in DOMAIN Named(run) : DevCwdOut(run, i) = DeclOut(run, Named(run)[i])
DevPreEqualsDecl == \A i \in DOMAIN Named(run) : DevPreOut(run, i) = DeclOut(run, Named(run)[i])
DevLnkEqualsDecl == \A i \in DOMAIN Named(run) : DevLnkOut(run, i) = DeclOut(run, Named(run)[i])
\* the names the code sees are names of the files the run is about
NamesConsistent ==
  /\ Canon(NCwd(run)) = Cwd(run)
  /\ \A i \in DOMAIN Named(run) : Canon(NamedP(run)[i]) = Named(run)[i]
=============================================================================
