--------------------------- MODULE ExprSemaTrace ---------------------------
(* Trace validation for C06.  Every record of trace.ndjson holds the diagnostics of the REAL checker
   for one expression under an environment G (field a, type kind ka) and under a loosening G' of it
   (field b, kb); for lint-level records a/b are the diagnostics Linter.Lint reports at one
   expression site of a workflow before/after a literal definition was replaced by an expression.

     PropOK    the property itself, a relation between the two real outputs: what was accepted under
               G is accepted under G' -- also where the value is spliced into a string (template
               position: object/array/null is rejected there).  Needs no model fidelity.
     StrongOK  a new diagnostic only appears where another one went away (a diagnostic types its
               operand any and so masks later ones).  Informational: "masked" records.
     ModelOK   the real outputs equal ExprSema!Check (code as read = design, or the model with the
               disabled deviation FilterAnyProp: a regression, still a violation through PropOK), or the
               prediction recorded with the vector (mk = "pred").  A difference alone is model drift.

   Records: [a, b, ka, kb, mk] + (mk = "tree": e1, e2, g1, g2) + (mk = "pred": p1, p2, q1, q2, k1, k2, j1, j2) *)
EXTENDS Naturals, Sequences, TLC, Json
CONSTANTS Size, Fams
VARIABLES l, mism, drift, masked, pi, path, cl, lv, tc, ok

S == INSTANCE ExprSema

Trace == ndJsonDeserialize("trace.ndjson")
SetOf(s) == {s[i] : i \in DOMAIN s}

Acc(errs, kind, tmpl) == errs = {} /\ (tmpl => kind \notin {"obj", "arr", "null"})
PropOK(r) ==
  /\ Acc(SetOf(r.a), r.ka, FALSE) => Acc(SetOf(r.b), r.kb, FALSE)
  /\ Acc(SetOf(r.a), r.ka, TRUE) => Acc(SetOf(r.b), r.kb, TRUE)
StrongOK(r) == SetOf(r.b) \subseteq SetOf(r.a) \/ ~(SetOf(r.a) \subseteq SetOf(r.b))

Same(r, m1, m2) == SetOf(r.a) = m1.errs /\ SetOf(r.b) = m2.errs /\ r.ka = m1.ty.k /\ r.kb = m2.ty.k
ModelOK(r) ==
  CASE r.mk = "tree" ->
         LET x2 == IF r.e2.k = "same" THEN r.e1 ELSE r.e2 IN
         IF Same(r, S!Run(r.e1, r.g1, S!AllDev), S!Run(x2, r.g2, S!AllDev)) THEN TRUE
         ELSE Same(r, S!Run(r.e1, r.g1, S!KnownDev), S!Run(x2, r.g2, S!KnownDev))   \* regression of a fixed deviation
    [] r.mk = "pred" ->
         IF SetOf(r.a) = SetOf(r.p1) /\ SetOf(r.b) = SetOf(r.p2) /\ r.ka = r.k1 /\ r.kb = r.k2 THEN TRUE
         ELSE SetOf(r.a) = SetOf(r.q1) /\ SetOf(r.b) = SetOf(r.q2) /\ r.ka = r.j1 /\ r.kb = r.j2
    [] OTHER -> TRUE
\* the text the harness executed is the rendering of the tree the model judges
TextOK(r) == r.mk = "tree" => (r.t1 = S!Render(r.e1) /\ (r.e2.k # "same" => r.t2 = S!Render(r.e2)))
\* the recorded pair of environments is inside the loosening preorder (A.6)
GenOK(r) == r.mk = "tree" =>
  \A s \in S!Slots : IF r.g1[s].k = "unset" THEN r.g2[s].k = "unset" ELSE S!Loosens(r.g1[s], r.g2[s])

Init == /\ l = 1 /\ mism = <<>> /\ drift = <<>> /\ masked = <<>>
        /\ pi = 0 /\ path = <<>> /\ cl = 0 /\ lv = 0 /\ tc = "" /\ ok = 0
Step ==
  /\ l <= Len(Trace)
  /\ LET r == Trace[l] IN
       /\ mism' = IF PropOK(r) \/ Len(mism) >= 20000 THEN mism ELSE Append(mism, l)
       /\ drift' = IF (ModelOK(r) /\ TextOK(r) /\ GenOK(r)) \/ Len(drift) >= 20000 THEN drift ELSE Append(drift, l)
       /\ masked' = IF StrongOK(r) \/ Len(masked) >= 20000 THEN masked ELSE Append(masked, l)
  /\ l' = l + 1
  /\ UNCHANGED <<pi, path, cl, lv, tc, ok>>
Spec == Init /\ [][Step]_<<l, mism, drift, masked, pi, path, cl, lv, tc, ok>>

Report == (l = Len(Trace) + 1) => PrintT(<<"MISM", Len(Trace), mism, drift, masked>>)
=============================================================================
