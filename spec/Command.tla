------------------------------ MODULE Command ------------------------------
(* EXT03 - the command line: one invocation of the actionlint command as a state machine
   (extension: no listed property pins this down).

   Code:  command.go (Command.Main, runLinter, the flag set), cmd/actionlint/main.go, linter.go (NewLinter,
          GenerateDefaultConfig, LintRepository, LintDir, LintFiles, LintFile, LintStdin, the log levels), package flag.
   Docs:  man/actionlint.1.ronn (SYNOPSIS, FLAGS, EXIT STATUS), docs/usage.md ("actionlint command", "Ignore some errors",
          "Exit status"), the text printed by `actionlint -h`.

   Vector      v = [toks, cwd, stdin]
     toks      the argument vector as structured tokens [d, n, e, v]:  d dashes, n flag name, e = an `=` follows the
               name, v the value after the `=` / the text of a token that is not a flag (value or operand, as an id that
               the driver renders; the specification only needs the tables below).   "-" is [d=1], "--" is [d=2].
     cwd       repo (root of a repository with a.yml (4 diagnostics), b.yaml (1 diagnostic), c.txt, clean.yml (clean),
                     sub/d.yml (4 diagnostics) in .github/workflows)
               sub (its directory .github/workflows/sub)   clean (repository with one clean workflow)
               empty (repository whose workflow directory holds no YAML file)   norepo (no repository)
     stdin     dirty / clean / broken (not YAML)
   Stand-in `shellcheck` and `pyflakes` are on PATH: a dirty workflow has the diagnostics A (runner label), SC (shellcheck),
   B (undefined variable), PY (pyflakes) in this order, a broken one has Y (YAML syntax).

   Declarative layer  Decl(v):  the documented reading of the command line (flags first, `last one wins`, -ignore
                      repeatable, the three forms of the SYNOPSIS, the EXIT STATUS table) as table look-ups and set
                      comprehensions over the structured items of the vector.
   Operational layer  Op(v, devs):  the invocation as a state machine st -> OpStep(st): pc = "parse" (package flag, one
                      token per step) -> "version" -> "newlinter" (-config-file, -ignore, -format in the order of
                      NewLinter) -> "mode" (runLinter) -> "init" | "repo" | "stdin" | "files" -> "exit";  Run iterates it.
                      devs = enabled named deviations: {} is the intended design (= documentation), AllDevs the code as read.
   Observable         [exit, out, fmt, colored, names, classes, usage, flagerr, fatal, verbose, debug, read, created, stray]
                      out: none / version / generated / diags;  fmt: none / pretty / oneline / json;  names, classes: file
                      label and class of every diagnostic printed on stdout, in order;  usage / flagerr: the usage text /
                      a flag error on stderr;  fatal: class of the fatal message on stderr ("none");  verbose / debug:
                      yes / no / any (log lines on stderr);  read: labels of the inputs that were linted;  created: the
                      configuration file exists afterwards;  stray: "none" - diagnostics, version and the -init-config
                      message only on stdout, usage / errors / log lines only on stderr.
   TLC invariants     Agree (Op with no deviation = Decl), Confined, ExitTable, TablesOK.
   Generator          toks grown by Next: flag items first, then operands; cwd / stdin varied where they matter. *)
EXTENDS Naturals, Sequences, FiniteSets, TLC, Json

CONSTANTS FlagItems,      \* ids of the flag items of this configuration
          MaxFlags,       \* flag items per command line
          PosItems,       \* operand ids
          MaxPos,         \* operands per command line
          PairItems,      \* flag items that may be followed by another flag item
          MaxTotal        \* flag items + operands per command line

Range(f) == {f[i] : i \in DOMAIN f}
Max(S) == CHOOSE x \in S : \A y \in S : x >= y
AllDevs == {"Dev_BadValueExit3", "Dev_VerboseMasksDebug"}

----------------------------------------------------------------------------
(* tokens and flag items *)
T(d, n, e, v) == [d |-> d, n |-> n, e |-> e, v |-> v]
Fl(n) == T(1, n, FALSE, "")             \* -name
FlEq(n, v) == T(1, n, TRUE, v)          \* -name=value
Val(v) == T(0, "", FALSE, v)            \* a token that does not start with -
Dash == T(1, "", FALSE, "")             \* -
DDash == T(2, "", FALSE, "")            \* --

\* the flag set: man page FLAGS / `actionlint -h`
BoolFlags == {"oneline", "no-color", "color", "verbose", "debug", "version", "init-config"}
ValueFlags == {"format", "ignore", "shellcheck", "pyflakes", "config-file", "stdin-filename"}
HelpNames == {"h", "help"}
Formal == BoolFlags \cup ValueFlags
FlagDefaults == [shellcheck |-> "shellcheck", pyflakes |-> "pyflakes", format |-> "", configfile |-> "", stdinname |-> "<stdin>"]

\* flag items: id -> tokens
ItemToks ==
  [oneline |-> <<Fl("oneline")>>, oneline2 |-> <<T(2, "oneline", FALSE, "")>>, onelineF |-> <<FlEq("oneline", "false")>>,
   onelineT |-> <<FlEq("oneline", "T")>>, onelineBad |-> <<FlEq("oneline", "maybe")>>,
   color |-> <<Fl("color")>>, nocolor |-> <<Fl("no-color")>>, verbose |-> <<Fl("verbose")>>, debug |-> <<Fl("debug")>>,
   version |-> <<Fl("version")>>, h |-> <<Fl("h")>>, help |-> <<T(2, "help", FALSE, "")>>, init |-> <<Fl("init-config")>>,
   fmtJson |-> <<Fl("format"), Val("fmt:json")>>, fmtJsonEq |-> <<FlEq("format", "fmt:json")>>,
   fmtEmpty |-> <<Fl("format"), Val("fmt:empty")>>, fmtBadTpl |-> <<Fl("format"), Val("fmt:badtpl")>>,
   fmtNoPh |-> <<Fl("format"), Val("fmt:noph")>>,
   ignA |-> <<Fl("ignore"), Val("ign:A")>>, ignAll |-> <<Fl("ignore"), Val("ign:all")>>, ignNone |-> <<Fl("ignore"), Val("ign:none")>>,
   ignBad |-> <<Fl("ignore"), Val("ign:bad")>>, ignNoVal |-> <<Fl("ignore")>>, ignDash |-> <<Fl("ignore"), Fl("oneline")>>,
   scOff |-> <<FlEq("shellcheck", "")>>, scMissing |-> <<Fl("shellcheck"), Val("sc:missing")>>, pyOff |-> <<FlEq("pyflakes", "")>>,
   cfgGood |-> <<Fl("config-file"), Val("cfg:good")>>, cfgMissing |-> <<Fl("config-file"), Val("cfg:missing")>>,
   cfgBroken |-> <<Fl("config-file"), Val("cfg:broken")>>,
   stdinName |-> <<Fl("stdin-filename"), Val("name:in.yml")>>,
   unknown |-> <<Fl("frobnicate")>>, badSyntax |-> <<T(3, "oneline", FALSE, "")>>, ddash |-> <<DDash>>]
\* the declarative reading of an item: which flag, which value, or what is wrong with it
\*   k: bool (value b) / value (value x) / help / invalid / end (--)
IB(f, b) == [k |-> "bool", f |-> f, b |-> b, x |-> ""]
IV(f, x) == [k |-> "value", f |-> f, b |-> FALSE, x |-> x]
IK(k) == [k |-> k, f |-> "", b |-> FALSE, x |-> ""]
ItemSem ==
  [oneline |-> IB("oneline", TRUE), oneline2 |-> IB("oneline", TRUE), onelineF |-> IB("oneline", FALSE),
   onelineT |-> IB("oneline", TRUE), onelineBad |-> IK("invalid"),
   color |-> IB("color", TRUE), nocolor |-> IB("no-color", TRUE), verbose |-> IB("verbose", TRUE), debug |-> IB("debug", TRUE),
   version |-> IB("version", TRUE), h |-> IK("help"), help |-> IK("help"), init |-> IB("init-config", TRUE),
   fmtJson |-> IV("format", "fmt:json"), fmtJsonEq |-> IV("format", "fmt:json"), fmtEmpty |-> IV("format", "fmt:empty"),
   fmtBadTpl |-> IV("format", "fmt:badtpl"), fmtNoPh |-> IV("format", "fmt:noph"),
   ignA |-> IV("ignore", "ign:A"), ignAll |-> IV("ignore", "ign:all"), ignNone |-> IV("ignore", "ign:none"),
   ignBad |-> IV("ignore", "ign:bad"), ignNoVal |-> IK("invalid"), ignDash |-> IV("ignore", "ign:dash"),
   scOff |-> IV("shellcheck", ""), scMissing |-> IV("shellcheck", "sc:missing"), pyOff |-> IV("pyflakes", ""),
   cfgGood |-> IV("config-file", "cfg:good"), cfgMissing |-> IV("config-file", "cfg:missing"),
   cfgBroken |-> IV("config-file", "cfg:broken"), stdinName |-> IV("stdin-filename", "name:in.yml"),
   unknown |-> IK("invalid"), badSyntax |-> IK("invalid"), ddash |-> IK("end")]
\* a flag token used as the value of -ignore reads as the text of the token
TokenAsValue(t) == IF t.d = 0 THEN t.v ELSE "ign:dash"

\* operands: id -> what the path names (seen from the cwd "repo")
PosKind == [d |-> "dirty", c |-> "clean", m |-> "missing", x |-> "dir", foneline |-> "missing"]
PosLabel == [d |-> "a.yml", c |-> "clean.yml", m |-> "nofile.yml", x |-> ".github", foneline |-> "-oneline"]
PosTok(p) == IF p = "dash" THEN Dash ELSE IF p = "foneline" THEN Fl("oneline") ELSE Val("pos:" \o p)

\* values
BoolText == [true |-> TRUE, false |-> FALSE, T |-> TRUE]                  \* strconv.ParseBool on the texts of the universe
IgnoreValid(x) == x # "ign:bad"
AllClasses == {"A", "SC", "B", "PY", "Y"}
IgnoreMatches(x) == IF x = "ign:A" THEN {"A"} ELSE IF x = "ign:all" THEN AllClasses ELSE {}
FormatKind(x) == IF x \in {"", "fmt:empty"} THEN "none" ELSE IF x = "fmt:json" THEN "json" ELSE "bad"
ConfigKind(x) == IF x = "" THEN "none" ELSE IF x = "cfg:good" THEN "good" ELSE IF x = "cfg:missing" THEN "missing" ELSE "broken"
ConfigIgnores == {"B"}                                                    \* cfg:good ignores B in every file
ToolOn(x) == x \notin {"", "sc:missing"}                                  \* empty = disabled; a command that does not exist

\* file system
DiagsOfKind(kind) == IF kind = "dirty" THEN <<"A", "SC", "B", "PY">> ELSE IF kind = "half" THEN <<"A">>
                     ELSE IF kind = "broken" THEN <<"Y">> ELSE <<>>
RepoFiles(cwd) == IF cwd \in {"repo", "sub"} THEN <<[label |-> "a.yml", kind |-> "dirty"], [label |-> "b.yaml", kind |-> "half"],
                                                    [label |-> "clean.yml", kind |-> "clean"], [label |-> "sub/d.yml", kind |-> "dirty"]>>
                  ELSE IF cwd = "clean" THEN <<[label |-> "a.yml", kind |-> "clean"]>> ELSE <<>>
Cwds == {"repo", "sub", "clean", "empty", "norepo"}
Stdins == {"dirty", "clean", "broken"}

----------------------------------------------------------------------------
(* observable *)
NoLog == "no"
Obs(exit, out, fmt, colored, names, classes, usage, flagerr, fatal, verbose, debug, read, created) ==
  [exit |-> exit, out |-> out, fmt |-> fmt, colored |-> colored, names |-> names, classes |-> classes, usage |-> usage,
   flagerr |-> flagerr, fatal |-> fatal, verbose |-> verbose, debug |-> debug, read |-> read, created |-> created,
   stray |-> "none"]            \* nothing that belongs on stdout is found on stderr and vice versa
HelpObs == Obs(0, "none", "none", FALSE, <<>>, <<>>, TRUE, FALSE, "none", NoLog, NoLog, {}, FALSE)
UsageErrObs == Obs(2, "none", "none", FALSE, <<>>, <<>>, TRUE, TRUE, "none", NoLog, NoLog, {}, FALSE)
VersionObs == Obs(0, "version", "none", FALSE, <<>>, <<>>, FALSE, FALSE, "none", NoLog, NoLog, {}, FALSE)
\* the documented exit statuses (man page EXIT STATUS, docs/usage.md)
ExitInvalidOption == 2
ExitFatal == 3
FatalObs(exit, fatal, verbose, debug) ==
  Obs(exit, "none", "none", FALSE, <<>>, <<>>, FALSE, FALSE, fatal, verbose, debug, {}, FALSE)

\* effective options of an invocation that reaches the linter
Opts(oneline, color, nocolor, verbose, debug, init, format, ignores, sc, py, config, stdinname) ==
  [oneline |-> oneline, color |-> color, nocolor |-> nocolor, verbose |-> verbose, debug |-> debug, init |-> init,
   format |-> format, ignores |-> ignores, sc |-> sc, py |-> py, config |-> config, stdinname |-> stdinname]

\* the diagnostics printed for one input of the given kind under the options
Surviving(kind, o) ==
  LET ig == UNION {IgnoreMatches(o.ignores[i]) : i \in DOMAIN o.ignores}
             \cup (IF ConfigKind(o.config) = "good" THEN ConfigIgnores ELSE {})
      off == (IF ToolOn(o.sc) THEN {} ELSE {"SC"}) \cup (IF ToolOn(o.py) THEN {} ELSE {"PY"}) IN
  SelectSeq(DiagsOfKind(kind), LAMBDA c : c \notin ig /\ c \notin off)
RECURSIVE Flatten(_, _, _)
Flatten(inputs, i, o) ==   \* <<names, classes>> of the inputs from i on
  IF i > Len(inputs) THEN <<<<>>, <<>>>>
  ELSE LET ds == Surviving(inputs[i].kind, o)
           rest == Flatten(inputs, i + 1, o) IN
       <<[k \in 1 .. Len(ds) |-> inputs[i].label] \o rest[1], ds \o rest[2]>>
\* the report of a completed lint run over the inputs
LintObs(inputs, o, vlog, dlog) ==
  LET fl == Flatten(inputs, 1, o)
      n == Len(fl[2])
      fk == FormatKind(o.format)
      fmt == IF fk = "json" THEN "json" ELSE IF n = 0 THEN "none" ELSE IF o.oneline THEN "oneline" ELSE "pretty" IN
  Obs(IF n = 0 THEN 0 ELSE 1, IF n = 0 /\ fmt = "none" THEN "none" ELSE "diags", fmt,
      n > 0 /\ fmt # "json" /\ o.color /\ ~o.nocolor, fl[1], fl[2], FALSE, FALSE, "none", vlog, dlog,
      {inputs[i].label : i \in DOMAIN inputs}, FALSE)

----------------------------------------------------------------------------
(* Declarative layer.  The vector carries the structured reading next to the tokens: items (ids of FlagItems, in order)
   and pos (operand ids, in order). *)
ItemsOf(v) == [i \in DOMAIN v.items |-> ItemSem[v.items[i]]]
\* "last one wins" for a flag given several times; a flag that is not given has its default
LastBool(its, f) == LET hit == {i \in DOMAIN its : its[i].k = "bool" /\ its[i].f = f} IN
                    IF hit = {} THEN FALSE ELSE its[Max(hit)].b
LastValue(its, f, dflt) == LET hit == {i \in DOMAIN its : its[i].k = "value" /\ its[i].f = f} IN
                           IF hit = {} THEN dflt ELSE its[Max(hit)].x
AllValues(its, f) == LET idx == {i \in DOMAIN its : its[i].k = "value" /\ its[i].f = f} IN
                     SelectSeq([i \in DOMAIN its |-> IF i \in idx THEN its[i].x ELSE "~"], LAMBDA x : x # "~")
DeclOpts(its) ==
  Opts(LastBool(its, "oneline"), LastBool(its, "color"), LastBool(its, "no-color"), LastBool(its, "verbose"),
       LastBool(its, "debug"), LastBool(its, "init-config"), LastValue(its, "format", ""), AllValues(its, "ignore"),
       LastValue(its, "shellcheck", "shellcheck"), LastValue(its, "pyflakes", "pyflakes"), LastValue(its, "config-file", ""),
       LastValue(its, "stdin-filename", "<stdin>"))
\* log lines (man page: -verbose "Enable verbose output", -debug "Enable debug output"; debug output includes the verbose one)
DeclVerbose(o) == IF o.verbose \/ o.debug THEN "yes" ELSE "no"
DeclDebug(o) == IF o.debug THEN "yes" ELSE "no"
\* SYNOPSIS: no operand = repository; exactly `-` = standard input; otherwise every operand is a file
DeclMode(pos) == IF pos = <<>> THEN "repo" ELSE IF pos = <<"dash">> THEN "stdin" ELSE "files"
DeclFileInputs(pos) == [i \in DOMAIN pos |-> IF pos[i] = "dash" THEN [label |-> "-", kind |-> "missing"]
                                            ELSE [label |-> PosLabel[pos[i]], kind |-> PosKind[pos[i]]]]
Decl(v) ==
  LET its == ItemsOf(v)
      decisive == {i \in DOMAIN its : its[i].k \in {"help", "invalid"}}
      o == DeclOpts(its) IN
  \* flags are read from left to right: the first request for help / the first invalid flag ends the invocation
  IF decisive # {} THEN (IF its[CHOOSE i \in decisive : \A j \in decisive : i <= j].k = "help" THEN HelpObs ELSE UsageErrObs)
  ELSE IF LastBool(its, "version") THEN VersionObs
  \* an option whose value is not usable is an invalid command line option (EXIT STATUS 2) ...
  ELSE IF \E i \in DOMAIN o.ignores : ~IgnoreValid(o.ignores[i]) THEN FatalObs(ExitInvalidOption, "bad-ignore", NoLog, NoLog)
  ELSE IF FormatKind(o.format) = "bad" THEN FatalObs(ExitInvalidOption, "bad-format", NoLog, NoLog)
  \* ... a configuration file that cannot be used is a fatal error (EXIT STATUS 3)
  ELSE IF ConfigKind(o.config) = "missing" THEN FatalObs(ExitFatal, "config-read", NoLog, NoLog)
  ELSE IF ConfigKind(o.config) = "broken" THEN FatalObs(ExitFatal, "config-parse", NoLog, NoLog)
  ELSE IF o.init THEN
    (IF v.cwd = "norepo" THEN FatalObs(ExitFatal, "init-no-project", DeclVerbose(o), DeclDebug(o))
     ELSE Obs(0, "generated", "none", FALSE, <<>>, <<>>, FALSE, FALSE, "none", DeclVerbose(o), DeclDebug(o), {}, TRUE))
  ELSE IF DeclMode(v.pos) = "repo" THEN
    (IF v.cwd = "norepo" THEN FatalObs(ExitFatal, "no-project", DeclVerbose(o), DeclDebug(o))
     ELSE IF v.cwd = "empty" THEN FatalObs(ExitFatal, "no-yaml", DeclVerbose(o), DeclDebug(o))
     ELSE LintObs(RepoFiles(v.cwd), o, DeclVerbose(o), DeclDebug(o)))
  ELSE IF DeclMode(v.pos) = "stdin" THEN
    LintObs(<<[label |-> IF o.stdinname = "<stdin>" THEN "<stdin>" ELSE "in.yml", kind |-> v.stdin]>>, o, DeclVerbose(o), DeclDebug(o))
  ELSE LET ins == DeclFileInputs(v.pos) IN
    IF \E i \in DOMAIN ins : ins[i].kind \in {"missing", "dir"}
      \* a single unreadable file is reported before anything is logged about it
      THEN FatalObs(ExitFatal, "read", IF Len(ins) = 1 /\ DeclVerbose(o) = "yes" THEN "any" ELSE DeclVerbose(o), DeclDebug(o))
      ELSE LintObs(ins, o, DeclVerbose(o), DeclDebug(o))

----------------------------------------------------------------------------
(* Operational layer: the state machine of one invocation.
   st = [pc, args, o (LinterOptions + the flag variables of Main), ver, level, cwd, stdin, obs] *)
OpDefaults == Opts(FALSE, FALSE, FALSE, FALSE, FALSE, FALSE, "", <<>>, "shellcheck", "pyflakes", "", "<stdin>")
OpInit(v) == [pc |-> "parse", args |-> v.toks, o |-> OpDefaults, ver |-> FALSE, level |-> 0, cwd |-> v.cwd,
              stdin |-> v.stdin, obs |-> HelpObs]
Exit(st, obs) == [st EXCEPT !.pc = "exit", !.obs = obs]
OptField == [oneline |-> "oneline", color |-> "color", verbose |-> "verbose", debug |-> "debug"]
SetBool(o, n, b) ==
  IF n = "oneline" THEN [o EXCEPT !.oneline = b] ELSE IF n = "color" THEN [o EXCEPT !.color = b]
  ELSE IF n = "no-color" THEN [o EXCEPT !.nocolor = b] ELSE IF n = "verbose" THEN [o EXCEPT !.verbose = b]
  ELSE IF n = "debug" THEN [o EXCEPT !.debug = b] ELSE IF n = "init-config" THEN [o EXCEPT !.init = b] ELSE o
SetValue(o, n, x) ==
  IF n = "format" THEN [o EXCEPT !.format = x] ELSE IF n = "ignore" THEN [o EXCEPT !.ignores = Append(@, x)]
  ELSE IF n = "shellcheck" THEN [o EXCEPT !.sc = x] ELSE IF n = "pyflakes" THEN [o EXCEPT !.py = x]
  ELSE IF n = "config-file" THEN [o EXCEPT !.config = x] ELSE [o EXCEPT !.stdinname = x]
\* flag.FlagSet.parseOne
OpParseOne(st) ==
  IF st.args = <<>> THEN [st EXCEPT !.pc = "version"]
  ELSE LET t == Head(st.args)
           rest == Tail(st.args) IN
    IF t.d = 0 THEN [st EXCEPT !.pc = "version"]                                  \* does not start with -
    ELSE IF t.d = 1 /\ t.n = "" /\ ~t.e THEN [st EXCEPT !.pc = "version"]         \* "-": len(s) < 2
    ELSE IF t.d = 2 /\ t.n = "" /\ ~t.e THEN [st EXCEPT !.pc = "version", !.args = rest]     \* "--" terminates the flags
    ELSE IF t.d >= 3 \/ t.n = "" THEN Exit(st, UsageErrObs)                       \* bad flag syntax
    ELSE IF t.n \notin Formal THEN (IF t.n \in HelpNames THEN Exit(st, HelpObs) ELSE Exit(st, UsageErrObs))
    ELSE IF t.n \in BoolFlags THEN
      (IF t.e THEN (IF t.v \in DOMAIN BoolText
                      THEN [st EXCEPT !.args = rest, !.o = SetBool(st.o, t.n, BoolText[t.v]),
                                      !.ver = IF t.n = "version" THEN BoolText[t.v] ELSE @]
                      ELSE Exit(st, UsageErrObs))                                 \* invalid boolean value
       ELSE [st EXCEPT !.args = rest, !.o = SetBool(st.o, t.n, TRUE), !.ver = IF t.n = "version" THEN TRUE ELSE @])
    ELSE IF t.e THEN [st EXCEPT !.args = rest, !.o = SetValue(st.o, t.n, t.v)]
    ELSE IF rest = <<>> THEN Exit(st, UsageErrObs)                                \* flag needs an argument
    ELSE [st EXCEPT !.args = Tail(rest), !.o = SetValue(st.o, t.n, TokenAsValue(Head(rest)))]
\* NewLinter: log level, then -config-file, -ignore, -format.
\* Design: the values of -ignore / -format are validated as command line options (exit 2) before a file is read;
\*         -debug selects the debug level.
\* Dev_BadValueExit3: they are compiled inside NewLinter after the configuration file; every failure is exit 3.
\* Dev_VerboseMasksDebug: `if Verbose {level = verbose} else if Debug {level = debug}`.
OpLevel(o, devs) == IF "Dev_VerboseMasksDebug" \in devs THEN (IF o.verbose THEN 1 ELSE IF o.debug THEN 2 ELSE 0)
                    ELSE (IF o.debug THEN 2 ELSE IF o.verbose THEN 1 ELSE 0)
RECURSIVE OpFirstBadIgnore(_, _)
OpFirstBadIgnore(igs, i) == IF i > Len(igs) THEN 0 ELSE IF ~IgnoreValid(igs[i]) THEN i ELSE OpFirstBadIgnore(igs, i + 1)
OpConfigCheck(st) == IF ConfigKind(st.o.config) = "missing" THEN "config-read"
                     ELSE IF ConfigKind(st.o.config) = "broken" THEN "config-parse" ELSE "none"
OpValueCheck(st) == IF OpFirstBadIgnore(st.o.ignores, 1) # 0 THEN "bad-ignore"
                    ELSE IF FormatKind(st.o.format) = "bad" THEN "bad-format" ELSE "none"
OpNewLinter(st, devs) ==
  LET lv == OpLevel(st.o, devs)
      cfg == OpConfigCheck(st)
      val == OpValueCheck(st) IN
  IF "Dev_BadValueExit3" \in devs
    THEN (IF cfg # "none" THEN Exit(st, FatalObs(3, cfg, NoLog, NoLog))
          ELSE IF val # "none" THEN Exit(st, FatalObs(3, val, NoLog, NoLog))
          ELSE [st EXCEPT !.pc = "mode", !.level = lv])
    ELSE (IF val # "none" THEN Exit(st, FatalObs(2, val, NoLog, NoLog))
          ELSE IF cfg # "none" THEN Exit(st, FatalObs(3, cfg, NoLog, NoLog))
          ELSE [st EXCEPT !.pc = "mode", !.level = lv])
VLog(st) == IF st.level >= 1 THEN "yes" ELSE "no"      \* l.log
DLog(st) == IF st.level >= 2 THEN "yes" ELSE "no"      \* l.debug ("Create a Linter instance ..." is always printed)
\* runLinter
OpMode(st) ==
  IF st.o.init THEN [st EXCEPT !.pc = "init"]
  ELSE IF Len(st.args) = 0 THEN [st EXCEPT !.pc = "repo"]
  ELSE IF Len(st.args) = 1 /\ st.args[1] = Dash THEN [st EXCEPT !.pc = "stdin"]
  ELSE [st EXCEPT !.pc = "files"]
OpInitConfig(st) ==
  IF st.cwd = "norepo" THEN Exit(st, FatalObs(3, "init-no-project", VLog(st), DLog(st)))
  ELSE Exit(st, Obs(0, "generated", "none", FALSE, <<>>, <<>>, FALSE, FALSE, "none", VLog(st), DLog(st), {}, TRUE))
OpRepo(st) ==
  IF st.cwd = "norepo" THEN Exit(st, FatalObs(3, "no-project", VLog(st), DLog(st)))                    \* projects.At
  ELSE IF RepoFiles(st.cwd) = <<>> THEN Exit(st, FatalObs(3, "no-yaml", VLog(st), DLog(st)))           \* LintDir
  ELSE Exit(st, LintObs(RepoFiles(st.cwd), st.o, VLog(st), DLog(st)))
OpStdin(st) ==
  Exit(st, LintObs(<<[label |-> IF st.o.stdinname = "<stdin>" THEN "<stdin>" ELSE "in.yml", kind |-> st.stdin]>>, st.o,
                   VLog(st), DLog(st)))
\* operand token -> the file it names
OpFileOf(t) == IF t = Dash THEN [label |-> "-", kind |-> "missing"]
               ELSE IF t.d > 0 THEN [label |-> "-oneline", kind |-> "missing"]
               ELSE LET p == CHOOSE q \in DOMAIN PosKind : PosTok(q) = t IN [label |-> PosLabel[p], kind |-> PosKind[p]]
RECURSIVE OpAllReadable(_, _)
OpAllReadable(fs, i) == IF i > Len(fs) THEN TRUE ELSE IF fs[i].kind \in {"missing", "dir"} THEN FALSE ELSE OpAllReadable(fs, i + 1)
OpFiles(st) ==
  LET fs == [i \in DOMAIN st.args |-> OpFileOf(st.args[i])] IN
  IF Len(fs) = 1
    THEN (IF fs[1].kind \in {"missing", "dir"}                                    \* LintFile: os.ReadFile before check()
            THEN Exit(st, FatalObs(3, "read", IF st.level >= 1 THEN "any" ELSE "no", DLog(st)))
            ELSE Exit(st, LintObs(fs, st.o, VLog(st), DLog(st))))
    ELSE (IF OpAllReadable(fs, 1) THEN Exit(st, LintObs(fs, st.o, VLog(st), DLog(st)))
          ELSE Exit(st, FatalObs(3, "read", VLog(st), DLog(st))))                 \* eg.Wait(): nothing is printed
OpStep(st, devs) ==
  IF st.pc = "parse" THEN OpParseOne(st)
  ELSE IF st.pc = "version" THEN (IF st.ver THEN Exit(st, VersionObs) ELSE [st EXCEPT !.pc = "newlinter"])
  ELSE IF st.pc = "newlinter" THEN OpNewLinter(st, devs)
  ELSE IF st.pc = "mode" THEN OpMode(st)
  ELSE IF st.pc = "init" THEN OpInitConfig(st)
  ELSE IF st.pc = "repo" THEN OpRepo(st)
  ELSE IF st.pc = "stdin" THEN OpStdin(st)
  ELSE IF st.pc = "files" THEN OpFiles(st)
  ELSE st
RECURSIVE OpRun(_, _)
OpRun(st, devs) == IF st.pc = "exit" THEN st.obs ELSE OpRun(OpStep(st, devs), devs)
Op(v, devs) == OpRun(OpInit(v), devs)
\* number of steps of the machine (for the evidence)
RECURSIVE OpSteps(_, _)
OpSteps(st, devs) == IF st.pc = "exit" THEN 0 ELSE 1 + OpSteps(OpStep(st, devs), devs)

DevsOf(v) == {d \in AllDevs : Op(v, {d}) # Decl(v)}

----------------------------------------------------------------------------
(* Generator *)
VARIABLES cur, tc
vars == <<cur, tc>>
RECURSIVE ToksOf(_, _)
ToksOf(items, i) == IF i > Len(items) THEN <<>> ELSE ItemToks[items[i]] \o ToksOf(items, i + 1)
Vec(items, pos, cwd, stdin) ==
  [items |-> items, pos |-> pos, toks |-> ToksOf(items, 1) \o [i \in DOMAIN pos |-> PosTok(pos[i])], cwd |-> cwd, stdin |-> stdin]
Header == ToJson([kind |-> "header", devs |-> AllDevs, boolflags |-> BoolFlags, valueflags |-> ValueFlags,
                  defaults |-> FlagDefaults, items |-> FlagItems, exits |-> {0, 1, 2, 3}])
TC(v) == ToJson([v |-> v, exp |-> Decl(v), asread |-> Op(v, AllDevs), devs |-> DevsOf(v), steps |-> OpSteps(OpInit(v), AllDevs)])
Init == cur = [kind |-> "init0"] /\ tc = Header
AtInit == "kind" \in DOMAIN cur
Go(v) == cur' = v /\ tc' = TC(v)
Default(v) == v.cwd = "repo" /\ v.stdin = "dirty"
\* items that end the flag part: nothing may follow `--` but operands; a flag without its value must be the last token
LastItem(items) == IF items = <<>> THEN "~none" ELSE items[Len(items)]
Ends(items) == LastItem(items) \in {"ddash", "ignNoVal"}
Start == AtInit /\ Go(Vec(<<>>, <<>>, "repo", "dirty"))
AddFlag == /\ ~AtInit /\ Default(cur) /\ cur.pos = <<>> /\ Len(cur.items) < MaxFlags /\ ~Ends(cur.items)
           /\ Len(cur.items) < MaxTotal
           /\ LastItem(cur.items) \in PairItems \cup {"~none"}
           /\ \E it \in FlagItems : Go(Vec(Append(cur.items, it), <<>>, "repo", "dirty"))
\* the operand -oneline reads as a flag unless the operands have begun
AddPos == /\ ~AtInit /\ Default(cur) /\ Len(cur.pos) < MaxPos /\ Len(cur.items) + Len(cur.pos) < MaxTotal
          /\ LastItem(cur.items) # "ignNoVal"
          /\ \E p \in PosItems : /\ (IF p = "foneline" THEN (IF cur.pos # <<>> THEN TRUE ELSE LastItem(cur.items) = "ddash") ELSE TRUE)
                                 /\ Go(Vec(cur.items, Append(cur.pos, p), "repo", "dirty"))
SetCwd == /\ ~AtInit /\ Default(cur) /\ cur.pos = <<>>
          /\ \E c \in Cwds \ {"repo"} : Go(Vec(cur.items, cur.pos, c, "dirty"))
SetStdin == /\ ~AtInit /\ Default(cur) /\ cur.pos = <<"dash">>
            /\ \E s \in Stdins \ {"dirty"} : Go(Vec(cur.items, cur.pos, "repo", s))
Next == Start \/ AddFlag \/ AddPos \/ SetCwd \/ SetStdin
Spec == Init /\ [][Next]_vars

----------------------------------------------------------------------------
(* Invariants *)
Agree == ~AtInit => Op(cur, {}) = Decl(cur)
Confined == ~AtInit => (Op(cur, AllDevs) # Decl(cur) => DevsOf(cur) # {})
\* the exit status table of the documentation, on the declarative outcome
ExitTable == ~AtInit =>
  LET e == Decl(cur) IN
  /\ e.exit \in {0, 1, 2, 3}
  /\ e.exit = 1 <=> (e.out = "diags" /\ e.classes # <<>>)                 \* 1: ran successfully, some problem found
  /\ e.exit = 2 => (e.out = "none" /\ (e.flagerr \/ e.fatal \in {"bad-ignore", "bad-format"}))       \* 2: invalid option
  /\ e.exit = 3 <=> (e.fatal \notin {"none", "bad-ignore", "bad-format"})                            \* 3: fatal error
  /\ e.exit \in {2, 3} => (e.out = "none" /\ e.classes = <<>>)            \* nothing on stdout when the command failed
  /\ e.usage => e.exit \in {0, 2}
  /\ Len(e.names) = Len(e.classes)
\* the machine terminates within a bounded number of steps
Terminates == ~AtInit => OpSteps(OpInit(cur), AllDevs) <= Len(cur.toks) + 6
TablesOK == AtInit =>
  /\ BoolFlags \cap ValueFlags = {} /\ HelpNames \cap Formal = {}
  /\ FlagItems \subseteq DOMAIN ItemToks /\ DOMAIN ItemToks = DOMAIN ItemSem
  /\ PairItems \subseteq FlagItems
  /\ PosItems \subseteq DOMAIN PosKind \cup {"dash"}
  /\ Cardinality(BoolFlags) = 7 /\ Cardinality(ValueFlags) = 6
=============================================================================
