----------------------------- MODULE CallsTrace -----------------------------
(* Trace validation for Calls: every record of trace.ndjson is one execution of the real linter on a
   generated call site of one entry of actionlint.PopularActions / OutdatedPopularActionSpecs:
     [spec, gen, iface, call, obs]
   iface = the abstract interface read off the real table entry (kind "popular" | "outdated", repo,
   inputs with the table's `required`, outputs, skipInputs, skipOutputs), call = the generated call
   site, obs = the (class, name) projection of the diagnostics.  TLC evaluates the specification on
   each record; a mismatch does not stop validation, its index is collected. *)
EXTENDS Naturals, Sequences, TLC, Json
CONSTANTS Kinds, NameSet, MaxInputs, Reqs, Defs, Types, DeclSpells, CallSpells, MaxSecrets, SecReqs, MaxOutputs,
          ValueKinds, Locs, UsesForms, Usings, Extras, Inherit, Skips
VARIABLES l, mism, drift, d, call, tc

C == INSTANCE Calls

Trace == ndJsonDeserialize("trace.ndjson")

ObsSet(r) == {C!D(r.obs[i].class, r.obs[i].name) : i \in DOMAIN r.obs}
\* the property itself, judged on the real output by the declarative layer only
PropOK(r) == ObsSet(r) \ C!Unspecified(r.iface, r.call) = C!Expected(r.iface, r.call)
\* agreement with the operational layer, and no diagnostic reported twice; a difference here alone is model drift
ModelOK(r) == /\ ObsSet(r) = C!OpOfIface(r.iface, r.call)
              /\ \A i, j \in DOMAIN r.obs : i # j => r.obs[i] # r.obs[j]

Init == l = 1 /\ mism = <<>> /\ drift = <<>> /\ d = <<>> /\ call = <<>> /\ tc = ""
Step ==
  /\ l <= Len(Trace)
  /\ LET r == Trace[l] IN
       /\ mism' = IF PropOK(r) \/ Len(mism) >= 200 THEN mism ELSE Append(mism, l)
       /\ drift' = IF ModelOK(r) \/ Len(drift) >= 200 THEN drift ELSE Append(drift, l)
  /\ l' = l + 1
  /\ UNCHANGED <<d, call, tc>>
Spec == Init /\ [][Step]_<<l, mism, drift, d, call, tc>>

Report == (l = Len(Trace) + 1) => PrintT(<<"MISM", Len(Trace), mism, drift>>)
=============================================================================
