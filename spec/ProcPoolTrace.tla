--------------------------- MODULE ProcPoolTrace ---------------------------
(* Trace validation for ProcPool: trace.ndjson holds recorded executions of the real process pool
   (schedule points emitted by the `verif` hooks, ordered by a sequence number taken under the
   tracer's mutex), several runs concatenated.  Each run starts with a "config" record (tasks per
   file in issue order with rule and programmed outcome, Cap = runtime.NumCPU of the run).

   Every other record must be a step of ProcPool:  IsEvent(name) /\ <spec action>.  Unlogged steps
   are composed into the logged one that reveals them: Callback.PDone.EDone at "done" (logged just
   before wg.Done), EndVisit before the first "rwait" of a file, EgWait before "pwait".
   A record that is not a step of the specification marks its run as rejected (bad) and the rest
   of that run is skipped, so one TLC pass examines all runs. *)
EXTENDS ProcPool, Json

VARIABLES l, failed, bad, run

Trace == ndJsonDeserialize("trace.ndjson")
tvars == <<vars, l, failed, bad, run>>

Rec == Trace[l]
IsEvent(e) == l <= Len(Trace) /\ ~failed /\ Rec.ev = e

CfgOf(r) == [seq |-> [f \in DOMAIN r.seq |-> [i \in DOMAIN r.seq[f] |-> [id |-> r.seq[f][i].id, rule |-> r.seq[f][i].rule]]],
             out |-> [t \in UNION {{r.seq[f][i].id : i \in DOMAIN r.seq[f]} : f \in DOMAIN r.seq} |->
                        LET f == t[1] i == t[2] IN r.seq[f][i].out],
             cap |-> r.cap]

SetTo(c) ==
  /\ cfg' = c
  /\ ts' = [t \in TasksOfSeq(c.seq) |-> "new"]
  /\ sema' = 0 /\ wg' = 0
  /\ pend' = [f \in DOMAIN c.seq |-> [r \in Rules |-> 0]]
  /\ err' = [f \in DOMAIN c.seq |-> [r \in Rules |-> FALSE]]
  /\ fpc' = [f \in DOMAIN c.seq |-> "visit"]
  /\ fidx' = [f \in DOMAIN c.seq |-> 1]
  /\ ferr' = [f \in DOMAIN c.seq |-> FALSE]
  /\ mpc' = "egwait"
  /\ diags' = {}

TInit == /\ l = 1 /\ failed = FALSE /\ bad = <<>> /\ run = 0
         /\ InitFor([seq |-> <<>>, out |-> <<>>, cap |-> 1])

Config == /\ l <= Len(Trace) /\ Rec.ev = "config"
          /\ SetTo(CfgOf(Rec))
          /\ failed' = FALSE /\ run' = Rec.run /\ l' = l + 1 /\ UNCHANGED bad

T == <<Rec.t[1], Rec.t[2]>>
Adv == l' = l + 1 /\ UNCHANGED <<failed, bad, run>>

TAdd == /\ IsEvent("add") /\ Run(T[1]) /\ ts'[T] = "added" /\ Adv
TGo == IsEvent("go") /\ Go(T) /\ Adv
TAcq == IsEvent("acq") /\ Acquire(T) /\ Adv
TStart == IsEvent("start") /\ ToolStart(T) /\ Adv
TExit == IsEvent("exit") /\ ToolExit(T) /\ Adv   \* (a "garbage" tool exits without an error; the callback fails)
TRel == IsEvent("rel") /\ Release(T) /\ Adv
\* Callback . PDone . EDone
TDone ==
  /\ IsEvent("done") /\ ts[T] = "released"
  /\ ts' = [ts EXCEPT ![T] = "done"]
  /\ diags' = IF Outcome(T) = "issues" THEN diags \cup {T} ELSE diags
  /\ wg' = wg - 1
  /\ pend' = [pend EXCEPT ![T[1]][RuleOf(T)] = @ - 1]
  /\ err' = [err EXCEPT ![T[1]][RuleOf(T)] = @ \/ Outcome(T) = "bad"]
  /\ UNCHANGED <<cfg, sema, fpc, fidx, ferr, mpc>> /\ Adv
\* (EndVisit .) RuleWait
TRWait ==
  /\ IsEvent("rwait")
  /\ LET f == Rec.f  r == Rec.rule IN
     /\ \/ fpc[f] = "post_" \o r
        \/ (fpc[f] = "visit" /\ r = "sc" /\ fidx[f] > Len(cfg.seq[f]))
     /\ pend[f][r] = 0
     /\ IF err[f][r]
          THEN fpc' = [fpc EXCEPT ![f] = "done"] /\ ferr' = [ferr EXCEPT ![f] = TRUE]
          ELSE fpc' = [fpc EXCEPT ![f] = IF r = "sc" THEN "post_py" ELSE "done"] /\ UNCHANGED ferr
  /\ UNCHANGED <<cfg, ts, sema, wg, pend, err, fidx, mpc, diags>> /\ Adv
\* EgWait . ProcWait   (WaitOnError: proc.wait() is reached on the fatal path too)
TPWait ==
  /\ IsEvent("pwait") /\ mpc = "egwait" /\ \A f \in Files : fpc[f] = "done"
  /\ wg = 0
  /\ mpc' = IF AnyFatal THEN "ret_fatal" ELSE "ret_ok"
  /\ UNCHANGED <<cfg, ts, sema, wg, pend, err, fpc, fidx, ferr, diags>> /\ Adv
\* the call returned to the harness: fatal flag, diagnostics per task, tools still alive
\* (The property is about what is still running, not about which wait primitive was used: a fatal
\* return that skipped proc.wait() is accepted here iff nothing is in flight any more.)
TRet ==
  /\ IsEvent("ret")
  /\ \/ Returned /\ Rec.fatal = (mpc = "ret_fatal")
     \/ mpc = "egwait" /\ (\A f \in Files : fpc[f] = "done") /\ AnyFatal /\ Rec.fatal
  /\ Rec.alive = 0
  /\ InFlight = {}
  /\ Rec.maxalive <= cfg.cap          \* measured on the real tool processes
  /\ Rec.extra_starts = 0            \* no script of another shell reached a tool
  /\ \A t \in Tasks : Rec.starts[t[1]][t[2]] = 1      \* every script passed exactly once
  /\ (~Rec.fatal) => \A t \in Tasks : Rec.ndiags[t[1]][t[2]] = (IF Outcome(t) = "issues" THEN Rec.issues[t[1]][t[2]] ELSE 0)
  /\ UNCHANGED vars /\ Adv

Match == TAdd \/ TGo \/ TAcq \/ TStart \/ TExit \/ TRel \/ TDone \/ TRWait \/ TPWait \/ TRet

Skip == /\ l <= Len(Trace) /\ Rec.ev # "config"
        /\ (failed \/ ~ENABLED Match)
        /\ bad' = IF failed \/ Len(bad) >= 100 THEN bad ELSE Append(bad, <<run, l>>)
        /\ failed' = TRUE /\ l' = l + 1 /\ UNCHANGED <<vars, run>>

TNext == Config \/ Match \/ Skip
TSpec == TInit /\ [][TNext]_tvars

Report == (l = Len(Trace) + 1) => PrintT(<<"MISM", Len(Trace), bad, <<>>>>)
=============================================================================
