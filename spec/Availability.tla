---------------------------- MODULE Availability ----------------------------
(* C12 - context and special-function availability follows GitHub's table exactly.

   Declarative layer : Table    - GitHub's "Context availability" table, transcribed row by row from
                                  the offline copy of the documentation page
                                  /repo/scripts/generate-availability/testdata/ok.md
                                  (NOT from availability.go; the check compares the two).
                       Positions- catalogue of the scalar positions of a workflow file (YAML paths)
                                  at which a ${{ }} expression can be written.
                       KeyOf(p) - the table key that governs a position: the longest table key that
                                  is a prefix pattern of the path (<job_id>, <env_id>, ... are
                                  wildcards, sequence indices are ignored); NoKey if there is none.
                       Allowed(p, n) == n is listed in the row of KeyOf(p); at positions without a
                                  governing key no context and no special function is allowed.
   Operational layer : p.code   - the workflow-key string that rule_expression.go passes at the call
                                  site checking that AST field ("" = no key), as read from the code;
                       OpReported(p, n) - checkAvailableContext / checkSpecialFunctionAvailability:
                                  reported iff n is not in WorkflowKeyAvailability(p.code), with the
                                  rows of the table standing for availability.go.
   TLC checks (model level): the table is a total function on its 34 keys with well-formed rows;
   KeyOf is defined and unique for every position; every table key governs at least one position;
   the call-site keys read from the code select the same row as KeyOf; OpReported = ~Allowed; the
   verdict does not depend on the embedding.

   Generator: the state machine enumerates
     (position, name, embedding, base-workflow variant)   -> tc.kind = "vec"  (through Linter.Lint)
     (key in table or absent from it, name)               -> tc.kind = "api"  (ExprSemanticsChecker)
     (key in table)                                       -> tc.kind = "row"  (WorkflowKeyAvailability)
   `tc` is the JSON vector with the predicted verdict `allowed`; the harness replays all of them. *)
EXTENDS Naturals, Sequences, FiniteSets, TLC, Json

CONSTANTS Embeddings,     \* embedding tags enabled in this configuration
          CallCopyVariants, \* base-workflow variants used for the copies of positions inside a call job
          DeepForms,      \* forms of positions at which the nested-operator embeddings (DeepEmbeddings) are linted too
          Variants        \* base-workflow variants: 0 = minimal, 1 = decorated (other jobs and steps, needs, matrix),
                          \* 2 / 3 = the same two with the value written as a double-quoted scalar

Contexts   == {"github", "env", "vars", "job", "jobs", "steps", "runner", "secrets", "strategy",
               "matrix", "needs", "inputs"}
SpecialFns == {"always", "cancelled", "success", "failure", "hashFiles"}
Names      == Contexts \cup SpecialFns

----------------------------------------------------------------------------
(* GitHub's table.  One K(...) per row of the documentation table, in the order of the page. *)
K(segs, ctx, fns) == [segs |-> segs, ctx |-> ctx, fns |-> fns]
J  == "<job_id>"
None == {}
StepAll == {"github", "needs", "strategy", "matrix", "job", "runner", "env", "vars", "secrets", "steps", "inputs"}

Table == {
  K(<<"run-name">>,                                   {"github", "inputs", "vars"}, None),
  K(<<"concurrency">>,                                {"github", "inputs", "vars"}, None),
  K(<<"env">>,                                        {"github", "secrets", "inputs", "vars"}, None),
  K(<<"jobs", J, "concurrency">>,                     {"github", "needs", "strategy", "matrix", "inputs", "vars"}, None),
  K(<<"jobs", J, "container">>,                       {"github", "needs", "strategy", "matrix", "vars", "inputs"}, None),
  K(<<"jobs", J, "container", "credentials">>,        {"github", "needs", "strategy", "matrix", "env", "vars", "secrets", "inputs"}, None),
  K(<<"jobs", J, "container", "env", "<env_id>">>,    {"github", "needs", "strategy", "matrix", "job", "runner", "env", "vars", "secrets", "inputs"}, None),
  K(<<"jobs", J, "container", "image">>,              {"github", "needs", "strategy", "matrix", "vars", "inputs"}, None),
  K(<<"jobs", J, "continue-on-error">>,               {"github", "needs", "strategy", "vars", "matrix", "inputs"}, None),
  K(<<"jobs", J, "defaults", "run">>,                 {"github", "needs", "strategy", "matrix", "env", "vars", "inputs"}, None),
  K(<<"jobs", J, "env">>,                             {"github", "needs", "strategy", "matrix", "vars", "secrets", "inputs"}, None),
  K(<<"jobs", J, "environment">>,                     {"github", "needs", "strategy", "matrix", "vars", "inputs"}, None),
  K(<<"jobs", J, "environment", "url">>,              {"github", "needs", "strategy", "matrix", "job", "runner", "env", "vars", "steps", "inputs"}, None),
  K(<<"jobs", J, "if">>,                              {"github", "needs", "vars", "inputs"}, {"always", "cancelled", "success", "failure"}),
  K(<<"jobs", J, "name">>,                            {"github", "needs", "strategy", "matrix", "vars", "inputs"}, None),
  K(<<"jobs", J, "outputs", "<output_id>">>,          {"github", "needs", "strategy", "matrix", "job", "runner", "env", "vars", "secrets", "steps", "inputs"}, None),
  K(<<"jobs", J, "runs-on">>,                         {"github", "needs", "strategy", "matrix", "vars", "inputs"}, None),
  K(<<"jobs", J, "secrets", "<secrets_id>">>,         {"github", "needs", "strategy", "matrix", "secrets", "inputs", "vars"}, None),
  K(<<"jobs", J, "services">>,                        {"github", "needs", "strategy", "matrix", "vars", "inputs"}, None),
  K(<<"jobs", J, "services", "<service_id>", "credentials">>,
                                                      {"github", "needs", "strategy", "matrix", "env", "vars", "secrets", "inputs"}, None),
  K(<<"jobs", J, "services", "<service_id>", "env", "<env_id>">>,
                                                      {"github", "needs", "strategy", "matrix", "job", "runner", "env", "vars", "secrets", "inputs"}, None),
  K(<<"jobs", J, "steps", "continue-on-error">>,      StepAll, {"hashFiles"}),
  K(<<"jobs", J, "steps", "env">>,                    StepAll, {"hashFiles"}),
  K(<<"jobs", J, "steps", "if">>,                     {"github", "needs", "strategy", "matrix", "job", "runner", "env", "vars", "steps", "inputs"},
                                                      {"always", "cancelled", "success", "failure", "hashFiles"}),
  K(<<"jobs", J, "steps", "name">>,                   StepAll, {"hashFiles"}),
  K(<<"jobs", J, "steps", "run">>,                    StepAll, {"hashFiles"}),
  K(<<"jobs", J, "steps", "timeout-minutes">>,        StepAll, {"hashFiles"}),
  K(<<"jobs", J, "steps", "with">>,                   StepAll, {"hashFiles"}),
  K(<<"jobs", J, "steps", "working-directory">>,      StepAll, {"hashFiles"}),
  K(<<"jobs", J, "strategy">>,                        {"github", "needs", "vars", "inputs"}, None),
  K(<<"jobs", J, "timeout-minutes">>,                 {"github", "needs", "strategy", "matrix", "vars", "inputs"}, None),
  K(<<"jobs", J, "with", "<with_id>">>,               {"github", "needs", "strategy", "matrix", "inputs", "vars"}, None),
  K(<<"on", "workflow_call", "inputs", "<inputs_id>", "default">>,
                                                      {"github", "inputs", "vars"}, None),
  K(<<"on", "workflow_call", "outputs", "<output_id>", "value">>,
                                                      {"github", "jobs", "vars", "inputs"}, None)
}
NumberOfRowsInTheDocumentation == 34

KeyWild == {"<job_id>", "<env_id>", "<service_id>", "<output_id>", "<secrets_id>", "<with_id>", "<inputs_id>"}

\* "a.b[*].c" from <<"a", "b", "[*]", "c">>
RECURSIVE JoinFrom(_, _)
JoinFrom(s, i) ==
  IF i > Len(s) THEN ""
  ELSE (IF i = 1 \/ s[i] = "[*]" THEN "" ELSE ".") \o s[i] \o JoinFrom(s, i + 1)
Join(s) == JoinFrom(s, 1)

KeyName(k) == Join(k.segs)
KeyNames == {KeyName(k) : k \in Table}
RowOf(name) == CHOOSE k \in Table : KeyName(k) = name
NoKey == K(<<>>, {}, {})
NameOfKey(k) == IF k = NoKey THEN "none" ELSE KeyName(k)

----------------------------------------------------------------------------
(* Positions.  path: YAML path, "<...>" = a user-chosen mapping key, "[*]" = a sequence element.
   form: "tmpl" = template string (text and several ${{ }} allowed), "one" = exactly one ${{ }}
         (bool / number / object / array positions and the like), "cond" = an `if:` condition
         written without ${{ }}.
   var : distinguishes several syntactic forms at the same path.
   code: the workflow key passed by the call site of rule_expression.go that checks this field.
   Every place where parse.go accepts one ${{ }} instead of a mapping / sequence / bool / number is a
   position of its own (var "expr" or form "one"): env (workflow, job, step, container, service),
   matrix, matrix rows, include / exclude and their elements, services, runs-on and labels. *)
\* alt: a second table key that the documentation can equally be read to mean at this position ("" = none)
PA(path, form, var, code, alt) == [path |-> path, form |-> form, var |-> var, code |-> code, alt |-> alt]
P(path, form, var, code) == PA(path, form, var, code, "")
ST == <<"jobs", J, "steps", "[*]">>
CT == <<"jobs", J, "container">>
SV == <<"jobs", J, "services", "<service_id>">>
MX == <<"jobs", J, "strategy", "matrix">>
WC == <<"on", "workflow_call">>
WD == <<"on", "workflow_dispatch", "inputs", "<input_id>">>

kCont == "jobs.<job_id>.container"
kSvc  == "jobs.<job_id>.services"
kStr  == "jobs.<job_id>.strategy"
kWith == "jobs.<job_id>.steps.with"

BasePositions == {
  \* ---- workflow level (VisitWorkflowPre / VisitWorkflowPost)
  P(<<"name">>, "tmpl", "", ""),
  P(<<"run-name">>, "tmpl", "", "run-name"),
  P(<<"env", "<env_name>">>, "tmpl", "", "env"),
  P(<<"env">>, "one", "expr", "env"),
  P(<<"defaults", "run", "shell">>, "tmpl", "", ""),
  P(<<"defaults", "run", "working-directory">>, "tmpl", "", ""),
  P(<<"concurrency">>, "tmpl", "", "concurrency"),
  P(<<"concurrency", "group">>, "tmpl", "", "concurrency"),
  P(<<"concurrency", "cancel-in-progress">>, "one", "", "concurrency"),
  P(WC \o <<"inputs", "<input_id>", "default">>, "tmpl", "", "on.workflow_call.inputs.<inputs_id>.default"),
  P(WC \o <<"inputs", "<input_id>", "default">>, "one", "boolean", "on.workflow_call.inputs.<inputs_id>.default"),
  P(WC \o <<"inputs", "<input_id>", "default">>, "one", "number", "on.workflow_call.inputs.<inputs_id>.default"),
  P(WC \o <<"inputs", "<input_id>", "description">>, "tmpl", "", ""),
  P(WC \o <<"secrets", "<secret_id>", "description">>, "tmpl", "", ""),
  P(WC \o <<"outputs", "<output_id>", "description">>, "tmpl", "", ""),
  P(WC \o <<"outputs", "<output_id>", "value">>, "tmpl", "", "on.workflow_call.outputs.<output_id>.value"),
  P(WD \o <<"description">>, "tmpl", "", ""),
  P(WD \o <<"default">>, "tmpl", "", ""),
  P(WD \o <<"required">>, "one", "", ""),
  P(WD \o <<"options", "[*]">>, "tmpl", "", ""),
  P(<<"on", "push", "paths", "[*]">>, "tmpl", "", ""),
  P(<<"on", "workflow_run", "workflows", "[*]">>, "tmpl", "", ""),
  P(<<"on", "repository_dispatch", "types", "[*]">>, "tmpl", "", ""),
  \* ---- job level (VisitJobPre / VisitJobPost)
  P(<<"jobs", J, "name">>, "tmpl", "", "jobs.<job_id>.name"),
  P(<<"jobs", J, "name">>, "tmpl", "call", "jobs.<job_id>.name"),
  P(<<"jobs", J, "runs-on">>, "tmpl", "", "jobs.<job_id>.runs-on"),
  P(<<"jobs", J, "runs-on", "[*]">>, "tmpl", "", "jobs.<job_id>.runs-on"),
  P(<<"jobs", J, "runs-on", "labels">>, "tmpl", "", "jobs.<job_id>.runs-on"),
  P(<<"jobs", J, "runs-on", "labels", "[*]">>, "tmpl", "", "jobs.<job_id>.runs-on"),
  P(<<"jobs", J, "runs-on", "group">>, "tmpl", "", "jobs.<job_id>.runs-on"),
  P(<<"jobs", J, "environment">>, "tmpl", "", "jobs.<job_id>.environment"),
  P(<<"jobs", J, "environment", "name">>, "tmpl", "", "jobs.<job_id>.environment"),
  P(<<"jobs", J, "environment", "url">>, "tmpl", "", "jobs.<job_id>.environment.url"),
  P(<<"jobs", J, "concurrency">>, "tmpl", "", "jobs.<job_id>.concurrency"),
  P(<<"jobs", J, "concurrency", "group">>, "tmpl", "", "jobs.<job_id>.concurrency"),
  P(<<"jobs", J, "concurrency", "cancel-in-progress">>, "one", "", "jobs.<job_id>.concurrency"),
  P(<<"jobs", J, "outputs", "<output_id>">>, "tmpl", "", "jobs.<job_id>.outputs.<output_id>"),
  P(<<"jobs", J, "env", "<env_name>">>, "tmpl", "", "jobs.<job_id>.env"),
  P(<<"jobs", J, "env">>, "one", "expr", "jobs.<job_id>.env"),
  P(<<"jobs", J, "defaults", "run", "shell">>, "tmpl", "", "jobs.<job_id>.defaults.run"),
  P(<<"jobs", J, "defaults", "run", "working-directory">>, "tmpl", "", "jobs.<job_id>.defaults.run"),
  P(<<"jobs", J, "if">>, "cond", "", "jobs.<job_id>.if"),
  P(<<"jobs", J, "if">>, "one", "braces", "jobs.<job_id>.if"),
  P(<<"jobs", J, "if">>, "cond", "call", "jobs.<job_id>.if"),
  P(<<"jobs", J, "if">>, "one", "braces-call", "jobs.<job_id>.if"),
  P(<<"jobs", J, "strategy", "fail-fast">>, "one", "", kStr),
  P(<<"jobs", J, "strategy", "max-parallel">>, "one", "", kStr),
  P(MX, "one", "expr", kStr),
  P(MX \o <<"<row>">>, "one", "expr", kStr),
  P(MX \o <<"<row>", "[*]">>, "tmpl", "", kStr),
  P(MX \o <<"<row>", "[*]", "<key>">>, "tmpl", "", kStr),
  P(MX \o <<"<row>", "[*]", "[*]">>, "tmpl", "", kStr),
  \* the same kinds of element after an EARLIER sibling that is an expression of type any (the code merges the
  \* element types while it walks the siblings), and elements of sequences / mappings nested one level deeper
  P(MX \o <<"<row>", "[*]">>, "tmpl", "after-any", kStr),
  P(MX \o <<"<row>", "[*]", "<key>">>, "tmpl", "after-any", kStr),
  P(MX \o <<"<row>", "[*]", "[*]">>, "tmpl", "after-any", kStr),
  P(MX \o <<"<row>", "[*]", "[*]", "[*]">>, "tmpl", "after-any", kStr),
  P(MX \o <<"<row>", "[*]", "<key>", "[*]">>, "tmpl", "after-any", kStr),
  P(MX \o <<"<row>", "[*]", "<key>", "<key>">>, "tmpl", "after-any", kStr),
  P(MX \o <<"include">>, "one", "expr", kStr),
  P(MX \o <<"include", "[*]">>, "one", "expr", kStr),
  P(MX \o <<"include", "[*]", "<key>">>, "tmpl", "", kStr),
  P(MX \o <<"include", "[*]", "<key>">>, "tmpl", "after-any", kStr),
  P(MX \o <<"include", "[*]", "<key>", "[*]">>, "tmpl", "", kStr),
  P(MX \o <<"include", "[*]", "<key>", "[*]">>, "tmpl", "after-any", kStr),
  P(MX \o <<"include", "[*]", "<key>", "<key>">>, "tmpl", "", kStr),
  P(MX \o <<"include", "[*]", "<key>", "<key>">>, "tmpl", "after-any", kStr),
  P(MX \o <<"exclude">>, "one", "expr", kStr),
  P(MX \o <<"exclude", "[*]">>, "one", "expr", kStr),
  P(MX \o <<"exclude", "[*]", "<key>">>, "tmpl", "", kStr),
  P(MX \o <<"exclude", "[*]", "<key>">>, "tmpl", "after-any", kStr),
  P(MX \o <<"exclude", "[*]", "<key>", "[*]">>, "tmpl", "", kStr),
  P(MX \o <<"exclude", "[*]", "<key>", "[*]">>, "tmpl", "after-any", kStr),
  P(MX \o <<"exclude", "[*]", "<key>", "<key>">>, "tmpl", "", kStr),
  P(MX \o <<"exclude", "[*]", "<key>", "<key>">>, "tmpl", "after-any", kStr),
  P(<<"jobs", J, "continue-on-error">>, "one", "", "jobs.<job_id>.continue-on-error"),
  P(<<"jobs", J, "timeout-minutes">>, "one", "", "jobs.<job_id>.timeout-minutes"),
  P(CT, "tmpl", "", kCont),
  P(CT \o <<"image">>, "tmpl", "", kCont),
  P(CT \o <<"credentials", "username">>, "tmpl", "", "jobs.<job_id>.container.credentials"),
  P(CT \o <<"credentials", "password">>, "one", "", "jobs.<job_id>.container.credentials"),
  P(CT \o <<"env", "<env_name>">>, "tmpl", "", "jobs.<job_id>.container.env.<env_id>"),
  \* `env: ${{ }}` of a container: the path is below `...container` (longest prefix) but the expression yields the
  \* members governed by `...container.env.<env_id>`; the documentation does not say which row applies (DESIGN 5.22),
  \* so only names on which both rows agree are judged
  PA(CT \o <<"env">>, "one", "expr", "jobs.<job_id>.container.env.<env_id>", "jobs.<job_id>.container.env.<env_id>"),
  P(CT \o <<"ports", "[*]">>, "tmpl", "", kCont),
  P(CT \o <<"volumes", "[*]">>, "tmpl", "", kCont),
  P(CT \o <<"options">>, "tmpl", "", kCont),
  P(<<"jobs", J, "services">>, "one", "expr", kSvc),
  P(SV, "tmpl", "", kSvc),
  P(SV \o <<"image">>, "tmpl", "", kSvc),
  P(SV \o <<"credentials", "username">>, "tmpl", "", "jobs.<job_id>.services.<service_id>.credentials"),
  P(SV \o <<"credentials", "password">>, "one", "", "jobs.<job_id>.services.<service_id>.credentials"),
  P(SV \o <<"env", "<env_name>">>, "tmpl", "", "jobs.<job_id>.services.<service_id>.env.<env_id>"),
  PA(SV \o <<"env">>, "one", "expr", "jobs.<job_id>.services.<service_id>.env.<env_id>",
     "jobs.<job_id>.services.<service_id>.env.<env_id>"),
  P(SV \o <<"ports", "[*]">>, "tmpl", "", kSvc),
  P(SV \o <<"volumes", "[*]">>, "tmpl", "", kSvc),
  P(SV \o <<"options">>, "tmpl", "", kSvc),
  P(<<"jobs", J, "uses">>, "tmpl", "", ""),
  P(<<"jobs", J, "with", "<input_id>">>, "tmpl", "", "jobs.<job_id>.with.<with_id>"),
  P(<<"jobs", J, "secrets", "<secret_id>">>, "tmpl", "", "jobs.<job_id>.secrets.<secrets_id>"),
  \* ---- step level (VisitStep)
  P(ST \o <<"name">>, "tmpl", "", "jobs.<job_id>.steps.name"),
  P(ST \o <<"if">>, "cond", "", "jobs.<job_id>.steps.if"),
  P(ST \o <<"if">>, "one", "braces", "jobs.<job_id>.steps.if"),
  P(ST \o <<"run">>, "tmpl", "", "jobs.<job_id>.steps.run"),
  P(ST \o <<"shell">>, "tmpl", "", ""),
  P(ST \o <<"uses">>, "tmpl", "", ""),
  P(ST \o <<"id">>, "tmpl", "", ""),
  P(ST \o <<"working-directory">>, "tmpl", "", "jobs.<job_id>.steps.working-directory"),
  P(ST \o <<"with", "<input_id>">>, "tmpl", "", kWith),
  P(ST \o <<"with", "<input_id>">>, "tmpl", "github-script", kWith),
  P(ST \o <<"with", "entrypoint">>, "tmpl", "", kWith),
  P(ST \o <<"with", "args">>, "tmpl", "", kWith),
  P(ST \o <<"env", "<env_name>">>, "tmpl", "", "jobs.<job_id>.steps.env"),
  P(ST \o <<"env">>, "one", "expr", "jobs.<job_id>.steps.env"),
  P(ST \o <<"continue-on-error">>, "one", "", "jobs.<job_id>.steps.continue-on-error"),
  P(ST \o <<"timeout-minutes">>, "one", "", "jobs.<job_id>.steps.timeout-minutes")
}
(* A job that calls a reusable workflow (`uses:`) may also have name, if, concurrency, strategy and services besides
   with / secrets (parse.go: the keys that are not "steps only"); the table does not distinguish the two kinds of job,
   so every position below these sections exists a second time, rendered inside a call job, with the same row.
   (name#call, if#call, if#braces-call, uses, with, secrets are listed above.) *)
CallSections == {"concurrency", "strategy", "services"}
CallVar(v) == IF v = "" THEN "call" ELSE v \o "-call"
CallCopies == {PA(p.path, p.form, CallVar(p.var), p.code, p.alt) :
                 p \in {q \in BasePositions : Len(q.path) >= 3 /\ q.path[1] = "jobs" /\ q.path[3] \in CallSections}}
(* Sibling configurations of the matrix: a value of a row / of an include combination / of an exclude combination,
   judged while the OTHER sections are absent ("none"), literal ("lit"), given as one expression ("expr") or hold an
   expression element ("elem"); rows are literal or one expression.  var = sib-<rows>-<include>-<exclude>.
   The verdict (row of jobs.<job_id>.strategy) does not depend on the siblings. *)
SibStates == {"none", "lit", "expr", "elem"}
SibVar(r, i, x) == "sib-" \o r \o "-" \o i \o "-" \o x
MatrixSiblings ==
  {P(MX \o <<"<row>", "[*]">>, "tmpl", SibVar("lit", i, x), kStr) : i \in SibStates, x \in SibStates}
  \cup {P(MX \o <<"include", "[*]", "<key>">>, "tmpl", SibVar(r, i, x), kStr) :
           r \in {"lit", "expr"}, i \in {"lit", "elem"}, x \in SibStates}
  \cup {P(MX \o <<"exclude", "[*]", "<key>">>, "tmpl", SibVar(r, i, x), kStr) :
           r \in {"lit", "expr"}, i \in SibStates, x \in {"lit", "elem"}}
(* The callee of a call job: remote (the positions above), a local file that declares the input / secret, a local file
   that does not declare it, a local file that cannot be read.  Linted inside a scratch project so that the file is
   really read.  The verdict does not depend on the callee. *)
Callees == {"local-declared", "local-undeclared", "local-missing"}
CalleeVariants ==
  {P(<<"jobs", J, "with", "<input_id>">>, "tmpl", c, "jobs.<job_id>.with.<with_id>") : c \in Callees}
  \cup {P(<<"jobs", J, "secrets", "<secret_id>">>, "tmpl", c, "jobs.<job_id>.secrets.<secrets_id>") : c \in Callees}
Positions == BasePositions \cup CallCopies \cup MatrixSiblings \cup CalleeVariants
IsCallCopy(p) == p \in CallCopies \cup MatrixSiblings \cup CalleeVariants
(* Not catalogued, with the reason:
   - event names, webhook `types`, branch/tag filter patterns, `cron`, `needs`: no table key and other
     rules (events, glob, job-needs) report on a placeholder there, so the verdict of the expression
     rule cannot be isolated (tried with a neutral placeholder).  Input `type`, `permissions` values,
     `secrets: inherit` and `required:` of workflow_call inputs/secrets are not evaluated as templates
     (C03's exclusion list).
   - mapping keys (env names, matrix keys): not values. *)

PosId(p) == Join(p.path) \o (IF p.var = "" THEN "" ELSE "#" \o p.var)

PathWild == {"<job_id>", "<env_name>", "<input_id>", "<output_id>", "<secret_id>", "<service_id>", "<row>", "<key>"}
SegMatch(k, s) == IF k \in KeyWild THEN s \in PathWild ELSE k = s
Strip(path) == SelectSeq(path, LAMBDA s : s # "[*]")
IsPrefixKey(k, path) ==
  LET q == Strip(path) IN
  /\ Len(k.segs) <= Len(q)
  /\ \A i \in 1 .. Len(k.segs) : SegMatch(k.segs[i], q[i])
Cands(path) == {k \in Table : IsPrefixKey(k, path)}
KeyOf(p) == LET c == Cands(p.path) IN
            IF c = {} THEN NoKey
            ELSE CHOOSE k \in c : \A o \in c : Len(o.segs) <= Len(k.segs)

\* ---- declarative verdict (the property)
InRow(k, n) == n \in (k.ctx \cup k.fns)
AltRow(p) == IF p.alt = "" THEN KeyOf(p) ELSE RowOf(p.alt)
Allowed(p, n) == InRow(KeyOf(p), n) /\ InRow(AltRow(p), n)          \* NoKey: nothing is allowed
Ambiguous(p, n) == InRow(KeyOf(p), n) # InRow(AltRow(p), n)         \* the two readings differ: not judged
AllowedAtKey(keyname, n) == IF keyname \in KeyNames THEN n \in (RowOf(keyname).ctx \cup RowOf(keyname).fns)
                            ELSE FALSE

\* ---- operational verdict (the code as read): WorkflowKeyAvailability(p.code), "" = no key = empty lists
OpRow(p) == IF p.code \in KeyNames THEN RowOf(p.code) ELSE NoKey
OpReported(p, n) == n \notin (OpRow(p).ctx \cup OpRow(p).fns)

----------------------------------------------------------------------------
(* Embeddings of a name inside the value.  W(x) = fromJSON(toJSON(x)) has type `any` and is accepted
   at every position; the harness renders the texts.
     wrap   W(NAME)                       upper  W(NAME in upper case)
     and    W(NAME) && W('x')             or     W('x') || W(NAME)
     arg    fromJSON(format('{0}', toJSON(NAME)))
     index  W('x')[W(NAME)]               not    W(!W(NAME))
     cmp    W(W(NAME) == 'x')             deep   W('x')[format('{0}', toJSON(NAME))].y
     lower  W(name in lower case)         mixed  W(NaMe)
     text   pre-${{ W(NAME) }}-post       second ${{ 'x' }}${{ W(NAME) }}      (template strings only)
     direct NAME(...)                     (special functions only, where a bool/string fits)
     ternary W(NAME) && W('a') || W('b')  nand   !(W(NAME) && W('a')) && W('b')    (the cond && x || y idiom:
                                          the checker narrows types there and must still visit every operand)   *)
(* Place of the occurrence in the expression tree.  A frame puts its operand H at one place of a node:
     orL  H || A     orR  A || H     andL  H && A     andR  A && H     not  !H
     cmpL H == 'a'   cmpR 'a' != H   argFormat format('{0}', H)        argContains contains(H, 'a')
     idx  A[H]       recv H.y        recvIdx H['y']
   A frame sequence is applied innermost first to W(NAME) (and to the bare NAME where the types allow);
   the logical frames and `not` may be stacked (the checker narrows types along && || ! and must still
   visit every operand), the others sit directly on the occurrence.  The verdict is the same for all. *)
LogicFrames == {"orL", "orR", "andL", "andR", "not"}
LeafFrames  == {"cmpL", "cmpR", "argFormat", "argContains", "idx", "recv", "recvIdx"}
FrameSeqs == LET F1 == LogicFrames \cup LeafFrames IN
             {<<f>> : f \in F1} \cup {<<f, g>> : f \in F1, g \in LogicFrames}
               \cup {<<f, g, h>> : f \in F1, g \in LogicFrames, h \in LogicFrames}
RECURSIVE DotsFrom(_, _)
DotsFrom(s, i) == IF i > Len(s) THEN "" ELSE (IF i = 1 THEN "" ELSE ".") \o s[i] \o DotsFrom(s, i + 1)
FrameName(s) == "f:" \o DotsFrom(s, 1)
\* through Linter.Lint: both operators x both sides, nested one and two levels, and `!` at each level of a pair
Binary == {"orL", "orR", "andL", "andR"}
LintFrameSeqs == {<<f>> : f \in Binary} \cup {<<f, g>> : f \in Binary, g \in Binary}
                   \cup {<<"not", f, g>> : f \in {"orL", "andL"}, g \in {"orL", "andL"}}
                   \cup {<<f, "not", g>> : f \in {"orL", "andL"}, g \in {"orL", "andL"}}
DeepEmbeddings == {FrameName(s) : s \in LintFrameSeqs}

\* a lone ${{ }} at `runs-on` / `labels` is type-checked (string or array): a bare bool call does not fit
TypedWhenSingle(p) == \/ p.path \in {<<"jobs", J, "runs-on">>, <<"jobs", J, "runs-on", "labels">>}
                      \/ p.var = "local-declared"      \* the declared input is typed string by the callee
AllEmbeddings == {"wrap", "upper", "and", "or", "arg", "index", "not", "cmp", "deep", "lower", "mixed",
                  "text", "second", "direct", "ternary", "nand", "bracket"}
\* "bracket": ctx['known-property'] - the literal-index spelling of a property access; only for the built-in
\* contexts whose object type is strict and has the same properties at every position
BracketContexts == {"github", "runner", "job", "strategy"}
EmbOK(p, n, e) ==
  /\ e \in Embeddings \/ (e \in DeepEmbeddings /\ p.form \in DeepForms)
  /\ e \in {"text", "second"} => p.form = "tmpl"
  /\ e = "nand" => p.form # "cond"        \* a bare `if: !(...)` would be a YAML tag
  /\ e = "bracket" => n \in BracketContexts
  /\ e = "direct" => n \in SpecialFns /\ p.form \in {"tmpl", "cond"} /\ ~TypedWhenSingle(p)

AbsentKeys ==
  (UNION {{Join(SubSeq(Strip(p.path), 1, i)) : i \in 0 .. Len(Strip(p.path))} : p \in Positions}
     \cup {"ENV", "Run-Name", "jobs.<job_id>.steps", "jobs.<job_id>.steps.with.<with_id>", "jobs.<job_id>.steps.uses",
           "jobs.<job_id>.steps.shell", "jobs.<job_id>.steps.id", "jobs.<job_id>.needs", "jobs.<job_id>.uses",
           "jobs.<job_id>.permissions", "on", "jobs", "jobs.<job_id>", "on.workflow_call.inputs.<inputs_id>",
           "jobs.<job_id>.container.env", "jobs.<job_id>.services.<service_id>", "jobs.<job_id>.steps.run.x"})
  \ KeyNames

----------------------------------------------------------------------------
(* Generator *)
VARIABLES cur, tc
vars == <<cur, tc>>

Blank == [stage |-> "init", p |-> P(<<>>, "", "", ""), pos |-> "", key |-> "", name |-> "", emb |-> "", variant |-> 0]
Kind(n) == IF n \in Contexts THEN "ctx" ELSE "fn"

Header == ToJson([kind |-> "header",
                  keys |-> KeyNames, absent |-> AbsentKeys, contexts |-> Contexts, fns |-> SpecialFns,
                  frames |-> FrameSeqs,
                  positions |-> {[pos |-> PosId(p), form |-> p.form, key |-> NameOfKey(KeyOf(p)), code |-> p.code] : p \in Positions}])

Init == cur = Blank /\ tc = Header

PickPos == /\ cur.stage = "init"
           /\ \E p \in Positions :
                /\ cur' = [cur EXCEPT !.stage = "pos", !.p = p, !.pos = PosId(p), !.key = NameOfKey(KeyOf(p))]
                /\ tc' = ToJson([kind |-> "pos", pos |-> PosId(p)])
PickName == /\ cur.stage = "pos"
            /\ \E n \in Names :
                 /\ cur' = [cur EXCEPT !.stage = "posname", !.name = n]
                 /\ tc' = ToJson([kind |-> "posname", pos |-> cur.pos, name |-> n])
PickEmb == /\ cur.stage = "posname"
           /\ \E e \in AllEmbeddings \cup DeepEmbeddings, v \in Variants :
                LET p == cur.p IN
                /\ EmbOK(p, cur.name, e)
                /\ e \in DeepEmbeddings => v = 0
                /\ IsCallCopy(p) => v \in CallCopyVariants
                /\ cur' = [cur EXCEPT !.stage = "vec", !.emb = e, !.variant = v]
                /\ tc' = ToJson([kind |-> "vec", pos |-> cur.pos, form |-> p.form, key |-> cur.key,
                                 name |-> cur.name, nkind |-> Kind(cur.name), emb |-> e, variant |-> v,
                                 allowed |-> Allowed(p, cur.name), ambiguous |-> Ambiguous(p, cur.name),
                                 constrained |-> (KeyOf(p) # NoKey)])
PickKey == /\ cur.stage = "init"
           /\ \E k \in KeyNames \cup AbsentKeys :
                /\ cur' = [cur EXCEPT !.stage = "key", !.key = k]
                /\ tc' = IF k \in KeyNames
                           THEN ToJson([kind |-> "row", key |-> k, intable |-> TRUE,
                                        ctx |-> RowOf(k).ctx, fns |-> RowOf(k).fns])
                           ELSE ToJson([kind |-> "row", key |-> k, intable |-> FALSE, ctx |-> {}, fns |-> {}])
PickKeyName == /\ cur.stage = "key"
               /\ \E n \in Names :
                    /\ cur' = [cur EXCEPT !.stage = "api", !.name = n]
                    /\ tc' = ToJson([kind |-> "api", key |-> cur.key, name |-> n, nkind |-> Kind(n),
                                     intable |-> (cur.key \in KeyNames), allowed |-> AllowedAtKey(cur.key, n)])
Next == PickPos \/ PickName \/ PickEmb \/ PickKey \/ PickKeyName
Spec == Init /\ [][Next]_vars

----------------------------------------------------------------------------
(* Invariants.  The facts are about constants; they are evaluated in the initial state only. *)
AtInit(x) == cur.stage = "init" => x

TableTotal == AtInit(
  /\ Cardinality(Table) = NumberOfRowsInTheDocumentation
  /\ Cardinality(KeyNames) = Cardinality(Table)                \* one row per key
  /\ \A k \in Table : k.ctx # {} /\ k.ctx \subseteq Contexts /\ k.fns \subseteq SpecialFns
  /\ \A n \in Names : \E k \in Table : n \in k.ctx \cup k.fns)  \* every name is usable somewhere
KeyOfDefined == AtInit(
  \A p \in Positions :
    LET c == Cands(p.path) IN
    /\ KeyOf(p) \in Table \cup {NoKey}
    /\ c # {} => Cardinality({k \in c : Len(k.segs) = Len(KeyOf(p).segs)}) = 1)
PositionIdsDistinct == AtInit(Cardinality({PosId(p) : p \in Positions}) = Cardinality(Positions))
\* keys without any position: none expected (the two `...env` expression forms are the only documented gap)
KeysWithoutPosition == {KeyName(k) : k \in {k2 \in Table : ~\E p \in Positions : KeyOf(p) = k2}}
EveryKeyHasPosition == AtInit(KeysWithoutPosition = {})
\* the call-site keys as read from rule_expression.go select the row the documentation demands
CodeKeysAgree == AtInit(
  \A p \in Positions :
    /\ p.code = "" <=> KeyOf(p) = NoKey
    /\ p.code # "" => /\ p.code \in KeyNames
                       /\ IF p.alt = "" THEN RowOf(p.code).ctx = KeyOf(p).ctx /\ RowOf(p.code).fns = KeyOf(p).fns
                                         ELSE p.alt \in KeyNames /\ p.code \in {KeyName(KeyOf(p)), p.alt})
OpMatchesProperty == AtInit(\A p \in Positions, n \in Names : ~Ambiguous(p, n) => OpReported(p, n) = ~Allowed(p, n))
\* letter case and place inside the value are not inputs of the verdict
EmbeddingIndependent ==
  cur.stage = "vec" /\ cur.p.alt = "" =>
     \A e \in AllEmbeddings \cup DeepEmbeddings : EmbOK(cur.p, cur.name, e) =>
        Allowed(cur.p, cur.name) = AllowedAtKey(cur.key, cur.name)
AbsentKeysAllowNothing == AtInit(\A k \in AbsentKeys, n \in Names : ~AllowedAtKey(k, n))
=============================================================================
