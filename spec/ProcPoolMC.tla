----------------------------- MODULE ProcPoolMC -----------------------------
(* Model-checking constants for ProcPool (cfg files cannot hold nested tuples portably). *)
EXTENDS ProcPool

\* every distribution of 3 tasks over <= 2 files and the two rules (up to symmetry of file order)
Shapes3 == { <<<<"sc", "sc", "sc">>>>, <<<<"sc", "py", "sc">>>>, <<<<"py", "sc">>, <<"sc">>>>,
             <<<<"sc", "py">>, <<"py">>>>, <<<<"sc">>, <<"sc">>, <<"py">>>>, <<<<"sc", "sc">>, <<"sc">>>> }
Shapes4 == { <<<<"sc", "py">>, <<"sc", "py">>>>, <<<<"sc", "sc", "py">>, <<"sc">>>>,
             <<<<"sc", "sc">>, <<"sc", "sc">>>>, <<<<"sc", "py", "sc", "py">>>> }
ShapesBug == { <<<<"sc", "py">>, <<"sc">>>> }
ShapesQ == { <<<<"sc", "py">>, <<"sc">>>>, <<<<"sc", "sc", "py">>>> }
ShapesScen == Shapes3 \cup Shapes4
SpecInit == Init /\ [][FALSE]_vars
AllOutcomes == {"ok", "issues", "bad"}
=============================================================================
