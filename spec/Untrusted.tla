----------------------------- MODULE Untrusted -----------------------------
(* Script-injection detection of actionlint (property C11): expr_insecure.go driven by expr_sema.go.

   Data               : Documented - the documented untrusted inputs (the search tree
                        BuiltinUntrustedInputs of expr_insecure.go, transcribed as its list of
                        leaf paths; the tree is the prefix closure).  The harness walks the real
                        exported tree and the check compares it with this list.
   Expressions        : trees of uniform records [k, n, r, a]
                          k = kind, n = name in lower case, r = the name as written, a = children
                          var | prop (.r) | ixlit (['r']) | idx (a = <<operand, index>>) |
                          filter (.* ) | call | not | cmp | logic | str | int | kw | paren
   Declarative layer  : Rep(e, FALSE) - DESIGN.md A.3: the maximal access chains of e outside
                        contains/startsWith/endsWith, each folded over the tree of documented
                        paths with the P / I / F rules; a chain is reported iff its final node
                        set contains leaves; the report is the set of leaf paths.
   Operational layer  : the matcher automaton of UntrustedInputChecker
                        (cur, fo = filteringObject, safe = safeCalls, start, errs) with one
                        operator per callback (Enter, LeaveVar, LeaveProp, LeaveIndexLit,
                        LeaveIndex, LeaveFilter, LeaveOther, LeaveSafeCall, End), run over the
                        event stream of the INTENDED visiting order (post-order, the index of an
                        index access before its operand).
                        dev = TRUE switches on the named deviation Dev_IndexLitCase (a
                        string-literal index is matched as written instead of in lower case; a
                        defect of the pinned tree, repaired by /repo commit 04dec70).  It is
                        DISABLED in everything that decides a verdict (Agree, FinalInit, the
                        vectors, PropOK and ModelOK of UntrustedTrace); it is evaluated only for a
                        record that already violates the property, to name the site of the
                        violation (index-literal-case) should the defect come back.
   Checked by TLC     : Agree     - automaton reports = declarative reports (same order)
                        FinalInit - the automaton is in its initial state after the last End
   Generator          : expressions are grown one segment / one embedding per step; `tc` is the
                        vector handed to the harness: expression text + predicted reports +
                        the name of the embedding (comp-*: the expression also holds a semantic
                        error of another kind, which must not remove a report). *)
EXTENDS Naturals, Sequences, FiniteSets, TLC, Json

CONSTANTS MaxLen,    \* segments of chain 1 (after the root variable)
          MaxOdd,    \* segments of a chain not spelled `.name` (unless all are spelled alike)
          MaxOff,    \* segments a chain may continue after it has left the tree
          MaxLen2,   \* segments of chain 2 (0: chain 2 stays `matrix.i`)
          Alike,     \* also chains whose name segments are all spelled alike (all ['name'], all .NAME, all ['NAME'])
          Embs       \* embeddings of the chain(s) into a larger expression

----------------------------------------------------------------------------
(* The documented untrusted inputs. *)
Documented == {
  <<"github", "event", "issue", "title">>,
  <<"github", "event", "issue", "body">>,
  <<"github", "event", "pull_request", "title">>,
  <<"github", "event", "pull_request", "body">>,
  <<"github", "event", "pull_request", "head", "ref">>,
  <<"github", "event", "pull_request", "head", "label">>,
  <<"github", "event", "pull_request", "head", "repo", "default_branch">>,
  <<"github", "event", "comment", "body">>,
  <<"github", "event", "review", "body">>,
  <<"github", "event", "review_comment", "body">>,
  <<"github", "event", "pages", "*", "page_name">>,
  <<"github", "event", "commits", "*", "message">>,
  <<"github", "event", "commits", "*", "author", "email">>,
  <<"github", "event", "commits", "*", "author", "name">>,
  <<"github", "event", "head_commit", "message">>,
  <<"github", "event", "head_commit", "author", "email">>,
  <<"github", "event", "head_commit", "author", "name">>,
  <<"github", "event", "discussion", "title">>,
  <<"github", "event", "discussion", "body">>,
  <<"github", "head_ref">> }

Nodes == UNION {{SubSeq(p, 1, i) : i \in 1 .. Len(p)} : p \in Documented}
Kids == [c \in Nodes |-> {p \in Nodes : Len(p) = Len(c) + 1 /\ SubSeq(p, 1, Len(c)) = c}]
IsLeaf(c) == Kids[c] = {}

RECURSIVE PathStr(_)
PathStr(p) == IF Len(p) = 1 THEN p[1] ELSE PathStr(SubSeq(p, 1, Len(p) - 1)) \o "." \o p[Len(p)]
PathName == [c \in Nodes |-> PathStr(c)]
LeafNames(ns) == {PathName[c] : c \in {d \in ns : IsLeaf(d)}}

\* the three moves over the tree (A.3)
StepName(ns, nm) == {Append(c, nm) : c \in {d \in ns : Append(d, nm) \in Nodes}}
StepStar(ns) == StepName(ns, "*")
StepFilter(ns) == UNION {IF Append(c, "*") \in Nodes THEN {Append(c, "*")} ELSE Kids[c] : c \in ns}

ASSUME PrintT(<<"DOCUMENTED", ToJson({PathStr(p) : p \in Documented})>>)

----------------------------------------------------------------------------
(* Expression trees *)
N(k, n, r, a) == [k |-> k, n |-> n, r |-> r, a |-> a]
AccessKinds == {"prop", "ixlit", "idx", "filter"}
SafeNames == {"contains", "startswith", "endswith"}

RECURSIVE Strip(_)
Strip(e) == IF e.k = "paren" THEN Strip(e.a[1]) ELSE e

----------------------------------------------------------------------------
(* Declarative layer (DESIGN.md A.3) *)
RECURSIVE IsChain(_)
IsChain(e) ==
  LET s == Strip(e) IN
  IF s.k = "var" THEN TRUE ELSE IF s.k \in AccessKinds THEN IsChain(s.a[1]) ELSE FALSE

\* node set and pending-filter flag of an access chain
RECURSIVE Fold(_)
Fold(e) ==
  LET s == Strip(e) IN
  IF s.k = "var" THEN [ns |-> IF <<s.n>> \in Nodes THEN {<<s.n>>} ELSE {}, pf |-> FALSE]
  ELSE LET f == Fold(s.a[1]) IN
       CASE s.k \in {"prop", "ixlit"} -> [ns |-> StepName(f.ns, s.n), pf |-> f.pf]
         [] s.k = "idx" -> IF f.pf THEN [ns |-> f.ns, pf |-> FALSE]
                                   ELSE [ns |-> StepStar(f.ns), pf |-> FALSE]
         [] s.k = "filter" -> [ns |-> StepFilter(f.ns), pf |-> TRUE]

\* reports of e in the order "chains inside index expressions first, then the chain itself,
\* siblings left to right"; safe = e lies inside an argument of contains/startsWith/endsWith
RECURSIVE Rep(_, _), Inner(_, _), RepSeq(_, _, _)
Rep(e, safe) ==
  LET s == Strip(e) IN
  IF IsChain(s) THEN
       LET own == LeafNames(Fold(s).ns) IN
       Inner(s, safe) \o (IF safe THEN <<>> ELSE IF own = {} THEN <<>> ELSE <<own>>)
  ELSE IF s.k = "idx" THEN Rep(s.a[2], safe) \o Rep(s.a[1], safe)
  ELSE IF s.k = "call" THEN RepSeq(s.a, 1, IF safe THEN TRUE ELSE s.n \in SafeNames)
  ELSE RepSeq(s.a, 1, safe)
Inner(e, safe) ==
  LET s == Strip(e) IN
  IF s.k = "var" THEN <<>>
  ELSE IF s.k = "idx" THEN Rep(s.a[2], safe) \o Inner(s.a[1], safe)
  ELSE Inner(s.a[1], safe)
RepSeq(as, i, safe) == IF i > Len(as) THEN <<>> ELSE Rep(as[i], safe) \o RepSeq(as, i + 1, safe)

Reports(e) == Rep(e, FALSE)

----------------------------------------------------------------------------
(* Operational layer: the event stream of the semantics checker and the matcher automaton *)
Ev(t, n, r) == [t |-> t, n |-> n, r |-> r]
EnterEv == Ev("enter", "", "")

RECURSIVE Events(_), EventsSeq(_, _)
Events(e) ==
  CASE e.k = "paren" -> Events(e.a[1])
    [] e.k = "var" -> <<EnterEv, Ev("var", e.n, e.r)>>
    [] e.k = "prop" -> <<EnterEv>> \o Events(e.a[1]) \o <<Ev("prop", e.n, e.r)>>
       \* the literal of x['lit'] is a node of its own, visited (and left) before the operand
    [] e.k = "ixlit" -> <<EnterEv, EnterEv, Ev("other", "", "")>> \o Events(e.a[1]) \o <<Ev("ixlit", e.n, e.r)>>
    [] e.k = "idx" -> <<EnterEv>> \o Events(e.a[2]) \o Events(e.a[1]) \o <<Ev("index", "", "")>>
    [] e.k = "filter" -> <<EnterEv>> \o Events(e.a[1]) \o <<Ev("filter", "", "")>>
    [] e.k = "call" -> IF e.n \in SafeNames
                         THEN <<Ev("entersafe", e.n, e.r)>> \o EventsSeq(e.a, 1) \o <<Ev("safecall", e.n, e.r)>>
                         ELSE <<EnterEv>> \o EventsSeq(e.a, 1) \o <<Ev("other", "", "")>>
    [] OTHER -> <<EnterEv>> \o EventsSeq(e.a, 1) \o <<Ev("other", "", "")>>
EventsSeq(as, i) == IF i > Len(as) THEN <<>> ELSE Events(as[i]) \o EventsSeq(as, i + 1)

A0 == [cur |-> {}, fo |-> FALSE, safe |-> 0, start |-> "none", errs |-> <<>>]

End(st) ==
  LET lv == LeafNames(st.cur) IN
  [st EXCEPT !.errs = IF lv = {} THEN @ ELSE Append(@, lv), !.cur = {}, !.fo = FALSE, !.start = "none"]
Enter(st, ev) == IF ev.t = "entersafe" THEN [st EXCEPT !.safe = @ + 1] ELSE st
LeaveVar(st, nm) ==
  LET s1 == End(st) IN
  IF <<nm>> \in Nodes THEN [s1 EXCEPT !.start = nm, !.cur = {<<nm>>}] ELSE s1
LeaveProp(st, nm) == [st EXCEPT !.cur = StepName(@, nm)]
LeaveIndexLit(st, nm, raw, dev) == LeaveProp(st, IF dev THEN raw ELSE nm)
LeaveIndex(st) == IF st.fo THEN [st EXCEPT !.fo = FALSE] ELSE [st EXCEPT !.cur = StepStar(@)]
LeaveFilter(st) == [st EXCEPT !.fo = TRUE, !.cur = StepFilter(@)]
LeaveOther(st) == End(st)
LeaveSafeCall(st) == [st EXCEPT !.safe = @ - 1]

Do(st, ev, dev) ==
  IF ev.t \in {"enter", "entersafe"} THEN Enter(st, ev)
  ELSE IF st.safe > 0 THEN (IF ev.t = "safecall" THEN LeaveSafeCall(st) ELSE st)
  ELSE CASE ev.t = "var" -> LeaveVar(st, ev.n)
         [] ev.t = "prop" -> LeaveProp(st, ev.n)
         [] ev.t = "ixlit" -> LeaveIndexLit(st, ev.n, ev.r, dev)
         [] ev.t = "index" -> LeaveIndex(st)
         [] ev.t = "filter" -> LeaveFilter(st)
         [] OTHER -> LeaveOther(st)

RECURSIVE RunFrom(_, _, _, _)
RunFrom(st, evs, i, dev) == IF i > Len(evs) THEN st ELSE RunFrom(Do(st, evs[i], dev), evs, i + 1, dev)
\* the whole visit: all events, then OnVisitEnd
Run(e, dev) == End(RunFrom(A0, Events(e), 1, dev))

----------------------------------------------------------------------------
(* Concrete text *)
RECURSIVE Render(_), RenderArgs(_, _)
Render(e) ==
  CASE e.k = "var" -> e.r
    [] e.k = "prop" -> Render(e.a[1]) \o "." \o e.r
    [] e.k = "ixlit" -> Render(e.a[1]) \o "['" \o e.r \o "']"
    [] e.k = "idx" -> Render(e.a[1]) \o "[" \o Render(e.a[2]) \o "]"
    [] e.k = "filter" -> Render(e.a[1]) \o ".*"
    [] e.k = "call" -> e.r \o "(" \o RenderArgs(e.a, 1) \o ")"
    [] e.k = "not" -> "!" \o Render(e.a[1])
    [] e.k \in {"cmp", "logic"} -> Render(e.a[1]) \o " " \o e.r \o " " \o Render(e.a[2])
    [] e.k = "str" -> "'" \o e.r \o "'"
    [] e.k = "paren" -> "(" \o Render(e.a[1]) \o ")"
    [] OTHER -> e.r
RenderArgs(as, i) ==
  IF i > Len(as) THEN "" ELSE Render(as[i]) \o (IF i < Len(as) THEN ", " ELSE "") \o RenderArgs(as, i + 1)

----------------------------------------------------------------------------
(* Generator: chains (root + segments) and embeddings *)
UP == [github |-> "GITHUB", event |-> "EVENT", issue |-> "ISSUE", title |-> "TITLE", body |-> "BODY",
       pull_request |-> "PULL_REQUEST", head |-> "HEAD", ref |-> "REF", label |-> "LABEL", repo |-> "REPO",
       default_branch |-> "DEFAULT_BRANCH", comment |-> "COMMENT", review |-> "REVIEW",
       review_comment |-> "REVIEW_COMMENT", pages |-> "PAGES", page_name |-> "PAGE_NAME",
       commits |-> "COMMITS", message |-> "MESSAGE", author |-> "AUTHOR", email |-> "EMAIL", name |-> "NAME",
       head_commit |-> "HEAD_COMMIT", discussion |-> "DISCUSSION", head_ref |-> "HEAD_REF", zzz |-> "ZZZ",
       matrix |-> "MATRIX"]

Seg(t, n, r) == [t |-> t, n |-> n, r |-> r]
\* t: var | dot (.r) | lit (['r']) | num ([0]) | expr ([<chain 2>]) | flt (.*)
RootSegs == {Seg("var", "github", "github"), Seg("var", "github", "GITHUB"), Seg("var", "matrix", "matrix")}
C2Default == <<Seg("var", "matrix", "matrix"), Seg("dot", "i", "i")>>

\* one access segment g applied to the receiver rc (e2 = the index expression of an `expr` segment)
ApplySeg(g, rc, e2) ==
  CASE g.t = "dot" -> N("prop", g.n, g.r, <<rc>>)
    [] g.t = "lit" -> N("ixlit", g.n, g.r, <<rc>>)
    [] g.t = "num" -> N("idx", "", "", <<rc, N("int", "", "0", <<>>)>>)
    [] g.t = "expr" -> N("idx", "", "", <<rc, e2>>)
    [] g.t = "flt" -> N("filter", "", "", <<rc>>)
RECURSIVE Build(_, _, _)
Build(ch, i, e2) ==
  IF i = 1 THEN N("var", ch[1].n, ch[1].r, <<>>) ELSE ApplySeg(ch[i], Build(ch, i - 1, e2), e2)

MatrixI == N("prop", "i", "i", <<N("var", "matrix", "matrix", <<>>)>>)
X == N("prop", "x", "x", <<N("var", "matrix", "matrix", <<>>)>>)
Call(r, n, as) == N("call", n, r, as)
Cmp(l, rr) == N("cmp", "", "==", <<l, rr>>)
Logic(op, l, rr) == N("logic", "", op, <<l, rr>>)
Paren(e) == N("paren", "", "", <<e>>)
Contains(a, b) == Call("contains", "contains", <<a, b>>)
Trusted2(a, b) == N("prop", b, b, <<N("var", a, a, <<>>)>>)
Trusted3(a, b, c) == N("prop", c, c, <<Trusted2(a, b)>>)

\* spelling kind of a segment: plain | DOT | lit | LIT | none (not a name)
Kind(g) == IF g.t \in {"var", "dot"} THEN (IF g.r = g.n THEN "plain" ELSE "DOT")
           ELSE IF g.t = "lit" THEN (IF g.r = g.n THEN "lit" ELSE "LIT") ELSE "none"
NameSegs(ch) == {i \in DOMAIN ch : Kind(ch[i]) # "none"}
Odd(ch) == Cardinality({i \in NameSegs(ch) : Kind(ch[i]) # "plain"})
\* all name segments after the root are spelled alike (github['event']['issue']['title'] ...)
AllAlike(ch) == \A i, j \in (NameSegs(ch) \ {1}) : Kind(ch[i]) = Kind(ch[j])
SpellOK(ch, maxodd, alike) == IF Odd(ch) <= maxodd THEN TRUE ELSE alike /\ AllAlike(ch) /\ Kind(ch[1]) = "plain"
\* at most maxoff segments of the chain lie outside the tree (a node set that is empty stays empty)
OffOK(ch, maxoff) ==
  LET k == Len(ch) - maxoff IN
  IF k <= 1 THEN TRUE ELSE Fold(Build(ch, k, MatrixI)).ns # {}

\* names offered after chain ch: the children of the current nodes + trusted names
NextNames(ch) ==
  LET f == Fold(Build(ch, Len(ch), MatrixI))
      on == {p[Len(p)] : p \in UNION {Kids[c] : c \in f.ns}} \ {"*"} IN
  on \cup (IF f.ns = {<<"github">>} THEN {"ref"} ELSE {"zzz", "title"})
\* the chain denotes the array produced by an object filter (x.*, x.*.y ...): the type checker
\* rejects a string index on it, so only the dot spellings are offered there
Filtered(ch) ==
  LET ks == {i \in DOMAIN ch : ch[i].t \notin {"dot", "lit"}}
      m == CHOOSE i \in ks : \A j \in ks : j <= i IN
  ch[m].t = "flt"
NextSegs(ch, withExpr) ==
  UNION {{Seg("dot", nm, nm), Seg("dot", nm, UP[nm])}
         \cup (IF Filtered(ch) THEN {} ELSE {Seg("lit", nm, nm), Seg("lit", nm, UP[nm])}) : nm \in NextNames(ch)}
  \cup {Seg("num", "", ""), Seg("flt", "", "")} \cup (IF withExpr THEN {Seg("expr", "", "")} ELSE {})

PairEmbs == {"paireq", "f2pair", "safethen", "thensafe", "idx2"}
HasExpr(ch) == \E i \in DOMAIN ch : ch[i].t = "expr"
UsesE2(ch, m) == IF m \in PairEmbs THEN TRUE ELSE m = "alone" /\ HasExpr(ch)

Embed(m, c1, e2) ==
  LET e1 == Build(c1, Len(c1), e2) IN
  CASE m = "alone" -> e1
    [] m = "not" -> N("not", "", "!", <<e1>>)
    [] m = "eqr" -> Cmp(e1, X)
    [] m = "eql" -> Cmp(X, e1)
    [] m = "and" -> Logic("&&", e1, X)
    [] m = "or" -> Logic("||", X, e1)
    [] m = "f1" -> Call("toJSON", "tojson", <<e1>>)
    [] m = "f2" -> Call("format", "format", <<X, e1>>)
    [] m = "safe1" -> Contains(X, e1)
    [] m = "safe2" -> Call("startsWith", "startswith", <<e1, X>>)
    [] m = "safe3" -> Call("ENDSWITH", "endswith", <<X, e1>>)
    [] m = "fsafe" -> Call("toJSON", "tojson", <<Contains(X, e1)>>)
    [] m = "safef" -> Contains(X, Call("toJSON", "tojson", <<e1>>))
    [] m = "safenest" -> Contains(N("idx", "", "", <<X, Call("endsWith", "endswith", <<X, N("str", "", "a", <<>>)>>)>>), e1)
    [] m = "xidx" -> N("prop", "y", "y", <<N("idx", "", "", <<X, e1>>)>>)
    [] m = "fdot" -> N("prop", "y", "y", <<Call("fromJSON", "fromjson", <<Call("toJSON", "tojson", <<e1>>)>>)>>)
       \* a logical operator directly under another one (expr_sema.go types these with narrowing)
    [] m = "andor" -> Logic("||", Paren(Logic("&&", e1, X)), X)
    [] m = "orand" -> Logic("&&", Paren(Logic("||", X, e1)), X)
    [] m = "andor-r" -> Logic("||", Paren(Logic("&&", X, e1)), X)
    [] m = "orand-l" -> Logic("&&", Paren(Logic("||", e1, X)), X)
    [] m = "nor-l" -> Logic("||", N("not", "", "!", <<Paren(Logic("||", e1, X))>>), X)
    [] m = "nor-r" -> Logic("||", N("not", "", "!", <<Paren(Logic("||", X, e1))>>), X)
    [] m = "nand-l" -> Logic("&&", N("not", "", "!", <<Paren(Logic("&&", e1, X))>>), X)
    [] m = "nand-r" -> Logic("&&", N("not", "", "!", <<Paren(Logic("&&", X, e1))>>), X)
       \* an object filter on a trusted chain just before e (the pending-filter flag must not leak)
    [] m = "fothen" -> Logic("||", N("filter", "", "", <<X>>), e1)
       \* companion defects: the same expression also holds one semantic error of another kind
       \* (the error adds its own diagnostic, it must never remove a report); none of them reads anything
    [] m = "comp-format" -> Call("format", "format", <<N("str", "", "{0}", <<>>), e1, N("str", "", "unused", <<>>)>>)
    [] m = "comp-arity" -> Call("toJSON", "tojson", <<e1, N("str", "", "x", <<>>)>>)
    [] m = "comp-cmp" -> N("cmp", "", "<", <<e1, N("kw", "", "true", <<>>)>>)
    [] m = "comp-steps" -> Logic("&&", e1, Trusted3("steps", "nope", "outputs"))
    [] m = "comp-steps-first" -> Logic("||", Trusted3("steps", "nope", "outputs"), e1)
    [] m = "comp-prop" -> Logic("||", e1, Trusted2("github", "nope"))
    [] m = "comp-prop-first" -> Logic("&&", Trusted2("github", "nope"), e1)
    [] m = "comp-strderef" -> Logic("||", e1, Trusted3("github", "ref", "nope"))
    [] m = "comp-undefvar" -> Logic("&&", e1, Trusted2("jobs", "x"))
    [] m = "comp-specialfn" -> Logic("&&", e1, Call("always", "always", <<>>))
    [] m = "comp-undeffn" -> Logic("||", e1, Call("nosuchfn", "nosuchfn", <<>>))
    [] m = "paren" -> Paren(e1)
    [] m = "pmid" -> ApplySeg(c1[Len(c1)], Paren(Build(c1, Len(c1) - 1, e2)), e2)
    [] m = "notpar" -> N("not", "", "!", <<Paren(Cmp(e1, X))>>)
    [] m = "paireq" -> Cmp(e1, e2)
    [] m = "f2pair" -> Call("format", "format", <<X, e1, e2>>)
    [] m = "safethen" -> Logic("&&", Contains(X, e2), e1)
    [] m = "thensafe" -> Logic("||", e1, Contains(X, e2))
    [] m = "idx2" -> N("idx", "", "", <<e1, e2>>)

EmbOK(m, c1) == IF m = "pmid" THEN Len(c1) >= 2 ELSE TRUE

ExprOf(c1, c2, m) == Embed(m, c1, Build(c2, Len(c2), MatrixI))

VARIABLES c1, c2, emb, tc
vars == <<c1, c2, emb, tc>>

Vector(a, b, m) == LET e == ExprOf(a, b, m) IN ToJson([e |-> Render(e), r |-> Reports(e), m |-> m])

Init == /\ c1 \in {<<g>> : g \in RootSegs}
        /\ c2 = C2Default
        /\ emb = "alone"
        /\ tc = Vector(c1, c2, emb)

Grow1 == /\ emb = "alone" /\ c2 = C2Default
         /\ Len(c1) - 1 < MaxLen
         /\ \E g \in NextSegs(c1, TRUE) :
              LET nc == Append(c1, g) IN
              /\ SpellOK(nc, MaxOdd, Alike)
              /\ OffOK(nc, MaxOff)
              /\ c1' = nc
         /\ UNCHANGED <<c2, emb>>
Choose == /\ emb = "alone" /\ c2 = C2Default
          /\ \E m \in Embs \ {"alone"} : EmbOK(m, c1) /\ emb' = m
          /\ UNCHANGED <<c1, c2>>
\* a second chain is grown only next to a first chain that is still inside the tree
Start2 == /\ c2 = C2Default /\ MaxLen2 > 0 /\ UsesE2(c1, emb)
          /\ Fold(Build(c1, Len(c1), MatrixI)).ns # {}
          /\ c2' = <<Seg("var", "github", "github")>>
          /\ UNCHANGED <<c1, emb>>
Grow2 == /\ c2 # C2Default
         /\ Len(c2) - 1 < MaxLen2
         /\ \E g \in NextSegs(c2, FALSE) :
              LET nc == Append(c2, g) IN
              /\ SpellOK(nc, 0, FALSE)
              /\ OffOK(nc, 0)
              /\ c2' = nc
         /\ UNCHANGED <<c1, emb>>
Next == /\ (Grow1 \/ Choose \/ Start2 \/ Grow2)
        /\ tc' = Vector(c1', c2', emb')
Spec == Init /\ [][Next]_vars

----------------------------------------------------------------------------
E == ExprOf(c1, c2, emb)
Agree == Run(E, FALSE).errs = Reports(E)
FinalInit == LET f == Run(E, FALSE) IN f.cur = {} /\ ~f.fo /\ f.safe = 0 /\ f.start = "none"
=============================================================================
