------------------------------- MODULE Scope -------------------------------
(* Scope of the contexts steps / needs / matrix / inputs / secrets / jobs (property C05) and the
   visitor protocol with the per-job / per-workflow state of the rules (properties C05, C09).
   Code: rule_expression.go, expr_sema.go (Update*, checkObjectDeref), pass.go, rule_shell_name.go,
   rule_shellcheck.go, rule_pyflakes.go, rule_id.go, rule_runner_label.go, rule_job_needs.go.

   Workflow shape (variable sh)
     call  : [k "none"|"some", ins <<names>>, sec [k "none"|"some", ns <<names>>], outs BOOLEAN]
             on.workflow_call; sec.k = "some": a `secrets:` key exists; outs: one output `x`
             whose value is the site "callout"
     disp  : [k, ins]                 on.workflow_dispatch
     wshell: "" | shell               defaults.run.shell of the workflow
     jobs  : sequence of
       [kind "normal"|"call",         "call": the job calls a remote reusable workflow
        needs <<job indices>>,        ascending; an index > Len(jobs) names no job (dangling)
        outs  <<names>>,              declared outputs
        steps <<s>>,                  s = "-" no id | "$" id given by an expression | literal id
        mx [k "none"|"expr"|"lit", rows <<[n, lit, vk]>>, inc [k "none"|"expr"|"list", cs <<e>>], exc],
                                      e = "$" element given by an expression | "a" | "c" | "ac" keys
        runs "u"|"w"|"uw", shell ""|name]
   Site  : [k, j, s]  - kind, job index (0 = header), step index (0 = job level)
   Ref   : [ctx, p]   - context and the path below it, e.g. [ctx |-> "needs", p |-> <<"j2","outputs","o">>]

   Declarative layer : Avail (context availability of the sites), Defined(sh, site, ref) - DESIGN A.2
                       written from the shape alone; EffShell / EffPy.
   Operational layer : abstract object types (strict / loose / map), the operations of the code on them
                       (calcNeedsType, checkMatrix, Merge, UpdateInputs, UpdateSecrets ...), and the
                       visitor as a state machine: VisitWorkflowPre; (VisitJobPre; VisitStep*; VisitJobPost)*
                       in ANY job order (jobs are visited in source order and may be written in any
                       order); VisitWorkflowPost.  Every action records in `obs` the type
                       environment in force at the sites it checks, taken at the point of the callback
                       where the code checks them.
   Invariants        : ScopeAgrees, ShellAgrees, EntryClean, AllSitesChecked.
   Generator         : from every shape, Pick(site, ref) emits tc = (shape, site, ref, defined?). *)
EXTENDS Naturals, Sequences, FiniteSets, TLC, Json

CONSTANTS MaxJobs, MaxSteps,
          JobKinds,      \* subset of {"normal", "call"}
          StepIds,       \* subset of {"-", "$", "a", "b"}
          NeedTargets,   \* job indices a needs entry may name
          OutNames,      \* names a job may declare as outputs
          InitOut,       \* "" or an output every normal job declares from the start
          MxJobs,        \* job indices whose matrix ranges over the full universe (others: literal rows only)
          RowNames, RowKinds, IncKinds, IncElems, MaxInc, ExcKinds,
          Events,        \* subset of {"call", "disp"}
          CallIns, DispIns, CallSecs, SecKinds, CallOuts,
          ReqCallOuts,   \* TRUE: jobs are only added to headers whose workflow_call declares the output

          RunsOn, Shells, WShells,
          Sites, Ctxs,   \* site kinds / contexts for which vectors are generated
          ShortSites     \* site kinds for which only references of path length 1 are generated

Range(f) == {f[x] : x \in DOMAIN f}
Last(s) == s[Len(s)]
\* TLC does not order strings: names are ordered by their place in NameOrd
NameOrd == <<"a", "b", "c", "o", "s", "t", "z">>
Ord(x) == CHOOSE i \in DOMAIN NameOrd : NameOrd[i] = x
Lt(x, y) == Ord(x) < Ord(y)
JN == <<"j1", "j2", "j3">>
JobIdx(n) == IF \E i \in DOMAIN JN : JN[i] = n THEN CHOOSE i \in DOMAIN JN : JN[i] = n ELSE 0
AutoSecrets == {"github_token", "actions_step_debug", "actions_runner_debug"}
\* include elements: "a", "c", "ac" assign scalars to those keys; "A" assigns the object literal {y: 1} to key a
KeysOf(e) == CASE e = "a" -> {"a"} [] e = "c" -> {"c"} [] e = "ac" -> {"a", "c"} [] e = "A" -> {"a"} [] OTHER -> {}

Site(kind, j, s) == [k |-> kind, j |-> j, s |-> s]
Ref(ctx, p) == [ctx |-> ctx, p |-> p]

----------------------------------------------------------------------------
(* Declarative layer *)

\* contexts that may be used at a site (GitHub's context availability table)
Avail(kind) ==
  CASE kind \in {"run", "with", "stepenv", "outputs", "stepname", "steptimeout"}
         -> {"steps", "needs", "matrix", "inputs", "secrets", "github"}
    [] kind \in {"stepif", "envurl"} -> {"steps", "needs", "matrix", "inputs", "github"}
    [] kind = "jobenv" -> {"needs", "matrix", "inputs", "secrets", "github"}
    [] kind \in {"jobname", "environment", "runson", "container", "service", "concurrency", "timeout", "conterr", "callwith"}
         -> {"needs", "matrix", "inputs", "github"}
    [] kind = "callsecret" -> {"needs", "matrix", "inputs", "secrets", "github"}
    [] kind \in {"mxrow", "mxinc", "mxexc"} -> {"needs", "inputs", "github"}       \* jobs.<job_id>.strategy
    [] kind = "jobif" -> {"needs", "inputs", "github"}
    [] kind = "wfenv" -> {"inputs", "secrets", "github"}
    [] kind \in {"runname", "wfconcgroup", "wfconccancel"} -> {"inputs", "github"}
    [] kind = "callout" -> {"inputs", "jobs", "github"}
CtxVar(ctx) == IF ctx = "ghinputs" THEN "github" ELSE ctx

HeaderSites(s) == {Site("runname", 0, 0), Site("wfenv", 0, 0), Site("wfconcgroup", 0, 0), Site("wfconccancel", 0, 0)}
                  \cup (IF s.call.k = "some" /\ s.call.outs THEN {Site("callout", 0, 0)} ELSE {})
\* values inside strategy.matrix: an element of a literal row, a value of a literal include element, of an exclude element
MatrixSites(s, j) ==
  LET m == s.jobs[j].mx IN
  IF m.k # "lit" THEN {}
  ELSE (IF \E i \in DOMAIN m.rows : m.rows[i].lit THEN {Site("mxrow", j, 0)} ELSE {})
       \cup (IF \E i \in DOMAIN m.inc.cs : m.inc.cs[i] # "$" THEN {Site("mxinc", j, 0)} ELSE {})
       \cup (IF m.exc \in {"list", "elem"} THEN {Site("mxexc", j, 0)} ELSE {})
JobPreSites(s, j) ==
  {Site(x, j, 0) : x \in {"jobname", "jobif"}
     \cup (IF s.jobs[j].kind = "normal"
            THEN {"jobenv", "container", "service", "concurrency", "timeout", "conterr"}
                 \cup (IF s.jobs[j].runs = "u" THEN {"runson"} ELSE {})      \* the probe replaces the label
            ELSE {"callwith", "callsecret"})}
StepSites(j, i) == {Site(x, j, i) : x \in {"stepname", "stepif", "run", "with", "stepenv", "steptimeout"}}
JobPostSites(s, j) == IF s.jobs[j].kind # "normal" THEN {}
                      ELSE {Site("environment", j, 0), Site("envurl", j, 0)}
                           \cup (IF s.jobs[j].outs # <<>> THEN {Site("outputs", j, 0)} ELSE {})
JobSites(s, j) == MatrixSites(s, j) \cup JobPreSites(s, j) \cup JobPostSites(s, j) \cup UNION {StepSites(j, i) : i \in DOMAIN s.jobs[j].steps}
AllSites(s) == HeaderSites(s) \cup UNION {JobSites(s, j) : j \in DOMAIN s.jobs}

\* steps of job j whose ids are visible from the site
CountedSteps(s, site) ==
  IF site.s > 0 THEN 1 .. (site.s - 1) ELSE DOMAIN s.jobs[site.j].steps

MatrixOpen(m) == m.k = "expr" \/ m.inc.k = "expr" \/ \E i \in DOMAIN m.inc.cs : m.inc.cs[i] = "$"
\* a row has the value kind vk: "num" scalars, "obj" the object literal {x: 1}, "objexpr" that literal and one element
\* given by an expression; lit = FALSE: the whole row is an expression
RowsOf(m, key) == {i \in DOMAIN m.rows : m.rows[i].n = key}
ValueUnknown(m, key) == \E i \in RowsOf(m, key) : ~m.rows[i].lit \/ m.rows[i].vk = "objexpr"
ValueMembers(m, key) == (IF \E i \in RowsOf(m, key) : m.rows[i].lit /\ m.rows[i].vk \in {"obj", "objexpr"} THEN {"x"} ELSE {})
                        \cup (IF key = "a" /\ \E i \in DOMAIN m.inc.cs : m.inc.cs[i] = "A" THEN {"y"} ELSE {})
\* members are only asked for when every literal value of the key is an object (a scalar has no members at all)
NestedOK(m, key) == /\ \A i \in RowsOf(m, key) : ~m.rows[i].lit \/ m.rows[i].vk \in {"obj", "objexpr"}
                    /\ \A i \in DOMAIN m.inc.cs : key \in KeysOf(m.inc.cs[i]) => m.inc.cs[i] = "A"
MatrixKeys(m) == {m.rows[i].n : i \in DOMAIN m.rows} \cup UNION {KeysOf(m.inc.cs[i]) : i \in DOMAIN m.inc.cs}

Defined(s, site, r) ==
  LET p == r.p n == Len(r.p) IN
  CASE r.ctx = "steps" ->
         LET st == s.jobs[site.j].steps cnt == CountedSteps(s, site) IN
         \* a literally known id has exactly the step properties; an id given by an expression may be any name
         IF \E i \in cnt : st[i] = p[1] THEN n >= 2 => p[2] \in {"outputs", "conclusion", "outcome"}
         ELSE \E i \in cnt : st[i] = "$"
    [] r.ctx = "needs" ->
         LET t == JobIdx(p[1]) IN
         /\ t \in Range(s.jobs[site.j].needs) /\ t \in DOMAIN s.jobs
         /\ n >= 2 => p[2] \in {"outputs", "result"}
         /\ n >= 3 => (p[2] = "outputs" /\ (s.jobs[t].kind = "call" \/ p[3] \in Range(s.jobs[t].outs)))
    [] r.ctx = "matrix" ->
         LET m == s.jobs[site.j].mx IN
         IF m.k = "none" THEN FALSE ELSE IF MatrixOpen(m) THEN TRUE
         ELSE /\ p[1] \in MatrixKeys(m)
              \* a member of the values of a key: defined iff SOME value the key can take has it; whatever is reachable
              \* through a value given by an expression is unknown
              /\ n >= 2 => (ValueUnknown(m, p[1]) \/ p[2] \in ValueMembers(m, p[1]))
    [] r.ctx = "inputs" ->
         \/ s.call.k = "some" /\ p[1] \in Range(s.call.ins)
         \/ s.disp.k = "some" /\ p[1] \in Range(s.disp.ins)
    [] r.ctx = "ghinputs" -> s.disp.k = "some" => p[1] \in Range(s.disp.ins)
    [] r.ctx = "secrets" ->
         (s.call.k = "some" /\ s.call.sec.k = "some") => p[1] \in Range(s.call.sec.ns) \cup AutoSecrets
    [] r.ctx = "jobs" ->
         LET t == JobIdx(p[1]) IN
         /\ t \in DOMAIN s.jobs
         /\ n >= 2 => p[2] = "outputs"
         /\ n >= 3 => (s.jobs[t].kind = "call" \/ p[3] \in Range(s.jobs[t].outs))

\* the reference universe
RefU ==
  {Ref("steps", q) : q \in {<<i>> : i \in {"a", "b", "z"}} \cup {<<i, x>> : i \in {"a", "z"}, x \in {"outputs", "conclusion", "zz"}}
                            \cup {<<"a", "outputs", "foo">>}}
  \cup {Ref("needs", q) : q \in {<<t>> : t \in {"j1", "j2", "j3", "j0"}}
                               \cup {<<t, x>> : t \in {"j1", "j2", "j3"}, x \in {"outputs", "result", "zz"}}
                               \cup {<<t, "outputs", o>> : t \in {"j1", "j2", "j3"}, o \in {"o", "zz"}}}
  \cup {Ref("matrix", <<i>>) : i \in {"a", "b", "c", "z"}} \cup {Ref("matrix", <<"a", i>>) : i \in {"x", "y", "z"}}
  \cup {Ref("inputs", <<i>>) : i \in {"a", "b", "c", "z"}}
  \cup {Ref("ghinputs", <<i>>) : i \in {"a", "c", "z"}}
  \cup {Ref("secrets", <<i>>) : i \in {"s", "github_token", "actions_runner_debug", "z"}}
  \cup {Ref("jobs", q) : q \in {<<t>> : t \in {"j1", "j2", "j0"}} \cup {<<t, x>> : t \in {"j1", "j2"}, x \in {"outputs", "result"}}
                              \cup {<<t, "outputs", o>> : t \in {"j1", "j2"}, o \in {"o", "zz"}}}
RefsAt(kind) == {r \in RefU : CtxVar(r.ctx) \in Avail(kind)}
RefsFor(s, site) == {r \in RefsAt(site.k) : (r.ctx = "matrix" /\ Len(r.p) >= 2) => (site.j > 0 /\ NestedOK(s.jobs[site.j].mx, r.p[1]))}

\* shell with which a `run:` step of job j is executed / is it a Python script
EffShell(s, j) ==
  IF s.jobs[j].shell # "" THEN s.jobs[j].shell
  ELSE IF s.wshell # "" THEN s.wshell
  ELSE IF s.jobs[j].runs \in {"w", "uw"} THEN "pwsh" ELSE "bash"
EffPy(s, j) == IF s.jobs[j].shell # "" THEN s.jobs[j].shell = "python" ELSE s.wshell = "python"

----------------------------------------------------------------------------
(* Operational layer: abstract types *)
NilT == [k |-> "nil", mode |-> "", props |-> {}]
StrT == [k |-> "str", mode |-> "", props |-> {}]
AnyT == [k |-> "any", mode |-> "", props |-> {}]
Obj(mode, props) == [k |-> "obj", mode |-> mode, props |-> props]     \* mode: strict | loose | map
P(n, t) == [n |-> n, t |-> t]
EmptyStrict == Obj("strict", {})
Loose0 == Obj("loose", {})
MapStr == Obj("map", {})
HasProp(T, n) == \E q \in T.props : q.n = n
PropT(T, n) == (CHOOSE q \in T.props : q.n = n).t
SetProp(T, n, t) == [T EXCEPT !.props = {q \in @ : q.n # n} \cup {P(n, t)}]

\* ObjectType.Merge
Merge(a, b) ==
  IF b.k # "obj" THEN AnyT
  ELSE IF a.props = {} /\ b.mode = "loose" THEN b
  ELSE IF b.props = {} /\ a.mode = "loose" THEN a
  ELSE Obj(IF a.mode = "strict" THEN b.mode ELSE IF b.mode = "strict" THEN a.mode ELSE "loose",
           a.props \cup {q \in b.props : ~HasProp(a, q.n)})

\* checkObjectDeref along a path: "ok" | "undef" (strict object without the property) | "bad"
RECURSIVE OpResolve(_, _, _)
OpResolve(T, path, i) ==
  IF i > Len(path) THEN "ok"
  ELSE IF T.k = "any" THEN "ok"
  ELSE IF T.k = "obj" THEN
         IF HasProp(T, path[i]) THEN OpResolve(PropT(T, path[i]), path, i + 1)
         ELSE IF T.mode = "strict" THEN "undef"
         ELSE IF T.mode = "map" THEN OpResolve(StrT, path, i + 1)
         ELSE "ok"
  ELSE "bad"
\* a NilT entry of the variable table is an undefined variable
OpReported(env, r) == IF env[r.ctx].k = "nil" THEN TRUE ELSE OpResolve(env[r.ctx], r.p, 1) = "undef"

\* calcNeedsType / populateDependantNeedsTypes
RECURSIVE NeedsFrom(_, _, _, _)
NeedsFrom(s, j, i, out) ==
  IF i > Len(s.jobs[j].needs) THEN out
  ELSE LET t == s.jobs[j].needs[i] IN
       IF t = j \/ t \notin DOMAIN s.jobs \/ HasProp(out, JN[t]) THEN NeedsFrom(s, j, i + 1, out)
       ELSE LET outputs == IF s.jobs[t].kind = "call" THEN MapStr
                           ELSE Obj("strict", {P(o, StrT) : o \in Range(s.jobs[t].outs)}) IN
            NeedsFrom(s, j, i + 1, SetProp(out, JN[t], Obj("strict", {P("outputs", outputs), P("result", StrT)})))
CalcNeedsType(s, j) == NeedsFrom(s, j, 1, EmptyStrict)

\* checkMatrix
\* ExprType.Merge on the abstract types
MergeT(a, b) == IF a.k = "obj" THEN Merge(a, b) ELSE IF a.k = "str" /\ b.k = "str" THEN StrT ELSE AnyT
RowT(row) == IF ~row.lit THEN AnyT ELSE IF row.vk = "obj" THEN Obj("strict", {P("x", StrT)})
             ELSE IF row.vk = "objexpr" THEN AnyT ELSE StrT                   \* {x: 1} merged with type any
RECURSIVE IncFrom(_, _, _)
IncFrom(cs, i, o) ==
  IF i > Len(cs) THEN o
  ELSE IF cs[i] = "$"
         THEN IncFrom(cs, i + 1, [o EXCEPT !.mode = "loose"])          \* o.Merge(any) is no object: o.Loose()
         ELSE LET vt == IF cs[i] = "A" THEN Obj("strict", {P("y", StrT)}) ELSE StrT IN        \* checkRawYAMLValue
              IncFrom(cs, i + 1, [o EXCEPT !.props = {q \in @ : q.n \notin KeysOf(cs[i])}
                                             \cup {P(x, IF HasProp(o, x) THEN MergeT(PropT(o, x), vt) ELSE vt) : x \in KeysOf(cs[i])}])
CheckMatrix(m) ==
  IF m.k = "expr" THEN Loose0                                          \* checkMatrixExpression on type any
  ELSE LET o == Obj("strict", {P(m.rows[i].n, RowT(m.rows[i])) : i \in DOMAIN m.rows}) IN
       IF m.inc.k = "none" THEN o
       ELSE IF m.inc.k = "expr" THEN Loose0                            \* type any is no *ArrayType
       \* an include element of unknown type makes every key unknown
       ELSE IF \E i \in DOMAIN m.inc.cs : m.inc.cs[i] = "$" THEN Loose0
       ELSE IncFrom(m.inc.cs, 1, o)

\* checkSemanticsOfExprNode: the variable table handed to the checker
UpdInputs(o, ty) == IF o.props = {} /\ o.mode = "strict" THEN ty ELSE Merge(o, ty)
EnvOf(ex) ==
  LET in1 == IF ex.inputsTy.k # "nil" THEN UpdInputs(EmptyStrict, ex.inputsTy) ELSE EmptyStrict
      in2 == IF ex.dispTy.k # "nil" THEN UpdInputs(in1, ex.dispTy) ELSE in1 IN
  [steps    |-> IF ex.stepsTy.k = "nil" THEN EmptyStrict ELSE ex.stepsTy,
   needs    |-> IF ex.needsTy.k = "nil" THEN EmptyStrict ELSE ex.needsTy,
   matrix   |-> IF ex.matrixTy.k = "nil" THEN EmptyStrict ELSE ex.matrixTy,
   secrets  |-> IF ex.secretsTy.k = "nil" THEN MapStr
                ELSE Obj("strict", {P(x, StrT) : x \in AutoSecrets} \cup ex.secretsTy.props),
   inputs   |-> in2,
   ghinputs |-> IF ex.dispTy.k = "nil" THEN Loose0 ELSE Obj("strict", {P(q.n, StrT) : q \in ex.dispTy.props}),
   jobs     |-> ex.jobsTy]

\* state of the rules (one record per stateful rule)
Ex0 == [matrixTy |-> NilT, stepsTy |-> NilT, needsTy |-> NilT, secretsTy |-> NilT, inputsTy |-> NilT,
        dispTy |-> NilT, jobsTy |-> NilT, wf |-> FALSE]
RS0 == [ex  |-> Ex0,
        shn |-> [platform |-> "any"],
        id  |-> [isnil |-> TRUE, seen |-> {}],
        rl  |-> [compats |-> "nil"],
        sc  |-> [wshell |-> "", jshell |-> "", rshell |-> ""],
        py  |-> [w |-> "unspec", j |-> "unspec"],
        jn  |-> [nodes |-> {}]]
PerJob(r) == <<r.ex.matrixTy, r.ex.stepsTy, r.ex.needsTy, r.shn, r.id, r.rl, r.sc.jshell, r.sc.rshell, r.py.j>>
PyKind(shell) == IF shell = "" THEN "unspec" ELSE IF shell = "python" THEN "py" ELSE "notpy"

Ob(site, r, shell, py) == [site |-> site, env |-> EnvOf(r.ex), shell |-> shell, py |-> py]
ObsOf(sites, r) == {Ob(x, r, "", FALSE) : x \in sites}

OpWorkflowPre(r, s) ==
  LET e1 == IF s.disp.k = "some" THEN [r.ex EXCEPT !.dispTy = Obj("strict", {P(x, StrT) : x \in Range(s.disp.ins)})] ELSE r.ex
      e2 == IF s.call.k = "some" THEN [e1 EXCEPT !.inputsTy = Obj("strict", {P(x, StrT) : x \in Range(s.call.ins)})] ELSE e1
      e3 == IF s.call.k = "some" /\ s.call.sec.k = "some"
              THEN [e2 EXCEPT !.secretsTy = Obj("strict", {P(x, StrT) : x \in Range(s.call.sec.ns)})] ELSE e2
      r1 == [r EXCEPT !.ex = e3]
      \* run-name, env, concurrency: checked after the events have populated inputs / secrets
      o  == ObsOf({Site("runname", 0, 0), Site("wfenv", 0, 0), Site("wfconcgroup", 0, 0), Site("wfconccancel", 0, 0)}, r1)
      r2 == [r1 EXCEPT !.ex.wf = TRUE,
                       !.sc.wshell = IF s.wshell # "" THEN s.wshell ELSE @,
                       !.py.w = IF s.wshell # "" THEN PyKind(s.wshell) ELSE @]
  IN [rs |-> r2, obs |-> o]

OpJobPre(r, s, j) ==
  LET job == s.jobs[j]
      r1 == [r EXCEPT !.ex.needsTy = CalcNeedsType(s, j)]
      r2 == IF job.mx.k # "none" THEN [r1 EXCEPT !.ex.matrixTy = CheckMatrix(job.mx)] ELSE r1
      \* the matrix values are checked while the matrix type is computed: needs already set, matrix not yet
      o  == ObsOf(MatrixSites(s, j), r1) \cup ObsOf(JobPreSites(s, j), r2)
      r3 == [r2 EXCEPT !.ex.stepsTy = EmptyStrict,
                       !.id = [isnil |-> FALSE, seen |-> {}],
                       !.jn.nodes = @ \cup {j}]
      \* RuleShellName, RuleShellcheck (runner part) return early / skip without `runs-on`
      r4 == IF job.kind = "call" THEN r3
            ELSE [r3 EXCEPT !.shn.platform = CASE job.runs = "u" -> "unix" [] job.runs = "w" -> "win" [] OTHER -> "any",
                            !.sc.rshell = IF job.runs \in {"w", "uw"} THEN "pwsh" ELSE @]
      r5 == IF job.shell # "" THEN [r4 EXCEPT !.sc.jshell = job.shell, !.py.j = PyKind(job.shell)] ELSE r4
  IN [rs |-> r5, obs |-> o]

OpStep(r, s, j, i) ==
  LET st == s.jobs[j].steps[i]
      shell == IF r.sc.jshell # "" THEN r.sc.jshell ELSE IF r.sc.wshell # "" THEN r.sc.wshell
               ELSE IF r.sc.rshell # "" THEN r.sc.rshell ELSE "bash"
      py == IF r.py.j # "unspec" THEN r.py.j = "py" ELSE r.py.w = "py"
      o  == {Ob(x, r, IF x.k = "run" THEN shell ELSE "", IF x.k = "run" THEN py ELSE FALSE) : x \in StepSites(j, i)}
      \* the id is registered AFTER the step's own fields were checked
      t1 == IF st = "$" THEN [r.ex.stepsTy EXCEPT !.mode = "loose"] ELSE r.ex.stepsTy
      t2 == IF st = "-" THEN t1
            ELSE SetProp(t1, st, Obj("strict", {P("outputs", MapStr), P("conclusion", StrT), P("outcome", StrT)}))
      r1 == [r EXCEPT !.ex.stepsTy = t2, !.id.seen = IF st = "-" THEN @ ELSE @ \cup {st}]
  IN [rs |-> r1, obs |-> o]

OpJobPost(r, s, j) ==
  LET o == ObsOf(JobPostSites(s, j), r)                                    \* environment, outputs: after all steps
      r1 == [r EXCEPT !.ex.matrixTy = NilT, !.ex.stepsTy = NilT, !.ex.needsTy = NilT,
                      !.shn.platform = "any", !.id = [isnil |-> TRUE, seen |-> {}],
                      !.sc.jshell = "", !.sc.rshell = "", !.py.j = "unspec"]
  IN [rs |-> r1, obs |-> o]

OpWorkflowPost(r, s) ==
  LET has == s.call.k = "some" /\ s.call.outs /\ s.jobs # <<>>
      jt == Obj("strict", {P(JN[t], Obj("strict", {P("outputs",
                   IF s.jobs[t].kind = "call" THEN Loose0 ELSE Obj("strict", {P(x, StrT) : x \in Range(s.jobs[t].outs)}))}))
                           : t \in DOMAIN s.jobs})
      r1 == IF has THEN [r EXCEPT !.ex.jobsTy = jt] ELSE r
      o  == IF has THEN ObsOf({Site("callout", 0, 0)}, r1) ELSE {}
      r2 == [r1 EXCEPT !.ex.wf = FALSE, !.sc.wshell = "", !.py.w = "unspec"]
  IN [rs |-> r2, obs |-> o]

----------------------------------------------------------------------------
(* State machine: build a shape; from every shape either pick a vector or run the visitor *)
VARIABLES sh, phase, visited, cur, k, rs, obs, seen, tc
vars == <<sh, phase, visited, cur, k, rs, obs, seen, tc>>

NoMx == [k |-> "none", rows |-> <<>>, inc |-> [k |-> "none", cs |-> <<>>], exc |-> "none"]
NewJob(kind, sid) == [kind |-> kind, needs |-> <<>>, outs |-> IF InitOut # "" /\ kind = "normal" THEN <<InitOut>> ELSE <<>>,
                      steps |-> IF kind = "call" THEN <<>> ELSE <<sid>>, mx |-> NoMx, runs |-> "u", shell |-> ""]
NoEvent == [k |-> "none", ins |-> <<>>, sec |-> [k |-> "none", ns |-> <<>>], outs |-> FALSE]
Sh0 == [call |-> NoEvent, disp |-> [k |-> "none", ins |-> <<>>], wshell |-> "", jobs |-> <<>>]

Asc(seq, x) == IF seq = <<>> THEN TRUE ELSE Last(seq) < x
AscS(seq, x) == IF seq = <<>> THEN TRUE ELSE \A i \in DOMAIN seq : seq[i] # x   \* names: no repetition

NJ == Len(sh.jobs)
BuildHeader ==
  /\ sh.jobs = <<>>
  /\ \/ /\ "call" \in Events /\ sh.call.k = "none" /\ sh.disp.k = "none"
        /\ sh' = [sh EXCEPT !.call.k = "some"]
     \/ /\ sh.call.k = "some" /\ sh.disp.k = "none" /\ sh.call.sec.k = "none" /\ ~sh.call.outs
        /\ \E x \in CallIns : (\A i \in DOMAIN sh.call.ins : Lt(sh.call.ins[i], x)) /\ sh' = [sh EXCEPT !.call.ins = Append(@, x)]
     \/ /\ sh.call.k = "some" /\ sh.disp.k = "none" /\ sh.call.sec.k = "none" /\ ~sh.call.outs /\ "some" \in SecKinds
        /\ sh' = [sh EXCEPT !.call.sec.k = "some"]
     \/ /\ sh.call.sec.k = "some" /\ sh.disp.k = "none" /\ ~sh.call.outs
        /\ \E x \in CallSecs : AscS(sh.call.sec.ns, x) /\ sh' = [sh EXCEPT !.call.sec.ns = Append(@, x)]
     \/ /\ sh.call.k = "some" /\ sh.disp.k = "none" /\ ~sh.call.outs /\ CallOuts
        /\ sh' = [sh EXCEPT !.call.outs = TRUE]
     \/ /\ "disp" \in Events /\ sh.disp.k = "none"
        /\ sh' = [sh EXCEPT !.disp.k = "some"]
     \/ /\ sh.disp.k = "some"
        /\ \E x \in DispIns : (\A i \in DOMAIN sh.disp.ins : Lt(sh.disp.ins[i], x)) /\ sh' = [sh EXCEPT !.disp.ins = Append(@, x)]
     \/ /\ sh.wshell = ""
        /\ \E x \in WShells : sh' = [sh EXCEPT !.wshell = x]

MxEmpty(m) == m.k = "none" /\ m.rows = <<>>
BuildJobs ==
  \/ /\ NJ < MaxJobs /\ (ReqCallOuts => sh.call.outs)
     /\ \E kind \in JobKinds : \E sid \in (IF kind = "call" THEN {"-"} ELSE StepIds) :
          sh' = [sh EXCEPT !.jobs = Append(@, NewJob(kind, sid))]
  \/ \E j \in DOMAIN sh.jobs, t \in NeedTargets :
       /\ t # j /\ Asc(sh.jobs[j].needs, t)
       /\ sh' = [sh EXCEPT !.jobs[j].needs = Append(@, t)]
  \/ /\ NJ > 0 /\ Last(sh.jobs).kind = "normal"
     /\ LET j == NJ job == sh.jobs[NJ] m == sh.jobs[NJ].mx IN
        \/ \E o \in OutNames : job.outs = <<>> /\ sh' = [sh EXCEPT !.jobs[j].outs = Append(@, o)]
        \/ /\ Len(job.steps) < MaxSteps
           /\ \E sid \in StepIds : sh' = [sh EXCEPT !.jobs[j].steps = Append(@, sid)]
        \/ \E x \in RunsOn : job.runs = "u" /\ x # "u" /\ sh' = [sh EXCEPT !.jobs[j].runs = x]
        \/ \E x \in Shells : job.shell = "" /\ sh' = [sh EXCEPT !.jobs[j].shell = x]
  \* matrix (normal and reusable-workflow jobs): rows, then include, then exclude
  \/ /\ NJ > 0
     /\ LET j == NJ job == sh.jobs[NJ] m == sh.jobs[NJ].mx IN
        \/ /\ j \in MxJobs /\ "expr" \in IncKinds /\ MxEmpty(m)
           /\ sh' = [sh EXCEPT !.jobs[j].mx.k = "expr"]
        \/ /\ m.k \in {"none", "lit"} /\ m.inc.k = "none" /\ m.exc = "none"
           /\ \E x \in RowNames, kind \in (IF j \in MxJobs THEN RowKinds ELSE {"lit"}) :
                /\ \A i \in DOMAIN m.rows : Lt(m.rows[i].n, x)
                /\ sh' = [sh EXCEPT !.jobs[j].mx.k = "lit", !.jobs[j].mx.rows = Append(@, [n |-> x, lit |-> kind # "expr", vk |-> IF kind \in {"obj", "objexpr"} THEN kind ELSE "num"])]
        \/ /\ j \in MxJobs /\ m.k \in {"none", "lit"} /\ m.inc.k = "none" /\ m.exc = "none" /\ "expr" \in IncKinds
           /\ sh' = [sh EXCEPT !.jobs[j].mx.k = "lit", !.jobs[j].mx.inc.k = "expr"]
        \/ /\ j \in MxJobs /\ m.k \in {"none", "lit"} /\ m.inc.k \in {"none", "list"} /\ m.exc = "none" /\ Len(m.inc.cs) < MaxInc
           /\ \E e \in IncElems :
                sh' = [sh EXCEPT !.jobs[j].mx.k = "lit", !.jobs[j].mx.inc.k = "list", !.jobs[j].mx.inc.cs = Append(@, e)]
        \/ /\ j \in MxJobs /\ m.k = "lit" /\ m.rows # <<>> /\ m.exc = "none"
           /\ \E x \in ExcKinds : sh' = [sh EXCEPT !.jobs[j].mx.exc = x]

(* Spelling of a vector.  Names of steps, jobs, outputs, matrix keys, inputs and secrets are case-insensitive and
   `x.name` and `x['name']` are the same access: Defined(...) is a function of the names alone, so the verdict of a
   vector holds for EVERY spelling below.  Each vector is given one of them (spread over the universe by a fixed
   arithmetic function of the vector) next to the plain one: syn = access syntax of the entity segments of the
   reference, ref / decl = "U" when the reference / the declarations are written with upper-case letters. *)
Spellings == << [syn |-> "dot", ref |-> "l", decl |-> "l"], [syn |-> "idx", ref |-> "l", decl |-> "l"],
                [syn |-> "dot", ref |-> "U", decl |-> "l"], [syn |-> "idx", ref |-> "U", decl |-> "l"],
                [syn |-> "dot", ref |-> "l", decl |-> "U"], [syn |-> "idx", ref |-> "l", decl |-> "U"],
                [syn |-> "dot", ref |-> "U", decl |-> "U"], [syn |-> "idx", ref |-> "U", decl |-> "U"] >>
KindOrd == <<"run", "with", "stepenv", "outputs", "stepname", "steptimeout", "stepif", "envurl", "jobenv", "jobname",
             "environment", "runson", "container", "service", "concurrency", "timeout", "conterr", "callwith",
             "callsecret", "mxrow", "mxinc", "mxexc", "jobif", "wfenv", "runname", "callout", "wfconcgroup", "wfconccancel">>
AllNames == <<"a", "b", "c", "z", "j0", "j1", "j2", "j3", "s", "github_token", "actions_runner_debug">>
IdxIn(seq, x) == IF \E i \in DOMAIN seq : seq[i] = x THEN CHOOSE i \in DOMAIN seq : seq[i] = x ELSE 0
SpellingOf(s, site, r) ==
  LET h == IdxIn(KindOrd, site.k) + 3 * site.j + 5 * site.s + 7 * Len(r.p) + IdxIn(AllNames, r.p[1])
           + Len(s.jobs) + Len(s.jobs[1].steps) + Len(s.jobs[1].needs) + Len(s.jobs[1].mx.rows) + Len(s.jobs[1].mx.inc.cs)
           + Len(s.call.ins) + Len(s.disp.ins) + Len(s.call.sec.ns)
  IN Spellings[(h % 8) + 1]

(* Place of the reference inside the expression.  Whether a reference resolves does not depend on where in the
   expression tree it stands: every operand of every operator, every argument, index and receiver is checked.  "@" is
   the reference; every frame is well typed whatever the type of the reference is. *)
Embeddings == << "toJSON(@)",
                 "toJSON(@) || 'y'", "'y' || toJSON(@)", "toJSON(@) && 'y'", "'y' && toJSON(@)",
                 "(toJSON(@) || 'y') && 'z'", "!(toJSON(@) || 'y') || 'z'", "(toJSON(@) && 'y') || 'z'",
                 "'z' && ('y' || toJSON(@))", "!('y' && toJSON(@)) && 'z'",
                 "('a' && (toJSON(@) || 'y')) || 'z'", "('a' || ('y' && toJSON(@))) && 'z'",
                 "!toJSON(@)", "toJSON(@) == 'a'", "'a' != toJSON(@) || 'z'",
                 "format('{0}', @)", "contains(toJSON(@), 'a')",
                 "toJSON(github[toJSON(@)])", "toJSON(fromJSON(toJSON(@)).extra)" >>
(* Shape of a step id that is given by an expression ("$"): the id is statically unknown in each of them. *)
IdShapes == << "${{ format('dyn{0}', 1) }}", "build-${{ format('dyn{0}', 1) }}", "${{ 'x' }}_build",
               "${{ 'a' }}-${{ 'b' }}", "pre-${{ 'x' }}-post" >>
(* Layout of the header: 0/1 = run-name, env, concurrency written after / before `on:`; +2 = workflow_dispatch
   written before workflow_call. *)
RefOrd(r) == IdxIn(AllNames, r.p[1]) + 11 * Len(r.p)
             + (IF Len(r.p) >= 2 THEN IdxIn(<<"outputs", "result", "conclusion", "zz">>, r.p[2]) ELSE 0)
             + (IF Len(r.p) >= 3 THEN 2 * IdxIn(<<"o", "foo", "zz">>, r.p[3]) ELSE 0)
ShapeOrd(s) == Len(s.jobs) + Len(s.jobs[1].steps) + Len(s.jobs[1].needs) + Len(s.jobs[1].mx.rows) + Len(s.jobs[1].mx.inc.cs)
               + Len(s.jobs[Len(s.jobs)].steps) + Len(s.jobs[Len(s.jobs)].needs)
               + Len(s.call.ins) + Len(s.disp.ins) + Len(s.call.sec.ns)
EmbeddingOf(s, site, r) == Embeddings[((IdxIn(KindOrd, site.k) + 2 * site.j + 3 * site.s + RefOrd(r) + 5 * ShapeOrd(s)) % Len(Embeddings)) + 1]
IdShapeOf(s, site, r) == IdShapes[((site.j + site.s + RefOrd(r) + ShapeOrd(s)) % Len(IdShapes)) + 1]
LayoutOf(s, site, r) == (IdxIn(KindOrd, site.k) + RefOrd(r) + 3 * ShapeOrd(s)) % 4

VecSites(s) == {x \in AllSites(s) : x.k \in Sites}
Pick ==
  /\ sh.jobs # <<>>
  /\ \E site \in VecSites(sh) : \E r \in {q \in RefsFor(sh, site) : q.ctx \in Ctxs /\ (site.k \in ShortSites => Len(q.p) = 1)} :
       tc' = ToJson([sh |-> sh, site |-> site, ref |-> r, def |-> Defined(sh, site, r), sp |-> SpellingOf(sh, site, r),
                     emb |-> EmbeddingOf(sh, site, r), idsh |-> IdShapeOf(sh, site, r), lay |-> LayoutOf(sh, site, r)])
  /\ phase' = "vec"
  /\ UNCHANGED <<sh, visited, cur, k, rs, obs, seen>>

Build == /\ phase = "build"
         /\ \/ (BuildHeader \/ BuildJobs) /\ UNCHANGED <<phase, visited, cur, k, rs, obs, seen, tc>>
            \/ Pick

Apply(res) == rs' = res.rs /\ obs' = res.obs /\ seen' = seen \cup {o.site : o \in res.obs}
VisitWorkflowPre ==
  /\ phase = "build" /\ sh.jobs # <<>>
  /\ Apply(OpWorkflowPre(rs, sh))
  /\ phase' = "between" /\ UNCHANGED <<sh, visited, cur, k, tc>>
VisitJobPre ==
  /\ phase = "between"
  /\ \E j \in DOMAIN sh.jobs \ visited :        \* any unvisited job (source order = any textual order)
       /\ Apply(OpJobPre(rs, sh, j))
       /\ cur' = j
  /\ k' = 0 /\ phase' = "injob" /\ UNCHANGED <<sh, visited, tc>>
VisitStep ==
  /\ phase = "injob" /\ k < Len(sh.jobs[cur].steps)
  /\ Apply(OpStep(rs, sh, cur, k + 1))
  /\ k' = k + 1 /\ UNCHANGED <<sh, phase, visited, cur, tc>>
VisitJobPost ==
  /\ phase = "injob" /\ k = Len(sh.jobs[cur].steps)
  /\ Apply(OpJobPost(rs, sh, cur))
  /\ visited' = visited \cup {cur} /\ cur' = 0 /\ k' = 0 /\ phase' = "between" /\ UNCHANGED <<sh, tc>>
VisitWorkflowPost ==
  /\ phase = "between" /\ visited = DOMAIN sh.jobs
  /\ Apply(OpWorkflowPost(rs, sh))
  /\ phase' = "done" /\ UNCHANGED <<sh, visited, cur, k, tc>>

Init == /\ sh = Sh0 /\ phase = "build" /\ visited = {} /\ cur = 0 /\ k = 0 /\ rs = RS0 /\ obs = {} /\ seen = {}
        /\ tc = ""
Next == Build \/ VisitWorkflowPre \/ VisitJobPre \/ VisitStep \/ VisitJobPost \/ VisitWorkflowPost
Spec == Init /\ [][Next]_vars

----------------------------------------------------------------------------
(* Invariants *)
\* the environment in force at every checked site reports exactly the references that are not in scope
ScopeAgrees == \A o \in obs : \A r \in RefsFor(sh, o.site) : OpReported(o.env, r) = ~Defined(sh, o.site, r)
\* the shell state in force at a run: step is the one the workflow text determines
ShellAgrees == \A o \in obs : o.site.k = "run" => (o.shell = EffShell(sh, o.site.j) /\ o.py = EffPy(sh, o.site.j))
\* per-job state is initial whenever a job can be entered, per-workflow state when a workflow is entered
EntryClean == /\ phase = "between" => PerJob(rs) = PerJob(RS0)
              /\ phase = "build" => rs = RS0
\* every site of the workflow is checked (exactly the sites the declarative layer lists)
AllSitesChecked == phase = "done" => seen = AllSites(sh)
=============================================================================
