------------------------------- MODULE ExprIf -------------------------------
(* The `if:` channel of the expression language: rule_expression.go checkIfCondition.

   The value of an `if:` key (job or step level) is a string of character classes (ExprLexer.tla),
   generated here from SYMBOLS: a symbol is a character class or one of the multi-character marks
       close = }}     open = ${{     and = &&     eqeq = ==
   so that the close / open marks of a placeholder are members of the alphabet like any character.

   Two modes (ast.go ContainsExpression - a purely textual test):
     placeholder : the value contains `${{` and, somewhere after it, `}}`; every `${{ ... }}` is an
                   expression, the text around it is not (rule if-cond speaks about that).
     bare        : anything else; the WHOLE value is the expression ("you may omit ${{ }}").

   Declarative layer : Verdict(t) - in bare mode the value is accepted iff it is a sentence: its
                       characters form documented tokens (ExprLexer!DTok) none of which is the end
                       marker, and the tokens are a sentence of the grammar (ExprParser!Sentences).
                       `}}` outside a string literal is therefore never part of a bare condition.
                       In placeholder mode the text after the first `${{` up to the first end marker
                       token must be a sentence; what happens to later placeholders depends on the
                       semantic check of the earlier ones and is only bounded (at most one syntax
                       diagnostic).
   Operational layer : Check(t, devs, ldevs) - checkIfCondition as it is written: append `}}`, lex
                       and parse up to the first end marker, then (since fix 4175e16) complain if
                       that end marker is not the appended one.  The behaviour before the fix is the
                       named deviation "bare-if-stray-close" (disabled).
   Holds(t, o) is the property for an observation o = [nsyntax, nexpr, inside] of Linter.Lint. *)
EXTENDS Naturals, Sequences, FiniteSets, TLC, Json

CONSTANTS MaxLen, Alphabet,            \* generator: symbol strings over Alphabet up to MaxLen
          EmitTc, PrintAcc, EndMarker  \* (constants of the instantiated modules)
VARIABLES v, s, ts, tc

L == INSTANCE ExprLexer
P == INSTANCE ExprParser

AllIfDevs == {"bare-if-stray-close"}
IfDevs == {}          \* repaired in /repo by fix: commit 4175e16

Expand1(sym) == CASE sym = "close" -> <<"rbrace", "rbrace">>
                  [] sym = "open" -> <<"dollar", "lbrace", "lbrace">>
                  [] sym = "and" -> <<"amp", "amp">>
                  [] sym = "eqeq" -> <<"eq", "eq">>
                  [] OTHER -> <<sym>>
RECURSIVE Expand(_)
Expand(w) == IF w = <<>> THEN <<>> ELSE Expand1(Head(w)) \o Expand(Tail(w))

End2 == <<"rbrace", "rbrace">>
Open3 == <<"dollar", "lbrace", "lbrace">>
Occurrences(t, pat) == {i \in 1 .. Len(t) : i + Len(pat) - 1 <= Len(t) /\ SubSeq(t, i, i + Len(pat) - 1) = pat}
MinOf(set) == CHOOSE x \in set : \A y \in set : x <= y
\* ast.go ContainsExpression: `${{` and a `}}` somewhere behind it
Placeholder(t) == LET os == Occurrences(t, Open3) IN
                  os # {} /\ \E j \in Occurrences(t, End2) : j > MinOf(os)
\* the text handed to the lexer for the first placeholder: everything behind the first `${{`
First(t) == SubSeq(t, MinOf(Occurrences(t, Open3)) + 3, Len(t))

\* token kinds of the lexer -> token classes of the grammar (keywords are identifiers for acceptance)
ClassOf(k) == IF k = "ident" THEN "id"
              ELSE IF k \in {"string", "int", "float"} THEN "lit"
              ELSE IF k \in {"lt", "le", "gt", "ge", "eq", "ne"} THEN "cmp"
              ELSE k
\* the tokens before the closing END as a string of token classes
Body(toks) == [i \in 1 .. (Len(toks) - 1) |-> ClassOf(toks[i].k)]

----------------------------------------------------------------------------
(* Declarative layer *)
BareSentence(t) ==
  LET d == L!DTok(t \o End2) IN
  /\ ~d.err
  /\ d.toks[Len(d.toks)].off = Len(t)          \* the only end marker is the one that closes the condition
  /\ P!Sentences(Body(d.toks), TRUE) # {}
PhSentence(t) ==
  LET d == L!DTok(First(t)) IN ~d.err /\ P!Sentences(Body(d.toks), TRUE) # {}
\* another `${{` behind the end marker of the first placeholder
PhMore(t) ==
  LET f == First(t)
      d == L!DTok(f) IN
  ~d.err /\ Occurrences(SubSeq(f, d.toks[Len(d.toks)].off + 3, Len(f)), Open3) # {}

Verdict(t) == IF Placeholder(t)
                THEN [mode |-> "placeholder", sentence |-> PhSentence(t), more |-> PhMore(t)]
                ELSE [mode |-> "bare", sentence |-> BareSentence(t), more |-> FALSE]

\* the property for what Linter.Lint reports about the value: number of syntax diagnostics, number of
\* all diagnostics of the expression rule, every syntax diagnostic positioned within the condition
Holds(t, o) ==
  LET vd == Verdict(t) IN
  /\ ~vd.sentence => (o.nsyntax = 1 /\ o.nexpr = 1 /\ o.inside)
  /\ (vd.sentence /\ ~vd.more) => o.nsyntax = 0
  /\ (vd.sentence /\ vd.more) => (o.nsyntax <= 1 /\ o.inside)

----------------------------------------------------------------------------
(* Operational layer: checkIfCondition / checkExprsIn.  n = number of syntax diagnostics (2 = not
   determined by syntax alone), off = offset of the diagnostic in the value, dev = the named deviation
   the outcome is owed to. *)
Res(n, off, dev) == [n |-> n, off |-> off, dev |-> dev]

\* lex and parse text up to its first end marker; base = offset of text inside the value
LexParse(text, base, ldevs) ==
  LET lx == L!Run(text, ldevs) IN
  IF lx.err THEN
       \* tokens are lexed on demand: a parse error at a token in front of the lexical error comes first
       LET pe == P!Parse([i \in 1 .. Len(lx.toks) |-> ClassOf(lx.toks[i].k)]) IN
       IF ~pe.ok /\ pe.errAt <= Len(lx.toks)
         THEN [ok |-> FALSE, r |-> Res(1, base + lx.toks[pe.errAt].off, "none"), endoff |-> 0]
         ELSE [ok |-> FALSE, r |-> Res(1, base + lx.off, lx.dev), endoff |-> 0]
  ELSE LET p == P!Parse(Body(lx.toks)) IN
       IF ~p.ok THEN [ok |-> FALSE, r |-> Res(1, base + lx.toks[p.errAt].off, "none"), endoff |-> 0]
       ELSE [ok |-> TRUE, r |-> Res(0, 0, "none"), endoff |-> lx.toks[Len(lx.toks)].off]

Check(t, devs, ldevs) ==
  IF Placeholder(t) THEN
       LET base == MinOf(Occurrences(t, Open3)) + 2
           f == First(t)
           a == LexParse(f, base, ldevs) IN
       IF ~a.ok THEN a.r
       ELSE IF Occurrences(SubSeq(f, a.endoff + 3, Len(f)), Open3) # {} THEN Res(2, 0, "none")
       ELSE Res(0, 0, "none")
  ELSE LET a == LexParse(t \o End2, 0, ldevs) IN
       IF ~a.ok THEN a.r
       ELSE IF a.endoff < Len(t)          \* the lexer stopped at a `}}` written in the condition itself
              THEN IF "bare-if-stray-close" \in devs THEN Res(0, 0, "bare-if-stray-close")
                   ELSE Res(1, a.endoff, "none")
       ELSE Res(0, 0, "none")

\* the observation a run of the model stands for (the end of the lexer's input lies two characters
\* behind the end of the value: an unterminated string literal is reported there)
ObsOf(t, m) == [nsyntax |-> m.n, nexpr |-> m.n, inside |-> m.off <= Len(t) + 2]

----------------------------------------------------------------------------
(* Generator: all symbol strings up to MaxLen; tc = the value as character classes and the model's
   prediction for the code as it is. *)
vars == <<v, s, ts, tc>>

Vector(w) ==
  LET t == Expand(w)
      m == Check(t, IfDevs, L!AllDevs)
      vd == Verdict(t) IN
  ToJson([v |-> w, s |-> t, mode |-> vd.mode, sentence |-> vd.sentence, more |-> vd.more, n |-> m.n, off |-> m.off])

Init == v = <<>> /\ s = <<>> /\ ts = <<>> /\ tc = IF EmitTc THEN Vector(<<>>) ELSE ""
Next == /\ Len(v) < MaxLen
        /\ \E c \in Alphabet : v' = Append(v, c)
        /\ tc' = IF EmitTc THEN Vector(v') ELSE ""
        /\ UNCHANGED <<s, ts>>
Spec == Init /\ [][Next]_vars

text == Expand(v)
design == Check(text, {}, {})
\* the design of checkIfCondition satisfies the property for every value
DesignHolds == design.n = 2 \/ Holds(text, ObsOf(text, design))
\* ... and where syntax alone does not decide, the declarative layer says so too
UndeterminedOnlyWithMore == (design.n = 2) => (Verdict(text).sentence /\ Verdict(text).more)
\* the behaviour before fix 4175e16 differs from the design exactly on bare conditions that are a
\* sentence followed by a stray `}}`
OldDeviationNamed == LET old == Check(text, AllIfDevs, {}) IN (old.n # design.n) <=> (old.dev = "bare-if-stray-close")
=============================================================================
