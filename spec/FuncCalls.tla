----------------------------- MODULE FuncCalls -----------------------------
(* EXT04 part 2 - typing of built-in function calls and operators (expr_sema.go: BuiltinFuncSignatures, checkFuncCall,
   checkFuncSignature, checkBuiltinFuncCall (format), checkNotOp, checkCompareOp / validateCompareOpOperands,
   checkLogicalOp / checkWithNarrowing).  Availability of special functions is C12's, fromJSON literals are C06/C08's.

   Vectors (argument and operand types come from a pool of eight types, written by the harness as fixed expressions):
     call  [f, args]        f a documented function name, one of its other spellings or an undefined name; 0..MaxArgs arguments
     fmt   [pieces, n]      format('<pieces>', 1, ..., 1) with n replacement values; the literal is a sequence of pieces
     cmp   [op, l, r]       l op r
     log   [e]              an expression over ! && || (AST), for the result type
   Observable of a vector: [ty, diags]: the static type of the whole expression as printed by String() and the
   diagnostics [c, w, i, sig, got, want] (class, token the diagnostic points at: "root" = first token of the expression,
   "arg<i>" = first token of argument i, index, signature / operator, the two type names of the message).

   Declarative layer (operators Decl_...)
     DocSigs            the functions of GitHub's "Evaluate expressions in workflows and actions" as docs/checks.md describes
                        their checking: contains(str, substr) and contains(array, item) are overloads, join(strings, sep)
                        and join(strings), hashFiles(file1, file2, ...) and format(fmt, v0, ...) repeat their last parameter
                        one or more times; names are case-insensitive; parameter types follow the conversions of checks.md
                        (DA of TypeAlgebraOps).  A call is accepted iff some overload accepts it; otherwise every overload
                        reports the first reason it does not apply (wrong number of arguments, else the first argument
                        that cannot be assigned); the type of a rejected call is any.
     format             placeholders are {N}; {{ and }} are escapes; every replacement value must be used and every
                        placeholder must have a value.  Judged on literals made of text, escapes and placeholders only.
     comparison         checks.md "Strict type checks for comparison operators": an object or an array compared with a
                        number, bool, string or with each other by == / != is reported; bool, null, object, array with
                        < <= > >= are reported; null and any operands of == / != are never reported.
     ! && ||            !x is bool for every x; l && r is l if l is falsy else r, l || r is l if l is truthy else r:
                        typeof(l && r) = narrow(l, falsy) | typeof(r), typeof(l || r) = narrow(l, truthy) | typeof(r) where
                        (a && b) assumed truthy is b, (a || b) assumed falsy is b ("checkWithNarrowing", #384) and `|` is
                        Merge of the type algebra (as read: the algebra itself is judged by TypeAlgebra).
   Operational layer (operators Op_...): transcriptions of the Go functions; `dv` = enabled deviations:
     Dev_NotNarrowsToOperand   checkWithNarrowing returns the narrowed type of the operand for !x instead of bool. *)
EXTENDS TypeAlgebraOps

CONSTANTS MaxArgs,      \* arguments of calls written with the documented spelling
          SpellArgs,    \* arguments of calls written with another spelling / undefined names
          MaxPieces,    \* pieces of a format literal
          MaxFmtArgs    \* replacement values of format

VARIABLES cur, tc
vars == <<cur, tc>>

FCDevs == {"Dev_NotNarrowsToOperand"}
Tok(prefix, i) == prefix \o ToString(i)

----------------------------------------------------------------------------
(* The type pool *)
PoolTags == <<"any", "null", "number", "bool", "string", "object", "arrstr", "arrany">>
Tags == {PoolTags[i] : i \in DOMAIN PoolTags}
TyOf(tag) ==
  CASE tag = "any" -> AnyT [] tag = "null" -> Null [] tag = "number" -> Number [] tag = "bool" -> Bool
    [] tag = "string" -> String [] tag = "object" -> Obj(<<>>, AnyT)
    [] tag = "arrstr" -> Arr(String, FALSE) [] tag = "arrany" -> Arr(AnyT, FALSE)
TysOf(tags) == [i \in DOMAIN tags |-> TyOf(tags[i])]

D(c, w, i, sig, got, want) == [c |-> c, w |-> w, i |-> i, sig |-> sig, got |-> got, want |-> want]
NoDiag == D("ok", "", "", "", "", "")
Res(ty, diags) == [ty |-> ty, diags |-> diags]

----------------------------------------------------------------------------
(* Functions *)
Sig(name, params, var, ret) == [name |-> name, params |-> params, var |-> var, ret |-> ret]
DocSigs == <<
  Sig("contains",   <<String, String>>, FALSE, Bool),
  Sig("contains",   <<Arr(AnyT, FALSE), AnyT>>, FALSE, Bool),
  Sig("startsWith", <<String, String>>, FALSE, Bool),
  Sig("endsWith",   <<String, String>>, FALSE, Bool),
  Sig("format",     <<String, AnyT>>, TRUE, String),
  Sig("join",       <<Arr(String, FALSE), String>>, FALSE, String),
  Sig("join",       <<Arr(String, FALSE)>>, FALSE, String),
  Sig("toJSON",     <<AnyT>>, FALSE, String),
  Sig("fromJSON",   <<String>>, FALSE, AnyT),
  Sig("hashFiles",  <<String>>, TRUE, String),
  Sig("success",    <<>>, FALSE, Bool),
  Sig("always",     <<>>, FALSE, Bool),
  Sig("cancelled",  <<>>, FALSE, Bool),
  Sig("failure",    <<>>, FALSE, Bool) >>
DocNames == {DocSigs[i].name : i \in DOMAIN DocSigs}
\* other spellings of the documented names (function names are case-insensitive)
Spell == ("contains" :> "contains") @@ ("CONTAINS" :> "contains") @@ ("Contains" :> "contains") @@
         ("startsWith" :> "startsWith") @@ ("startswith" :> "startsWith") @@ ("STARTSWITH" :> "startsWith") @@
         ("endsWith" :> "endsWith") @@ ("endswith" :> "endsWith") @@ ("ENDSWITH" :> "endsWith") @@
         ("format" :> "format") @@ ("FORMAT" :> "format") @@ ("Format" :> "format") @@
         ("join" :> "join") @@ ("JOIN" :> "join") @@ ("Join" :> "join") @@
         ("toJSON" :> "toJSON") @@ ("tojson" :> "toJSON") @@ ("toJson" :> "toJSON") @@ ("TOJSON" :> "toJSON") @@
         ("fromJSON" :> "fromJSON") @@ ("fromjson" :> "fromJSON") @@ ("fromJson" :> "fromJSON") @@ ("FROMJSON" :> "fromJSON") @@
         ("hashFiles" :> "hashFiles") @@ ("hashfiles" :> "hashFiles") @@ ("HASHFILES" :> "hashFiles") @@
         ("success" :> "success") @@ ("SUCCESS" :> "success") @@ ("Success" :> "success") @@
         ("always" :> "always") @@ ("ALWAYS" :> "always") @@
         ("cancelled" :> "cancelled") @@ ("Cancelled" :> "cancelled") @@
         ("failure" :> "failure") @@ ("FAILURE" :> "failure")
UndefinedNames == {"startWith", "tostring", "canceled", "hashFile"}
SigsOf(name) == SelectSeq(DocSigs, LAMBDA s : s.name = name)

RECURSIVE ParamStr(_, _)
ParamStr(ps, i) == IF i > Len(ps) THEN "" ELSE (IF i > 1 THEN ", " ELSE "") \o Str(ps[i]) \o ParamStr(ps, i + 1)
SigStr(s) == s.name \o "(" \o ParamStr(s.params, 1) \o (IF s.var THEN "..." ELSE "") \o ") -> " \o Str(s.ret)
DiagArity(s) == D("arity", "root", "0", SigStr(s), "", "")
DiagArg(s, i, args, p) == D("argtype", Tok("arg", i), ToString(i), SigStr(s), Str(args[i]), Str(p))

\* ---- declarative
ParamAt(s, i) == IF i <= Len(s.params) THEN s.params[i] ELSE s.params[Len(s.params)]
ArityBad(s, n) == IF s.var THEN Len(s.params) > n ELSE Len(s.params) # n
Reason(s, args) ==
  IF ArityBad(s, Len(args)) THEN DiagArity(s)
  ELSE LET bad == {i \in DOMAIN args : ~DA(ParamAt(s, i), args[i]).v} IN
       IF bad = {} THEN NoDiag ELSE DiagArg(s, Min(bad), args, ParamAt(s, Min(bad)))
Decl_Call(v) ==
  IF v.f \notin DOMAIN Spell THEN Res("any", {D("undef", "root", "0", "", "", "")})
  ELSE LET sigs == SigsOf(Spell[v.f])
           args == TysOf(v.args)
           okk  == {k \in DOMAIN sigs : Reason(sigs[k], args).c = "ok"} IN
       IF okk # {} THEN Res(Str(sigs[Min(okk)].ret), {})
       ELSE Res("any", {Reason(sigs[k], args) : k \in DOMAIN sigs})

\* ---- operational: checkFuncSignature (length test, loop over Params, loop over the rest), checkFuncCall (overload loop)
RECURSIVE OpRestLoop(_, _, _), OpParamLoop(_, _, _), OpSigLoop(_, _, _, _)
OpRestLoop(s, args, j) ==
  IF j > Len(args) THEN NoDiag
  ELSE IF ~Assignable(s.params[Len(s.params)], args[j]) THEN DiagArg(s, j, args, s.params[Len(s.params)])
  ELSE OpRestLoop(s, args, j + 1)
OpParamLoop(s, args, i) ==
  IF i > Len(s.params) THEN (IF s.var THEN OpRestLoop(s, args, Len(s.params) + 1) ELSE NoDiag)
  ELSE IF ~Assignable(s.params[i], args[i]) THEN DiagArg(s, i, args, s.params[i])
  ELSE OpParamLoop(s, args, i + 1)
OpCheckSig(s, args) ==
  LET lp == Len(s.params) la == Len(args) IN
  IF (s.var /\ lp > la) \/ (~s.var /\ lp # la) THEN DiagArity(s) ELSE OpParamLoop(s, args, 1)
OpSigLoop(sigs, args, k, errs) ==
  IF k > Len(sigs) THEN Res("any", errs)
  ELSE LET e == OpCheckSig(sigs[k], args) IN
       IF e.c = "ok" THEN Res(Str(sigs[k].ret), {}) ELSE OpSigLoop(sigs, args, k + 1, errs \cup {e})
Op_Call(v, dv) ==
  IF v.f \notin DOMAIN Spell THEN Res("any", {D("undef", "root", "0", "", "", "")})      \* strings.ToLower + map lookup
  ELSE OpSigLoop(SigsOf(Spell[v.f]), TysOf(v.args), 1, {})

----------------------------------------------------------------------------
(* format() literals.  Pieces: x text, oo {{, cc }}, p0 p1 p2 p9 p10 placeholders; not judged (operational layer only):
   o a lone {, c a lone }, p01 {01}, pe {}, ps { 0} *)
Judged == {"x", "oo", "cc", "p0", "p1", "p2", "p9", "p10"}
Unjudged == {"o", "c", "p01", "pe", "ps"}
PieceChars(p) ==
  CASE p = "x" -> <<"x">> [] p = "oo" -> <<"{", "{">> [] p = "cc" -> <<"}", "}">>
    [] p = "p0" -> <<"{", "0", "}">> [] p = "p1" -> <<"{", "1", "}">> [] p = "p2" -> <<"{", "2", "}">>
    [] p = "p9" -> <<"{", "9", "}">> [] p = "p10" -> <<"{", "1", "0", "}">>
    [] p = "o" -> <<"{">> [] p = "c" -> <<"}">> [] p = "p01" -> <<"{", "0", "1", "}">>
    [] p = "pe" -> <<"{", "}">> [] p = "ps" -> <<"{", " ", "0", "}">>
PieceIdx == ("p0" :> 0) @@ ("p1" :> 1) @@ ("p2" :> 2) @@ ("p9" :> 9) @@ ("p10" :> 10)
RECURSIVE Chars(_, _)
Chars(ps, i) == IF i > Len(ps) THEN <<>> ELSE PieceChars(ps[i]) \o Chars(ps, i + 1)
FmtDiags(used, n) ==
  {D("fmt-unused", "root", ToString(i), "", "", "") : i \in {i2 \in 0 .. (n - 1) : i2 \notin used}}
  \cup {D("fmt-missing", "root", ToString(j), "", "", "") : j \in {j2 \in used : j2 >= n}}
FmtJudged(v) == \A i \in DOMAIN v.pieces : v.pieces[i] \in Judged
\* format(string, v0, ...) needs at least one replacement value (the last parameter is repeated one or more times)
Decl_Fmt(v) ==
  IF v.n = 0 THEN Res("any", {DiagArity(DocSigs[5])})
  ELSE Res("string", FmtDiags({PieceIdx[v.pieces[i]] : i \in {i2 \in DOMAIN v.pieces : v.pieces[i2] \in DOMAIN PieceIdx}}, v.n))

\* parseFormatFuncSpecifiers: `start` is the position after an opening brace (0: none); strconv.Atoi of the digits
Digit == ("0" :> 0) @@ ("1" :> 1) @@ ("2" :> 2) @@ ("9" :> 9)
RECURSIVE Atoi(_, _, _)
Atoi(ds, i, acc) == IF i > Len(ds) THEN acc ELSE Atoi(ds, i + 1, acc * 10 + Digit[ds[i]])
RECURSIVE OpFmtScan(_, _, _, _)
OpFmtScan(cs, i, start, ret) ==
  IF i > Len(cs) THEN ret
  ELSE LET r == cs[i] IN
       IF r = "{" THEN (IF start = i THEN OpFmtScan(cs, i + 1, 0, ret) ELSE OpFmtScan(cs, i + 1, i + 1, ret))
       ELSE IF start > 0
         THEN (IF r \in DOMAIN Digit THEN OpFmtScan(cs, i + 1, start, ret)
               ELSE IF r = "}" /\ start < i THEN OpFmtScan(cs, i + 1, 0, ret \cup {Atoi(SubSeq(cs, start, i - 1), 1, 0)})
               ELSE OpFmtScan(cs, i + 1, 0, ret))
       ELSE OpFmtScan(cs, i + 1, start, ret)
Op_Fmt(v, dv) ==
  IF v.n = 0 THEN Res("any", {DiagArity(DocSigs[5])})              \* checkFuncSignature: at least 2 parameters
  ELSE Res("string", FmtDiags(OpFmtScan(Chars(v.pieces, 1), 1, 0, {}), v.n))

----------------------------------------------------------------------------
(* Comparison operators *)
CmpOps == {"==", "!=", "<", "<=", ">", ">="}
KindOf(t) == IF t.k = "obj" THEN "object" ELSE IF t.k = "arr" THEN "array" ELSE t.k
Values == {"number", "bool", "string"}
Decl_CmpBad(op, l, r) ==
  LET lk == KindOf(l) rk == KindOf(r) IN
  IF op \in {"==", "!="}
    THEN \/ lk \in {"object", "array"} /\ rk \in Values
         \/ rk \in {"object", "array"} /\ lk \in Values
         \/ {lk, rk} = {"object", "array"}
    ELSE lk \in {"bool", "null", "object", "array"} \/ rk \in {"bool", "null", "object", "array"}
CmpDiag(v) == D("cmp", "root", "0", v.op, Str(TyOf(v.l)), Str(TyOf(v.r)))
Decl_Cmp(v) == Res("bool", IF Decl_CmpBad(v.op, TyOf(v.l), TyOf(v.r)) THEN {CmpDiag(v)} ELSE {})
\* validateCompareOpOperands: TRUE = valid
RECURSIVE OpCmpValid(_, _, _)
OpCmpValid(op, l, r) ==
  IF op \in {"==", "!="} THEN
    CASE l.k \in {"any", "null"} -> TRUE
      [] l.k \in {"number", "bool", "string"} -> (IF r.k \in {"obj", "arr"} THEN FALSE ELSE TRUE)
      [] l.k = "obj" -> r.k \in {"obj", "null", "any"}
      [] l.k = "arr" -> (IF r.k = "arr" THEN OpCmpValid(op, l.elem, r.elem) ELSE r.k \in {"null", "any"})
  ELSE
    CASE l.k \in {"any", "number", "string"} -> (IF r.k \in {"null", "bool", "obj", "arr"} THEN FALSE ELSE TRUE)
      [] OTHER -> FALSE
Op_Cmp(v, dv) == Res("bool", IF OpCmpValid(v.op, TyOf(v.l), TyOf(v.r)) THEN {} ELSE {CmpDiag(v)})

----------------------------------------------------------------------------
(* ! && || *)
Leaf(tag) == [k |-> "leaf", t |-> tag]
NotE(e)   == [k |-> "not", e |-> e]
AndE(l, r) == [k |-> "and", l |-> l, r |-> r]
OrE(l, r)  == [k |-> "or", l |-> l, r |-> r]
M2(a, b) == CHOOSE m \in MergeAll(a, b) : TRUE            \* Merge is a function on the pool (no object lists two properties)
RECURSIVE TyE(_, _), Narrow(_, _, _)
TyE(e, dv) ==
  CASE e.k = "leaf" -> TyOf(e.t)
    [] e.k = "not"  -> Bool
    [] e.k = "and"  -> M2(Narrow(e.l, FALSE, dv), TyE(e.r, dv))
    [] e.k = "or"   -> M2(Narrow(e.l, TRUE, dv), TyE(e.r, dv))
Narrow(e, truthy, dv) ==
  IF e.k = "and" /\ truthy THEN TyE(e.r, dv)
  ELSE IF e.k = "or" /\ ~truthy THEN TyE(e.r, dv)
  ELSE IF e.k = "not" THEN (IF "Dev_NotNarrowsToOperand" \in dv THEN Narrow(e.e, ~truthy, dv) ELSE Bool)
  ELSE TyE(e, dv)
Decl_Log(v) == Res(Str(TyE(v.e, {})), {})
Op_Log(v, dv) == Res(Str(TyE(v.e, dv)), {})

Forms1 == {"not", "notnot"}
Forms2 == {"and", "or", "not-and", "not-or", "and-not", "or-not"}
Forms3 == {"and-or", "or-and", "and-and", "or-or", "or+and", "not(and)-or", "not(or)-and", "not(and)-and", "not(or)-or",
           "notnot(and)-or"}
Build(form, xs) ==
  LET X == Leaf(xs[1])
      Y == IF Len(xs) >= 2 THEN Leaf(xs[2]) ELSE Leaf("any")
      Z == IF Len(xs) >= 3 THEN Leaf(xs[3]) ELSE Leaf("any") IN
  CASE form = "not" -> NotE(X)
    [] form = "notnot" -> NotE(NotE(X))
    [] form = "and" -> AndE(X, Y)
    [] form = "or" -> OrE(X, Y)
    [] form = "not-and" -> AndE(NotE(X), Y)
    [] form = "not-or" -> OrE(NotE(X), Y)
    [] form = "and-not" -> AndE(X, NotE(Y))
    [] form = "or-not" -> OrE(X, NotE(Y))
    [] form = "and-or" -> OrE(AndE(X, Y), Z)
    [] form = "or-and" -> AndE(OrE(X, Y), Z)
    [] form = "and-and" -> AndE(AndE(X, Y), Z)
    [] form = "or-or" -> OrE(OrE(X, Y), Z)
    [] form = "or+and" -> OrE(X, AndE(Y, Z))
    [] form = "not(and)-or" -> OrE(NotE(AndE(X, Y)), Z)
    [] form = "not(or)-and" -> AndE(NotE(OrE(X, Y)), Z)
    [] form = "not(and)-and" -> AndE(NotE(AndE(X, Y)), Z)
    [] form = "not(or)-or" -> OrE(NotE(OrE(X, Y)), Z)
    [] form = "notnot(and)-or" -> OrE(NotE(NotE(AndE(X, Y))), Z)

----------------------------------------------------------------------------
(* Dispatch *)
Decl(v) == CASE v.kind = "call" -> Decl_Call(v) [] v.kind = "fmt" -> Decl_Fmt(v)
             [] v.kind = "cmp" -> Decl_Cmp(v) [] v.kind = "log" -> Decl_Log(v)
Op(v, dv) == CASE v.kind = "call" -> Op_Call(v, dv) [] v.kind = "fmt" -> Op_Fmt(v, dv)
               [] v.kind = "cmp" -> Op_Cmp(v, dv) [] v.kind = "log" -> Op_Log(v, dv)
IsJudged(v) == IF v.kind = "fmt" THEN FmtJudged(v) ELSE TRUE
DevsOf(v) == IF IsJudged(v) THEN {d \in FCDevs : Op(v, {d}) # Decl(v)} ELSE {}
Out(r) == [ty |-> r.ty, diags |-> SetToSeq(r.diags)]

----------------------------------------------------------------------------
(* Generator *)
SigJ(s) == [name |-> s.name, params |-> s.params, var |-> s.var, ret |-> s.ret, str |-> SigStr(s)]
Header == ToJson([kind |-> "header", sigs |-> [i \in DOMAIN DocSigs |-> SigJ(DocSigs[i])], devs |-> SetToSeq(FCDevs),
                  tags |-> PoolTags, pool |-> [i \in DOMAIN PoolTags |-> Str(TyOf(PoolTags[i]))]])
TC(v) == ToJson([v |-> v, judged |-> IsJudged(v), exp |-> Out(Decl(v)), asread |-> Out(Op(v, FCDevs)), devs |-> SetToSeq(DevsOf(v))])

CallVec(f, args) == [kind |-> "call", f |-> f, args |-> args]
FmtVec(pieces, n) == [kind |-> "fmt", pieces |-> pieces, n |-> n]
CmpVec(op, l, r) == [kind |-> "cmp", op |-> op, l |-> l, r |-> r]
LogVec(form, xs) == [kind |-> "log", form |-> form, xs |-> xs, e |-> Build(form, xs)]
Go(v) == cur' = v /\ tc' = TC(v)

Init == cur = [kind |-> "init"] /\ tc = Header
AtInit == cur.kind = "init"
Next ==
  \/ AtInit /\ \E f \in DOMAIN Spell \cup UndefinedNames : Go(CallVec(f, <<>>))
  \/ /\ cur.kind = "call"
     /\ Len(cur.args) < (IF cur.f \in DocNames THEN MaxArgs ELSE SpellArgs)
     /\ \E a \in Tags : Go(CallVec(cur.f, Append(cur.args, a)))
  \/ AtInit /\ \E n \in 0 .. MaxFmtArgs : Go(FmtVec(<<>>, n))
  \/ /\ cur.kind = "fmt" /\ Len(cur.pieces) < MaxPieces
     /\ \E p \in (IF Len(cur.pieces) < 2 THEN Judged \cup Unjudged ELSE Judged) : Go(FmtVec(Append(cur.pieces, p), cur.n))
  \/ AtInit /\ \E op \in CmpOps, l \in Tags, r \in Tags : Go(CmpVec(op, l, r))
  \/ AtInit /\ \E f \in Forms1, x \in Tags : Go(LogVec(f, <<x>>))
  \/ /\ cur.kind = "log" /\ cur.form = "not"
     /\ \E f \in Forms2, y \in Tags : Go(LogVec(f, Append(cur.xs, y)))
  \/ /\ cur.kind = "log" /\ cur.form = "and"
     /\ \E f \in Forms3, z \in Tags : Go(LogVec(f, Append(cur.xs, z)))
Spec == Init /\ [][Next]_vars

----------------------------------------------------------------------------
(* Invariants (E) *)
\* the design (no deviation) is what the documentation says, wherever the documentation speaks
Agree == (~AtInit /\ IsJudged(cur)) => Op(cur, {}) = Decl(cur)
\* the code as read differs from the documentation only where a single named deviation explains it
Confined == (~AtInit /\ IsJudged(cur)) => (Op(cur, FCDevs) # Decl(cur) => DevsOf(cur) # {})
\* table sanity
TablesOK == AtInit =>
  /\ \A n \in DocNames : Spell[n] = n
  /\ \A f \in DOMAIN Spell : Spell[f] \in DocNames
  /\ \A i \in DOMAIN DocSigs : DocSigs[i].var => Len(DocSigs[i].params) > 0
  /\ DocSigs[5].name = "format"
  /\ UndefinedNames \cap DOMAIN Spell = {}
  /\ \A tag \in Tags : WF(TyOf(tag))
=============================================================================
