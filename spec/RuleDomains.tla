----------------------------- MODULE RuleDomains -----------------------------
(* EXT01 - value domains of the linter rules (extension: no listed property pins these down).

   Rules: events (rule_events.go: webhook names / activity types / filters / workflows, workflow_dispatch
   inputs, workflow_call input defaults), permissions, shell-name, runner-label, id, env-var, credentials,
   deprecated-commands, if-cond.

   Per rule
     Declarative layer : Decl_<rule>(v) - the diagnostics docs/checks.md (and GitHub's syntax as quoted there)
                         demands for the value(s) of vector v, written as predicates / set comprehensions over
                         the value ("v is a valid value at this position").
     Operational layer : Op_<rule>(v, devs) - a transcription of what the rule of /repo does (loops, early
                         returns, maps, the regular expressions as automata, strings.HasPrefix/Count/Index on
                         the segment structure).  `devs` is the set of enabled *named deviations*: with
                         devs = {} the operational layer is the intended design, with a deviation enabled it is
                         the code as read (DESIGN 2.1).  AllDevs lists them.
     TLC invariants    : Agree     Op(v, {}) = Decl(v)                          (design = documentation)
                         Confined  Op(v, AllDevs) # Decl(v) => some single deviation explains it
                         plus table sanity invariants evaluated in the initial state.
   Generator: the universe of every rule is grown by Next (one symbol / segment / label / filter per step);
   `tc` = ToJson(vector + exp (= Decl) + asread (= Op with all deviations) + devs (deviations that change
   the outcome of this vector)).  Diagnostics are records [c = class, w = where (token name), p = partner
   token ("" if none), n = multiplicity].

   Strings are sequences of symbols; the harness concatenates the symbol texts ("$" = a whole ${{ }} placeholder,
   "t" = TAB in env names; segment symbols of credentials / if-cond: P placeholder, T text, W blank, N line
   feed, O " && ", B the two characters }} ). *)
EXTENDS Naturals, Sequences, FiniteSets, TLC, Json

CONSTANTS Rules,        \* enabled rule universes
          IdAlpha, IdLen,       \* id strings
          EnvAlpha, EnvLen,     \* env-var names
          NumAlpha, NumLen, CallNumLen,   \* `default:` of number inputs (dispatch / call)
          SegLen,               \* credentials / if-cond segment sequences
          CmdNameLen,           \* deprecated-commands: name= strings
          MultiLabels, MultiLen, \* runner-label: literal label lists
          MxLabels              \* runner-label: matrix row values

Range(f) == {f[i] : i \in DOMAIN f}
D(c, w)      == [c |-> c, w |-> w, p |-> "", n |-> 1]
DP(c, w, p)  == [c |-> c, w |-> w, p |-> p,  n |-> 1]
DN(c, w, n)  == [c |-> c, w |-> w, p |-> "", n |-> n]
Tok(prefix, i) == prefix \o ToString(i)
Min(S) == CHOOSE x \in S : \A y \in S : x <= y
HasExpr(s) == \E i \in DOMAIN s : s[i] = "$"
Last(s) == s[Len(s)]
Count(s, x) == Cardinality({i \in DOMAIN s : s[i] = x})
SeqsUpTo(S, n) == UNION {[1 .. k -> S] : k \in 0 .. n}

\* Dev_IfBracesBefore, Dev_CmdNameDigit and Dev_CmdNameUnderscore were repaired in /repo (fix: commits); their
\* branches stay as named, disabled deviations.
AllDevs == {"Dev_CredTrailingBraces", "Dev_IfTrailingBraces"}

----------------------------------------------------------------------------
(* id  (rule_id.go; docs "ID naming convention", "Job ID and step ID uniqueness")
   part "conv": [pos \in {"job","step","needs"}, s]        where-token "id"
   part "dup" : [ids = sequence of step ids, split]         step i is token "s<i>"; with split the last step
                                                            lives in a second job *)
IdLetters == {"a", "A", "b"}
IdDigits  == {"1"}
Lower(s) == [i \in DOMAIN s |-> IF s[i] = "A" THEN "a" ELSE s[i]]

\* declarative: "IDs must start with a letter or _ and contain only alphanumeric characters, - or _";
\* an ID written with ${{ }} is not known statically
IdConvOK(s) ==
  \/ HasExpr(s)
  \/ /\ Len(s) >= 1
     /\ s[1] \in IdLetters \cup {"_"}
     /\ \A i \in 2 .. Len(s) : s[i] \in IdLetters \cup IdDigits \cup {"_", "-"}
IdClass(pos) == IF pos = "step" THEN "invalid-step-id" ELSE "invalid-job-id"
Decl_IdConv(v) == IF IdConvOK(v.s) THEN {} ELSE {D(IdClass(v.pos), "id")}

IdJobOf(v, i) == IF v.split /\ i = Len(v.ids) THEN 2 ELSE 1
Decl_IdDup(v) ==
  {D("invalid-step-id", Tok("s", i)) : i \in {i2 \in DOMAIN v.ids : ~IdConvOK(v.ids[i2])}}
  \cup {DP("dup-step-id", Tok("s", i),
           Tok("s", Min({j \in 1 .. (i - 1) : IdJobOf(v, j) = IdJobOf(v, i) /\ Lower(v.ids[j]) = Lower(v.ids[i])}))) :
        i \in {i2 \in DOMAIN v.ids :
                 \E j \in 1 .. (i2 - 1) : IdJobOf(v, j) = IdJobOf(v, i2) /\ Lower(v.ids[j]) = Lower(v.ids[i2])}}

\* operational: jobIDPattern ^[a-zA-Z_][a-zA-Z0-9_-]*$ as an automaton; validateConvention's guard order
RECURSIVE IdMatch(_, _, _)
IdMatch(s, i, q) ==
  IF i > Len(s) THEN q = 1
  ELSE IF q = 0 THEN (IF s[i] \in {"a", "b", "A", "_"} THEN IdMatch(s, i + 1, 1) ELSE FALSE)
  ELSE (IF s[i] \in {"a", "b", "A", "1", "_", "-"} THEN IdMatch(s, i + 1, 1) ELSE FALSE)
OpIdBad(s) == IF Len(s) = 0 THEN FALSE ELSE IF HasExpr(s) THEN FALSE ELSE ~IdMatch(s, 1, 0)
Op_IdConv(v, devs) == IF OpIdBad(v.s) THEN {D(IdClass(v.pos), "id")} ELSE {}

\* VisitStep: seen map (lower-cased id -> first step), reset per job
RECURSIVE OpIdSteps(_, _, _, _)
OpIdSteps(v, i, seen, out) ==
  IF i > Len(v.ids) THEN out
  ELSE LET sn == IF i > 1 /\ IdJobOf(v, i) # IdJobOf(v, i - 1) THEN <<>> ELSE seen
           o1 == IF OpIdBad(v.ids[i]) THEN out \cup {D("invalid-step-id", Tok("s", i))} ELSE out
           key == Lower(v.ids[i])
           hit == {k \in DOMAIN sn : sn[k][1] = key} IN
       IF hit # {} THEN OpIdSteps(v, i + 1, sn, o1 \cup {DP("dup-step-id", Tok("s", i), Tok("s", sn[Min(hit)][2]))})
       ELSE OpIdSteps(v, i + 1, Append(sn, <<key, i>>), o1)
Op_IdDup(v, devs) == OpIdSteps(v, 1, <<>>, {})

IdDupAtoms == {<<"a">>, <<"A">>, <<"b">>, <<"a", ".">>, <<"A", ".">>}
IdPositions == {"job", "step", "needs"}

----------------------------------------------------------------------------
(* env-var  (rule_env_var.go; docs "Environment variable names")   token "name"
   [pos \in {"workflow","job","step","container","service"}, s] *)
EnvForbidden == {"&", "=", " ", "t"}        \* '&', '=' and spaces (blank, TAB)
Decl_Env(v) == IF HasExpr(v.s) \/ \A i \in DOMAIN v.s : v.s[i] \notin EnvForbidden THEN {}
               ELSE {D("invalid-name", "name")}
\* strings.ContainsAny(name, "&= \t") after the ContainsExpression skip
RECURSIVE OpContainsAny(_, _, _)
OpContainsAny(s, i, chars) ==
  IF i > Len(s) THEN FALSE
  ELSE IF \E k \in DOMAIN chars : chars[k] = s[i] THEN TRUE ELSE OpContainsAny(s, i + 1, chars)
Op_Env(v, devs) == IF HasExpr(v.s) THEN {}
                   ELSE IF OpContainsAny(v.s, 1, <<"&", "=", " ", "t">>) THEN {D("invalid-name", "name")} ELSE {}
EnvPositions == {"workflow", "job", "step", "container", "service"}

----------------------------------------------------------------------------
(* credentials  (rule_credentials.go; docs "Hardcoded credentials")   token "password"
   [pos \in {"container","service"}, s]  s over P (${{ secrets.PW }}), T (text), W (blank), B (the characters }})
   docs: "Password should be put in secrets and the value should be expanded with ${{ }} syntax":
   the value is one placeholder and nothing else (blanks around it do not count). *)
RECURSIVE TrimLeft(_)
TrimLeft(s) == IF Len(s) > 0 /\ s[1] \in {"W", "N"} THEN TrimLeft(SubSeq(s, 2, Len(s))) ELSE s
RECURSIVE TrimRight(_)
TrimRight(s) == IF Len(s) > 0 /\ s[Len(s)] \in {"W", "N"} THEN TrimRight(SubSeq(s, 1, Len(s) - 1)) ELSE s
Trim(s) == TrimRight(TrimLeft(s))

Decl_Cred(v) == IF Trim(v.s) = <<"P">> THEN {} ELSE {D("hardcoded", "password")}

\* isExprAssigned: v := TrimSpace(s); HasPrefix(v, "${{") && HasSuffix(v, "}}") && Count(v, "${{") == 1.
\* Design: the closing braces are those of the placeholder.  Dev_CredTrailingBraces: any trailing }} will do.
OpExprAssigned(s, loose) ==
  LET t == Trim(s) IN
  /\ Len(t) > 0
  /\ t[1] = "P"
  /\ (IF loose THEN Last(t) \in {"P", "B"} ELSE Last(t) = "P")
  /\ Count(t, "P") = 1
Op_Cred(v, devs) == IF OpExprAssigned(v.s, "Dev_CredTrailingBraces" \in devs) THEN {} ELSE {D("hardcoded", "password")}
CredAlpha == {"P", "T", "W", "B"}
CredPositions == {"container", "service"}

----------------------------------------------------------------------------
(* if-cond  (rule_if_cond.go; docs "Conditions always evaluated to true at if:")   token "if"
   [pos \in {"job","step"}, s]  s over P (${{ true }}), T (true), W (blank), N (line feed), O ( && ), B (}})
   docs: with ${{ }} the condition is the boolean only if there are no extra characters around the ${{ }};
   otherwise it is a string and always true.  Without ${{ }} blanks do not matter. *)
Decl_If(v) == IF (\E i \in DOMAIN v.s : v.s[i] = "P") /\ v.s # <<"P">> THEN {D("always-true", "if")} ELSE {}

\* ContainsExpression: i := Index(s, "${{"); i >= 0 && i < Index(s, "}}")
\* Design: there is a placeholder.  Dev_IfBracesBefore: a }} in front of the first ${{ hides it.
OpFirst(s, syms) == LET hit == {i \in DOMAIN s : s[i] \in syms} IN IF hit = {} THEN 0 ELSE Min(hit)
OpContainsExpr(s, strict) ==
  LET i == OpFirst(s, {"P"})
      j == OpFirst(s, {"P", "B"})       \* the first }} is that of the first placeholder or an earlier B
  IN IF i = 0 THEN FALSE ELSE IF strict THEN j >= i ELSE TRUE
\* HasPrefix(s, "${{") && HasSuffix(s, "}}") && Count(s, "${{") == 1 (no TrimSpace here)
\* Design: the suffix is the end of the placeholder.  Dev_IfTrailingBraces: any trailing }} will do.
Op_If(v, devs) ==
  IF ~OpContainsExpr(v.s, "Dev_IfBracesBefore" \in devs) THEN {}
  ELSE IF /\ v.s[1] = "P"
          /\ (IF "Dev_IfTrailingBraces" \in devs THEN Last(v.s) \in {"P", "B"} ELSE Last(v.s) = "P")
          /\ Count(v.s, "P") = 1
       THEN {}
       ELSE {D("always-true", "if")}
IfAlpha == {"P", "T", "W", "N", "O", "B"}
IfPositions == {"job", "step"}

----------------------------------------------------------------------------
(* deprecated-commands  (rule_deprecated_commands.go; docs "Check deprecated workflow commands")  token "run"
   [frs = sequence of fragments, join \in {"nl","sp"}]
   fragment [cmd, sep \in {"none","sp","sp2","tab"}, name (symbols f F _ - 1 .), val \in {"v",""}]
     sep = "none":  ::cmd::val            otherwise:  ::cmd<sep>name=<name>::val
   docs: set-output, save-state, set-env, add-path are deprecated; their uses in run: are reported (one
   diagnostic per use).  A use of the three named commands is ::cmd name=<name>::<value> with a non-empty
   value and a name that is an identifier (letter or _ first, then letters, digits, _ or -); a use of
   add-path is ::add-path::<value>. *)
CmdNamed == {"set-output", "save-state", "set-env"}
CmdDeprecated == CmdNamed \cup {"add-path"}
CmdNameOK(nm) == /\ Len(nm) >= 1
                 /\ nm[1] \in {"f", "F", "_"}
                 /\ \A i \in 2 .. Len(nm) : nm[i] \in {"f", "F", "_", "-", "1"}
CmdIsUse(f) ==
  /\ f.val # ""
  /\ IF f.cmd \in CmdNamed THEN f.sep # "none" /\ CmdNameOK(f.name)
     ELSE f.cmd = "add-path" /\ f.sep = "none"
CmdBag(frs, used) ==
  {DN(c, "run", Cardinality({i \in used : frs[i].cmd = c})) : c \in {frs[i].cmd : i \in used}}
Decl_Cmd(v) == CmdBag(v.frs, {i \in DOMAIN v.frs : CmdIsUse(v.frs[i])})

\* deprecatedCommandsPattern, first alternative ::(save-state|set-output|set-env)\s+name=[a-zA-Z][a-zA-Z_-]*::\S+
\* second ::(add-path)::\S+ ; the name class as an automaton.
\* Design: first character letter or _, later characters also digits.
\* Dev_CmdNameUnderscore: first character [a-zA-Z] only.  Dev_CmdNameDigit: later characters [a-zA-Z_-] only.
RECURSIVE OpCmdName(_, _, _)
OpCmdName(nm, i, devs) ==
  IF i > Len(nm) THEN i > 1
  ELSE IF i = 1
    THEN (IF nm[1] \in {"f", "F"} \/ (nm[1] = "_" /\ "Dev_CmdNameUnderscore" \notin devs)
            THEN OpCmdName(nm, 2, devs) ELSE FALSE)
    ELSE (IF nm[i] \in {"f", "F", "_", "-"} \/ (nm[i] = "1" /\ "Dev_CmdNameDigit" \notin devs)
            THEN OpCmdName(nm, i + 1, devs) ELSE FALSE)
OpCmdMatch(f, devs) ==
  IF f.cmd \in {"save-state", "set-output", "set-env"}
    THEN (IF f.sep = "none" THEN FALSE ELSE OpCmdName(f.name, 1, devs) /\ f.val # "")
  ELSE IF f.cmd = "add-path" THEN f.sep = "none" /\ f.val # ""
  ELSE FALSE
\* FindAllStringSubmatch: one error per match, in order
RECURSIVE OpCmdLoop(_, _, _, _)
OpCmdLoop(frs, i, devs, used) ==
  IF i > Len(frs) THEN CmdBag(frs, used)
  ELSE OpCmdLoop(frs, i + 1, devs, IF OpCmdMatch(frs[i], devs) THEN used \cup {i} ELSE used)
Op_Cmd(v, devs) == OpCmdLoop(v.frs, 1, devs, {})

CmdAll == CmdDeprecated \cup {"debug", "set-outputs"}
CmdNameAlpha == {"f", "F", "_", "-", "1", "."}
Frag(c, sp, nm, val) == [cmd |-> c, sep |-> sp, name |-> nm, val |-> val]
\* representatives used for scripts of two fragments
CmdReps == {Frag("set-output", "sp", <<"f">>, "v"), Frag("set-output", "sp", <<"f", "1">>, "v"),
            Frag("save-state", "sp2", <<"f", "-">>, "v"), Frag("set-env", "tab", <<"F">>, "v"),
            Frag("add-path", "none", <<>>, "v"), Frag("debug", "none", <<>>, "v"),
            Frag("set-output", "sp", <<"f">>, ""), Frag("set-output", "none", <<>>, "v")}

----------------------------------------------------------------------------
(* permissions  (rule_permissions.go; docs "Permissions")
   [pos \in {"workflow","job"}, form \in {"all","scopes"}, all, scopes = sequence of <<name, value>>]
   tokens: "all", "k<i>" (scope name), "v<i>" (scope value) *)
PermScopes == {"actions", "attestations", "checks", "contents", "deployments", "id-token", "issues", "discussions",
               "packages", "pages", "pull-requests", "repository-projects", "security-events", "statuses"}
PermLevels == {"read", "write", "none"}
PermAllValues == {"read-all", "write-all"}
Decl_Perm(v) ==
  IF v.form = "all" THEN (IF v.all \in PermAllValues THEN {} ELSE {D("bad-all", "all")})
  ELSE {D("unknown-scope", Tok("k", i)) : i \in {i2 \in DOMAIN v.scopes : v.scopes[i2][1] \notin PermScopes}}
       \cup {D("bad-value", Tok("v", i)) : i \in {i2 \in DOMAIN v.scopes : v.scopes[i2][2] \notin PermLevels}}
\* checkPermissions: p.All switch + return; loop over the scopes (map lookup, value switch)
RECURSIVE OpPermLoop(_, _, _)
OpPermLoop(scopes, i, out) ==
  IF i > Len(scopes) THEN out
  ELSE LET o1 == IF scopes[i][1] \in PermScopes THEN out ELSE out \cup {D("unknown-scope", Tok("k", i))}
           val == scopes[i][2]
           o2 == IF val = "read" THEN o1 ELSE IF val = "write" THEN o1 ELSE IF val = "none" THEN o1
                 ELSE o1 \cup {D("bad-value", Tok("v", i))} IN
       OpPermLoop(scopes, i + 1, o2)
Op_Perm(v, devs) ==
  IF v.form = "all"
    THEN (IF v.all = "write-all" THEN {} ELSE IF v.all = "read-all" THEN {} ELSE {D("bad-all", "all")})
    ELSE OpPermLoop(v.scopes, 1, {})
PermPositions == {"workflow", "job"}
PermAllU == {"read-all", "write-all", "none", "read", "write", "Read-All", "all", "write-all "}
PermScopeU == PermScopes \cup {"check", "Contents", "models", "id_token", "pull_requests"}
PermLevelU == PermLevels \cup {"readable", "Write", "read-all", "admin"}

----------------------------------------------------------------------------
(* shell-name  (rule_shell_name.go; docs "Shell name validation at shell:")   token "shell"
   [pos \in {"step","job-default","wf-default"}, shell, ro = sequence of labels]
   a label is <<family, rest>> (text = family \o rest), e.g. <<"windows", "-latest">>, <<"linux", "">>;
   <<"$mx", "">> is ${{ matrix.os }}.
   docs / GitHub's table "using a specific shell": bash, pwsh, python on all platforms; sh on Linux / macOS only;
   cmd, powershell on Windows only; a shell containing {0} is a custom shell; names are compared without
   regard to letter case (assumption, the documentation is silent).  The platform of a job follows from its
   runs-on labels (GitHub-hosted windows-* / ubuntu-* / macos-* labels, self-hosted OS labels windows / linux /
   macos); labels of both platforms or none leave it unknown.  A workflow-level default applies to jobs of
   any platform: platform unknown. *)
ShellTable == ("bash" :> {"win", "unix"}) @@ ("pwsh" :> {"win", "unix"}) @@ ("python" :> {"win", "unix"}) @@
              ("sh" :> {"unix"}) @@ ("cmd" :> {"win"}) @@ ("powershell" :> {"win"})
ShellLower == ("Bash" :> "bash") @@ ("PowerShell" :> "powershell") @@ ("SH" :> "sh")
ShellLow(x) == IF x \in DOMAIN ShellLower THEN ShellLower[x] ELSE x
ShellCustom == {"perl {0}", "bash -e {0}", "{0}"}
ShellExprs == {"$shell"}                            \* ${{ matrix.shell }}
FamLower == ("Windows" :> "windows") @@ ("LINUX" :> "linux") @@ ("Ubuntu" :> "ubuntu")
FamLow(x) == IF x \in DOMAIN FamLower THEN FamLower[x] ELSE x

\* declarative
LabelOS(l) ==
  LET fam == FamLow(l[1]) hosted == l[2] # "" IN
  IF fam = "windows" THEN "win"                                      \* windows-<version> or the label windows
  ELSE IF fam \in {"ubuntu", "macos"} /\ hosted THEN "unix"          \* ubuntu-<version>, macos-<version>
  ELSE IF fam \in {"linux", "macos"} /\ ~hosted THEN "unix"          \* self-hosted OS labels
  ELSE "none"
JobPlatform(ro) ==
  LET oss == {LabelOS(ro[i]) : i \in DOMAIN ro} \ {"none"} IN
  IF Cardinality(oss) = 1 THEN CHOOSE o \in oss : TRUE ELSE "any"
PlatformAt(v) == IF v.pos = "wf-default" THEN "any" ELSE JobPlatform(v.ro)
ShellAvail(plat) == {s \in DOMAIN ShellTable : plat = "any" \/ plat \in ShellTable[s]}
Decl_Shell(v) ==
  LET plat == PlatformAt(v) name == ShellLow(v.shell) IN
  IF v.shell \in ShellCustom \cup ShellExprs \/ name \in ShellAvail(plat) THEN {}
  ELSE IF name \in DOMAIN ShellTable
    THEN {D(IF plat = "win" THEN "invalid-on-windows" ELSE "invalid-on-unix", "shell")}
    ELSE {D("invalid", "shell")}

\* operational: getPlatformFromRunner (loop with early return on the first conflict), checkShellName
OpLabelKind(l) ==
  LET fam == FamLow(l[1]) IN
  IF (fam = "windows" /\ l[2] # "") \/ (fam = "windows" /\ l[2] = "") THEN "win"
  ELSE IF (fam = "macos" /\ l[2] # "") \/ (fam = "ubuntu" /\ l[2] # "") \/ (fam = "macos" /\ l[2] = "")
          \/ (fam = "linux" /\ l[2] = "") THEN "unix"
  ELSE "any"
RECURSIVE OpPlatform(_, _, _)
OpPlatform(ro, i, ret) ==
  IF i > Len(ro) THEN ret
  ELSE LET k == OpLabelKind(ro[i]) IN
       IF k = "any" THEN OpPlatform(ro, i + 1, ret)
       ELSE IF ret # "any" /\ ret # k THEN "any"
       ELSE OpPlatform(ro, i + 1, k)
OpShellNames(kind) == IF kind = "any" THEN <<"bash", "pwsh", "python", "sh", "cmd", "powershell">>
                      ELSE IF kind = "win" THEN <<"bash", "pwsh", "python", "cmd", "powershell">>
                      ELSE <<"bash", "pwsh", "python", "sh">>
Op_Shell(v, devs) ==
  LET plat == IF v.pos = "wf-default" THEN "any" ELSE OpPlatform(v.ro, 1, "any")
      name == ShellLow(v.shell) IN
  IF v.shell \in ShellCustom THEN {}                       \* strings.Contains(value, "{0}")
  ELSE IF v.shell \in ShellExprs THEN {}                   \* ContainsExpression
  ELSE IF name \in Range(OpShellNames(plat)) THEN {}
  ELSE IF plat = "win" /\ name \in Range(OpShellNames("any")) THEN {D("invalid-on-windows", "shell")}
  ELSE IF plat = "unix" /\ name \in Range(OpShellNames("any")) THEN {D("invalid-on-unix", "shell")}
  ELSE {D("invalid", "shell")}

ShellU == DOMAIN ShellTable \cup DOMAIN ShellLower \cup ShellCustom \cup ShellExprs \cup {"dash", "fish", "zsh"}
L(f, r) == <<f, r>>
ShellRunsOnU == {
  <<L("ubuntu", "-latest")>>, <<L("ubuntu", "-22.04")>>, <<L("macos", "-latest")>>, <<L("macos", "-14")>>,
  <<L("windows", "-latest")>>, <<L("windows", "-2022")>>, <<L("Windows", "-Latest")>>, <<L("windows", "-foo")>>,
  <<L("self-hosted", "")>>, <<L("self-hosted", ""), L("linux", "")>>, <<L("self-hosted", ""), L("macos", "")>>,
  <<L("self-hosted", ""), L("windows", "")>>, <<L("self-hosted", ""), L("x64", "")>>,
  <<L("linux", ""), L("self-hosted", "")>>, <<L("LINUX", "")>>, <<L("ubuntu", "")>>, <<L("linux", "-x")>>,
  <<L("ubuntu", "-latest"), L("windows", "-latest")>>,
  <<L("windows", "-latest"), L("ubuntu", "-latest"), L("windows", "-2022")>>,
  <<L("self-hosted", ""), L("windows", ""), L("windows", "-2022")>>,
  <<L("$mx", "")>>, <<L("self-hosted", ""), L("$mx", "")>>, <<L("windows", ""), L("$mx", "")>>, <<L("gpu", "")>>}
ShellPositions == {"step", "job-default", "wf-default"}

----------------------------------------------------------------------------
(* runner-label  (rule_runner_label.go; docs "Runner labels")
   [cfg \in {"none","custom"}, form \in {"scalar","seq","mscalar","mseq"},
    els = sequence of [k \in {"lit","mx","mxtext"}, v = label text], row, inc = sequences of label texts]
   form: runs-on written as a scalar / a sequence / a mapping with labels: scalar / labels: sequence.
   "mx" is ${{ matrix.os }}, "mxtext" is ${{ matrix.os }}-x (not a lone placeholder: cannot be resolved).
   row = values of matrix row `os`, inc = values assigned to `os` by include entries ("$x" = a value written
   with ${{ }}: not known statically).  strategy is written in front of runs-on.
   tokens: "l<i>" runs-on element i, "r<j>" row value j, "i<k>" include value k.
   docs: a label is valid if it is a GitHub-hosted runner label, a preset self-hosted label or matches a label
   pattern of the configuration file; ${{ matrix.x }} is resolved to its possible values which are validated;
   labels of one runs-on list must not contradict each other in the operating system they stand for (alternatives
   of one matrix expression are not compared with each other).  Label names ignore letter case.
   The image table is the one of the pinned actionlint version (no offline copy of GitHub's page exists). *)
Ub(x) == {x}
HostedCompat ==
  ("ubuntu-latest" :> {"u22"}) @@ ("ubuntu-latest-4-cores" :> {"u22"}) @@ ("ubuntu-latest-8-cores" :> {"u22"}) @@
  ("ubuntu-latest-16-cores" :> {"u22"}) @@ ("ubuntu-24.04" :> {"u24"}) @@ ("ubuntu-24.04-arm" :> {"u24"}) @@
  ("ubuntu-22.04" :> {"u22"}) @@ ("ubuntu-22.04-arm" :> {"u22"}) @@ ("ubuntu-20.04" :> {"u20"}) @@
  ("macos-latest-xl" :> {"m14x"}) @@ ("macos-latest-xlarge" :> {"m14x"}) @@ ("macos-latest-large" :> {"m14l"}) @@
  ("macos-latest" :> {"m14"}) @@ ("macos-15-xlarge" :> {"m15x"}) @@ ("macos-15-large" :> {"m15l"}) @@
  ("macos-15" :> {"m15"}) @@ ("macos-14-xl" :> {"m14x"}) @@ ("macos-14-xlarge" :> {"m14x"}) @@
  ("macos-14-large" :> {"m14l"}) @@ ("macos-14" :> {"m14"}) @@ ("macos-13-xl" :> {"m13x"}) @@
  ("macos-13-xlarge" :> {"m13x"}) @@ ("macos-13-large" :> {"m13l"}) @@ ("macos-13" :> {"m13"}) @@
  ("windows-latest" :> {"w22"}) @@ ("windows-latest-8-cores" :> {"w22"}) @@ ("windows-2025" :> {"w25"}) @@
  ("windows-2022" :> {"w22"}) @@ ("windows-2019" :> {"w19"})
PresetOS ==
  ("linux" :> {"u24", "u22", "u20"}) @@
  ("macos" :> {"m15", "m15l", "m15x", "m14", "m14l", "m14x", "m13", "m13l", "m13x"}) @@
  ("windows" :> {"w22", "w19"})
PresetOther == {"self-hosted", "x64", "arm", "arm64"}
LabelLower == ("Ubuntu-Latest" :> "ubuntu-latest") @@ ("LINUX" :> "linux") @@ ("Self-Hosted" :> "self-hosted")
LabLow(x) == IF x \in DOMAIN LabelLower THEN LabelLower[x] ELSE x
CfgPatterns(cfg) == IF cfg = "custom" THEN <<"gpu", "big-*">> ELSE <<>>
GlobMatch(pat, l) == <<pat, l>> \in {<<"gpu", "gpu">>, <<"big-*", "big-1">>, <<"big-*", "big-">>}   \* path.Match

\* ---- declarative
LabelKnown(l, cfg) ==
  \/ LabLow(l) \in DOMAIN HostedCompat \cup DOMAIN PresetOS \cup PresetOther
  \/ \E k \in DOMAIN CfgPatterns(cfg) : GlobMatch(CfgPatterns(cfg)[k], l)
LabelImages(l) == IF LabLow(l) \in DOMAIN HostedCompat THEN HostedCompat[LabLow(l)]
                  ELSE IF LabLow(l) \in DOMAIN PresetOS THEN PresetOS[LabLow(l)]
                  ELSE {}                                   \* says nothing about the operating system
\* position order of the tokens in the file (strategy first)
Alt(tok, ord, label) == [tok |-> tok, ord |-> ord, label |-> label]
Static(seqv) == {j \in DOMAIN seqv : seqv[j] # "$x"}
MxAlts(v) == {Alt(Tok("r", j), j, v.row[j]) : j \in Static(v.row)}
             \cup {Alt(Tok("i", k), 10 + k, v.inc[k]) : k \in Static(v.inc)}
HasMatrix(v) == v.row # <<>> \/ v.inc # <<>>
Group(v, i) == IF v.els[i].k = "lit" THEN {Alt(Tok("l", i), 20 + i, v.els[i].v)}
               ELSE IF v.els[i].k = "mx" /\ HasMatrix(v) THEN MxAlts(v)
               ELSE {}
AllAlts(v) == UNION {Group(v, i) : i \in DOMAIN v.els}
FirstOf(S) == CHOOSE a \in S : \A b \in S : a.ord <= b.ord
Disjoint(a, b) == LabelImages(a.label) \cap LabelImages(b.label) = {}
Informative(a, cfg) == LabelKnown(a.label, cfg) /\ LabelImages(a.label) # {}
\* a label is reported when it contradicts a label accepted before it (which of several contradicted labels
\* the message names is not part of the documented behaviour: LabelPartnerSound only demands that it is one)
RECURSIVE DeclConf(_, _, _, _)
DeclConf(v, g, accepted, out) ==
  IF g > Len(v.els) THEN out
  ELSE LET cands == {a \in Group(v, g) : Informative(a, v.cfg)}
           bad == {a \in cands : \E b \in accepted : Disjoint(a, b)} IN
       DeclConf(v, g + 1, accepted \cup (cands \ bad),
                out \cup {D("conflict", a.tok) : a \in bad})
Decl_Label(v) ==
  {D("unknown", a.tok) : a \in {a2 \in AllAlts(v) : ~LabelKnown(a2.label, v.cfg)}}
  \cup DeclConf(v, 1, {}, {})

\* ---- operational
\* verifyRunnerLabel: [known, images]; defaultRunnerOSCompats -> preset other labels -> config patterns -> error
RECURSIVE OpKnownLoop(_, _, _)
OpKnownLoop(pats, k, l) == IF k > Len(pats) THEN FALSE
                           ELSE IF GlobMatch(pats[k], l) THEN TRUE ELSE OpKnownLoop(pats, k + 1, l)
OpVerify(l, cfg) ==
  LET low == LabLow(l) IN
  IF low \in DOMAIN HostedCompat THEN [known |-> TRUE, comp |-> HostedCompat[low]]
  ELSE IF low \in DOMAIN PresetOS THEN [known |-> TRUE, comp |-> PresetOS[low]]
  ELSE IF low \in PresetOther THEN [known |-> TRUE, comp |-> {}]
  ELSE IF OpKnownLoop(CfgPatterns(cfg), 1, l) THEN [known |-> TRUE, comp |-> {}]
  ELSE [known |-> FALSE, comp |-> {}]
\* tryToGetLabelsInMatrix: row values then include values, in order, as a sequence of alternatives
SetToSeqByOrd(S) == CHOOSE f \in [1 .. Cardinality(S) -> S] :
                      \A i, j \in 1 .. Cardinality(S) : i < j => f[i].ord < f[j].ord
OpMatrixLabels(v, e) == IF e.k = "mx" /\ HasMatrix(v) THEN SetToSeqByOrd(MxAlts(v)) ELSE <<>>
\* rule.compats: sequence of <<comp, alternative>>, at most one entry per comp value
OpConflictOf(compats, comp) ==
  LET hit == {k \in DOMAIN compats : compats[k][1] \cap comp = {}} IN
  IF hit = {} THEN "" ELSE FirstOf({compats[k][2] : k \in hit}).tok
OpRegister(compats, comp, a) == IF \E k \in DOMAIN compats : compats[k][1] = comp THEN compats
                                ELSE Append(compats, <<comp, a>>)
\* checkCombiCompat: every alternative against the labels registered before, then register the survivors
RECURSIVE OpCombiCheck(_, _, _, _, _)
OpCombiCheck(alts, comps, i, compats, st) ==      \* st = [out, keep]
  IF i > Len(alts) THEN st
  ELSE LET c == OpConflictOf(compats, comps[i]) IN
       IF comps[i] # {} /\ c # ""
         THEN OpCombiCheck(alts, comps, i + 1, compats, [st EXCEPT !.out = @ \cup {DP("conflict", alts[i].tok, c)}])
         ELSE OpCombiCheck(alts, comps, i + 1, compats, [st EXCEPT !.keep = @ \cup {i}])
RECURSIVE OpCombiRegister(_, _, _, _, _)
OpCombiRegister(alts, comps, keep, i, compats) ==
  IF i > Len(alts) THEN compats
  ELSE OpCombiRegister(alts, comps, keep, i + 1,
                       IF i \in keep /\ comps[i] # {} THEN OpRegister(compats, comps[i], alts[i]) ELSE compats)
Unknowns(alts, cfg) == {D("unknown", alts[i].tok) : i \in {i2 \in DOMAIN alts : ~OpVerify(alts[i2].label, cfg).known}}
RECURSIVE OpLabelLoop(_, _, _, _)
OpLabelLoop(v, i, compats, out) ==
  IF i > Len(v.els) THEN out
  ELSE LET e == v.els[i] IN
       IF e.k = "lit" THEN
         LET a == Alt(Tok("l", i), 20 + i, e.v)
             r == OpVerify(e.v, v.cfg)
             o1 == IF r.known THEN out ELSE out \cup {D("unknown", a.tok)}
             c == OpConflictOf(compats, r.comp) IN
         IF r.comp = {} THEN OpLabelLoop(v, i + 1, compats, o1)
         ELSE IF c # "" THEN OpLabelLoop(v, i + 1, compats, o1 \cup {DP("conflict", a.tok, c)})
         ELSE OpLabelLoop(v, i + 1, OpRegister(compats, r.comp, a), o1)
       ELSE
         LET alts == OpMatrixLabels(v, e)
             comps == [k \in DOMAIN alts |-> OpVerify(alts[k].label, v.cfg).comp]
             st == OpCombiCheck(alts, comps, 1, compats, [out |-> {}, keep |-> {}]) IN
         OpLabelLoop(v, i + 1, OpCombiRegister(alts, comps, st.keep, 1, compats),
                     out \cup Unknowns(alts, v.cfg) \cup st.out)
Op_Label(v, devs) ==
  IF Len(v.els) = 1 /\ v.els[1].k = "lit"
    THEN (IF OpVerify(v.els[1].v, v.cfg).known THEN {} ELSE {D("unknown", "l1")})     \* checkLabel
  ELSE IF Len(v.els) = 1 /\ v.form \in {"seq", "mseq"}
    THEN Unknowns(OpMatrixLabels(v, v.els[1]), v.cfg)                                  \* checkLabel, expression
  ELSE OpLabelLoop(v, 1, <<>>, {})                 \* LabelsExpr or several labels: checkLabelAndConflict

Lit(x) == [k |-> "lit", v |-> x]
Mx == [k |-> "mx", v |-> ""]
MxText == [k |-> "mxtext", v |-> ""]
LabelSingles == DOMAIN HostedCompat \cup DOMAIN PresetOS \cup PresetOther \cup DOMAIN LabelLower
                \cup {"gpu", "big-1", "big", "linux-latest", "macos-10.13", "ubuntu-18.04", "ubuntu"}
LabelForms == {"scalar", "seq", "mscalar", "mseq"}
MxSideLabels == {"linux", "windows-latest", "self-hosted", "ubuntu-20.04"}
MxIncLabels == {"windows-2019", "macos", "bogus"}
LabelVec(cfg, form, els, row, inc) == [rule |-> "runner-label", cfg |-> cfg, form |-> form, els |-> els, row |-> row, inc |-> inc]

----------------------------------------------------------------------------
(* events  (rule_events.go; docs "Webhook events validation", "Workflow dispatch event validation",
            "Check input definitions of workflow_call event")
   part "webhook": [form \in {"map","scalar","seq"}, hook, types, filters (sequence, source order), workflows]
                   tokens "hook", "t<i>", "f:<filter>"
   part "dispatch": [inputs = sequence of [type, hasdef, def, opts]]   tokens "in<i>:name", "in<i>:default",
                   "in<i>:opt<j>";  part "dispatch-count": [n] inputs, token "event"
   part "call": [type, hasdef, def, req \in {"absent","true","false"}]  token "default" *)
W(h, ts) == h :> ts
\* the table the documentation designates (all_webhooks.go of the pinned version, generated from GitHub's page);
\* workflow_dispatch / repository_dispatch are not Webhook events for the parser and are left out
WebhookTypes ==
  W("branch_protection_rule", <<"created", "edited", "deleted">>) @@
  W("check_run", <<"created", "rerequested", "completed", "requested_action">>) @@
  W("check_suite", <<"completed">>) @@
  W("create", <<>>) @@
  W("delete", <<>>) @@
  W("deployment", <<>>) @@
  W("deployment_status", <<>>) @@
  W("discussion", <<"created", "edited", "deleted", "transferred", "pinned", "unpinned", "labeled", "unlabeled", "locked", "unlocked", "category_changed", "answered", "unanswered">>) @@
  W("discussion_comment", <<"created", "edited", "deleted">>) @@
  W("fork", <<>>) @@
  W("gollum", <<>>) @@
  W("issue_comment", <<"created", "edited", "deleted">>) @@
  W("issues", <<"opened", "edited", "deleted", "transferred", "pinned", "unpinned", "closed", "reopened", "assigned", "unassigned", "labeled", "unlabeled", "locked", "unlocked", "milestoned", "demilestoned">>) @@
  W("label", <<"created", "edited", "deleted">>) @@
  W("merge_group", <<"checks_requested">>) @@
  W("milestone", <<"created", "closed", "opened", "edited", "deleted">>) @@
  W("page_build", <<>>) @@
  W("project", <<"created", "closed", "reopened", "edited", "deleted">>) @@
  W("project_card", <<"created", "moved", "converted", "edited", "deleted">>) @@
  W("project_column", <<"created", "updated", "moved", "deleted">>) @@
  W("public", <<>>) @@
  W("pull_request", <<"assigned", "unassigned", "labeled", "unlabeled", "opened", "edited", "closed", "reopened", "synchronize", "converted_to_draft", "locked", "unlocked", "enqueued", "dequeued", "milestoned", "demilestoned", "ready_for_review", "review_requested", "review_request_removed", "auto_merge_enabled", "auto_merge_disabled">>) @@
  W("pull_request_review", <<"submitted", "edited", "dismissed">>) @@
  W("pull_request_review_comment", <<"created", "edited", "deleted">>) @@
  W("pull_request_target", <<"assigned", "unassigned", "labeled", "unlabeled", "opened", "edited", "closed", "reopened", "synchronize", "converted_to_draft", "ready_for_review", "locked", "unlocked", "review_requested", "review_request_removed", "auto_merge_enabled", "auto_merge_disabled">>) @@
  W("push", <<>>) @@
  W("registry_package", <<"published", "updated">>) @@
  W("release", <<"published", "unpublished", "created", "edited", "deleted", "prereleased", "released">>) @@
  W("status", <<>>) @@
  W("watch", <<"started">>) @@
  W("workflow_run", <<"completed", "requested", "in_progress">>)
NumberOfWebhookEvents == 31
Hooks == DOMAIN WebhookTypes
UnknownHooks == {"pullreq", "PUSH", "pull-request"}
AllTypeNames == UNION {Range(WebhookTypes[h]) : h \in Hooks}
TypeU == AllTypeNames \cup {"bogus", "Opened"}
\* the table of docs/checks.md "Events where the filter is available"
FilterAvail ==
  ("paths" :> {"push", "pull_request", "pull_request_target"}) @@
  ("paths-ignore" :> {"push", "pull_request", "pull_request_target"}) @@
  ("branches" :> {"merge_group", "push", "pull_request", "pull_request_target", "workflow_run"}) @@
  ("branches-ignore" :> {"merge_group", "push", "pull_request", "pull_request_target", "workflow_run"}) @@
  ("tags" :> {"push"}) @@
  ("tags-ignore" :> {"push"})
Filters == DOMAIN FilterAvail
FilterPairs == {<<"paths", "paths-ignore">>, <<"branches", "branches-ignore">>, <<"tags", "tags-ignore">>}
IndexOf(seqv, x) == CHOOSE i \in DOMAIN seqv : seqv[i] = x
FTok(f) == "f:" \o f

\* ---- declarative
Decl_Webhook(v) ==
  IF v.hook \notin Hooks THEN {D("unknown-event", "hook")}
  ELSE
  LET valid == Range(WebhookTypes[v.hook])
      given == Range(v.filters) IN
  (IF valid = {} THEN (IF v.types # <<>> THEN {D("types-not-allowed", "hook")} ELSE {})
   ELSE {D("bad-type", Tok("t", i)) : i \in {i2 \in DOMAIN v.types : v.types[i2] \notin valid}})
  \cup (IF v.hook = "workflow_run" /\ ~v.workflows THEN {D("no-workflows", "hook")} ELSE {})
  \cup (IF v.hook # "workflow_run" /\ v.workflows THEN {D("workflows-unavailable", "hook")} ELSE {})
  \cup {D("filter-unavailable", FTok(f)) : f \in {f2 \in given : v.hook \notin FilterAvail[f2]}}
  \cup {D("exclusive", FTok(IF IndexOf(v.filters, pr[1]) > IndexOf(v.filters, pr[2]) THEN pr[1] ELSE pr[2])) :
        pr \in {pr2 \in FilterPairs : pr2[1] \in given /\ pr2[2] \in given /\ v.hook \in FilterAvail[pr2[1]]}}

\* ---- operational: checkWebhookEvent / checkTypes / checkExclusiveFilters
RECURSIVE OpTypesLoop(_, _, _, _)
OpTypesLoop(types, expected, i, out) ==
  IF i > Len(types) THEN out
  ELSE OpTypesLoop(types, expected, i + 1,
                   IF \E k \in DOMAIN expected : expected[k] = types[i] THEN out ELSE out \cup {D("bad-type", Tok("t", i))})
OpCheckTypes(types, expected) ==
  IF Len(expected) = 0 /\ Len(types) > 0 THEN {D("types-not-allowed", "hook")}
  ELSE OpTypesLoop(types, expected, 1, {})
OpExclusive(v, f, ign, available) ==
  LET hasF == \E i \in DOMAIN v.filters : v.filters[i] = f
      hasI == \E i \in DOMAIN v.filters : v.filters[i] = ign IN
  IF \E k \in DOMAIN available : available[k] = v.hook
    THEN (IF hasF /\ hasI
            THEN {D("exclusive", FTok(IF IndexOf(v.filters, f) < IndexOf(v.filters, ign) THEN ign ELSE f))}
            ELSE {})
    ELSE (IF hasF THEN {D("filter-unavailable", FTok(f))} ELSE {})
         \cup (IF hasI THEN {D("filter-unavailable", FTok(ign))} ELSE {})
Op_Webhook(v, devs) ==
  IF v.hook \notin DOMAIN WebhookTypes THEN {D("unknown-event", "hook")}
  ELSE OpCheckTypes(v.types, WebhookTypes[v.hook])
       \cup (IF v.hook = "workflow_run"
               THEN (IF ~v.workflows THEN {D("no-workflows", "hook")} ELSE {})
               ELSE (IF v.workflows THEN {D("workflows-unavailable", "hook")} ELSE {}))
       \cup OpExclusive(v, "paths", "paths-ignore", <<"push", "pull_request", "pull_request_target">>)
       \cup OpExclusive(v, "branches", "branches-ignore",
                        <<"merge_group", "push", "pull_request", "pull_request_target", "workflow_run">>)
       \cup OpExclusive(v, "tags", "tags-ignore", <<"push">>)

SmallTypes(h) == IF h \in Hooks THEN {WebhookTypes[h][i] : i \in {i2 \in DOMAIN WebhookTypes[h] : i2 <= 2}} \cup {"bogus"}
                 ELSE {"bogus"}
SixFwd == <<"branches", "branches-ignore", "tags", "tags-ignore", "paths", "paths-ignore">>
SixRev == <<"paths-ignore", "paths", "tags-ignore", "tags", "branches-ignore", "branches">>
WebhookForms == {"map", "scalar", "seq"}

\* ---- number syntax: "the default value of number input must be parsed as a float number" (decimal notation)
IsDigit1(c) == c \in {"0", "1"}
Digits(s) == Len(s) >= 1 /\ \A i \in DOMAIN s : IsDigit1(s[i])
DigitsOpt(s) == \A i \in DOMAIN s : IsDigit1(s[i])
Before(s, k) == SubSeq(s, 1, k - 1)
After(s, k) == SubSeq(s, k + 1, Len(s))
Mantissa(s) == \/ Digits(s)
               \/ \E k \in DOMAIN s : /\ s[k] = "."
                                      /\ DigitsOpt(Before(s, k)) /\ DigitsOpt(After(s, k))
                                      /\ Len(s) >= 2
SignedDigits(s) == Digits(s) \/ (Len(s) >= 2 /\ s[1] \in {"-", "+"} /\ Digits(After(s, 1)))
Unsigned(s) == \/ Mantissa(s)
               \/ \E k \in DOMAIN s : s[k] = "e" /\ Mantissa(Before(s, k)) /\ SignedDigits(After(s, k))
\* a float number is a 64-bit one: with the digit 1 only, a positive exponent of four or more digits (>= 1111) is out of range
\* (found by TLC's vector 1e1111: strconv.ParseFloat reports "value out of range")
ExpOf(s) == LET ks == {k \in DOMAIN s : s[k] = "e"} IN IF ks = {} THEN <<>> ELSE After(s, Min(ks))
OutOfRange(s) == LET x == ExpOf(s) IN Len(x) >= 4 /\ x[1] # "-" /\ Cardinality({i \in DOMAIN x : IsDigit1(x[i])}) >= 4
WellFormedFloat(s) == Unsigned(s) \/ (Len(s) >= 1 /\ s[1] \in {"-", "+"} /\ Unsigned(After(s, 1)))
IsFloat(s) == WellFormedFloat(s) /\ ~OutOfRange(s)
\* strconv.ParseFloat (readFloat) restricted to the alphabet: sign, digits, '.', exponent
RECURSIVE OpFloat(_, _, _)
OpFloat(s, i, q) ==
  IF i > Len(s) THEN q \in {"int", "frac", "exp"}
  ELSE LET c == s[i] IN
  CASE q = "start"  -> IF c \in {"-", "+"} THEN OpFloat(s, i + 1, "signed") ELSE OpFloat(s, i, "signed")
    [] q = "signed" -> IF IsDigit1(c) THEN OpFloat(s, i + 1, "int")
                       ELSE IF c = "." THEN OpFloat(s, i + 1, "dot0") ELSE FALSE
    [] q = "int"    -> IF IsDigit1(c) THEN OpFloat(s, i + 1, "int")
                       ELSE IF c = "." THEN OpFloat(s, i + 1, "frac")
                       ELSE IF c = "e" THEN OpFloat(s, i + 1, "e0") ELSE FALSE
    [] q = "dot0"   -> IF IsDigit1(c) THEN OpFloat(s, i + 1, "frac") ELSE FALSE
    [] q = "frac"   -> IF IsDigit1(c) THEN OpFloat(s, i + 1, "frac")
                       ELSE IF c = "e" THEN OpFloat(s, i + 1, "e0") ELSE FALSE
    [] q = "e0"     -> IF c \in {"-", "+"} THEN OpFloat(s, i + 1, "e1")
                       ELSE IF IsDigit1(c) THEN OpFloat(s, i + 1, "exp") ELSE FALSE
    [] q = "e1"     -> IF IsDigit1(c) THEN OpFloat(s, i + 1, "exp") ELSE FALSE
    [] q = "exp"    -> IF IsDigit1(c) THEN OpFloat(s, i + 1, "exp") ELSE FALSE
\* atof: ErrSyntax if the automaton rejects, ErrRange if the exponent overflows
RECURSIVE OpExpDigits(_, _, _)
OpExpDigits(s, i, n) == IF i > Len(s) THEN n ELSE OpExpDigits(s, i + 1, IF IsDigit1(s[i]) THEN n + 1 ELSE n)
OpOverflow(s) == LET k == OpFirst(s, {"e"}) IN
                 IF k = 0 \/ k = Len(s) THEN FALSE ELSE s[k + 1] # "-" /\ OpExpDigits(s, k + 1, 0) >= 4
OpIsFloat(s) == IF Len(s) = 0 THEN FALSE ELSE OpFloat(s, 1, "start") /\ ~OpOverflow(s)

\* booleans: "must be true or false" (the spellings of the YAML core schema: true / True / TRUE ...)
BoolTrueFalse == {<<"true">>, <<"false">>, <<"True">>, <<"False">>, <<"TRUE">>, <<"FALSE">>}
BoolLower == ("True" :> "true") @@ ("TRUE" :> "true") @@ ("False" :> "false") @@ ("FALSE" :> "false")
OpIsBool(def) == Len(def) = 1 /\ (LET d == IF def[1] \in DOMAIN BoolLower THEN BoolLower[def[1]] ELSE def[1] IN
                                  d = "true" \/ d = "false")
BoolU == {<<"true">>, <<"false">>, <<"True">>, <<"TRUE">>, <<"False">>, <<"FALSE">>, <<"yes">>, <<"no">>, <<"1">>,
          <<"0">>, <<"on">>, <<"true", " ">>, <<>>}

\* ---- workflow_dispatch
Inp(ty, hasdef, def, opts) == [type |-> ty, hasdef |-> hasdef, def |-> def, opts |-> opts]
ITok(i, what) == Tok("in", i) \o ":" \o what
DeclInput(inp, i) ==
  IF inp.type = "choice" THEN
    IF inp.opts = <<>> THEN {D("no-options", ITok(i, "name"))}
    ELSE {D("dup-option", ITok(i, Tok("opt", j))) : j \in {j2 \in DOMAIN inp.opts : \E k \in 1 .. (j2 - 1) : inp.opts[k] = inp.opts[j2]}}
         \cup (IF inp.hasdef /\ ~\E o \in Range(inp.opts) : inp.def = <<o>> THEN {D("default-not-in-options", ITok(i, "default"))} ELSE {})
  ELSE (IF inp.opts # <<>> THEN {D("options-not-choice", ITok(i, "name"))} ELSE {})
       \cup (IF inp.hasdef /\ inp.type = "number" /\ ~IsFloat(inp.def) THEN {D("bad-number-default", ITok(i, "default"))} ELSE {})
       \cup (IF inp.hasdef /\ inp.type = "boolean" /\ inp.def \notin BoolTrueFalse THEN {D("bad-bool-default", ITok(i, "default"))} ELSE {})
Decl_Dispatch(v) == UNION {DeclInput(v.inputs[i], i) : i \in DOMAIN v.inputs}
MaxDispatchInputs == 10
Decl_DispatchCount(v) == IF v.n > MaxDispatchInputs THEN {D("too-many-inputs", "event")} ELSE {}

RECURSIVE OpOptsLoop(_, _, _, _, _)
OpOptsLoop(opts, i, j, seen, out) ==
  IF j > Len(opts) THEN [seen |-> seen, out |-> out]
  ELSE IF opts[j] \in seen THEN OpOptsLoop(opts, i, j + 1, seen, out \cup {D("dup-option", ITok(i, Tok("opt", j)))})
  ELSE OpOptsLoop(opts, i, j + 1, seen \cup {opts[j]}, out)
OpInput(inp, i) ==
  IF inp.type = "choice" THEN
    IF Len(inp.opts) = 0 THEN {D("no-options", ITok(i, "name"))}          \* continue
    ELSE LET r == OpOptsLoop(inp.opts, i, 1, {}, {}) IN
         IF inp.hasdef /\ (Len(inp.def) # 1 \/ inp.def[1] \notin r.seen)
           THEN r.out \cup {D("default-not-in-options", ITok(i, "default"))} ELSE r.out
  ELSE LET o1 == IF Len(inp.opts) > 0 THEN {D("options-not-choice", ITok(i, "name"))} ELSE {} IN
       IF ~inp.hasdef THEN o1
       ELSE IF inp.type = "number" THEN (IF OpIsFloat(inp.def) THEN o1 ELSE o1 \cup {D("bad-number-default", ITok(i, "default"))})
       ELSE IF inp.type = "boolean" THEN (IF OpIsBool(inp.def) THEN o1 ELSE o1 \cup {D("bad-bool-default", ITok(i, "default"))})
       ELSE o1
RECURSIVE OpInputs(_, _, _)
OpInputs(inputs, i, out) == IF i > Len(inputs) THEN out ELSE OpInputs(inputs, i + 1, out \cup OpInput(inputs[i], i))
Op_Dispatch(v, devs) == OpInputs(v.inputs, 1, {})
Op_DispatchCount(v, devs) == IF v.n > 10 THEN {D("too-many-inputs", "event")} ELSE {}

DispatchTypes == {"none", "string", "number", "boolean", "choice", "environment"}
OptsU == {<<>>, <<"a">>, <<"a", "b">>, <<"a", "a">>, <<"a", "b", "a">>, <<"b", "b", "b">>}
ChoiceDefU == {<<"a">>, <<"b">>, <<"c">>, <<"A">>, <<>>}
SecondInputs == {Inp("boolean", TRUE, <<"yes">>, <<>>), Inp("choice", FALSE, <<>>, <<>>), Inp("string", FALSE, <<>>, <<>>),
                 Inp("number", TRUE, <<"1">>, <<"a">>)}

\* ---- workflow_call inputs
Decl_Call(v) ==
  IF ~v.hasdef THEN {}
  ELSE (IF ~HasExpr(v.def) /\ v.type = "number" /\ ~IsFloat(v.def) THEN {D("bad-number-default", "default")} ELSE {})
       \cup (IF ~HasExpr(v.def) /\ v.type = "boolean" /\ v.def \notin BoolTrueFalse THEN {D("bad-bool-default", "default")} ELSE {})
       \cup (IF v.req = "true" THEN {D("default-never-used", "default")} ELSE {})
Op_Call(v, devs) ==
  IF ~v.hasdef THEN {}                                               \* i.Default == nil: continue
  ELSE LET o1 == IF HasExpr(v.def) THEN {}
                 ELSE IF v.type = "number" THEN (IF OpIsFloat(v.def) THEN {} ELSE {D("bad-number-default", "default")})
                 ELSE IF v.type = "boolean" THEN (IF OpIsBool(v.def) THEN {} ELSE {D("bad-bool-default", "default")})
                 ELSE {} IN
       IF v.req = "true" THEN o1 \cup {D("default-never-used", "default")} ELSE o1
CallTypes == {"string", "number", "boolean"}
CallReq == {"absent", "true", "false"}
CallDefU == BoolU \cup {<<"$">>, <<"1", "$">>, <<"x">>}

----------------------------------------------------------------------------
(* Dispatch over the rule tag of a vector *)
Decl(v) ==
  CASE v.rule = "id" -> (IF v.part = "conv" THEN Decl_IdConv(v) ELSE Decl_IdDup(v))
    [] v.rule = "env-var" -> Decl_Env(v)
    [] v.rule = "credentials" -> Decl_Cred(v)
    [] v.rule = "if-cond" -> Decl_If(v)
    [] v.rule = "deprecated-commands" -> Decl_Cmd(v)
    [] v.rule = "permissions" -> Decl_Perm(v)
    [] v.rule = "shell-name" -> Decl_Shell(v)
    [] v.rule = "runner-label" -> Decl_Label(v)
    [] v.rule = "events" -> (IF v.part = "webhook" THEN Decl_Webhook(v)
                            ELSE IF v.part = "dispatch" THEN Decl_Dispatch(v)
                            ELSE IF v.part = "dispatch-count" THEN Decl_DispatchCount(v)
                            ELSE Decl_Call(v))
    [] OTHER -> {}
Op(v, devs) ==
  CASE v.rule = "id" -> (IF v.part = "conv" THEN Op_IdConv(v, devs) ELSE Op_IdDup(v, devs))
    [] v.rule = "env-var" -> Op_Env(v, devs)
    [] v.rule = "credentials" -> Op_Cred(v, devs)
    [] v.rule = "if-cond" -> Op_If(v, devs)
    [] v.rule = "deprecated-commands" -> Op_Cmd(v, devs)
    [] v.rule = "permissions" -> Op_Perm(v, devs)
    [] v.rule = "shell-name" -> Op_Shell(v, devs)
    [] v.rule = "runner-label" -> Op_Label(v, devs)
    [] v.rule = "events" -> (IF v.part = "webhook" THEN Op_Webhook(v, devs)
                            ELSE IF v.part = "dispatch" THEN Op_Dispatch(v, devs)
                            ELSE IF v.part = "dispatch-count" THEN Op_DispatchCount(v, devs)
                            ELSE Op_Call(v, devs))
    [] OTHER -> {}
StripP(ds) == {[d EXCEPT !.p = ""] : d \in ds}
SetToSeq(Q) == CHOOSE f \in [1 .. Cardinality(Q) -> Q] : \A i, j \in 1 .. Cardinality(Q) : i # j => f[i] # f[j]
DevsOf(v) == {d \in AllDevs : StripP(Op(v, {d})) # StripP(Decl(v))}

----------------------------------------------------------------------------
(* Generator *)
VARIABLES cur, tc
vars == <<cur, tc>>

Header == ToJson([rule |-> "header", rules |-> Rules, devs |-> AllDevs,
                  hooks |-> Hooks, filters |-> Filters, scopes |-> PermScopes])
TC(v) == ToJson([v |-> v, exp |-> SetToSeq(Decl(v)), asread |-> SetToSeq(Op(v, AllDevs)), devs |-> DevsOf(v)])

Init == cur = [rule |-> "init"] /\ tc = Header
AtInit == cur.rule = "init"
Go(v) == cur' = v /\ tc' = TC(v)
On(r) == AtInit /\ r \in Rules

\* ---- id
IdVec(pos, s) == [rule |-> "id", part |-> "conv", pos |-> pos, s |-> s]
IdDupVec(ids, split) == [rule |-> "id", part |-> "dup", ids |-> ids, split |-> split]
StartId == On("id") /\ \/ \E pos \in IdPositions, c \in IdAlpha : Go(IdVec(pos, <<c>>))
                       \/ \E a \in IdDupAtoms, sp \in BOOLEAN : Go(IdDupVec(<<a>>, sp))
GrowId == /\ cur.rule = "id"
          /\ IF cur.part = "conv"
               THEN Len(cur.s) < IdLen /\ \E c \in IdAlpha : Go(IdVec(cur.pos, Append(cur.s, c)))
               ELSE Len(cur.ids) < 3 /\ \E a \in IdDupAtoms : Go(IdDupVec(Append(cur.ids, a), cur.split))
\* ---- env-var
EnvVec(pos, s) == [rule |-> "env-var", pos |-> pos, s |-> s]
StartEnv == On("env-var") /\ \E pos \in EnvPositions, c \in EnvAlpha : Go(EnvVec(pos, <<c>>))
GrowEnv == cur.rule = "env-var" /\ Len(cur.s) < EnvLen /\ \E c \in EnvAlpha : Go(EnvVec(cur.pos, Append(cur.s, c)))
\* ---- credentials / if-cond
SegVec(rule, pos, s) == [rule |-> rule, pos |-> pos, s |-> s]
StartCred == On("credentials") /\ \E pos \in CredPositions, c \in CredAlpha : Go(SegVec("credentials", pos, <<c>>))
GrowCred == cur.rule = "credentials" /\ Len(cur.s) < SegLen /\ \E c \in CredAlpha : Go(SegVec("credentials", cur.pos, Append(cur.s, c)))
StartIf == On("if-cond") /\ \E pos \in IfPositions, c \in IfAlpha : Go(SegVec("if-cond", pos, <<c>>))
GrowIf == cur.rule = "if-cond" /\ Len(cur.s) < SegLen /\ \E c \in IfAlpha : Go(SegVec("if-cond", cur.pos, Append(cur.s, c)))
\* ---- deprecated-commands
CmdVec(frs, join) == [rule |-> "deprecated-commands", frs |-> frs, join |-> join]
StartCmd == On("deprecated-commands") /\
  \/ \E c \in CmdAll, val \in {"v", ""} : Go(CmdVec(<<Frag(c, "none", <<>>, val)>>, "nl"))
  \/ \E c \in CmdAll, sp \in {"sp", "sp2", "tab"}, ch \in CmdNameAlpha, val \in {"v", ""} :
       Go(CmdVec(<<Frag(c, sp, <<ch>>, val)>>, "nl"))
GrowCmd == /\ cur.rule = "deprecated-commands" /\ Len(cur.frs) = 1
           /\ \/ /\ cur.frs[1].sep # "none" /\ Len(cur.frs[1].name) < CmdNameLen
                 /\ \E ch \in CmdNameAlpha : Go(CmdVec(<<[cur.frs[1] EXCEPT !.name = Append(@, ch)]>>, "nl"))
              \/ /\ cur.frs[1] \in CmdReps
                 /\ \E r \in CmdReps, j \in {"nl", "sp"} : Go(CmdVec(<<cur.frs[1], r>>, j))
\* ---- permissions
PermVec(pos, form, all, scopes) == [rule |-> "permissions", pos |-> pos, form |-> form, all |-> all, scopes |-> scopes]
StartPerm == On("permissions") /\ \E pos \in PermPositions :
  \/ \E a \in PermAllU : Go(PermVec(pos, "all", a, <<>>))
  \/ Go(PermVec(pos, "scopes", "", <<>>))
GrowPerm == /\ cur.rule = "permissions" /\ cur.form = "scopes"
            /\ \/ /\ cur.scopes = <<>>
                  /\ \E nm \in PermScopeU, lv \in PermLevelU : Go(PermVec(cur.pos, "scopes", "", <<<<nm, lv>>>>))
               \/ /\ Len(cur.scopes) = 1 /\ cur.scopes[1][1] \in {"contents", "check"} /\ cur.scopes[1][2] \in {"read", "readable"}
                  /\ \E nm \in {"issues", "models"}, lv \in {"write", "Write"} :
                       Go(PermVec(cur.pos, "scopes", "", Append(cur.scopes, <<nm, lv>>)))
\* ---- shell-name
StartShell == On("shell-name") /\ \E pos \in ShellPositions, sh \in ShellU, ro \in ShellRunsOnU :
                Go([rule |-> "shell-name", pos |-> pos, shell |-> sh, ro |-> ro])
\* ---- runner-label
AllLits(els) == \A i \in DOMAIN els : els[i].k = "lit"
MxPatterns == {<<Mx>>, <<MxText>>}
              \cup {<<Lit(a), Mx>> : a \in MxSideLabels} \cup {<<Mx, Lit(a)>> : a \in MxSideLabels}
              \cup {<<Lit(a), MxText>> : a \in MxSideLabels}
              \cup {<<Lit(a), Mx, Lit(b)>> : a \in MxSideLabels, b \in MxSideLabels}
StartLabel == On("runner-label") /\
  \/ \E l \in LabelSingles, cfg \in {"none", "custom"}, f \in LabelForms : Go(LabelVec(cfg, f, <<Lit(l)>>, <<>>, <<>>))
  \/ \E l \in MultiLabels : Go(LabelVec("none", "seq", <<Lit(l)>>, <<>>, <<>>))
  \/ \E els \in MxPatterns, f \in LabelForms :
       /\ (Len(els) > 1 => f = "seq")
       /\ Go(LabelVec("none", f, els, <<>>, <<>>))
GrowLabel == /\ cur.rule = "runner-label" /\ cur.cfg = "none"
             /\ \/ /\ AllLits(cur.els) /\ cur.form = "seq" /\ Len(cur.els) < MultiLen
                   /\ \A i \in DOMAIN cur.els : cur.els[i].v \in MultiLabels
                   /\ \E l \in MultiLabels : Go(LabelVec("none", "seq", Append(cur.els, Lit(l)), <<>>, <<>>))
                \/ /\ AllLits(cur.els) /\ cur.form = "seq" /\ Len(cur.els) = 2
                   /\ Go(LabelVec("none", "mseq", cur.els, <<>>, <<>>))
                \/ /\ ~AllLits(cur.els) /\ cur.inc = <<>> /\ Len(cur.row) < 2
                   /\ \E l \in MxLabels : Go(LabelVec("none", cur.form, cur.els, Append(cur.row, l), <<>>))
                \/ /\ ~AllLits(cur.els) /\ cur.inc = <<>>
                   /\ \E l \in MxIncLabels : Go(LabelVec("none", cur.form, cur.els, cur.row, <<l>>))
\* ---- events
WhVec(form, hook, types, filters, wf) == [rule |-> "events", part |-> "webhook", form |-> form, hook |-> hook,
                                          types |-> types, filters |-> filters, workflows |-> wf]
DispVec(inputs) == [rule |-> "events", part |-> "dispatch", inputs |-> inputs]
CallVec(ty, hasdef, def, req) == [rule |-> "events", part |-> "call", type |-> ty, hasdef |-> hasdef, def |-> def, req |-> req]
StartEvents == On("events") /\
  \/ \E h \in Hooks \cup UnknownHooks, f \in WebhookForms : Go(WhVec(f, h, <<>>, <<>>, FALSE))
  \/ \E n \in 0 .. 12 : Go([rule |-> "events", part |-> "dispatch-count", n |-> n])
  \/ \E c \in NumAlpha : Go(DispVec(<<Inp("number", TRUE, <<c>>, <<>>)>>))
  \/ \E d \in BoolU : Go(DispVec(<<Inp("boolean", TRUE, d, <<>>)>>))
  \/ \E o \in OptsU : Go(DispVec(<<Inp("choice", FALSE, <<>>, o)>>))
  \/ \E o \in OptsU, d \in ChoiceDefU : Go(DispVec(<<Inp("choice", TRUE, d, o)>>))
  \/ \E ty \in DispatchTypes \ {"choice"}, o \in {<<>>, <<"a">>}, hd \in BOOLEAN :
       Go(DispVec(<<Inp(ty, hd, IF hd THEN <<"x">> ELSE <<>>, o)>>))
  \/ \E ty \in CallTypes, rq \in CallReq : Go(CallVec(ty, FALSE, <<>>, rq))
  \/ \E ty \in CallTypes, rq \in CallReq, d \in CallDefU : Go(CallVec(ty, TRUE, d, rq))
  \/ \E ty \in CallTypes, rq \in CallReq, c \in NumAlpha : Go(CallVec(ty, TRUE, <<c>>, rq))
GrowEvents == /\ cur.rule = "events"
  /\ \/ /\ cur.part = "webhook" /\ cur.form = "map"
        /\ \/ /\ cur.filters = <<>> /\ ~cur.workflows /\ cur.types = <<>>
              /\ \E t \in TypeU : Go(WhVec("map", cur.hook, <<t>>, <<>>, FALSE))
           \/ /\ cur.filters = <<>> /\ ~cur.workflows /\ Len(cur.types) = 1 /\ cur.types[1] \in SmallTypes(cur.hook)
              /\ \E t \in SmallTypes(cur.hook) : Go(WhVec("map", cur.hook, Append(cur.types, t), <<>>, FALSE))
           \/ /\ cur.types = <<>> /\ Len(cur.filters) < 2
              /\ \E f \in Filters \ Range(cur.filters) : Go(WhVec("map", cur.hook, <<>>, Append(cur.filters, f), cur.workflows))
           \/ /\ cur.types = <<>> /\ cur.filters = <<>> /\ ~cur.workflows
              /\ \E fs \in {SixFwd, SixRev} : Go(WhVec("map", cur.hook, <<>>, fs, FALSE))
           \/ /\ cur.types = <<>> /\ cur.filters = <<>> /\ ~cur.workflows
              /\ Go(WhVec("map", cur.hook, <<>>, <<>>, TRUE))
     \/ /\ cur.part = "dispatch" /\ Len(cur.inputs) = 1 /\ cur.inputs[1].type = "number" /\ cur.inputs[1].opts = <<>>
        /\ cur.inputs[1].hasdef /\ Len(cur.inputs[1].def) < NumLen /\ cur.inputs[1].def # <<>>
        /\ \A k \in DOMAIN cur.inputs[1].def : cur.inputs[1].def[k] \in NumAlpha
        /\ \E c \in NumAlpha : Go(DispVec(<<[cur.inputs[1] EXCEPT !.def = Append(@, c)]>>))
     \/ /\ cur.part = "dispatch" /\ Len(cur.inputs) = 1 /\ cur.inputs[1] \in SecondInputs
        /\ \E i2 \in SecondInputs : Go(DispVec(<<cur.inputs[1], i2>>))
     \/ /\ cur.part = "call" /\ cur.hasdef /\ cur.def # <<>> /\ Len(cur.def) < CallNumLen
        /\ \A k \in DOMAIN cur.def : cur.def[k] \in NumAlpha
        /\ \E c \in NumAlpha : Go(CallVec(cur.type, TRUE, Append(cur.def, c), cur.req))

Next == \/ StartId \/ GrowId \/ StartEnv \/ GrowEnv \/ StartCred \/ GrowCred \/ StartIf \/ GrowIf
        \/ StartCmd \/ GrowCmd \/ StartPerm \/ GrowPerm \/ StartShell \/ StartLabel \/ GrowLabel
        \/ StartEvents \/ GrowEvents
Spec == Init /\ [][Next]_vars

----------------------------------------------------------------------------
(* Invariants *)
\* the design (no deviation enabled) is what the documentation says, for every vector of the universe
Agree == ~AtInit => StripP(Op(cur, {})) = StripP(Decl(cur))
\* the partner named by a step-ID duplicate is the first step with that ID (documented in the message)
IdPartnerExact == (~AtInit /\ cur.rule = "id") => Op(cur, {}) = Decl(cur)
\* the partner named by a label conflict is a label of the same runs-on that contradicts the reported one
LabelPartnerSound ==
  (~AtInit /\ cur.rule = "runner-label") =>
     \A d \in {d2 \in Op(cur, {}) : d2.c = "conflict"} :
        \E a \in AllAlts(cur), b \in AllAlts(cur) : a.tok = d.w /\ b.tok = d.p /\ a.tok # b.tok /\ Disjoint(a, b)
\* the code as read differs from the documentation only where a single named deviation explains it
Confined == ~AtInit => (StripP(Op(cur, AllDevs)) # StripP(Decl(cur)) => DevsOf(cur) # {})
\* table sanity (constants; evaluated once)
TablesOK == AtInit =>
  /\ Cardinality(Hooks) = NumberOfWebhookEvents
  /\ \A h \in Hooks : Cardinality(Range(WebhookTypes[h])) = Len(WebhookTypes[h])           \* no type listed twice
  /\ \A f \in Filters : FilterAvail[f] \subseteq Hooks
  /\ \A pr \in FilterPairs : FilterAvail[pr[1]] = FilterAvail[pr[2]]
  /\ Cardinality(PermScopes) = 14
  /\ Cardinality(DOMAIN HostedCompat) = 29
  /\ \A l \in DOMAIN HostedCompat : Cardinality(HostedCompat[l]) = 1
  /\ \A l \in DOMAIN PresetOS : \A m \in DOMAIN PresetOS : l # m => PresetOS[l] \cap PresetOS[m] = {}
  /\ \A s \in DOMAIN ShellTable : ShellTable[s] # {}
  /\ MultiLabels \subseteq LabelSingles /\ MxSideLabels \subseteq LabelSingles
=============================================================================
