----------------------------- MODULE NeedsTrace -----------------------------
(* Trace validation for Needs: every record of trace.ndjson is one execution of the real
   RuleJobNeeds on a graph: [needs, status, dangling, cycles] where needs is a sequence of
   sequences of job numbers (0 = an id that is no job), dangling the reported <<job, target>>
   pairs and cycles the reported <<at, path>> pairs.  The real output is judged with the
   declarative layer of Needs.tla only (graph theory), never with the model of the algorithm. *)
EXTENDS Naturals, Sequences, FiniteSets, TLC, Json
CONSTANTS N, MaxList, Targets, AllowDup, Ascending
VARIABLES l, mism, needs, tc

M == INSTANCE Needs

Trace == ndJsonDeserialize("trace.ndjson")

PropOK(r) ==
  LET g == r.needs
      reported == {<<r.dangling[i][1], r.dangling[i][2]>> : i \in DOMAIN r.dangling} IN
  /\ r.status = "ok"
  \* every reference to an id that does not exist is reported at the referring job, nothing else is
  /\ \A j \in DOMAIN g : \A i \in DOMAIN g[j] : g[j][i] \notin DOMAIN g => <<j, g[j][i]>> \in reported
  /\ \A d \in reported : d[1] \in DOMAIN g /\ d[2] \notin DOMAIN g /\ M!Edge(g, d[1], d[2])
  \* if all references resolve: exactly one real cycle iff cyclic, reported at its first job
  /\ ~M!HasDangling(g) =>
       IF M!Cyclic(g)
         THEN /\ Len(r.cycles) = 1
              /\ M!IsCyclePath(g, r.cycles[1].path)
              /\ r.cycles[1].at = r.cycles[1].path[1]
         ELSE r.cycles = <<>>

Init == l = 1 /\ mism = <<>> /\ needs = <<>> /\ tc = ""
Step ==
  /\ l <= Len(Trace)
  /\ mism' = IF PropOK(Trace[l]) \/ Len(mism) >= 200 THEN mism ELSE Append(mism, l)
  /\ l' = l + 1
  /\ UNCHANGED <<needs, tc>>
Spec == Init /\ [][Step]_<<l, mism, needs, tc>>

Report == (l = Len(Trace) + 1) => PrintT(<<"MISM", Len(Trace), mism, <<>>>>)
=============================================================================
