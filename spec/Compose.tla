------------------------------ MODULE Compose ------------------------------
(* Property C09: jobs, steps and expressions are checked independently.

   The property is relational: the diagnostics of a SUBJECT (a job, a step, an expression) inside a
   composed workflow must equal those inside the reduced workflow that keeps only what the subject
   may depend on.  This module enumerates the compositions - the histories of rule-internal state
   that precede the subject - over a catalogue of state-bearing constructs.  The catalogue entries
   are named here (with the dependencies the reduced workflow must keep) and have their YAML text
   in the harness (compose.go); an unknown name makes the harness fail, never the verdict.

     level "job"  : header h; jobs preds[1..pos], SUBJECT (with the jobs it needs), preds[pos+1..]
                    reduced: header h, the jobs the subject needs, the subject
     level "step" : one job; steps preds[1..pos], SUBJECT, preds[pos+1..]
                    reduced: for every earlier step that has an id a stub with the same id, the subject
     level "expr" : one job with a fixed matrix and steps; the subject expression in the `run:` of the
                    middle step, the predecessor expression in ANOTHER string (place); reduced: that
                    other string without the expression

   The jobs are visited in source order, so the textual order IS the visiting order; every
   insertion position of the subject is enumerated.

   tc = [lvl, hdr, cfg, subj, preds, states, sstate, pos, place, tools] *)
EXTENDS Naturals, Sequences, FiniteSets, TLC, Json

CONSTANTS MaxPreds,      \* predecessors/successors per composition at job and step level
          Levels,        \* subset of {"job", "step", "expr"}
          AllHeaders     \* TRUE: every pair under every header; FALSE: "push" plus the headers an item asks for

Range(f) == {f[x] : x \in DOMAIN f}

Headers == {"push", "pydefault", "call", "callx"}

\* [n: name, st: the rule state the construct bears (names the violation site), hdrs: headers under
\*  which the entry is interesting, tool: its observable needs the shellcheck/pyflakes stand-ins]
J(n, st, hdrs, tool) == [n |-> n, st |-> st, hdrs |-> hdrs, tool |-> tool]
JobItems ==
  { J("plain", "none", {}, FALSE),
    J("matrix-lit", "matrix", {}, FALSE),
    J("matrix-expr", "matrix-loose", {}, FALSE),
    J("matrix-include-elem-expr", "matrix-loose", {}, FALSE),
    J("matrix-ref-without-matrix", "matrix", {}, FALSE),
    J("matrix-from-inputs", "matrix-expr-shared-type", {"call", "callx"}, FALSE),
    J("inputs-ref", "inputs", {"call", "callx"}, FALSE),
    J("shell-python-default", "job-shell", {"pydefault"}, TRUE),
    J("shell-pwsh-default", "job-shell", {"pydefault"}, TRUE),
    J("shell-sh-default", "job-shell", {}, TRUE),
    J("windows-runner", "platform", {}, TRUE),
    J("ubuntu-shell-names", "platform", {}, FALSE),
    J("bash-default", "runner-shell", {"pydefault"}, TRUE),
    J("labels-conflict", "runner-compat", {}, FALSE),
    J("label-unknown", "runner-compat", {}, FALSE),
    J("labels-from-matrix", "runner-compat", {}, FALSE),
    J("step-ids", "steps", {}, FALSE),
    J("step-ids-dup", "seen-ids", {}, FALSE),
    J("steps-ref-without-ids", "steps", {}, FALSE),
    J("step-id-expr", "steps-loose", {}, FALSE),
    J("env-var-names", "none", {}, FALSE),
    J("container-services", "none", {}, FALSE),
    J("needs-outputs", "needs", {}, FALSE),
    J("needs-missing", "needs", {}, FALSE),
    J("needs-cycle", "needs", {}, FALSE),
    J("outputs-job", "steps", {}, FALSE),
    J("syntax-errors", "parser", {}, FALSE),
    J("expr-errors", "none", {}, FALSE),
    J("call-remote", "none", {"call"}, FALSE),
    J("untrusted", "none", {}, FALSE),
    J("if-cond", "none", {}, FALSE),
    J("permissions-bad", "none", {}, FALSE),
    J("deprecated-commands", "none", {}, FALSE),
    J("action-inputs", "none", {}, FALSE),
    J("array-deref-in-job", "array-deref", {}, FALSE),
    \* reusable-workflow (uses:) jobs bearing per-job state: the callbacks of several rules return early for them
    J("call-with-matrix", "call-matrix", {}, FALSE),
    J("call-with-needs", "call-needs", {}, FALSE),
    \* matrices without rows whose include starts with an element evaluating to a context object
    J("matrix-include-context-inputs", "matrix-include-shared-type", {"call"}, FALSE),
    J("matrix-include-context-github-event", "matrix-include-shared-type", {}, FALSE),
    J("matrix-include-context-vars", "matrix-include-shared-type", {}, FALSE),
    J("matrix-include-expr-then-literal", "matrix-loose", {}, FALSE),
    J("github-event-deref", "github-event", {}, FALSE),
    \* jobs without runs-on (VisitJobPre of RuleShellName / RuleRunnerLabel returns early)
    J("no-runs-on-shells", "platform", {}, FALSE),
    J("no-runs-on-default-shell", "runner-shell", {"pydefault"}, TRUE),
    J("labels-multi-ok", "runner-compat", {}, FALSE),
    J("steps-in-job-env", "steps", {}, FALSE),
    J("needs-in-matrix", "needs", {}, FALSE),
    \* constructs whose diagnostics depend on the configuration file (self-hosted-runner.labels, config-variables)
    J("label-selfhosted-misspelled", "runner-labels-config", {}, FALSE),
    J("label-selfhosted-pattern", "runner-labels-config", {}, FALSE),
    J("vars-config", "config-variables", {}, FALSE),
    \* two actions that collide in an attribute other than their spec (same `name:` in the metadata, same directory
    \* base name) but have different interfaces: pairs from the bundled table of popular actions and local actions
    J("popular-same-name-1a", "action-metadata", {}, FALSE), J("popular-same-name-1b", "action-metadata", {}, FALSE),
    J("popular-same-name-2a", "action-metadata", {}, FALSE), J("popular-same-name-2b", "action-metadata", {}, FALSE),
    J("popular-same-name-3a", "action-metadata", {}, FALSE), J("popular-same-name-3b", "action-metadata", {}, FALSE),
    J("local-action-same-name-a", "action-metadata", {}, FALSE), J("local-action-same-name-b", "action-metadata", {}, FALSE),
    J("local-action-same-basename-a", "action-metadata", {}, FALSE), J("local-action-same-basename-b", "action-metadata", {}, FALSE) }

\* entries that are also composed under the configuration file when AllHeaders is FALSE
CfgItems == {"label-unknown", "labels-conflict", "labels-from-matrix", "labels-multi-ok", "label-selfhosted-misspelled",
             "label-selfhosted-pattern", "vars-config", "github-event-deref"}

StepItems ==
  { J("run", "none", {}, FALSE),
    J("id-a", "steps", {}, FALSE),
    J("id-a-action", "steps", {}, FALSE),
    J("id-b-with-error", "steps", {}, FALSE),
    J("id-expr", "steps-loose", {}, FALSE),
    J("refs", "steps", {}, FALSE),
    J("if-ref", "steps", {}, FALSE),
    J("shell-python", "step-shell", {}, TRUE),
    J("shell-cmd", "step-shell", {}, FALSE),
    J("untrusted", "none", {}, FALSE),
    J("action-bogus-input", "none", {}, FALSE),
    J("env-var-name", "none", {}, FALSE),
    J("syntax-error", "parser", {}, FALSE),
    J("expr-parse-error", "none", {}, FALSE),
    J("matrix-deref", "array-deref", {}, FALSE),
    J("matrix-ref", "matrix", {}, FALSE) }

ExprItems ==
  { J("array-filter-objects", "array-deref", {}, FALSE),      \* matrix.x.*.y
    J("array-filter-numbers", "array-deref", {}, FALSE),      \* join(matrix.arr.*, ',')
    J("array-prop-objects", "array-deref", {}, FALSE),        \* matrix.x.y
    J("array-prop-numbers", "array-deref", {}, FALSE),        \* matrix.arr.y
    J("array-index", "array-deref", {}, FALSE),               \* matrix.x[0].y
    J("matrix-scalar", "matrix", {}, FALSE),
    J("matrix-undefined", "matrix", {}, FALSE),
    J("object-filter-strict", "matrix", {}, FALSE),           \* matrix.o.*
    J("steps-output", "steps", {}, FALSE),
    J("steps-undefined", "steps", {}, FALSE),
    J("needs-undefined", "needs", {}, FALSE),
    J("untrusted-title", "untrusted", {}, FALSE),
    J("untrusted-filter", "untrusted", {}, FALSE),
    J("json-literal-filter", "array-deref", {}, FALSE),
    J("format-args", "none", {}, FALSE),
    J("parse-error", "none", {}, FALSE),
    J("vars-prefix", "none", {}, FALSE),
    J("github-event-inputs", "github-copy", {}, FALSE),
    J("env-and-secrets", "none", {}, FALSE) }

Places == {"earlier-step-run", "same-step-name", "job-env", "later-step-run"}

Items(lvl) == CASE lvl = "job" -> JobItems [] lvl = "step" -> StepItems [] lvl = "expr" -> ExprItems

----------------------------------------------------------------------------
VARIABLES lvl, hdr, subj, preds, pos, place, cfg, tc
vars == <<lvl, hdr, subj, preds, pos, place, cfg, tc>>

None == J("", "", {}, FALSE)
Vector(l, h, s, ps, p, pl, c) ==
  ToJson([lvl |-> l, hdr |-> h, cfg |-> c, subj |-> s.n, preds |-> [i \in DOMAIN ps |-> ps[i].n],
          states |-> [i \in DOMAIN ps |-> ps[i].st], sstate |-> s.st, pos |-> p, place |-> pl,
          tools |-> s.tool])

HdrsFor(l, s, ps) ==
  IF l # "job" THEN {"push"}
  ELSE IF AllHeaders THEN Headers
  ELSE {"push"} \cup s.hdrs \cup UNION {ps[i].hdrs : i \in DOMAIN ps}

\* configuration file: "none", or "labels" = self-hosted-runner.labels [gpu-*, big-box] and config-variables [ALLOWED].
\* Every SELF pair (the same construct repeated in an unrelated job: no "report once per workflow") gets both.
CfgsFor(l, s, ps) ==
  IF l # "job" THEN {"none"}
  ELSE IF AllHeaders \/ s.n \in CfgItems \/ (\E i \in DOMAIN ps : ps[i].n \in CfgItems \/ ps[i].n = s.n) THEN {"none", "labels"}
  ELSE {"none"}

Init == /\ lvl = "" /\ hdr = "" /\ subj = None /\ preds = <<>> /\ pos = 0 /\ place = "" /\ cfg = "" /\ tc = ""

\* choose level and subject; then grow the history one predecessor at a time; every state with at
\* least one predecessor is a composition (for every header, insertion position and place)
ChooseSubject ==
  /\ lvl = ""
  /\ \E l \in Levels : \E s \in Items(l) :
       /\ lvl' = l /\ subj' = s
       /\ UNCHANGED <<hdr, preds, pos, place, cfg, tc>>
AddPred ==
  /\ lvl # "" /\ hdr = ""
  /\ Len(preds) < (IF lvl = "expr" THEN 1 ELSE MaxPreds)
  /\ \E p \in Items(lvl) :
       /\ \A i \in DOMAIN preds : preds[i].n # p.n
       \* the subject's own construct may be repeated in an unrelated job / step as the ONLY other part
       /\ (lvl # "expr" /\ p.n = subj.n) => preds = <<>>
       /\ (lvl # "expr" /\ preds # <<>>) => preds[1].n # subj.n
       /\ preds' = Append(preds, p)
       /\ UNCHANGED <<lvl, hdr, subj, pos, place, cfg, tc>>
Emit ==
  /\ lvl # "" /\ hdr = "" /\ preds # <<>>
  /\ \E h \in HdrsFor(lvl, subj, preds) :
     \E p \in (IF lvl = "expr" THEN {1} ELSE 0 .. Len(preds)) :
     \E pl \in (IF lvl = "expr" THEN Places ELSE {""}) :
     \E c \in CfgsFor(lvl, subj, preds) :
       /\ hdr' = h /\ pos' = p /\ place' = pl /\ cfg' = c
       /\ tc' = Vector(lvl, h, subj, preds, p, pl, c)
       /\ UNCHANGED <<lvl, subj, preds>>
Next == ChooseSubject \/ AddPred \/ Emit
Spec == Init /\ [][Next]_vars

\* sanity of the catalogue: names are unique per level
NamesUnique == \A l \in {"job", "step", "expr"} : \A a, b \in Items(l) : a.n = b.n => a = b
ASSUME NamesUnique
\* every composition keeps the subject apart from its history
Separate == hdr # "" => (lvl = "expr" \/ Len(preds) = 1 \/ \A i \in DOMAIN preds : preds[i].n # subj.n)
=============================================================================
