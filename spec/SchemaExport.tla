---------------------------- MODULE SchemaExport ----------------------------
(* One-state specification: checks the well-formedness invariants of Schema.tla (SchemaWF,
   BasesTyped, BasesCover) and carries schema, base workflows and the position list as JSON in
   `tc` (dumped with -dump and read by the checks / passed to the harness as schema.json). *)
EXTENDS Schema
VARIABLE tc
Export == ToJson([schema |-> Root, bases |-> Bases, names |-> BaseNames, positions |-> AllSchemaPos,
                  nontemplate |-> NonTemplate, whole |-> WholeScalar])
Init == tc = Export
Next == UNCHANGED tc
Spec == Init /\ [][Next]_tc
=============================================================================
