-------------------------- MODULE UntrustedTrace --------------------------
(* Trace validation for Untrusted: every record of trace.ndjson is one execution of the real
   ExprSemanticsChecker with the untrusted-input checker enabled:
     [e |-> abstract expression tree (projection of the real parser's AST),
      r |-> the reports of the real code in their order, each a list of the quoted paths].
   TLC evaluates the specification on each record.  A mismatch does not stop validation, its
   index is collected.
     PropOK  - the property, judged by the declarative layer only (DESIGN.md A.3): the real
               reports are, as a bag, the reports of the maximal access chains of e.
     ModelOK - equality with the matcher automaton including the order of the reports; a
               difference here alone is model drift.
     DevOK   - equality with the automaton run with the named deviation Dev_IndexLitCase
               (string-literal index matched as written); used to name the site of a violation. *)
EXTENDS Naturals, Sequences, FiniteSets, TLC, Json
CONSTANTS MaxLen, MaxOdd, MaxOff, MaxLen2, Alike, Embs
VARIABLES l, mism, drift, dev, c1, c2, emb, tc

U == INSTANCE Untrusted

Trace == ndJsonDeserialize("trace.ndjson")

ToSet(q) == {q[i] : i \in DOMAIN q}
RSets(r) == [i \in 1 .. Len(r) |-> ToSet(r[i])]
Count(x, q) == Cardinality({i \in DOMAIN q : q[i] = x})
BagEq(p, q) == /\ Len(p) = Len(q)
               /\ \A i \in DOMAIN p : Count(p[i], p) = Count(p[i], q)

PropOK(rec) == BagEq(RSets(rec.r), U!Reports(rec.e))
ModelOK(rec) == RSets(rec.r) = U!Run(rec.e, FALSE).errs
DevOK(rec) == RSets(rec.r) = U!Run(rec.e, TRUE).errs

Init == /\ l = 1 /\ mism = <<>> /\ drift = <<>> /\ dev = <<>>
        /\ c1 = <<>> /\ c2 = <<>> /\ emb = "" /\ tc = ""
Step ==
  /\ l <= Len(Trace)
  /\ LET rec == Trace[l]
         p == PropOK(rec) IN
       /\ mism' = IF p \/ Len(mism) >= 200000 THEN mism ELSE Append(mism, l)
       /\ drift' = IF ModelOK(rec) \/ Len(drift) >= 200000 THEN drift ELSE Append(drift, l)
       /\ dev' = IF p \/ Len(dev) >= 200000 THEN dev ELSE IF DevOK(rec) THEN Append(dev, l) ELSE dev
  /\ l' = l + 1
  /\ UNCHANGED <<c1, c2, emb, tc>>
Spec == Init /\ [][Step]_<<l, mism, drift, dev, c1, c2, emb, tc>>

Report == (l = Len(Trace) + 1) => PrintT(<<"MISM", Len(Trace), mism, drift, dev>>)
=============================================================================
