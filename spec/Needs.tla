------------------------------- MODULE Needs -------------------------------
(* Job dependency checks of actionlint: rule_job_needs.go.

   A workflow's `needs` configuration is needs : Jobs -> Seq(Targets); target 0 stands for an id
   that is not a job of the workflow (dangling), duplicates are allowed when AllowDup.

   Declarative layer : Dangling, Cyclic (some job reaches itself), IsCyclePath.
   Operational layer : the code's algorithm - duplicate removal (VisitJobPre), resolution,
                       three-colour DFS from roots in *map order* (any permutation), abort at the
                       first back edge, collectCycle over the still-active nodes, choice of the
                       start node, and the printing walk (with fuel: a missing edge is a nil
                       dereference in Go, running out of fuel is a hang).
   TLC checks, for every graph of the bounded universe and EVERY root order, that the operational
   outcome satisfies the declarative property.  `tc` is the vector handed to the harness. *)
EXTENDS Naturals, Sequences, FiniteSets, TLC, Json

CONSTANTS N,          \* number of jobs
          MaxList,    \* maximal length of one needs list
          Targets,    \* ids a needs entry may name: 1..N are the jobs, every other number (0, 9) is a dangling id
          AllowDup,   \* may an id be repeated inside one list
          Ascending   \* TRUE: only ascending lists (one representative per edge set)

Jobs == 1 .. N
Range(f) == {f[x] : x \in DOMAIN f}

----------------------------------------------------------------------------
(* Declarative layer (depends on the graph g only: JobsOf(g) = DOMAIN g) *)
JobsOf(g) == DOMAIN g
Edge(g, a, b) == \E i \in DOMAIN g[a] : g[a][i] = b
DanglingRefs(g) == UNION {{<<j, i>> : i \in {k \in DOMAIN g[j] : g[j][k] \notin JobsOf(g)}} : j \in JobsOf(g)}
HasDangling(g) == DanglingRefs(g) # {}
\* an entry that repeats an earlier entry of the same list
DupRefs(g) == UNION {{<<j, i>> : i \in {k \in DOMAIN g[j] : \E m \in 1 .. (k - 1) : g[j][m] = g[j][k]}} : j \in JobsOf(g)}

RECURSIVE ReachN(_, _, _)
ReachN(g, S, k) == IF k = 0 THEN S
                   ELSE ReachN(g, S \cup {b \in JobsOf(g) : \E a \in S : Edge(g, a, b)}, k - 1)
Succ(g, a) == {b \in JobsOf(g) : Edge(g, a, b)}
ReachPlus(g, a) == ReachN(g, Succ(g, a), Len(g))
Cyclic(g) == \E n \in JobsOf(g) : n \in ReachPlus(g, n)

IsCyclePath(g, p) ==
  /\ Len(p) >= 2
  /\ p[1] = p[Len(p)]
  /\ \A i \in 1 .. (Len(p) - 1) : p[i] \in JobsOf(g) /\ Edge(g, p[i], p[i + 1])
  /\ \A i, k \in 1 .. (Len(p) - 1) : i # k => p[i] # p[k]

----------------------------------------------------------------------------
(* Operational layer *)
RECURSIVE DedupFrom(_, _, _)
DedupFrom(l, i, acc) ==
  IF i > Len(l) THEN acc
  ELSE DedupFrom(l, i + 1, IF l[i] \in Range(acc) THEN acc ELSE Append(acc, l[i]))
Dedup(l) == DedupFrom(l, 1, <<>>)
\* node.resolved: the deduplicated list without dangling ids (only used when there are none)
R(g, v) == SelectSeq(Dedup(g[v]), LAMBDA t : t \in Jobs)

NoEdge == <<>>
RECURSIVE Dfs(_, _, _, _), DfsLoop(_, _, _, _, _)
Dfs(g, v, col, fuel) == DfsLoop(g, v, 1, [col EXCEPT ![v] = "active"], fuel)
DfsLoop(g, v, i, col, fuel) ==
  IF fuel = 0 THEN [col |-> col, edge |-> <<0, 0>>]
  ELSE IF i > Len(R(g, v)) THEN [col |-> [col EXCEPT ![v] = "fin"], edge |-> NoEdge]
  ELSE LET w == R(g, v)[i] IN
       CASE col[w] = "active" -> [col |-> col, edge |-> <<v, w>>]
         [] col[w] = "new" -> LET r == Dfs(g, w, col, fuel - 1) IN
                              IF r.edge # NoEdge THEN r ELSE DfsLoop(g, v, i + 1, r.col, fuel - 1)
         [] OTHER -> DfsLoop(g, v, i + 1, col, fuel - 1)

RECURSIVE First(_, _, _, _)
First(g, ord, k, col) ==
  IF k > Len(ord) THEN [col |-> col, edge |-> NoEdge]
  ELSE IF col[ord[k]] = "new"
         THEN LET r == Dfs(g, ord[k], col, 4 * N * N + 4) IN
              IF r.edge # NoEdge THEN r ELSE First(g, ord, k + 1, r.col)
         ELSE First(g, ord, k + 1, col)

\* collectCycle: edges is a map Jobs -> Jobs \cup {0} (0 = no entry)
RECURSIVE Collect(_, _, _, _, _), CollectLoop(_, _, _, _, _, _)
Collect(g, src, edges, col, fuel) == CollectLoop(g, src, 1, edges, col, fuel)
CollectLoop(g, src, i, edges, col, fuel) ==
  IF fuel = 0 \/ i > Len(R(g, src)) THEN [found |-> FALSE, edges |-> edges]
  ELSE LET d == R(g, src)[i] IN
       IF col[d] # "active" THEN CollectLoop(g, src, i + 1, edges, col, fuel - 1)
       ELSE LET e1 == [edges EXCEPT ![src] = d] IN
            IF e1[d] # 0 THEN [found |-> TRUE, edges |-> e1]
            ELSE LET r == Collect(g, d, e1, col, fuel - 1) IN
                 IF r.found THEN r
                 ELSE CollectLoop(g, src, i + 1, [r.edges EXCEPT ![src] = 0], col, fuel - 1)

Min(S) == CHOOSE x \in S : \A y \in S : x <= y

\* the printing loop; result "broken" models a nil dereference, "hang" a loop that never ends
RECURSIVE Walk(_, _, _, _)
Walk(edges, start, p, fuel) ==
  LET to == edges[p[Len(p)]] IN
  IF fuel = 0 THEN [path |-> p, status |-> "hang"]
  ELSE IF to = 0 THEN [path |-> p, status |-> "broken"]
  ELSE IF to = start THEN [path |-> Append(p, to), status |-> "ok"]
  ELSE Walk(edges, start, Append(p, to), fuel - 1)

\* VisitWorkflowPost for root order ord: [kind |-> "none"] or [kind |-> "cycle", at, path, status]
RunCycle(g, ord) ==
  LET r == First(g, ord, 1, [j \in Jobs |-> "new"]) IN
  IF r.edge = NoEdge THEN [kind |-> "none"]
  ELSE IF r.edge = <<0, 0>> THEN [kind |-> "cycle", at |-> 0, path |-> <<>>, status |-> "hang"]
  ELSE LET e0 == [[j \in Jobs |-> 0] EXCEPT ![r.edge[1]] = r.edge[2]]
           c == Collect(g, r.edge[2], e0, r.col, 4 * N * N + 4)
           keys == {j \in Jobs : c.edges[j] # 0}
           start == Min(keys)       \* job k is written at line k: smallest position = smallest index
           w == Walk(c.edges, start, <<start>>, N + 2)
       IN [kind |-> "cycle", at |-> start, path |-> w.path, status |-> w.status]

Perms == {p \in [1 .. N -> Jobs] : \A i, k \in 1 .. N : i # k => p[i] # p[k]}

\* The property on the operational outcome, for every map order
RunOK(g, ord) ==
  LET o == RunCycle(g, ord) IN
  IF Cyclic(g)
    THEN /\ o.kind = "cycle" /\ o.status = "ok"
         /\ IsCyclePath(g, o.path)
         /\ o.at = o.path[1]
    ELSE o.kind = "none"

----------------------------------------------------------------------------
(* Generator: grow the lists one entry at a time *)
VARIABLES needs, tc
vars == <<needs, tc>>

Vector(g) == ToJson([needs |-> [j \in Jobs |-> g[j]],
                     dangling |-> HasDangling(g),
                     cyclic |-> IF HasDangling(g) THEN FALSE ELSE Cyclic(g)])

CanAppend(l, t) ==
  /\ Len(l) < MaxList
  /\ (~AllowDup) => t \notin Range(l)
  /\ Ascending => (IF l = <<>> THEN TRUE ELSE l[Len(l)] < t)   \* no \/ here: TLC splits disjunctions of actions

Init == needs = [j \in Jobs |-> <<>>] /\ tc = Vector(needs)
Next == \E j \in Jobs, t \in Targets :
          /\ CanAppend(needs[j], t)
          /\ needs' = [needs EXCEPT ![j] = Append(@, t)]
          /\ tc' = Vector(needs')
Spec == Init /\ [][Next]_vars

AlgorithmExact == HasDangling(needs) \/ \A ord \in Perms : RunOK(needs, ord)
\* consistency of the declarative layer: a graph is cyclic iff some cycle path exists (bounded search)
=============================================================================
