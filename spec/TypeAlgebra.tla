----------------------------- MODULE TypeAlgebra -----------------------------
(* EXT04 part 1 - generator of the type-algebra vectors (definitions: TypeAlgebraOps).

   Universe U: the five scalars, all well-formed (struct invariant WF, Mapped covers the listed properties JC) objects
   with at most MaxProps properties (names from NamePool, scalar property types) and every Mapped kind (strict, loose,
   map of null / number / bool / string), arrays of scalars with and without the Deref flag, hand-picked objects with
   two properties (Picked2) and terms of depth 2 (Depth2).
   Vectors: "un" one term, "bin" an unordered pair of U, "tri" an ordered triple of the smaller universe TriU.
   `tc` = ToJson(vector + asread (outcome predicted by the operational layer) + broken (the laws / facts this
   outcome breaks, each with the named deviations of the code that explain it)).  The harness builds the real
   ExprType values and evaluates the real methods; a real outcome equal to `asread` inherits `broken`, any other
   outcome is judged by TypeAlgebraTrace; `back` holds the outcomes predicted with a repaired deviation back, so that
   such an outcome is reported under the name of the deviation. *)
EXTENDS TypeAlgebraOps

CONSTANTS MaxProps,     \* 1 | 2
          TriLevel      \* "small" | "large"

VARIABLES cur, tc
vars == <<cur, tc>>

----------------------------------------------------------------------------
(* Universe *)
MapKinds == {Strict, AnyT, Null, Number, Bool, String}
Props0 == {<<>>}
Props1 == {<<P(NamePool[i], t)>> : i \in 1 .. 3, t \in Scalars}
Props2 == {<<P(NamePool[ij[1]], t), P(NamePool[ij[2]], s)>> : ij \in {<<1, 2>>, <<1, 3>>, <<2, 3>>}, t \in Scalars, s \in Scalars}
AllProps == Props0 \cup Props1 \cup (IF MaxProps >= 2 THEN Props2 ELSE {})
Objs1 == {o \in {Obj(ps, m) : ps \in AllProps, m \in MapKinds} : WF(o) /\ JC(o)}
Arrs1 == {Arr(t, d) : t \in Scalars, d \in BOOLEAN}
Picked2 == {Obj(<<P("a", String), P("b", Bool)>>, Strict),
            Obj(<<P("A", Number), P("a", Null)>>, Strict),
            Obj(<<P("a", Number), P("b", String)>>, AnyT),
            Obj(<<P("A", String), P("b", Number)>>, String),
            Obj(<<P("a", Bool), P("b", Bool)>>, Bool)}
SO(ps) == Obj(ps, Strict)
Depth2 == {Arr(Arr(String, FALSE), FALSE),
           Arr(Arr(Number, TRUE), FALSE),
           Arr(SO(<<P("a", String)>>), FALSE),
           Arr(SO(<<P("a", Number), P("b", Bool)>>), TRUE),
           Arr(Obj(<<>>, AnyT), TRUE),
           SO(<<P("a", SO(<<P("b", Number)>>))>>),
           SO(<<P("a", SO(<<P("b", String)>>))>>),
           SO(<<P("A", Arr(String, FALSE)), P("a", SO(<<>>))>>),
           SO(<<P("a", Arr(Bool, TRUE))>>),
           Obj(<<>>, SO(<<P("a", String)>>)),
           Obj(<<>>, SO(<<P("a", Number), P("b", String)>>)),
           Obj(<<>>, Arr(String, FALSE)),
           Obj(<<>>, Obj(<<>>, String)),
           Obj(<<P("a", Obj(<<>>, AnyT))>>, AnyT),
           Obj(<<P("b", SO(<<P("a", String)>>))>>, SO(<<P("a", String)>>)),
           SO(<<P("A", Obj(<<P("a", Number)>>, String))>>)}
U == Scalars \cup Objs1 \cup Arrs1 \cup Picked2 \cup Depth2
USeq == SetToSeq(U)

TriSmall == Scalars \cup
            {Arr(String, FALSE), Arr(Number, FALSE), Arr(AnyT, TRUE), Arr(Bool, TRUE),
             SO(<<>>), SO(<<P("a", Number)>>), SO(<<P("a", String)>>), SO(<<P("b", Bool)>>), SO(<<P("A", Null)>>),
             SO(<<P("a", Null), P("b", String)>>),
             Obj(<<>>, AnyT), Obj(<<P("a", String)>>, AnyT),
             Obj(<<>>, String), Obj(<<>>, Number), Obj(<<>>, Null), Obj(<<P("a", Number)>>, String)}
TriLarge == TriSmall \cup
            {Arr(Null, FALSE), Arr(AnyT, FALSE), Arr(String, TRUE), Arr(Arr(String, FALSE), FALSE),
             SO(<<P("a", Bool)>>), SO(<<P("a", AnyT)>>), SO(<<P("b", Number)>>), SO(<<P("A", String)>>),
             SO(<<P("a", Number), P("b", Bool)>>), SO(<<P("A", Number), P("a", String)>>),
             Obj(<<P("b", Null)>>, AnyT), Obj(<<>>, Bool), Obj(<<P("b", Number)>>, Number),
             Obj(<<P("A", Bool)>>, Bool), Obj(<<>>, SO(<<P("a", String)>>)),
             SO(<<P("a", SO(<<P("b", Number)>>))>>), Arr(SO(<<P("a", String)>>), FALSE)}
TSeq == SetToSeq(IF TriLevel = "large" THEN TriLarge ELSE TriSmall)

----------------------------------------------------------------------------
(* Which named deviations (TypeAlgebraOps!AllDevs) explain a broken law of a vector: those that break it when enabled
   alone on top of the design; if no single one does, the smallest sets of two, three or four that do together
   (DESIGN 2.1: the deviations are named; Confined demands that nothing else is needed).  After a repair in /repo a
   deviation is removed from AllDevs and stays as a named, disabled branch of MergeD / EqD. *)
OfSize(n) == {dv \in SUBSET AllDevs : Cardinality(dv) = n}
BrokenV(v, dv) ==
  CASE v.kind = "un"  -> BrokenUn(v.t, OutUnD(v.t, dv))
    [] v.kind = "bin" -> BrokenBin(v.t, v.u, OutBinD(v.t, v.u, dv))
    [] v.kind = "tri" -> BrokenTri(v.t, v.u, v.v, OutTriD(v.t, v.u, v.v, dv))
Breaking(v, r, n) == {dv \in OfSize(n) : r \in BrokenV(v, dv)}
DevSets(v, r) == IF Breaking(v, r, 1) # {} THEN Breaking(v, r, 1)
                 ELSE IF Breaking(v, r, 2) # {} THEN Breaking(v, r, 2)
                 ELSE IF Breaking(v, r, 3) # {} THEN Breaking(v, r, 3)
                 ELSE Breaking(v, r, 4)
DevNames(v, r) == UNION DevSets(v, r)
\* outcomes predicted with a repaired deviation back (alone: dev = its name; all of them: dev = "all"), where they differ
OutV(v, dv) ==
  CASE v.kind = "un"  -> OutUnD(v.t, dv)
    [] v.kind = "bin" -> OutBinD(v.t, v.u, dv)
    [] v.kind = "tri" -> OutTriD(v.t, v.u, v.v, dv)
RECURSIVE JoinNames(_, _)
JoinNames(ns, i) == IF i > Len(ns) THEN "" ELSE (IF i > 1 THEN "+" ELSE "") \o ns[i] \o JoinNames(ns, i + 1)
Back(v) ==
  LET base == OutV(v, AllDevs)
      Pred(ds) == [dev |-> JoinNames(SetToSeq(ds), 1), out |-> OutV(v, AllDevs \cup ds)]
      one  == {Pred({d}) : d \in {d2 \in RepairedDevs : OutV(v, AllDevs \cup {d2}) # base}}
      full == OutV(v, AllDevs \cup RepairedDevs)
      \* several together give an outcome that none of them gives alone: also the sets of two and three
      more == IF full = base \/ \E e \in one : e.out = full THEN {}
              ELSE {Pred(ds) : ds \in {ds2 \in SUBSET RepairedDevs : Cardinality(ds2) \in {2, 3} /\ OutV(v, AllDevs \cup ds2) # base}}
      all  == IF full # base THEN {[dev |-> "all", out |-> full]} ELSE {}
  IN SetToSeq(one \cup more \cup all)
Entry(v, r) == [rule |-> r, devs |-> SetToSeq(DevNames(v, r))]

----------------------------------------------------------------------------
(* Generator *)
Header == ToJson([kind |-> "header", devs |-> SetToSeq(AllDevs), repaired |-> SetToSeq(RepairedDevs), names |-> NamePool, size |-> Len(USeq), tri |-> Len(TSeq)])
Skip == ToJson([kind |-> "skip"])

VUn(t) == [kind |-> "un", t |-> t]
VBin(t, u) == [kind |-> "bin", t |-> t, u |-> u]
VTri(t, u, v) == [kind |-> "tri", t |-> t, u |-> u, v |-> v]
TCUn(t) == LET o == OutUn(t) IN
  ToJson([kind |-> "un", t |-> t, asread |-> o, broken |-> SetToSeq({Entry(VUn(t), r) : r \in BrokenUn(t, o)}), back |-> Back(VUn(t))])
TCBin(t, u) == LET o == OutBin(t, u) IN
  ToJson([kind |-> "bin", t |-> t, u |-> u, asread |-> o, broken |-> SetToSeq({Entry(VBin(t, u), r) : r \in BrokenBin(t, u, o)}), back |-> Back(VBin(t, u))])
TCTri(t, u, v) == LET o == OutTri(t, u, v) IN
  ToJson([kind |-> "tri", t |-> t, u |-> u, v |-> v, asread |-> o,
          broken |-> SetToSeq({Entry(VTri(t, u, v), r) : r \in BrokenTri(t, u, v, o)}), back |-> Back(VTri(t, u, v))])

St(kind, i, j, k) == [kind |-> kind, i |-> i, j |-> j, k |-> k]
Init == cur = St("init", 0, 0, 0) /\ tc = Header
Next ==
  \/ /\ cur.kind = "init"
     /\ \E i \in DOMAIN USeq : cur' = St("un", i, 0, 0) /\ tc' = TCUn(USeq[i])
  \/ /\ cur.kind = "un"
     /\ \E j \in cur.i .. Len(USeq) : cur' = St("bin", cur.i, j, 0) /\ tc' = TCBin(USeq[cur.i], USeq[j])
  \/ /\ cur.kind = "init"
     /\ \E i \in DOMAIN TSeq : cur' = St("t1", i, 0, 0) /\ tc' = Skip
  \/ /\ cur.kind = "t1"
     /\ \E j \in DOMAIN TSeq : cur' = St("t2", cur.i, j, 0) /\ tc' = Skip
  \/ /\ cur.kind = "t2"
     /\ \E k \in DOMAIN TSeq : cur' = St("tri", cur.i, cur.j, k) /\ tc' = TCTri(TSeq[cur.i], TSeq[cur.j], TSeq[k])
Spec == Init /\ [][Next]_vars

----------------------------------------------------------------------------
(* Model-level invariants (E) *)
\* the universe satisfies the struct invariant
UniverseWF == cur.kind = "init" => (\A t \in U : WF(t) /\ JC(t)) /\ (\A t \in {TSeq[i2] : i2 \in DOMAIN TSeq} : WF(t))
\* the preorder used for "upper bound" contains the loosening preorder of DESIGN A.6 and is a preorder
LoosensInSub == cur.kind = "bin" => (Loosens(USeq[cur.i], USeq[cur.j]) => Sub(USeq[cur.i], USeq[cur.j]))
                                    /\ (Loosens(USeq[cur.j], USeq[cur.i]) => Sub(USeq[cur.j], USeq[cur.i]))
SubRefl == cur.kind = "un" => Sub(USeq[cur.i], USeq[cur.i])
SubTrans == cur.kind = "tri" =>
   ((Sub(TSeq[cur.i], TSeq[cur.j]) /\ Sub(TSeq[cur.j], TSeq[cur.k])) => Sub(TSeq[cur.i], TSeq[cur.k]))
CurV == CASE cur.kind = "un" -> VUn(USeq[cur.i])
          [] cur.kind = "bin" -> VBin(USeq[cur.i], USeq[cur.j])
          [] cur.kind = "tri" -> VTri(TSeq[cur.i], TSeq[cur.j], TSeq[cur.k])
IsVec == cur.kind \in {"un", "bin", "tri"}
\* the design (no deviation enabled) satisfies every law and fact on the universe
Agree == IsVec => BrokenV(CurV, {}) = {}
\* every law the code as read breaks is explained by named deviations (one, or two together)
Confined == IsVec => \A r \in BrokenV(CurV, AllDevs) : DevNames(CurV, r) # {}
=============================================================================
