---------------------------- MODULE DocMutation ----------------------------
(* Generator of document mutations over the base workflows of Schema.tla, with the observable the
   property predicts for each (DESIGN.md 3.2).  The state machine walks every base from the root
   (`Descend`, one child per step: navigation states, tc.prop = "nav") and emits, at each node, the
   vectors of the properties in Props.  `tc` = JSON vector for the harness (`doc-run`): the edit
   script `ops` over the base, the reference edit script `refops` (same document without the
   mutation under test), the node under test and the prediction `exp`.

   C13  at every mapping node:
          InsertKey  a foreign key first / in the middle / last          (closed key sets only); the foreign key is
                     an ordinary word or the unquoted YAML merge key `<<` (tag !!merge, still a key here)
          InsertKey  (where = "casevariant") a known key of the mapping that is ABSENT from it, spelled in another
                     letter case (UPPER / first letter flipped), in case-sensitive closed mappings: a foreign key
          RenameKey  the key of entry i spelled in another letter case.  Case-sensitive closed mapping: it is a
                     foreign key now (reported at the key).  Case-insensitive mapping: the same key, nothing may
                     change (drift-only: the property does not say so)
          KindKey    a key of the key set that is not available in a node of THIS kind (call-only keys in a
                     steps job, steps-only keys in a call job, run-only keys in an action step and vice versa;
                     Schema `kinds`), in every value form its schema allows (scalar / sequence / mapping, minimal
                     well-typed value, and no value at all), first / in the middle / last among its siblings.
                     Predicted: a syntax-check diagnostic of class key-conflict at the key, its value or a
                     sibling key of the same node (which of them is drift-only).
          EventKey   into the mapping of an event of Schema!EventDeny: a key k1 not available for that event together
                     with another absent webhook key k2; reference = the document with k2 only.  Predicted: a new
                     `events` diagnostic at the event name or at k1, and every diagnostic of the reference stays
          DupKey     (where = "unicode") in the case-insensitive mappings whose keys are chosen by the user: entry i
                     renamed to a NON-ASCII name and duplicated with the case of the non-ASCII letter flipped
                     (only letters with a simple 1:1 case mapping; with and without an ASCII capital elsewhere).
                     Same verdict as the ASCII pair: a duplicate at the repetition.  The reference is the
                     renamed document
          DupKey     a copy of entry i (key in the same / UPPER / Mixed case, value copied) directly
                     after entry i or at the end of the mapping
          DropKey    removal of a key without which no mandatory alternative is satisfied; also together with
                     a foreign key, and of every PAIR of mandatory keys of one alternative at once (each of
                     the two must still be reported: exp.named)
        each with and without *sensors*: a malformed placeholder in the first template scalar of
        every entry of the mapping, so that the siblings HAVE diagnostics that must survive.
        Prediction: a syntax-check diagnostic at exp.at ("key": the new key; "item": the start of the
        enclosing `schedule` item; for DropKey the place named by the schema: "doc" | "parentkey" |
        "node") of class exp.cls; for InsertKey/DupKey additionally exp.siblings = TRUE: every
        diagnostic of the reference run outside the inserted entry is still reported.
   C03  at every scalar value: Placeholder(variant) x quoting style x sibling configuration
          max  the base as it is (all optional siblings present)
          min  every optional sibling of every mapping on the path removed
          rev  the entries of the nearest enclosing mapping in reverse order
          revall  every mapping on the path in reverse order (thorough tier)
          exprbefore  every scalar sibling BEFORE the scalar (elements of the same sequence, values of the same
               open / raw mapping) replaced by a well-formed expression of type `any` - the sibling
               configuration in which a type-merging loop could stop early
        Prediction: at least one diagnostic located on that scalar; of class expr-syntax unless the
        domain is one of Schema!NonTemplate or the placeholder is the unterminated one ("${{ 1 +" is literal
        text for GitHub: only the first half of the property applies).  Domains of Schema!WholeScalar only
        get the variants that replace the whole scalar by a single ${{ }} (DESIGN 5.22). *)
EXTENDS Schema

CONSTANTS Props,       \* subset of {"C13", "C03"}
          BaseSet,     \* base indices to walk
          Variants,    \* placeholder variants, subset of 1..8
          Styles,      \* quoting of the placeholder: subset of {"auto", "single", "double"}
          Configs,     \* subset of {"max", "min", "rev", "revall", "exprbefore"}
          Cases,       \* subset of {"same", "upper", "mixed"}
          SensorModes  \* subset of BOOLEAN

\* one placeholder per family of malformation, so that C03 does not hang on one path of the expression parser:
\* 1 unexpected token, 2 empty placeholder, 3 lexical error (unterminated string), 4 unexpected end inside text,
\* 5 unterminated placeholder, 6 unclosed parenthesis, 7 trailing comma in a call, 8 lexical error (illegal character)
Placeholder == << "${{ a.. }}", "${{ }}", "${{ 'x }}", "x ${{ ! }} y", "${{ 1 +", "${{ format('a' }}",
                  "${{ format('a',) }}", "${{ a # b }}" >>
WholeVariants == {1, 2, 3, 6, 7, 8}
Unterminated == {5}      \* no closing }}: literal text for GitHub, so only "a diagnostic at the scalar" is demanded
ForeignKey == "verif-foreign-key"
ForeignKeys == {ForeignKey, "<<"}      \* "<<" written plain is the YAML merge key (tag !!merge)
AnyExpr == "${{ fromJSON(format('{0}', 'x')) }}"   \* well formed, no context, statically of type any (argument not a literal)
SensorText == "${{ a.. }}"

\* raw matrix mappings are case-insensitive open mappings
RawMapT == Mp("matrix row value", FALSE, TRUE, <<>>, RawT, "raw", <<>>, "node")
MapT(r) == IF r.k = "raw" THEN RawMapT ELSE r
Front(s) == SubSeq(s, 1, Len(s) - 1)

----------------------------------------------------------------------------
(* sibling configurations *)
ReqKeys(r, d) ==
  IF r.k # "map" \/ r.req = <<>> THEN {}
  ELSE r.req[CHOOSE a \in DOMAIN r.req : r.req[a] \subseteq KeysOf(d)]

\* delete every optional sibling along the path
RECURSIVE DelOps(_, _, _, _, _)
DelOps(d, done, h, keep, i) ==
  IF i > Len(d.p) THEN <<>>
  ELSE (IF i # h /\ d.p[i][1] \notin keep THEN <<[op |-> "del", path |-> Append(done, i)]>> ELSE <<>>)
       \o DelOps(d, done, h, keep, i + 1)
RECURSIVE MinOps(_, _, _, _)
MinOps(t, d, done, rest) ==
  IF rest = <<>> THEN <<>>
  ELSE LET r == Resolve(t, d)
           h == Head(rest) IN
       (IF d.k = "m" THEN DelOps(d, done, h, ReqKeys(r, d), 1) ELSE <<>>)
       \o MinOps(KidT(r, d, h), Kid(d, h), Append(done, h), Tail(rest))

\* path of the nearest mapping with >= 2 entries that contains the node (<<0>> if none)
RECURSIVE NearestMap(_, _)
NearestMap(d, path) ==
  IF path = <<>> THEN <<0>>
  ELSE LET up == Front(path)
           n == NodeAt(d, up) IN
       IF n.k = "m" /\ Len(n.p) >= 2 THEN up ELSE NearestMap(d, up)

\* reverse every mapping (>= 2 entries) on the path
RECURSIVE RevAll(_, _, _)
RevAll(d, done, rest) ==
  (IF d.k = "m" /\ Len(d.p) >= 2 THEN <<[op |-> "rev", path |-> done]>> ELSE <<>>)
  \o (IF rest = <<>> THEN <<>> ELSE RevAll(Kid(d, Head(rest)), Append(done, Head(rest)), Tail(rest)))

\* may a (sensor / any-typed) expression be put at a scalar of this type?
SensorOK(r) == r.k = "raw" \/ (r.k = "scalar" /\ Class(r.dom) = "template")

\* scalar siblings before child h of node d (type r) that may hold a template, set to an any-typed expression
RECURSIVE AnyBefore(_, _, _, _, _)
AnyBefore(r, d, done, h, i) ==
  IF i >= h THEN <<>>
  ELSE LET c == Kid(d, i)
           ct == Resolve(KidT(r, d, i), c) IN
       (IF c.k = "s" /\ ~IsNull(c) /\ SensorOK(ct)
          THEN <<[op |-> "set", path |-> Append(done, i), v |-> AnyExpr, st |-> "auto"]>> ELSE <<>>)
       \o AnyBefore(r, d, done, h, i + 1)
ExprBefore(b, path) ==
  IF path = <<>> THEN <<>>
  ELSE LET up == Front(path)
           d == NodeAt(Bases[b], up)
           r == TypeAt(Root, Bases[b], up)
           h == path[Len(path)]
           applicable == d.k = "q" \/ r.k = "raw"
                         \/ (r.k = "map" /\ r.open.k # "none" /\ ~IsFixedKey(r, d.p[h][1])) IN
       IF applicable THEN AnyBefore(r, d, up, h, 1) ELSE <<>>

CfgOps(b, path, cfg) ==
  CASE cfg = "max" -> <<>>
    [] cfg = "exprbefore" -> ExprBefore(b, path)
    [] cfg = "revall" -> RevAll(Bases[b], <<>>, Front(path))
    [] cfg = "min" -> MinOps(Root, Bases[b], <<>>, path)
    [] cfg = "rev" -> LET m == NearestMap(Bases[b], path) IN
                      IF m = <<0>> THEN <<>> ELSE <<[op |-> "rev", path |-> m]>>

----------------------------------------------------------------------------
(* sensors: first template scalar below a node *)
RECURSIVE FirstTmpl(_, _, _), FirstOf(_, _, _, _)
FirstTmpl(t, d, path) ==
  LET r == Resolve(t, d) IN
  IF d.k = "s" THEN (IF ~IsNull(d) /\ SensorOK(r) THEN path ELSE <<0>>)
  ELSE FirstOf(r, d, path, 1)
FirstOf(r, d, path, i) ==
  IF i > NKids(d) THEN <<0>>
  ELSE LET x == FirstTmpl(KidT(r, d, i), Kid(d, i), Append(path, i)) IN
       IF x # <<0>> THEN x ELSE FirstOf(r, d, path, i + 1)

RECURSIVE SensorOpsFrom(_, _, _, _)
SensorOpsFrom(r, d, path, i) ==
  IF i > NKids(d) THEN <<>>
  ELSE LET x == FirstTmpl(KidT(r, d, i), Kid(d, i), Append(path, i)) IN
       (IF x # <<0>> THEN <<[op |-> "set", path |-> x, v |-> SensorText, st |-> "auto"]>> ELSE <<>>)
       \o SensorOpsFrom(r, d, path, i + 1)

----------------------------------------------------------------------------
VARIABLES b, path, tc
vars == <<b, path, tc>>

Nav == ToJson([prop |-> "nav"])
Doc == Bases[b]
Here == NodeAt(Doc, path)
HereT == TypeAt(Root, Doc, path)
Site == SitePath(Root, Doc, path)

Init == b \in BaseSet /\ path = <<>> /\ tc = Nav

Descend ==
  /\ tc = Nav
  /\ \E i \in 1 .. NKids(Here) : path' = Append(path, i)
  /\ UNCHANGED <<b, tc>>

\* ---- C03
C03Vector(v, st, cfg) ==
  LET t == HereT
      dom == IF t.k = "raw" THEN "raw" ELSE t.dom
      slots == IF t.k = "raw" THEN <<>> ELSE t.slots
      cops == CfgOps(b, path, cfg) IN
  [prop |-> "C03", b |-> b, path |-> path, site |-> Site, dom |-> dom, class |-> Class(dom), slots |-> slots,
   variant |-> v, text |-> Placeholder[v], st |-> st, cfg |-> cfg,
   refops |-> cops,
   ops |-> cops \o <<[op |-> "set", path |-> path, v |-> Placeholder[v], st |-> st]>>,
   exp |-> [located |-> TRUE,
            cls |-> IF Class(dom) = "nontemplate" \/ v \in Unterminated THEN "any" ELSE "expr-syntax"]]

EmitC03 ==
  /\ "C03" \in Props /\ tc = Nav /\ path # <<>>
  /\ Here.k = "s" /\ ~IsNull(Here)
  /\ HereT.k \in {"scalar", "raw"}
  /\ \E v \in Variants, st \in Styles, cfg \in Configs :
       /\ LET dom == IF HereT.k = "raw" THEN "raw" ELSE HereT.dom IN
          Class(dom) = "whole" => v \in WholeVariants
       /\ cfg # "max" => CfgOps(b, path, cfg) # <<>>
       /\ tc' = ToJson(C03Vector(v, st, cfg))
  /\ UNCHANGED <<b, path>>

\* ---- C13
Closed(r) == r.open.k = "none"
C13Common(r, mut, sens) ==
  [b |-> b, path |-> path, site |-> Site, sec |-> r.sec, cs |-> r.cs, closed |-> Closed(r),
   mut |-> mut, sensors |-> sens]
SOps(r, sens) == IF sens THEN SensorOpsFrom(r, Here, path, 1) ELSE <<>>

InsertVector(r, where, at, sens, fk) ==
  LET so == SOps(r, sens) IN
  [prop |-> "C13", h |-> C13Common(r, "InsertKey", sens), where |-> where, key |-> fk, case |-> "same",
   refops |-> so,
   ops |-> so \o <<[op |-> "ins", path |-> path, at |-> at, key |-> fk, case |-> "",
                    val |-> [k |-> "s", v |-> "x", st |-> ""]]>>,
   exp |-> [at |-> r.keyErrAt, cls |-> IF r.keyErrAt = "item" THEN "schedule-item" ELSE "unknown-key",
            siblings |-> TRUE]]

DupCls(r, case) ==
  IF case = "same" \/ ~r.cs THEN "dup-key"
  ELSE IF r.keyErrAt = "item" THEN "schedule-item" ELSE "unknown-key"
DupVector(r, i, case, where, at, sens) ==
  LET so == SOps(r, sens) IN
  [prop |-> "C13", h |-> C13Common(r, "DupKey", sens), where |-> where, key |-> Here.p[i][1], case |-> case,
   refops |-> so,
   ops |-> so \o <<[op |-> "ins", path |-> path, at |-> at, key |-> Here.p[i][1],
                    case |-> IF case = "same" THEN "" ELSE case, copy |-> Append(path, i)]>>,
   exp |-> [at |-> IF DupCls(r, case) = "schedule-item" THEN "item" ELSE "key", cls |-> DupCls(r, case),
            siblings |-> TRUE]]

\* non-ASCII key names ("{U+XXXX}" is decoded by the harness): a-umlaut, the same with an ASCII capital elsewhere,
\* Greek small sigma
UniKeys == <<"{U+00E4}rger", "{U+00E4}rgeR", "{U+03C3}x">>
DupUniVector(r, i, u, sens) ==
  LET so == SOps(r, sens)
      ren == <<[op |-> "key", path |-> Append(path, i), key |-> UniKeys[u], case |-> ""]>> IN
  [prop |-> "C13", h |-> C13Common(r, "DupKey", sens), where |-> "unicode", key |-> UniKeys[u], case |-> "mixed",
   refops |-> so \o ren,
   ops |-> so \o ren \o <<[op |-> "ins", path |-> path, at |-> i + 1, key |-> UniKeys[u], case |-> "mixed",
                            copy |-> Append(path, i)]>>,
   exp |-> [at |-> "key", cls |-> "dup-key", siblings |-> TRUE]]

Breaks(r, key) == /\ key \in ReqKeys(r, Here)
                  /\ ~\E a \in DOMAIN r.req : r.req[a] \subseteq (KeysOf(Here) \ {key})
DropVector(r, i, sens) ==
  LET so == SOps(r, sens) IN
  [prop |-> "C13", h |-> C13Common(r, "DropKey", sens), where |-> "", key |-> Here.p[i][1], case |-> "same",
   refops |-> so,
   ops |-> so \o <<[op |-> "del", path |-> Append(path, i)]>>,
   exp |-> [at |-> r.miss, cls |-> IF r.keyErrAt = "item" THEN "schedule-item" ELSE "missing-key",
            siblings |-> FALSE]]

\* a mandatory key is dropped AND a foreign key is present in the same mapping ("never suppresses": the
\* unknown key must not hide the missing one, e.g. credentials {username, passwd})
DropInsVector(r, i, sens) ==
  LET so == SOps(r, sens)
      n == NKids(Here) IN
  [prop |-> "C13", h |-> C13Common(r, "DropKey", sens), where |-> "with-foreign-key", key |-> Here.p[i][1], case |-> "same",
   refops |-> so,
   ops |-> so \o <<[op |-> "ins", path |-> path, at |-> n + 1, key |-> ForeignKey, case |-> "",
                    val |-> [k |-> "s", v |-> "x", st |-> ""]],
                   [op |-> "del", path |-> Append(path, i)]>>,
   exp |-> [at |-> r.miss, cls |-> IF r.keyErrAt = "item" THEN "schedule-item" ELSE "missing-key",
            siblings |-> FALSE]]

\* a known but absent key in another letter case: a foreign key of a case-sensitive closed mapping
VariantInsVector(r, f, case, sens) ==
  LET so == SOps(r, sens) IN
  [prop |-> "C13", h |-> C13Common(r, "InsertKey", sens), where |-> "casevariant", key |-> r.fields[f].key, case |-> case,
   refops |-> so,
   ops |-> so \o <<[op |-> "ins", path |-> path, at |-> NKids(Here) + 1, key |-> r.fields[f].key, case |-> case,
                    val |-> [k |-> "s", v |-> "x", st |-> ""]]>>,
   exp |-> [at |-> r.keyErrAt, cls |-> IF r.keyErrAt = "item" THEN "schedule-item" ELSE "unknown-key",
            siblings |-> TRUE]]

\* the key of entry i in another letter case
RenameVector(r, i, case, sens) ==
  LET so == SOps(r, sens) IN
  [prop |-> "C13", h |-> C13Common(r, "RenameKey", sens), where |-> "", key |-> Here.p[i][1], case |-> case,
   entry |-> Append(path, i),
   refops |-> so,
   ops |-> so \o <<[op |-> "key", path |-> Append(path, i), case |-> case]>>,
   exp |-> IF r.cs
             THEN [at |-> IF r.keyErrAt = "item" THEN "item" ELSE "entrykey",
                   cls |-> IF r.keyErrAt = "item" THEN "schedule-item" ELSE "unknown-key",
                   \* the entry is no longer what it was and diagnostics derived from it may sit elsewhere (job id,
                   \* missing-key reports): no claim about the siblings here - InsertKey and DupKey make that claim
                   siblings |-> FALSE, same |-> FALSE]
             ELSE [at |-> "entrykey", cls |-> "none", siblings |-> FALSE, same |-> TRUE]]

\* ---- minimal well-typed values of a schema node, one per form
ScalarText(dom) ==
  CASE dom = "inherit" -> "inherit" [] dom = "bool" -> "true" [] dom \in {"int", "float"} -> "1"
    [] dom = "expr" -> AnyExpr [] dom = "permission" -> "read" [] dom = "input-type" -> "string"
    [] dom = "cron" -> "0 0 1 1 *" [] dom = "shell" -> "bash" [] OTHER -> "x"
FormsOf(t) ==
  CASE t.k = "alt" -> {f \in {"s", "q", "m"} : (IF f = "s" THEN t.s ELSE IF f = "q" THEN t.q ELSE t.m).k # "none"}
    [] t.k = "scalar" -> {"s"} [] t.k = "seq" -> {"q"} [] t.k = "map" -> {"m"} [] OTHER -> {"s"}
RECURSIVE MinValue(_, _)
MinValue(t, form) ==
  LET r == IF t.k = "alt" THEN (IF form = "s" THEN t.s ELSE IF form = "q" THEN t.q ELSE t.m) ELSE t IN
  CASE r.k = "scalar" -> [k |-> "s", v |-> ScalarText(r.dom), st |-> "auto"]
    [] r.k = "raw" -> [k |-> "s", v |-> "x", st |-> ""]
    [] r.k = "seq" -> [k |-> "q", e |-> <<MinValue(r.elem, CHOOSE f \in FormsOf(r.elem) : TRUE)>>]
    [] r.k = "map" ->
         LET need == IF r.req # <<>> THEN r.req[1] ELSE {}
             idx == {i \in DOMAIN r.fields : r.fields[i].key \in need}
             pick == IF idx # {} THEN idx
                     ELSE IF r.open.k # "none" THEN {} ELSE {CHOOSE i \in DOMAIN r.fields : TRUE}
             RECURSIVE Ents(_)
             Ents(i) == IF i > Len(r.fields) THEN <<>>
                        ELSE (IF i \in pick
                                THEN << <<r.fields[i].key,
                                          MinValue(r.fields[i].t, CHOOSE f \in FormsOf(r.fields[i].t) : TRUE)>> >>
                                ELSE <<>>) \o Ents(i + 1) IN
         [k |-> "m", p |-> IF pick = {} THEN << <<"k", MinValue(r.open, CHOOSE f \in FormsOf(r.open) : TRUE)>> >>
                           ELSE Ents(1)]
NullValue == [k |-> "s", v |-> "", st |-> "null"]
FieldByKey(r, key) == r.fields[CHOOSE i \in DOMAIN r.fields : r.fields[i].key = key]

ActiveKinds(r) == {i \in DOMAIN r.kinds : r.kinds[i].when \cap KeysOf(Here) # {}}
KindVector(r, kd, key, form, where, at, sens) ==
  LET so == SOps(r, sens)
      val == IF form = "null" THEN NullValue ELSE MinValue(FieldByKey(r, key).t, form) IN
  [prop |-> "C13", h |-> C13Common(r, "KindKey", sens), where |-> where, key |-> key, case |-> "same",
   kind |-> r.kinds[kd].name, form |-> form, n |-> NKids(Here),
   refops |-> so,
   ops |-> so \o <<[op |-> "ins", path |-> path, at |-> at, key |-> key, case |-> "", val |-> val]>>,
   exp |-> [at |-> "conflict", cls |-> "key-conflict", siblings |-> FALSE,
            soft |-> key \in r.kinds[kd].soft]]

\* event mapping (entry of `on`): k1 not available for this event, k2 another absent webhook key
EventVector(r, hook, k1, f1, k2, first, sens) ==
  LET so == SOps(r, sens)
      n == NKids(Here)
      ins2 == [op |-> "ins", path |-> path, at |-> n + 1, key |-> k2, case |-> "", new |-> "sib",
               val |-> MinValue(FieldByKey(r, k2).t, CHOOSE f \in FormsOf(FieldByKey(r, k2).t) : TRUE)]
      ins1 == [op |-> "ins", path |-> path, at |-> IF first THEN 1 ELSE n + 1, key |-> k1, case |-> "", new |-> "new",
               val |-> MinValue(FieldByKey(r, k1).t, f1)] IN
  [prop |-> "C13", h |-> C13Common(r, "EventKey", sens), where |-> IF first THEN "first" ELSE "last", key |-> k1,
   key2 |-> k2, case |-> "same", hook |-> hook, form |-> f1,
   refops |-> so \o <<ins2>>,
   ops |-> so \o (IF first THEN <<ins1, ins2>> ELSE <<ins2, ins1>>),
   exp |-> [at |-> "event", cls |-> "rule:events", siblings |-> TRUE]]

\* two mandatory keys of the satisfied alternative dropped at once: both must be reported
BreaksPair(r, k1, k2) == /\ k1 \in ReqKeys(r, Here) /\ k2 \in ReqKeys(r, Here)
                         /\ ~\E a \in DOMAIN r.req : r.req[a] \subseteq (KeysOf(Here) \ {k1, k2})
DropPairVector(r, i, j, sens) ==
  LET so == SOps(r, sens) IN
  [prop |-> "C13", h |-> C13Common(r, "DropKey", sens), where |-> "pair", key |-> Here.p[i][1], key2 |-> Here.p[j][1],
   case |-> "same", refops |-> so,
   ops |-> so \o <<[op |-> "del", path |-> Append(path, i)], [op |-> "del", path |-> Append(path, j)]>>,
   exp |-> [at |-> r.miss, cls |-> IF r.keyErrAt = "item" THEN "schedule-item" ELSE "missing-key",
            siblings |-> FALSE, named |-> <<Here.p[i][1], Here.p[j][1]>>]]

EmitC13 ==
  /\ "C13" \in Props /\ tc = Nav
  /\ Here.k = "m" /\ HereT.k \in {"map", "raw"}
  /\ LET r == MapT(HereT)
         n == NKids(Here) IN
     \E sens \in SensorModes :
       \/ /\ Closed(r)
          /\ \E w \in {"first", "middle", "last"}, fk \in ForeignKeys :
               /\ w = "middle" => n >= 2
               /\ tc' = ToJson(InsertVector(r, w, CASE w = "first" -> 1 [] w = "middle" -> (n \div 2) + 1
                                                     [] w = "last" -> n + 1, sens, fk))
       \/ \E i \in 1 .. n, case \in Cases, w \in {"after", "end"} :
               /\ w = "end" => i < n
               /\ case # "same" => ~(r.cs /\ ~Closed(r))     \* `on`: another spelling is another event, not a key error
               /\ tc' = ToJson(DupVector(r, i, case, w, IF w = "after" THEN i + 1 ELSE n + 1, sens))
       \/ /\ Closed(r) /\ r.cs
          /\ \E f \in DOMAIN r.fields, case \in Cases \ {"same"} :
               /\ r.fields[f].key \notin KeysOf(Here)
               /\ tc' = ToJson(VariantInsVector(r, f, case, sens))
       \/ \E i \in 1 .. n, case \in Cases \ {"same"} :
               /\ ~(r.cs /\ ~Closed(r))      \* `on`: another spelling is another event
               /\ r.cs => IsFixedKey(r, Here.p[i][1])
               /\ tc' = ToJson(RenameVector(r, i, case, sens))
       \/ /\ ~r.cs /\ ~Closed(r) /\ "mixed" \in Cases
          /\ \E i \in 1 .. n, u \in DOMAIN UniKeys :
               /\ ~IsFixedKey(r, Here.p[i][1])
               /\ tc' = ToJson(DupUniVector(r, i, u, sens))
       \/ \E kd \in ActiveKinds(r), w \in {"first", "middle", "last"} :
            \E key \in (r.kinds[kd].deny \cup r.kinds[kd].soft) \ KeysOf(Here) :
              \E form \in FormsOf(FieldByKey(r, key).t) \cup {"null"} :
               /\ w = "middle" => n >= 2
               /\ tc' = ToJson(KindVector(r, kd, key, form, w, CASE w = "first" -> 1 [] w = "middle" -> (n \div 2) + 1
                                                                    [] w = "last" -> n + 1, sens))
       \/ /\ r.sec = "webhook" /\ path # <<>>
          /\ LET hook == NodeAt(Doc, Front(path)).p[path[Len(path)]][1] IN
             /\ hook \in DOMAIN EventDeny
             /\ \E k1 \in EventDeny[hook] \ KeysOf(Here), first \in BOOLEAN :
                  \E k2 \in ({r.fields[i].key : i \in DOMAIN r.fields} \ KeysOf(Here)) \ {k1},
                     f1 \in FormsOf(FieldByKey(r, k1).t) :
                    tc' = ToJson(EventVector(r, hook, k1, f1, k2, first, sens))
       \/ \E i \in 1 .. n :
               /\ Breaks(r, Here.p[i][1])
               /\ tc' = ToJson(DropVector(r, i, sens))
       \/ \E i \in 1 .. n :
               /\ Breaks(r, Here.p[i][1]) /\ Closed(r)
               /\ tc' = ToJson(DropInsVector(r, i, sens))
       \/ \E i, j \in 1 .. n :
               /\ i < j /\ BreaksPair(r, Here.p[i][1], Here.p[j][1])
               /\ tc' = ToJson(DropPairVector(r, i, j, sens))
  /\ UNCHANGED <<b, path>>

Next == Descend \/ EmitC03 \/ EmitC13
Spec == Init /\ [][Next]_vars

\* every walked node is typed by the schema (no "none" type is ever reached)
NodesTyped == tc = Nav => HereT.k # "none"
=============================================================================
