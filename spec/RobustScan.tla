----------------------------- MODULE RobustScan -----------------------------
(* C01, progress of the placeholder scan (rule_expression.go: checkExprsIn).

       for { idx := Index(s, "${{"); if idx == -1 {break}
             s = s[idx+3:]                       -- drop the text in front of and the opening "${{"
             ty, after, ok := checkSemantics(s)  -- lexes and parses s up to and including "}}"
             if !ok {return}; if ty == nil || after == 0 {return}
             s = s[after:] }

   The loop is modelled as a function Body on the remaining string; the lexer/parser is its CONTRACT
   Parse(s) = [ok, off]: ok => 2 <= off <= Len(s) and s[off-1..off] = "}}" (offset just behind the closing braces).
   Over the alphabet {"$", "{", "}", "a"} ("a" = a character of a well-formed expression; the harness writes the
   digit 1) the contract is satisfied by exactly: a+ "}}" -> ok, off = n + 2; anything else is a syntax error.

   Invariants, for EVERY string up to MaxLen (the set is suffix closed, so every loop state is covered):
     Progress   Body(s) continues => the remaining string is strictly shorter (the variant Len(s) decreases:
                the loop terminates after at most Len(s) / 5 iterations)
     InBounds   every slice index used is inside the string
     Bounded    Iter(s) terminates within Len(s) iterations (checked by running the loop with fuel Len(s) + 1)
   tc = [s, err, n]: the prediction for the real code (err: an expression syntax error is reported;
   n: number of placeholders checked successfully before the scan ends). *)
EXTENDS Naturals, Sequences, TLC, Json
CONSTANTS MaxLen
Alpha == {"$", "{", "}", "a"}

Drop(s, n) == SubSeq(s, n + 1, Len(s))
IsAt(s, i, w) == i + Len(w) - 1 <= Len(s) /\ SubSeq(s, i, i + Len(w) - 1) = w
Open == <<"$", "{", "{">>
Close == <<"}", "}">>
Idx(s) == IF \E i \in 1 .. Len(s) : IsAt(s, i, Open)
          THEN (CHOOSE i \in 1 .. Len(s) : IsAt(s, i, Open) /\ \A j \in 1 .. i - 1 : ~IsAt(s, j, Open)) - 1
          ELSE Len(s) + 1                                  \* "not found" (-1 in the code)
RECURSIVE Run(_)
Run(s) == IF s # <<>> /\ Head(s) = "a" THEN 1 + Run(Tail(s)) ELSE 0
Parse(s) == LET n == Run(s) IN
            IF n >= 1 /\ IsAt(s, n + 1, Close) THEN [ok |-> TRUE, off |-> n + 2] ELSE [ok |-> FALSE, off |-> 0]
Contract(s) == Parse(s).ok => Parse(s).off >= 2 /\ Parse(s).off <= Len(s) /\ IsAt(s, Parse(s).off - 1, Close)

Body(s) ==
  LET idx == Idx(s) IN
  IF idx > Len(s) THEN [k |-> "done", err |-> FALSE, s |-> <<>>]
  ELSE LET s1 == Drop(s, idx + 3)
           r == Parse(s1) IN
       IF ~r.ok THEN [k |-> "done", err |-> TRUE, s |-> <<>>]
       ELSE IF r.off = 0 THEN [k |-> "done", err |-> FALSE, s |-> <<>>]
       ELSE [k |-> "cont", err |-> FALSE, s |-> Drop(s1, r.off)]

RECURSIVE Iter(_, _, _)
Iter(s, fuel, n) ==
  IF fuel = 0 THEN [term |-> FALSE, err |-> FALSE, n |-> n]
  ELSE LET x == Body(s) IN
       IF x.k = "done" THEN [term |-> TRUE, err |-> x.err, n |-> n] ELSE Iter(x.s, fuel - 1, n + 1)

VARIABLES s, tc
Text(x) == x
Init == s = <<>> /\ tc = ToJson([s |-> <<>>, err |-> FALSE, n |-> 0])
Next == /\ Len(s) < MaxLen
        /\ \E c \in Alpha : s' = Append(s, c)
        /\ tc' = LET r == Iter(s', Len(s') + 1, 0) IN ToJson([s |-> s', err |-> r.err, n |-> r.n])
Spec == Init /\ [][Next]_<<s, tc>>

Progress == Body(s).k = "cont" => Len(Body(s).s) < Len(s)
InBounds == LET idx == Idx(s) IN idx <= Len(s) => (idx + 3 <= Len(s) /\ Contract(Drop(s, idx + 3)))
Bounded == Iter(s, Len(s) + 1, 0).term
=============================================================================
