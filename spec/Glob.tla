------------------------------- MODULE Glob -------------------------------
(* Filter-pattern (glob) validation of actionlint: glob.go.

   Operational layer  : Scan(s, isRef) - the scanner of glob.go (validate / validateNext with the
                        nested character-class loop), one consumed character per step, errors
                        carry (class, column, named character).
   Declarative layer  : WF(s, isRef)   - GitHub's filter pattern syntax + git ref-name character
                        rules written as a split into elements and predicates over the elements.
   Checked by TLC for every string over Alphabet up to MaxLen (grown one symbol per step):
     Scan accepts  <=>  WF;  ref-accepted => path-accepted;  columns inside the pattern and the
     named character is the character at that column;  the scan terminates (fuel never runs out).
   The state variables (s, exp) double as test vectors: `exp` is the predicted observable of
   ValidateRefGlob / ValidatePathGlob that the harness compares with the real code. *)
EXTENDS Naturals, Sequences, FiniteSets, TLC, Json

CONSTANTS MaxLen, Alphabet

\* symbols and the code points of their representatives (ordering matters for ranges)
Code == [a |-> 97, b |-> 98, bs |-> 92, q |-> 63, plus |-> 43, star |-> 42, lb |-> 91, rb |-> 93,
         dash |-> 45, bang |-> 33, slash |-> 47, dot |-> 46, sp |-> 32, tab |-> 9, tilde |-> 126,
         caret |-> 94, colon |-> 58, cr |-> 13, nl |-> 10, uni |-> 233, ctl |-> 1,
         nul |-> 0, bad |-> 65533,
         \* ordinary characters that other layers give a meaning to: U+3000 (white space for unicode.IsSpace, not for
         \* git), and the characters of a ${{ }} placeholder (filters are not evaluated: they are pattern characters)
         usp |-> 12288, dollar |-> 36, lc |-> 123, rc |-> 125,
         \* ordinary non-ASCII letters whose LOW BYTE is a ref-forbidden ASCII character (0x20, 0x3A, 0x7E, 0x5E, 0x09)
         lowsp |-> 288, lowcolon |-> 314, lowtilde |-> 382, lowcaret |-> 350, lowtab |-> 265]
\* NUL and invalid UTF-8 ("bad", seen as U+FFFD): the scanner reports an error for them, so a pattern that
\* contains one is invalid.  They are not part of the exhaustive alphabets; the operational layer does not
\* model where the scanner error is placed (recorded executions with them are judged by the declarative layer).
Illegal == {"nul", "bad"}
HasIllegal(t) == \E i \in DOMAIN t : t[i] \in Illegal
AllSyms == DOMAIN Code
LineBreaks == {"nl", "cr"}
Range(f) == {f[x] : x \in DOMAIN f}
RefForbidden == {"sp", "tab", "tilde", "caret", "colon"}
EscRefBad == {"lb", "q", "star"}         \* escapable, but the result is not a ref character
EscOK == {"plus", "bs", "bang"}          \* escapable in both kinds

----------------------------------------------------------------------------
(* Operational layer.  st = [i |-> number of consumed characters, nl |-> a line feed was consumed,
   prec |-> the previous element may be followed by ? or +, errs |-> errors so far] *)

PeekAt(s, i) == IF i + 1 <= Len(s) THEN s[i + 1] ELSE "eof"
Peek(s, st) == PeekAt(s, st.i)
\* consume one character (Next() at EOF returns EOF and consumes nothing)
Adv(s, st) == IF st.i + 1 <= Len(s)
                THEN [st EXCEPT !.i = @ + 1, !.nl = @ \/ s[st.i + 1] = "nl"]
                ELSE st
Err(st, cls, ch) ==
  [st EXCEPT !.errs = Append(@, [cls |-> cls, col |-> IF st.nl THEN 0 ELSE st.i, ch |-> ch])]

IsBreak(c) == c \in LineBreaks

\* the loop over the members of [...]; st has consumed '['.  Returns [st, c, abort]
RECURSIVE ClassLoop(_, _, _, _)
ClassLoop(s, st, chars, fuel) ==
  IF fuel = 0 THEN [st |-> Err(st, "diverged", "none"), c |-> "none", abort |-> TRUE]
  ELSE
  LET c == Peek(s, st) IN
  IF c = "eof" THEN [st |-> Err(st, "class-eof", "eof"), c |-> "eof", abort |-> TRUE]
  ELSE
  LET st1 == Adv(s, st) IN
  IF c = "rb" THEN
     [st |-> IF chars = 1 THEN Err(st1, "class-single", "rb") ELSE st1, c |-> "rb", abort |-> FALSE]
  ELSE
  LET st1b == IF IsBreak(c) THEN Err(st1, "newline", c) ELSE st1 IN
  IF Peek(s, st1b) # "dash" THEN ClassLoop(s, st1b, chars + 1, fuel - 1)
  ELSE
  LET st2 == Adv(s, st1b)        \* eat '-'
      p == Peek(s, st2) IN
  IF p = "rb" THEN
     LET st3 == Err(Adv(s, st2), "range-noend", "rb") IN [st |-> st3, c |-> "rb", abort |-> FALSE]
  ELSE IF p = "eof" THEN ClassLoop(s, st2, chars + 2, fuel - 1)
  ELSE
  LET st3 == Adv(s, st2)
      st4 == IF IsBreak(p) THEN Err(st3, "newline", p) ELSE st3
      st5 == IF Code[c] > Code[p] THEN Err(st4, "range-order", p) ELSE st4 IN
  ClassLoop(s, st5, chars + 2, fuel - 1)

\* one call of validateNext: returns [st, cont]
ValidateNext(s, st0, isRef) ==
  LET c == Peek(s, st0)
      st == Adv(s, st0)
      \* tail of validateNext: v.prec = prec; trailing check; continue?
      Fin(stx, cx, prec) ==
        LET sty == [stx EXCEPT !.prec = prec] IN
        IF Peek(s, sty) = "eof"
          THEN [st |-> IF isRef /\ cx \in {"slash", "dot"} THEN Err(sty, "ref-end", cx) ELSE sty,
                cont |-> FALSE]
          ELSE [st |-> sty, cont |-> TRUE]
  IN
  CASE c = "bs" ->
         LET p == Peek(s, st) IN
         IF p \in EscRefBad THEN
            LET st2 == Adv(s, st) IN
            Fin(IF isRef THEN Err(st2, "ref-char", p) ELSE st2, p, TRUE)
         ELSE IF p \in EscOK THEN Fin(Adv(s, st), p, TRUE)
         ELSE IF isRef THEN Fin(Adv(s, Err(st, "ref-escape", "bs")), p, TRUE)
         ELSE Fin(st, "bs", TRUE)
    [] c = "q" -> Fin(IF ~st.prec THEN Err(st, "quant", "q") ELSE st, c, FALSE)
    [] c = "plus" -> Fin(IF ~st.prec THEN Err(st, "quant", "plus") ELSE st, c, FALSE)
    [] c = "star" -> Fin(st, c, FALSE)
    [] c = "lb" ->
         IF Peek(s, st) = "rb" THEN Fin(Err(Adv(s, st), "class-empty", "rb"), "rb", TRUE)
         ELSE LET r == ClassLoop(s, st, 0, Len(s) + 2) IN
              IF r.abort THEN [st |-> r.st, cont |-> FALSE] ELSE Fin(r.st, r.c, TRUE)
    [] c = "cr" ->
         IF Peek(s, st) = "nl" THEN Fin(Err(Adv(s, st), "newline", "nl"), "nl", TRUE)
         ELSE Fin(Err(st, "newline", "cr"), c, TRUE)
    [] c = "nl" -> Fin(Err(st, "newline", "nl"), c, TRUE)
    [] c \in RefForbidden -> Fin(IF isRef THEN Err(st, "ref-char", c) ELSE st, c, TRUE)
    [] OTHER -> Fin(st, c, TRUE)

RECURSIVE Loop(_, _, _, _)
Loop(s, st, isRef, fuel) ==
  IF fuel = 0 THEN Err(st, "diverged", "none")
  ELSE LET r == ValidateNext(s, st, isRef) IN
       IF r.cont THEN Loop(s, r.st, isRef, fuel - 1) ELSE r.st

St0 == [i |-> 0, nl |-> FALSE, prec |-> FALSE, errs |-> <<>>]

Validate(s, isRef) ==
  IF s = <<>> THEN <<[cls |-> "empty", col |-> 0, ch |-> "none"]>>
  ELSE
  LET first == s[1] IN
  IF first = "slash" /\ isRef THEN
       LET st == [Err(Adv(s, St0), "ref-start-slash", "slash") EXCEPT !.prec = TRUE] IN
       Loop(s, st, isRef, Len(s) + 2).errs
  ELSE IF first = "bang" THEN
       LET st == Adv(s, St0) IN
       IF Peek(s, st) = "eof" THEN Err(st, "bang-alone", "bang").errs
       ELSE Loop(s, st, isRef, Len(s) + 2).errs
  ELSE Loop(s, St0, isRef, Len(s) + 2).errs

ScanRef(s) == Validate(s, TRUE)
ScanPath(s) ==
  IF s # <<>> /\ s[1] = "sp" THEN <<[cls |-> "path-lead-space", col |-> 0, ch |-> "none"]>>
  ELSE IF s # <<>> /\ s[Len(s)] = "sp" THEN <<[cls |-> "path-trail-space", col |-> Len(s), ch |-> "none"]>>
  ELSE Validate(s, FALSE)

----------------------------------------------------------------------------
(* Declarative layer: split the body into elements, then state the rules on the elements. *)

\* members of a class starting at j (just after '['): [n |-> members, r |-> ranges, ok, end |-> index of ']' or 0]
RECURSIVE Members(_, _, _, _, _)
Members(s, j, n, r, ok) ==
  IF j > Len(s) THEN [n |-> n, r |-> r, ok |-> FALSE, end |-> 0]               \* missing ]
  ELSE IF s[j] = "rb" THEN [n |-> n, r |-> r, ok |-> ok, end |-> j]
  ELSE IF j + 1 <= Len(s) /\ s[j + 1] = "dash" THEN
         IF j + 2 > Len(s) THEN [n |-> n, r |-> r, ok |-> FALSE, end |-> 0]
         ELSE IF s[j + 2] = "rb" THEN [n |-> n, r |-> r + 1, ok |-> FALSE, end |-> j + 2]  \* "x-]"
         ELSE Members(s, j + 3, n, r + 1, ok /\ Code[s[j]] <= Code[s[j + 2]])
  ELSE Members(s, j + 1, n + 1, r, ok)

\* Elems(s, i): the elements of s from position i
RECURSIVE Elems(_, _)
Elems(s, i) ==
  IF i > Len(s) THEN <<>>
  ELSE
  LET c == s[i] IN
  IF c = "bs" THEN
       IF i + 1 <= Len(s) /\ s[i + 1] \in (EscRefBad \cup EscOK)
         THEN <<[k |-> "esc", ch |-> s[i + 1]]>> \o Elems(s, i + 2)
         ELSE <<[k |-> "bs1", ch |-> c]>> \o Elems(s, i + 1)
  ELSE IF c = "star" THEN <<[k |-> "star", ch |-> c]>> \o Elems(s, i + 1)
  ELSE IF c \in {"q", "plus"} THEN <<[k |-> "quant", ch |-> c]>> \o Elems(s, i + 1)
  ELSE IF c = "lb" THEN
       IF i + 1 <= Len(s) /\ s[i + 1] = "rb" THEN <<[k |-> "badclass", ch |-> c]>> \o Elems(s, i + 2)
       ELSE LET m == Members(s, i + 1, 0, 0, TRUE) IN
            IF m.end = 0 THEN <<[k |-> "badclass", ch |-> c]>>
            ELSE <<[k |-> IF m.ok /\ (m.n + m.r >= 2 \/ m.r >= 1) THEN "class" ELSE "badclass", ch |-> c]>>
                 \o Elems(s, m.end + 1)
  ELSE <<[k |-> "ord", ch |-> c]>> \o Elems(s, i + 1)

Atoms == {"ord", "esc", "class"}

WF(s, isRef) ==
  /\ s # <<>>
  /\ \A i \in DOMAIN s : s[i] \notin LineBreaks
  /\ ~HasIllegal(s)
  /\ LET body == IF s[1] = "bang" THEN Tail(s) ELSE s
         es == Elems(body, 1) IN
     /\ body # <<>>
     /\ \A k \in DOMAIN es :
          /\ es[k].k # "badclass"
          /\ es[k].k = "quant" => k > 1 /\ es[k - 1].k \in (Atoms \cup {"bs1"})
          /\ isRef => /\ es[k].k # "bs1"
                      /\ es[k].k = "esc" => es[k].ch \notin EscRefBad
                      /\ es[k].k = "ord" => es[k].ch \notin RefForbidden
  /\ isRef => s[1] # "slash" /\ s[Len(s)] \notin {"slash", "dot"}
  /\ ~isRef => s[1] # "sp" /\ s[Len(s)] # "sp"

----------------------------------------------------------------------------
(* The generator state machine: all strings over Alphabet up to MaxLen.  `tc` is the test vector
   handed to the conformance harness: the string and the predicted observable, as one JSON text. *)
VARIABLES s, tc
vars == <<s, tc>>

Expected(t) == [ref |-> ScanRef(t), path |-> ScanPath(t)]
Vector(t) == ToJson([s |-> t, ref |-> ScanRef(t), path |-> ScanPath(t)])

Init == s = <<>> /\ tc = Vector(<<>>)
Next == /\ Len(s) < MaxLen
        /\ \E c \in Alphabet : s' = Append(s, c)
        /\ tc' = Vector(s')
Spec == Init /\ [][Next]_vars

exp == Expected(s)
VerdictRef == (exp.ref = <<>>) <=> WF(s, TRUE)
VerdictPath == (exp.path = <<>>) <=> WF(s, FALSE)
RefImpliesPath == (exp.ref = <<>>) => (exp.path = <<>>)
DeclRefImpliesPath == WF(s, TRUE) => WF(s, FALSE)
Terminates == \A e \in (Range(exp.ref) \cup Range(exp.path)) : e.cls # "diverged"
\* what the property demands of one reported error e for the pattern t
ErrOKFor(t, e) ==
  IF e.cls = "scan-error" THEN TRUE      \* where the scanner places its own error is not constrained
  ELSE
  /\ e.col \in 0 .. Len(t)
  /\ e.col = 0 => \/ e.cls \in {"empty", "path-lead-space"}
                  \/ \E i \in DOMAIN t : t[i] = "nl"
  /\ (e.col > 0 /\ e.ch \notin {"none", "eof"}) => t[e.col] = e.ch
  /\ e.ch = "eof" => (e.col = Len(t) \/ (e.col = 0 /\ \E i \in DOMAIN t : t[i] = "nl"))
Columns == \A e \in (Range(exp.ref) \cup Range(exp.path)) : ErrOKFor(s, e)
=============================================================================
