------------------------------- MODULE Robust -------------------------------
(* C01 - no input makes actionlint panic, crash or hang.

   DESIGN LAYER (checked by TLC, cfg Robust_total): the handling of a YAML node of kind nk with explicit
   tag g at a schema position of type t is a TOTAL function
        workflow channel (hand-written parser, parse.go):   HandlingW(t, nk, g) \in {"diag", "any"}
        decoder channels (yaml.v3 decoding into Go types):  HandlingD(ch, t, nk)  \in {"diag", "fatal", "any"}
   written as CASE expressions WITHOUT an OTHER arm: TLC fails if one (position type, kind, tag)
   combination has no defined handling (invariant Total quantifies over every type occurring in the four
   channel schemas x NodeKinds x AllTags).  "diag" = at least one diagnostic is predicted (node-kind mismatch,
   tag not accepted by a typed scalar), "fatal" = exit status 3 (configuration error), "any" = no prediction
   beyond Allowed(channel).  Outcome classes: "clean" (exit 0), "diag" (exit 1), "fatal" (exit 3).

   GENERATOR (cfg Robust_quick / Robust_thorough): walks every node of every base document of every channel
   (Schema.tla bases for the workflow channel; B2 as the local reusable workflow; action metadata and
   actionlint.yaml bases defined here) and emits, per node, the C01 mutation space
        node kind  scalar | sequence | mapping | alias to an anchored node | anchored node | merge key `<<`
        x tag      none | !!str !!int !!float !!bool !!null !!binary !!timestamp | custom
        x value    exemplar of the scalar domain and its structural mutations (empty, every prefix / suffix at token
                   boundaries, doubled token, each special character injected), number specials, `${{`-fragments over
                   the lexer alphabet, very long repetition, nesting depth
   `tc` = JSON vector: edit script over the base (render.go DocOps with sentinel scalars), the fragments that
   replace the sentinels, decorations (tag / anchor put in front of an existing node), and the prediction
   exp \in {"diag","fatal","any"} with the allowed outcome set of the channel.
   A value is a sequence of TOKENS; tokens starting with "@@" are symbolic (NUL, invalid bytes are not expressible
   in TLA+ strings); the harness has the table. *)
EXTENDS Schema

CONSTANTS Chans,       \* subset of {"workflow", "action", "reusable", "config"}
          WfBases,     \* indices of Schema!Bases walked on the workflow channel
          MutKinds,    \* subset of AllMutKinds
          Tags,        \* explicit tags used by the generator (subset of AllTags \ {"none"})
          Depths,      \* nesting depths
          LongReps,    \* repetition counts of the long scalars
          ExprDepths,  \* nesting depths of the expression shapes
          ChainDepths, \* lengths of the merge / alias chains
          CollTags,    \* tags put on collections of the decoder channels (subset of AllCollTags)
          RecogAll,    \* recogniser-derived expression texts at every scalar position (FALSE: first scalar of each domain)
          ExprLen      \* `${{`-fragments: all sequences over ExprAlpha up to this length (at one position per domain)

AllChans == {"workflow", "action", "reusable", "config"}
AllMutKinds == {"scalar", "seq", "map", "alias", "anchored", "tagged", "merge", "key", "nest", "long", "expr", "root", "recog", "cycle", "multi", "depth", "mbyte", "graph"}
AllTags == {"none", "!!str", "!!int", "!!float", "!!bool", "!!null", "!!binary", "!!timestamp", "!verif"}
Outcomes == {"clean", "diag", "fatal"}
\* what the PROPERTY allows on every channel, and what the DESIGN produces per channel (narrower; a difference
\* between the two is model drift, never a violation)
PropAllowed == Outcomes
Allowed(c) == IF c = "config" THEN {"clean", "diag", "fatal"} ELSE {"clean", "diag"}
TimeLimitMs == 2000

Front(s) == SubSeq(s, 1, Len(s) - 1)

----------------------------------------------------------------------------
(* Channel schemas in the vocabulary of Schema.tla.  Decoder channels: dom "str" = decoded into a Go string,
   "ign" = the field is not decoded at all (no prediction), "regex", "globkey". *)
St == Sc("str", <<"decoded">>)
Ig == Sc("ign", <<>>)
IgMap(sec) == Mp(sec, TRUE, TRUE, <<>>, RawT, "ign", <<>>, "node")

AInputT == Mp("action-input", TRUE, TRUE,
              << F("description", Ig), F("required", Sc("bool", <<"decoded">>)), F("default", St),
                 F("deprecationMessage", Ig) >>, None, "", <<>>, "node")
AOutputT == Mp("ign-output", TRUE, TRUE, << F("description", Ig), F("value", Ig) >>, None, "", <<>>, "node")
ARunsT ==
  Mp("action-runs", TRUE, TRUE,
     << F("using", St), F("main", St), F("pre", St), F("pre-if", St), F("post", St), F("post-if", St),
        F("steps", Sq("action-steps", RawT, TRUE)), F("image", St), F("pre-entrypoint", St), F("entrypoint", St),
        F("post-entrypoint", St), F("args", Sq("action-args", RawT, TRUE)), F("env", IgMap("action-env")) >>,
     None, "", <<>>, "node")
ActionRoot ==
  Mp("action", TRUE, TRUE,
     << F("name", St), F("author", Ig), F("description", St),
        F("inputs", Mp("action-inputs", FALSE, TRUE, <<>>, AInputT, "name", <<>>, "node")),
        F("outputs", Mp("action-outputs", FALSE, TRUE, <<>>, AOutputT, "name", <<>>, "node")),
        F("runs", ARunsT),
        F("branding", Mp("action-branding", TRUE, TRUE, << F("icon", St), F("color", St) >>, None, "", <<>>, "node")) >>,
     None, "", <<>>, "doc")

ConfigRoot ==
  Mp("config", TRUE, TRUE,
     << F("self-hosted-runner", Mp("self-hosted-runner", TRUE, TRUE, << F("labels", Sq("labels", St, TRUE)) >>,
                                   None, "", <<>>, "node")),
        F("config-variables", Sq("config-variables", St, TRUE)),
        F("paths", Mp("paths", FALSE, TRUE, <<>>,
                      Mp("path-config", TRUE, TRUE, << F("ignore", Sq("ignore", Sc("regex", <<"decoded">>), TRUE)) >>,
                         None, "", <<>>, "node"),
                      "globkey", <<>>, "node")) >>,
     None, "", <<>>, "doc")

\* ---- base documents of the three file channels and the fixed workflows that reach them
A1 == M(<< <<"name", S("Greeter")>>, <<"author", S("me")>>, <<"description", S("Says hello")>>,
           <<"inputs", M(<< <<"who", M(<< <<"description", S("Who")>>, <<"required", S("true")>>,
                                         <<"default", S("world")>> >>)>>,
                            <<"opt", M(<< <<"description", S("Optional")>>, <<"required", S("false")>>,
                                         <<"deprecationMessage", S("gone")>> >>)>> >>)>>,
           <<"outputs", M(<< <<"greeting", M(<< <<"description", S("Text")>>,
                                               <<"value", E("steps.s.outputs.g")>> >>)>> >>)>>,
           <<"runs", M(<< <<"using", S("composite")>>,
                          <<"steps", Q(<< M(<< <<"id", S("s")>>, <<"run", S("echo hi")>>, <<"shell", S("bash")>> >>),
                                          M(<< <<"uses", S("actions/checkout@v4")>>,
                                               <<"with", M(<< <<"ref", S("main")>> >>)>> >>) >>)>> >>)>>,
           <<"branding", M(<< <<"icon", S("activity")>>, <<"color", S("blue")>> >>)>> >>)
A2 == M(<< <<"name", S("JS")>>, <<"description", S("JavaScript action")>>,
           <<"inputs", M(<< <<"who", M(<< <<"description", S("Who")>>, <<"default", S("x")>> >>)>> >>)>>,
           <<"runs", M(<< <<"using", S("node20")>>, <<"main", S("index.js")>>, <<"pre", S("pre.js")>>,
                          <<"pre-if", S("always()")>>, <<"post", S("post.js")>>, <<"post-if", S("success()")>> >>)>> >>)
A3 == M(<< <<"name", S("Docker")>>, <<"description", S("Docker action")>>,
           <<"inputs", M(<< <<"who", M(<< <<"description", S("Who")>>, <<"required", S("false")>> >>)>> >>)>>,
           <<"runs", M(<< <<"using", S("docker")>>, <<"image", S("Dockerfile")>>,
                          <<"pre-entrypoint", S("pre.sh")>>, <<"entrypoint", S("main.sh")>>,
                          <<"post-entrypoint", S("post.sh")>>,
                          <<"args", Q(<<S("--who"), E("inputs.who")>>)>>,
                          <<"env", M(<< <<"LEVEL", S("debug")>>, <<"N", S("1")>> >>)>> >>)>> >>)
ActionCaller ==
  M(<< <<"on", S("push")>>,
       <<"jobs", M(<< <<"j", M(<< <<"runs-on", S("ubuntu-latest")>>,
          <<"steps", Q(<< M(<< <<"uses", S("./act")>>, <<"with", M(<< <<"who", S("me")>> >>)>> >>),
                          M(<< <<"id", S("again")>>, <<"uses", S("./act")>>, <<"with", M(<< <<"who", S("you")>> >>)>> >>),
                          M(<< <<"run", S("echo ${{ steps.again.outputs.greeting }}")>> >>) >>)>> >>)>> >>)>> >>)

CalleeUses == "./.github/workflows/callee.yml"
ReusableCaller ==
  M(<< <<"on", S("push")>>,
       <<"jobs", M(<<
          <<"c", M(<< <<"uses", S(CalleeUses)>>, <<"with", M(<< <<"target", S("x")>>, <<"count", S("1")>> >>)>>,
                      <<"secrets", M(<< <<"key", E("secrets.K")>> >>)>> >>)>>,
          <<"c2", M(<< <<"needs", S("c")>>, <<"uses", S(CalleeUses)>>, <<"with", M(<< <<"count", S("2")>> >>)>>,
                       <<"secrets", S("inherit")>> >>)>>,
          <<"after", M(<< <<"needs", S("c")>>, <<"runs-on", S("ubuntu-latest")>>,
                          <<"steps", Q(<< M(<< <<"run", S("echo ${{ needs.c.outputs.result }}")>> >>) >>)>> >>)>> >>)>> >>)

C1 == M(<< <<"self-hosted-runner", M(<< <<"labels", Q(<<S("linux-arm"), S("gpu-*")>>)>> >>)>>,
           <<"config-variables", Q(<<S("DEPLOY_ENV"), S("REGION")>>)>>,
           <<"paths", M(<< <<".github/workflows/**/*.yml", M(<< <<"ignore", Q(<<SQ("shellcheck reported issue .+"),
                                                                               SQ("unknown-[a-z]*")>>)>> >>)>>,
                           <<".github/workflows/release.yaml", M(<< <<"ignore", Q(<<>>)>> >>)>> >>)>> >>)
ConfigWorkflow ==
  M(<< <<"on", S("push")>>,
       <<"jobs", M(<< <<"j", M(<< <<"runs-on", Q(<<S("self-hosted"), S("linux-arm")>>)>>,
          <<"steps", Q(<< M(<< <<"run", S("echo ${{ vars.DEPLOY_ENV }}")>> >>) >>)>> >>)>> >>)>> >>)

\* a called workflow WITHOUT workflow_call: the search for the event runs to the end of `on`
NotReusable ==
  M(<< <<"on", M(<< <<"push", M(<< <<"branches", Q(<<S("main")>>)>> >>)>>, <<"workflow_dispatch", Null>> >>)>>,
       <<"jobs", M(<< <<"j", M(<< <<"runs-on", S("ubuntu-latest")>>,
                                  <<"steps", Q(<< M(<< <<"run", S("echo j")>> >>) >>)>> >>)>> >>)>> >>)

\* the same with one diagnostic, so that the `ignore` patterns of the configuration are applied to something
ConfigDirty ==
  M(<< <<"on", S("push")>>,
       <<"jobs", M(<< <<"j", M(<< <<"runs-on", Q(<<S("self-hosted"), S("linux-arm")>>)>>,
          <<"steps", Q(<< M(<< <<"run", S("echo ${{ nosuchcontext.x }}")>> >>) >>)>> >>)>> >>)>> >>)

ChanDocs(c) == CASE c = "workflow" -> Bases
                 [] c = "reusable" -> <<B2, NotReusable>>
                 [] c = "action" -> <<A1, A2, A3>>
                 [] c = "config" -> <<C1>>
ChanRoot(c) == CASE c \in {"workflow", "reusable"} -> Root
                 [] c = "action" -> ActionRoot
                 [] c = "config" -> ConfigRoot
BaseIdx(c) == IF c = "workflow" THEN WfBases ELSE DOMAIN ChanDocs(c)
ChanBasesTyped == \A c \in AllChans : \A i \in DOMAIN ChanDocs(c) : Typed(ChanRoot(c), ChanDocs(c)[i])
CallersTyped == Typed(Root, ActionCaller) /\ Typed(Root, ReusableCaller) /\ Typed(Root, ConfigWorkflow) /\ Typed(Root, ConfigDirty)

----------------------------------------------------------------------------
(* Handling: the design's case analysis *)
NodeKinds == {"s", "null", "q", "m", "alias"}

RECURSIVE AcceptsW(_, _)
AcceptsW(t, nk) ==
  CASE t.k = "none" -> FALSE
    [] t.k = "scalar" -> nk \in {"s", "null"}
    [] t.k = "seq" -> nk = "q"
    [] t.k = "map" -> (nk = "m") \/ (nk = "null" /\ t.emptyOk)
    [] t.k = "raw" -> nk \in {"s", "null", "q", "m"}
    [] t.k = "alt" -> CASE nk \in {"s", "null"} -> AcceptsW(t.s, nk)
                        [] nk = "q" -> AcceptsW(t.q, nk)
                        [] nk = "m" -> AcceptsW(t.m, nk)
                        [] nk = "alias" -> FALSE      \* parse.go never follows yaml.Node.Alias

TypedDoms == {"bool", "int", "float"}
TagsOK(dom) == CASE dom = "bool" -> {"none", "!!bool", "!!str"}
                 [] dom = "int" -> {"none", "!!int", "!!str"}
                 [] dom = "float" -> {"none", "!!float", "!!int", "!!str"}
ScalarAlt(t) == IF t.k = "alt" THEN t.s ELSE t

HandlingW(t, nk, g) ==
  IF ~AcceptsW(t, nk) THEN "diag"
  ELSE IF nk = "s" /\ ScalarAlt(t).k = "scalar" /\ ScalarAlt(t).dom \in TypedDoms /\ g \notin TagsOK(ScalarAlt(t).dom)
       THEN "diag" ELSE "any"

\* yaml.v3 decoding: aliases and merge keys are resolved by the decoder (nk is the kind of the alias TARGET),
\* null decodes into the zero value of every type
Ignored(t) == (t.k = "scalar" /\ t.dom = "ign") \/ (t.k = "map" /\ t.kslot = "ign") \/ (t.k = "map" /\ t.sec = "ign-output")
RECURSIVE AcceptsD(_, _)
AcceptsD(t, nk) ==
  CASE nk = "null" -> TRUE
    [] nk = "alias" -> FALSE      \* alias to a node that is not defined: YAML error
    [] nk \in {"s", "q", "m"} ->
         CASE t.k = "none" -> FALSE
           [] t.k = "scalar" -> nk = "s"
           [] t.k = "seq" -> nk = "q"
           [] t.k = "map" -> nk = "m"
           [] t.k = "raw" -> TRUE
           [] t.k = "alt" -> CASE nk = "s" -> AcceptsD(t.s, nk) [] nk = "q" -> AcceptsD(t.q, nk) [] nk = "m" -> AcceptsD(t.m, nk)
Bad(c) == IF c = "config" THEN "fatal" ELSE "diag"
\* of a local reusable workflow only on.workflow_call is decoded (reusable_workflow.go)
DecodedReusable == { <<"on", "workflow_call", "inputs">>, <<"on", "workflow_call", "secrets">>,
                     <<"on", "workflow_call", "inputs", "*">>, <<"on", "workflow_call", "secrets", "*">>,
                     <<"on", "workflow_call", "inputs", "*", "type">> }
HandlingD(c, t, nk, site) ==
  IF c = "reusable" /\ site \notin DecodedReusable THEN "any"
  ELSE IF Ignored(t) THEN "any"
  ELSE IF ~AcceptsD(t, nk) THEN Bad(c) ELSE "any"

Handling(c, t, nk, g, site) == IF c = "workflow" THEN HandlingW(t, nk, g) ELSE HandlingD(c, t, nk, site)

\* every (unresolved) type occurring in a schema
RECURSIVE TypesOf(_)
TypesOf(t) ==
  CASE t.k \in {"none", "raw", "scalar"} -> {t}
    [] t.k = "seq" -> {t} \cup TypesOf(t.elem)
    [] t.k = "alt" -> {t} \cup TypesOf(t.s) \cup TypesOf(t.q) \cup TypesOf(t.m)
    [] t.k = "map" -> {t} \cup UNION {TypesOf(t.fields[i].t) : i \in DOMAIN t.fields} \cup TypesOf(t.open)
Total ==
  /\ \A t \in TypesOf(Root), nk \in NodeKinds, g \in AllTags : HandlingW(t, nk, g) \in {"diag", "any"}
  /\ \A c \in {"action", "config"} : \A t \in TypesOf(ChanRoot(c)), nk \in NodeKinds :
        HandlingD(c, t, nk, <<>>) \in {"diag", "fatal", "any"} /\ HandlingD(c, t, nk, <<>>) \in Allowed(c) \cup {"any"}
  /\ \A t \in TypesOf(Root), nk \in NodeKinds, s \in DecodedReusable \cup {<<>>} :
        HandlingD("reusable", t, nk, s) \in {"diag", "any"}
  \* an alias is never silently accepted by the hand-written parser
  /\ \A t \in TypesOf(Root), g \in AllTags : HandlingW(t, "alias", g) = "diag"
  /\ \A c \in AllChans : Allowed(c) \subseteq PropAllowed

----------------------------------------------------------------------------
(* Fragments: the YAML nodes that replace a sentinel scalar.  One record shape for all kinds. *)
Frag(k, tag, anchor, toks, e, p, n) == [k |-> k, tag |-> tag, anchor |-> anchor, toks |-> toks, e |-> e, p |-> p, n |-> n]
FS(tag, toks) == Frag("s", tag, "", toks, <<>>, <<>>, 0)
FW(text) == FS("none", <<text>>)
FQ(tag, es) == Frag("q", tag, "", <<>>, es, <<>>, 0)
FM(tag, ps) == Frag("m", tag, "", <<>>, <<>>, ps, 0)                 \* ps: sequence of <<key fragment, value fragment>>
FAlias(name, target) == Frag("a", "none", name, <<target>>, <<>>, <<>>, 0)   \* target: kind of the anchored node
FNest(kind, n) == Frag("nest", "none", "", <<kind>>, <<>>, <<>>, n)
FRep(tag, tok, n) == Frag("rep", tag, "", <<tok>>, <<>>, <<>>, n)
\* scalar whose text is a letter-case transform of the joined tokens: c \in {"upper", "swap", "title"}
FX(c, toks) == Frag("sx", "none", "", <<c>> \o toks, <<>>, <<>>, 0)
Anch(f, name) == [f EXCEPT !.anchor = name]

NullLike(f) == f.k = "s" /\ (f.tag = "!!null" \/ (f.tag = "none" /\ f.toks \in {<<"~">>, <<"null">>, <<"Null">>, <<"NULL">>}))
KindOf(f) == CASE f.k = "s" -> IF NullLike(f) THEN "null" ELSE "s"
               [] f.k \in {"rep", "sx", "px"} -> "s"
               [] f.k = "chain" -> "m"
               [] f.k = "q" -> "q"
               [] f.k = "m" -> "m"
               [] f.k = "a" -> "alias"
               [] f.k = "nest" -> IF f.toks[1] = "m" THEN "m" ELSE "q"
\* what a decoder sees: the target of the alias
KindD(f) == IF f.k = "a" THEN f.toks[1] ELSE KindOf(f)

----------------------------------------------------------------------------
(* Value classes *)
Specials == << "$", "{", "}", "'", "\"", "\\", "\n", "\t", " ", "#", ":", ": ", " #", "*", "&", "!", "%", "@", "`", ",",
               "[", "]", "|", ">", "-", "?", "=", "<<", "~", "@@NUL", "@@BEL", "@@ESC", "@@DEL", "@@NEL", "@@LS", "@@BOM",
               "@@FFFD", "@@EMOJI", "@@WIDE", "@@COMB", "@@CR", "@@CRLF" >>

\* the exemplar of a scalar domain as tokens
Exemplar(dom) ==
  CASE dom \in {"template", "raw", "str", "ign"} -> <<"pre ", "${{", " ", "github", ".", "sha", " ", "}}", " post">>
    [] dom = "script" -> <<"echo ", "${{", " github.actor ", "}}", "\n", "exit ", "1", "\n">>
    [] dom = "ifcond" -> <<"github.ref", " == ", "'", "x", "'", " && ", "always", "(", ")">>
    [] dom = "expr" -> <<"${{", " ", "fromJSON", "(", "'[1]'", ")", " ", "}}">>
    [] dom = "bool" -> <<"tr", "ue">>
    [] dom = "int" -> <<"1", "0">>
    [] dom = "float" -> <<"-", "1", ".", "5", "e", "+", "3">>
    [] dom = "event-name" -> <<"pull", "_", "request">>
    [] dom = "input-type" -> <<"cho", "ice">>
    [] dom = "permission" -> <<"read", "-", "all">>
    [] dom = "inherit" -> <<"inh", "erit">>
    [] dom = "uses" -> <<"actions", "/", "checkout", "/", "sub", "@", "v4">>
    [] dom = "call-uses" -> <<"octo", "/", "repo", "/", ".github/workflows", "/", "b.yml", "@", "v1">>
    [] dom = "shell" -> <<"bash", " ", "-e", " ", "{0}">>
    [] dom = "id" -> <<"a", "_", "b", "-", "1">>
    [] dom = "needs-id" -> <<"pr", "ep">>
    [] dom = "cron" -> <<"*/5", " ", "0-3", " ", "1,2", " ", "JAN", " ", "MON-FRI">>
    [] dom = "glob-ref" -> <<"release", "/", "**", "/", "v[0-9]", "+", "!">>
    [] dom = "glob-path" -> <<"!", "src", "/", "**", "/", "*.{a,b}", "?">>
    [] dom = "regex" -> <<"^", "(", "a", "|", "b", ")", "+", "[", "c", "]", "$">>
AllDoms == Domains \cup {"str", "ign", "regex"}

\* whole values tried at every scalar position whatever its domain
NumberSpecials == << "nan", ".nan", ".NaN", "inf", ".inf", "-.inf", "-0", "+0", "0x", "0x10", "0o17", "0b1", "1e999", "-1e999",
                     "1e-999", "1_000", "9223372036854775808", "-9223372036854775809", "99999999999999999999999999999999",
                     "0.1.2", "1e", ".", "-", "+", "1:30" >>
WordSpecials == << "", " ", "true", "True", "yes", "on", "~", "null", "Null", "<<", "=", "2001-12-14", "2001-12-14t21:59:43.10-05:00",
                   "${{", "}}", "${{ }}", "${{ 1 }}", "${{ a.. }}", "${{ '", "${{ github.sha }} ${{", "$", "{0}", "%s%d%!",
                   "./", "../..", "/", "docker://", "a@", "@v1", "TZ=UTC", "CRON_TZ=UTC * * * * *", "@every 1h", "* * * * * *",
                   "[", "**", "\\", "a\\", "[a-", "(", "(?P<n", "\n", "a\nb", "- a", "a: b", "# c", "@@NUL", "@@INVALID", "@@FFFD@@EMOJI" >>
\* values crossed with every explicit tag
CrossVals == << "", "x", "nan", "true", "1", "1.5", "${{ 1 }}", "~", "2001-12-14", "aGVsbG8=", "not base64!" >>

SeqOf(s) == {s[i] : i \in DOMAIN s}
Prefixes(x) == {SubSeq(x, 1, i) : i \in 0 .. Len(x) - 1}
Suffixes(x) == {SubSeq(x, i, Len(x)) : i \in 2 .. Len(x)}
Doubled(x) == {SubSeq(x, 1, i) \o SubSeq(x, i, Len(x)) : i \in 1 .. Len(x)}
\* special number j is put in front of token ((j-1) mod (Len+1)) + 1: every boundary gets several specials
Injected(x) == {LET i == ((j - 1) % (Len(x) + 1)) + 1 IN SubSeq(x, 1, i - 1) \o <<Specials[j]>> \o SubSeq(x, i, Len(x)) : j \in DOMAIN Specials}
Structural(x) == Prefixes(x) \cup Suffixes(x) \cup Doubled(x) \cup Injected(x) \cup {x}
ValueClass(dom) == Structural(Exemplar(dom)) \cup {<<w>> : w \in SeqOf(NumberSpecials) \cup SeqOf(WordSpecials)}

\* `${{`-fragments over the lexer alphabet
ExprAlpha == <<"a", ".", "(", ")", "[", "]", "'", "!", "=", "<", "&", "|", ",", "1", "*", " ", "}}", "${{", "0x", "e">>
RECURSIVE ExprSeqs(_)
ExprSeqs(n) == IF n = 0 THEN {<<>>} ELSE LET r == ExprSeqs(n - 1) IN r \cup {Append(x, ExprAlpha[j]) : x \in {y \in r : Len(y) = n - 1}, j \in DOMAIN ExprAlpha}
ExprFrags == {<<"${{", " ">> \o x \o <<" ", "}}">> : x \in ExprSeqs(ExprLen)} \cup {<<"${{">> \o x : x \in ExprSeqs(ExprLen)}

\* collection fragments
SeqFrags(g) == { FQ(g, <<>>), FQ(g, <<FW("x")>>), FQ(g, <<FW("x"), FW("x")>>), FQ(g, <<FQ("none", <<FW("x")>>)>>),
                 FQ(g, <<FM("none", << <<FW("a"), FW("b")>> >>)>>), FQ(g, <<FW("~")>>), FQ(g, <<FW("${{ a.. }}")>>),
                 FQ(g, <<FS("!!float", <<"nan">>), FS("!!int", <<"x">>), FS("!!bool", <<"">>)>>),
                 FQ(g, <<FW("~"), FQ("none", <<FW("~")>>), FM("none", << <<FW("a"), FW("~")>> >>)>>),
                 FQ(g, <<FQ("!!null", <<FW("~")>>)>>), FQ(g, <<FM("!!null", << <<FW("a"), FW("~")>> >>)>>) }
MapFrags(g) == { FM(g, <<>>), FM(g, << <<FW("a"), FW("b")>> >>), FM(g, << <<FW("a"), FW("b")>>, <<FW("a"), FW("c")>> >>),
                 FM(g, << <<FW("a"), FQ("none", <<FW("x")>>)>> >>), FM(g, << <<FW("a"), FM("none", << <<FW("b"), FW("c")>> >>)>> >>),
                 FM(g, << <<FQ("none", <<FW("k")>>), FW("v")>> >>), FM(g, << <<FM("none", << <<FW("k"), FW("w")>> >>), FW("v")>> >>),
                 FM(g, << <<FW("~"), FW("v")>> >>), FM(g, << <<FS("none", <<"">>), FW("v")>> >>), FM(g, << <<FS("!!int", <<"1">>), FW("~")>> >>),
                 FM(g, << <<FW("cron"), FW("TZ=UTC")>> >>), FM(g, << <<FW("run"), FW("${{ a.. }}")>> >>),
                 FM(g, << <<FW("<<"), FM("none", << <<FW("a"), FW("b")>> >>)>> >>),
                 FM(g, << <<FW("a"), FW("~")>> >>), FM(g, << <<FW("required"), FW("~")>> >>), FM(g, << <<FW("a"), FQ("none", <<FW("~")>>)>> >>),
                 FM(g, << <<FW("a"), FW("~")>>, <<FW("b"), FM("none", << <<FW("c"), FW("~")>> >>)>> >>),
                 FM(g, << <<FW("a"), FM("!!null", << <<FW("b"), FW("~")>> >>)>> >>),
                 FM(g, << <<FW("a"), FM("none", << <<FW("b"), FM("!!null", << <<FW("c"), FW("~")>> >>)>> >>)>> >>) }
\* explicit tags on collections: go-yaml skips UnmarshalYAML for a node tagged !!null and decodes null children into
\* nil pointers; every core tag is tried on every collection of the decoder channels
AllCollTags == {"none", "!!null", "!!str", "!!map", "!!seq", "!!int", "!!bool", "!!float", "!!binary", "!!set", "!!omap", "!verif"}
AliasTargets == << FW("x"), FW("${{ a.. }}"), FQ("none", <<FW("x")>>), FM("none", << <<FW("a"), FW("b")>> >>),
                   FM("none", << <<FW("run"), FW("echo")>> >>), FS("!!float", <<"nan">>) >>
KeyFrags == { FS("none", <<"">>), FW("~"), FW("<<"), FW("true"), FW("1"), FW("1.5"), FW("${{ a.. }}"), FW("a b"), FW("@@NUL"),
              FW("@@EMOJI"), FS("!!int", <<"1">>), FS("!!null", <<"">>), FS("!verif", <<"k">>), FS("!!binary", <<"a2V5">>),
              Anch(FW("k"), "ka"), FQ("none", <<FW("k")>>), FQ("none", <<>>), FM("none", << <<FW("k"), FW("w")>> >>),
              FM("none", <<>>), FRep("none", "k", 1100), FRep("none", "k", 70000) }
RootDocs == { <<"">>, <<"\n">>, <<"x">>, <<"~">>, <<"[a]">>, <<"[]">>, <<"{}">>, <<"*a">>, <<"&a x">>, <<"&a [*a]">>, <<"--- \n...\n">>,
              <<"--- a\n--- b\n">>, <<"!!str {}">>, <<"!!map x">>, <<"? [on]\n: push\n">>, <<"on: push\njobs: *j\n">>,
              <<"%YAML 1.1\n---\non: push\n">>, <<"%TAG ! tag:x,2000:\n--- !t\non: push\n">>, <<"@@BOM", "on: push\njobs: {}\n">>,
              <<"@@NUL">>, <<"@@INVALID">>, <<"on: push\r\njobs:\r\n  j:\r\n    runs-on: x\r\n    steps:\r\n      - run: a\r\n">>,
              <<"\t">>, <<"#">>, <<"- ">>, <<"- - - - - -">>, <<"key: |\n">>, <<"key: >-\n\n\n">>, <<"'">>, <<"\"\\x">>,
              <<"on: push\njobs:\n  j:\n    runs-on: x\n    steps:\n      - run: |\n          @@EMOJI ${{ a.. }}\n">> }

----------------------------------------------------------------------------
(* Value classes derived from the RECOGNISERS of the rules: every regular expression, prefix test, switch and
   table lookup that interprets the TEXT of a scalar (rule_*.go, expr_sema.go) contributes the texts it recognises;
   each is tried as it is and as near misses: every letter case (upper / swapped / title), truncated at every token
   boundary, with a doubled token, and with leading / trailing garbage.  A `panic("unreachable")` behind such a
   recogniser (rule_deprecated_commands.go, rule_shell_name.go, rule_events.go, expr_sema.go, expr_type.go) is
   reached by exactly these values. *)
Garbage == <<"x", " ", "::", "@", "/", "\n", "}}", "$", "{0}", ":", "-", "*", "@@NUL">>
NearMiss(x) == {x} \cup Prefixes(x) \cup Suffixes(x) \cup Doubled(x)
               \cup {Append(x, Garbage[j]) : j \in DOMAIN Garbage} \cup {<<Garbage[j]>> \o x : j \in DOMAIN Garbage}
CaseForms == {"upper", "swap", "title"}
RecogFrags(x) == {FS("none", v) : v \in NearMiss(x)} \cup {FX(c, x) : c \in CaseForms}
                 \cup {FX(c, Append(x, "x")) : c \in CaseForms} \cup {FX(c, <<"x ">> \o x \o x) : c \in CaseForms}
W(t) == <<t>>

\* rule_deprecated_commands.go: ::(save-state|set-output|set-env)\s+name=ID::\S+ | ::(add-path)::\S+
ScriptSeeds == { <<"echo ", "::", "set-output", " ", "name=", "foo", "::", "bar">>,
                 <<"echo ", "::", "save-state", " ", "name=", "foo", "::", "bar">>,
                 <<"echo ", "::", "set-env", "\t ", "name=", "_f-1", "::", "${{ github.sha }}">>,
                 <<"echo ", "::", "add-path", "::", "/bin">>,
                 <<"::", "add-path", "::", "a", "\n", "::", "set-output", " name=a::b">>,
                 <<"echo ", "${{", " github.event.issue.title ", "}}">>,
                 <<"echo ", "${{", " github.event.pull_request.head.ref ", "}}", " ", "${{", " x">> }
\* rule_action.go: ./local | docker://image:tag | owner/repo(/path)@ref, popular actions table, github-script
UsesSeeds == { <<"docker://", "alpine", ":", "3.8">>, <<"docker://", "ghcr.io/", "a/b", ":", "1", ":", "2">>, <<"docker://">>,
               <<"./", "act">>, <<"./", ".github/actions/", "x">>, <<".", "/">>, <<"..", "/", "x">>,
               <<"actions", "/", "checkout", "@", "v4">>, <<"actions", "/", "github-script", "@", "v7">>,
               <<"actions", "/", "setup-node", "/", "sub", "@", "v4">>, <<"owner", "/", "repo", "@", "0123456789abcdef0123456789abcdef01234567">>,
               <<"owner", "@", "ref">>, <<"/", "repo", "@", "ref">>, <<"owner", "/", "@", "ref">>, <<"@">>, <<"a", "/", "b", "@", "c", "@", "d">> }
\* rule_workflow_call.go: ./path(no @) | owner/repo/path@ref
CallUsesSeeds == { <<"./", ".github/workflows/", "callee.yml">>, <<"./", "x.yml", "@", "v1">>, <<"./">>, <<".", "x", "/", "y", "/", "z", "@", "r">>,
                   <<"owner", "/", "repo", "/", "path.yml", "@", "v1">>, <<"owner", "/", "repo", "@", "v1">>, <<"owner", "/", "/", "p", "@", "v">>,
                   <<"/", "r", "/", "p", "@", "v">>, <<"o", "/", "r", "/", "@", "v">>, <<"o", "/", "r", "/", "p", "@">>, <<"@", "/", "/", "@">> }
\* rule_events.go: robfig/cron specs, descriptors, time zone prefixes
CronSeeds == { <<"TZ=", "UTC", " ", "0 0", " ", "* * *">>, <<"CRON_TZ=", "Asia/Tokyo", " ", "*/5 * * * *">>, <<"@", "every", " ", "1h", "30m">>,
               <<"@", "yearly">>, <<"@", "reboot">>, <<"*/", "0", " ", "* * * *">>, <<"60", " ", "24", " ", "32", " ", "13", " ", "8">>,
               <<"1-0", " ", "* * * *">>, <<"0", "/", "0", " ", "* * * *">>, <<"?", " ", "?", " ", "L", " ", "W", " ", "#">>,
               <<"* * * * *", " ", "*">>, <<"* * * *">>, <<"0 0 31 2 *">>, <<"jan", " ", "feb", " ", "mon", " ", "JAN-DEC", " ", "SUN-SAT">>,
               <<"99999999999999999999", " ", "* * * *">>, <<"-1", " ", "* * * *">>, <<"1,", ",2", " ", "* * * *">>, <<"*", "-", "1", " ", "* * * *">> }
\* rule_shell_name.go / rule_pyflakes.go / rule_shellcheck.go: names, custom shells with {0}, "python " / "bash " / "sh " prefixes
ShellSeeds == { W("bash"), W("pwsh"), W("python"), W("sh"), W("cmd"), W("powershell"), <<"bash", " ", "{0}">>, <<"python", " ", "-u", " ", "{0}">>,
                <<"sh", " ", "-e", " ", "{0}">>, <<"{", "0", "}">>, <<"perl", " ", "{0}">>, <<"bash", " ", "--noprofile", " ", "-eo pipefail">>,
                <<"python", "3">>, <<"${{", " matrix.shell ", "}}">>, <<"cmd", " ", "/c", " ", "{0}">> }
\* glob.go: character classes, escapes, wildcards, negation
GlobSeeds == { <<"[", "a", "-", "z", "]">>, <<"[", "z", "-", "a", "]">>, <<"[", "]">>, <<"[", "!", "a", "]">>, <<"\\", "[">>, <<"a", "\\">>,
               <<"**", "/", "*", ".", "js">>, <<"!", "**", "/", "x">>, <<"!", "!">>, <<"a", "+", "?">>, <<"+">>, <<"?", "*", "+">>,
               <<"a", " ", "b">>, <<"a", "~", "^", ":", "b">>, <<"refs", "/", "heads", "/", "**">>, <<"v", "[0-9]", "+", ".", "[0-9]", "+">> }
PermSeeds == { W("read"), W("write"), W("none"), <<"read", "-", "all">>, <<"write", "-", "all">>, W("admin"), <<"read", "|", "write">> }
EventSeeds == { <<"pull", "_", "request", "_", "target">>, <<"workflow", "_", "dispatch">>, <<"repository", "_", "dispatch">>,
                <<"workflow", "_", "call">>, <<"workflow", "_", "run">>, W("schedule"), W("push"), <<"issue", "_", "comment">>,
                <<"merge", "_", "group">>, W("check_run"), W("unknown_event") }
InputTypeSeeds == { W("string"), W("number"), W("boolean"), W("choice"), W("environment"), W("bool"), W("object") }
IdSeeds == { <<"a", "-", "b", "_", "1">>, <<"_">>, <<"-", "a">>, <<"1", "a">>, <<"a", ".", "b">>, <<"a", " ", "b">>, W("build"), W("prep") }
RegexSeeds == { <<"(", "?i", ")", "a">>, <<"(", "?P<n>", "a", ")">>, <<"a", "{", "1000", "}">>, <<"a", "{", "1001", "}">>, <<"[", "[:alpha:]", "]">>,
                <<"\\", "p{Greek}">>, <<"\\", "C">>, <<"(", "?=", "a", ")">>, <<"a", "**">>, <<"\\", "1">>, <<"(", "(", "(", "a", ")", ")", ")">> }
DomSeeds(dom) ==
  CASE dom = "script" -> ScriptSeeds
    [] dom = "uses" -> UsesSeeds
    [] dom = "call-uses" -> CallUsesSeeds
    [] dom = "cron" -> CronSeeds
    [] dom = "shell" -> ShellSeeds
    [] dom \in {"glob-ref", "glob-path"} -> GlobSeeds
    [] dom = "permission" -> PermSeeds
    [] dom = "event-name" -> EventSeeds
    [] dom = "input-type" -> InputTypeSeeds
    [] dom = "inherit" -> {W("inherit")}
    [] dom \in {"id", "needs-id"} -> IdSeeds
    [] dom = "regex" -> RegexSeeds
    [] dom = "bool" -> {W("true"), W("false")}
    [] dom = "int" -> {W("0"), <<"-", "1">>, <<"0x", "1f">>, <<"2147483648">>}
    [] dom = "float" -> {<<"1", ".", "0">>, <<".", "inf">>, <<"1", "e", "5">>}
    [] OTHER -> {}

\* template / string positions whose text a rule interprets, recognised by the tail of the schema position
Tail1(s) == IF Len(s) >= 1 THEN s[Len(s)] ELSE ""
Tail2(s) == IF Len(s) >= 2 THEN s[Len(s) - 1] ELSE ""
IsSite(s, a) == Tail1(s) = a \/ (Tail1(s) = "[]" /\ Tail2(s) = a)
RunnerSeeds == { <<"ubuntu", "-", "latest">>, <<"windows", "-", "2022">>, <<"macos", "-", "14", "-", "xlarge">>, <<"self", "-", "hosted">>,
                 W("windows"), W("macos"), W("linux"), W("x64"), W("arm64"), W("gpu"), <<"ubuntu", "-", "latest", "-", "4", "-", "cores">>,
                 <<"${{", " matrix.os ", "}}">>, <<"ubuntu", "-", "${{", " matrix.v ", "}}">> }
TypeSeeds == { W("opened"), W("completed"), W("published"), W("created"), <<"ready", "_", "for", "_", "review">>, W("unknown-type") }
ImageSeeds == { <<"docker://", "alpine", ":", "3">>, <<"ghcr.io/", "o/i", ":", "tag">>, <<"node", ":", "18", "@", "sha256:", "abc">>, <<":", "tag">>, <<"img", ":">>,
                <<"${{", " matrix.image ", "}}">> }
UsingSeeds == { <<"node", "20">>, <<"node", "16">>, W("node"), W("composite"), W("docker"), <<"node", "2x">> }
BoolTextSeeds == { W("true"), W("false"), W("yes"), W("1") }
SiteSeeds(s) ==
  IF IsSite(s, "runs-on") \/ IsSite(s, "labels") THEN RunnerSeeds
  ELSE IF IsSite(s, "types") THEN TypeSeeds
  ELSE IF Tail1(s) = "image" \/ Tail1(s) = "container" \/ Tail2(s) = "services" THEN ImageSeeds
  ELSE IF Tail1(s) = "using" THEN UsingSeeds
  ELSE IF Tail1(s) \in {"default", "required"} THEN BoolTextSeeds
  ELSE IF IsSite(s, "ports") THEN { <<"80", ":", "8080", "/", "tcp">>, <<"${{", " 1 ", "}}", ":", "1">> }
  ELSE IF Tail1(s) \in {"icon", "color"} THEN { W("activity"), W("blue"), <<"gray", "-", "dark">> }
  ELSE IF Tail1(s) \in {"main", "pre", "post", "entrypoint", "working-directory"} THEN { <<"..", "/", "x">>, <<"/", "abs">>, <<".", "/", "a", "/", "..", "/", "b">> }
  ELSE {}

\* expression texts: every special function, context and operator class that expr_sema.go / expr_type.go / expr_insecure.go
\* switch on (the harness writes them in every letter case through FX)
ExprTexts == << "always()", "success() && failure() || cancelled()", "!cancelled()", "contains(github.ref, 'x')", "contains(fromJSON('[1]'), 1)",
                "startsWith('a', 1)", "endsWith(null, true)", "format('{0}{1}', 1)", "format('{', 1)", "format('{0', 1)", "format('}}{0}{{', 1)",
                "format('{{0}}')", "format('{9999999999}', 1)", "format('{-1}', 1)", "format(github.ref)", "format()", "join(github.event.*.x, ',')",
                "join(1)", "toJSON(github)", "fromJSON('')", "fromJSON('{')", "fromJSON('[1,')", "fromJSON('null')",
                "fromJSON('{\"a\":{\"A\":[1,\"x\",null,{}]}}').a.a[0]",
                "fromJSON('1e999')", "fromJSON(github.ref).x.*.y", "hashFiles('**/x', 1)", "hashFiles()", "unknownFunc()", "github['event']['x']", "github['']",
                "github.*", "github.event.*.*", "github.event.issue.title", "github.event.pull_request.head.ref", "github.event.commits.*.message",
                "steps.x.outputs['a']", "steps.*.outputs", "matrix.*", "matrix.os.x", "needs.*.outputs.*", "needs.prep.result", "secrets.GITHUB_TOKEN",
                "secrets.github_x", "secrets.*", "env.x", "vars.x", "vars.DEPLOY_ENV", "inputs.x", "inputs.*", "jobs.x.outputs.y", "runner.os", "job.services.*.ports.*",
                "strategy.job-index", "github.event == github.event", "github.event < 1", "fromJSON('[]') == fromJSON('{}')", "null == 0", "'a' < 1", "true > false",
                "github.*  == 1", "!0", "!!github", "0x1F", "1e3", "-1", "1.", ".5", "1e", "''''", "'a' && 'b' || !'c'", "((((1))))", "(", "a.", "a[", "a[1", "a(1,", "a.b.c.d.e.f.g.h",
                "1 == 1 == 1", "a ? b : c", "a && || b", "NaN", "Infinity", "null.x", "true()", "always", "github.event.inputs.x", "matrix['a']['b'].*['c']" >>
ExprWrap(dom, t) == IF dom = "ifcond" THEN {<<t>>, <<"${{", " ", t, " ", "}}">>, <<"${{", " ", t, " ", "}}", " && ", "${{", " true ", "}}">>}
                    ELSE {<<"${{", " ", t, " ", "}}">>}

----------------------------------------------------------------------------
(* Generator *)
VARIABLES ch, b, path, tc
vars == <<ch, b, path, tc>>

Export == ToJson([prop |-> "export",
                  docs |-> [workflow |-> Bases, reusable |-> ChanDocs("reusable"), action |-> ChanDocs("action"),
                            config |-> ChanDocs("config")],
                  callers |-> [action |-> ActionCaller, reusable |-> ReusableCaller, config |-> ConfigWorkflow,
                               config_dirty |-> ConfigDirty],
                  allowed |-> [c \in AllChans |-> Allowed(c)], propallowed |-> PropAllowed, limit_ms |-> TimeLimitMs])
Nav == ToJson([prop |-> "nav"])

Doc == ChanDocs(ch)[b]
RootT == ChanRoot(ch)
Here == NodeAt(Doc, path)
Site == SitePath(RootT, Doc, path)
RECURSIVE UType(_, _, _)
UType(t, d, p) == IF p = <<>> THEN t ELSE LET r == Resolve(t, d) IN UType(KidT(r, d, Head(p)), Kid(d, Head(p)), Tail(p))
HereU == UType(RootT, Doc, path)            \* unresolved type (alternatives kept)
HereT == Resolve(HereU, Here)
Parent == NodeAt(Doc, Front(path))
DomHere == IF HereT.k = "scalar" THEN HereT.dom ELSE "raw"
IsScalarPos == Here.k = "s" /\ ~IsNull(Here) /\ HereT.k \in {"scalar", "raw"}

Init == ch = "" /\ b = 0 /\ path = <<>> /\ tc = Export
Start == /\ tc = Export
         /\ \E c \in Chans : \E i \in BaseIdx(c) : ch' = c /\ b' = i
         /\ path' = <<>> /\ tc' = Nav
Descend == /\ tc = Nav
           /\ \E i \in 1 .. NKids(Here) : path' = Append(path, i)
           /\ UNCHANGED <<ch, b, tc>>

H1 == "VERIFHOLE1"
H2 == "VERIFHOLE2"
SetHole(p, h) == [op |-> "set", path |-> p, v |-> h, st |-> ""]
FrontAnchor(h) == [op |-> "ins", path |-> <<>>, at |-> 1, key |-> "x-anchors", case |-> "", val |-> [k |-> "s", v |-> h, st |-> ""]]
TagOf(f) == IF f.k \in {"s", "rep", "sx", "px", "q", "m"} THEN f.tag ELSE "none"

Vec(mut, label, ops, holes, decos, exp) ==
  [prop |-> "C01", ch |-> ch, b |-> b, path |-> path, site |-> Site, tk |-> HereU.k, dom |-> DomHere,
   mut |-> mut, label |-> label, ops |-> ops, holes |-> holes, decos |-> decos, raw |-> <<>>,
   multi |-> [proj |-> TRUE, files |-> <<>>], gen |-> [shape |-> "", a |-> 0, b |-> 0],
   exp |-> exp, allowed |-> Allowed(ch)]

\* replacement of the node by a fragment
ReplaceVec(mut, label, f) ==
  Vec(mut, label, <<SetHole(path, H1)>>, <<[id |-> H1, f |-> f]>>, <<>>,
      Handling(ch, HereU, IF ch = "workflow" THEN KindOf(f) ELSE KindD(f), TagOf(f), Site))

ScalarFrags ==
  {FS("none", v) : v \in ValueClass(DomHere)} \cup {FS(g, <<CrossVals[j]>>) : g \in Tags, j \in DOMAIN CrossVals}
  \cup {FS(g, Exemplar(DomHere)) : g \in Tags}
\* at positions that are not scalar positions only the cross values
ScalarFragsAt == IF IsScalarPos THEN ScalarFrags ELSE {FS(g, <<CrossVals[j]>>) : g \in Tags \cup {"none"}, j \in DOMAIN CrossVals}

EmitScalar == /\ "scalar" \in MutKinds /\ tc = Nav /\ path # <<>>
              /\ \E f \in ScalarFragsAt : tc' = ToJson(ReplaceVec("scalar", f.tag, f))
              /\ UNCHANGED <<ch, b, path>>
EmitSeq == /\ "seq" \in MutKinds /\ tc = Nav /\ path # <<>>
           /\ \E g \in (IF ch = "workflow" THEN {"none", "!!seq", "!!str", "!!null", "!verif"} ELSE CollTags) : \E f \in SeqFrags(g) : tc' = ToJson(ReplaceVec("seq", g, f))
           /\ UNCHANGED <<ch, b, path>>
EmitMap == /\ "map" \in MutKinds /\ tc = Nav /\ path # <<>>
           /\ \E g \in (IF ch = "workflow" THEN {"none", "!!map", "!!str", "!!null", "!verif"} ELSE CollTags) : \E f \in MapFrags(g) : tc' = ToJson(ReplaceVec("map", g, f))
           /\ UNCHANGED <<ch, b, path>>
EmitNest == /\ "nest" \in MutKinds /\ tc = Nav /\ path # <<>>
            /\ \E n \in Depths, kd \in {"q", "m", "qm"} : tc' = ToJson(ReplaceVec("nest", kd, FNest(kd, n)))
            /\ UNCHANGED <<ch, b, path>>
EmitLong == /\ "long" \in MutKinds /\ tc = Nav /\ IsScalarPos
            /\ \E n \in LongReps, g \in {"none", "!!str"}, i \in {1, 2} :
                 /\ i <= Len(Exemplar(DomHere))
                 /\ tc' = ToJson(ReplaceVec("long", g, FRep(g, Exemplar(DomHere)[i], n)))
            /\ UNCHANGED <<ch, b, path>>

\* `${{`-fragments: at the first scalar of each domain of each base
RECURSIVE FirstDom(_, _, _, _), FirstDomOf(_, _, _, _, _)
FirstDom(t, d, p, dom) ==
  LET r == Resolve(t, d) IN
  IF d.k = "s" THEN (IF ~IsNull(d) /\ r.k \in {"scalar", "raw"} /\ (IF r.k = "scalar" THEN r.dom ELSE "raw") = dom THEN p ELSE <<0>>)
  ELSE FirstDomOf(r, d, p, dom, 1)
FirstDomOf(r, d, p, dom, i) ==
  IF i > NKids(d) THEN <<0>>
  ELSE LET x == FirstDom(KidT(r, d, i), Kid(d, i), Append(p, i), dom) IN
       IF x # <<0>> THEN x ELSE FirstDomOf(r, d, p, dom, i + 1)
EmitExpr == /\ "expr" \in MutKinds /\ tc = Nav /\ IsScalarPos
            /\ FirstDom(RootT, Doc, <<>>, DomHere) = path
            /\ \E x \in ExprFrags : tc' = ToJson(ReplaceVec("expr", "none", FS("none", x)))
            /\ UNCHANGED <<ch, b, path>>

\* values derived from the recognisers of the rules
EmitRecog ==
  /\ "recog" \in MutKinds /\ tc = Nav /\ IsScalarPos
  /\ \/ \E x \in DomSeeds(DomHere) \cup SiteSeeds(Site) : \E f \in RecogFrags(x) : tc' = ToJson(ReplaceVec("recog", f.k, f))
     \/ /\ IF RecogAll THEN TRUE ELSE FirstDom(RootT, Doc, <<>>, DomHere) = path
        /\ DomHere \in {"template", "script", "ifcond", "expr", "raw", "str", "bool", "int", "float"}
        /\ \E j \in DOMAIN ExprTexts : \E x \in ExprWrap(DomHere, ExprTexts[j]) :
             \/ tc' = ToJson(ReplaceVec("recog", "expr", FS("none", x)))
             \/ \E c \in CaseForms : tc' = ToJson(ReplaceVec("recog", "expr-" \o c, FX(c, x)))
  /\ UNCHANGED <<ch, b, path>>

\* alias to an anchored node defined in front of everything else / alias to an enclosing node / undefined alias
EmitAlias ==
  /\ "alias" \in MutKinds /\ tc = Nav /\ path # <<>>
  /\ \/ \E j \in DOMAIN AliasTargets :
          LET tg == AliasTargets[j]
              f == FAlias("x", KindOf(tg)) IN
          tc' = ToJson(Vec("alias", "front", <<FrontAnchor(H2), SetHole(path, H1)>>,
                           <<[id |-> H1, f |-> f], [id |-> H2, f |-> Anch(tg, "x")]>>, <<>>,
                           IF ch = "workflow" THEN "diag" ELSE Handling(ch, HereU, KindOf(tg), TagOf(tg), Site)))
     \/ /\ Len(path) >= 2 /\ NodeAt(Doc, Front(Front(path))).k = "m"
        /\ tc' = ToJson(Vec("alias", "cycle", <<SetHole(path, H1)>>, <<[id |-> H1, f |-> FAlias("x", "m")]>>,
                            <<[path |-> Front(path), pre |-> "&x"]>>,
                            \* a decoder only fails on a self-containing anchor if it descends into it
                            IF ch = "workflow" THEN "diag" ELSE "any"))
     \/ tc' = ToJson(Vec("alias", "undefined", <<SetHole(path, H1)>>, <<[id |-> H1, f |-> FAlias("nope", "alias")]>>, <<>>,
                         IF ch = "reusable" THEN "any" ELSE Bad(ch)))
  /\ UNCHANGED <<ch, b, path>>

\* tag / anchor in front of the EXISTING node
NeedsFlow == Len(path) >= 1 /\ Parent.k = "q" /\ Here.k \in {"m", "q"} /\ NKids(Here) > 0
FlowOps == IF NeedsFlow THEN <<[op |-> "style", path |-> path, st |-> "flow"]>> ELSE <<>>
HereKind == IF Here.k = "s" THEN (IF IsNull(Here) THEN "null" ELSE "s") ELSE Here.k
EmitTagged ==
  /\ "tagged" \in MutKinds /\ tc = Nav /\ path # <<>>
  /\ \E g \in (IF ch # "workflow" /\ Here.k \in {"m", "q"} THEN CollTags \ {"none"} ELSE Tags \cup {"!!seq", "!!map"}) :
       tc' = ToJson(Vec("tagged", g, FlowOps, <<>>, <<[path |-> path, pre |-> g]>>,
                        IF ch = "workflow" /\ HereKind = "s" THEN HandlingW(HereU, "s", g) ELSE "any"))
  /\ UNCHANGED <<ch, b, path>>
EmitAnchored ==
  /\ "anchored" \in MutKinds /\ tc = Nav /\ path # <<>>
  /\ \E pre \in {"&x", "&x !!str", "!verif &x", "&a-very.long/anchor_name"} :
       tc' = ToJson(Vec("anchored", pre, FlowOps, <<>>, <<[path |-> path, pre |-> pre]>>, "any"))
  /\ UNCHANGED <<ch, b, path>>

\* merge key `<<` put into the mapping
MergeVals == << [f |-> FAlias("x", "m"), tg |-> FM("none", << <<FW("mk"), FW("mv")>> >>)],
                [f |-> FAlias("x", "s"), tg |-> FW("scalar")],
                [f |-> FAlias("x", "q"), tg |-> FQ("none", <<FW("e")>>)],
                [f |-> FM("none", << <<FW("mk"), FW("mv")>> >>), tg |-> FW("unused")],
                [f |-> FQ("none", <<FAlias("x", "m"), FAlias("x", "m")>>), tg |-> FM("none", << <<FW("mk"), FW("mv")>> >>)],
                [f |-> FQ("none", <<FW("e")>>), tg |-> FW("unused")],
                [f |-> FW("scalar"), tg |-> FW("unused")],
                [f |-> FW("~"), tg |-> FW("unused")] >>
Closed(r) == r.k = "map" /\ r.open.k = "none"
EmitMerge ==
  /\ "merge" \in MutKinds /\ tc = Nav /\ Here.k = "m" /\ HereT.k \in {"map", "raw"}
  /\ \E j \in DOMAIN MergeVals, at \in {1, NKids(Here) + 1} :
       tc' = ToJson(Vec("merge", IF at = 1 THEN "first" ELSE "last",
                        <<FrontAnchor(H2), [op |-> "ins", path |-> path, at |-> at, key |-> "<<", case |-> "",
                                             val |-> [k |-> "s", v |-> H1, st |-> ""]]>>,
                        <<[id |-> H1, f |-> MergeVals[j].f], [id |-> H2, f |-> Anch(MergeVals[j].tg, "x")]>>, <<>>,
                        \* the hand-written parser knows no merge keys: `<<` is an unknown key of a closed key set
                        IF ch = "workflow" THEN "diag" ELSE "any"))
  /\ UNCHANGED <<ch, b, path>>

\* the KEY of the entry replaced
K1 == "VERIFKEY1"
EmitKey ==
  /\ "key" \in MutKinds /\ tc = Nav /\ path # <<>> /\ Parent.k = "m"
  /\ \E f \in KeyFrags :
       tc' = ToJson(Vec("key", f.k, <<[op |-> "key", path |-> path, key |-> K1]>>, <<[id |-> K1, f |-> f]>>, <<>>,
                        LET pt == Resolve(UType(RootT, Doc, Front(path)), Parent) IN
                        IF ch = "workflow" /\ Closed(pt) THEN "diag" ELSE "any"))
  /\ UNCHANGED <<ch, b, path>>

\* cycles through anchors: YAML lets an alias name an ENCLOSING node (its anchor exists from the node's start), so
\* a mapping can merge itself, two nested anchors can merge each other, and any node can point at an ancestor
CycOps(extra) == (IF path # <<>> /\ Parent.k = "q" THEN <<[op |-> "style", path |-> path, st |-> "flow"]>> ELSE <<>>) \o extra
InsHere(at, key, h) == [op |-> "ins", path |-> path, at |-> at, key |-> key, case |-> "", val |-> [k |-> "s", v |-> h, st |-> ""]]
CycExp == IF ch = "workflow" THEN "diag" ELSE "any"
EmitCycle ==
  /\ "cycle" \in MutKinds /\ tc = Nav /\ Here.k = "m"
  /\ LET n == NKids(Here)
         me == <<[path |-> path, pre |-> "&c"]>> IN
     \/ \E at \in {1, n + 1} : \E f \in { FAlias("c", "m"), FQ("none", <<FAlias("c", "m"), FAlias("c", "m")>>),
                                          FM("none", << <<FW("<<"), FAlias("c", "m")>> >>) } :
          tc' = ToJson(Vec("cycle", "self-merge", CycOps(<<InsHere(at, "<<", H1)>>), <<[id |-> H1, f |-> f]>>, me, CycExp))
     \/ tc' = ToJson(Vec("cycle", "mutual-merge", CycOps(<<InsHere(1, "x-cyc", H2), InsHere(n + 1, "<<", H1)>>),
                         <<[id |-> H1, f |-> FAlias("d", "m")],
                           [id |-> H2, f |-> Anch(FM("none", << <<FW("<<"), FAlias("c", "m")>>, <<FW("k"), FW("v")>> >>), "d")]>>, me, CycExp))
     \/ \E at \in {1, n + 1} :
          tc' = ToJson(Vec("cycle", "self-value", CycOps(<<InsHere(at, "x-cyc", H1)>>), <<[id |-> H1, f |-> FAlias("c", "m")]>>, me, CycExp))
     \/ tc' = ToJson(Vec("cycle", "self-key", CycOps(<<InsHere(n + 1, K1, H1)>>),
                         <<[id |-> K1, f |-> FAlias("c", "m")], [id |-> H1, f |-> FW("v")]>>, me, CycExp))
     \/ /\ path # <<>>
        /\ \E anc \in {<<>>, Front(path)} : \E key \in {"<<", "x-cyc"} :
             /\ anc = <<>> \/ (Len(anc) >= 1 /\ NodeAt(Doc, Front(anc)).k = "m")
             /\ tc' = ToJson(Vec("cycle", "ancestor", CycOps(<<InsHere(1, key, H1)>>), <<[id |-> H1, f |-> FAlias("c", "m")]>>,
                                 <<[path |-> anc, pre |-> "&c"]>>, CycExp))
  /\ UNCHANGED <<ch, b, path>>

\* DEPTH family: inputs far inside the size bound whose NESTING is deep.  An expression shape is pre^n leaf post^n;
\* the harness repeats the parts (fragment kind "px": toks = <<head, pre, leaf, post, tail>>, n = depth).
FPx(head, sh, tail, n) == Frag("px", "none", "", <<head, sh[1], sh[2], sh[3], tail>>, <<>>, <<>>, n)
ExprShapes == << <<"!(", "true", ") && true">>,           \* negated, parenthesised && chain (narrowing at every level)
                 <<"(", "true", " && true)">>,             \* left nested
                 <<"(true || ", "false", ")">>,            \* right nested
                 <<"(!(github.ref == 'a' && ", "true", ") || false)">>,
                 <<"!", "github.ref", "">>,                \* !!!!...x
                 <<"(", "1", ")">>,
                 <<"github.event[", "0", "]">>,            \* a[b[c[...]]]
                 <<"format(", "'x'", ")">>,                \* f(f(f(...)))
                 <<"fromJSON(toJSON(", "github", "))">>,
                 <<"contains(github.ref, ", "'x'", ") && true">>,
                 <<"", "github", ".event">>,               \* a.b.c....
                 <<"", "github.event", ".*">>,
                 <<"", "true", " && !false || 1 == 1">>,   \* long flat operator chain
                 <<"", "github.event", "['a'].b[0]">> >>
\* merge / alias chain of n anchored mappings, each merging the previous one (fragment kind "chain")
FChain(prefix, n) == Frag("chain", "none", prefix, <<>>, <<>>, <<>>, n)
DepthWraps(dom) == CASE dom = "ifcond" -> {<<"", "">>, <<"${{ ", " }}">>, <<"${{ ", " }} && true">>}
                     [] dom = "script" -> {<<"echo ${{ ", " }}">>}
                     [] OTHER -> {<<"${{ ", " }}">>}
EmitDepth ==
  /\ "depth" \in MutKinds /\ tc = Nav
  /\ \/ /\ IsScalarPos
        /\ DomHere \in {"template", "script", "ifcond", "expr", "bool", "int", "float", "raw", "str"}
        /\ IF RecogAll /\ DomHere \in {"script", "ifcond", "expr"} THEN TRUE ELSE FirstDom(RootT, Doc, <<>>, DomHere) = path
        /\ \E j \in DOMAIN ExprShapes, n \in ExprDepths, w \in DepthWraps(DomHere) :
             tc' = ToJson(ReplaceVec("depth", "expr-" \o ToString(j), FPx(w[1], ExprShapes[j], w[2], n)))
     \/ /\ Here.k = "m" /\ HereT.k \in {"map", "raw"}
        /\ \E n \in ChainDepths, how \in {"<<", "x-chain"} :
             tc' = ToJson(Vec("depth", "alias-chain", <<FrontAnchor(H2), InsHere(NKids(Here) + 1, how, H1)>>,
                              <<[id |-> H1, f |-> FAlias("c" \o ToString(n), "m")], [id |-> H2, f |-> FChain("c", n)]>>, <<>>,
                              IF ch = "workflow" THEN "diag" ELSE "any"))
  /\ UNCHANGED <<ch, b, path>>

\* multi-byte text IN FRONT OF a diagnosed position on the same line (columns of errors inside ${{ }} come from byte
\* offsets, snippets are sliced by them): k characters of 2, 3 and 4 bytes, a combining mark, a zero-width joiner,
\* in the same scalar and in the key of the entry; run through the snippet-printing output formats
MbChars == <<"@@EACUTE", "@@WIDE", "@@EMOJI", "@@COMB", "@@WIDE@@ZWJ@@EMOJI">>
MbErr == <<" ${{ foo }}", " ${{ github.nosuch }} ${{ a.. }}">>
EmitMbyte ==
  /\ "mbyte" \in MutKinds /\ tc = Nav /\ IsScalarPos
  /\ \E j \in DOMAIN MbChars, k \in {1, 4, 16}, e \in DOMAIN MbErr :
       \/ tc' = ToJson(ReplaceVec("mbyte", "scalar", Frag("px", "none", "", <<"", MbChars[j], MbErr[e], "", "">>, <<>>, <<>>, k)))
       \/ /\ Parent.k = "m"
          /\ tc' = ToJson(Vec("mbyte", "key", <<[op |-> "key", path |-> path, key |-> K1], SetHole(path, H1)>>,
                              <<[id |-> K1, f |-> Frag("px", "none", "", <<"k", MbChars[j], "", "", "">>, <<>>, <<>>, k)],
                                [id |-> H1, f |-> FW("x${{ foo }}")]>>, <<>>, "any"))
  /\ UNCHANGED <<ch, b, path>>

\* GRAPH-shaped inputs: small documents in which a structure that is walked naively is re-walked exponentially or
\* quadratically often.  The spec names shape and parameters; the harness writes the document (robust.go: rbGenDoc).
GraphShapes ==
  {[shape |-> "needs-layers", a |-> k, b |-> n] : k \in {2, 3}, n \in {20, 40, 80}}          \* k jobs per layer x n layers, complete between layers
  \cup {[shape |-> "needs-layers-cycle", a |-> 2, b |-> n] : n \in {20, 40}}                   \* the same closed into a cycle
  \cup {[shape |-> "needs-chain", a |-> 1, b |-> n] : n \in {100, 500}}
  \cup {[shape |-> "needs-complete", a |-> 1, b |-> n] : n \in {30, 60}}                       \* job i needs every job j < i
  \cup {[shape |-> "needs-fan-in", a |-> 1, b |-> 300], [shape |-> "needs-fan-out", a |-> 1, b |-> 300]}
  \cup {[shape |-> "needs-dup", a |-> 1, b |-> 300]}                                          \* one job listing the same need n times
  \cup {[shape |-> "laughs", a |-> w, b |-> n] : w \in {2, 9}, n \in {10, 20, 30}}             \* billion-laughs anchors: level i = w aliases of level i-1
  \cup {[shape |-> "matrix", a |-> r, b |-> n] : r \in {5, 40}, n \in {20, 200}}              \* r rows (x 5 values) with n include and n exclude entries
  \cup {[shape |-> "same-step-id", a |-> 1, b |-> 500], [shape |-> "many-steps", a |-> 1, b |-> 500]}
  \cup {[shape |-> "many-placeholders", a |-> e, b |-> n] : e \in {0, 1}, n \in {300, 3000}}   \* n placeholders in one scalar (a = 1: the last one is wrong)
  \cup {[shape |-> "many-jobs", a |-> 1, b |-> 400], [shape |-> "many-env", a |-> 1, b |-> 1500], [shape |-> "many-outputs", a |-> 1, b |-> 500]}
  \cup {[shape |-> "many-inputs", a |-> 1, b |-> 500], [shape |-> "many-labels", a |-> 1, b |-> 1000], [shape |-> "many-patterns", a |-> 1, b |-> 500]}
EmitGraph ==
  /\ "graph" \in MutKinds /\ tc = Nav /\ path = <<>> /\ b = CHOOSE i \in BaseIdx(ch) : \A j \in BaseIdx(ch) : i <= j
  /\ \E g \in GraphShapes :
       tc' = ToJson([Vec("graph", g.shape, <<>>, <<>>, <<>>, "any") EXCEPT !.gen = g])
  /\ UNCHANGED <<ch, b, path>>

\* several files in one run, inside and OUTSIDE a project (no .git / .github/workflows above them: the caches of
\* local actions and local reusable workflows are the null caches then)
MultiUses == UNION {NearMiss(x) : x \in CallUsesSeeds} \cup {<<"./foo.yml", "@", "main">>, <<"./", "act">>, <<"./">>, <<"./", "missing">>}
JobCall(u) == <<"on: push\njobs:\n  c:\n    uses: '">> \o u \o <<"'\n">>
StepCall(u) == <<"on: push\njobs:\n  j:\n    runs-on: ubuntu-latest\n    steps:\n      - uses: '">> \o u \o <<"'\n        with:\n          a: b\n">>
PlainWf == <<"on:\n  workflow_call:\n    inputs:\n      a:\n        type: string\njobs:\n  j:\n    runs-on: ubuntu-latest\n    steps:\n      - run: echo\n">>
EmitMulti ==
  /\ "multi" \in MutKinds /\ tc = Nav /\ path = <<>> /\ ch = "workflow"
  /\ \E u \in MultiUses, proj \in BOOLEAN, shape \in {"job", "step"}, nf \in {1, 2, 3} :
       LET a == IF shape = "job" THEN JobCall(u) ELSE StepCall(u)
           fs == <<[name |-> "a.yml", raw |-> a], [name |-> "foo.yml", raw |-> PlainWf], [name |-> "c.yml", raw |-> a]>> IN
       tc' = ToJson([Vec("multi", shape, <<>>, <<>>, <<>>, "any") EXCEPT !.multi = [proj |-> proj, files |-> SubSeq(fs, 1, nf)]])
  /\ UNCHANGED <<ch, b, path>>

\* whole documents that are not mappings
EmitRoot ==
  /\ "root" \in MutKinds /\ tc = Nav /\ path = <<>>
  /\ \E r \in RootDocs :
       tc' = ToJson([Vec("root", "raw", <<>>, <<>>, <<>>, "any") EXCEPT !.raw = r])
  /\ UNCHANGED <<ch, b, path>>

Next == Start \/ Descend \/ EmitRecog \/ EmitScalar \/ EmitSeq \/ EmitMap \/ EmitNest \/ EmitLong \/ EmitExpr \/ EmitAlias
        \/ EmitTagged \/ EmitAnchored \/ EmitMerge \/ EmitKey \/ EmitRoot \/ EmitCycle \/ EmitMulti \/ EmitDepth \/ EmitMbyte \/ EmitGraph
Spec == Init /\ [][Next]_vars

NodesTyped == tc = Nav => HereT.k # "none"
=============================================================================
